/* Protocol-level operations of the line protocol (property C06): RSA / Rabin / Benaloh / Paillier family, ECIES, ECDH, ECMQV,
 * Pedersen, Shamir sharing, multiplication triples, RSA-based PSI.
 *
 * Keys live in oracle state and are created by context lines (`*_param`), which print the complete key material so that the
 * Lean driver can decrypt independently.  Every operation that draws randomness re-seeds the DRBG from a token of its own line,
 * so each line is reproducible in isolation (after its context line). */
#include "oracle.h"
#include "relic_cp.h"
#include "relic_mpc.h"
#include "relic_md.h"
#include "relic_rand.h"
#include <unistd.h>

/* a call that does not return is turned into a process exit the harness attributes to the line (SIGALRM) */
#define WATCHDOG_ON() alarm(6)
#define WATCHDOG_OFF() alarm(0)

#define CPB (1 << 16)
#define GUARD 64
static uint8_t I1[CPB], O1[CPB + 2 * GUARD], O2[CPB + 2 * GUARD];

static void seed_from(const char *hex) {
	uint8_t s[512];
	int n = bytes_parse(s, sizeof(s), hex);
	core_get()->seeded = 0;
	rand_seed(s, n);
}

/* minimal hex of the magnitude with sign, no representation detail */
static void hexbn(const bn_t b) {
	char buf[(RLC_BN_SIZE + 2) * (RLC_DIG / 4) + 4];
	int p = 0;
	if (b->used < 0 || b->used > RLC_BN_SIZE) { fprintf(OUT, "BAD-USED"); return; }
	for (int i = b->used - 1; i >= 0; i--) p += sprintf(buf + p, "%0*llx", RLC_DIG / 4, (unsigned long long)b->dp[i]);
	buf[p] = 0;
	char *s = buf;
	while (*s == '0' && s[1] != 0) s++;
	if (p == 0) s = (char *)"0";
	int zero = (s[0] == '0' && s[1] == 0);
	fprintf(OUT, "%s%s", (b->sign == RLC_NEG && !zero) ? "-" : "", s);
}

static void kv(const char *k, const bn_t b) { fprintf(OUT, " %s=", k); hexbn(b); }

static void bn_tok(bn_t b, const char *tok) {
	raw_t r;
	raw_parse(&r, tok);
	raw_to_bn(b, &r);
}

/* caller buffer of capacity cap inside O with guard zones on both sides, filled with 0xEE */
static uint8_t *obuf(uint8_t *O, size_t cap) { memset(O, 0xEE, cap + 2 * GUARD); return O + GUARD; }
static int guard_bad(const uint8_t *O, size_t cap) {
	for (int i = 0; i < GUARD; i++) if (O[i] != 0xEE || O[GUARD + cap + i] != 0xEE) return 1;
	return 0;
}
static int touched(const uint8_t *O, size_t cap) {
	for (size_t i = 0; i < cap; i++) if (O[GUARD + i] != 0xEE) return 1;
	return 0;
}

/* ---------------------------------------------------------------------------------------------------------------- */
/* RSA */
static rsa_t rsa_pub, rsa_prv;
static int rsa_ready = 0;

static void rsa_init(void) {
	static int done = 0;
	if (!done) { rsa_null(rsa_pub); rsa_null(rsa_prv); rsa_new(rsa_pub); rsa_new(rsa_prv); done = 1; }
}

static void rsa_print(int rc) {
	fprintf(OUT, "rsa_param rc=%d pad=%d crt=%d", rc, (int)CP_RSAPD,
#ifdef CP_CRT
		1
#else
		0
#endif
	);
	kv("n", rsa_pub->crt->n); kv("e", rsa_pub->e); kv("d", rsa_prv->d); kv("p", rsa_prv->crt->p); kv("q", rsa_prv->crt->q);
	kv("dp", rsa_prv->crt->dp); kv("dq", rsa_prv->crt->dq); kv("qi", rsa_prv->crt->qi); kv("np", rsa_prv->crt->n);
	fputc('\n', OUT);
}

/* rsa_param <bits> <seed> : cp_rsa_gen with a seeded generator */
static void op_rsa_param(int argc, char **argv) {
	if (argc < 3) { fprintf(OUT, "bad-args\n"); return; }
	int bits = parse_int(argv[1]), rc = RLC_ERR, caught = 0;
	rsa_init(); rsa_ready = 0;
	if (bits < 16 || bits > RLC_BN_BITS) { fprintf(OUT, "bad-args\n"); return; }
	seed_from(argv[2]);
	RLC_TRY { rc = cp_rsa_gen(rsa_pub, rsa_prv, bits); } RLC_CATCH_ANY { caught = 1; }
	if (take_err() || caught || rc != RLC_OK) { fprintf(OUT, "err\n"); return; }
	rsa_ready = 1;
	rsa_print(rc);
}

/* rsa_key_param <n> <e> <d> <p> <q> <dp> <dq> <qi> : key material presented by the caller */
static void op_rsa_key_param(int argc, char **argv) {
	if (argc < 9) { fprintf(OUT, "bad-args\n"); return; }
	rsa_init();
	bn_tok(rsa_pub->crt->n, argv[1]); bn_tok(rsa_prv->crt->n, argv[1]);
	bn_tok(rsa_pub->e, argv[2]); bn_tok(rsa_prv->e, argv[2]); bn_tok(rsa_prv->d, argv[3]);
	bn_tok(rsa_prv->crt->p, argv[4]); bn_tok(rsa_prv->crt->q, argv[5]);
	bn_tok(rsa_prv->crt->dp, argv[6]); bn_tok(rsa_prv->crt->dq, argv[7]); bn_tok(rsa_prv->crt->qi, argv[8]);
	rsa_ready = 1;
	rsa_print(0);
}

/* common tail: decrypt `ct` (length cl) into a buffer of capacity cap and print the result field */
static void rsa_dec_print(const uint8_t *ct, size_t cl, size_t cap) {
	int rc = RLC_ERR, caught = 0;
	uint8_t *out = obuf(O2, cap);
	size_t ol = cap;
	WATCHDOG_ON();
	RLC_TRY { rc = cp_rsa_dec(out, &ol, ct, cl, rsa_prv); } RLC_CATCH_ANY { caught = 1; }
	WATCHDOG_OFF();
	if (take_err() || caught || rc != RLC_OK) {
		fprintf(OUT, "err");
		if (touched(O2, cap)) fprintf(OUT, " OUT-MODIFIED");
	} else if (ol > cap) fprintf(OUT, "LEN-BEYOND-CAP:%d", (int)ol);
	else bytes_print(out, ol);
	if (guard_bad(O2, cap)) fprintf(OUT, " WROTE-PAST-END");
}

/* rsa_enc <seed> <outcap> <deccap> <msg> [<pos> <xor>] : encrypt, optionally flip bits of one ciphertext byte, decrypt.
 * Output: c=<ciphertext as presented to the decryption> m=<result of the decryption> */
static void op_rsa_enc(int argc, char **argv) {
	if (argc < 5 || !rsa_ready) { fprintf(OUT, "bad-args\n"); return; }
	size_t cap = (size_t)parse_int(argv[2]), dcap = (size_t)parse_int(argv[3]);
	int ml = bytes_parse(I1, CPB, argv[4]), rc = RLC_ERR, caught = 0;
	if (cap > CPB || dcap > CPB) { fprintf(OUT, "bad-args\n"); return; }
	uint8_t *out = obuf(O1, cap);
	size_t ol = cap;
	seed_from(argv[1]);
	RLC_TRY { rc = cp_rsa_enc(out, &ol, I1, ml, rsa_pub); } RLC_CATCH_ANY { caught = 1; }
	if (take_err() || caught || rc != RLC_OK) {
		fprintf(OUT, "err");
		if (guard_bad(O1, cap)) fprintf(OUT, " WROTE-PAST-END");
		fputc('\n', OUT); return;
	}
	if (ol > cap) { fprintf(OUT, "LEN-BEYOND-CAP:%d\n", (int)ol); return; }
	if (argc >= 7) {
		int pos = parse_int(argv[5]);
		if (pos >= 0 && (size_t)pos < ol) out[pos] ^= (uint8_t)strtol(argv[6], NULL, 16);
	}
	fprintf(OUT, "c="); bytes_print(out, ol);
	if (guard_bad(O1, cap)) fprintf(OUT, " WROTE-PAST-END");
	fprintf(OUT, " m=");
	rsa_dec_print(out, ol, dcap);
	fputc('\n', OUT);
}

/* rsa_dec <cap> <ct> */
static void op_rsa_dec(int argc, char **argv) {
	if (argc < 3 || !rsa_ready) { fprintf(OUT, "bad-args\n"); return; }
	size_t cap = (size_t)parse_int(argv[1]);
	int cl = bytes_parse(I1, CPB, argv[2]);
	if (cap > CPB) { fprintf(OUT, "bad-args\n"); return; }
	rsa_dec_print(I1, cl, cap);
	fputc('\n', OUT);
}

/* ---------------------------------------------------------------------------------------------------------------- */
/* Rabin */
static rabin_t rab_pub, rab_prv;
static int rab_ready = 0;

static void op_rabin_param(int argc, char **argv) {
	if (argc < 3) { fprintf(OUT, "bad-args\n"); return; }
	static int done = 0;
	int bits = parse_int(argv[1]), rc = RLC_ERR, caught = 0;
	if (!done) { rabin_null(rab_pub); rabin_null(rab_prv); rabin_new(rab_pub); rabin_new(rab_prv); done = 1; }
	rab_ready = 0;
	if (bits < 16 || bits > RLC_BN_BITS) { fprintf(OUT, "bad-args\n"); return; }
	seed_from(argv[2]);
	RLC_TRY { rc = cp_rabin_gen(rab_pub, rab_prv, bits); } RLC_CATCH_ANY { caught = 1; }
	if (take_err() || caught || rc != RLC_OK) { fprintf(OUT, "err\n"); return; }
	rab_ready = 1;
	fprintf(OUT, "rabin_param rc=%d", rc);
	kv("n", rab_pub->n); kv("p", rab_prv->p); kv("q", rab_prv->q); kv("dp", rab_prv->dp); kv("dq", rab_prv->dq); kv("np", rab_prv->n);
	fputc('\n', OUT);
}

static void rabin_dec_print(const uint8_t *ct, size_t cl, size_t cap) {
	int rc = RLC_ERR, caught = 0;
	uint8_t *out = obuf(O2, cap);
	size_t ol = cap;
	WATCHDOG_ON();
	RLC_TRY { rc = cp_rabin_dec(out, &ol, ct, cl, rab_prv); } RLC_CATCH_ANY { caught = 1; }
	WATCHDOG_OFF();
	if (take_err() || caught || rc != RLC_OK) {
		fprintf(OUT, "err");
		if (touched(O2, cap)) fprintf(OUT, " OUT-MODIFIED");
	} else if (ol > cap) fprintf(OUT, "LEN-BEYOND-CAP:%d", (int)ol);
	else bytes_print(out, ol);
	if (guard_bad(O2, cap)) fprintf(OUT, " WROTE-PAST-END");
}

/* rabin_enc <outcap> <deccap> <msg> [<pos> <xor>] */
static void op_rabin_enc(int argc, char **argv) {
	if (argc < 4 || !rab_ready) { fprintf(OUT, "bad-args\n"); return; }
	size_t cap = (size_t)parse_int(argv[1]), dcap = (size_t)parse_int(argv[2]);
	int ml = bytes_parse(I1, CPB, argv[3]), rc = RLC_ERR, caught = 0;
	if (cap > CPB || dcap > CPB) { fprintf(OUT, "bad-args\n"); return; }
	uint8_t *out = obuf(O1, cap);
	size_t ol = cap;
	RLC_TRY { rc = cp_rabin_enc(out, &ol, I1, ml, rab_pub); } RLC_CATCH_ANY { caught = 1; }
	if (take_err() || caught || rc != RLC_OK) {
		fprintf(OUT, "err");
		if (guard_bad(O1, cap)) fprintf(OUT, " WROTE-PAST-END");
		fputc('\n', OUT); return;
	}
	if (ol > cap) { fprintf(OUT, "LEN-BEYOND-CAP:%d\n", (int)ol); return; }
	if (argc >= 6) {
		int pos = parse_int(argv[4]);
		if (pos >= 0 && (size_t)pos < ol) out[pos] ^= (uint8_t)strtol(argv[5], NULL, 16);
	}
	fprintf(OUT, "c="); bytes_print(out, ol);
	if (guard_bad(O1, cap)) fprintf(OUT, " WROTE-PAST-END");
	fprintf(OUT, " m=");
	rabin_dec_print(out, ol, dcap);
	fputc('\n', OUT);
}

/* rabin_dec <cap> <ct> */
static void op_rabin_dec(int argc, char **argv) {
	if (argc < 3 || !rab_ready) { fprintf(OUT, "bad-args\n"); return; }
	size_t cap = (size_t)parse_int(argv[1]);
	int cl = bytes_parse(I1, CPB, argv[2]);
	if (cap > CPB) { fprintf(OUT, "bad-args\n"); return; }
	rabin_dec_print(I1, cl, cap);
	fputc('\n', OUT);
}

/* ---------------------------------------------------------------------------------------------------------------- */
/* Benaloh */
static bdpe_t bd_pub, bd_prv;
static int bd_ready = 0;

/* bdpe_param <block> <bits> <seed> */
static void op_bdpe_param(int argc, char **argv) {
	if (argc < 4) { fprintf(OUT, "bad-args\n"); return; }
	static int done = 0;
	dig_t block = (dig_t)parse_u64(argv[1]);
	int bits = parse_int(argv[2]), rc = RLC_ERR, caught = 0;
	if (!done) { bdpe_null(bd_pub); bdpe_null(bd_prv); bdpe_new(bd_pub); bdpe_new(bd_prv); done = 1; }
	bd_ready = 0;
	if (bits < 32 || bits > RLC_BN_BITS) { fprintf(OUT, "bad-args\n"); return; }
	seed_from(argv[3]);
	RLC_TRY { rc = cp_bdpe_gen(bd_pub, bd_prv, block, bits); } RLC_CATCH_ANY { caught = 1; }
	if (take_err() || caught || rc != RLC_OK) { fprintf(OUT, "err\n"); return; }
	bd_ready = 1;
	fprintf(OUT, "bdpe_param rc=%d t=%llx", rc, (unsigned long long)bd_pub->t);
	kv("n", bd_pub->n); kv("y", bd_pub->y); kv("p", bd_prv->p); kv("q", bd_prv->q); kv("np", bd_prv->n); kv("yp", bd_prv->y);
	fprintf(OUT, " tp=%llx\n", (unsigned long long)bd_prv->t);
}

static void bdpe_dec_print(const uint8_t *ct, size_t cl) {
	int rc = RLC_ERR, caught = 0;
	dig_t m = (dig_t)0xEEEEEEEEEEEEEEEEULL;
	RLC_TRY { rc = cp_bdpe_dec(&m, ct, cl, bd_prv); } RLC_CATCH_ANY { caught = 1; }
	if (take_err() || caught || rc != RLC_OK) {
		fprintf(OUT, "err");
		if (m != (dig_t)0xEEEEEEEEEEEEEEEEULL) fprintf(OUT, " OUT-MODIFIED");
	} else fprintf(OUT, "%llx", (unsigned long long)m);
}

/* bdpe_enc <seed> <outcap> <m> [<pos> <xor>] */
static void op_bdpe_enc(int argc, char **argv) {
	if (argc < 4 || !bd_ready) { fprintf(OUT, "bad-args\n"); return; }
	size_t cap = (size_t)parse_int(argv[2]);
	dig_t m = (dig_t)parse_u64(argv[3]);
	int rc = RLC_ERR, caught = 0;
	if (cap > CPB) { fprintf(OUT, "bad-args\n"); return; }
	uint8_t *out = obuf(O1, cap);
	size_t ol = cap;
	seed_from(argv[1]);
	RLC_TRY { rc = cp_bdpe_enc(out, &ol, m, bd_pub); } RLC_CATCH_ANY { caught = 1; }
	if (take_err() || caught || rc != RLC_OK) {
		fprintf(OUT, "err");
		if (guard_bad(O1, cap)) fprintf(OUT, " WROTE-PAST-END");
		fputc('\n', OUT); return;
	}
	if (ol > cap) { fprintf(OUT, "LEN-BEYOND-CAP:%d\n", (int)ol); return; }
	if (argc >= 6) {
		int pos = parse_int(argv[4]);
		if (pos >= 0 && (size_t)pos < ol) out[pos] ^= (uint8_t)strtol(argv[5], NULL, 16);
	}
	fprintf(OUT, "c="); bytes_print(out, ol);
	if (guard_bad(O1, cap)) fprintf(OUT, " WROTE-PAST-END");
	fprintf(OUT, " m=");
	bdpe_dec_print(out, ol);
	fputc('\n', OUT);
}

/* bdpe_dec <ct> */
static void op_bdpe_dec(int argc, char **argv) {
	if (argc < 2 || !bd_ready) { fprintf(OUT, "bad-args\n"); return; }
	int cl = bytes_parse(I1, CPB, argv[1]);
	bdpe_dec_print(I1, cl);
	fputc('\n', OUT);
}

/* bdpe_add <seed1> <m1> <seed2> <m2> : product of two ciphertexts modulo n decrypts to the sum modulo t */
static void op_bdpe_add(int argc, char **argv) {
	if (argc < 5 || !bd_ready) { fprintf(OUT, "bad-args\n"); return; }
	int rc1 = RLC_ERR, rc2 = RLC_ERR, caught = 0;
	size_t l1 = CPB, l2 = CPB;
	uint8_t *c1 = obuf(O1, CPB), *c2 = obuf(O2, CPB);
	bn_t a, b;
	bn_null(a); bn_null(b); bn_new(a); bn_new(b);
	RLC_TRY {
		seed_from(argv[1]); rc1 = cp_bdpe_enc(c1, &l1, (dig_t)parse_u64(argv[2]), bd_pub);
		seed_from(argv[3]); rc2 = cp_bdpe_enc(c2, &l2, (dig_t)parse_u64(argv[4]), bd_pub);
		if (rc1 == RLC_OK && rc2 == RLC_OK) {
			bn_read_bin(a, c1, l1); bn_read_bin(b, c2, l2);
			bn_mul(a, a, b); bn_mod(a, a, bd_pub->n);
			l1 = bn_size_bin(bd_pub->n);
			bn_write_bin(I1, l1, a);
		}
	} RLC_CATCH_ANY { caught = 1; }
	if (take_err() || caught || rc1 != RLC_OK || rc2 != RLC_OK) { fprintf(OUT, "err\n"); return; }
	fprintf(OUT, "c="); bytes_print(I1, l1); fprintf(OUT, " m=");
	bdpe_dec_print(I1, l1);
	fputc('\n', OUT);
}

/* ---------------------------------------------------------------------------------------------------------------- */
/* Paillier */
static bn_t ph_pub; static phpe_t ph_prv;
static int ph_ready = 0;

/* phpe_param <bits> <seed> */
static void op_phpe_param(int argc, char **argv) {
	if (argc < 3) { fprintf(OUT, "bad-args\n"); return; }
	static int done = 0;
	int bits = parse_int(argv[1]), rc = RLC_ERR, caught = 0;
	if (!done) { bn_null(ph_pub); bn_new(ph_pub); phpe_null(ph_prv); phpe_new(ph_prv); done = 1; }
	ph_ready = 0;
	if (bits < 16 || bits > RLC_BN_BITS) { fprintf(OUT, "bad-args\n"); return; }
	seed_from(argv[2]);
	RLC_TRY { rc = cp_phpe_gen(ph_pub, ph_prv, bits); } RLC_CATCH_ANY { caught = 1; }
	if (take_err() || caught || rc != RLC_OK) { fprintf(OUT, "err\n"); return; }
	ph_ready = 1;
	fprintf(OUT, "phpe_param rc=%d crt=%d", rc,
#ifdef CP_CRT
		1
#else
		0
#endif
	);
	kv("n", ph_pub); kv("p", ph_prv->p); kv("q", ph_prv->q); kv("dp", ph_prv->dp); kv("dq", ph_prv->dq); kv("qi", ph_prv->qi); kv("np", ph_prv->n);
	fputc('\n', OUT);
}

static void phpe_dec_print(const bn_t c) {
	int rc = RLC_ERR, caught = 0;
	bn_t m; bn_null(m); bn_new(m);
	RLC_TRY { rc = cp_phpe_dec(m, c, ph_prv); } RLC_CATCH_ANY { caught = 1; }
	if (take_err() || caught || rc != RLC_OK) fprintf(OUT, "err"); else hexbn(m);
	/* the same decryption with the output over the input must give the same answer */
	{
		int rc2 = RLC_ERR, caught2 = 0; bn_t t; bn_null(t); bn_new(t); bn_copy(t, c);
		RLC_TRY { rc2 = cp_phpe_dec(t, t, ph_prv); } RLC_CATCH_ANY { caught2 = 1; }
		int bad2 = take_err() || caught2 || rc2 != RLC_OK, bad1 = caught || rc != RLC_OK;
		if (bad1 != bad2 || (!bad1 && bn_cmp(t, m) != RLC_EQ)) { fprintf(OUT, " IN-PLACE-DIFFERS("); if (bad2) fprintf(OUT, "err"); else hexbn(t); fprintf(OUT, ")"); }
	}
}

/* phpe_enc <seed> <m> */
static void op_phpe_enc(int argc, char **argv) {
	if (argc < 3 || !ph_ready) { fprintf(OUT, "bad-args\n"); return; }
	int rc = RLC_ERR, caught = 0;
	bn_t m, c; bn_null(m); bn_null(c); bn_new(m); bn_new(c);
	bn_tok(m, argv[2]);
	seed_from(argv[1]);
	RLC_TRY { rc = cp_phpe_enc(c, m, ph_pub); } RLC_CATCH_ANY { caught = 1; }
	if (take_err() || caught || rc != RLC_OK) { fprintf(OUT, "err\n"); return; }
	fprintf(OUT, "c="); hexbn(c); fprintf(OUT, " m="); phpe_dec_print(c); fputc('\n', OUT);
}

/* phpe_dec <c> */
static void op_phpe_dec(int argc, char **argv) {
	if (argc < 2 || !ph_ready) { fprintf(OUT, "bad-args\n"); return; }
	bn_t c; bn_null(c); bn_new(c);
	bn_tok(c, argv[1]);
	phpe_dec_print(c); fputc('\n', OUT);
}

/* phpe_add <seed1> <m1> <seed2> <m2> : cp_phpe_add of two honest ciphertexts, then decryption */
static void op_phpe_add(int argc, char **argv) {
	if (argc < 5 || !ph_ready) { fprintf(OUT, "bad-args\n"); return; }
	int rc1 = RLC_ERR, rc2 = RLC_ERR, rc3 = RLC_ERR, caught = 0;
	bn_t m, c1, c2, c3; bn_null(m); bn_null(c1); bn_null(c2); bn_null(c3); bn_new(m); bn_new(c1); bn_new(c2); bn_new(c3);
	RLC_TRY {
		bn_tok(m, argv[2]); seed_from(argv[1]); rc1 = cp_phpe_enc(c1, m, ph_pub);
		bn_tok(m, argv[4]); seed_from(argv[3]); rc2 = cp_phpe_enc(c2, m, ph_pub);
		if (rc1 == RLC_OK && rc2 == RLC_OK) rc3 = cp_phpe_add(c3, c1, c2, ph_pub);
	} RLC_CATCH_ANY { caught = 1; }
	if (take_err() || caught || rc1 != RLC_OK || rc2 != RLC_OK || rc3 != RLC_OK) { fprintf(OUT, "err\n"); return; }
	fprintf(OUT, "c1="); hexbn(c1); fprintf(OUT, " c2="); hexbn(c2); fprintf(OUT, " c="); hexbn(c3);
	fprintf(OUT, " m="); phpe_dec_print(c3); fputc('\n', OUT);
}

/* ---------------------------------------------------------------------------------------------------------------- */
/* generalised Paillier (Damgard-Jurik) */
static bn_t gh_pub, gh_prv;
static int gh_ready = 0;

static void op_ghpe_param(int argc, char **argv) {
	if (argc < 3) { fprintf(OUT, "bad-args\n"); return; }
	static int done = 0;
	int bits = parse_int(argv[1]), rc = RLC_ERR, caught = 0;
	if (!done) { bn_null(gh_pub); bn_new(gh_pub); bn_null(gh_prv); bn_new(gh_prv); done = 1; }
	gh_ready = 0;
	if (bits < 16 || bits > RLC_BN_BITS) { fprintf(OUT, "bad-args\n"); return; }
	seed_from(argv[2]);
	RLC_TRY { rc = cp_ghpe_gen(gh_pub, gh_prv, bits); } RLC_CATCH_ANY { caught = 1; }
	if (take_err() || caught || rc != RLC_OK) { fprintf(OUT, "err\n"); return; }
	gh_ready = 1;
	fprintf(OUT, "ghpe_param rc=%d", rc); kv("n", gh_pub); kv("l", gh_prv); fputc('\n', OUT);
}

static void ghpe_dec_print(const bn_t c, int s) {
	int rc = RLC_ERR, caught = 0;
	bn_t m; bn_null(m); bn_new(m);
	RLC_TRY { rc = cp_ghpe_dec(m, c, gh_pub, gh_prv, s); } RLC_CATCH_ANY { caught = 1; }
	if (take_err() || caught || rc != RLC_OK) fprintf(OUT, "err"); else hexbn(m);
	{
		int rc2 = RLC_ERR, caught2 = 0; bn_t t; bn_null(t); bn_new(t); bn_copy(t, c);
		RLC_TRY { rc2 = cp_ghpe_dec(t, t, gh_pub, gh_prv, s); } RLC_CATCH_ANY { caught2 = 1; }
		int bad2 = take_err() || caught2 || rc2 != RLC_OK, bad1 = caught || rc != RLC_OK;
		if (bad1 != bad2 || (!bad1 && bn_cmp(t, m) != RLC_EQ)) { fprintf(OUT, " IN-PLACE-DIFFERS("); if (bad2) fprintf(OUT, "err"); else hexbn(t); fprintf(OUT, ")"); }
	}
}

/* ghpe_enc <seed> <s> <m> */
static void op_ghpe_enc(int argc, char **argv) {
	if (argc < 4 || !gh_ready) { fprintf(OUT, "bad-args\n"); return; }
	int rc = RLC_ERR, caught = 0, s = parse_int(argv[2]);
	bn_t m, c; bn_null(m); bn_null(c); bn_new(m); bn_new(c);
	if (s < 1 || s > 16) { fprintf(OUT, "bad-args\n"); return; }
	bn_tok(m, argv[3]);
	seed_from(argv[1]);
	RLC_TRY { rc = cp_ghpe_enc(c, m, gh_pub, s); } RLC_CATCH_ANY { caught = 1; }
	if (take_err() || caught || rc != RLC_OK) { fprintf(OUT, "err\n"); return; }
	fprintf(OUT, "c="); hexbn(c); fprintf(OUT, " m="); ghpe_dec_print(c, s); fputc('\n', OUT);
}

/* ghpe_add <s> <seed1> <m1> <seed2> <m2> : product modulo n^(s+1) */
static void op_ghpe_add(int argc, char **argv) {
	if (argc < 6 || !gh_ready) { fprintf(OUT, "bad-args\n"); return; }
	int rc1 = RLC_ERR, rc2 = RLC_ERR, caught = 0, s = parse_int(argv[1]);
	bn_t m, c1, c2, t; bn_null(m); bn_null(c1); bn_null(c2); bn_null(t); bn_new(m); bn_new(c1); bn_new(c2); bn_new(t);
	if (s < 1 || s > 16) { fprintf(OUT, "bad-args\n"); return; }
	RLC_TRY {
		bn_tok(m, argv[3]); seed_from(argv[2]); rc1 = cp_ghpe_enc(c1, m, gh_pub, s);
		bn_tok(m, argv[5]); seed_from(argv[4]); rc2 = cp_ghpe_enc(c2, m, gh_pub, s);
		if (rc1 == RLC_OK && rc2 == RLC_OK) {
			bn_copy(t, gh_pub);
			for (int i = 0; i < s; i++) bn_mul(t, t, gh_pub);
			bn_mul(c1, c1, c2); bn_mod(c1, c1, t);
		}
	} RLC_CATCH_ANY { caught = 1; }
	if (take_err() || caught || rc1 != RLC_OK || rc2 != RLC_OK) { fprintf(OUT, "err\n"); return; }
	fprintf(OUT, "c="); hexbn(c1); fprintf(OUT, " m="); ghpe_dec_print(c1, s); fputc('\n', OUT);
}

/* ghpe_dec <s> <c> */
static void op_ghpe_dec(int argc, char **argv) {
	if (argc < 3 || !gh_ready) { fprintf(OUT, "bad-args\n"); return; }
	int s = parse_int(argv[1]);
	bn_t c; bn_null(c); bn_new(c);
	if (s < 1 || s > 16) { fprintf(OUT, "bad-args\n"); return; }
	bn_tok(c, argv[2]);
	ghpe_dec_print(c, s); fputc('\n', OUT);
}

/* ---------------------------------------------------------------------------------------------------------------- */
/* subgroup Paillier */
static shpe_t sh_pub, sh_prv;
static int sh_ready = 0;

/* shpe_param <sbits> <nbits> <seed> */
static void op_shpe_param(int argc, char **argv) {
	if (argc < 4) { fprintf(OUT, "bad-args\n"); return; }
	static int done = 0;
	int sbits = parse_int(argv[1]), nbits = parse_int(argv[2]), rc = RLC_ERR, caught = 0;
	if (!done) { shpe_null(sh_pub); shpe_null(sh_prv); shpe_new(sh_pub); shpe_new(sh_prv); done = 1; }
	sh_ready = 0;
	if (nbits < 32 || nbits > RLC_BN_BITS || sbits < 8) { fprintf(OUT, "bad-args\n"); return; }
	seed_from(argv[3]);
	RLC_TRY { rc = cp_shpe_gen(sh_pub, sh_prv, sbits, nbits); } RLC_CATCH_ANY { caught = 1; }
	if (take_err() || caught || rc != RLC_OK) { fprintf(OUT, "err\n"); return; }
	sh_ready = 1;
	fprintf(OUT, "shpe_param rc=%d", rc);
	kv("n", sh_pub->crt->n); kv("g", sh_pub->g); kv("a", sh_prv->a); kv("b", sh_prv->b); kv("gp", sh_prv->g); kv("gn", sh_prv->gn);
	kv("p", sh_prv->crt->p); kv("q", sh_prv->crt->q); kv("dp", sh_prv->crt->dp); kv("dq", sh_prv->crt->dq); kv("qi", sh_prv->crt->qi);
	kv("np", sh_prv->crt->n);
	fputc('\n', OUT);
}

static void shpe_dec_print(const bn_t c) {
	int rc = RLC_ERR, caught = 0;
	bn_t m; bn_null(m); bn_new(m);
	RLC_TRY { rc = cp_shpe_dec(m, c, sh_prv); } RLC_CATCH_ANY { caught = 1; }
	if (take_err() || caught || rc != RLC_OK) fprintf(OUT, "err"); else hexbn(m);
	{
		int rc2 = RLC_ERR, caught2 = 0; bn_t t; bn_null(t); bn_new(t); bn_copy(t, c);
		RLC_TRY { rc2 = cp_shpe_dec(t, t, sh_prv); } RLC_CATCH_ANY { caught2 = 1; }
		int bad2 = take_err() || caught2 || rc2 != RLC_OK, bad1 = caught || rc != RLC_OK;
		if (bad1 != bad2 || (!bad1 && bn_cmp(t, m) != RLC_EQ)) { fprintf(OUT, " IN-PLACE-DIFFERS("); if (bad2) fprintf(OUT, "err"); else hexbn(t); fprintf(OUT, ")"); }
	}
}

/* shpe_enc <pub|prv> <seed> <m> */
static void op_shpe_enc(int argc, char **argv) {
	if (argc < 4 || !sh_ready) { fprintf(OUT, "bad-args\n"); return; }
	int rc = RLC_ERR, caught = 0;
	bn_t m, c; bn_null(m); bn_null(c); bn_new(m); bn_new(c);
	bn_tok(m, argv[3]);
	seed_from(argv[2]);
	RLC_TRY {
		if (!strcmp(argv[1], "prv")) rc = cp_shpe_enc_prv(c, m, sh_prv); else rc = cp_shpe_enc(c, m, sh_pub);
	} RLC_CATCH_ANY { caught = 1; }
	if (take_err() || caught || rc != RLC_OK) { fprintf(OUT, "err\n"); return; }
	fprintf(OUT, "c="); hexbn(c); fprintf(OUT, " m="); shpe_dec_print(c); fputc('\n', OUT);
}

/* shpe_add <seed1> <m1> <seed2> <m2> : product modulo n^2 of a public-key and a private-key encryption */
static void op_shpe_add(int argc, char **argv) {
	if (argc < 5 || !sh_ready) { fprintf(OUT, "bad-args\n"); return; }
	int rc1 = RLC_ERR, rc2 = RLC_ERR, caught = 0;
	bn_t m, c1, c2, t; bn_null(m); bn_null(c1); bn_null(c2); bn_null(t); bn_new(m); bn_new(c1); bn_new(c2); bn_new(t);
	RLC_TRY {
		bn_tok(m, argv[2]); seed_from(argv[1]); rc1 = cp_shpe_enc(c1, m, sh_pub);
		bn_tok(m, argv[4]); seed_from(argv[3]); rc2 = cp_shpe_enc_prv(c2, m, sh_prv);
		if (rc1 == RLC_OK && rc2 == RLC_OK) { bn_sqr(t, sh_pub->crt->n); bn_mul(c1, c1, c2); bn_mod(c1, c1, t); }
	} RLC_CATCH_ANY { caught = 1; }
	if (take_err() || caught || rc1 != RLC_OK || rc2 != RLC_OK) { fprintf(OUT, "err\n"); return; }
	fprintf(OUT, "c="); hexbn(c1); fprintf(OUT, " m="); shpe_dec_print(c1); fputc('\n', OUT);
}

/* shpe_dec <c> */
static void op_shpe_dec(int argc, char **argv) {
	if (argc < 2 || !sh_ready) { fprintf(OUT, "bad-args\n"); return; }
	bn_t c; bn_null(c); bn_new(c);
	bn_tok(c, argv[1]);
	shpe_dec_print(c); fputc('\n', OUT);
}

/* ---------------------------------------------------------------------------------------------------------------- */
/* Shamir secret sharing and multiplication triples */
#define SSS_MAX 24

/* sss <seed> <order> <secret> <k> <n> <subset> ... : subset = indices (1-based) joined by '.', e.g. 1.3.4
 * Output: y=<y1>,<y2>,...  keys=<key per subset>,...  (err / rc per call) */
static void op_sss(int argc, char **argv) {
	if (argc < 6) { fprintf(OUT, "bad-args\n"); return; }
	int k = parse_int(argv[4]), n = parse_int(argv[5]), rc = RLC_ERR, caught = 0;
	static bn_t x[SSS_MAX], y[SSS_MAX], sx[SSS_MAX], sy[SSS_MAX];
	bn_t ord, sec, key;
	if (k < 0 || n < 0 || n > SSS_MAX || k > SSS_MAX) { fprintf(OUT, "bad-args\n"); return; }
	bn_null(ord); bn_null(sec); bn_null(key); bn_new(ord); bn_new(sec); bn_new(key);
	for (int i = 0; i < SSS_MAX; i++) { bn_null(x[i]); bn_null(y[i]); bn_null(sx[i]); bn_null(sy[i]); bn_new(x[i]); bn_new(y[i]); bn_new(sx[i]); bn_new(sy[i]); }
	bn_tok(ord, argv[2]); bn_tok(sec, argv[3]);
	seed_from(argv[1]);
	RLC_TRY { rc = mpc_sss_gen(x, y, sec, ord, k, n); } RLC_CATCH_ANY { caught = 1; }
	if (take_err() || caught || rc != RLC_OK) { fprintf(OUT, "err\n"); return; }
	fprintf(OUT, "x=");
	for (int i = 0; i < n; i++) { if (i) fputc(',', OUT); hexbn(x[i]); }
	fprintf(OUT, " y=");
	for (int i = 0; i < n; i++) { if (i) fputc(',', OUT); hexbn(y[i]); }
	fprintf(OUT, " keys=");
	for (int a = 6; a < argc; a++) {
		char tmp[256]; int cnt = 0, bad = 0;
		strncpy(tmp, argv[a], sizeof(tmp) - 1); tmp[sizeof(tmp) - 1] = 0;
		for (char *q = strtok(tmp, "."); q && cnt < SSS_MAX; q = strtok(NULL, ".")) {
			int idx = atoi(q);
			if (idx < 1 || idx > n) { bad = 1; break; }
			bn_copy(sx[cnt], x[idx - 1]); bn_copy(sy[cnt], y[idx - 1]); cnt++;
		}
		if (a > 6) fputc(',', OUT);
		if (bad) { fprintf(OUT, "bad"); continue; }
		rc = RLC_ERR; caught = 0;
		RLC_TRY { rc = mpc_sss_key(key, sx, sy, ord, cnt); } RLC_CATCH_ANY { caught = 1; }
		if (take_err() || caught || rc != RLC_OK) fprintf(OUT, "err"); else hexbn(key);
	}
	if (argc == 6) fputc('-', OUT);
	fputc('\n', OUT);
}

/* sss_key <order> <x1:y1> <x2:y2> ... : reconstruction from presented points */
static void op_sss_key(int argc, char **argv) {
	if (argc < 2 || argc - 2 > SSS_MAX) { fprintf(OUT, "bad-args\n"); return; }
	static bn_t sx[SSS_MAX], sy[SSS_MAX];
	bn_t ord, key; int rc = RLC_ERR, caught = 0, cnt = argc - 2;
	bn_null(ord); bn_null(key); bn_new(ord); bn_new(key);
	bn_tok(ord, argv[1]);
	for (int i = 0; i < cnt; i++) {
		bn_null(sx[i]); bn_null(sy[i]); bn_new(sx[i]); bn_new(sy[i]);
		char *c = strchr(argv[2 + i], ':');
		if (!c) { fprintf(OUT, "bad-args\n"); return; }
		*c = 0; bn_tok(sx[i], argv[2 + i]); bn_tok(sy[i], c + 1);
	}
	RLC_TRY { rc = mpc_sss_key(key, sx, sy, ord, cnt); } RLC_CATCH_ANY { caught = 1; }
	if (take_err() || caught || rc != RLC_OK) fprintf(OUT, "err"); else hexbn(key);
	fputc('\n', OUT);
}

/* mt <seed> <order> <x0> <x1> <y0> <y1> : a triple is generated, both parties run lcl / bct / mul on their shares of x and y.
 * Output: the triple, the opened d and e, the result shares r0 r1 */
static void op_mt(int argc, char **argv) {
	if (argc < 7) { fprintf(OUT, "bad-args\n"); return; }
	mt_t tri[2]; bn_t ord, xs[2], ys[2], d[2], e[2], r[2];
	int caught = 0;
	bn_null(ord); bn_new(ord);
	for (int i = 0; i < 2; i++) {
		mt_null(tri[i]); mt_new(tri[i]);
		bn_null(xs[i]); bn_null(ys[i]); bn_null(d[i]); bn_null(e[i]); bn_null(r[i]);
		bn_new(xs[i]); bn_new(ys[i]); bn_new(d[i]); bn_new(e[i]); bn_new(r[i]);
	}
	bn_tok(ord, argv[2]); bn_tok(xs[0], argv[3]); bn_tok(xs[1], argv[4]); bn_tok(ys[0], argv[5]); bn_tok(ys[1], argv[6]);
	seed_from(argv[1]);
	RLC_TRY {
		mpc_mt_gen(tri, ord);
		mpc_mt_lcl(d[0], e[0], xs[0], ys[0], ord, tri[0]);
		mpc_mt_lcl(d[1], e[1], xs[1], ys[1], ord, tri[1]);
		mpc_mt_bct(d, e, ord);
		mpc_mt_mul(r[0], d[0], e[0], ord, tri[0], 0);
		mpc_mt_mul(r[1], d[1], e[1], ord, tri[1], 1);
	} RLC_CATCH_ANY { caught = 1; }
	if (take_err() || caught) { fprintf(OUT, "err\n"); return; }
	fprintf(OUT, "tri"); kv("a0", tri[0]->a); kv("b0", tri[0]->b); kv("c0", tri[0]->c); kv("a1", tri[1]->a); kv("b1", tri[1]->b); kv("c1", tri[1]->c);
	kv("d", d[0]); kv("e", e[0]); kv("d1", d[1]); kv("e1", e[1]); kv("r0", r[0]); kv("r1", r[1]);
	fputc('\n', OUT);
}

/* ---------------------------------------------------------------------------------------------------------------- */
/* RSA-based private set intersection: rsapsi <seed> <bits> <m> <x1,...> <l> <y1,...> ("-" for the empty list) */
#define PSI_MAX 12
static int list_parse(bn_t *v, int max, char *s) {
	int n = 0;
	if (s[0] == '-' && s[1] == 0) return 0;
	for (char *q = strtok(s, ","); q && n < max; q = strtok(NULL, ",")) { bn_tok(v[n], q); n++; }
	return n;
}

static void op_rsapsi(int argc, char **argv) {
	if (argc < 7) { fprintf(OUT, "bad-args\n"); return; }
	static bn_t x[PSI_MAX], y[PSI_MAX], p[PSI_MAX], t[PSI_MAX], u[PSI_MAX], z[PSI_MAX * PSI_MAX];
	bn_t g, n, d, r; int caught = 0, rc = RLC_OK, bits = parse_int(argv[2]);
	size_t len = 0;
	bn_null(g); bn_null(n); bn_null(d); bn_null(r); bn_new(g); bn_new(n); bn_new(d); bn_new(r);
	for (int i = 0; i < PSI_MAX; i++) {
		bn_null(x[i]); bn_null(y[i]); bn_null(p[i]); bn_null(t[i]); bn_null(u[i]);
		bn_new(x[i]); bn_new(y[i]); bn_new(p[i]); bn_new(t[i]); bn_new(u[i]);
	}
	for (int i = 0; i < PSI_MAX * PSI_MAX; i++) { bn_null(z[i]); bn_new(z[i]); }
	int m = list_parse(x, PSI_MAX, argv[4]), l = list_parse(y, PSI_MAX, argv[6]);
	if (m != parse_int(argv[3]) || l != parse_int(argv[5]) || bits < 64 || bits > RLC_BN_BITS) { fprintf(OUT, "bad-args\n"); return; }
	seed_from(argv[1]);
	RLC_TRY {
		rc = cp_rsapsi_gen(g, n, bits);
		if (rc == RLC_OK) rc = cp_rsapsi_ask(d, r, p, g, n, (const bn_t *)x, m);
		if (rc == RLC_OK) rc = cp_rsapsi_ans(t, u, d, g, n, (const bn_t *)y, l);
		if (rc == RLC_OK) rc = cp_rsapsi_int(z, &len, r, (const bn_t *)p, n, (const bn_t *)x, m, (const bn_t *)t, (const bn_t *)u, l);
	} RLC_CATCH_ANY { caught = 1; }
	if (take_err() || caught || rc != RLC_OK) { fprintf(OUT, "err\n"); return; }
	fprintf(OUT, "len=%d z=", (int)len);
	if (len == 0) fputc('-', OUT);
	for (size_t i = 0; i < len && i < PSI_MAX * PSI_MAX; i++) { if (i) fputc(',', OUT); hexbn(z[i]); }
	fputc('\n', OUT);
}

#include "ops_cp_ec.inc"

const op_t ops_cp[] = {
	{"rsa_param", op_rsa_param}, {"rsa_key_param", op_rsa_key_param}, {"rsa_enc", op_rsa_enc}, {"rsa_dec", op_rsa_dec},
	{"rabin_param", op_rabin_param}, {"rabin_enc", op_rabin_enc}, {"rabin_dec", op_rabin_dec},
	{"bdpe_param", op_bdpe_param}, {"bdpe_enc", op_bdpe_enc}, {"bdpe_dec", op_bdpe_dec}, {"bdpe_add", op_bdpe_add},
	{"phpe_param", op_phpe_param}, {"phpe_enc", op_phpe_enc}, {"phpe_dec", op_phpe_dec}, {"phpe_add", op_phpe_add},
	{"ghpe_param", op_ghpe_param}, {"ghpe_enc", op_ghpe_enc}, {"ghpe_dec", op_ghpe_dec}, {"ghpe_add", op_ghpe_add},
	{"shpe_param", op_shpe_param}, {"shpe_enc", op_shpe_enc}, {"shpe_dec", op_shpe_dec}, {"shpe_add", op_shpe_add},
	{"sss", op_sss}, {"sss_key", op_sss_key}, {"mt", op_mt}, {"rsapsi", op_rsapsi},
	CP_EC_OPS
	{NULL, NULL}
};
