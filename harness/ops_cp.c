/* signature schemes of the line protocol (property C05).
 * Every operation is self-contained and reproducible: operations that draw randomness start with a first seeding of the
 * library DRBG from the <seed> token; keys, messages and signature components are passed as values.
 *   integers : [-]hex            bytes : hex | "."            points : "inf" | "<x>,<y>" (may be off the curve)
 * The curve is the one selected by the last `ep_param <id>` line (ec_* = ep_* in the pinned configuration). */
#include "oracle.h"
#include "relic_ep.h"
#include "relic_cp.h"
#include "relic_rand.h"

#define MAXM (1 << 16)
static uint8_t M1[MAXM + 64], M2[MAXM + 64], SG[MAXM + 64];

void ep_tok(ep_t p, const char *tok);
void ep_out(const ep_t p);

static void seed_tok(const char *tok) {
	static uint8_t sb[4096];
	int n = bytes_parse(sb, sizeof(sb), tok);
	if (n == 0) { sb[0] = 0; n = 1; }
	core_get()->seeded = 0;
	rand_seed(sb, n);
}

static void bn_tok(bn_t b, const char *tok) {
	raw_t r;
	raw_parse(&r, tok);
	raw_to_bn(b, &r);
	if (b->used == 1 && b->dp[0] == 0) b->sign = RLC_POS;
}

/* minimal hex of the value, '-' for negative */
static void bn_hex(const bn_t b) {
	int started = 0;
	if (b->sign == RLC_NEG && !bn_is_zero(b)) fputc('-', OUT);
	for (int i = b->used - 1; i >= 0; i--) {
		if (!started) {
			if (b->dp[i] == 0 && i > 0) continue;
			fprintf(OUT, "%llx", (unsigned long long)b->dp[i]);
			started = 1;
		} else fprintf(OUT, "%0*llx", RLC_DIG / 4, (unsigned long long)b->dp[i]);
	}
	if (!started) fputc('0', OUT);
}

/* verdict of a verifier: "v=<return value>", followed by " err" when the library also reported an error; "err" alone when the
 * verifier threw out of its own frame (no return value) */
static void ver_out(int v, int caught) {
	int e = take_err();
	if (caught) fprintf(OUT, "err\n");
	else fprintf(OUT, e ? "v=%d err\n" : "v=%d\n", v);
}

#define NEWBN(x) bn_t x; bn_null(x); bn_new(x)
#define NEWEC(x) ec_t x; ec_null(x); ec_new(x)
#define BAD() do { fprintf(OUT, "bad-args\n"); return; } while (0)

/* the point exactly as given: affine coordinates, no validation (off-curve points are representable) */
static void pt_tok(ec_t p, const char *tok) { ep_tok(p, tok); }

/* a point result that may be garbage: print raw affine coordinates without normalisation when it is flagged BASIC */
static void pt_out(const ec_t p) { ep_out(p); }

/* ------------------------------------------------------------------------------------------------------------- */
/* ECDSA */

/* ecdsa_gen <seed> | ecss_gen <seed> | vbnn_gen <seed> | ers_gen_key <seed> : d, Q = dG */
static void op_ec_gen(int argc, char **argv) {
	if (argc < 2) BAD();
	NEWBN(d); NEWEC(q);
	int rc = -1, caught = 0;
	seed_tok(argv[1]);
	RLC_TRY {
		if (!strcmp(argv[0], "ecdsa_gen")) rc = cp_ecdsa_gen(d, q);
		else if (!strcmp(argv[0], "ecss_gen")) rc = cp_ecss_gen(d, q);
		else if (!strcmp(argv[0], "vbnn_gen")) rc = cp_vbnn_gen(d, q);
		else rc = cp_ers_gen_key(d, q);
	} RLC_CATCH_ANY { caught = 1; }
	if (take_err() || caught || rc != RLC_OK) { fprintf(OUT, "err\n"); return; }
	fprintf(OUT, "d="); bn_hex(d); fprintf(OUT, " q="); pt_out(q); fputc('\n', OUT);
}

/* ecdsa_sig <seed> <hash> <msg> <d> */
static void op_ecdsa_sig(int argc, char **argv) {
	if (argc < 5) BAD();
	NEWBN(d); NEWBN(r); NEWBN(s);
	int hash = parse_int(argv[2]), rc = -1, caught = 0;
	int ml = bytes_parse(M1, MAXM, argv[3]);
	bn_tok(d, argv[4]);
	seed_tok(argv[1]);
	RLC_TRY { rc = cp_ecdsa_sig(r, s, M1, ml, hash, d); } RLC_CATCH_ANY { caught = 1; }
	if (take_err() || caught || rc != RLC_OK) { fprintf(OUT, "err\n"); return; }
	fprintf(OUT, "r="); bn_hex(r); fprintf(OUT, " s="); bn_hex(s); fputc('\n', OUT);
}

/* ecdsa_ver <hash> <Q> <msg> <r> <s> */
static void op_ecdsa_ver(int argc, char **argv) {
	if (argc < 6) BAD();
	NEWBN(r); NEWBN(s); NEWEC(q);
	int hash = parse_int(argv[1]), v = -1, caught = 0;
	pt_tok(q, argv[2]);
	int ml = bytes_parse(M1, MAXM, argv[3]);
	bn_tok(r, argv[4]); bn_tok(s, argv[5]);
	RLC_TRY { v = cp_ecdsa_ver(r, s, M1, ml, hash, q); } RLC_CATCH_ANY { caught = 1; }
	ver_out(v, caught);
}

/* ------------------------------------------------------------------------------------------------------------- */
/* EC-Schnorr */

/* ecss_sig <seed> <msg> <d> */
static void op_ecss_sig(int argc, char **argv) {
	if (argc < 4) BAD();
	NEWBN(d); NEWBN(e); NEWBN(s);
	int rc = -1, caught = 0;
	int ml = bytes_parse(M1, MAXM, argv[2]);
	bn_tok(d, argv[3]);
	seed_tok(argv[1]);
	RLC_TRY { rc = cp_ecss_sig(e, s, M1, ml, d); } RLC_CATCH_ANY { caught = 1; }
	if (take_err() || caught || rc != RLC_OK) { fprintf(OUT, "err\n"); return; }
	fprintf(OUT, "e="); bn_hex(e); fprintf(OUT, " s="); bn_hex(s); fputc('\n', OUT);
}

/* ecss_ver <Q> <msg> <e> <s> */
static void op_ecss_ver(int argc, char **argv) {
	if (argc < 5) BAD();
	NEWBN(e); NEWBN(s); NEWEC(q);
	int v = -1, caught = 0;
	pt_tok(q, argv[1]);
	int ml = bytes_parse(M1, MAXM, argv[2]);
	bn_tok(e, argv[3]); bn_tok(s, argv[4]);
	RLC_TRY { v = cp_ecss_ver(e, s, M1, ml, q); } RLC_CATCH_ANY { caught = 1; }
	ver_out(v, caught);
}

/* ------------------------------------------------------------------------------------------------------------- */
/* RSA */

#if CP_RSAPD == PKCS2
#define RSAPD_NAME "pkcs2"
#elif CP_RSAPD == PKCS1
#define RSAPD_NAME "pkcs1"
#else
#define RSAPD_NAME "basic"
#endif

static void rsa_init(rsa_t k) {
	rsa_null(k); rsa_new(k);
	bn_zero(k->d); bn_zero(k->e); bn_zero(k->crt->n); bn_zero(k->crt->p); bn_zero(k->crt->q);
	bn_zero(k->crt->dp); bn_zero(k->crt->dq); bn_zero(k->crt->qi);
}

/* rsa_gen <seed> <bits> */
static void op_rsa_gen(int argc, char **argv) {
	if (argc < 3) BAD();
	rsa_t pub, prv;
	int bits = parse_int(argv[2]), rc = -1, caught = 0;
	if (bits < 16 || bits > RLC_BN_BITS) BAD();
	rsa_init(pub); rsa_init(prv);
	seed_tok(argv[1]);
	RLC_TRY { rc = cp_rsa_gen(pub, prv, bits); } RLC_CATCH_ANY { caught = 1; }
	if (take_err() || caught || rc != RLC_OK) { fprintf(OUT, "err\n"); return; }
	fprintf(OUT, "n="); bn_hex(pub->crt->n); fprintf(OUT, " e="); bn_hex(pub->e);
	fprintf(OUT, " d="); bn_hex(prv->d); fprintf(OUT, " p="); bn_hex(prv->crt->p); fprintf(OUT, " q="); bn_hex(prv->crt->q);
	fprintf(OUT, " dp="); bn_hex(prv->crt->dp); fprintf(OUT, " dq="); bn_hex(prv->crt->dq); fprintf(OUT, " qi="); bn_hex(prv->crt->qi);
	fprintf(OUT, " n2="); bn_hex(prv->crt->n); fputc('\n', OUT);
}

/* rsa_sig <pad> <hash> <msg> <cap> <n> <e> <d> <p> <q> <dp> <dq> <qi>  (e is not used by the signer; it is on the line for the
 * specification; <pad> names the padding the line was generated for and must be the compiled one) */
static void op_rsa_sig(int argc, char **argv) {
	if (argc < 13 || strcmp(argv[1], RSAPD_NAME)) BAD();
	argv++;
	rsa_t prv;
	int hash = parse_int(argv[1]), cap = parse_int(argv[3]), rc = -1, caught = 0;
	int ml = bytes_parse(M1, MAXM, argv[2]);
	size_t sl;
	if (cap < 0 || cap > MAXM) BAD();
	rsa_init(prv);
	bn_tok(prv->crt->n, argv[4]); bn_tok(prv->e, argv[5]); bn_tok(prv->d, argv[6]); bn_tok(prv->crt->p, argv[7]);
	bn_tok(prv->crt->q, argv[8]); bn_tok(prv->crt->dp, argv[9]); bn_tok(prv->crt->dq, argv[10]); bn_tok(prv->crt->qi, argv[11]);
	memset(SG, 0xEE, cap + 64);
	sl = cap;
	RLC_TRY { rc = cp_rsa_sig(SG + 32, &sl, M1, ml, hash, prv); } RLC_CATCH_ANY { caught = 1; }
	if (take_err() || caught || rc != RLC_OK) fprintf(OUT, "err");
	else { fprintf(OUT, "sig="); bytes_print(SG + 32, (int)sl); }
	for (int i = 0; i < 32; i++) if (SG[i] != 0xEE || SG[32 + cap + i] != 0xEE) { fprintf(OUT, " WROTE-OUTSIDE"); break; }
	fputc('\n', OUT);
}

/* rsa_ver <pad> <hash> <n> <e> <msg> <sig> */
static void op_rsa_ver(int argc, char **argv) {
	if (argc < 7 || strcmp(argv[1], RSAPD_NAME)) BAD();
	argv++;
	rsa_t pub;
	int hash = parse_int(argv[1]), v = -1, caught = 0;
	rsa_init(pub);
	bn_tok(pub->crt->n, argv[2]); bn_tok(pub->e, argv[3]);
	int ml = bytes_parse(M1, MAXM, argv[4]);
	int sl = bytes_parse(SG, MAXM, argv[5]);
	/* the pre-hashed verifier always hashes RLC_MD_LEN bytes from its copy of the message: keep what follows a short one defined */
	RLC_TRY { v = cp_rsa_ver(SG, sl, M1, ml, hash, pub); } RLC_CATCH_ANY { caught = 1; }
	ver_out(v, caught);
}

const op_t ops_cp[] = {
	{"ecdsa_gen", op_ec_gen}, {"ecss_gen", op_ec_gen}, {"vbnn_gen", op_ec_gen}, {"ers_gen_key", op_ec_gen},
	{"ecdsa_sig", op_ecdsa_sig}, {"ecdsa_ver", op_ecdsa_ver},
	{"ecss_sig", op_ecss_sig}, {"ecss_ver", op_ecss_ver},
	{"rsa_gen", op_rsa_gen}, {"rsa_sig", op_rsa_sig}, {"rsa_ver", op_rsa_ver},
	{NULL, NULL}
};
