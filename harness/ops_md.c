/* hash / MAC / KDF / DRBG operations of the line protocol (properties C14, C15). */
#include "oracle.h"
#include "relic_md.h"
#include "relic_rand.h"

#define MAXB (1 << 20)
static uint8_t B1[MAXB], B2[MAXB], B3[MAXB];

/* md_map <alg> <hex> */
static void op_md_map(int argc, char **argv) {
	if (argc < 3) { fprintf(OUT, "bad-args\n"); return; }
	int n = bytes_parse(B1, MAXB, argv[2]);
	uint8_t h[64];
	int hl = 0;
	if (!strcmp(argv[1], "sh224")) { md_map_sh224(h, B1, n); hl = 28; }
	else if (!strcmp(argv[1], "sh256")) { md_map_sh256(h, B1, n); hl = 32; }
	else if (!strcmp(argv[1], "sh384")) { md_map_sh384(h, B1, n); hl = 48; }
	else if (!strcmp(argv[1], "sh512")) { md_map_sh512(h, B1, n); hl = 64; }
	else if (!strcmp(argv[1], "b2s160")) { md_map_b2s160(h, B1, n); hl = 20; }
	else if (!strcmp(argv[1], "b2s256")) { md_map_b2s256(h, B1, n); hl = 32; }
	else { fprintf(OUT, "unknown-alg\n"); return; }
	if (take_err()) { fprintf(OUT, "err\n"); return; }
	bytes_print(h, hl); fputc('\n', OUT);
}

/* md_hmac <key> <msg> */
static void op_md_hmac(int argc, char **argv) {
	if (argc < 3) { fprintf(OUT, "bad-args\n"); return; }
	int kl = bytes_parse(B1, MAXB, argv[1]);
	int ml = bytes_parse(B2, MAXB, argv[2]);
	uint8_t mac[RLC_MD_LEN];
	md_hmac(mac, B2, ml, B1, kl);
	if (take_err()) { fprintf(OUT, "err\n"); return; }
	bytes_print(mac, RLC_MD_LEN); fputc('\n', OUT);
}

/* md_kdf|md_mgf <outlen> <in> */
static void op_md_kdf(int argc, char **argv) {
	if (argc < 3) { fprintf(OUT, "bad-args\n"); return; }
	int ol = parse_int(argv[1]);
	int il = bytes_parse(B1, MAXB, argv[2]);
	if (ol < 0 || ol > MAXB - 64) { fprintf(OUT, "bad-args\n"); return; }
	memset(B2, 0xEE, ol + 64);
	if (!strcmp(argv[0], "md_kdf")) md_kdf(B2, ol, B1, il); else md_mgf(B2, ol, B1, il);
	if (take_err()) { fprintf(OUT, "err\n"); return; }
	bytes_print(B2, ol);
	/* guard bytes after the requested length must be untouched */
	for (int i = 0; i < 64; i++) if (B2[ol + i] != 0xEE) { fprintf(OUT, " WROTE-PAST-END"); break; }
	fputc('\n', OUT);
}

/* md_xmd <alg> <outlen> <msg> <dst> */
static void op_md_xmd(int argc, char **argv) {
	if (argc < 5) { fprintf(OUT, "bad-args\n"); return; }
	int ol = parse_int(argv[2]);
	int ml = bytes_parse(B1, MAXB, argv[3]);
	int dl = bytes_parse(B3, MAXB, argv[4]);
	int caught = 0;
	if (ol < 0 || ol > MAXB - 64) { fprintf(OUT, "bad-args\n"); return; }
	memset(B2, 0xEE, ol + 64);
	RLC_TRY {
		if (!strcmp(argv[1], "sh224")) md_xmd_sh224(B2, ol, B1, ml, B3, dl);
		else if (!strcmp(argv[1], "sh256")) md_xmd_sh256(B2, ol, B1, ml, B3, dl);
		else if (!strcmp(argv[1], "sh384")) md_xmd_sh384(B2, ol, B1, ml, B3, dl);
		else if (!strcmp(argv[1], "sh512")) md_xmd_sh512(B2, ol, B1, ml, B3, dl);
	} RLC_CATCH_ANY { caught = 1; }
	if (take_err() || caught) { fprintf(OUT, "err\n"); return; }
	bytes_print(B2, ol);
	for (int i = 0; i < 64; i++) if (B2[ol + i] != 0xEE) { fprintf(OUT, " WROTE-PAST-END"); break; }
	fputc('\n', OUT);
}

/* drbg <tok> ... : s:<hex> seed/reseed ; g:<n> generate n bytes ; r:<count>:<n> repeat, print only the last;
 * the first s: token is a *first* seeding (ctx->seeded = 0 beforehand, as test_rand does). Output: one field per token. */
static void op_drbg(int argc, char **argv) {
	core_get()->seeded = 0;
	for (int i = 1; i < argc; i++) {
		char *t = argv[i];
		if (i > 1) fputc(' ', OUT);
		if (t[0] == 's' && t[1] == ':') {
			int n = bytes_parse(B1, MAXB, t + 2);
			rand_seed(B1, n);
			fprintf(OUT, take_err() ? "err" : "ok");
		} else if (t[0] == 'g' && t[1] == ':') {
			int n = parse_int(t + 2);
			if (n < 0 || n > MAXB - 64) { fprintf(OUT, "bad"); continue; }
			memset(B2, 0xEE, n + 64);
			rand_bytes(B2, n);
			if (take_err()) { fprintf(OUT, "err"); continue; }
			bytes_print(B2, n);
			for (int k = 0; k < 64; k++) if (B2[n + k] != 0xEE) { fprintf(OUT, "WROTE-PAST-END"); break; }
		} else if (t[0] == 'S' && t[1] == ':') {
			/* state injection S:<V 55 bytes>:<C 55 bytes>:<counter> — boundary states for the carry chains */
			char *c1 = strchr(t + 2, ':'), *c2 = c1 ? strchr(c1 + 1, ':') : NULL;
			if (!c1 || !c2) { fprintf(OUT, "bad"); continue; }
			*c1 = 0; *c2 = 0;
			ctx_t *cx = core_get();
			int len = (RLC_RAND_SIZE - 1) / 2;
			if (bytes_parse(B1, MAXB, t + 2) != len || bytes_parse(B3, MAXB, c1 + 1) != len) { fprintf(OUT, "bad"); continue; }
			cx->rand[0] = 0;
			memcpy(cx->rand + 1, B1, len);
			memcpy(cx->rand + 1 + len, B3, len);
			cx->counter = parse_int(c2 + 1);
			cx->seeded = 1;
			fprintf(OUT, "ok");
		} else if (t[0] == 'r' && t[1] == ':') {
			int count = 0, n = 0;
			sscanf(t + 2, "%d:%d", &count, &n);
			if (n < 0 || n > 65536) { fprintf(OUT, "bad"); continue; }
			for (int k = 0; k < count; k++) rand_bytes(B2, n);
			if (take_err()) { fprintf(OUT, "err"); continue; }
			bytes_print(B2, n);
		} else fprintf(OUT, "bad");
	}
	fputc('\n', OUT);
}

/* bn_rand <seedhex> <sign 0|1> <bits> */
static void op_bn_rand(int argc, char **argv) {
	if (argc < 4) { fprintf(OUT, "bad-args\n"); return; }
	bn_t a; int caught = 0;
	int n = bytes_parse(B1, MAXB, argv[1]);
	core_get()->seeded = 0;
	rand_seed(B1, n);
	bn_null(a); bn_new(a);
	RLC_TRY { bn_rand(a, parse_int(argv[2]) ? RLC_NEG : RLC_POS, parse_int(argv[3])); } RLC_CATCH_ANY { caught = 1; }
	if (take_err() || caught) { fprintf(OUT, "err\n"); return; }
	bn_out(a); fputc('\n', OUT);
}

/* bn_rand_mod <seedhex> <b> */
static void op_bn_rand_mod(int argc, char **argv) {
	if (argc < 3) { fprintf(OUT, "bad-args\n"); return; }
	bn_t a, b; raw_t rb; int caught = 0;
	int n = bytes_parse(B1, MAXB, argv[1]);
	core_get()->seeded = 0;
	rand_seed(B1, n);
	raw_parse(&rb, argv[2]);
	bn_null(a); bn_null(b); bn_new(a); bn_new(b);
	raw_to_bn(b, &rb);
	RLC_TRY { bn_rand_mod(a, b); } RLC_CATCH_ANY { caught = 1; }
	if (take_err() || caught) { fprintf(OUT, "err\n"); return; }
	bn_out(a); fputc('\n', OUT);
}

/* bn_rand_st <seedhex> <sign 0|1> <bits> : bn_rand, then the next 16 bytes of the generator (the state after the call is observable) */
static void op_bn_rand_st(int argc, char **argv) {
	if (argc < 4) { fprintf(OUT, "bad-args\n"); return; }
	bn_t a; int caught = 0;
	int n = bytes_parse(B1, MAXB, argv[1]);
	core_get()->seeded = 0;
	rand_seed(B1, n);
	bn_null(a); bn_new(a);
	RLC_TRY { bn_rand(a, parse_int(argv[2]) ? RLC_NEG : RLC_POS, parse_int(argv[3])); } RLC_CATCH_ANY { caught = 1; }
	if (take_err() || caught) { fprintf(OUT, "err"); } else { bn_out(a); }
	rand_bytes(B2, 16);
	fprintf(OUT, " n:"); bytes_print(B2, 16); fputc('\n', OUT);
}

/* fp_rand_ctx <id> : the prime, RLC_FP_BITS and RLC_FP_DIGS of a parameter identifier (skip when the build does not support it) */
static void op_fp_rand_ctx(int argc, char **argv) {
	if (argc < 2) { fprintf(OUT, "bad-args\n"); return; }
	int caught = 0;
	RLC_TRY { fp_param_set(parse_int(argv[1])); } RLC_CATCH_ANY { caught = 1; }
	if (take_err() || caught) { fprintf(OUT, "skip\n"); return; }
	fprintf(OUT, "p="); raw_print(fp_prime_get(), RLC_FP_DIGS, 0);
	fprintf(OUT, " bits=%d digs=%d\n", (int)RLC_FP_BITS, (int)RLC_FP_DIGS);
}

/* fp_rand <seedhex> <id> <p> <bits> <digs> : select the prime, seed, fp_rand; prints the context the library really used (compared with
 * the arguments by the driver), the raw digit vector and the next 16 bytes of the generator */
static void op_fp_rand(int argc, char **argv) {
	if (argc < 3) { fprintf(OUT, "bad-args\n"); return; }
	int caught = 0;
	fp_t a;
	RLC_TRY { fp_param_set(parse_int(argv[2])); } RLC_CATCH_ANY { caught = 1; }
	if (take_err() || caught) { fprintf(OUT, "skip\n"); return; }
	int n = bytes_parse(B1, MAXB, argv[1]);
	core_get()->seeded = 0;
	rand_seed(B1, n);
	fp_null(a); fp_new(a);
	RLC_TRY { fp_rand(a); } RLC_CATCH_ANY { caught = 1; }
	if (take_err() || caught) { fprintf(OUT, "err\n"); return; }
	fprintf(OUT, "p="); raw_print(fp_prime_get(), RLC_FP_DIGS, 0);
	fprintf(OUT, " bits=%d digs=%d a=", (int)RLC_FP_BITS, (int)RLC_FP_DIGS);
	raw_print(a, RLC_FP_DIGS, 0);
	rand_bytes(B2, 16);
	fprintf(OUT, " n:"); bytes_print(B2, 16); fputc('\n', OUT);
	fp_free(a);
}

#ifdef WITH_FB
/* fb_rand <seedhex> <bits> <digs> | fb_rand_ctx : RLC_FB_BITS / RLC_FB_DIGS as the library has them, the raw digit vector, the next 16 bytes */
static void op_fb_rand(int argc, char **argv) {
	fprintf(OUT, "bits=%d digs=%d", (int)RLC_FB_BITS, (int)RLC_FB_DIGS);
	if (argc >= 2 && strcmp(argv[0], "fb_rand") == 0) {
		fb_t a; int caught = 0;
		int n = bytes_parse(B1, MAXB, argv[1]);
		core_get()->seeded = 0;
		rand_seed(B1, n);
		fb_null(a); fb_new(a);
		RLC_TRY { fb_rand(a); } RLC_CATCH_ANY { caught = 1; }
		if (take_err() || caught) { fprintf(OUT, " err\n"); return; }
		fprintf(OUT, " a="); raw_print(a, RLC_FB_DIGS, 0);
		rand_bytes(B2, 16);
		fprintf(OUT, " n:"); bytes_print(B2, 16);
		fb_free(a);
	}
	fputc('\n', OUT);
}
#define FB_RAND_OPS {"fb_rand", op_fb_rand}, {"fb_rand_ctx", op_fb_rand},
#else
#define FB_RAND_OPS
#endif

#include "ops_md2.inc"
#include "ops_md3.inc"

const op_t ops_md[] = {
	{"md_map", op_md_map}, {"md_hmac", op_md_hmac}, {"md_kdf", op_md_kdf}, {"md_mgf", op_md_kdf},
	{"md_xmd", op_md_xmd}, {"drbg", op_drbg}, {"bn_rand", op_bn_rand}, {"bn_rand_mod", op_bn_rand_mod},
	{"bn_rand_st", op_bn_rand_st}, {"fp_rand_ctx", op_fp_rand_ctx}, {"fp_rand", op_fp_rand}, FB_RAND_OPS
	MD2_OPS
	MD3_OPS
	{NULL, NULL}
};
