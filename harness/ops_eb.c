/* binary-curve operations of the line protocol (property C16).
 * Point tokens: "inf" | "<x>,<y>" (affine) | "<x>,<y>,<z>,P" (the affine point in Lopez-Dahab projective coordinates with that z:
 * X = x z, Y = y z^2, Z = z) | "<x>,<y>,H" (the affine point in lambda representation (x, x + y/x), coord = HALVE; x != 0) |
 * "inf,<x>,<y>,P" (an identity as projective additions leave it: Z = 0 with those X, Y, coord = PROJC). */
#include "oracle.h"
#include "relic_fb.h"
#include "relic_eb.h"
#include "relic_fb_low.h"

void fb_tok(dig_t *a, const char *tok);
void fb_out(const dig_t *a);
void fb_info_print(void);

void eb_tok(eb_t p, const char *tok) {
	char buf[1024];
	strncpy(buf, tok, sizeof(buf) - 1); buf[sizeof(buf) - 1] = 0;
	if (!strcmp(buf, "inf")) { eb_set_infty(p); return; }
	char *f[5]; int n = 0;
	for (char *q = strtok(buf, ","); q && n < 5; q = strtok(NULL, ",")) f[n++] = q;
	if (n == 4 && !strcmp(f[0], "inf")) {
		fb_tok(p->x, f[1]); fb_tok(p->y, f[2]); fb_zero(p->z); p->coord = PROJC;
		return;
	}
	fb_tok(p->x, f[0]); fb_tok(p->y, f[1]);
	fb_set_dig(p->z, 1);
	p->coord = BASIC;
	if (n == 4) {
		fb_t z, t;
		fb_tok(z, f[2]);
		fb_mul(p->x, p->x, z); fb_sqr(t, z); fb_mul(p->y, p->y, t); fb_copy(p->z, z); p->coord = PROJC;
	} else if (n == 3) {
		fb_t t;
		fb_inv(t, p->x); fb_mul(t, t, p->y); fb_add(p->y, t, p->x); p->coord = HALVE;
	}
}

/* canonical print: affine coordinates or "inf"; flags for a result that claims to be normalised but is not */
void eb_out(const eb_t p) {
	eb_t t; int caught = 0;
	if (eb_is_infty(p)) { fprintf(OUT, "inf"); return; }
	RLC_TRY { eb_norm(t, p); } RLC_CATCH_ANY { caught = 1; }
	if (take_err() || caught) { fprintf(OUT, "norm-err"); return; }
	fb_out(t->x); fputc(',', OUT); fb_out(t->y);
	if (p->coord == BASIC && fb_cmp_dig(p->z, 1) != RLC_EQ) fprintf(OUT, " BASIC-WITH-Z!=1");
}

/* eb_param <id> */
static void op_eb_param(int argc, char **argv) {
	if (argc < 2) { fprintf(OUT, "bad-args\n"); return; }
	int id = parse_int(argv[1]), caught = 0, a, b, c;
	RLC_TRY { eb_param_set(id); } RLC_CATCH_ANY { caught = 1; }
	if (take_err() || caught) { fprintf(OUT, "err\n"); return; }
	eb_t g; bn_t n, h; bn_null(n); bn_new(n); bn_null(h); bn_new(h);
	eb_curve_get_gen(g); eb_curve_get_ord(n); eb_curve_get_cof(h);
	fb_poly_get_rdc(&a, &b, &c);
	fprintf(OUT, "eb_param id=%d m=%d fid=%d f=", id, (int)RLC_FB_BITS, fb_param_get());
	{
		dig_t f[RLC_FB_DIGS + 1];
		for (int i = 0; i < (int)RLC_FB_DIGS; i++) f[i] = fb_poly_get()[i];
		f[RLC_FB_DIGS] = (RLC_FB_BITS % RLC_DIG == 0) ? 1 : 0;
		char buf[(RLC_FB_DIGS + 1) * (RLC_DIG / 4) + 2]; int p = 0;
		for (int i = RLC_FB_DIGS; i >= 0; i--) p += sprintf(buf + p, "%0*llx", RLC_DIG / 4, (unsigned long long)f[i]);
		char *s = buf; while (*s == '0' && s[1]) s++;
		fprintf(OUT, "%s", s);
	}
	fprintf(OUT, " a="); fb_out(eb_curve_get_a());
	fprintf(OUT, " b="); fb_out(eb_curve_get_b());
	fprintf(OUT, " gx="); fb_out(g->x); fprintf(OUT, " gy="); fb_out(g->y);
	fprintf(OUT, " r="); raw_print(n->dp, n->used, 0);
	fprintf(OUT, " h="); raw_print(h->dp, h->used, 0);
	fprintf(OUT, " kbltz=%d opta=%d optb=%d width=%d depth=%d", eb_curve_is_kbltz(), eb_curve_opt_a(), eb_curve_opt_b(),
		(int)RLC_WIDTH, (int)RLC_DEPTH);
	fb_info_print();
	fputc('\n', OUT);
}

/* ebb <op> <alias> <P> <Q> */
static void op_ebb(int argc, char **argv) {
	if (argc < 5) { fprintf(OUT, "bad-args\n"); return; }
	const char *op = argv[1];
	int alias = parse_int(argv[2]), caught = 0, r = -99;
	eb_t p, q, c; eb_st *pp, *pq, *pc;
	pp = p; pq = q; pc = c;
	eb_set_infty(c);
	eb_tok(p, argv[3]); eb_tok(q, argv[4]);
	if (take_err()) { fprintf(OUT, "bad-token\n"); return; }
	if (alias == 3 || alias == 4) pq = pp;
	if (alias == 1 || alias == 4) pc = pp;
	if (alias == 2) pc = pq;
	RLC_TRY {
		if (!strcmp(op, "add")) { eb_add(pc, pp, pq); }
		else if (!strcmp(op, "add_basic")) eb_add_basic(pc, pp, pq);
		else if (!strcmp(op, "add_projc")) eb_add_projc(pc, pp, pq);
		else if (!strcmp(op, "sub")) eb_sub(pc, pp, pq);
		else if (!strcmp(op, "sub_basic")) eb_sub_basic(pc, pp, pq);
		else if (!strcmp(op, "sub_projc")) eb_sub_projc(pc, pp, pq);
		else if (!strcmp(op, "cmp")) { r = eb_cmp(pp, pq); }
		else { fprintf(OUT, "unknown-ebb %s\n", op); return; }
	} RLC_CATCH_ANY { caught = 1; }
	if (take_err() || caught) fprintf(OUT, "err"); else if (r != -99) fprintf(OUT, "r=%d", r); else eb_out(pc);
	fputc('\n', OUT);
}

/* ebu <op> <alias> <P> */
static void op_ebu(int argc, char **argv) {
	if (argc < 4) { fprintf(OUT, "bad-args\n"); return; }
	const char *op = argv[1];
	int alias = parse_int(argv[2]), caught = 0, r = -99;
	eb_t p, c; eb_st *pp, *pc;
	pp = p; pc = c;
	eb_set_infty(c);
	eb_tok(p, argv[3]);
	if (take_err()) { fprintf(OUT, "bad-token\n"); return; }
	if (alias == 1) pc = pp;
	RLC_TRY {
		if (!strcmp(op, "dbl")) { eb_dbl(pc, pp); }
		else if (!strcmp(op, "dbl_basic")) eb_dbl_basic(pc, pp);
		else if (!strcmp(op, "dbl_projc")) eb_dbl_projc(pc, pp);
		else if (!strcmp(op, "neg")) eb_neg(pc, pp);
		else if (!strcmp(op, "neg_basic")) eb_neg_basic(pc, pp);
		else if (!strcmp(op, "neg_projc")) eb_neg_projc(pc, pp);
		else if (!strcmp(op, "norm")) eb_norm(pc, pp);
		else if (!strcmp(op, "hlv")) eb_hlv(pc, pp);
		else if (!strcmp(op, "frb")) eb_frb(pc, pp);
		else if (!strcmp(op, "pck")) eb_pck(pc, pp);
		else if (!strcmp(op, "upk")) { r = eb_upk(pc, pp); if (r == 1) r = -99; }
		else if (!strcmp(op, "on_curve")) r = eb_on_curve(pp);
		else if (!strcmp(op, "is_infty")) r = eb_is_infty(pp);
		else { fprintf(OUT, "unknown-ebu %s\n", op); return; }
	} RLC_CATCH_ANY { caught = 1; }
	if (take_err() || caught) fprintf(OUT, "err"); else if (r != -99) fprintf(OUT, "r=%d", r);
	else if (!strcmp(op, "pck")) { fb_out(pc->x); fputc(',', OUT); fb_out(pc->y); }   /* (x, bit): not a point */
	else {
		eb_out(pc);
		if (!strcmp(op, "hlv")) fprintf(OUT, " coord=%d", pc->coord);
		if (!strcmp(op, "norm") && pc->coord != BASIC) fprintf(OUT, " NOT-BASIC");
	}
	fputc('\n', OUT);
}

/* ebm <variant> <alias> <P> <k> : scalar multiplication */
static void op_ebm(int argc, char **argv) {
	if (argc < 5) { fprintf(OUT, "bad-args\n"); return; }
	const char *v = argv[1];
	int alias = parse_int(argv[2]), caught = 0;
	eb_t p, c; eb_st *pp, *pc; bn_t k; raw_t rk;
	static eb_t tab[RLC_EB_TABLE_MAX];
	bn_null(k); bn_new(k);
	pp = p; pc = c;
	eb_set_infty(c);
	eb_tok(p, argv[3]);
	if (take_err()) { fprintf(OUT, "bad-token\n"); return; }
	raw_parse(&rk, argv[4]); raw_to_bn(k, &rk);
	if (alias == 1) pc = pp;
	RLC_TRY {
		if (!strcmp(v, "mul")) eb_mul(pc, pp, k);
		else if (!strcmp(v, "basic")) eb_mul_basic(pc, pp, k);
		else if (!strcmp(v, "lodah")) eb_mul_lodah(pc, pp, k);
		else if (!strcmp(v, "lwnaf")) eb_mul_lwnaf(pc, pp, k);
		else if (!strcmp(v, "rwnaf")) eb_mul_rwnaf(pc, pp, k);
		else if (!strcmp(v, "halve")) eb_mul_halve(pc, pp, k);
		else if (!strcmp(v, "gen")) eb_mul_gen(pc, k);
		else if (!strcmp(v, "dig")) eb_mul_dig(pc, pp, k->dp[0]);
		else if (!strncmp(v, "fix_", 4)) {
			memset(tab, 0, sizeof(tab));
			if (!strcmp(v, "fix_basic")) { eb_mul_pre_basic(tab, pp); eb_mul_fix_basic(pc, (const eb_t *)tab, k); }
			else if (!strcmp(v, "fix_combs")) { eb_mul_pre_combs(tab, pp); eb_mul_fix_combs(pc, (const eb_t *)tab, k); }
			else if (!strcmp(v, "fix_combd")) { eb_mul_pre_combd(tab, pp); eb_mul_fix_combd(pc, (const eb_t *)tab, k); }
			else if (!strcmp(v, "fix_lwnaf")) { eb_mul_pre_lwnaf(tab, pp); eb_mul_fix_lwnaf(pc, (const eb_t *)tab, k); }
			else if (!strcmp(v, "fix_")) { eb_mul_pre(tab, pp); eb_mul_fix(pc, (const eb_t *)tab, k); }
			else { fprintf(OUT, "unknown-ebm %s\n", v); return; }
		}
		else { fprintf(OUT, "unknown-ebm %s\n", v); return; }
	} RLC_CATCH_ANY { caught = 1; }
	if (take_err() || caught) fprintf(OUT, "err"); else eb_out(pc);
	fputc('\n', OUT);
}

/* ebs <variant>[.p|.q] <P> <k> <Q> <m> : k*P + m*Q ; variant gen uses the generator for P ; suffix .p / .q : the result object is the first /
   second point operand (every eb_mul_sim_* documents its result as an independent parameter, so aliasing must not change the value) */
static void op_ebs(int argc, char **argv) {
	if (argc < 6) { fprintf(OUT, "bad-args\n"); return; }
	char v[32]; int al = 0;
	snprintf(v, sizeof(v), "%s", argv[1]);
	char *dot = strchr(v, '.');
	if (dot) { al = dot[1] == 'p' ? 1 : (dot[1] == 'q' ? 2 : 0); *dot = 0; }
	int caught = 0;
	eb_t p, q, c0; bn_t k, m; raw_t r;
	bn_null(k); bn_new(k); bn_null(m); bn_new(m);
	eb_set_infty(c0);
	eb_tok(p, argv[2]); raw_parse(&r, argv[3]); raw_to_bn(k, &r);
	eb_tok(q, argv[4]); raw_parse(&r, argv[5]); raw_to_bn(m, &r);
	if (take_err()) { fprintf(OUT, "bad-token\n"); return; }
	eb_st *c = al == 1 ? p : (al == 2 ? q : c0);
	RLC_TRY {
		if (!strcmp(v, "sim")) eb_mul_sim(c, p, k, q, m);
		else if (!strcmp(v, "basic")) eb_mul_sim_basic(c, p, k, q, m);
		else if (!strcmp(v, "trick")) eb_mul_sim_trick(c, p, k, q, m);
		else if (!strcmp(v, "inter")) eb_mul_sim_inter(c, p, k, q, m);
		else if (!strcmp(v, "joint")) eb_mul_sim_joint(c, p, k, q, m);
		else if (!strcmp(v, "gen")) eb_mul_sim_gen(c, k, q, m);
		else { fprintf(OUT, "unknown-ebs %s\n", v); return; }
	} RLC_CATCH_ANY { caught = 1; }
	if (take_err() || caught) fprintf(OUT, "err"); else eb_out(c);
	fputc('\n', OUT);
}

/* eb_nsim <alias> <n> <P1> ... <Pn> : eb_norm_sim */
static void op_eb_nsim(int argc, char **argv) {
	if (argc < 3) { fprintf(OUT, "bad-args\n"); return; }
	int alias = parse_int(argv[1]), n = parse_int(argv[2]), caught = 0;
	static eb_t a[16], c[16];
	if (n < 1 || n > 16 || argc < 3 + n) { fprintf(OUT, "bad-args\n"); return; }
	for (int i = 0; i < n; i++) { eb_tok(a[i], argv[3 + i]); eb_set_infty(c[i]); }
	if (take_err()) { fprintf(OUT, "bad-token\n"); return; }
	RLC_TRY { eb_norm_sim(alias ? a : c, (const eb_t *)a, n); } RLC_CATCH_ANY { caught = 1; }
	if (take_err() || caught) fprintf(OUT, "err");
	else for (int i = 0; i < n; i++) {
		eb_st *r = alias ? a[i] : c[i];
		if (i) fputc(';', OUT);
		eb_out(r);
		if (!eb_is_infty(r) && r->coord != BASIC) fprintf(OUT, " NOT-BASIC");
	}
	fputc('\n', OUT);
}

/* eb_wbin <len> <pack> <P> ; eb_rbin <hex> */
static void op_eb_wbin(int argc, char **argv) {
	if (argc < 4) { fprintf(OUT, "bad-args\n"); return; }
	int len = parse_int(argv[1]), pack = parse_int(argv[2]), caught = 0;
	uint8_t buf[4 * RLC_FB_BYTES + 80];
	eb_t p;
	if (len < 0 || len > 4 * (int)RLC_FB_BYTES) { fprintf(OUT, "bad-args\n"); return; }
	eb_tok(p, argv[3]);
	if (take_err()) { fprintf(OUT, "bad-token\n"); return; }
	memset(buf, 0xEE, sizeof(buf));
	RLC_TRY { eb_write_bin(buf + 32, len, p, pack); } RLC_CATCH_ANY { caught = 1; }
	if (take_err() || caught) fprintf(OUT, "err"); else bytes_print(buf + 32, len);
	for (int i = 0; i < 32; i++) if (buf[i] != 0xEE || buf[32 + len + i] != 0xEE) { fprintf(OUT, " WROTE-OUTSIDE"); break; }
	fprintf(OUT, " size=%d\n", (int)eb_size_bin(p, pack));
}
static void op_eb_rbin(int argc, char **argv) {
	if (argc < 2) { fprintf(OUT, "bad-args\n"); return; }
	uint8_t buf[4 * RLC_FB_BYTES + 16];
	int n = bytes_parse(buf, sizeof(buf), argv[1]), caught = 0;
	eb_t p;
	eb_set_infty(p);
	RLC_TRY { eb_read_bin(p, buf, n); } RLC_CATCH_ANY { caught = 1; }
	if (take_err() || caught) fprintf(OUT, "err");
	else { eb_out(p); }
	fputc('\n', OUT);
}

/* bn_tnaf <kind> <u> <m> <w> <cap> <k> : tau-adic recodings of src/bn/relic_bn_rec.c (kind = tnaf | rtnaf | mod); u = 1 | -1;
 * cap = the buffer length handed to the function (the buffer itself is larger and guarded, a write past cap is flagged) */
static void op_bn_tnaf(int argc, char **argv) {
	if (argc < 7) { fprintf(OUT, "bad-args\n"); return; }
	const char *kind = argv[1];
	int u = parse_int(argv[2]), m = parse_int(argv[3]), w = parse_int(argv[4]), cap = parse_int(argv[5]), caught = 0;
	static int8_t buf[4096];
	bn_t k, r0, r1; raw_t rk;
	bn_null(k); bn_new(k); bn_null(r0); bn_new(r0); bn_null(r1); bn_new(r1);
	raw_parse(&rk, argv[6]); raw_to_bn(k, &rk);
	if ((u != 1 && u != -1) || m < 1 || m > 600 || w < 2 || w > 8 || cap < 0 || cap > 2000) { fprintf(OUT, "bad-args\n"); return; }
	memset(buf, 0x55, sizeof(buf));
	size_t len = cap;
	RLC_TRY {
		if (!strcmp(kind, "tnaf")) bn_rec_tnaf(buf, &len, k, (int8_t)u, m, w);
		else if (!strcmp(kind, "rtnaf")) bn_rec_rtnaf(buf, &len, k, (int8_t)u, m, w);
		else if (!strcmp(kind, "mod")) bn_rec_tnaf_mod(r0, r1, k, u, m);
		else { fprintf(OUT, "unknown-bn_tnaf %s\n", kind); return; }
	} RLC_CATCH_ANY { caught = 1; }
	if (take_err() || caught) { fprintf(OUT, "err\n"); return; }
	if (!strcmp(kind, "mod")) { bn_out(r0); fputc(' ', OUT); bn_out(r1); fputc('\n', OUT); return; }
	fprintf(OUT, "len=%d", (int)len);
	for (size_t i = 0; i < len && i < sizeof(buf); i++) fprintf(OUT, "%c%d", i ? ',' : ' ', (int)buf[i]);
	if (len > (size_t)cap) fprintf(OUT, " WROTE-PAST-CAP");
	else for (size_t i = cap; i < sizeof(buf); i++) if (buf[i] != 0x55) { fprintf(OUT, " WROTE-PAST-CAP"); break; }
	fputc('\n', OUT);
}

const op_t ops_eb[] = {
	{"eb_param", op_eb_param}, {"ebb", op_ebb}, {"ebu", op_ebu}, {"ebm", op_ebm}, {"ebs", op_ebs}, {"eb_nsim", op_eb_nsim},
	{"eb_wbin", op_eb_wbin}, {"eb_rbin", op_eb_rbin}, {"bn_tnaf", op_bn_tnaf},
	{NULL, NULL}
};
