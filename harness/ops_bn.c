/* bn_* operations of the line protocol (properties C01, C07, C09, C08). */
#include "oracle.h"

static int g_top = 0; /* 1: call without an enclosing RLC_TRY */

static void junk(bn_st *c) {
	c->used = 3;
	c->dp[0] = (dig_t)0xA5A5A5A5A5A5A5A5ULL;
	c->dp[1] = (dig_t)0x5A5A5A5A5A5A5A5AULL;
	c->dp[2] = (dig_t)0x3C;
	c->sign = RLC_NEG;
}

static int same(const bn_st *x, const raw_t *r) {
	if (x->used != (size_t)r->n) return 0;
	if ((x->sign == RLC_NEG) != (r->neg != 0)) return 0;
	for (int i = 0; i < r->n; i++) if (x->dp[i] != r->d[i]) return 0;
	return 1;
}

/* operation ids for the shared runner */
enum { O_ADD, O_SUB, O_MUL, O_MUL_BASIC, O_MUL_COMBA, O_MUL_KARAT, O_DIV, O_MOD, O_GCD, O_GCD_BASIC,
       O_GCD_BINAR, O_GCD_LEHME, O_LCM, O_MOD_BASIC,
       O_SQR, O_SQR_BASIC, O_SQR_COMBA, O_SQR_KARAT, O_DBL, O_HLV, O_NEG, O_ABS, O_COPY, O_SRT };

static void call3(int id, bn_st *c, bn_st *a, bn_st *b) {
	switch (id) {
		case O_ADD: bn_add(c, a, b); break;
		case O_SUB: bn_sub(c, a, b); break;
		case O_MUL: bn_mul(c, a, b); break;
		case O_MUL_BASIC: bn_mul_basic(c, a, b); break;
		case O_MUL_COMBA: bn_mul_comba(c, a, b); break;
		case O_MUL_KARAT: bn_mul_karat(c, a, b); break;
		case O_DIV: bn_div(c, a, b); break;
		case O_MOD: bn_mod(c, a, b); break;
		case O_MOD_BASIC: bn_mod_basic(c, a, b); break;
		case O_GCD: bn_gcd(c, a, b); break;
		case O_GCD_BASIC: bn_gcd_basic(c, a, b); break;
		case O_GCD_BINAR: bn_gcd_binar(c, a, b); break;
		case O_GCD_LEHME: bn_gcd_lehme(c, a, b); break;
		case O_LCM: bn_lcm(c, a, b); break;
	}
}

static void call2(int id, bn_st *c, bn_st *a) {
	switch (id) {
		case O_SQR: bn_sqr(c, a); break;
		case O_SQR_BASIC: bn_sqr_basic(c, a); break;
		case O_SQR_COMBA: bn_sqr_comba(c, a); break;
		case O_SQR_KARAT: bn_sqr_karat(c, a); break;
		case O_DBL: bn_dbl(c, a); break;
		case O_HLV: bn_hlv(c, a); break;
		case O_NEG: bn_neg(c, a); break;
		case O_ABS: bn_abs(c, a); break;
		case O_COPY: bn_copy(c, a); break;
		case O_SRT: bn_srt(c, a); break;
	}
}

/* <op> <alias> <a> <b> : alias 0 c fresh; 1 c==a; 2 c==b; 3 a==b (b ignored); 4 c==a==b */
static void run3(int id, int argc, char **argv) {
	if (argc < 4) { fprintf(OUT, "bad-args\n"); return; }
	int alias = parse_int(argv[1]);
	raw_t ra, rb;
	bn_t a, b, c;
	bn_st *pa = a, *pb = b, *pc = c;
	int caught = 0;
	raw_parse(&ra, argv[2]);
	raw_parse(&rb, argv[3]);
	bn_null(a); bn_null(b); bn_null(c);
	bn_new(a); bn_new(b); bn_new(c);
	raw_to_bn(a, &ra); raw_to_bn(b, &rb); junk(c);
	if (alias == 3 || alias == 4) { pb = pa; rb = ra; }
	if (alias == 1 || alias == 4) pc = pa;
	if (alias == 2) pc = pb;
	if (g_top) {
		call3(id, pc, pa, pb);
	} else {
		RLC_TRY { call3(id, pc, pa, pb); } RLC_CATCH_ANY { caught = 1; }
	}
	if (take_err() || caught) {
		fprintf(OUT, "err");
	} else {
		bn_out(pc);
	}
	if (pc != pa && !same(pa, &ra)) fprintf(OUT, " INPUT-A-MODIFIED");
	if (pc != pb && !same(pb, &rb)) fprintf(OUT, " INPUT-B-MODIFIED");
	fprintf(OUT, "\n");
	bn_free(a); bn_free(b); bn_free(c);
}

/* <op> <alias> <a> : alias 0 fresh, 1 c==a */
static void run2(int id, int argc, char **argv) {
	if (argc < 3) { fprintf(OUT, "bad-args\n"); return; }
	int alias = parse_int(argv[1]);
	raw_t ra;
	bn_t a, c;
	bn_st *pa = a, *pc = c;
	int caught = 0;
	raw_parse(&ra, argv[2]);
	bn_null(a); bn_null(c);
	bn_new(a); bn_new(c);
	raw_to_bn(a, &ra); junk(c);
	if (alias == 1) pc = pa;
	if (g_top) {
		call2(id, pc, pa);
	} else {
		RLC_TRY { call2(id, pc, pa); } RLC_CATCH_ANY { caught = 1; }
	}
	if (take_err() || caught) fprintf(OUT, "err"); else bn_out(pc);
	if (pc != pa && !same(pa, &ra)) fprintf(OUT, " INPUT-A-MODIFIED");
	fprintf(OUT, "\n");
	bn_free(a); bn_free(c);
}

#define OP3(N, ID) static void op_##N(int argc, char **argv) { run3(ID, argc, argv); }
#define OP2(N, ID) static void op_##N(int argc, char **argv) { run2(ID, argc, argv); }
OP3(bn_add, O_ADD) OP3(bn_sub, O_SUB) OP3(bn_mul, O_MUL) OP3(bn_mul_basic, O_MUL_BASIC)
OP3(bn_mul_comba, O_MUL_COMBA) OP3(bn_mul_karat, O_MUL_KARAT) OP3(bn_div, O_DIV) OP3(bn_mod, O_MOD)
OP3(bn_mod_basic, O_MOD_BASIC)
OP3(bn_gcd, O_GCD) OP3(bn_gcd_basic, O_GCD_BASIC) OP3(bn_gcd_binar, O_GCD_BINAR)
OP3(bn_gcd_lehme, O_GCD_LEHME) OP3(bn_lcm, O_LCM)
OP2(bn_sqr, O_SQR) OP2(bn_sqr_basic, O_SQR_BASIC) OP2(bn_sqr_comba, O_SQR_COMBA)
OP2(bn_sqr_karat, O_SQR_KARAT) OP2(bn_dbl, O_DBL) OP2(bn_hlv, O_HLV) OP2(bn_neg, O_NEG)
OP2(bn_abs, O_ABS) OP2(bn_copy, O_COPY) OP2(bn_srt, O_SRT)

/* bn_div_rem <alias> <a> <b> : alias 0 fresh q,r; 1 q==a; 2 r==a; 3 q==b; 4 r==b */
static void op_bn_div_rem(int argc, char **argv) {
	if (argc < 4) { fprintf(OUT, "bad-args\n"); return; }
	int alias = parse_int(argv[1]);
	raw_t ra, rb;
	bn_t a, b, q, r;
	bn_st *pa = a, *pb = b, *pq = q, *pr = r;
	int caught = 0;
	raw_parse(&ra, argv[2]); raw_parse(&rb, argv[3]);
	bn_null(a); bn_null(b); bn_null(q); bn_null(r);
	bn_new(a); bn_new(b); bn_new(q); bn_new(r);
	raw_to_bn(a, &ra); raw_to_bn(b, &rb); junk(q); junk(r);
	if (alias == 1) pq = pa;
	if (alias == 2) pr = pa;
	if (alias == 3) pq = pb;
	if (alias == 4) pr = pb;
	if (g_top) {
		bn_div_rem(pq, pr, pa, pb);
	} else {
		RLC_TRY { bn_div_rem(pq, pr, pa, pb); } RLC_CATCH_ANY { caught = 1; }
	}
	if (take_err() || caught) fprintf(OUT, "err");
	else { bn_out(pq); fputc(' ', OUT); bn_out(pr); }
	if (pq != pa && pr != pa && !same(pa, &ra)) fprintf(OUT, " INPUT-A-MODIFIED");
	if (pq != pb && pr != pb && !same(pb, &rb)) fprintf(OUT, " INPUT-B-MODIFIED");
	fprintf(OUT, "\n");
	bn_free(a); bn_free(b); bn_free(q); bn_free(r);
}

/* single-digit forms: <op> <alias> <a> <dighex> */
enum { D_ADD, D_SUB, D_MUL, D_DIV, D_DIVREM, D_MOD };
static void rund(int id, int argc, char **argv) {
	if (argc < 4) { fprintf(OUT, "bad-args\n"); return; }
	int alias = parse_int(argv[1]);
	raw_t ra;
	bn_t a, c;
	bn_st *pa = a, *pc = c;
	dig_t d = (dig_t)parse_u64(argv[3]), rem = 0;
	int caught = 0;
	raw_parse(&ra, argv[2]);
	bn_null(a); bn_null(c); bn_new(a); bn_new(c);
	raw_to_bn(a, &ra); junk(c);
	if (alias == 1) pc = pa;
	RLC_TRY {
		switch (id) {
			case D_ADD: bn_add_dig(pc, pa, d); break;
			case D_SUB: bn_sub_dig(pc, pa, d); break;
			case D_MUL: bn_mul_dig(pc, pa, d); break;
			case D_DIV: bn_div_dig(pc, pa, d); break;
			case D_DIVREM: bn_div_rem_dig(pc, &rem, pa, d); break;
			case D_MOD: bn_mod_dig(&rem, pa, d); break;
		}
	} RLC_CATCH_ANY { caught = 1; }
	if (take_err() || caught) fprintf(OUT, "err");
	else {
		if (id != D_MOD) bn_out(pc);
		if (id == D_DIVREM || id == D_MOD) fprintf(OUT, "%s%llx", id == D_MOD ? "" : " ", (unsigned long long)rem);
	}
	if (pc != pa && !same(pa, &ra)) fprintf(OUT, " INPUT-A-MODIFIED");
	fprintf(OUT, "\n");
	bn_free(a); bn_free(c);
}
#define OPD(N, ID) static void op_##N(int argc, char **argv) { rund(ID, argc, argv); }
OPD(bn_add_dig, D_ADD) OPD(bn_sub_dig, D_SUB) OPD(bn_mul_dig, D_MUL) OPD(bn_div_dig, D_DIV)
OPD(bn_div_rem_dig, D_DIVREM) OPD(bn_mod_dig, D_MOD)

/* shifts: <op> <alias> <a> <bits> */
static void runs(int id, int argc, char **argv) {
	if (argc < 4) { fprintf(OUT, "bad-args\n"); return; }
	int alias = parse_int(argv[1]);
	raw_t ra;
	bn_t a, c;
	bn_st *pa = a, *pc = c;
	int bits = parse_int(argv[3]);
	int caught = 0;
	raw_parse(&ra, argv[2]);
	bn_null(a); bn_null(c); bn_new(a); bn_new(c);
	raw_to_bn(a, &ra); junk(c);
	if (alias == 1) pc = pa;
	RLC_TRY {
		switch (id) {
			case 0: bn_lsh(pc, pa, bits); break;
			case 1: bn_rsh(pc, pa, bits); break;
			case 2: bn_mod_2b(pc, pa, bits); break;
		}
	} RLC_CATCH_ANY { caught = 1; }
	if (take_err() || caught) fprintf(OUT, "err"); else bn_out(pc);
	if (pc != pa && !same(pa, &ra)) fprintf(OUT, " INPUT-A-MODIFIED");
	fprintf(OUT, "\n");
	bn_free(a); bn_free(c);
}
static void op_bn_lsh(int argc, char **argv) { runs(0, argc, argv); }
static void op_bn_rsh(int argc, char **argv) { runs(1, argc, argv); }
static void op_bn_mod_2b(int argc, char **argv) { runs(2, argc, argv); }

/* predicates / queries: <op> <a> [<b>|<int>] -> integer */
static void op_bn_cmp(int argc, char **argv) {
	raw_t ra, rb; bn_t a, b;
	if (argc < 3) { fprintf(OUT, "bad-args\n"); return; }
	raw_parse(&ra, argv[1]); raw_parse(&rb, argv[2]);
	bn_null(a); bn_null(b); bn_new(a); bn_new(b);
	raw_to_bn(a, &ra); raw_to_bn(b, &rb);
	fprintf(OUT, "%d %d\n", bn_cmp(a, b), bn_cmp_abs(a, b));
}
static void op_bn_cmp_dig(int argc, char **argv) {
	raw_t ra; bn_t a;
	if (argc < 3) { fprintf(OUT, "bad-args\n"); return; }
	raw_parse(&ra, argv[1]);
	bn_null(a); bn_new(a); raw_to_bn(a, &ra);
	fprintf(OUT, "%d\n", bn_cmp_dig(a, (dig_t)parse_u64(argv[2])));
}
static void op_bn_info(int argc, char **argv) {
	raw_t ra; bn_t a;
	if (argc < 2) { fprintf(OUT, "bad-args\n"); return; }
	raw_parse(&ra, argv[1]);
	bn_null(a); bn_new(a); raw_to_bn(a, &ra);
	fprintf(OUT, "bits=%d ham=%d even=%d zero=%d sign=%d\n", (int)bn_bits(a), (int)bn_ham(a), bn_is_even(a),
		bn_is_zero(a), bn_sign(a));
}
static void op_bn_get_bit(int argc, char **argv) {
	raw_t ra; bn_t a;
	if (argc < 3) { fprintf(OUT, "bad-args\n"); return; }
	raw_parse(&ra, argv[1]);
	bn_null(a); bn_new(a); raw_to_bn(a, &ra);
	fprintf(OUT, "%d\n", bn_get_bit(a, parse_int(argv[2])));
}
static void op_bn_set_bit(int argc, char **argv) {
	raw_t ra; bn_t a; int caught = 0;
	if (argc < 4) { fprintf(OUT, "bad-args\n"); return; }
	raw_parse(&ra, argv[1]);
	bn_null(a); bn_new(a); raw_to_bn(a, &ra);
	/* the digits above the most significant one are storage the library has not written: they must not become part of the value */
	for (int i = a->used; i < (int)RLC_BN_SIZE; i++) a->dp[i] = (dig_t)0xA5A5A5A5A5A5A5A5ULL;
	if (g_top) bn_set_bit(a, parse_int(argv[2]), parse_int(argv[3]));
	else { RLC_TRY { bn_set_bit(a, parse_int(argv[2]), parse_int(argv[3])); } RLC_CATCH_ANY { caught = 1; } }
	if (take_err() || caught) fprintf(OUT, "err\n"); else { bn_out(a); fprintf(OUT, "\n"); }
}
static void op_bn_set_2b(int argc, char **argv) {
	bn_t a; int caught = 0;
	if (argc < 2) { fprintf(OUT, "bad-args\n"); return; }
	bn_null(a); bn_new(a); junk(a);
	RLC_TRY { bn_set_2b(a, parse_int(argv[1])); } RLC_CATCH_ANY { caught = 1; }
	if (take_err() || caught) fprintf(OUT, "err\n"); else { bn_out(a); fprintf(OUT, "\n"); }
}

/* ---- exported low-level digit-vector functions: documented outputs only (digits + carry) ---- */
/* lowN <op> <alias> <n> <a> <b>   (n digits each; alias 0 fresh, 1 c==a, 2 c==b) */
static void op_low2(int argc, char **argv) {
	if (argc < 6) { fprintf(OUT, "bad-args\n"); return; }
	const char *op = argv[1];
	int alias = parse_int(argv[2]), n = parse_int(argv[3]);
	static raw_t ra, rb, rc;
	dig_t carry = 0;
	if (n < 0 || n > 2 * RLC_BN_SIZE) { fprintf(OUT, "bad-args\n"); return; }
	raw_parse_n(&ra, argv[4], n); raw_parse_n(&rb, argv[5], n);
	for (int i = 0; i < 4 * RLC_BN_SIZE + 8; i++) rc.d[i] = (dig_t)0x7E7E7E7E7E7E7E7EULL;
	dig_t *c = rc.d;
	if (alias == 1) c = ra.d;
	if (alias == 2) c = rb.d;
	int outn = n;
	if (!strcmp(op, "addn")) carry = bn_addn_low(c, ra.d, rb.d, n);
	else if (!strcmp(op, "subn")) carry = bn_subn_low(c, ra.d, rb.d, n);
	else if (!strcmp(op, "muln")) { c = rc.d; bn_muln_low(c, ra.d, rb.d, n); outn = 2 * n; }
	else { fprintf(OUT, "unknown-low %s\n", op); return; }
	raw_print(c, outn, 0);
	fprintf(OUT, " %llx\n", (unsigned long long)carry);
}
/* low1 <op> <alias> <n> <a> <dig> */
static void op_low1(int argc, char **argv) {
	if (argc < 6) { fprintf(OUT, "bad-args\n"); return; }
	const char *op = argv[1];
	int alias = parse_int(argv[2]), n = parse_int(argv[3]);
	static raw_t ra, rc;
	dig_t carry = 0, d = (dig_t)parse_u64(argv[5]);
	if (n < 0 || n > 2 * RLC_BN_SIZE) { fprintf(OUT, "bad-args\n"); return; }
	raw_parse_n(&ra, argv[4], n);
	for (int i = 0; i < 4 * RLC_BN_SIZE + 8; i++) rc.d[i] = (dig_t)0x7E7E7E7E7E7E7E7EULL;
	dig_t *c = rc.d;
	if (alias == 1) c = ra.d;
	int outn = n;
	if (!strcmp(op, "add1")) carry = bn_add1_low(c, ra.d, d, n);
	else if (!strcmp(op, "sub1")) carry = bn_sub1_low(c, ra.d, d, n);
	else if (!strcmp(op, "mul1")) carry = bn_mul1_low(c, ra.d, d, n);
	else if (!strcmp(op, "lshb")) carry = bn_lshb_low(c, ra.d, n, (uint_t)d);
	else if (!strcmp(op, "rshb")) carry = bn_rshb_low(c, ra.d, n, (uint_t)d);
	else if (!strcmp(op, "lsh1")) carry = bn_lsh1_low(c, ra.d, n);
	else if (!strcmp(op, "rsh1")) carry = bn_rsh1_low(c, ra.d, n);
	else if (!strcmp(op, "div1")) { if (d == 0 || n == 0) { fprintf(OUT, "skip\n"); return; } bn_div1_low(c, &carry, ra.d, d, n); }
	else if (!strcmp(op, "sqrn")) { c = rc.d; bn_sqrn_low(c, ra.d, n); outn = 2 * n; }
	else { fprintf(OUT, "unknown-low %s\n", op); return; }
	raw_print(c, outn, 0);
	fprintf(OUT, " %llx\n", (unsigned long long)carry);
}
/* lowa mula <n> <c> <a> <dig> : c (n digits) += a*dig, returns carry */
static void op_lowa(int argc, char **argv) {
	if (argc < 6) { fprintf(OUT, "bad-args\n"); return; }
	int n = parse_int(argv[2]);
	static raw_t ra, rc;
	if (n < 0 || n > 2 * RLC_BN_SIZE) { fprintf(OUT, "bad-args\n"); return; }
	raw_parse_n(&rc, argv[3], n); raw_parse_n(&ra, argv[4], n);
	dig_t d = (dig_t)parse_u64(argv[5]);
	dig_t carry = bn_mula_low(rc.d, ra.d, d, n);
	raw_print(rc.d, n, 0);
	fprintf(OUT, " %llx\n", (unsigned long long)carry);
}
/* lowdiv <sa> <a> <sb> <b> : bn_divn_low on scratch copies, prints quotient (sa-sb+1 digits) and remainder (sb digits) */
static void op_lowdiv(int argc, char **argv) {
	if (argc < 5) { fprintf(OUT, "bad-args\n"); return; }
	int sa = parse_int(argv[1]), sb = parse_int(argv[3]);
	static raw_t ra, rb, rq, rr;
	if (sb < 1 || sa < sb || sa > 2 * RLC_BN_SIZE) { fprintf(OUT, "bad-args\n"); return; }
	raw_parse_n(&ra, argv[2], sa); raw_parse_n(&rb, argv[4], sb);
	if (rb.d[sb - 1] == 0) { fprintf(OUT, "skip\n"); return; }
	memset(rq.d, 0, sizeof(rq.d)); memset(rr.d, 0, sizeof(rr.d));
	bn_divn_low(rq.d, rr.d, ra.d, sa, rb.d, sb);
	raw_print(rq.d, sa - sb + 1, 0); fputc(' ', OUT);
	raw_print(rr.d, sb, 0); fputc('\n', OUT);
}

static void op_mode(int argc, char **argv) {
	if (argc > 1) g_top = !strcmp(argv[1], "top");
	fprintf(OUT, "mode %s\n", g_top ? "top" : "try");
}

#include "ops_bn2.inc"

const op_t ops_bn[] = {
	{"mode", op_mode},
	{"bn_add", op_bn_add}, {"bn_sub", op_bn_sub}, {"bn_mul", op_bn_mul}, {"bn_mul_basic", op_bn_mul_basic},
	{"bn_mul_comba", op_bn_mul_comba}, {"bn_mul_karat", op_bn_mul_karat}, {"bn_div", op_bn_div},
	{"bn_mod", op_bn_mod}, {"bn_mod_basic", op_bn_mod_basic}, {"bn_gcd", op_bn_gcd},
	{"bn_gcd_basic", op_bn_gcd_basic}, {"bn_gcd_binar", op_bn_gcd_binar}, {"bn_gcd_lehme", op_bn_gcd_lehme},
	{"bn_lcm", op_bn_lcm},
	{"bn_sqr", op_bn_sqr}, {"bn_sqr_basic", op_bn_sqr_basic}, {"bn_sqr_comba", op_bn_sqr_comba},
	{"bn_sqr_karat", op_bn_sqr_karat}, {"bn_dbl", op_bn_dbl}, {"bn_hlv", op_bn_hlv}, {"bn_neg", op_bn_neg},
	{"bn_abs", op_bn_abs}, {"bn_copy", op_bn_copy}, {"bn_srt", op_bn_srt},
	{"bn_div_rem", op_bn_div_rem},
	{"bn_add_dig", op_bn_add_dig}, {"bn_sub_dig", op_bn_sub_dig}, {"bn_mul_dig", op_bn_mul_dig},
	{"bn_div_dig", op_bn_div_dig}, {"bn_div_rem_dig", op_bn_div_rem_dig}, {"bn_mod_dig", op_bn_mod_dig},
	{"bn_lsh", op_bn_lsh}, {"bn_rsh", op_bn_rsh}, {"bn_mod_2b", op_bn_mod_2b},
	{"bn_cmp", op_bn_cmp}, {"bn_cmp_dig", op_bn_cmp_dig}, {"bn_info", op_bn_info},
	{"bn_get_bit", op_bn_get_bit}, {"bn_set_bit", op_bn_set_bit}, {"bn_set_2b", op_bn_set_2b},
	{"low2", op_low2}, {"low1", op_low1}, {"lowa", op_lowa}, {"lowdiv", op_lowdiv},
	BN2_OPS
	{NULL, NULL}
};
