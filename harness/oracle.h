/* Line-protocol oracle: calls the real library in-process, one operation per input line. */
#ifndef ORACLE_H
#define ORACLE_H

#include <stdio.h>
#include <stdlib.h>
#include <string.h>
#include <stdint.h>
#include "relic.h"
#include "relic_bn_low.h"

#define MAXTOK 64

typedef void (*op_fn)(int argc, char **argv);
typedef struct { const char *name; op_fn fn; } op_t;

extern FILE *OUT;

/* raw digit vectors, independent of the library's own conversion code */
typedef struct { dig_t d[4 * RLC_BN_SIZE + 8]; int n; int neg; } raw_t;

int hexval(int c);
/* parse "[-]hex" into little-endian digits; n = minimal number of digits (>= 1) */
void raw_parse(raw_t *r, const char *s);
/* parse "hex" into exactly n digits (zero padded) */
void raw_parse_n(raw_t *r, const char *s, int n);
void raw_print(const dig_t *d, int n, int neg);
void raw_to_bn(bn_t b, const raw_t *r);
void bn_out(const bn_t b);
int parse_int(const char *s);
unsigned long long parse_u64(const char *s);
/* bytes as hex string */
int bytes_parse(uint8_t *out, int max, const char *s);
void bytes_print(const uint8_t *b, int n);
/* run-time error state after an operation: prints " err" suffix handling */
int take_err(void);

#define ERR_LINE() do { fprintf(OUT, "err\n"); } while (0)

#endif
