/* signature schemes of the line protocol (property C05).
 * Every operation is self-contained and reproducible: operations that draw randomness start with a first seeding of the
 * library DRBG from the <seed> token; keys, messages and signature components are passed as values.
 *   integers : [-]hex            bytes : hex | "."            points : "inf" | "<x>,<y>" (may be off the curve)
 * The curve is the one selected by the last `ep_param <id>` line (ec_* = ep_* in the pinned configuration). */
#include "oracle.h"
#include "relic_ep.h"
#include "relic_cp.h"
#include "relic_rand.h"

#define MAXM (1 << 16)
static uint8_t M1[MAXM + 64], M2[MAXM + 64], SG[MAXM + 64];

void ep_tok(ep_t p, const char *tok);
void ep_out(const ep_t p);

static void seed_tok(const char *tok) {
	static uint8_t sb[4096];
	int n = bytes_parse(sb, sizeof(sb), tok);
	if (n == 0) { sb[0] = 0; n = 1; }
	core_get()->seeded = 0;
	rand_seed(sb, n);
}

static void bn_tok(bn_t b, const char *tok) {
	raw_t r;
	raw_parse(&r, tok);
	raw_to_bn(b, &r);
	if (b->used == 1 && b->dp[0] == 0) b->sign = RLC_POS;
}

/* minimal hex of the value, '-' for negative */
static void bn_hex(const bn_t b) {
	int started = 0;
	if (b->sign == RLC_NEG && !bn_is_zero(b)) fputc('-', OUT);
	for (int i = b->used - 1; i >= 0; i--) {
		if (!started) {
			if (b->dp[i] == 0 && i > 0) continue;
			fprintf(OUT, "%llx", (unsigned long long)b->dp[i]);
			started = 1;
		} else fprintf(OUT, "%0*llx", RLC_DIG / 4, (unsigned long long)b->dp[i]);
	}
	if (!started) fputc('0', OUT);
}

/* verdict of a verifier: "v=<return value>", followed by " err" when the library also reported an error; "err" alone when the
 * verifier threw out of its own frame (no return value) */
static void ver_out(int v, int caught) {
	int e = take_err();
	if (caught) fprintf(OUT, "err\n");
	else fprintf(OUT, e ? "v=%d err\n" : "v=%d\n", v);
}

#define NEWBN(x) bn_t x; bn_null(x); bn_new(x)
#define NEWEC(x) ec_t x; ec_null(x); ec_new(x)
#define BAD() do { fprintf(OUT, "bad-args\n"); return; } while (0)

/* the point exactly as given: affine coordinates, no validation (off-curve points are representable) */
static void pt_tok(ec_t p, const char *tok) { ep_tok(p, tok); }

/* a point result that may be garbage: print raw affine coordinates without normalisation when it is flagged BASIC */
static void pt_out(const ec_t p) { ep_out(p); }

/* ------------------------------------------------------------------------------------------------------------- */
/* ECDSA */

/* ecdsa_gen <seed> | ecss_gen <seed> | vbnn_gen <seed> | ers_gen_key <seed> : d, Q = dG */
static void op_ec_gen(int argc, char **argv) {
	if (argc < 2) BAD();
	NEWBN(d); NEWEC(q);
	int rc = -1, caught = 0;
	seed_tok(argv[1]);
	RLC_TRY {
		if (!strcmp(argv[0], "ecdsa_gen")) rc = cp_ecdsa_gen(d, q);
		else if (!strcmp(argv[0], "ecss_gen")) rc = cp_ecss_gen(d, q);
		else if (!strcmp(argv[0], "vbnn_gen")) rc = cp_vbnn_gen(d, q);
		else rc = cp_ers_gen_key(d, q);
	} RLC_CATCH_ANY { caught = 1; }
	if (take_err() || caught || rc != RLC_OK) { fprintf(OUT, "err\n"); return; }
	fprintf(OUT, "d="); bn_hex(d); fprintf(OUT, " q="); pt_out(q); fputc('\n', OUT);
}

/* ecdsa_sig <seed> <hash> <msg> <d> */
static void op_ecdsa_sig(int argc, char **argv) {
	if (argc < 5) BAD();
	NEWBN(d); NEWBN(r); NEWBN(s);
	int hash = parse_int(argv[2]), rc = -1, caught = 0;
	int ml = bytes_parse(M1, MAXM, argv[3]);
	bn_tok(d, argv[4]);
	seed_tok(argv[1]);
	RLC_TRY { rc = cp_ecdsa_sig(r, s, M1, ml, hash, d); } RLC_CATCH_ANY { caught = 1; }
	if (take_err() || caught || rc != RLC_OK) { fprintf(OUT, "err\n"); return; }
	fprintf(OUT, "r="); bn_hex(r); fprintf(OUT, " s="); bn_hex(s); fputc('\n', OUT);
}

/* ecdsa_ver <hash> <Q> <msg> <r> <s> */
static void op_ecdsa_ver(int argc, char **argv) {
	if (argc < 6) BAD();
	NEWBN(r); NEWBN(s); NEWEC(q);
	int hash = parse_int(argv[1]), v = -1, caught = 0;
	pt_tok(q, argv[2]);
	int ml = bytes_parse(M1, MAXM, argv[3]);
	bn_tok(r, argv[4]); bn_tok(s, argv[5]);
	RLC_TRY { v = cp_ecdsa_ver(r, s, M1, ml, hash, q); } RLC_CATCH_ANY { caught = 1; }
	ver_out(v, caught);
}

/* ------------------------------------------------------------------------------------------------------------- */
/* EC-Schnorr */

/* ecss_sig <seed> <msg> <d> */
static void op_ecss_sig(int argc, char **argv) {
	if (argc < 4) BAD();
	NEWBN(d); NEWBN(e); NEWBN(s);
	int rc = -1, caught = 0;
	int ml = bytes_parse(M1, MAXM, argv[2]);
	bn_tok(d, argv[3]);
	seed_tok(argv[1]);
	RLC_TRY { rc = cp_ecss_sig(e, s, M1, ml, d); } RLC_CATCH_ANY { caught = 1; }
	if (take_err() || caught || rc != RLC_OK) { fprintf(OUT, "err\n"); return; }
	fprintf(OUT, "e="); bn_hex(e); fprintf(OUT, " s="); bn_hex(s); fputc('\n', OUT);
}

/* ecss_ver <Q> <msg> <e> <s> */
static void op_ecss_ver(int argc, char **argv) {
	if (argc < 5) BAD();
	NEWBN(e); NEWBN(s); NEWEC(q);
	int v = -1, caught = 0;
	pt_tok(q, argv[1]);
	int ml = bytes_parse(M1, MAXM, argv[2]);
	bn_tok(e, argv[3]); bn_tok(s, argv[4]);
	RLC_TRY { v = cp_ecss_ver(e, s, M1, ml, q); } RLC_CATCH_ANY { caught = 1; }
	ver_out(v, caught);
}

/* ------------------------------------------------------------------------------------------------------------- */
/* RSA */

#if CP_RSAPD == PKCS2
#define RSAPD_NAME "pkcs2"
#elif CP_RSAPD == PKCS1
#define RSAPD_NAME "pkcs1"
#else
#define RSAPD_NAME "basic"
#endif

static void rsa_init(rsa_t k) {
	rsa_null(k); rsa_new(k);
	bn_zero(k->d); bn_zero(k->e); bn_zero(k->crt->n); bn_zero(k->crt->p); bn_zero(k->crt->q);
	bn_zero(k->crt->dp); bn_zero(k->crt->dq); bn_zero(k->crt->qi);
}

/* rsa_gen <seed> <bits> */
static void op_rsa_gen(int argc, char **argv) {
	if (argc < 3) BAD();
	rsa_t pub, prv;
	int bits = parse_int(argv[2]), rc = -1, caught = 0;
	if (bits < 16 || bits > RLC_BN_BITS) BAD();
	rsa_init(pub); rsa_init(prv);
	seed_tok(argv[1]);
	RLC_TRY { rc = cp_rsa_gen(pub, prv, bits); } RLC_CATCH_ANY { caught = 1; }
	if (take_err() || caught || rc != RLC_OK) { fprintf(OUT, "err\n"); return; }
	fprintf(OUT, "n="); bn_hex(pub->crt->n); fprintf(OUT, " e="); bn_hex(pub->e);
	fprintf(OUT, " d="); bn_hex(prv->d); fprintf(OUT, " p="); bn_hex(prv->crt->p); fprintf(OUT, " q="); bn_hex(prv->crt->q);
	fprintf(OUT, " dp="); bn_hex(prv->crt->dp); fprintf(OUT, " dq="); bn_hex(prv->crt->dq); fprintf(OUT, " qi="); bn_hex(prv->crt->qi);
	fprintf(OUT, " n2="); bn_hex(prv->crt->n); fputc('\n', OUT);
}

/* rsa_sig <pad> <hash> <msg> <cap> <n> <e> <d> <p> <q> <dp> <dq> <qi>  (e is not used by the signer; it is on the line for the
 * specification; <pad> names the padding the line was generated for and must be the compiled one) */
static void op_rsa_sig(int argc, char **argv) {
	if (argc < 13 || strcmp(argv[1], RSAPD_NAME)) BAD();
	argv++;
	rsa_t prv;
	int hash = parse_int(argv[1]), cap = parse_int(argv[3]), rc = -1, caught = 0;
	int ml = bytes_parse(M1, MAXM, argv[2]);
	size_t sl;
	if (cap < 0 || cap > MAXM) BAD();
	rsa_init(prv);
	bn_tok(prv->crt->n, argv[4]); bn_tok(prv->e, argv[5]); bn_tok(prv->d, argv[6]); bn_tok(prv->crt->p, argv[7]);
	bn_tok(prv->crt->q, argv[8]); bn_tok(prv->crt->dp, argv[9]); bn_tok(prv->crt->dq, argv[10]); bn_tok(prv->crt->qi, argv[11]);
	memset(SG, 0xEE, cap + 64);
	sl = cap;
	RLC_TRY { rc = cp_rsa_sig(SG + 32, &sl, M1, ml, hash, prv); } RLC_CATCH_ANY { caught = 1; }
	if (take_err() || caught || rc != RLC_OK) fprintf(OUT, "err");
	else { fprintf(OUT, "sig="); bytes_print(SG + 32, (int)sl); }
	for (int i = 0; i < 32; i++) if (SG[i] != 0xEE || SG[32 + cap + i] != 0xEE) { fprintf(OUT, " WROTE-OUTSIDE"); break; }
	fputc('\n', OUT);
}

/* rsa_ver <pad> <hash> <n> <e> <msg> <sig> */
static void op_rsa_ver(int argc, char **argv) {
	if (argc < 7 || strcmp(argv[1], RSAPD_NAME)) BAD();
	argv++;
	rsa_t pub;
	int hash = parse_int(argv[1]), v = -1, caught = 0;
	rsa_init(pub);
	bn_tok(pub->crt->n, argv[2]); bn_tok(pub->e, argv[3]);
	int ml = bytes_parse(M1, MAXM, argv[4]);
	int sl = bytes_parse(SG, MAXM, argv[5]);
	/* the pre-hashed verifier always hashes RLC_MD_LEN bytes from its copy of the message: keep what follows a short one defined */
	RLC_TRY { v = cp_rsa_ver(SG, sl, M1, ml, hash, pub); } RLC_CATCH_ANY { caught = 1; }
	ver_out(v, caught);
}


/* ------------------------------------------------------------------------------------------------------------- */
/* vBNN-IBS */

/* vbnn_gen_prv <seed> <msk> <id> */
static void op_vbnn_gen_prv(int argc, char **argv) {
	if (argc < 4) BAD();
	NEWBN(msk); NEWBN(sk); NEWEC(pk);
	int rc = -1, caught = 0;
	bn_tok(msk, argv[2]);
	int il = bytes_parse(M1, MAXM, argv[3]);
	seed_tok(argv[1]);
	RLC_TRY { rc = cp_vbnn_gen_prv(sk, pk, msk, M1, il); } RLC_CATCH_ANY { caught = 1; }
	if (take_err() || caught || rc != RLC_OK) { fprintf(OUT, "err\n"); return; }
	fprintf(OUT, "sk="); bn_hex(sk); fprintf(OUT, " pk="); pt_out(pk); fputc('\n', OUT);
}

/* vbnn_sig <seed> <id> <msg> <sk> <pk> */
static void op_vbnn_sig(int argc, char **argv) {
	if (argc < 6) BAD();
	NEWBN(sk); NEWBN(z); NEWBN(h); NEWEC(pk); NEWEC(r);
	int rc = -1, caught = 0;
	int il = bytes_parse(M1, MAXM, argv[2]);
	int ml = bytes_parse(M2, MAXM, argv[3]);
	bn_tok(sk, argv[4]); pt_tok(pk, argv[5]);
	seed_tok(argv[1]);
	RLC_TRY { rc = cp_vbnn_sig(r, z, h, M1, il, M2, ml, sk, pk); } RLC_CATCH_ANY { caught = 1; }
	if (take_err() || caught || rc != RLC_OK) { fprintf(OUT, "err\n"); return; }
	fprintf(OUT, "r="); pt_out(r); fprintf(OUT, " z="); bn_hex(z); fprintf(OUT, " h="); bn_hex(h); fputc('\n', OUT);
}

/* vbnn_ver <R> <z> <h> <id> <msg> <mpk> */
static void op_vbnn_ver(int argc, char **argv) {
	if (argc < 7) BAD();
	NEWBN(z); NEWBN(h); NEWEC(r); NEWEC(mpk);
	int v = -1, caught = 0;
	pt_tok(r, argv[1]); bn_tok(z, argv[2]); bn_tok(h, argv[3]);
	int il = bytes_parse(M1, MAXM, argv[4]);
	int ml = bytes_parse(M2, MAXM, argv[5]);
	pt_tok(mpk, argv[6]);
	RLC_TRY { v = cp_vbnn_ver(r, z, h, M1, il, M2, ml, mpk); } RLC_CATCH_ANY { caught = 1; }
	ver_out(v, caught);
}

/* ------------------------------------------------------------------------------------------------------------- */
/* proofs / signatures of knowledge */

/* pokdl_prv <seed> <y> <x> ; sokdl_sig <seed> <msg> <y> <x> */
static void op_dl_prv(int argc, char **argv) {
	int sok = argv[0][0] == 's';
	if (argc < 4 + sok) BAD();
	NEWBN(c); NEWBN(r); NEWBN(x); NEWEC(y);
	int rc = -1, caught = 0, ml = 0;
	if (sok) ml = bytes_parse(M1, MAXM, argv[2]);
	pt_tok(y, argv[2 + sok]); bn_tok(x, argv[3 + sok]);
	seed_tok(argv[1]);
	RLC_TRY { rc = sok ? cp_sokdl_sig(c, r, M1, ml, y, x) : cp_pokdl_prv(c, r, y, x); } RLC_CATCH_ANY { caught = 1; }
	if (take_err() || caught || rc != RLC_OK) { fprintf(OUT, "err\n"); return; }
	fprintf(OUT, "c="); bn_hex(c); fprintf(OUT, " r="); bn_hex(r); fputc('\n', OUT);
}

/* pokdl_ver <c> <r> <y> ; sokdl_ver <c> <s> <msg> <y> */
static void op_dl_ver(int argc, char **argv) {
	int sok = argv[0][0] == 's';
	if (argc < 4 + sok) BAD();
	NEWBN(c); NEWBN(r); NEWEC(y);
	int v = -1, caught = 0, ml = 0;
	bn_tok(c, argv[1]); bn_tok(r, argv[2]);
	if (sok) ml = bytes_parse(M1, MAXM, argv[3]);
	pt_tok(y, argv[3 + sok]);
	RLC_TRY { v = sok ? cp_sokdl_ver(c, r, M1, ml, y) : cp_pokdl_ver(c, r, y); } RLC_CATCH_ANY { caught = 1; }
	ver_out(v, caught);
}

/* pokor_prv <seed> <y0> <y1> <x> ; sokor_sig <seed> <msg> <y0> <y1> <g0|-> <g1|-> <x> <first> */
static void op_or_prv(int argc, char **argv) {
	int sok = argv[0][0] == 's';
	if (argc < (sok ? 9 : 5)) BAD();
	bn_t c[2], r[2]; ec_t y[2], g[2]; NEWBN(x);
	int rc = -1, caught = 0, ml = 0, first = 0, useg = 0;
	for (int i = 0; i < 2; i++) { bn_null(c[i]); bn_new(c[i]); bn_null(r[i]); bn_new(r[i]); ec_null(y[i]); ec_new(y[i]); ec_null(g[i]); ec_new(g[i]); }
	if (sok) {
		ml = bytes_parse(M1, MAXM, argv[2]);
		pt_tok(y[0], argv[3]); pt_tok(y[1], argv[4]);
		useg = strcmp(argv[5], "-") != 0;
		if (useg) { pt_tok(g[0], argv[5]); pt_tok(g[1], argv[6]); }
		bn_tok(x, argv[7]); first = parse_int(argv[8]) ? 1 : 0;
	} else {
		pt_tok(y[0], argv[2]); pt_tok(y[1], argv[3]); bn_tok(x, argv[4]);
	}
	seed_tok(argv[1]);
	RLC_TRY {
		rc = sok ? cp_sokor_sig(c, r, M1, ml, (const ec_t *)y, useg ? (const ec_t *)g : NULL, x, first) : cp_pokor_prv(c, r, (const ec_t *)y, x);
	} RLC_CATCH_ANY { caught = 1; }
	if (take_err() || caught || rc != RLC_OK) { fprintf(OUT, "err\n"); return; }
	fprintf(OUT, "c0="); bn_hex(c[0]); fprintf(OUT, " c1="); bn_hex(c[1]); fprintf(OUT, " r0="); bn_hex(r[0]); fprintf(OUT, " r1="); bn_hex(r[1]);
	fputc('\n', OUT);
}

/* pokor_ver <c0> <c1> <r0> <r1> <y0> <y1> ; sokor_ver <c0> <c1> <s0> <s1> <msg> <y0> <y1> <g0|-> <g1|-> */
static void op_or_ver(int argc, char **argv) {
	int sok = argv[0][0] == 's';
	if (argc < (sok ? 10 : 7)) BAD();
	bn_t c[2], r[2]; ec_t y[2], g[2];
	int v = -1, caught = 0, ml = 0, useg = 0;
	for (int i = 0; i < 2; i++) { bn_null(c[i]); bn_new(c[i]); bn_null(r[i]); bn_new(r[i]); ec_null(y[i]); ec_new(y[i]); ec_null(g[i]); ec_new(g[i]); }
	bn_tok(c[0], argv[1]); bn_tok(c[1], argv[2]); bn_tok(r[0], argv[3]); bn_tok(r[1], argv[4]);
	if (sok) {
		ml = bytes_parse(M1, MAXM, argv[5]);
		pt_tok(y[0], argv[6]); pt_tok(y[1], argv[7]);
		useg = strcmp(argv[8], "-") != 0;
		if (useg) { pt_tok(g[0], argv[8]); pt_tok(g[1], argv[9]); }
	} else { pt_tok(y[0], argv[5]); pt_tok(y[1], argv[6]); }
	RLC_TRY {
		v = sok ? cp_sokor_ver((const bn_t *)c, (const bn_t *)r, M1, ml, (const ec_t *)y, useg ? (const ec_t *)g : NULL)
			: cp_pokor_ver((const bn_t *)c, (const bn_t *)r, (const ec_t *)y);
	} RLC_CATCH_ANY { caught = 1; }
	ver_out(v, caught);
}

/* ------------------------------------------------------------------------------------------------------------- */
/* extendable ring signatures */

#define MAXRING 8
static ers_t RING[MAXRING];
static etrs_t TRING[MAXRING];
static smlers_t LRING[MAXRING];

static void ers_init(ers_st *e) {
	memset(e, 0, sizeof(*e));
	ec_null(e->h); ec_new(e->h); ec_null(e->pk); ec_new(e->pk);
	for (int i = 0; i < 2; i++) { bn_null(e->c[i]); bn_new(e->c[i]); bn_null(e->r[i]); bn_new(e->r[i]); bn_zero(e->c[i]); bn_zero(e->r[i]); }
	ec_set_infty(e->h); ec_set_infty(e->pk);
}
static void etrs_init(etrs_st *e) {
	memset(e, 0, sizeof(*e));
	bn_null(e->y); bn_new(e->y); bn_zero(e->y);
	ec_null(e->h); ec_new(e->h); ec_null(e->pk); ec_new(e->pk);
	for (int i = 0; i < 2; i++) { bn_null(e->c[i]); bn_new(e->c[i]); bn_null(e->r[i]); bn_new(e->r[i]); bn_zero(e->c[i]); bn_zero(e->r[i]); }
	ec_set_infty(e->h); ec_set_infty(e->pk);
}
static void smlers_init(smlers_st *e) {
	memset(e, 0, sizeof(*e));
	ers_init(e->sig);
	ec_null(e->tau); ec_new(e->tau); ec_set_infty(e->tau);
	for (int i = 0; i < 2; i++) { bn_null(e->c[i]); bn_new(e->c[i]); bn_null(e->r[i]); bn_new(e->r[i]); bn_zero(e->c[i]); bn_zero(e->r[i]); }
}

static void ers_print(const ers_st *e) {
	pt_out(e->h); fputc(' ', OUT); pt_out(e->pk);
	for (int i = 0; i < 2; i++) { fputc(' ', OUT); bn_hex(e->c[i]); }
	for (int i = 0; i < 2; i++) { fputc(' ', OUT); bn_hex(e->r[i]); }
}
/* reads <h> <pk> <c0> <c1> <r0> <r1> */
static void ers_read(ers_st *e, char **a) {
	pt_tok(e->h, a[0]); pt_tok(e->pk, a[1]); bn_tok(e->c[0], a[2]); bn_tok(e->c[1], a[3]); bn_tok(e->r[0], a[4]); bn_tok(e->r[1], a[5]);
}

/* ers_run <seed> <msg> <signers 1..MAXRING> : public parameter, keys, one signature extended signers-1 times, and the verdict;
 * output: pp=<pt> td=<hex> size=<k> then k elements "h pk c0 c1 r0 r1", then v=<verdict> and sk=<first signer's key> */
static void op_ers_run(int argc, char **argv) {
	if (argc < 4) BAD();
	int k = parse_int(argv[3]), caught = 0, v = -1, rc = RLC_OK;
	if (k < 1 || k > MAXRING) BAD();
	int ml = bytes_parse(M1, MAXM, argv[2]);
	NEWEC(pp); NEWBN(td); bn_t sk[MAXRING]; ec_t pk[MAXRING]; size_t size = 0;
	for (int i = 0; i < MAXRING; i++) { ers_init(RING[i]); bn_null(sk[i]); bn_new(sk[i]); ec_null(pk[i]); ec_new(pk[i]); }
	seed_tok(argv[1]);
	RLC_TRY {
		rc |= cp_ers_gen(pp);
		for (int i = 0; i < k; i++) rc |= cp_ers_gen_key(sk[i], pk[i]);
		rc |= cp_ers_sig(td, RING[0], M1, ml, sk[0], pk[0], pp);
		size = 1;
		for (int i = 1; i < k; i++) rc |= cp_ers_ext(td, RING, &size, M1, ml, pk[i], pp);
		v = cp_ers_ver(td, RING, size, M1, ml, pp);
	} RLC_CATCH_ANY { caught = 1; }
	if (take_err() || caught || rc != RLC_OK) { fprintf(OUT, "err\n"); return; }
	fprintf(OUT, "pp="); pt_out(pp); fprintf(OUT, " td="); bn_hex(td); fprintf(OUT, " size=%d", (int)size);
	for (int i = 0; i < (int)size; i++) { fputc(' ', OUT); ers_print(RING[i]); }
	fprintf(OUT, " v=%d sk=", v); bn_hex(sk[0]); fputc('\n', OUT);
}

/* ers_ver <td> <msg> <pp> <size> [<h> <pk> <c0> <c1> <r0> <r1>]* */
static void op_ers_ver(int argc, char **argv) {
	if (argc < 5) BAD();
	int k = parse_int(argv[4]), caught = 0, v = -1;
	if (k < 0 || k > MAXRING || argc < 5 + 6 * k) BAD();
	NEWEC(pp); NEWBN(td);
	bn_tok(td, argv[1]);
	int ml = bytes_parse(M1, MAXM, argv[2]);
	pt_tok(pp, argv[3]);
	for (int i = 0; i < k; i++) { ers_init(RING[i]); ers_read(RING[i], argv + 5 + 6 * i); }
	RLC_TRY { v = cp_ers_ver(td, RING, k, M1, ml, pp); } RLC_CATCH_ANY { caught = 1; }
	ver_out(v, caught);
}

/* etrs_run <seed> <msg> <max 1..4> <ext 0..> <uni 0|1> : cp_etrs_sig by the first signer, optionally cp_etrs_uni by a second one (threshold 2),
 * then <ext> extensions; output: pp= thres= max= td… y… size= then elements "y h pk c0 c1 r0 r1", v= (verdict at the intended threshold) */
static void op_etrs_run(int argc, char **argv) {
	if (argc < 6) BAD();
	int max = parse_int(argv[3]), ext = parse_int(argv[4]), uni = parse_int(argv[5]) ? 1 : 0, caught = 0, v = -1, rc = RLC_OK;
	if (max < 1 || max > 4 || ext < 0 || ext > max || 1 + uni + ext > MAXRING) BAD();
	int ml = bytes_parse(M1, MAXM, argv[2]);
	NEWEC(pp); bn_t td[4], y[4], sk[MAXRING]; ec_t pk[MAXRING]; size_t size = 0;
	for (int i = 0; i < 4; i++) { bn_null(td[i]); bn_new(td[i]); bn_null(y[i]); bn_new(y[i]); bn_zero(td[i]); bn_zero(y[i]); }
	for (int i = 0; i < MAXRING; i++) { etrs_init(TRING[i]); bn_null(sk[i]); bn_new(sk[i]); ec_null(pk[i]); ec_new(pk[i]); }
	seed_tok(argv[1]);
	RLC_TRY {
		rc |= cp_ers_gen(pp);
		for (int i = 0; i < 1 + uni + ext; i++) rc |= cp_ers_gen_key(sk[i], pk[i]);
		rc |= cp_etrs_sig(td, y, max, TRING[0], M1, ml, sk[0], pk[0], pp);
		size = 1;
		if (uni) rc |= cp_etrs_uni(1, td, y, max, TRING, &size, M1, ml, sk[1], pk[1], pp);
		for (int i = 0; i < ext; i++) rc |= cp_etrs_ext(td, y, max, TRING, &size, M1, ml, pk[1 + uni + i], pp);
		v = cp_etrs_ver(1 + uni, (const bn_t *)(td + ext), (const bn_t *)(y + ext), max - ext, TRING, size, M1, ml, pp);
	} RLC_CATCH_ANY { caught = 1; }
	if (take_err() || caught || rc != RLC_OK) { fprintf(OUT, "err\n"); return; }
	fprintf(OUT, "pp="); pt_out(pp); fprintf(OUT, " thres=%d max=%d", 1 + uni, max - ext);
	for (int i = ext; i < max; i++) { fputc(' ', OUT); bn_hex(td[i]); }
	for (int i = ext; i < max; i++) { fputc(' ', OUT); bn_hex(y[i]); }
	fprintf(OUT, " size=%d", (int)size);
	for (int i = 0; i < (int)size; i++) {
		fputc(' ', OUT); bn_hex(TRING[i]->y); fputc(' ', OUT);
		ers_st t; memset(&t, 0, sizeof(t));
		pt_out(TRING[i]->h); fputc(' ', OUT); pt_out(TRING[i]->pk);
		for (int j = 0; j < 2; j++) { fputc(' ', OUT); bn_hex(TRING[i]->c[j]); }
		for (int j = 0; j < 2; j++) { fputc(' ', OUT); bn_hex(TRING[i]->r[j]); }
	}
	fprintf(OUT, " v=%d\n", v);
}

/* etrs_ver <thres> <msg> <pp> <max> <td…> <y…> <size> [<y> <h> <pk> <c0> <c1> <r0> <r1>]* */
static void op_etrs_ver(int argc, char **argv) {
	if (argc < 5) BAD();
	int thres = parse_int(argv[1]), max = parse_int(argv[4]), caught = 0, v = -1;
	if (max < 0 || max > 4 || argc < 6 + 2 * max) BAD();
	int k = parse_int(argv[5 + 2 * max]);
	if (k < 0 || k > MAXRING || argc < 6 + 2 * max + 7 * k || thres < 0 || max + k - thres < 0 || thres > k) BAD();
	NEWEC(pp); bn_t td[4], y[4];
	int ml = bytes_parse(M1, MAXM, argv[2]);
	pt_tok(pp, argv[3]);
	for (int i = 0; i < 4; i++) { bn_null(td[i]); bn_new(td[i]); bn_null(y[i]); bn_new(y[i]); bn_zero(td[i]); bn_zero(y[i]); }
	for (int i = 0; i < max; i++) { bn_tok(td[i], argv[5 + i]); bn_tok(y[i], argv[5 + max + i]); }
	for (int i = 0; i < k; i++) {
		char **a = argv + 6 + 2 * max + 7 * i;
		etrs_init(TRING[i]);
		bn_tok(TRING[i]->y, a[0]); pt_tok(TRING[i]->h, a[1]); pt_tok(TRING[i]->pk, a[2]);
		bn_tok(TRING[i]->c[0], a[3]); bn_tok(TRING[i]->c[1], a[4]); bn_tok(TRING[i]->r[0], a[5]); bn_tok(TRING[i]->r[1], a[6]);
	}
	RLC_TRY { v = cp_etrs_ver(thres, (const bn_t *)td, (const bn_t *)y, max, TRING, k, M1, ml, pp); } RLC_CATCH_ANY { caught = 1; }
	ver_out(v, caught);
}

/* smlers_run <seed> <msg> <signers> : like ers_run for the linkable variant; output adds hm=<ec_map(msg)> and per element
 * "h pk c0 c1 r0 r1 tau d0 d1 t0 t1" */
static void smlers_print(const smlers_st *e) {
	ers_print(e->sig); fputc(' ', OUT); pt_out(e->tau);
	for (int i = 0; i < 2; i++) { fputc(' ', OUT); bn_hex(e->c[i]); }
	for (int i = 0; i < 2; i++) { fputc(' ', OUT); bn_hex(e->r[i]); }
}
static void op_smlers_run(int argc, char **argv) {
	if (argc < 4) BAD();
	int k = parse_int(argv[3]), caught = 0, v = -1, rc = RLC_OK;
	if (k < 1 || k > 4) BAD();
	int ml = bytes_parse(M1, MAXM, argv[2]);
	NEWEC(pp); NEWEC(hm); NEWBN(td); bn_t sk[MAXRING]; ec_t pk[MAXRING]; size_t size = 0;
	for (int i = 0; i < MAXRING; i++) { smlers_init(LRING[i]); bn_null(sk[i]); bn_new(sk[i]); ec_null(pk[i]); ec_new(pk[i]); }
	seed_tok(argv[1]);
	RLC_TRY {
		rc |= cp_ers_gen(pp);
		for (int i = 0; i < k; i++) rc |= cp_ers_gen_key(sk[i], pk[i]);
		rc |= cp_smlers_sig(td, LRING[0], M1, ml, sk[0], pk[0], pp);
		size = 1;
		for (int i = 1; i < k; i++) rc |= cp_smlers_ext(td, LRING, &size, M1, ml, pk[i], pp);
		v = cp_smlers_ver(td, LRING, size, M1, ml, pp);
		ec_map(hm, M1, ml);
	} RLC_CATCH_ANY { caught = 1; }
	if (take_err() || caught || rc != RLC_OK) { fprintf(OUT, "err\n"); return; }
	fprintf(OUT, "pp="); pt_out(pp); fprintf(OUT, " hm="); pt_out(hm); fprintf(OUT, " td="); bn_hex(td); fprintf(OUT, " size=%d", (int)size);
	for (int i = 0; i < (int)size; i++) { fputc(' ', OUT); smlers_print(LRING[i]); }
	fprintf(OUT, " v=%d\n", v);
}

/* smlers_ver <td> <msg> <pp> <size> [<h> <pk> <c0> <c1> <r0> <r1> <tau> <d0> <d1> <t0> <t1>]* ; prints hm=<ec_map(msg)> v= */
static void op_smlers_ver(int argc, char **argv) {
	if (argc < 5) BAD();
	int k = parse_int(argv[4]), caught = 0, v = -1;
	if (k < 0 || k > 5 || argc < 5 + 11 * k) BAD();
	NEWEC(pp); NEWEC(hm); NEWBN(td);
	bn_tok(td, argv[1]);
	int ml = bytes_parse(M1, MAXM, argv[2]);
	pt_tok(pp, argv[3]);
	for (int i = 0; i < k; i++) {
		char **a = argv + 5 + 11 * i;
		smlers_init(LRING[i]); ers_read(LRING[i]->sig, a);
		pt_tok(LRING[i]->tau, a[6]); bn_tok(LRING[i]->c[0], a[7]); bn_tok(LRING[i]->c[1], a[8]); bn_tok(LRING[i]->r[0], a[9]); bn_tok(LRING[i]->r[1], a[10]);
	}
	RLC_TRY { ec_map(hm, M1, ml); v = cp_smlers_ver(td, LRING, k, M1, ml, pp); } RLC_CATCH_ANY { caught = 1; }
	fprintf(OUT, "hm="); if (caught) fprintf(OUT, "?"); else pt_out(hm); fputc(' ', OUT);
	ver_out(v, caught);
}

/* ers_gen <seed> : the public parameter */
static void op_ers_gen(int argc, char **argv) {
	if (argc < 2) BAD();
	NEWEC(pp); int caught = 0;
	seed_tok(argv[1]);
	RLC_TRY { cp_ers_gen(pp); } RLC_CATCH_ANY { caught = 1; }
	if (take_err() || caught) { fprintf(OUT, "err\n"); return; }
	fprintf(OUT, "pp="); pt_out(pp); fprintf(OUT, " on=%d\n", ec_on_curve(pp) && !ec_is_infty(pp));
}

const op_t ops_sig[] = {
	{"ecdsa_gen", op_ec_gen}, {"ecss_gen", op_ec_gen}, {"vbnn_gen", op_ec_gen}, {"ers_gen_key", op_ec_gen},
	{"ecdsa_sig", op_ecdsa_sig}, {"ecdsa_ver", op_ecdsa_ver},
	{"ecss_sig", op_ecss_sig}, {"ecss_ver", op_ecss_ver},
	{"rsa_gen", op_rsa_gen}, {"rsa_sig", op_rsa_sig}, {"rsa_ver", op_rsa_ver},
	{"vbnn_gen_prv", op_vbnn_gen_prv}, {"vbnn_sig", op_vbnn_sig}, {"vbnn_ver", op_vbnn_ver},
	{"pokdl_prv", op_dl_prv}, {"sokdl_sig", op_dl_prv}, {"pokdl_ver", op_dl_ver}, {"sokdl_ver", op_dl_ver},
	{"pokor_prv", op_or_prv}, {"sokor_sig", op_or_prv}, {"pokor_ver", op_or_ver}, {"sokor_ver", op_or_ver},
	{"ers_gen", op_ers_gen}, {"ers_run", op_ers_run}, {"ers_ver", op_ers_ver},
	{"etrs_run", op_etrs_run}, {"etrs_ver", op_etrs_ver}, {"smlers_run", op_smlers_run}, {"smlers_ver", op_smlers_ver},
	{NULL, NULL}
};
