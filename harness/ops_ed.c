/* twisted Edwards curve operations of the line protocol (property C17).
 * Point tokens: "<x>,<y>" (affine, coord = BASIC, z = 1) | "<x>,<y>,<z>,P" | "<x>,<y>,<z>,E": the affine point (x, y)
 * presented as (xz : yz : z) with coord = PROJC / EXTND. The fourth coordinate is always set to t = xyz (T·Z = X·Y), in
 * every build. Printed points: affine coordinates obtained with plain field operations (not with ed_norm), then the flags
 * " Z=0", " BASIC-WITH-Z!=1", and — where the operation has to maintain it — " T-BAD" when T·Z != X·Y. */
#include "oracle.h"
#include "relic_ed.h"

#define ED_SYS (ED_ADD == EXTND ? "extnd" : (ED_ADD == PROJC ? "projc" : "basic"))
#define ED_MULM (ED_MUL == BASIC ? "basic" : ED_MUL == SLIDE ? "slide" : ED_MUL == MONTY ? "monty" : ED_MUL == LWNAF ? "lwnaf" : ED_MUL == LWREG ? "lwreg" : "?")
#define ED_FIXM (ED_FIX == BASIC ? "basic" : ED_FIX == COMBS ? "combs" : ED_FIX == COMBD ? "combd" : ED_FIX == LWNAF ? "lwnaf" : "?")
#define ED_SIMM (ED_SIM == BASIC ? "basic" : ED_SIM == TRICK ? "trick" : ED_SIM == INTER ? "inter" : ED_SIM == JOINT ? "joint" : "?")

static void fp_tok(fp_t a, const char *tok) {
	raw_t r; bn_t t;
	raw_parse(&r, tok);
	bn_null(t); bn_new(t); raw_to_bn(t, &r);
	if (bn_is_zero(t)) fp_zero(a); else fp_prime_conv(a, t);
}

static void fp_print_std(const fp_t a) {
	bn_t t; bn_null(t); bn_new(t);
	fp_prime_back(t, a);
	char buf[RLC_FP_DIGS * (RLC_DIG / 4) + 2]; int p = 0;
	for (int i = t->used - 1; i >= 0; i--) p += sprintf(buf + p, "%0*llx", RLC_DIG / 4, (unsigned long long)t->dp[i]);
	buf[p] = 0;
	char *s = buf; while (*s == '0' && s[1]) s++;
	fprintf(OUT, "%s", s);
}

static void ed_tok(ed_t p, const char *tok) {
	char buf[1024];
	strncpy(buf, tok, sizeof(buf) - 1); buf[sizeof(buf) - 1] = 0;
	char *f[4]; int n = 0;
	for (char *q = strtok(buf, ","); q && n < 4; q = strtok(NULL, ",")) f[n++] = q;
	fp_zero(p->x); fp_set_dig(p->y, 1); fp_set_dig(p->z, 1); fp_zero(p->t); p->coord = BASIC;
	if (n < 2) return;
	fp_tok(p->x, f[0]); fp_tok(p->y, f[1]);
	fp_mul(p->t, p->x, p->y);
	if (n == 4) {
		fp_t z; fp_null(z); fp_new(z);
		fp_tok(z, f[2]);
		fp_mul(p->x, p->x, z); fp_mul(p->y, p->y, z); fp_mul(p->t, p->t, z); fp_copy(p->z, z);
		p->coord = (f[3][0] == 'E') ? EXTND : PROJC;
	}
}

/* want_t: the operation is one that has to leave T·Z = X·Y */
static void ed_out(const ed_t p, int want_t) {
	fp_t zi, x, y, l, r;
	fp_null(zi); fp_null(x); fp_null(y); fp_null(l); fp_null(r);
	fp_new(zi); fp_new(x); fp_new(y); fp_new(l); fp_new(r);
	if (p->coord == BASIC) {
		fp_print_std(p->x); fputc(',', OUT); fp_print_std(p->y);
		if (fp_cmp_dig(p->z, 1) != RLC_EQ) fprintf(OUT, " BASIC-WITH-Z!=1");
	} else {
		if (fp_is_zero(p->z)) { fprintf(OUT, "Z=0"); return; }
		fp_inv(zi, p->z);
		fp_mul(x, p->x, zi); fp_mul(y, p->y, zi);
		fp_print_std(x); fputc(',', OUT); fp_print_std(y);
	}
	if (want_t) {
		fp_mul(l, p->t, p->z); fp_mul(r, p->x, p->y);
		if (fp_cmp(l, r) != RLC_EQ) fprintf(OUT, " T-BAD");
	}
}

static int sys_t(void) { return ED_ADD == EXTND; }

/* ed_param <id>|any */
static void op_ed_param(int argc, char **argv) {
	if (argc < 2) { fprintf(OUT, "bad-args\n"); return; }
	int caught = 0;
	RLC_TRY {
		if (!strcmp(argv[1], "any")) ed_param_set_any(); else ed_param_set(parse_int(argv[1]));
	} RLC_CATCH_ANY { caught = 1; }
	if (take_err() || caught) { fprintf(OUT, "err\n"); return; }
	ed_t g; bn_t n, h; ed_null(g); ed_new(g); bn_null(n); bn_new(n); bn_null(h); bn_new(h);
	ed_curve_get_gen(g); ed_curve_get_ord(n); ed_curve_get_cof(h);
	fprintf(OUT, "ed_param id=%d p=", ed_param_get());
	raw_print(fp_prime_get(), RLC_FP_DIGS, 0);
	fprintf(OUT, " a="); fp_print_std(core_get()->ed_a);
	fprintf(OUT, " d="); fp_print_std(core_get()->ed_d);
	fprintf(OUT, " gx="); fp_print_std(g->x); fprintf(OUT, " gy="); fp_print_std(g->y);
	fprintf(OUT, " r="); raw_print(n->dp, n->used, 0);
	fprintf(OUT, " h="); raw_print(h->dp, h->used, 0);
	fp_t tl, tr; fp_null(tl); fp_null(tr); fp_new(tl); fp_new(tr);
	fp_mul(tl, g->t, g->z); fp_mul(tr, g->x, g->y);
	fprintf(OUT, " sys=%s gcoord=%d gz1=%d gt=%d fpdigs=%d fpbits=%d nb=%d width=%d depth=%d level=%d preco=%d mulm=%s fixm=%s simm=%s\n", ED_SYS, g->coord,
		fp_cmp_dig(g->z, 1) == RLC_EQ, fp_cmp(tl, tr) == RLC_EQ,
		(int)RLC_FP_DIGS, (int)RLC_FP_BITS, (int)RLC_FP_BYTES, (int)RLC_WIDTH, (int)RLC_DEPTH, ed_param_level(),
#ifdef ED_PRECO
		1,
#else
		0,
#endif
		ED_MULM, ED_FIXM, ED_SIMM);
}

/* ed2 <op> <alias> <P> <Q> */
static void op_ed2(int argc, char **argv) {
	if (argc < 5) { fprintf(OUT, "bad-args\n"); return; }
	const char *op = argv[1];
	int alias = parse_int(argv[2]), caught = 0, r = -99, wt = 0;
	ed_t p, q, c; ed_st *pp, *pq, *pc;
	ed_null(p); ed_null(q); ed_null(c); ed_new(p); ed_new(q); ed_new(c);
	pp = p; pq = q; pc = c;
	/* the destination starts with recognisable garbage */
	fp_set_dig(c->x, 7); fp_set_dig(c->y, 7); fp_set_dig(c->z, 7); fp_set_dig(c->t, 7); c->coord = BASIC;
	ed_tok(p, argv[3]); ed_tok(q, argv[4]);
	if (alias == 3 || alias == 4) pq = pp;
	if (alias == 1 || alias == 4) pc = pp;
	if (alias == 2) pc = pq;
	RLC_TRY {
		if (!strcmp(op, "add")) { ed_add(pc, pp, pq); wt = sys_t(); }
		else if (!strcmp(op, "add_basic")) ed_add_basic(pc, pp, pq);
		else if (!strcmp(op, "add_projc")) ed_add_projc(pc, pp, pq);
		else if (!strcmp(op, "add_extnd")) { ed_add_extnd(pc, pp, pq); wt = 1; }
		else if (!strcmp(op, "sub")) { ed_sub(pc, pp, pq); wt = sys_t(); }
		else if (!strcmp(op, "sub_basic")) ed_sub_basic(pc, pp, pq);
		else if (!strcmp(op, "sub_projc")) ed_sub_projc(pc, pp, pq);
		else if (!strcmp(op, "sub_extnd")) { ed_sub_extnd(pc, pp, pq); wt = 1; }
		else if (!strcmp(op, "cmp")) { r = ed_cmp(pp, pq); }
		else { fprintf(OUT, "unknown-ed2 %s\n", op); return; }
	} RLC_CATCH_ANY { caught = 1; }
	if (take_err() || caught) fprintf(OUT, "err"); else if (r != -99) fprintf(OUT, "r=%d", r); else ed_out(pc, wt);
	fputc('\n', OUT);
}

/* ed1 <op> <alias> <P> */
static void op_ed1(int argc, char **argv) {
	if (argc < 4) { fprintf(OUT, "bad-args\n"); return; }
	const char *op = argv[1];
	int alias = parse_int(argv[2]), caught = 0, r = -99, wt = 0;
	ed_t p, c; ed_st *pp, *pc;
	ed_null(p); ed_null(c); ed_new(p); ed_new(c);
	pp = p; pc = c;
	fp_set_dig(c->x, 7); fp_set_dig(c->y, 7); fp_set_dig(c->z, 7); fp_set_dig(c->t, 7); c->coord = BASIC;
	ed_tok(p, argv[3]);
	if (alias == 1) pc = pp;
	RLC_TRY {
		if (!strcmp(op, "dbl")) { ed_dbl(pc, pp); wt = sys_t(); }
		else if (!strcmp(op, "dbl_basic")) ed_dbl_basic(pc, pp);
		else if (!strcmp(op, "dbl_projc")) ed_dbl_projc(pc, pp);
		else if (!strcmp(op, "dbl_extnd")) { ed_dbl_extnd(pc, pp); wt = 1; }
		else if (!strcmp(op, "neg")) { ed_neg(pc, pp); wt = sys_t(); }
		else if (!strcmp(op, "neg_basic")) ed_neg_basic(pc, pp);
		else if (!strcmp(op, "neg_projc")) { ed_neg_projc(pc, pp); wt = sys_t(); }
		else if (!strcmp(op, "norm")) { ed_norm(pc, pp); wt = sys_t(); }
		else if (!strcmp(op, "copy")) { ed_copy(pc, pp); wt = sys_t(); }
		else if (!strcmp(op, "blind")) { ed_blind(pc, pp); wt = sys_t(); }
		else if (!strcmp(op, "on_curve")) r = ed_on_curve(pp);
		else if (!strcmp(op, "is_infty")) r = ed_is_infty(pp);
		else { fprintf(OUT, "unknown-ed1 %s\n", op); return; }
	} RLC_CATCH_ANY { caught = 1; }
	if (take_err() || caught) fprintf(OUT, "err"); else if (r != -99) fprintf(OUT, "r=%d", r);
	else { ed_out(pc, wt); if (!strcmp(op, "norm") && pc->coord != BASIC && !ed_is_infty(pc)) fprintf(OUT, " NOT-BASIC"); }
	fputc('\n', OUT);
}

/* precomputation table: zero-filled before every use and long enough that an index derived from an over-long scalar stays
 * inside it (an all-zero entry has Z = 0 and poisons the result visibly) */
#define TABN (RLC_ED_TABLE_MAX + 600)
static ed_t tab[TABN];

/* edm <variant> <alias> <P> <k> : scalar multiplication */
static void op_edm(int argc, char **argv) {
	if (argc < 5) { fprintf(OUT, "bad-args\n"); return; }
	const char *v = argv[1];
	int alias = parse_int(argv[2]), caught = 0;
	ed_t p, c; ed_st *pp, *pc; bn_t k; raw_t rk;
	ed_null(p); ed_null(c); ed_new(p); ed_new(c); bn_null(k); bn_new(k);
	pp = p; pc = c;
	fp_set_dig(c->x, 7); fp_set_dig(c->y, 7); fp_set_dig(c->z, 7); fp_set_dig(c->t, 7); c->coord = BASIC;
	ed_tok(p, argv[3]);
	raw_parse(&rk, argv[4]); raw_to_bn(k, &rk);
	if (alias == 1) pc = pp;
	RLC_TRY {
		if (!strcmp(v, "mul")) ed_mul(pc, pp, k);
		else if (!strcmp(v, "basic")) ed_mul_basic(pc, pp, k);
		else if (!strcmp(v, "slide")) ed_mul_slide(pc, pp, k);
		else if (!strcmp(v, "monty")) ed_mul_monty(pc, pp, k);
		else if (!strcmp(v, "lwnaf")) ed_mul_lwnaf(pc, pp, k);
		else if (!strcmp(v, "lwreg")) ed_mul_lwreg(pc, pp, k);
		else if (!strcmp(v, "gen")) ed_mul_gen(pc, k);
		else if (!strcmp(v, "dig")) ed_mul_dig(pc, pp, k->dp[0]);
		else if (!strncmp(v, "fix_", 4)) {
			memset(tab, 0, sizeof(tab));
			for (int i = 0; i < TABN; i++) { ed_null(tab[i]); ed_new(tab[i]); }
			if (!strcmp(v, "fix_basic")) { ed_mul_pre_basic(tab, pp); ed_mul_fix_basic(pc, (const ed_t *)tab, k); }
			else if (!strcmp(v, "fix_combs")) { ed_mul_pre_combs(tab, pp); ed_mul_fix_combs(pc, (const ed_t *)tab, k); }
			else if (!strcmp(v, "fix_combd")) { ed_mul_pre_combd(tab, pp); ed_mul_fix_combd(pc, (const ed_t *)tab, k); }
			else if (!strcmp(v, "fix_lwnaf")) { ed_mul_pre_lwnaf(tab, pp); ed_mul_fix_lwnaf(pc, (const ed_t *)tab, k); }
			else if (!strcmp(v, "fix_")) { ed_mul_pre(tab, pp); ed_mul_fix(pc, (const ed_t *)tab, k); }
			else { fprintf(OUT, "unknown-edm %s\n", v); return; }
		}
		else { fprintf(OUT, "unknown-edm %s\n", v); return; }
	} RLC_CATCH_ANY { caught = 1; }
	if (take_err() || caught) fprintf(OUT, "err"); else ed_out(pc, sys_t());
	fputc('\n', OUT);
}

/* edtab <basic|combs|combd|lwnaf> <P> : the precomputation table ed_mul_pre_<variant> builds for P, every entry printed like a
 * result (affine value + flags), separated by ';' */
static void op_edtab(int argc, char **argv) {
	if (argc < 3) { fprintf(OUT, "bad-args\n"); return; }
	const char *v = argv[1];
	int caught = 0, len = -1;
	ed_t p; bn_t n;
	ed_null(p); ed_new(p); bn_null(n); bn_new(n);
	ed_curve_get_ord(n);
	if (!strcmp(v, "basic")) len = bn_bits(n);
	else if (!strcmp(v, "combs")) len = RLC_ED_TABLE_COMBS;
	else if (!strcmp(v, "combd")) len = RLC_ED_TABLE_COMBD;
	else if (!strcmp(v, "lwnaf")) len = RLC_ED_TABLE_LWNAF;
	if (len < 0 || len > TABN) { fprintf(OUT, "unknown-edtab %s\n", v); return; }
	ed_tok(p, argv[2]);
	memset(tab, 0, sizeof(tab));
	for (int i = 0; i < TABN; i++) { ed_null(tab[i]); ed_new(tab[i]); }
	RLC_TRY {
		if (!strcmp(v, "basic")) ed_mul_pre_basic(tab, p);
		else if (!strcmp(v, "combs")) ed_mul_pre_combs(tab, p);
		else if (!strcmp(v, "combd")) ed_mul_pre_combd(tab, p);
		else ed_mul_pre_lwnaf(tab, p);
	} RLC_CATCH_ANY { caught = 1; }
	if (take_err() || caught) { fprintf(OUT, "err\n"); return; }
	for (int i = 0; i < len; i++) { if (i) fputc(';', OUT); ed_out(tab[i], sys_t()); }
	fputc('\n', OUT);
}

/* eds <variant> <P> <k> <Q> <m> : k*P + m*Q ; variant gen uses the generator for P */
static void op_eds(int argc, char **argv) {
	if (argc < 6) { fprintf(OUT, "bad-args\n"); return; }
	/* suffix .p / .q of the variant: the result object is the first / second point operand */
	char v[32]; int al = 0;
	snprintf(v, sizeof(v), "%s", argv[1]);
	{ char *dot = strchr(v, '.'); if (dot) { al = dot[1] == 'p' ? 1 : (dot[1] == 'q' ? 2 : 0); *dot = 0; } }
	int caught = 0;
	ed_t p, q, c; bn_t k, m; raw_t r;
	ed_null(p); ed_null(q); ed_null(c); ed_new(p); ed_new(q); ed_new(c); bn_null(k); bn_new(k); bn_null(m); bn_new(m);
	fp_set_dig(c->x, 7); fp_set_dig(c->y, 7); fp_set_dig(c->z, 7); fp_set_dig(c->t, 7); c->coord = BASIC;
	ed_tok(p, argv[2]); raw_parse(&r, argv[3]); raw_to_bn(k, &r);
	ed_tok(q, argv[4]); raw_parse(&r, argv[5]); raw_to_bn(m, &r);
	ed_st *cc = al == 1 ? p : (al == 2 ? q : c);
	RLC_TRY {
		if (!strcmp(v, "sim")) ed_mul_sim(cc, p, k, q, m);
		else if (!strcmp(v, "basic")) ed_mul_sim_basic(cc, p, k, q, m);
		else if (!strcmp(v, "trick")) ed_mul_sim_trick(cc, p, k, q, m);
		else if (!strcmp(v, "inter")) ed_mul_sim_inter(cc, p, k, q, m);
		else if (!strcmp(v, "joint")) ed_mul_sim_joint(cc, p, k, q, m);
		else if (!strcmp(v, "gen")) ed_mul_sim_gen(cc, k, q, m);
		else { fprintf(OUT, "unknown-eds %s\n", v); return; }
	} RLC_CATCH_ANY { caught = 1; }
	if (take_err() || caught) fprintf(OUT, "err"); else ed_out(cc, sys_t());
	fputc('\n', OUT);
}

/* edl <n> <P1> <k1> ... : ed_mul_sim_lot ; edla <j> <n> ... : result written over the j-th input */
static void op_edl(int argc, char **argv) {
	int alias = -1;
	if (argc >= 3 && argv[0][3] == 'a') { alias = parse_int(argv[1]); argv++; argc--; }
	if (argc < 2) { fprintf(OUT, "bad-args\n"); return; }
	int n = parse_int(argv[1]), caught = 0;
	if (n < 0 || n > 24 || argc < 2 + 2 * n || alias >= n) { fprintf(OUT, "bad-args\n"); return; }
	static ed_t ps[24]; static bn_t ks[24]; ed_t c0; raw_t r;
	ed_null(c0); ed_new(c0);
	fp_set_dig(c0->x, 7); fp_set_dig(c0->y, 7); fp_set_dig(c0->z, 7); fp_set_dig(c0->t, 7); c0->coord = BASIC;
	for (int i = 0; i < n; i++) {
		ed_null(ps[i]); ed_new(ps[i]); bn_null(ks[i]); bn_new(ks[i]);
		ed_tok(ps[i], argv[2 + 2 * i]); raw_parse(&r, argv[3 + 2 * i]); raw_to_bn(ks[i], &r);
	}
	ed_t *cp = alias >= 0 ? &ps[alias] : &c0;
	RLC_TRY {
		ed_mul_sim_lot(*cp, (const ed_t *)ps, (const bn_t *)ks, n);
	} RLC_CATCH_ANY { caught = 1; }
	if (take_err() || caught) fprintf(OUT, "err"); else ed_out(*cp, sys_t());
	fputc('\n', OUT);
}

/* ed_write_bin <len> <pack> <P> ; ed_read_bin <hex> */
static void op_ed_write_bin(int argc, char **argv) {
	if (argc < 4) { fprintf(OUT, "bad-args\n"); return; }
	int len = parse_int(argv[1]), pack = parse_int(argv[2]), caught = 0;
	uint8_t buf[4 * RLC_FP_BYTES + 80];
	ed_t p; ed_null(p); ed_new(p);
	if (len < 0 || len > 4 * RLC_FP_BYTES) { fprintf(OUT, "bad-args\n"); return; }
	ed_tok(p, argv[3]);
	memset(buf, 0xEE, sizeof(buf));
	RLC_TRY { ed_write_bin(buf + 32, len, p, pack); } RLC_CATCH_ANY { caught = 1; }
	if (take_err() || caught) fprintf(OUT, "err"); else bytes_print(buf + 32, len);
	for (int i = 0; i < 32; i++) if (buf[i] != 0xEE || buf[32 + len + i] != 0xEE) { fprintf(OUT, " WROTE-OUTSIDE"); break; }
	fprintf(OUT, " size=%d\n", (int)ed_size_bin(p, pack));
}
static void op_ed_read_bin(int argc, char **argv) {
	if (argc < 2) { fprintf(OUT, "bad-args\n"); return; }
	uint8_t buf[4 * RLC_FP_BYTES + 16];
	int n = bytes_parse(buf, sizeof(buf), argv[1]), caught = 0;
	ed_t p; ed_null(p); ed_new(p);
	RLC_TRY { ed_read_bin(p, buf, n); } RLC_CATCH_ANY { caught = 1; }
	if (take_err() || caught) fprintf(OUT, "err");
	else { ed_out(p, sys_t()); fprintf(OUT, " on=%d", ed_on_curve(p)); }
	fputc('\n', OUT);
}

/* ed_pck <P> : the packed form (x reduced to its sign bit, y) ; ed_upk <y> <bit> : return value, point, ed_on_curve */
static void op_ed_pck(int argc, char **argv) {
	if (argc < 2) { fprintf(OUT, "bad-args\n"); return; }
	int caught = 0;
	ed_t p, c; ed_null(p); ed_null(c); ed_new(p); ed_new(c);
	ed_tok(p, argv[1]);
	RLC_TRY { ed_pck(c, p); } RLC_CATCH_ANY { caught = 1; }
	if (take_err() || caught) { fprintf(OUT, "err\n"); return; }
	/* the packed x is a raw bit, not a field element in the library's representation: print the stored digits */
	int raw = 0;
	for (int i = 1; i < RLC_FP_DIGS; i++) raw |= (c->x[i] != 0);
	if (raw || c->x[0] > 1) fprintf(OUT, "bit=BAD"); else fprintf(OUT, "bit=%d", (int)c->x[0]);
	fprintf(OUT, " y="); fp_print_std(c->y);
	fprintf(OUT, " coord=%d z1=%d\n", c->coord, fp_cmp_dig(c->z, 1) == RLC_EQ);
}
static void op_ed_upk(int argc, char **argv) {
	if (argc < 3) { fprintf(OUT, "bad-args\n"); return; }
	int caught = 0, r = -1, alias = argc > 3 ? parse_int(argv[3]) : 0;
	ed_t p, c; ed_st *pc; ed_null(p); ed_null(c); ed_new(p); ed_new(c);
	pc = alias ? p : c;
	fp_set_dig(p->z, 1); p->coord = BASIC; fp_zero(p->t);
	fp_tok(p->y, argv[1]);
	fp_zero(p->x); fp_set_bit(p->x, 0, parse_int(argv[2]) & 1);
	RLC_TRY { r = ed_upk(pc, p); } RLC_CATCH_ANY { caught = 1; }
	if (take_err() || caught) { fprintf(OUT, "err\n"); return; }
	fprintf(OUT, "r=%d ", r); ed_out(pc, sys_t()); fprintf(OUT, " on=%d\n", ed_on_curve(pc));
}

/* ed_map <msg> ; ed_map_dst <msg> <dst> */
static void op_ed_map(int argc, char **argv) {
	if (argc < 2) { fprintf(OUT, "bad-args\n"); return; }
	static uint8_t msg[1 << 16], dst[1 << 12];
	int n = bytes_parse(msg, sizeof(msg), argv[1]), caught = 0, nd = 0, withdst = !strcmp(argv[0], "ed_map_dst");
	if (withdst) { if (argc < 3) { fprintf(OUT, "bad-args\n"); return; } nd = bytes_parse(dst, sizeof(dst), argv[2]); }
	ed_t p; ed_null(p); ed_new(p);
	fp_set_dig(p->x, 7); fp_set_dig(p->y, 7); fp_set_dig(p->z, 7); fp_set_dig(p->t, 7); p->coord = BASIC;
	RLC_TRY { if (withdst) ed_map_dst(p, msg, n, dst, nd); else ed_map(p, msg, n); } RLC_CATCH_ANY { caught = 1; }
	if (take_err() || caught) { fprintf(OUT, "err\n"); return; }
	ed_out(p, sys_t()); fprintf(OUT, " on=%d coord=%d\n", ed_on_curve(p), p->coord);
}

/* ed_gen : the stored generator, as ed_curve_get_gen returns it ; ed_tabg <i> : i-th entry of the generator table */
static void op_ed_gen(int argc, char **argv) {
	(void)argc; (void)argv;
	ed_t g; ed_null(g); ed_new(g);
	ed_curve_get_gen(g);
	ed_out(g, sys_t()); fprintf(OUT, " on=%d\n", ed_on_curve(g));
}

/* ed_nsim <alias> <P1> ... <Pn> : ed_norm_sim on n >= 1 points in any representation (alias 1: results over the operands; else into
   destinations pre-filled with 7s); prints the results separated by ';' */
#define EDNSIM_MAX 16
static void op_ed_nsim(int argc, char **argv) {
	if (argc < 3 || argc - 2 > EDNSIM_MAX) { fprintf(OUT, "bad-args\n"); return; }
	int alias = parse_int(argv[1]), n = argc - 2, caught = 0;
	ed_t a[EDNSIM_MAX], c[EDNSIM_MAX];
	for (int i = 0; i < n; i++) {
		ed_null(a[i]); ed_null(c[i]); ed_new(a[i]); ed_new(c[i]);
		ed_tok(a[i], argv[2 + i]);
		fp_set_dig(c[i]->x, 7); fp_set_dig(c[i]->y, 7); fp_set_dig(c[i]->z, 7); fp_set_dig(c[i]->t, 7); c[i]->coord = BASIC;
	}
	RLC_TRY { if (alias == 1) ed_norm_sim(a, (const ed_t *)a, n); else ed_norm_sim(c, (const ed_t *)a, n); } RLC_CATCH_ANY { caught = 1; }
	if (take_err() || caught) fprintf(OUT, "err");
	else for (int i = 0; i < n; i++) {
		ed_st *r = alias == 1 ? a[i] : c[i];
		if (i) fputc(';', OUT);
		fp_print_std(r->x); fputc(',', OUT); fp_print_std(r->y);
		if (fp_cmp_dig(r->z, 1) != RLC_EQ) fprintf(OUT, " Z!=1");
	}
	fputc('\n', OUT);
}

const op_t ops_ed[] = {
	{"ed_nsim", op_ed_nsim},
	{"ed_param", op_ed_param}, {"ed2", op_ed2}, {"ed1", op_ed1}, {"edm", op_edm}, {"edtab", op_edtab}, {"eds", op_eds}, {"edl", op_edl}, {"edla", op_edl},
	{"ed_write_bin", op_ed_write_bin}, {"ed_read_bin", op_ed_read_bin}, {"ed_pck", op_ed_pck}, {"ed_upk", op_ed_upk},
	{"ed_map", op_ed_map}, {"ed_map_dst", op_ed_map}, {"ed_gen", op_ed_gen},
	{NULL, NULL}
};
