/* number-theoretic bn functions and scalar recodings (property C09). */
#include "oracle.h"
#include "relic_rand.h"

static void tok_bn(bn_t x, const char *tok) { raw_t r; raw_parse(&r, tok); raw_to_bn(x, &r); }

#define NEW(x) bn_null(x); bn_new(x)
#define FIN1(c) do { if (take_err() || caught) fprintf(OUT, "err"); else bn_out(c); fputc('\n', OUT); } while (0)

/* nt_mod <variant> <a> <m> */
static void op_nt_mod(int argc, char **argv) {
	if (argc < 4) { fprintf(OUT, "bad-args\n"); return; }
	const char *v = argv[1];
	bn_t a, m, c, u; int caught = 0;
	NEW(a); NEW(m); NEW(c); NEW(u);
	tok_bn(a, argv[2]); tok_bn(m, argv[3]);
	RLC_TRY {
		if (!strcmp(v, "basic")) bn_mod_basic(c, a, m);
		else if (!strcmp(v, "mod")) bn_mod(c, a, m);
		else if (!strcmp(v, "barrt")) { bn_mod_pre_barrt(u, m); bn_mod_barrt(c, a, m, u); }
		else if (!strcmp(v, "monty")) { bn_mod_pre_monty(u, m); bn_mod_monty(c, a, m, u); }
		else if (!strcmp(v, "monty_basic")) { bn_mod_pre_monty(u, m); bn_mod_monty_basic(c, a, m, u); }
		else if (!strcmp(v, "monty_comba")) { bn_mod_pre_monty(u, m); bn_mod_monty_comba(c, a, m, u); }
		else if (!strcmp(v, "monty_conv")) bn_mod_monty_conv(c, a, m);
		else if (!strcmp(v, "monty_back")) bn_mod_monty_back(c, a, m);
		else if (!strcmp(v, "pmers")) { bn_mod_pre_pmers(u, m); bn_mod_pmers(c, a, m, u); }
		else if (!strcmp(v, "pre_monty")) { bn_mod_pre_monty(c, m); }
		else if (!strcmp(v, "pre_barrt")) { bn_mod_pre_barrt(c, m); }
		else { fprintf(OUT, "unknown-variant\n"); return; }
	} RLC_CATCH_ANY { caught = 1; }
	FIN1(c);
}

/* nt_mxp <variant> <a> <e> <m> */
static void op_nt_mxp(int argc, char **argv) {
	if (argc < 5) { fprintf(OUT, "bad-args\n"); return; }
	const char *v = argv[1];
	bn_t a, e, m, c; int caught = 0;
	NEW(a); NEW(e); NEW(m); NEW(c);
	tok_bn(a, argv[2]); tok_bn(e, argv[3]); tok_bn(m, argv[4]);
	RLC_TRY {
		if (!strcmp(v, "basic")) bn_mxp_basic(c, a, e, m);
		else if (!strcmp(v, "slide")) bn_mxp_slide(c, a, e, m);
		else if (!strcmp(v, "monty")) bn_mxp_monty(c, a, e, m);
		else if (!strcmp(v, "mxp")) bn_mxp(c, a, e, m);
		else if (!strcmp(v, "dig")) bn_mxp_dig(c, a, e->dp[0], m);
		else { fprintf(OUT, "unknown-variant\n"); return; }
	} RLC_CATCH_ANY { caught = 1; }
	FIN1(c);
}

/* nt_mxp_sim <a> <b> <d> <e> <m> : a^b * d^e mod m */
static void op_nt_mxp_sim(int argc, char **argv) {
	if (argc < 6) { fprintf(OUT, "bad-args\n"); return; }
	bn_t a, b, d, e, m, c; int caught = 0;
	NEW(a); NEW(b); NEW(d); NEW(e); NEW(m); NEW(c);
	tok_bn(a, argv[1]); tok_bn(b, argv[2]); tok_bn(d, argv[3]); tok_bn(e, argv[4]); tok_bn(m, argv[5]);
	RLC_TRY { bn_mxp_sim(c, a, b, d, e, m); } RLC_CATCH_ANY { caught = 1; }
	FIN1(c);
}

/* nt_inv <a> <m> */
static void op_nt_inv(int argc, char **argv) {
	if (argc < 3) { fprintf(OUT, "bad-args\n"); return; }
	bn_t a, m, c; int caught = 0;
	NEW(a); NEW(m); NEW(c);
	tok_bn(a, argv[1]); tok_bn(m, argv[2]);
	RLC_TRY { bn_mod_inv(c, a, m); } RLC_CATCH_ANY { caught = 1; }
	FIN1(c);
}

/* nt_inv_sim <m> <a0> <a1> ... : simultaneous inversion; every result array entry starts from junk */
static void op_nt_inv_sim(int argc, char **argv) {
	if (argc < 3) { fprintf(OUT, "bad-args\n"); return; }
	int n = argc - 2, caught = 0;
	bn_t m, a[16], c[16];
	if (n > 16) n = 16;
	NEW(m); tok_bn(m, argv[1]);
	for (int i = 0; i < n; i++) { NEW(a[i]); tok_bn(a[i], argv[2 + i]); NEW(c[i]); bn_set_dig(c[i], 0x55); }
	RLC_TRY { bn_mod_inv_sim(c, (const bn_t *)a, m, n); } RLC_CATCH_ANY { caught = 1; }
	if (take_err() || caught) fprintf(OUT, "err");
	else for (int i = 0; i < n; i++) { if (i) fputc(' ', OUT); bn_out(c[i]); }
	fputc('\n', OUT);
}

/* nt_gcd <variant> <a> <b> */
static void op_nt_gcd(int argc, char **argv) {
	if (argc < 4) { fprintf(OUT, "bad-args\n"); return; }
	const char *v = argv[1];
	bn_t a, b, c; int caught = 0;
	NEW(a); NEW(b); NEW(c);
	tok_bn(a, argv[2]); tok_bn(b, argv[3]);
	RLC_TRY {
		if (!strcmp(v, "basic")) bn_gcd_basic(c, a, b);
		else if (!strcmp(v, "binar")) bn_gcd_binar(c, a, b);
		else if (!strcmp(v, "lehme")) bn_gcd_lehme(c, a, b);
		else if (!strcmp(v, "gcd")) bn_gcd(c, a, b);
		else if (!strcmp(v, "dig")) bn_gcd_dig(c, a, b->dp[0]);
		else if (!strcmp(v, "lcm")) bn_lcm(c, a, b);
		else { fprintf(OUT, "unknown-variant\n"); return; }
	} RLC_CATCH_ANY { caught = 1; }
	FIN1(c);
}

/* nt_gcd_ext <variant> <a> <b> -> c d e  (c = d*a + e*b) */
static void op_nt_gcd_ext(int argc, char **argv) {
	if (argc < 4) { fprintf(OUT, "bad-args\n"); return; }
	const char *v = argv[1];
	bn_t a, b, c, d, e, f; int caught = 0, mid = 0;
	NEW(a); NEW(b); NEW(c); NEW(d); NEW(e); NEW(f);
	tok_bn(a, argv[2]); tok_bn(b, argv[3]);
	RLC_TRY {
		if (!strcmp(v, "basic")) bn_gcd_ext_basic(c, d, e, a, b);
		else if (!strcmp(v, "binar")) bn_gcd_ext_binar(c, d, e, a, b);
		else if (!strcmp(v, "lehme")) bn_gcd_ext_lehme(c, d, e, a, b);
		else if (!strcmp(v, "ext")) bn_gcd_ext(c, d, e, a, b);
		else if (!strcmp(v, "dig")) bn_gcd_ext_dig(c, d, e, a, b->dp[0]);
		else if (!strcmp(v, "mid")) { bn_gcd_ext_mid(c, d, e, f, a, b); mid = 1; }
		else { fprintf(OUT, "unknown-variant\n"); return; }
	} RLC_CATCH_ANY { caught = 1; }
	if (take_err() || caught) fprintf(OUT, "err");
	else { bn_out(c); fputc(' ', OUT); bn_out(d); fputc(' ', OUT); bn_out(e); if (mid) { fputc(' ', OUT); bn_out(f); } }
	fputc('\n', OUT);
}

/* nt_smb <leg|jac> <a> <b> */
static void op_nt_smb(int argc, char **argv) {
	if (argc < 4) { fprintf(OUT, "bad-args\n"); return; }
	bn_t a, b; int caught = 0, r = 0;
	NEW(a); NEW(b);
	tok_bn(a, argv[2]); tok_bn(b, argv[3]);
	RLC_TRY { r = !strcmp(argv[1], "leg") ? bn_smb_leg(a, b) : bn_smb_jac(a, b); } RLC_CATCH_ANY { caught = 1; }
	if (take_err() || caught) fprintf(OUT, "err\n"); else fprintf(OUT, "%d\n", r);
}

/* nt_srt <a> */
static void op_nt_srt(int argc, char **argv) {
	if (argc < 2) { fprintf(OUT, "bad-args\n"); return; }
	bn_t a, c; int caught = 0;
	NEW(a); NEW(c);
	tok_bn(a, argv[1]);
	RLC_TRY { bn_srt(c, a); } RLC_CATCH_ANY { caught = 1; }
	FIN1(c);
}

/* nt_prime <variant> <a> [truth...] : extra tokens are for the driver only */
static void op_nt_prime(int argc, char **argv) {
	if (argc < 3) { fprintf(OUT, "bad-args\n"); return; }
	const char *v = argv[1];
	bn_t a; int caught = 0, r = 0;
	uint8_t seed[8] = {1, 2, 3, 4, 5, 6, 7, 8};
	NEW(a); tok_bn(a, argv[2]);
	core_get()->seeded = 0; rand_seed(seed, 8);
	RLC_TRY {
		if (!strcmp(v, "basic")) r = bn_is_prime_basic(a);
		else if (!strcmp(v, "rabin")) r = bn_is_prime_rabin(a);
		else if (!strcmp(v, "solov")) r = bn_is_prime_solov(a);
		else if (!strcmp(v, "prime")) r = bn_is_prime(a);
		else { fprintf(OUT, "unknown-variant\n"); return; }
	} RLC_CATCH_ANY { caught = 1; }
	if (take_err() || caught) fprintf(OUT, "err\n"); else fprintf(OUT, "%d\n", r);
}

/* nt_gen_prime <variant> <seedhex> <bits> */
static void op_nt_gen_prime(int argc, char **argv) {
	if (argc < 4) { fprintf(OUT, "bad-args\n"); return; }
	const char *v = argv[1];
	uint8_t seed[64]; int n = bytes_parse(seed, 64, argv[2]);
	int bits = parse_int(argv[3]);
	bn_t a; int caught = 0;
	NEW(a);
	core_get()->seeded = 0; rand_seed(seed, n);
	RLC_TRY {
		if (!strcmp(v, "basic")) bn_gen_prime_basic(a, bits);
		else if (!strcmp(v, "safep")) bn_gen_prime_safep(a, bits);
		else if (!strcmp(v, "stron")) bn_gen_prime_stron(a, bits);
		else { fprintf(OUT, "unknown-variant\n"); return; }
	} RLC_CATCH_ANY { caught = 1; }
	FIN1(a);
}

/* nt_rec <kind> <w> <k> [<l>|<n>] : prints len and the digits (signed decimal, least significant first) */
static void op_nt_rec(int argc, char **argv) {
	if (argc < 4) { fprintf(OUT, "bad-args\n"); return; }
	const char *kind = argv[1];
	int w = parse_int(argv[2]);
	bn_t k, l; int caught = 0;
	static int8_t naf[4 * RLC_BN_SIZE * RLC_DIG + 64];
	size_t len = sizeof(naf) - 32, cap;
	int is_unsigned = 0, jsf_off = 0;
	NEW(k); NEW(l);
	tok_bn(k, argv[3]);
	if (argc > 4) tok_bn(l, argv[4]);
	if (argc > 5) { len = (size_t)parse_int(argv[5]); if (len > sizeof(naf) - 32) len = sizeof(naf) - 32; }
	cap = len;
	memset(naf, 0x55, sizeof(naf));
	RLC_TRY {
		if (!strcmp(kind, "win")) { bn_rec_win((uint8_t *)naf, &len, k, w); is_unsigned = 1; }
		else if (!strcmp(kind, "slw")) { bn_rec_slw((uint8_t *)naf, &len, k, w); is_unsigned = 1; }
		else if (!strcmp(kind, "naf")) bn_rec_naf(naf, &len, k, w);
		else if (!strcmp(kind, "reg")) {
			/* the bit length argument is a plain integer: take it from all digits (a digit is 8 bits wide in the w8 build) */
			size_t nb = 0;
#if RLC_DIG >= 64
			nb = (size_t)l->dp[0];
#else
			for (int i = l->used - 1; i >= 0; i--) nb = (nb << RLC_DIG) | l->dp[i];
#endif
			bn_rec_reg(naf, &len, k, nb, w);
		}
		else if (!strcmp(kind, "jsf")) {
			int i = bn_bits(k), j = bn_bits(l);
			jsf_off = (i > j ? i : j) + 1;
			bn_rec_jsf(naf, &len, k, l);
		}
		else { fprintf(OUT, "unknown-kind\n"); return; }
	} RLC_CATCH_ANY { caught = 1; }
	if (take_err() || caught) { fprintf(OUT, "err len=%d", (int)len); }
	else {
		fprintf(OUT, "len=%d", (int)len);
		for (size_t i = 0; i < len; i++) fprintf(OUT, " %d", is_unsigned ? (int)(uint8_t)naf[i] : (int)naf[i]);
		if (jsf_off) { fprintf(OUT, " |"); for (size_t i = 0; i < len; i++) fprintf(OUT, " %d", (int)naf[i + jsf_off]); }
	}
	for (size_t i = cap; i < cap + 32; i++) if ((uint8_t)naf[i] != 0x55) { fprintf(OUT, " WROTE-PAST-LEN"); break; }
	fputc('\n', OUT);
}

/* nt_evl <x> <b> <a0> <a1> ... ; nt_lag <b> <a0> <a1> ... */
static void op_nt_evl(int argc, char **argv) {
	if (argc < 3) { fprintf(OUT, "bad-args\n"); return; }
	int n = argc - 3, caught = 0;
	bn_t x, b, c, a[16];
	if (n > 16) n = 16;
	NEW(x); NEW(b); NEW(c);
	tok_bn(x, argv[1]); tok_bn(b, argv[2]);
	for (int i = 0; i < n; i++) { NEW(a[i]); tok_bn(a[i], argv[3 + i]); }
	RLC_TRY { bn_evl(c, (const bn_t *)a, x, b, n); } RLC_CATCH_ANY { caught = 1; }
	FIN1(c);
}
static void op_nt_lag(int argc, char **argv) {
	if (argc < 2) { fprintf(OUT, "bad-args\n"); return; }
	int n = argc - 2, caught = 0;
	bn_t b, a[16], c[17];
	if (n > 16) n = 16;
	NEW(b); tok_bn(b, argv[1]);
	for (int i = 0; i < n; i++) { NEW(a[i]); tok_bn(a[i], argv[2 + i]); }
	for (int i = 0; i <= n; i++) { NEW(c[i]); }
	RLC_TRY { bn_lag(c, (const bn_t *)a, b, n); } RLC_CATCH_ANY { caught = 1; }
	if (take_err() || caught) fprintf(OUT, "err");
	else for (int i = 0; i <= n; i++) { if (i) fputc(' ', OUT); bn_out(c[i]); }
	fputc('\n', OUT);
}

const op_t ops_nt[] = {
	{"nt_mod", op_nt_mod}, {"nt_mxp", op_nt_mxp}, {"nt_mxp_sim", op_nt_mxp_sim}, {"nt_inv", op_nt_inv}, {"nt_inv_sim", op_nt_inv_sim}, {"nt_gcd", op_nt_gcd},
	{"nt_gcd_ext", op_nt_gcd_ext}, {"nt_smb", op_nt_smb}, {"nt_srt", op_nt_srt}, {"nt_prime", op_nt_prime},
	{"nt_gen_prime", op_nt_gen_prime}, {"nt_rec", op_nt_rec}, {"nt_evl", op_nt_evl}, {"nt_lag", op_nt_lag},
	{NULL, NULL}
};
