/* Pairing-based protocols of property C06 (Boneh-Franklin IBE, BGN, SOK key agreement, pairing-based and size-hiding PSI,
 * delegated pairing, pairing/multiplication triples in G1/G2/GT).  No pairing specification exists on the Lean side: each
 * operation checks the protocol's own invariant on the implementation's outputs (round trip, key equality, reconstruction
 * equal to the library's direct computation, dishonest helper = one altered helper message) and prints the observations. */
#include "oracle.h"
#include "relic_cp.h"
#include "relic_mpc.h"
#include "relic_pc.h"
#include "relic_rand.h"
#include <unistd.h>

#if defined(WITH_PC) && defined(WITH_CP)

#define PCB 4096
#define PGUARD 64
static uint8_t PI1[PCB], PO1[PCB + 2 * PGUARD], PO2[PCB + 2 * PGUARD];

static void pseed(const char *hex) {
	uint8_t s[512];
	int n = bytes_parse(s, sizeof(s), hex);
	core_get()->seeded = 0;
	rand_seed(s, n);
}

static int pc_setup(void) {
	int ok = 0, caught = 0;
	RLC_TRY { ok = (pc_param_set_any() == RLC_OK); } RLC_CATCH_ANY { caught = 1; }
	if (take_err() || caught || !ok) { fprintf(OUT, "no-pairing-curve\n"); return 0; }
	return 1;
}

static void phex(const bn_t b) {
	if (b->used < 0 || b->used > RLC_BN_SIZE) { fprintf(OUT, "BAD-USED"); return; }
	int started = 0;
	if (b->sign == RLC_NEG && !bn_is_zero(b)) fputc('-', OUT);
	for (int i = b->used - 1; i >= 0; i--) {
		if (!started) { if (b->dp[i] == 0 && i > 0) continue; fprintf(OUT, "%llx", (unsigned long long)b->dp[i]); started = 1; }
		else fprintf(OUT, "%0*llx", RLC_DIG / 4, (unsigned long long)b->dp[i]);
	}
	if (!started) fputc('0', OUT);
}

static void ptokbn(bn_t b, const char *tok) { raw_t r; raw_parse(&r, tok); raw_to_bn(b, &r); }

static uint8_t *pobuf(uint8_t *O, size_t cap) { memset(O, 0xEE, cap + 2 * PGUARD); return O + PGUARD; }
static int pguard_bad(const uint8_t *O, size_t cap) {
	for (int i = 0; i < PGUARD; i++) if (O[i] != 0xEE || O[PGUARD + cap + i] != 0xEE) return 1;
	return 0;
}

/* identities are C strings: hex token decoded, NUL terminated (the generator avoids 00 octets) */
static void idtok(char *id, int max, const char *hex) {
	int n = bytes_parse((uint8_t *)id, max - 1, hex);
	id[n] = 0;
}

/* ibe <seed> <id> <cap> <dcap> <msg> [<pos> <xor> | t <len> | w <otherid>] */
static void op_ibe(int argc, char **argv) {
	if (argc < 6) { fprintf(OUT, "bad-args\n"); return; }
	if (!pc_setup()) return;
	char id[256], id2[256];
	bn_t master; g1_t pub; g2_t prv;
	size_t cap = (size_t)parse_int(argv[3]), dcap = (size_t)parse_int(argv[4]);
	int ml = bytes_parse(PI1, PCB, argv[5]), rc = RLC_ERR, caught = 0;
	if (cap > PCB || dcap > PCB) { fprintf(OUT, "bad-args\n"); return; }
	idtok(id, sizeof(id), argv[2]);
	strcpy(id2, id);
	if (argc >= 8 && argv[6][0] == 'w') idtok(id2, sizeof(id2), argv[7]);
	bn_null(master); bn_new(master); g1_null(pub); g1_new(pub); g2_null(prv); g2_new(prv);
	uint8_t *out = pobuf(PO1, cap);
	size_t ol = cap;
	pseed(argv[1]);
	RLC_TRY {
		rc = cp_ibe_gen(master, pub);
		if (rc == RLC_OK) rc = cp_ibe_gen_prv(prv, id2, master);
		if (rc == RLC_OK) rc = cp_ibe_enc(out, &ol, PI1, ml, id, pub);
	} RLC_CATCH_ANY { caught = 1; }
	if (take_err() || caught || rc != RLC_OK) {
		fprintf(OUT, "err");
		if (pguard_bad(PO1, cap)) fprintf(OUT, " WROTE-PAST-END");
		fputc('\n', OUT); return;
	}
	if (ol > cap) { fprintf(OUT, "LEN-BEYOND-CAP:%d\n", (int)ol); return; }
	if (argc >= 8) {
		if (argv[6][0] == 't') { size_t nl = (size_t)parse_int(argv[7]); if (nl < ol) ol = nl; }
		else if (argv[6][0] != 'w') {
			int pos = parse_int(argv[6]);
			if (pos >= 0 && (size_t)pos < ol) out[pos] ^= (uint8_t)strtol(argv[7], NULL, 16);
		}
	}
	fprintf(OUT, "c="); bytes_print(out, ol);
	if (pguard_bad(PO1, cap)) fprintf(OUT, " WROTE-PAST-END");
	uint8_t *dout = pobuf(PO2, dcap);
	size_t dl = dcap;
	rc = RLC_ERR; caught = 0;
	RLC_TRY { rc = cp_ibe_dec(dout, &dl, out, ol, prv); } RLC_CATCH_ANY { caught = 1; }
	fprintf(OUT, " m=");
	if (take_err() || caught || rc != RLC_OK) fprintf(OUT, "err");
	else if (dl > dcap) fprintf(OUT, "LEN-BEYOND-CAP:%d", (int)dl);
	else bytes_print(dout, dl);
	if (pguard_bad(PO2, dcap)) fprintf(OUT, " WROTE-PAST-END");
	fputc('\n', OUT);
}

/* bgn <seed> <m1> <m2> <m3> <m4> : dec1(enc1(m1)), dec2(enc2(m2)), dec(mul(enc1 m1, enc2 m2)), dec(add(mul(m1,m2), mul(m3,m4))) */
static void op_bgn(int argc, char **argv) {
	if (argc < 6) { fprintf(OUT, "bad-args\n"); return; }
	if (!pc_setup()) return;
	bgn_t pub, prv; g1_t c1[2], e1[2]; g2_t c2[2], e2[2]; gt_t a[4], b[4], s[4];
	dig_t m[4], d1 = 0, d2 = 0, dm = 0, da = 0; int caught = 0, r1 = RLC_ERR, r2 = RLC_ERR, r3 = RLC_ERR, r4 = RLC_ERR;
	for (int i = 0; i < 4; i++) { m[i] = (dig_t)parse_u64(argv[2 + i]); if (m[i] > 4096) { fprintf(OUT, "bad-args\n"); return; } }
	bgn_null(pub); bgn_null(prv); bgn_new(pub); bgn_new(prv);
	for (int i = 0; i < 2; i++) { g1_null(c1[i]); g1_new(c1[i]); g1_null(e1[i]); g1_new(e1[i]); g2_null(c2[i]); g2_new(c2[i]); g2_null(e2[i]); g2_new(e2[i]); }
	for (int i = 0; i < 4; i++) { gt_null(a[i]); gt_new(a[i]); gt_null(b[i]); gt_new(b[i]); gt_null(s[i]); gt_new(s[i]); }
	pseed(argv[1]);
	alarm(20);
	RLC_TRY {
		if (cp_bgn_gen(pub, prv) == RLC_OK) {
			if (cp_bgn_enc1(c1, m[0], pub) == RLC_OK) r1 = cp_bgn_dec1(&d1, (const g1_t *)c1, prv);
			if (cp_bgn_enc2(c2, m[1], pub) == RLC_OK) r2 = cp_bgn_dec2(&d2, (const g2_t *)c2, prv);
			if (cp_bgn_mul(a, (const g1_t *)c1, (const g2_t *)c2) == RLC_OK) r3 = cp_bgn_dec(&dm, (const gt_t *)a, prv);
			if (cp_bgn_enc1(e1, m[2], pub) == RLC_OK && cp_bgn_enc2(e2, m[3], pub) == RLC_OK &&
					cp_bgn_mul(b, (const g1_t *)e1, (const g2_t *)e2) == RLC_OK && cp_bgn_add(s, (const gt_t *)a, (const gt_t *)b) == RLC_OK)
				r4 = cp_bgn_dec(&da, (const gt_t *)s, prv);
		}
	} RLC_CATCH_ANY { caught = 1; }
	alarm(0);
	if (take_err() || caught) { fprintf(OUT, "err\n"); return; }
	fprintf(OUT, "d1="); if (r1 == RLC_OK) fprintf(OUT, "%llx", (unsigned long long)d1); else fprintf(OUT, "err");
	fprintf(OUT, " d2="); if (r2 == RLC_OK) fprintf(OUT, "%llx", (unsigned long long)d2); else fprintf(OUT, "err");
	fprintf(OUT, " mul="); if (r3 == RLC_OK) fprintf(OUT, "%llx", (unsigned long long)dm); else fprintf(OUT, "err");
	fprintf(OUT, " add="); if (r4 == RLC_OK) fprintf(OUT, "%llx", (unsigned long long)da); else fprintf(OUT, "err");
	fputc('\n', OUT);
}

/* sok <seed> <idA> <idB> <keylen> : both parties' keys */
static void op_sok(int argc, char **argv) {
	if (argc < 5) { fprintf(OUT, "bad-args\n"); return; }
	if (!pc_setup()) return;
	char ida[256], idb[256];
	bn_t master; sokaka_t ka, kb; int rc1 = RLC_ERR, rc2 = RLC_ERR, caught = 0;
	size_t kl = (size_t)parse_int(argv[4]);
	if (kl > 1024) { fprintf(OUT, "bad-args\n"); return; }
	idtok(ida, sizeof(ida), argv[2]); idtok(idb, sizeof(idb), argv[3]);
	bn_null(master); bn_new(master); sokaka_null(ka); sokaka_null(kb); sokaka_new(ka); sokaka_new(kb);
	uint8_t *k1 = pobuf(PO1, kl), *k2 = pobuf(PO2, kl);
	pseed(argv[1]);
	RLC_TRY {
		if (cp_sokaka_gen(master) == RLC_OK && cp_sokaka_gen_prv(ka, ida, master) == RLC_OK && cp_sokaka_gen_prv(kb, idb, master) == RLC_OK) {
			rc1 = cp_sokaka_key(k1, kl, ida, ka, idb);
		}
	} RLC_CATCH_ANY { caught = 1; }
	int e1 = take_err() || caught || rc1 != RLC_OK;
	caught = 0;
	RLC_TRY { rc2 = cp_sokaka_key(k2, kl, idb, kb, ida); } RLC_CATCH_ANY { caught = 1; }
	int e2 = take_err() || caught || rc2 != RLC_OK;
	fprintf(OUT, "k1="); if (e1) fprintf(OUT, "err"); else bytes_print(k1, kl);
	fprintf(OUT, " k2="); if (e2) fprintf(OUT, "err"); else bytes_print(k2, kl);
	if (pguard_bad(PO1, kl) || pguard_bad(PO2, kl)) fprintf(OUT, " WROTE-PAST-END");
	fputc('\n', OUT);
}

#define PPSI_MAX 8
static int plist(bn_t *v, int max, char *s) {
	int n = 0;
	if (s[0] == '-' && s[1] == 0) return 0;
	for (char *q = strtok(s, ","); q && n < max; q = strtok(NULL, ",")) { ptokbn(v[n], q); n++; }
	return n;
}

/* pbpsi <seed> <m> <x1,...> <l> <y1,...> */
static void op_pbpsi(int argc, char **argv) {
	if (argc < 6) { fprintf(OUT, "bad-args\n"); return; }
	if (!pc_setup()) return;
	static bn_t x[PPSI_MAX], y[PPSI_MAX], z[PPSI_MAX * PPSI_MAX];
	static g2_t d[PPSI_MAX + 1], s[PPSI_MAX + 1]; static g1_t u[PPSI_MAX]; static gt_t t[PPSI_MAX];
	bn_t sk, r; g1_t ss; int rc = RLC_OK, caught = 0; size_t len = 0;
	bn_null(sk); bn_new(sk); bn_null(r); bn_new(r); g1_null(ss); g1_new(ss);
	for (int i = 0; i < PPSI_MAX; i++) { bn_null(x[i]); bn_new(x[i]); bn_null(y[i]); bn_new(y[i]); g1_null(u[i]); g1_new(u[i]); gt_null(t[i]); gt_new(t[i]); }
	for (int i = 0; i <= PPSI_MAX; i++) { g2_null(d[i]); g2_new(d[i]); g2_null(s[i]); g2_new(s[i]); }
	for (int i = 0; i < PPSI_MAX * PPSI_MAX; i++) { bn_null(z[i]); bn_new(z[i]); }
	int m = plist(x, PPSI_MAX, argv[3]), l = plist(y, PPSI_MAX, argv[5]);
	if (m != parse_int(argv[2]) || l != parse_int(argv[4])) { fprintf(OUT, "bad-args\n"); return; }
	pseed(argv[1]);
	RLC_TRY {
		rc = cp_pbpsi_gen(sk, ss, s, m);
		if (rc == RLC_OK) rc = cp_pbpsi_ask(d, r, (const bn_t *)x, (const g2_t *)s, m);
		if (rc == RLC_OK) rc = cp_pbpsi_ans(t, u, ss, d[0], (const bn_t *)y, l);
		if (rc == RLC_OK) rc = cp_pbpsi_int(z, &len, (const g2_t *)d, (const bn_t *)x, m, (const gt_t *)t, (const g1_t *)u, l);
	} RLC_CATCH_ANY { caught = 1; }
	if (take_err() || caught || rc != RLC_OK) { fprintf(OUT, "err\n"); return; }
	fprintf(OUT, "len=%d z=", (int)len);
	if (len == 0) fputc('-', OUT);
	for (size_t i = 0; i < len && i < PPSI_MAX * PPSI_MAX; i++) { if (i) fputc(',', OUT); phex(z[i]); }
	fputc('\n', OUT);
}

/* shipsi <seed> <bits> <m> <x1,...> <l> <y1,...> (factoring based, size hiding) */
static void op_shipsi(int argc, char **argv) {
	if (argc < 7) { fprintf(OUT, "bad-args\n"); return; }
	static bn_t x[PPSI_MAX], y[PPSI_MAX], p[PPSI_MAX], t[PPSI_MAX], z[PPSI_MAX * PPSI_MAX];
	bn_t g, d, r, u; crt_t crt; int rc = RLC_OK, caught = 0, bits = parse_int(argv[2]); size_t len = 0;
	bn_null(g); bn_new(g); bn_null(d); bn_new(d); bn_null(r); bn_new(r); bn_null(u); bn_new(u); crt_null(crt); crt_new(crt);
	for (int i = 0; i < PPSI_MAX; i++) { bn_null(x[i]); bn_new(x[i]); bn_null(y[i]); bn_new(y[i]); bn_null(p[i]); bn_new(p[i]); bn_null(t[i]); bn_new(t[i]); }
	for (int i = 0; i < PPSI_MAX * PPSI_MAX; i++) { bn_null(z[i]); bn_new(z[i]); }
	int m = plist(x, PPSI_MAX, argv[4]), l = plist(y, PPSI_MAX, argv[6]);
	if (m != parse_int(argv[3]) || l != parse_int(argv[5]) || bits < 64 || bits > RLC_BN_BITS) { fprintf(OUT, "bad-args\n"); return; }
	pseed(argv[1]);
	RLC_TRY {
		rc = cp_shipsi_gen(g, crt, bits);
		if (rc == RLC_OK) rc = cp_shipsi_ask(d, r, p, g, crt->n, (const bn_t *)x, m);
		if (rc == RLC_OK) rc = cp_shipsi_ans(t, u, d, g, crt, (const bn_t *)y, l);
		if (rc == RLC_OK) rc = cp_shipsi_int(z, &len, r, (const bn_t *)p, crt->n, (const bn_t *)x, m, (const bn_t *)t, u, l);
	} RLC_CATCH_ANY { caught = 1; }
	if (take_err() || caught || rc != RLC_OK) { fprintf(OUT, "err\n"); return; }
	fprintf(OUT, "len=%d z=", (int)len);
	if (len == 0) fputc('-', OUT);
	for (size_t i = 0; i < len && i < PPSI_MAX * PPSI_MAX; i++) { if (i) fputc(',', OUT); phex(z[i]); }
	fputc('\n', OUT);
}

/* a helper message altered by a dishonest server: multiplied by another group element (stays in the group) */
static void tamper_gt(gt_t g, const gt_t by) {
	gt_t t; gt_null(t); gt_new(t);
	if (gt_is_unity(by)) { gt_get_gen(t); gt_mul(g, g, t); } else gt_mul(g, g, by);
}

/* pcdel <pdpub|pdprv|lvpub|lvprv> <seed> <tamper index | -1> : delegated pairing; output ver=<return value> eq=<result equals
 * the library's own pairing> unity=<result is 1> */
static void op_pcdel(int argc, char **argv) {
	if (argc < 4) { fprintf(OUT, "bad-args\n"); return; }
	if (!pc_setup()) return;
	const char *v = argv[1];
	int tam = parse_int(argv[3]), caught = 0, ver = -99, rc = RLC_OK;
	bn_t c, r1, r[3]; g1_t p, u1, v1, u1v[2], v1v[3]; g2_t q, u2, v2, w2, u2v[2], v2v[4], w2v[4]; gt_t e, ev[2], res, ref, g[4], rnd;
	bn_null(c); bn_new(c); bn_null(r1); bn_new(r1);
	for (int i = 0; i < 3; i++) { bn_null(r[i]); bn_new(r[i]); g1_null(v1v[i]); g1_new(v1v[i]); }
	for (int i = 0; i < 2; i++) { g1_null(u1v[i]); g1_new(u1v[i]); g2_null(u2v[i]); g2_new(u2v[i]); gt_null(ev[i]); gt_new(ev[i]); }
	for (int i = 0; i < 4; i++) { g2_null(v2v[i]); g2_new(v2v[i]); g2_null(w2v[i]); g2_new(w2v[i]); gt_null(g[i]); gt_new(g[i]); }
	g1_null(p); g1_new(p); g1_null(u1); g1_new(u1); g1_null(v1); g1_new(v1); g2_null(q); g2_new(q); g2_null(u2); g2_new(u2);
	g2_null(v2); g2_new(v2); g2_null(w2); g2_new(w2); gt_null(e); gt_new(e); gt_null(res); gt_new(res); gt_null(ref); gt_new(ref); gt_null(rnd); gt_new(rnd);
	int ng = 0;
	pseed(argv[2]);
	RLC_TRY {
		g1_rand(p); g2_rand(q); gt_rand(rnd);
		pc_map(ref, p, q);
		if (!strcmp(v, "pdpub")) {
			ng = 3;
			rc = cp_pdpub_gen(c, r1, u1, u2, v2, e);
			if (rc == RLC_OK) rc = cp_pdpub_ask(v1, w2, p, q, c, r1, u1, u2, v2);
			if (rc == RLC_OK) rc = cp_pdpub_ans(g, p, q, v1, v2, w2);
			if (rc == RLC_OK) { if (tam >= 0 && tam < ng) tamper_gt(g[tam], rnd); ver = cp_pdpub_ver(res, (const gt_t *)g, c, e); }
		} else if (!strcmp(v, "lvpub")) {
			ng = 2;
			rc = cp_lvpub_gen(r1, u1, u2, v2, e);
			if (rc == RLC_OK) rc = cp_lvpub_ask(c, v1, w2, p, q, r1, u1, u2, v2);
			if (rc == RLC_OK) rc = cp_lvpub_ans(g, p, q, v1, v2, w2);
			if (rc == RLC_OK) { if (tam >= 0 && tam < ng) tamper_gt(g[tam], rnd); ver = cp_lvpub_ver(res, (const gt_t *)g, c, e); }
		} else if (!strcmp(v, "pdprv")) {
			ng = 4;
			rc = cp_pdprv_gen(c, r, u1v, u2v, v2v, ev);
			if (rc == RLC_OK) rc = cp_pdprv_ask(v1v, w2v, p, q, c, (const bn_t *)r, (const g1_t *)u1v, (const g2_t *)u2v, (const g2_t *)v2v);
			if (rc == RLC_OK) rc = cp_pdprv_ans(g, (const g1_t *)v1v, (const g2_t *)w2v);
			if (rc == RLC_OK) { if (tam >= 0 && tam < ng) tamper_gt(g[tam], rnd); ver = cp_pdprv_ver(res, (const gt_t *)g, c, (const gt_t *)ev); }
		} else if (!strcmp(v, "lvprv")) {
			ng = 3;
			rc = cp_lvprv_gen(c, r, u1v, u2v, v2v, ev);
			if (rc == RLC_OK) rc = cp_lvprv_ask(v1v, w2v, p, q, c, (const bn_t *)r, (const g1_t *)u1v, (const g2_t *)u2v, (const g2_t *)v2v);
			if (rc == RLC_OK) rc = cp_lvprv_ans(g, (const g1_t *)v1v, (const g2_t *)w2v);
			if (rc == RLC_OK) { if (tam >= 0 && tam < ng) tamper_gt(g[tam], rnd); ver = cp_lvprv_ver(res, (const gt_t *)g, c, (const gt_t *)ev); }
		} else rc = RLC_ERR;
	} RLC_CATCH_ANY { caught = 1; }
	if (take_err() || caught || rc != RLC_OK) { fprintf(OUT, "err\n"); return; }
	fprintf(OUT, "ver=%d eq=%d unity=%d msgs=%d\n", ver, gt_cmp(res, ref) == RLC_EQ, gt_is_unity(res), ng);
}

/* mpcpc <g1|g2|gt|pc> <seed> <k0> <k1> : multiplication / pairing triples; the scalar k = k0 + k1 mod n is shared as given,
 * the group elements are drawn from the seeded generator and shared additively.  Output: pub=<broadcast values agree>
 * eq=<recombined result equals the direct computation> */
static void op_mpcpc(int argc, char **argv) {
	if (argc < 5) { fprintf(OUT, "bad-args\n"); return; }
	if (!pc_setup()) return;
	const char *v = argv[1];
	int caught = 0, pub = 0, eq = 0;
	g1_t b1[2], c1[2], d[2], p[2], _p; g2_t b2[2], c2[2], e[2], q[2], _q; gt_t bt[2], ct[2], f[2], r[2], _r;
	bn_t k[2], l[2], n, ks; mt_t tri[2]; pt_t t[2];
	bn_null(n); bn_new(n); bn_null(ks); bn_new(ks); g1_null(_p); g1_new(_p); g2_null(_q); g2_new(_q); gt_null(_r); gt_new(_r);
	for (int j = 0; j < 2; j++) {
		g1_null(b1[j]); g1_new(b1[j]); g1_null(c1[j]); g1_new(c1[j]); g1_null(d[j]); g1_new(d[j]); g1_null(p[j]); g1_new(p[j]);
		g2_null(b2[j]); g2_new(b2[j]); g2_null(c2[j]); g2_new(c2[j]); g2_null(e[j]); g2_new(e[j]); g2_null(q[j]); g2_new(q[j]);
		gt_null(bt[j]); gt_new(bt[j]); gt_null(ct[j]); gt_new(ct[j]); gt_null(f[j]); gt_new(f[j]); gt_null(r[j]); gt_new(r[j]);
		bn_null(k[j]); bn_new(k[j]); bn_null(l[j]); bn_new(l[j]); mt_null(tri[j]); mt_new(tri[j]); pt_null(t[j]); pt_new(t[j]);
	}
	ptokbn(k[0], argv[3]); ptokbn(k[1], argv[4]);
	pseed(argv[2]);
	RLC_TRY {
		g1_get_ord(n);
		bn_add(ks, k[0], k[1]); bn_mod(ks, ks, n);
		mpc_mt_gen(tri, n);
		if (!strcmp(v, "g1")) {
			g1_rand(p[0]); g1_rand(p[1]);
			g1_add(_p, p[0], p[1]); g1_mul(_p, _p, ks); g1_norm(_p, _p);
			g1_mul_gen(b1[0], tri[0]->b); g1_mul_gen(b1[1], tri[1]->b); g1_mul_gen(c1[0], tri[0]->c); g1_mul_gen(c1[1], tri[1]->c);
			tri[0]->b1 = &b1[0]; tri[1]->b1 = &b1[1]; tri[0]->c1 = &c1[0]; tri[1]->c1 = &c1[1];
			g1_mul_lcl(l[0], d[0], k[0], p[0], tri[0]); g1_mul_lcl(l[1], d[1], k[1], p[1], tri[1]);
			g1_mul_bct(l, d);
			pub = bn_cmp(l[0], l[1]) == RLC_EQ && g1_cmp(d[0], d[1]) == RLC_EQ;
			g1_mul_mpc(d[0], l[0], d[0], tri[0], 0); g1_mul_mpc(d[1], l[1], d[1], tri[1], 1);
			g1_add(d[0], d[0], d[1]); g1_norm(d[0], d[0]);
			eq = g1_cmp(_p, d[0]) == RLC_EQ;
		} else if (!strcmp(v, "g2")) {
			g2_rand(q[0]); g2_rand(q[1]);
			g2_add(_q, q[0], q[1]); g2_mul(_q, _q, ks); g2_norm(_q, _q);
			g2_mul_gen(b2[0], tri[0]->b); g2_mul_gen(b2[1], tri[1]->b); g2_mul_gen(c2[0], tri[0]->c); g2_mul_gen(c2[1], tri[1]->c);
			tri[0]->b2 = &b2[0]; tri[1]->b2 = &b2[1]; tri[0]->c2 = &c2[0]; tri[1]->c2 = &c2[1];
			g2_mul_lcl(l[0], e[0], k[0], q[0], tri[0]); g2_mul_lcl(l[1], e[1], k[1], q[1], tri[1]);
			g2_mul_bct(l, e);
			pub = bn_cmp(l[0], l[1]) == RLC_EQ && g2_cmp(e[0], e[1]) == RLC_EQ;
			g2_mul_mpc(e[0], l[0], e[0], tri[0], 0); g2_mul_mpc(e[1], l[1], e[1], tri[1], 1);
			g2_add(e[0], e[0], e[1]); g2_norm(e[0], e[0]);
			eq = g2_cmp(_q, e[0]) == RLC_EQ;
		} else if (!strcmp(v, "gt")) {
			gt_rand(r[0]); gt_rand(r[1]);
			gt_mul(_r, r[0], r[1]); gt_exp(_r, _r, ks);
			gt_exp_gen(bt[0], tri[0]->b); gt_exp_gen(bt[1], tri[1]->b); gt_exp_gen(ct[0], tri[0]->c); gt_exp_gen(ct[1], tri[1]->c);
			tri[0]->bt = &bt[0]; tri[1]->bt = &bt[1]; tri[0]->ct = &ct[0]; tri[1]->ct = &ct[1];
			gt_exp_lcl(l[0], f[0], k[0], r[0], tri[0]); gt_exp_lcl(l[1], f[1], k[1], r[1], tri[1]);
			gt_exp_bct(l, f);
			pub = bn_cmp(l[0], l[1]) == RLC_EQ && gt_cmp(f[0], f[1]) == RLC_EQ;
			gt_exp_mpc(f[0], l[0], f[0], tri[0], 0); gt_exp_mpc(f[1], l[1], f[1], tri[1], 1);
			gt_mul(f[0], f[0], f[1]);
			eq = gt_cmp(_r, f[0]) == RLC_EQ;
		} else {
			pc_map_tri(t);
			/* the triple itself: e(a0 + a1, b0 + b1) = c0 * c1 */
			g1_add(_p, t[0]->a, t[1]->a); g2_add(_q, t[0]->b, t[1]->b); pc_map(_r, _p, _q);
			gt_mul(f[0], t[0]->c, t[1]->c);
			int tri_ok = gt_cmp(_r, f[0]) == RLC_EQ;
			g1_rand(p[0]); g1_rand(p[1]); g2_rand(q[0]); g2_rand(q[1]);
			g1_add(_p, p[0], p[1]); g2_add(_q, q[0], q[1]); pc_map(_r, _p, _q);
			pc_map_lcl(d[0], e[0], p[0], q[0], t[0]); pc_map_lcl(d[1], e[1], p[1], q[1], t[1]);
			pc_map_bct(d, e);
			pub = tri_ok && g1_cmp(d[0], d[1]) == RLC_EQ && g2_cmp(e[0], e[1]) == RLC_EQ;
			pc_map_mpc(r[0], d[0], e[0], t[0], 0); pc_map_mpc(r[1], d[1], e[1], t[1], 1);
			gt_mul(f[1], r[0], r[1]);
			eq = gt_cmp(_r, f[1]) == RLC_EQ;
		}
	} RLC_CATCH_ANY { caught = 1; }
	if (take_err() || caught) { fprintf(OUT, "err\n"); return; }
	fprintf(OUT, "pub=%d eq=%d\n", pub, eq);
}

const op_t ops_cp_pc[] = {
	{"ibe", op_ibe}, {"bgn", op_bgn}, {"sok", op_sok}, {"pbpsi", op_pbpsi}, {"shipsi", op_shipsi}, {"pcdel", op_pcdel}, {"mpcpc", op_mpcpc},
	{NULL, NULL}
};
#else
const op_t ops_cp_pc[] = { {NULL, NULL} };
#endif
