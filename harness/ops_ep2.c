/* Curves over the quadratic extension (second pairing group) of the line protocol (properties C11, C12, C04).
 * Field element token: "<c0>,<c1>" (standard representation, hex).  Point tokens: "inf" | "<x0>,<x1>,<y0>,<y1>" (affine) |
 * "<x0>,<x1>,<y0>,<y1>,<z0>,<z1>,P|J": the affine point presented in homogeneous projective / Jacobian coordinates with that z. */
#include "oracle.h"
#include "relic_ep.h"
#include "relic_epx.h"
#include "relic_fpx.h"

static void fp_tokx(fp_t a, const char *tok) {
	raw_t r; bn_t t;
	raw_parse(&r, tok);
	bn_null(t); bn_new(t); raw_to_bn(t, &r);
	if (bn_is_zero(t)) fp_zero(a); else fp_prime_conv(a, t);
}

static void fp_printx(const fp_t a) {
	bn_t t; bn_null(t); bn_new(t);
	fp_prime_back(t, a);
	char buf[RLC_FP_DIGS * (RLC_DIG / 4) + 2]; int p = 0;
	for (int i = t->used - 1; i >= 0; i--) p += sprintf(buf + p, "%0*llx", RLC_DIG / 4, (unsigned long long)t->dp[i]);
	buf[p] = 0;
	char *s = buf; while (*s == '0' && s[1]) s++;
	fprintf(OUT, "%s", s);
}

void fp2_printx(const fp2_t a) { fp_printx(a[0]); fputc(',', OUT); fp_printx(a[1]); }

void ep2_tok(ep2_t p, const char *tok) {
	char buf[2048];
	strncpy(buf, tok, sizeof(buf) - 1); buf[sizeof(buf) - 1] = 0;
	if (!strcmp(buf, "inf")) { ep2_set_infty(p); return; }
	char *f[7]; int n = 0;
	for (char *q = strtok(buf, ","); q && n < 7; q = strtok(NULL, ",")) f[n++] = q;
	if (n < 4) { ep2_set_infty(p); return; }
	fp_tokx(p->x[0], f[0]); fp_tokx(p->x[1], f[1]); fp_tokx(p->y[0], f[2]); fp_tokx(p->y[1], f[3]);
	fp2_set_dig(p->z, 1);
	p->coord = BASIC;
	if (n == 7) {
		fp2_t z, t; fp2_null(z); fp2_null(t); fp2_new(z); fp2_new(t);
		fp_tokx(z[0], f[4]); fp_tokx(z[1], f[5]);
		if (f[6][0] == 'P') {
			fp2_mul(p->x, p->x, z); fp2_mul(p->y, p->y, z); fp2_copy(p->z, z); p->coord = PROJC;
		} else {
			fp2_sqr(t, z); fp2_mul(p->x, p->x, t); fp2_mul(t, t, z); fp2_mul(p->y, p->y, t); fp2_copy(p->z, z); p->coord = JACOB;
		}
	}
}

void ep2_out(const ep2_t p) {
	ep2_t t; ep2_null(t); ep2_new(t);
	if (ep2_is_infty(p)) { fprintf(OUT, "inf"); return; }
	ep2_norm(t, p);
	fp2_printx(t->x); fputc(',', OUT); fp2_printx(t->y);
	if (p->coord == BASIC && (fp_cmp_dig(p->z[0], 1) != RLC_EQ || !fp_is_zero(p->z[1]))) fprintf(OUT, " BASIC-WITH-Z!=1");
}

/* ep2_param <id> : selects the prime curve <id> and installs its twist (as the pairing setup does) */
static void op_ep2_param(int argc, char **argv) {
	if (argc < 2) { fprintf(OUT, "bad-args\n"); return; }
	int id = parse_int(argv[1]), caught = 0;
	ep2_t g; bn_t n, h; ep2_null(g); ep2_new(g); bn_null(n); bn_new(n); bn_null(h); bn_new(h);
	RLC_TRY {
		ep_param_set(id);
		if (!ep_curve_is_pairf()) { fprintf(OUT, "err\n"); take_err(); return; }
		/* the library exposes no function that knows the twist type of every curve (ep_param_set_any_pairf hard-codes it for the
		 * curve it picks): take the type under which the twisted Frobenius acts on the generator as multiplication by p */
		int types[2] = { RLC_EP_DTYPE, RLC_EP_MTYPE };
		for (int t = 0; t < 2; t++) {
			ep2_t a, b; bn_t pp; ep2_null(a); ep2_null(b); ep2_new(a); ep2_new(b); bn_null(pp); bn_new(pp);
			ep2_curve_set_twist(types[t]);
			ep2_curve_get_gen(g);
			if (!ep2_on_curve(g)) continue;
			pp->used = RLC_FP_DIGS; pp->sign = RLC_POS; dv_copy(pp->dp, fp_prime_get(), RLC_FP_DIGS); bn_trim(pp);
			ep2_curve_get_ord(n); bn_mod(pp, pp, n);
			ep2_frb(a, g, 1); ep2_mul_basic(b, g, pp);
			if (ep2_cmp(a, b) == RLC_EQ) break;
		}
	} RLC_CATCH_ANY { caught = 1; }
	if (take_err() || caught || !ep2_curve_is_twist()) { fprintf(OUT, "err\n"); return; }
	ep2_curve_get_ord(n); ep2_curve_get_cof(h);
	bn_t pn; bn_null(pn); bn_new(pn); ep_curve_get_ord(pn);
	fprintf(OUT, "ep2_param id=%d p=", id);
	raw_print(fp_prime_get(), RLC_FP_DIGS, 0);
	fprintf(OUT, " qnr=%d twist=%d a=", fp_prime_get_qnr(), ep2_curve_is_twist());
	fp2_printx(ep2_curve_get_a());
	fprintf(OUT, " b="); fp2_printx(ep2_curve_get_b());
	fprintf(OUT, " g="); fp2_printx(g->x); fputc(',', OUT); fp2_printx(g->y);
	fprintf(OUT, " n="); raw_print(n->dp, n->used, 0);
	fprintf(OUT, " h="); raw_print(h->dp, h->used, 0);
	fprintf(OUT, " n1="); raw_print(pn->dp, pn->used, 0);
	fprintf(OUT, " opta=%d optb=%d ctmap=%d", ep2_curve_opt_a(), ep2_curve_opt_b(), ep2_curve_is_ctmap());
	/* window width of the variable-base routines, comb depth of the fixed-base routines, field size (recoding capacities), GLS dispatch */
	fprintf(OUT, " width=%d depth=%d fpbits=%d endom=%d", RLC_WIDTH, RLC_DEPTH, RLC_FP_BITS, ep_curve_is_endom() ? 1 : 0);
	/* data of the Frobenius recodings: the constants of ep2_frb (x -> conj(x)*frb0, y -> conj(y)*frb1), the family parameter and
	 * whether bn_rec_frb takes its BN branch */
	{
		bn_t u; bn_null(u); bn_new(u); fp_prime_get_par(u);
		fprintf(OUT, " frb0="); fp2_printx(core_get()->ep2_frb[0]);
		fprintf(OUT, " frb1="); fp2_printx(core_get()->ep2_frb[1]);
		fprintf(OUT, " u="); raw_print(u->dp, u->used, bn_sign(u) == RLC_NEG);
		fprintf(OUT, " bnfam=%d\n", ep_curve_is_pairf() == EP_BN ? 1 : 0);
	}
}

/* e2b <op> <alias> <P> <Q> */
static void op_e2b(int argc, char **argv) {
	if (argc < 5) { fprintf(OUT, "bad-args\n"); return; }
	const char *op = argv[1];
	int alias = parse_int(argv[2]), caught = 0, r = -99;
	ep2_t p, q, c; ep2_st *pp, *pq, *pc;
	ep2_null(p); ep2_null(q); ep2_null(c); ep2_new(p); ep2_new(q); ep2_new(c);
	pp = p; pq = q; pc = c;
	ep2_tok(p, argv[3]); ep2_tok(q, argv[4]);
	if (alias == 3 || alias == 4) pq = pp;
	if (alias == 1 || alias == 4) pc = pp;
	if (alias == 2) pc = pq;
	RLC_TRY {
		if (!strcmp(op, "add")) ep2_add(pc, pp, pq);
		else if (!strcmp(op, "add_basic")) ep2_add_basic(pc, pp, pq);
		else if (!strcmp(op, "add_projc")) ep2_add_projc(pc, pp, pq);
		else if (!strcmp(op, "add_jacob")) ep2_add_jacob(pc, pp, pq);
		else if (!strcmp(op, "sub")) ep2_sub(pc, pp, pq);
		else if (!strcmp(op, "cmp")) { r = ep2_cmp(pp, pq); }
		else { fprintf(OUT, "unknown-e2b %s\n", op); return; }
	} RLC_CATCH_ANY { caught = 1; }
	if (take_err() || caught) fprintf(OUT, "err"); else if (r != -99) fprintf(OUT, "r=%d", r); else ep2_out(pc);
	fputc('\n', OUT);
}

/* e2u <op> <alias> <P> [<i>] */
static void op_e2u(int argc, char **argv) {
	if (argc < 4) { fprintf(OUT, "bad-args\n"); return; }
	const char *op = argv[1];
	int alias = parse_int(argv[2]), caught = 0, r = -99;
	ep2_t p, c; ep2_st *pp, *pc;
	ep2_null(p); ep2_null(c); ep2_new(p); ep2_new(c);
	pp = p; pc = c;
	ep2_tok(p, argv[3]);
	if (alias == 1) pc = pp;
	RLC_TRY {
		if (!strcmp(op, "dbl")) ep2_dbl(pc, pp);
		else if (!strcmp(op, "dbl_basic")) ep2_dbl_basic(pc, pp);
		else if (!strcmp(op, "dbl_projc")) ep2_dbl_projc(pc, pp);
		else if (!strcmp(op, "dbl_jacob")) ep2_dbl_jacob(pc, pp);
		else if (!strcmp(op, "neg")) ep2_neg(pc, pp);
		else if (!strcmp(op, "norm")) ep2_norm(pc, pp);
		else if (!strcmp(op, "blind")) ep2_blind(pc, pp);
		else if (!strcmp(op, "frb")) ep2_frb(pc, pp, argc > 4 ? parse_int(argv[4]) : 1);
		else if (!strcmp(op, "mul_cof")) ep2_mul_cof(pc, pp);
		else if (!strcmp(op, "on_curve")) r = ep2_on_curve(pp);
		else { fprintf(OUT, "unknown-e2u %s\n", op); return; }
	} RLC_CATCH_ANY { caught = 1; }
	if (take_err() || caught) fprintf(OUT, "err"); else if (r != -99) fprintf(OUT, "r=%d", r); else ep2_out(pc);
	fputc('\n', OUT);
}

/* e2m <variant> <alias> <P> <k> */
static void op_e2m(int argc, char **argv) {
	if (argc < 5) { fprintf(OUT, "bad-args\n"); return; }
	const char *v = argv[1];
	int alias = parse_int(argv[2]), caught = 0;
	ep2_t p, c; ep2_st *pp, *pc; bn_t k; raw_t rk;
	static ep2_t tab[RLC_EP_TABLE_MAX];
	ep2_null(p); ep2_null(c); ep2_new(p); ep2_new(c); bn_null(k); bn_new(k);
	pp = p; pc = c;
	ep2_tok(p, argv[3]);
	raw_parse(&rk, argv[4]); raw_to_bn(k, &rk);
	if (alias == 1) pc = pp;
	RLC_TRY {
		if (!strcmp(v, "mul")) ep2_mul(pc, pp, k);
		else if (!strcmp(v, "basic")) ep2_mul_basic(pc, pp, k);
		else if (!strcmp(v, "slide")) ep2_mul_slide(pc, pp, k);
		else if (!strcmp(v, "monty")) ep2_mul_monty(pc, pp, k);
		else if (!strcmp(v, "lwnaf")) ep2_mul_lwnaf(pc, pp, k);
		else if (!strcmp(v, "lwreg")) ep2_mul_lwreg(pc, pp, k);
		else if (!strcmp(v, "big")) ep2_mul_big(pc, pp, k);
		else if (!strcmp(v, "gen")) ep2_mul_gen(pc, k);
		else if (!strcmp(v, "dig")) ep2_mul_dig(pc, pp, k->dp[0]);
		else if (!strncmp(v, "fix_", 4)) {
			for (int i = 0; i < RLC_EP_TABLE_MAX; i++) { ep2_null(tab[i]); ep2_new(tab[i]); }
			if (!strcmp(v, "fix_basic")) { ep2_mul_pre_basic(tab, pp); ep2_mul_fix_basic(pc, (const ep2_t *)tab, k); }
			else if (!strcmp(v, "fix_combs")) { ep2_mul_pre_combs(tab, pp); ep2_mul_fix_combs(pc, (const ep2_t *)tab, k); }
			else if (!strcmp(v, "fix_combd")) { ep2_mul_pre_combd(tab, pp); ep2_mul_fix_combd(pc, (const ep2_t *)tab, k); }
			else if (!strcmp(v, "fix_lwnaf")) { ep2_mul_pre_lwnaf(tab, pp); ep2_mul_fix_lwnaf(pc, (const ep2_t *)tab, k); }
			else if (!strcmp(v, "fix_")) { ep2_mul_pre(tab, pp); ep2_mul_fix(pc, (const ep2_t *)tab, k); }
			else { fprintf(OUT, "unknown-e2m %s\n", v); return; }
		}
		else { fprintf(OUT, "unknown-e2m %s\n", v); return; }
	} RLC_CATCH_ANY { caught = 1; }
	if (take_err() || caught) fprintf(OUT, "err"); else ep2_out(pc);
	fputc('\n', OUT);
}

/* e2s <variant> <P> <k> <Q> <m> */
static void op_e2s(int argc, char **argv) {
	if (argc < 6) { fprintf(OUT, "bad-args\n"); return; }
	/* suffix .p / .q of the variant: the result object is the first / second point operand */
	char v[32]; int al = 0;
	snprintf(v, sizeof(v), "%s", argv[1]);
	{ char *dot = strchr(v, '.'); if (dot) { al = dot[1] == 'p' ? 1 : (dot[1] == 'q' ? 2 : 0); *dot = 0; } }
	int caught = 0;
	ep2_t p, q, c; bn_t k, m; raw_t r;
	ep2_null(p); ep2_null(q); ep2_null(c); ep2_new(p); ep2_new(q); ep2_new(c); bn_null(k); bn_new(k); bn_null(m); bn_new(m);
	ep2_tok(p, argv[2]); raw_parse(&r, argv[3]); raw_to_bn(k, &r);
	ep2_tok(q, argv[4]); raw_parse(&r, argv[5]); raw_to_bn(m, &r);
	ep2_st *cc = al == 1 ? p : (al == 2 ? q : c);
	RLC_TRY {
		if (!strcmp(v, "sim")) ep2_mul_sim(cc, p, k, q, m);
		else if (!strcmp(v, "basic")) ep2_mul_sim_basic(cc, p, k, q, m);
		else if (!strcmp(v, "trick")) ep2_mul_sim_trick(cc, p, k, q, m);
		else if (!strcmp(v, "inter")) ep2_mul_sim_inter(cc, p, k, q, m);
		else if (!strcmp(v, "joint")) ep2_mul_sim_joint(cc, p, k, q, m);
		else if (!strcmp(v, "gen")) ep2_mul_sim_gen(cc, k, q, m);
		else { fprintf(OUT, "unknown-e2s %s\n", v); return; }
	} RLC_CATCH_ANY { caught = 1; }
	if (take_err() || caught) fprintf(OUT, "err"); else ep2_out(cc);
	fputc('\n', OUT);
}

/* e2l[a] [<j>] <n> <P1> <k1> ... : ep2_mul_sim_lot ; e2d[a] : ep2_mul_sim_dig (a = result over input j) */
static void op_e2l(int argc, char **argv) {
	int alias = -1;
	if (argc >= 3 && argv[0][3] == 'a') { alias = parse_int(argv[1]); argv++; argc--; }
	if (argc < 2) { fprintf(OUT, "bad-args\n"); return; }
	int n = parse_int(argv[1]), caught = 0, lot = argv[-(alias >= 0)][2] == 'l';
	if (n < 0 || n > 20 || argc < 2 + 2 * n || alias >= n) { fprintf(OUT, "bad-args\n"); return; }
	static ep2_t ps[20]; static bn_t ks[20]; dig_t ds[20]; ep2_t c0; raw_t r;
	ep2_null(c0); ep2_new(c0);
	for (int i = 0; i < n; i++) {
		ep2_null(ps[i]); ep2_new(ps[i]); bn_null(ks[i]); bn_new(ks[i]);
		ep2_tok(ps[i], argv[2 + 2 * i]); raw_parse(&r, argv[3 + 2 * i]); raw_to_bn(ks[i], &r);
		ds[i] = ks[i]->dp[0];
	}
	ep2_t *cp = alias >= 0 ? &ps[alias] : &c0;
	RLC_TRY {
		if (lot) ep2_mul_sim_lot(*cp, ps, (const bn_t *)ks, n);
		else ep2_mul_sim_dig(*cp, (const ep2_t *)ps, ds, n);
	} RLC_CATCH_ANY { caught = 1; }
	if (take_err() || caught) fprintf(OUT, "err"); else ep2_out(*cp);
	fputc('\n', OUT);
}

/* e2pt <x0> <x1> : a point of the twist with this x if one exists (y by the library's square root; the driver checks the
 * curve equation itself), else "none" — source of points outside the order-r subgroup */
static void op_e2pt(int argc, char **argv) {
	if (argc < 3) { fprintf(OUT, "bad-args\n"); return; }
	ep2_t p; ep2_null(p); ep2_new(p);
	int caught = 0, ok = 0;
	RLC_TRY {
		fp_tokx(p->x[0], argv[1]); fp_tokx(p->x[1], argv[2]);
		ep2_rhs(p->y, p->x);
		ok = fp2_srt(p->y, p->y);
		fp2_set_dig(p->z, 1); p->coord = BASIC;
	} RLC_CATCH_ANY { caught = 1; }
	if (take_err() || caught) { fprintf(OUT, "err\n"); return; }
	if (!ok) { fprintf(OUT, "none\n"); return; }
	ep2_out(p); fputc('\n', OUT);
}


/* e2wb <len> <pack> <Q> : ep2_write_bin into a guarded buffer ;  e2rb <hex> : ep2_read_bin (C07) */
static void op_e2wb(int argc, char **argv) {
	if (argc < 4) { fprintf(OUT, "bad-args\n"); return; }
	int len = parse_int(argv[1]), pack = parse_int(argv[2]), caught = 0;
	static uint8_t buf[8 * RLC_FP_BYTES + 80];
	ep2_t p; ep2_null(p); ep2_new(p);
	if (len < 0 || len > 8 * RLC_FP_BYTES) { fprintf(OUT, "bad-args\n"); return; }
	ep2_tok(p, argv[3]);
	memset(buf, 0xEE, sizeof(buf));
	RLC_TRY { ep2_write_bin(buf + 32, len, p, pack); } RLC_CATCH_ANY { caught = 1; }
	if (take_err() || caught) fprintf(OUT, "err"); else bytes_print(buf + 32, len);
	for (int i = 0; i < 32; i++) if (buf[i] != 0xEE || buf[32 + len + i] != 0xEE) { fprintf(OUT, " WROTE-OUTSIDE"); break; }
	fprintf(OUT, " size=%d\n", (int)ep2_size_bin(p, pack));
}
static void op_e2rb(int argc, char **argv) {
	if (argc < 2) { fprintf(OUT, "bad-args\n"); return; }
	static uint8_t buf[8 * RLC_FP_BYTES + 16], re[8 * RLC_FP_BYTES + 16];
	int n = bytes_parse(buf, sizeof(buf), argv[1]), caught = 0;
	ep2_t p; ep2_null(p); ep2_new(p);
	/* the result must not depend on what the destination held before: decode into the identity, the generator and junk */
	char *res[3] = { NULL, NULL, NULL }; size_t rl[3];
	FILE *save = OUT;
	for (int v = 0; v < 3; v++) {
		if (v == 0) ep2_set_infty(p); else if (v == 1) ep2_curve_get_gen(p); else { memset(p, 0xA5, sizeof(ep2_st)); p->coord = BASIC; }
		caught = 0;
		RLC_TRY { ep2_read_bin(p, buf, n); } RLC_CATCH_ANY { caught = 1; }
		int e = take_err() || caught;
		OUT = open_memstream(&res[v], &rl[v]);
		if (e) fprintf(OUT, "err");
		else {
			ep2_out(p); fprintf(OUT, " on=%d re=", ep2_on_curve(p));
			caught = 0;
			RLC_TRY { ep2_write_bin(re, n, p, n == 2 * RLC_FP_BYTES + 1); } RLC_CATCH_ANY { caught = 1; }
			if (take_err() || caught) fprintf(OUT, "err"); else bytes_print(re, n);
		}
		fclose(OUT); OUT = save;
	}
	fprintf(OUT, "%s", res[0]);
	if (strcmp(res[0], res[1]) != 0 || strcmp(res[0], res[2]) != 0) fprintf(OUT, " DEST-DEPENDENT[%s|%s]", res[1], res[2]);
	for (int v = 0; v < 3; v++) free(res[v]);
	fputc('\n', OUT);
}

/* f2rt <a0> <a1> <cyc> : fp2_write_bin / fp2_read_bin round trip of an element (made unitary with fp2_conv_cyc when cyc = 1), in the
 * packed and in the plain format ;  f2rb <hex> : fp2_read_bin of an arbitrary string and the library's own re-encoding (C07) */
static void op_f2rt(int argc, char **argv) {
	if (argc < 4) { fprintf(OUT, "bad-args\n"); return; }
	fp2_t a, b; fp2_null(a); fp2_null(b); fp2_new(a); fp2_new(b);
	uint8_t bin[2 * RLC_FP_BYTES + 8];
	int caught = 0;
	fp_tokx(a[0], argv[1]); fp_tokx(a[1], argv[2]);
	RLC_TRY { if (parse_int(argv[3])) fp2_conv_cyc(a, a); } RLC_CATCH_ANY { caught = 1; }
	if (take_err() || caught) { fprintf(OUT, "err\n"); return; }
	fprintf(OUT, "x="); fp2_printx(a);
	fprintf(OUT, " cyc=%d", fp2_test_cyc(a));
	for (int pack = 1; pack >= 0; pack--) {
		int size = fp2_size_bin(a, pack);
		fprintf(OUT, " size%d=%d enc%d=", pack, size, pack);
		memset(bin, 0xEE, sizeof(bin)); caught = 0;
		RLC_TRY { fp2_write_bin(bin, size, a, pack); } RLC_CATCH_ANY { caught = 1; }
		if (take_err() || caught || size < 0 || size > 2 * RLC_FP_BYTES) { fprintf(OUT, "err dec%d=err", pack); continue; }
		bytes_print(bin, size);
		if (bin[size] != 0xEE) fprintf(OUT, "!WROTE-OUTSIDE");
		fprintf(OUT, " dec%d=", pack);
		memset(b, 0xA5, sizeof(fp2_t)); caught = 0;
		RLC_TRY { fp2_read_bin(b, bin, size); } RLC_CATCH_ANY { caught = 1; }
		if (take_err() || caught) fprintf(OUT, "err"); else fp2_printx(b);
	}
	fputc('\n', OUT);
}
static void op_f2rb(int argc, char **argv) {
	if (argc < 2) { fprintf(OUT, "bad-args\n"); return; }
	static uint8_t buf[4 * RLC_FP_BYTES + 16], re[4 * RLC_FP_BYTES + 16];
	int n = bytes_parse(buf, sizeof(buf), argv[1]);
	fp2_t a; fp2_null(a); fp2_new(a);
	char *res[2] = { NULL, NULL }; size_t rl[2];
	FILE *save = OUT;
	for (int v = 0; v < 2; v++) {
		int caught = 0;
		if (v == 0) fp2_zero(a); else memset(a, 0xA5, sizeof(fp2_t));
		RLC_TRY { fp2_read_bin(a, buf, n); } RLC_CATCH_ANY { caught = 1; }
		int e = take_err() || caught;
		OUT = open_memstream(&res[v], &rl[v]);
		if (e) fprintf(OUT, "err");
		else {
			fp2_printx(a); fprintf(OUT, " re=");
			caught = 0;
			RLC_TRY { fp2_write_bin(re, n, a, n == RLC_FP_BYTES + 1); } RLC_CATCH_ANY { caught = 1; }
			if (take_err() || caught) fprintf(OUT, "err"); else bytes_print(re, n);
		}
		fclose(OUT); OUT = save;
	}
	fprintf(OUT, "%s", res[0]);
	if (strcmp(res[0], res[1]) != 0) fprintf(OUT, " DEST-DEPENDENT[%s]", res[1]);
	free(res[0]); free(res[1]);
	fputc('\n', OUT);
}

/* e2frb <k> : the four sub-scalars bn_rec_frb produces for k mod r with the data the twist routines pass (family parameter, order, BN flag),
 * signed, hex without leading zeros */
static void op_e2frb(int argc, char **argv) {
	if (argc < 2) { fprintf(OUT, "bad-args\n"); return; }
	bn_t k, n, u, _k[4]; raw_t r; int caught = 0;
	bn_null(k); bn_new(k); bn_null(n); bn_new(n); bn_null(u); bn_new(u);
	for (int i = 0; i < 4; i++) { bn_null(_k[i]); bn_new(_k[i]); }
	raw_parse(&r, argv[1]); raw_to_bn(k, &r);
	RLC_TRY {
		ep2_curve_get_ord(n); fp_prime_get_par(u);
		bn_mod(_k[0], k, n);
		bn_rec_frb(_k, 4, _k[0], u, n, ep_curve_is_pairf() == EP_BN);
	} RLC_CATCH_ANY { caught = 1; }
	if (take_err() || caught) { fprintf(OUT, "err\n"); return; }
	for (int i = 0; i < 4; i++) {
		char buf[RLC_BN_SIZE * (RLC_DIG / 4) + 2]; int p = 0;
		buf[0] = '0'; buf[1] = 0;
		for (int j = (int)_k[i]->used - 1; j >= 0; j--) p += sprintf(buf + p, "%0*llx", RLC_DIG / 4, (unsigned long long)_k[i]->dp[j]);
		char *q = buf; while (*q == '0' && q[1]) q++;
		fprintf(OUT, "%s%s%s", i ? "," : "", (bn_sign(_k[i]) == RLC_NEG && !bn_is_zero(_k[i])) ? "-" : "", q);
	}
	fputc('\n', OUT);
}

/* e2lc <n> <P> <a> <b> : ep2_mul_sim_lot on the n points P, 2P, …, nP with the scalars a, a + b, …, a + (n-1) b (compact form: lists longer
   than a line can hold — the bucket method changes its window at 32 points) */
static void op_e2lc(int argc, char **argv) {
	if (argc < 5) { fprintf(OUT, "bad-args\n"); return; }
	int n = parse_int(argv[1]), caught = 0;
	if (n < 1 || n > 80) { fprintf(OUT, "bad-args\n"); return; }
	static ep2_t ps[80]; static bn_t ks[80]; ep2_t c0, base; bn_t a, b; raw_t r;
	ep2_null(c0); ep2_new(c0); ep2_null(base); ep2_new(base); bn_null(a); bn_new(a); bn_null(b); bn_new(b);
	ep2_tok(base, argv[2]); raw_parse(&r, argv[3]); raw_to_bn(a, &r); raw_parse(&r, argv[4]); raw_to_bn(b, &r);
	RLC_TRY {
		for (int i = 0; i < n; i++) {
			ep2_null(ps[i]); ep2_new(ps[i]); bn_null(ks[i]); bn_new(ks[i]);
			if (i == 0) ep2_norm(ps[0], base); else { ep2_add(ps[i], ps[i - 1], ps[0]); ep2_norm(ps[i], ps[i]); }
			if (i == 0) bn_copy(ks[0], a); else bn_add(ks[i], ks[i - 1], b);
		}
		ep2_mul_sim_lot(c0, ps, (const bn_t *)ks, n);
	} RLC_CATCH_ANY { caught = 1; }
	if (take_err() || caught) fprintf(OUT, "err"); else ep2_out(c0);
	fputc('\n', OUT);
}

const op_t ops_ep2[] = {
	{"e2lc", op_e2lc},
	{"e2frb", op_e2frb},
	{"ep2_param", op_ep2_param}, {"e2b", op_e2b}, {"e2u", op_e2u}, {"e2m", op_e2m}, {"e2s", op_e2s},
	{"e2l", op_e2l}, {"e2d", op_e2l}, {"e2la", op_e2l}, {"e2da", op_e2l}, {"e2pt", op_e2pt}, {"e2wb", op_e2wb}, {"e2rb", op_e2rb}, {"f2rt", op_f2rt}, {"f2rb", op_f2rb},
	{NULL, NULL}
};
