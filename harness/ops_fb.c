/* binary-field operations of the line protocol (property C16). A field element travels as the hex of the integer whose
 * bit i is the coefficient of z^i; the oracle fills the digit vector directly (no library parser involved). */
#include "oracle.h"
#include "relic_fb.h"
#include "relic_fbx.h"
#include "relic_fb_low.h"

void fb_tok_n(dig_t *a, const char *tok, int n) {
	raw_t r;
	raw_parse(&r, tok);
	for (int i = 0; i < n; i++) a[i] = r.d[i];
}

void fb_tok(dig_t *a, const char *tok) { fb_tok_n(a, tok, RLC_FB_DIGS); }

static void hex_min(const dig_t *a, int n) {
	char buf[4 * RLC_FB_DIGS * (RLC_DIG / 4) + 8]; int p = 0;
	for (int i = n - 1; i >= 0; i--) p += sprintf(buf + p, "%0*llx", RLC_DIG / 4, (unsigned long long)a[i]);
	buf[p] = 0;
	char *s = buf; while (*s == '0' && s[1]) s++;
	fprintf(OUT, "%s", s);
}

/* value in minimal hex; a result with a coefficient at or above z^m is flagged (not canonical) */
void fb_out(const dig_t *a) {
	hex_min(a, RLC_FB_DIGS);
	if (fb_bits(a) > RLC_FB_BITS) fprintf(OUT, " DEG>=M");
}

/* output buffers with guard words */
#define GUARD 8
typedef struct { dig_t w[GUARD + RLC_FB_DIGS + GUARD + 8]; } gbuf_t;
static dig_t *g_init(gbuf_t *g) {
	for (unsigned i = 0; i < sizeof(g->w) / sizeof(dig_t); i++) g->w[i] = (dig_t)0xA5A5A5A5A5A5A5A5ULL;
	return g->w + GUARD;
}
static void g_check(gbuf_t *g) {
	for (int i = 0; i < GUARD; i++)
		if (g->w[i] != (dig_t)0xA5A5A5A5A5A5A5A5ULL || g->w[GUARD + RLC_FB_DIGS + i] != (dig_t)0xA5A5A5A5A5A5A5A5ULL) {
			fprintf(OUT, " WROTE-PAST-END"); return;
		}
}

/* the derived constants of the field context (reduction exponents, trace positions, sqrt(z), Itoh-Tsujii chain) */
void fb_info_print(void) {
	int a, b, c, ta, tb, tc;
	fb_poly_get_rdc(&a, &b, &c);
	fb_poly_get_trc(&ta, &tb, &tc);
	fprintf(OUT, " pa=%d pb=%d pc=%d ta=%d tb=%d tc=%d srz=", a, b, c, ta, tb, tc);
	hex_min(fb_poly_get_srz(), RLC_FB_DIGS);
	int len = 0; const int *ch = fb_poly_get_chain(&len);
	fprintf(OUT, " chain=%d", len);
	for (int i = 0; ch && i < len; i++) fprintf(OUT, ":%d", ch[i]);
	fprintf(OUT, " karat=%d", (int)FB_KARAT);
}

/* fb_param <id> : select the irreducible polynomial; print what the specification needs from the running library */
static void op_fb_param(int argc, char **argv) {
	if (argc < 2) { fprintf(OUT, "bad-args\n"); return; }
	int id = parse_int(argv[1]), caught = 0;
	RLC_TRY { fb_param_set(id); } RLC_CATCH_ANY { caught = 1; }
	if (take_err() || caught) { fprintf(OUT, "err\n"); return; }
	fprintf(OUT, "fb_param id=%d m=%d digs=%d f=", id, (int)RLC_FB_BITS, (int)RLC_FB_DIGS);
	/* the polynomial including z^m: for m a multiple of the digit size the top coefficient is implicit */
	{
		dig_t f[RLC_FB_DIGS + 1];
		for (int i = 0; i < (int)RLC_FB_DIGS; i++) f[i] = fb_poly_get()[i];
		f[RLC_FB_DIGS] = (RLC_FB_BITS % RLC_DIG == 0) ? 1 : 0;
		hex_min(f, RLC_FB_DIGS + 1);
	}
	fb_info_print();
	fputc('\n', OUT);
}

/* fbb <op> <alias> <a> <b> */
static void op_fbb(int argc, char **argv) {
	if (argc < 5) { fprintf(OUT, "bad-args\n"); return; }
	const char *op = argv[1];
	int alias = parse_int(argv[2]), caught = 0, r = -99;
	gbuf_t ga, gb, gc;
	dig_t *pa = g_init(&ga), *pb = g_init(&gb), *pc = g_init(&gc);
	fb_tok(pa, argv[3]); fb_tok(pb, argv[4]);
	dig_t dg = pb[0];
	if (alias == 3 || alias == 4) pb = pa;
	if (alias == 1 || alias == 4) pc = pa;
	if (alias == 2) pc = pb;
	RLC_TRY {
		if (!strcmp(op, "add")) fb_add(pc, pa, pb);
		else if (!strcmp(op, "add_dig")) fb_add_dig(pc, pa, dg);
		else if (!strcmp(op, "mul")) fb_mul(pc, pa, pb);
		else if (!strcmp(op, "mul_basic")) fb_mul_basic(pc, pa, pb);
		else if (!strcmp(op, "mul_integ")) fb_mul_integ(pc, pa, pb);
		else if (!strcmp(op, "mul_lodah")) fb_mul_lodah(pc, pa, pb);
		else if (!strcmp(op, "mul_karat")) fb_mul_karat(pc, pa, pb);
		else if (!strcmp(op, "mul_dig")) fb_mul_dig(pc, pa, dg);
		else if (!strcmp(op, "cmp")) r = fb_cmp(pa, pb);
		else if (!strcmp(op, "cmp_dig")) r = fb_cmp_dig(pa, dg);
		else { fprintf(OUT, "unknown-fbb %s\n", op); return; }
	} RLC_CATCH_ANY { caught = 1; }
	if (take_err() || caught) fprintf(OUT, "err"); else if (r != -99) fprintf(OUT, "r=%d", r); else fb_out(pc);
	g_check(&ga); g_check(&gb); g_check(&gc);
	fputc('\n', OUT);
}

/* fbu <op> <alias> <a> */
static void op_fbu(int argc, char **argv) {
	if (argc < 4) { fprintf(OUT, "bad-args\n"); return; }
	const char *op = argv[1];
	int alias = parse_int(argv[2]), caught = 0, r = -99;
	gbuf_t ga, gc;
	dig_t *pa = g_init(&ga), *pc = g_init(&gc);
	fb_tok(pa, argv[3]);
	if (alias == 1) pc = pa;
	RLC_TRY {
		if (!strcmp(op, "sqr")) fb_sqr(pc, pa);
		else if (!strcmp(op, "sqr_basic")) fb_sqr_basic(pc, pa);
		else if (!strcmp(op, "sqr_quick")) fb_sqr_quick(pc, pa);
		else if (!strcmp(op, "sqr_integ")) fb_sqr_integ(pc, pa);
		else if (!strcmp(op, "inv")) fb_inv(pc, pa);
		else if (!strcmp(op, "inv_basic")) fb_inv_basic(pc, pa);
		else if (!strcmp(op, "inv_binar")) fb_inv_binar(pc, pa);
		else if (!strcmp(op, "inv_exgcd")) fb_inv_exgcd(pc, pa);
		else if (!strcmp(op, "inv_almos")) fb_inv_almos(pc, pa);
		else if (!strcmp(op, "inv_itoht")) fb_inv_itoht(pc, pa);
		else if (!strcmp(op, "inv_bruch")) fb_inv_bruch(pc, pa);
		else if (!strcmp(op, "inv_ctaia")) fb_inv_ctaia(pc, pa);
		else if (!strcmp(op, "inv_lower")) fb_inv_lower(pc, pa);
		else if (!strcmp(op, "srt")) fb_srt(pc, pa);
		else if (!strcmp(op, "srt_basic")) fb_srt_basic(pc, pa);
		else if (!strcmp(op, "srt_quick")) fb_srt_quick(pc, pa);
		else if (!strcmp(op, "slv")) fb_slv(pc, pa);
		else if (!strcmp(op, "slv_basic")) fb_slv_basic(pc, pa);
		else if (!strcmp(op, "slv_quick")) fb_slv_quick(pc, pa);
		else if (!strcmp(op, "trc")) r = (int)fb_trc(pa);
		else if (!strcmp(op, "trc_basic")) r = (int)fb_trc_basic(pa);
		else if (!strcmp(op, "trc_quick")) r = (int)fb_trc_quick(pa);
		else if (!strcmp(op, "is_zero")) r = fb_is_zero(pa);
		else if (!strcmp(op, "bits")) r = (int)fb_bits(pa);
		else { fprintf(OUT, "unknown-fbu %s\n", op); return; }
	} RLC_CATCH_ANY { caught = 1; }
	if (take_err() || caught) fprintf(OUT, "err"); else if (r != -99) fprintf(OUT, "r=%d", r); else fb_out(pc);
	g_check(&ga); g_check(&gc);
	fputc('\n', OUT);
}

/* fb_rdc <variant> <t> : reduction of a double-length vector (2 * RLC_FB_DIGS digits) */
static void op_fb_rdc(int argc, char **argv) {
	if (argc < 3) { fprintf(OUT, "bad-args\n"); return; }
	const char *v = argv[1];
	int caught = 0;
	dv_t t; gbuf_t gc; dig_t *pc = g_init(&gc);
	dv_null(t); dv_new(t);
	dv_zero(t, RLC_DV_DIGS);
	fb_tok_n(t, argv[2], 2 * RLC_FB_DIGS);
	RLC_TRY {
		if (!strcmp(v, "rdc")) fb_rdc(pc, t);
		else if (!strcmp(v, "basic")) fb_rdc_basic(pc, t);
		else if (!strcmp(v, "quick")) fb_rdc_quick(pc, t);
		else if (!strcmp(v, "rdc1")) fb_rdc1_low(pc, t);      /* (RLC_FB_DIGS + 1)-digit input, used by fb_mul_dig */
		else { fprintf(OUT, "unknown-fb_rdc %s\n", v); return; }
	} RLC_CATCH_ANY { caught = 1; }
	if (take_err() || caught) fprintf(OUT, "err"); else fb_out(pc);
	g_check(&gc);
	fputc('\n', OUT);
}

/* fb_muln <variant> <a> <b> : the unreduced product (2 * RLC_FB_DIGS digits) */
static void op_fb_muln(int argc, char **argv) {
	if (argc < 4) { fprintf(OUT, "bad-args\n"); return; }
	const char *v = argv[1];
	fb_t a, b; dv_t t;
	dv_null(t); dv_new(t);
	dv_zero(t, RLC_DV_DIGS);
	fb_tok(a, argv[2]); fb_tok(b, argv[3]);
	if (!strcmp(v, "muln")) fb_muln_low(t, a, b);
	else if (!strcmp(v, "muld")) fb_muld_low(t, a, b, RLC_FB_DIGS);
	else if (!strcmp(v, "sqrn")) fb_sqrn_low(t, a);
	else if (!strcmp(v, "sqrl")) fb_sqrl_low(t, a);
	else if (!strcmp(v, "mul1")) fb_mul1_low(t, a, b[0]);
	else { fprintf(OUT, "unknown-fb_muln %s\n", v); return; }
	hex_min(t, 2 * RLC_FB_DIGS);
	fputc('\n', OUT);
}

/* fb_itr <variant> <alias> <a> <b> : a^(2^b), b may be negative (iterated square root) */
static void op_fb_itr(int argc, char **argv) {
	if (argc < 5) { fprintf(OUT, "bad-args\n"); return; }
	const char *v = argv[1];
	int alias = parse_int(argv[2]), b = parse_int(argv[4]), caught = 0;
	static fb_st tab[RLC_FB_TABLE_QUICK];
	gbuf_t ga, gc;
	dig_t *pa = g_init(&ga), *pc = g_init(&gc);
	fb_tok(pa, argv[3]);
	if (alias == 1) pc = pa;
	if (b > 2000 || b < -2000) { fprintf(OUT, "bad-args\n"); return; }
	RLC_TRY {
		if (!strcmp(v, "basic")) fb_itr_basic(pc, pa, b);
		else if (!strcmp(v, "quick")) { fb_itr_pre_quick(tab, b); fb_itr_quick(pc, pa, (const fb_st *)tab); }
		else if (!strcmp(v, "itr")) { fb_itr_pre(tab, b); fb_itr(pc, pa, b, (const fb_st *)tab); }
		else { fprintf(OUT, "unknown-fb_itr %s\n", v); return; }
	} RLC_CATCH_ANY { caught = 1; }
	if (take_err() || caught) fprintf(OUT, "err"); else fb_out(pc);
	g_check(&ga); g_check(&gc);
	fputc('\n', OUT);
}

/* fb_exp <variant> <alias> <a> <k> */
static void op_fb_exp(int argc, char **argv) {
	if (argc < 5) { fprintf(OUT, "bad-args\n"); return; }
	const char *v = argv[1];
	int alias = parse_int(argv[2]), caught = 0;
	gbuf_t ga, gc; bn_t k; raw_t rk;
	dig_t *pa = g_init(&ga), *pc = g_init(&gc);
	bn_null(k); bn_new(k);
	fb_tok(pa, argv[3]);
	raw_parse(&rk, argv[4]); raw_to_bn(k, &rk);
	if (alias == 1) pc = pa;
	RLC_TRY {
		if (!strcmp(v, "exp")) fb_exp(pc, pa, k);
		else if (!strcmp(v, "basic")) fb_exp_basic(pc, pa, k);
		else if (!strcmp(v, "slide")) fb_exp_slide(pc, pa, k);
		else if (!strcmp(v, "monty")) fb_exp_monty(pc, pa, k);
		else { fprintf(OUT, "unknown-fb_exp %s\n", v); return; }
	} RLC_CATCH_ANY { caught = 1; }
	if (take_err() || caught) fprintf(OUT, "err"); else fb_out(pc);
	g_check(&ga); g_check(&gc);
	fputc('\n', OUT);
}

/* fb_wbin <len> <a> ; fb_rbin <hex> */
static void op_fb_wbin(int argc, char **argv) {
	if (argc < 3) { fprintf(OUT, "bad-args\n"); return; }
	int len = parse_int(argv[1]), caught = 0;
	uint8_t buf[2 * RLC_FB_BYTES + 80];
	fb_t a;
	if (len < 0 || len > 2 * (int)RLC_FB_BYTES) { fprintf(OUT, "bad-args\n"); return; }
	fb_tok(a, argv[2]);
	memset(buf, 0xEE, sizeof(buf));
	RLC_TRY { fb_write_bin(buf + 32, len, a); } RLC_CATCH_ANY { caught = 1; }
	if (take_err() || caught) fprintf(OUT, "err"); else bytes_print(buf + 32, len);
	for (int i = 0; i < 32; i++) if (buf[i] != 0xEE || buf[32 + len + i] != 0xEE) { fprintf(OUT, " WROTE-OUTSIDE"); break; }
	fputc('\n', OUT);
}
static void op_fb_rbin(int argc, char **argv) {
	if (argc < 2) { fprintf(OUT, "bad-args\n"); return; }
	uint8_t buf[2 * RLC_FB_BYTES + 16];
	int n = bytes_parse(buf, sizeof(buf), argv[1]), caught = 0;
	gbuf_t gc; dig_t *pc = g_init(&gc);
	RLC_TRY { fb_read_bin(pc, buf, n); } RLC_CATCH_ANY { caught = 1; }
	if (take_err() || caught) fprintf(OUT, "err"); else fb_out(pc);
	g_check(&gc);
	fputc('\n', OUT);
}

/* fb_wstr <len> <a> <radix> : fb_write_str into a guarded buffer of <len> bytes, followed by fb_size_str (C07: text form of field elements) */
static void op_fb_wstr(int argc, char **argv) {
	if (argc < 4) { fprintf(OUT, "bad-args\n"); return; }
	int len = parse_int(argv[1]), radix = parse_int(argv[3]), caught = 0; size_t sz = 0;
	static uint8_t buf[4096 + 64];
	fb_t a, a0;
	if (len < 0 || len > 4096) { fprintf(OUT, "bad-args\n"); return; }
	fb_tok(a, argv[2]); fb_copy(a0, a);
	memset(buf, 0xEE, sizeof(buf));
	RLC_TRY { fb_write_str((char *)buf + 32, len, a, radix); } RLC_CATCH_ANY { caught = 1; }
	if (take_err() || caught) fprintf(OUT, "err");
	else {
		int n = 0; while (n < len && buf[32 + n] != 0) n++;
		if (n == len) fprintf(OUT, "NOT-TERMINATED");
		else { fputc('"', OUT); fwrite(buf + 32, 1, n, OUT); fputc('"', OUT); }
	}
	for (int i = 0; i < 32; i++) if (buf[i] != 0xEE || buf[32 + len + i] != 0xEE) { fprintf(OUT, " WROTE-OUTSIDE"); break; }
	caught = 0;
	RLC_TRY { sz = fb_size_str(a, radix); } RLC_CATCH_ANY { caught = 1; }
	if (take_err() || caught) fprintf(OUT, " size=err"); else fprintf(OUT, " size=%lu", (unsigned long)sz);
	if (fb_cmp(a, a0) != RLC_EQ) fprintf(OUT, " INPUT-A-MODIFIED");
	fputc('\n', OUT);
}
/* fb_rstr <radix> <string> ("" = empty) : fb_read_str into a guarded element */
static void op_fb_rstr(int argc, char **argv) {
	if (argc < 3) { fprintf(OUT, "bad-args\n"); return; }
	int radix = parse_int(argv[1]), caught = 0;
	const char *str = strcmp(argv[2], "\"\"") ? argv[2] : "";
	gbuf_t gc; dig_t *pc = g_init(&gc);
	RLC_TRY { fb_read_str(pc, str, strlen(str), radix); } RLC_CATCH_ANY { caught = 1; }
	if (take_err() || caught) fprintf(OUT, "err"); else fb_out(pc);
	g_check(&gc);
	fputc('\n', OUT);
}

/* fb_invsim <alias> <n> <a1> ... <an> : simultaneous inversion; alias 1 = results over the inputs */
static void op_fb_invsim(int argc, char **argv) {
	if (argc < 3) { fprintf(OUT, "bad-args\n"); return; }
	int alias = parse_int(argv[1]), n = parse_int(argv[2]), caught = 0;
	static fb_t a[16], c[16];
	if (n < 1 || n > 16 || argc < 3 + n) { fprintf(OUT, "bad-args\n"); return; }
	for (int i = 0; i < n; i++) { fb_tok(a[i], argv[3 + i]); fb_zero(c[i]); }
	RLC_TRY { fb_inv_sim(alias ? a : c, (const fb_t *)a, n); } RLC_CATCH_ANY { caught = 1; }
	if (take_err() || caught) fprintf(OUT, "err");
	else for (int i = 0; i < n; i++) { if (i) fputc(';', OUT); fb_out(alias ? a[i] : c[i]); }
	fputc('\n', OUT);
}

/* fbq <op> <alias> <a0> <a1> [<b0> <b1>] : quadratic extension GF(2^m)[s]/(s^2 + s + 1) */
static void op_fbq(int argc, char **argv) {
	if (argc < 5) { fprintf(OUT, "bad-args\n"); return; }
	const char *op = argv[1];
	int alias = parse_int(argv[2]), caught = 0;
	fb2_t a, b, c; fb_t *pa = a, *pb = b, *pc = c;
	fb_tok(a[0], argv[3]); fb_tok(a[1], argv[4]);
	fb_zero(b[0]); fb_zero(b[1]);
	if (argc >= 7) { fb_tok(b[0], argv[5]); fb_tok(b[1], argv[6]); }
	for (int i = 0; i < (int)RLC_FB_DIGS; i++) c[0][i] = c[1][i] = (dig_t)0xA5A5A5A5A5A5A5A5ULL;
	if (alias == 3 || alias == 4) pb = pa;
	if (alias == 1 || alias == 4) pc = pa;
	if (alias == 2) pc = pb;
	RLC_TRY {
		if (!strcmp(op, "mul")) fb2_mul(pc, pa, pb);
		else if (!strcmp(op, "add")) { fb2_add(pc, pa, pb); }
		else if (!strcmp(op, "sqr")) fb2_sqr(pc, pa);
		else if (!strcmp(op, "inv")) fb2_inv(pc, pa);
		else if (!strcmp(op, "slv")) fb2_slv(pc, pa);
		else if (!strcmp(op, "mul_nor")) fb2_mul_nor(pc, pa);
		else { fprintf(OUT, "unknown-fbq %s\n", op); return; }
	} RLC_CATCH_ANY { caught = 1; }
	if (take_err() || caught) fprintf(OUT, "err"); else { fb_out(pc[0]); fputc(',', OUT); fb_out(pc[1]); }
	fputc('\n', OUT);
}

const op_t ops_fb[] = {
	{"fb_param", op_fb_param}, {"fbb", op_fbb}, {"fbu", op_fbu}, {"fb_rdc", op_fb_rdc}, {"fb_muln", op_fb_muln},
	{"fb_itr", op_fb_itr}, {"fb_exp", op_fb_exp}, {"fb_wbin", op_fb_wbin}, {"fb_rbin", op_fb_rbin}, {"fb_wstr", op_fb_wstr}, {"fb_rstr", op_fb_rstr},
	{"fb_invsim", op_fb_invsim}, {"fbq", op_fbq},
	{NULL, NULL}
};
