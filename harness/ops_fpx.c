/* extension-field towers (property C10): every public fpN_* function by name.
 *
 *   fpx_param f <fp id>              select a prime (fp_param_set)
 *   fpx_param e <ep id> <twist>      select a pairing-friendly curve (ep_param_set + ep2_curve_set_twist(1=D,2=M))
 *   fpx <function> <alias> <args…>   call the function
 *
 * Elements travel as "c0,c1,…" (standard representation, lower-case hex) in the memory order of the library type
 * (fp12_t = fp_t[2][3][2]: outermost index first). They are loaded with fp_prime_conv and printed with
 * fp_prime_back, not with the fpN_read_bin / fpN_write_bin functions under test.
 * alias: 0 distinct, 1 c==a, 2 c==b, 3 b==a, 4 c==a==b. */
#include "oracle.h"
#include "relic_fp_low.h"
#include "relic_fpx_low.h"

#define MAXN 54
#define MAXSIM 8
#define GUARD 0x5A

typedef enum { K_UN, K_BIN, K_UNR1, K_UNR2, K_INT, K_BN, K_DIG, K_SETDIG, K_TEST, K_SRT, K_CMP, K_CMPD, K_SIM, K_EXPSIM, K_SPS,
	K_FRB2, K_RDBIN, K_WRBIN, K_SZBIN } kind_t;

typedef struct { const char *name; int n; kind_t kind; void (*fn)(void); } ent_t;

/* ---- element I/O ------------------------------------------------------------------------------------------------- */
static void fp_set_tok(fp_t a, const char *s, int len) {
	char tmp[8 * RLC_FP_BYTES + 8];
	raw_t r; bn_t t;
	if (len > (int)sizeof(tmp) - 1) len = sizeof(tmp) - 1;
	memcpy(tmp, s, len); tmp[len] = 0;
	raw_parse(&r, tmp);
	bn_null(t); bn_new(t); raw_to_bn(t, &r);
	if (bn_is_zero(t)) fp_zero(a); else fp_prime_conv(a, t);
}

/* exactly n comma separated coefficients; returns 0 on a malformed token */
static int el_parse(fp_t *e, int n, const char *tok) {
	int i = 0;
	const char *p = tok;
	while (i < n) {
		const char *q = strchr(p, ',');
		int len = q ? (int)(q - p) : (int)strlen(p);
		if (len == 0) return 0;
		fp_set_tok(e[i], p, len);
		i++;
		if (!q) break;
		p = q + 1;
	}
	return i == n && strchr(p, ',') == NULL;
}

static void fp_print_val(const fp_t a) {
	bn_t t;
	bn_null(t); bn_new(t);
	fp_prime_back(t, a);
	char buf[RLC_FP_DIGS * (RLC_DIG / 4) + 2]; int p = 0;
	for (int i = t->used - 1; i >= 0; i--) p += sprintf(buf + p, "%0*llx", RLC_DIG / 4, (unsigned long long)t->dp[i]);
	buf[p] = 0;
	char *s = buf; while (*s == '0' && s[1]) s++;
	if (p == 0) s = (char *)"0";
	fputs(s, OUT);
	/* canonical-form clause: every coefficient is a reduced residue */
	if (dv_cmp(a, fp_prime_get(), RLC_FP_DIGS) != RLC_LT) fputs("!NONCANONICAL", OUT);
}

static void el_out(fp_t *e, int n) {
	for (int i = 0; i < n; i++) { if (i) fputc(',', OUT); fp_print_val(e[i]); }
}

static void el_fill(fp_t *e, int n) {
	for (int i = 0; i < n; i++) for (int j = 0; j < RLC_FP_DIGS; j++) e[i][j] = (dig_t)0xA5A5A5A5A5A5A5A5ULL;
}

/* ---- wrappers: the library's nested array types are contiguous fp_t vectors --------------------------------------- */
#define UN(N, f)   static void w_fp##N##_##f(fp_t *c, fp_t *a) { fp##N##_##f((void *)c, (void *)a); }
#define BIN(N, f)  static void w_fp##N##_##f(fp_t *c, fp_t *a, fp_t *b) { fp##N##_##f((void *)c, (void *)a, (void *)b); }
#define UNR1(N, f) static void w_fp##N##_##f(dv_t *c, fp_t *a) { fp##N##_##f((void *)c, (void *)a); }
#define UNR2(N, f) static void w_fp##N##_##f(dv_t *c, fp_t *a, fp_t *b) { fp##N##_##f((void *)c, (void *)a, (void *)b); }
#define INT_(N, f) static void w_fp##N##_##f(fp_t *c, fp_t *a, int i) { fp##N##_##f((void *)c, (void *)a, i); }
#define BN_(N, f)  static void w_fp##N##_##f(fp_t *c, fp_t *a, bn_t b) { fp##N##_##f((void *)c, (void *)a, b); }
#define DIG(N, f)  static void w_fp##N##_##f(fp_t *c, fp_t *a, dig_t b) { fp##N##_##f((void *)c, (void *)a, b); }
#define SETD(N, f) static void w_fp##N##_##f(fp_t *c, dig_t b) { fp##N##_##f((void *)c, b); }
#define TEST(N, f) static int w_fp##N##_##f(fp_t *a) { return fp##N##_##f((void *)a); }
#define SRT(N, f)  static int w_fp##N##_##f(fp_t *c, fp_t *a) { return fp##N##_##f((void *)c, (void *)a); }
#define CMP(N, f)  static int w_fp##N##_##f(fp_t *a, fp_t *b) { return fp##N##_##f((void *)a, (void *)b); }
#define CMPD(N, f) static int w_fp##N##_##f(fp_t *a, dig_t b) { return fp##N##_##f((void *)a, b); }
#define SIM(N, f)  static void w_fp##N##_##f(fp_t *c, fp_t *a, int n) { fp##N##_##f((void *)c, (void *)a, n); }
#define XSIM(N, f) static void w_fp##N##_##f(fp_t *e, fp_t *a, bn_t b, fp_t *c, bn_t d) { fp##N##_##f((void *)e, (void *)a, b, (void *)c, d); }
#define SPS(N, f)  static void w_fp##N##_##f(fp_t *c, fp_t *a, const int *b, size_t l, int s) { fp##N##_##f((void *)c, (void *)a, b, l, s); }
#define FRB2(N, f) static void w_fp##N##_##f(fp_t *c, fp_t *a, int i, int j) { fp##N##_##f((void *)c, (void *)a, i, j); }
#define RDB(N, f)  static void w_fp##N##_##f(fp_t *a, const uint8_t *b, size_t l) { fp##N##_##f((void *)a, b, l); }
#define WRB(N, f)  static void w_fp##N##_##f(uint8_t *b, size_t l, fp_t *a) { fp##N##_##f(b, l, (void *)a); }
#define WRBP(N, f) static void w_fp##N##_##f(uint8_t *b, size_t l, fp_t *a, int p) { fp##N##_##f(b, l, (void *)a, p); }
#define SZB(N, f)  static int w_fp##N##_##f(fp_t *a) { return fp##N##_##f((void *)a); }
#define SZBP(N, f) static int w_fp##N##_##f(fp_t *a, int p) { return fp##N##_##f((void *)a, p); }

#include "ops_fpx_tab.inc"

/* ---- fpx_param ------------------------------------------------------------------------------------------------------ */
static void op_fpx_param(int argc, char **argv) {
	if (argc < 3) { fprintf(OUT, "bad-args\n"); return; }
	int id = parse_int(argv[2]), caught = 0, tw = argc > 3 ? parse_int(argv[3]) : 0;
	RLC_TRY {
		if (argv[1][0] == 'e') {
			ep_param_set(id);
			if (tw == RLC_EP_DTYPE || tw == RLC_EP_MTYPE) ep2_curve_set_twist(tw);
		} else {
			fp_param_set(id);
		}
	} RLC_CATCH_ANY { caught = 1; }
	if (take_err() || caught) { fprintf(OUT, "err\n"); return; }
	fprintf(OUT, "fpx_param kind=%c id=%d fpid=%d p=", argv[1][0], id, fp_param_get());
	raw_print(fp_prime_get(), RLC_FP_DIGS, 0);
	fprintf(OUT, " bytes=%d qnr=%d cnr=%d qnr2=%d cnr3=%d mod8=%d mod18=%d", (int)RLC_FP_BYTES, fp_prime_get_qnr(), fp_prime_get_cnr(),
		fp2_field_get_qnr(), fp3_field_get_cnr(), (int)fp_prime_get_mod8(), (int)fp_prime_get_mod18());
#ifdef FP_QNRES
	fprintf(OUT, " qnres=1");
#else
	fprintf(OUT, " qnres=0");
#endif
#ifdef RLC_FP_ROOM
	fprintf(OUT, " room=1");
#else
	fprintf(OUT, " room=0");
#endif
	/* the constants the tower is built with, as the library itself multiplies by them */
	{
		fp_t one[MAXN], r[MAXN];
		for (int i = 0; i < MAXN; i++) fp_zero(one[i]);
		fp_set_dig(one[0], 1);
		fprintf(OUT, " xi="); fp2_mul_nor((void *)r, (void *)one); el_out(r, 2);
		fprintf(OUT, " art2="); fp2_mul_art((void *)r, (void *)one); el_out(r, 2);
		if (fp_prime_get_cnr() != 0) {
			fprintf(OUT, " art3="); fp3_mul_art((void *)r, (void *)one); el_out(r, 3);
			fprintf(OUT, " xi3="); fp3_mul_nor((void *)r, (void *)one); el_out(r, 3);
		}
	}
	if (argv[1][0] == 'e') {
		bn_t n, x; bn_null(n); bn_new(n); bn_null(x); bn_new(x);
		ep_curve_get_ord(n);
		fp_prime_get_par(x);
		fprintf(OUT, " n="); raw_print(n->dp, n->used, 0);
		fprintf(OUT, " x=%s", bn_sign(x) == RLC_NEG ? "-" : ""); raw_print(x->dp, x->used, 0);
		fprintf(OUT, " pairf=%d embed=%d twist=%d", ep_curve_is_pairf(), ep_curve_embed(), ep2_curve_is_twist());
		int len = 0; const int *s = fp_prime_get_par_sps(&len);
		fprintf(OUT, " sps=");
		if (len == 0) fputc('.', OUT);
		for (int i = 0; i < len; i++) fprintf(OUT, "%s%d", i ? "," : "", s[i]);
	} else {
		fprintf(OUT, " pairf=0 embed=0 twist=%d", ep2_curve_is_twist());
	}
	fputc('\n', OUT);
}

/* ---- fpx <function> <alias> <args…> ------------------------------------------------------------------------------- */
static const ent_t *lookup(const char *name) {
	for (const ent_t *e = fpx_tab; e->name; e++) if (!strcmp(e->name, name)) return e;
	return NULL;
}

static int parse_ints(int *out, int max, const char *tok) {
	int n = 0;
	if (tok[0] == '.') return 0;
	const char *p = tok;
	while (n < max) {
		out[n++] = (int)strtol(p, NULL, 10);
		p = strchr(p, ',');
		if (!p) break;
		p++;
	}
	return n;
}

static void op_fpx(int argc, char **argv) {
	if (argc < 3) { fprintf(OUT, "bad-args\n"); return; }
	const ent_t *e = lookup(argv[1]);
	if (!e) { fprintf(OUT, "unknown-fpx %s\n", argv[1]); return; }
	int alias = parse_int(argv[2]), n = e->n, caught = 0, r = -99, nout = 1, show = 1;
	static fp_t A[MAXSIM * MAXN], B[MAXSIM * MAXN], C[MAXSIM * MAXN + 1];
	static dv_t D[MAXN];
	static uint8_t bin[MAXN * RLC_FP_BYTES + 256];
	fp_t *pa = A, *pb = B, *pc = C;
	bn_t k, k2; raw_t rk;
	bn_null(k); bn_new(k); bn_null(k2); bn_new(k2);
	char **arg = argv + 3; int na = argc - 3;
	el_fill(C, MAXSIM * MAXN + 1);
#define NEED(c) do { if (na < (c)) { fprintf(OUT, "bad-args\n"); return; } } while (0)
#define ELEM(buf, tok) do { if (!el_parse(buf, n, tok)) { fprintf(OUT, "bad-element\n"); return; } } while (0)
	if (alias == 3 || alias == 4) pb = pa;
	if (alias == 1 || alias == 4) pc = pa;
	if (alias == 2) pc = pb;
	RLC_TRY {
		switch (e->kind) {
		case K_UN: NEED(1); ELEM(A, arg[0]);
			/* compressed squarings write four of the six fp2 coefficients only: preset the destination with the operand */
			if (strstr(e->name, "sqr_pck") && pc == C) memcpy(C, A, sizeof(fp_t) * n);
			((void (*)(fp_t *, fp_t *))e->fn)(pc, pa); break;
		case K_BIN: NEED(2); ELEM(A, arg[0]); ELEM(B, arg[1]); ((void (*)(fp_t *, fp_t *, fp_t *))e->fn)(pc, pa, pb); break;
		case K_UNR1: NEED(1); ELEM(A, arg[0]); ((void (*)(dv_t *, fp_t *))e->fn)(D, pa);
			pc = C; for (int i = 0; i < n; i++) fp_rdc(C[i], D[i]); break;
		case K_UNR2: NEED(2); ELEM(A, arg[0]); ELEM(B, arg[1]); ((void (*)(dv_t *, fp_t *, fp_t *))e->fn)(D, pa, pb);
			pc = C; for (int i = 0; i < n; i++) fp_rdc(C[i], D[i]); break;
		case K_INT: NEED(2); ELEM(A, arg[0]); ((void (*)(fp_t *, fp_t *, int))e->fn)(pc, pa, parse_int(arg[1])); break;
		case K_BN: NEED(2); ELEM(A, arg[0]); raw_parse(&rk, arg[1]); raw_to_bn(k, &rk);
			((void (*)(fp_t *, fp_t *, bn_t))e->fn)(pc, pa, k); break;
		case K_DIG: NEED(2); ELEM(A, arg[0]); ((void (*)(fp_t *, fp_t *, dig_t))e->fn)(pc, pa, (dig_t)parse_u64(arg[1])); break;
		case K_SETDIG: NEED(1); pc = C; ((void (*)(fp_t *, dig_t))e->fn)(pc, (dig_t)parse_u64(arg[0])); break;
		case K_TEST: NEED(1); ELEM(A, arg[0]); r = ((int (*)(fp_t *))e->fn)(pa); show = 0; break;
		case K_SRT: NEED(1); ELEM(A, arg[0]); r = ((int (*)(fp_t *, fp_t *))e->fn)(pc, pa); show = (r != 0); break;
		case K_CMP: NEED(2); ELEM(A, arg[0]); ELEM(B, arg[1]); r = ((int (*)(fp_t *, fp_t *))e->fn)(pa, pb); show = 0; break;
		case K_CMPD: NEED(2); ELEM(A, arg[0]); r = ((int (*)(fp_t *, dig_t))e->fn)(pa, (dig_t)parse_u64(arg[1])); show = 0; break;
		case K_SIM: {
			NEED(1); int cnt = parse_int(arg[0]);
			if (cnt < 0 || cnt > MAXSIM || na < 1 + cnt) { fprintf(OUT, "bad-args\n"); return; }
			for (int i = 0; i < cnt; i++) ELEM(A + i * n, arg[1 + i]);
			((void (*)(fp_t *, fp_t *, int))e->fn)(pc, pa, cnt);
			nout = cnt;
			break; }
		case K_EXPSIM: NEED(4); ELEM(A, arg[0]); raw_parse(&rk, arg[1]); raw_to_bn(k, &rk);
			ELEM(B, arg[2]); raw_parse(&rk, arg[3]); raw_to_bn(k2, &rk);
			((void (*)(fp_t *, fp_t *, bn_t, fp_t *, bn_t))e->fn)(pc, pa, k, pb, k2); break;
		case K_SPS: {
			NEED(3); ELEM(A, arg[0]); int sgn = parse_int(arg[1]) < 0 ? RLC_NEG : RLC_POS; int sp[64];
			int len = parse_ints(sp, 64, arg[2]);
			((void (*)(fp_t *, fp_t *, const int *, size_t, int))e->fn)(pc, pa, sp, (size_t)len, sgn); break; }
		case K_FRB2: NEED(3); ELEM(A, arg[0]); ((void (*)(fp_t *, fp_t *, int, int))e->fn)(pc, pa, parse_int(arg[1]), parse_int(arg[2])); break;
		case K_RDBIN: {
			NEED(1); int len = bytes_parse(bin + 64, sizeof(bin) - 128, arg[0]);
			pc = C; ((void (*)(fp_t *, const uint8_t *, size_t))e->fn)(pc, bin + 64, (size_t)len); break; }
		case K_WRBIN: {
			/* <a> <len> <pack: -1 = the function has no pack argument> */
			NEED(3); ELEM(A, arg[0]); int len = parse_int(arg[1]), pack = parse_int(arg[2]);
			if (len < 0 || len > (int)sizeof(bin) - 128) { fprintf(OUT, "bad-args\n"); return; }
			memset(bin, GUARD, sizeof(bin));
			if (pack < 0) ((void (*)(uint8_t *, size_t, fp_t *))e->fn)(bin + 64, (size_t)len, pa);
			else ((void (*)(uint8_t *, size_t, fp_t *, int))e->fn)(bin + 64, (size_t)len, pa, pack);
			if (take_err()) { fprintf(OUT, "err"); }
			else bytes_print(bin + 64, len);
			for (int i = 0; i < 64; i++) if (bin[i] != GUARD || bin[64 + len + i] != GUARD) { fprintf(OUT, " WROTE-OUTSIDE"); break; }
			fputc('\n', OUT);
			return; }
		case K_SZBIN: {
			NEED(2); ELEM(A, arg[0]); int pack = parse_int(arg[1]);
			if (pack < 0) r = ((int (*)(fp_t *))e->fn)(pa); else r = ((int (*)(fp_t *, int))e->fn)(pa, pack);
			show = 0; break; }
		}
	} RLC_CATCH_ANY { caught = 1; }
	if (take_err() || caught) { fprintf(OUT, "err\n"); return; }
	if (r != -99) fprintf(OUT, "r=%d", r);
	if (show) {
		if (r != -99) fputc(' ', OUT);
		for (int i = 0; i < nout; i++) { if (i) fputc(' ', OUT); el_out(pc + i * n, n); }
	}
	/* an output element must not reach past its type */
	if (pc == C) {
		fp_t g; el_fill(&g, 1);
		if (memcmp(C[nout * n], g, sizeof(dig_t) * RLC_FP_DIGS) != 0) fprintf(OUT, " WROTE-PAST-END");
	}
	fputc('\n', OUT);
}

const op_t ops_fpx[] = {
	{"fpx_param", op_fpx_param}, {"fpx", op_fpx},
	{NULL, NULL}
};
