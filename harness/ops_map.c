/* hashing to groups (property C13): ep_map*, ep_map_rnd (prime curves); eb_map (binary curves); ed_map, ed_map_dst (Edwards);
 * ep2_map* (curves over the quadratic extension).
 *
 * Context lines (self-contained: they select the curve and print everything the specification needs):
 *   ep_map_param <id>    -> the fields of `ep_param` + the map constants the library derived (ctx->ep_map_u, ep_map_c[0..4], isogeny)
 *   eb_map_param <id>, ed_map_param <id>, ep2_map_param <id>
 * Operation lines:
 *   ep_map <map|basic|sswum|swift> <msg>     ep_map_rnd <bytes>
 *   eb_map <msg>    ed_map <msg>    ed_map_dst <msg> <dst>    ep2_map <map|basic|sswum|swift> <msg>
 * Every map is called twice, into differently pre-filled result objects, over a differently scribbled stack and with a
 * different DRBG state; " NONDET" is appended when the two results differ (the property demands a function of the bytes alone). */
#include "oracle.h"
#include "relic_ep.h"

#define MSGMAX 4096

static void fp_print_val(const fp_t a) {
	bn_t t; bn_null(t); bn_new(t);
	fp_prime_back(t, a);
	char buf[RLC_FP_DIGS * (RLC_DIG / 4) + 2]; int p = 0;
	for (int i = t->used - 1; i >= 0; i--) p += sprintf(buf + p, "%0*llx", RLC_DIG / 4, (unsigned long long)t->dp[i]);
	buf[p] = 0;
	if (p == 0) { buf[0] = '0'; buf[1] = 0; }
	char *s = buf; while (*s == '0' && s[1]) s++;
	fprintf(OUT, "%s", s);
}

/* canonical text of a point: "inf" | "<x>,<y>" (normalised affine, standard representation) */
static void ep_sprint(char *dst, size_t cap, const ep_t p) {
	if (ep_is_infty(p)) { snprintf(dst, cap, "inf"); return; }
	ep_t t; ep_null(t); ep_new(t);
	ep_norm(t, p);
	FILE *save = OUT; char *mem = NULL; size_t msz = 0;
	OUT = open_memstream(&mem, &msz);
	fp_print_val(t->x); fputc(',', OUT); fp_print_val(t->y);
	fclose(OUT); OUT = save;
	snprintf(dst, cap, "%s", mem);
	free(mem);
}

/* overwrite a good part of the stack below the caller with a pattern */
static void __attribute__((noinline)) scribble(int pat) {
	volatile uint8_t junk[48 * 1024];
	for (size_t i = 0; i < sizeof(junk); i++) junk[i] = (uint8_t)(pat + (int)(i * 7));
	__asm__ volatile("" ::: "memory");
}

static void junk_point(ep_t p, int pat) {
	memset(p->x, pat, sizeof(fp_st)); memset(p->y, pat ^ 0x5a, sizeof(fp_st)); memset(p->z, pat ^ 0xa5, sizeof(fp_st));
	p->coord = (pat & 1) ? PROJC : BASIC;
}

/* ep_map_param <id> */
static void op_ep_map_param(int argc, char **argv) {
	if (argc < 2) { fprintf(OUT, "bad-args\n"); return; }
	int id = parse_int(argv[1]), caught = 0;
	RLC_TRY { ep_param_set(id); } RLC_CATCH_ANY { caught = 1; }
	if (take_err() || caught) { fprintf(OUT, "err\n"); return; }
	ctx_t *ctx = core_get();
	ep_t g; bn_t n, h; ep_null(g); ep_new(g); bn_null(n); bn_new(n); bn_null(h); bn_new(h);
	ep_curve_get_gen(g); ep_curve_get_ord(n); ep_curve_get_cof(h);
	fprintf(OUT, "ep_map_param id=%d p=", id);
	raw_print(fp_prime_get(), RLC_FP_DIGS, 0);
	fprintf(OUT, " a="); fp_print_val(ep_curve_get_a());
	fprintf(OUT, " b="); fp_print_val(ep_curve_get_b());
	fprintf(OUT, " gx="); fp_print_val(g->x); fprintf(OUT, " gy="); fp_print_val(g->y);
	fprintf(OUT, " n="); raw_print(n->dp, n->used, 0);
	fprintf(OUT, " h="); raw_print(h->dp, h->used, 0);
	fprintf(OUT, " endom=%d pairf=%d super=%d opta=%d optb=%d", ep_curve_is_endom(), ep_curve_is_pairf(), ep_curve_is_super(),
		ep_curve_opt_a(), ep_curve_opt_b());
	if (ep_curve_is_endom()) { fprintf(OUT, " beta="); fp_print_val(ep_curve_get_beta()); }
	fprintf(OUT, " embed=%d level=%d", ep_curve_embed(), ep_param_level());
	if (ep_curve_is_pairf()) {
		bn_t par; bn_null(par); bn_new(par);
		fp_prime_get_par(par);
		fprintf(OUT, " par="); raw_print(par->dp, par->used, par->sign == RLC_NEG);
	}
#if EP_MAP == BASIC
	fprintf(OUT, " mapalg=basic");
#elif EP_MAP == SSWUM
	fprintf(OUT, " mapalg=sswum");
#elif EP_MAP == SWIFT
	fprintf(OUT, " mapalg=swift");
#endif
	fprintf(OUT, " fpbits=%d rndsize=%d ctmap=%d mod18=%d dst=", (int)FP_PRIME, (int)ep_map_rnd_size(), ep_curve_is_ctmap(), (int)ctx->mod18);
	bytes_print((const uint8_t *)RLC_STRING, strlen(RLC_STRING));
	fprintf(OUT, " mapu="); fp_print_val(ctx->ep_map_u);
	for (int i = 0; i < 5; i++) { fprintf(OUT, " c%d=", i); fp_print_val(ctx->ep_map_c[i]); }
#ifdef EP_CTMAP
	if (ep_curve_is_ctmap()) {
		iso_t iso = ep_curve_get_iso();
		fprintf(OUT, " isoa="); fp_print_val(iso->a);
		fprintf(OUT, " isob="); fp_print_val(iso->b);
		const char *nm[4] = {"xn", "xd", "yn", "yd"};
		fp_st *cf[4] = {iso->xn, iso->xd, iso->yn, iso->yd};
		int dg[4] = {iso->deg_xn, iso->deg_xd, iso->deg_yn, iso->deg_yd};
		for (int k = 0; k < 4; k++) {
			fprintf(OUT, " %s=", nm[k]);
			for (int i = 0; i <= dg[k] && i < RLC_EP_CTMAP_MAX; i++) { if (i) fputc(',', OUT); fp_print_val(cf[k][i]); }
		}
	}
#endif
	fputc('\n', OUT);
}

static int ep_map_variant(const char *v) {
	const char *names[] = {"map", "basic", "sswum", "swift", "rnd", NULL};
	for (int i = 0; names[i]; i++) if (!strcmp(v, names[i])) return i;
	return -1;
}

static void call_ep_map(int v, ep_t p, const uint8_t *msg, size_t len) {
	switch (v) {
		case 0: ep_map(p, msg, len); break;
		case 1: ep_map_basic(p, msg, len); break;
		case 2: ep_map_sswum(p, msg, len); break;
		case 3: ep_map_swift(p, msg, len); break;
		case 4: ep_map_rnd(p, msg, len); break;
	}
}

/* one guarded evaluation; text of the result (or "err") into out */
static int eval_ep_map(const char *v, const uint8_t *msg, size_t len, int pat, char *out, size_t cap) {
	volatile int caught = 0;
	int vi = ep_map_variant(v);
	if (vi < 0) return 0;
	ep_t p; ep_null(p); ep_new(p);
	junk_point(p, pat);
	scribble(pat);
	RLC_TRY { call_ep_map(vi, p, msg, len); } RLC_CATCH_ANY { caught = 1; }
	if (take_err() || caught) snprintf(out, cap, "err"); else ep_sprint(out, cap, p);
	return 1;
}

static void run_ep_map(const char *v, const uint8_t *msg, size_t len) {
	static char r1[1024], r2[1024];
	uint8_t drain[7];
	/* guard bytes around the caller's message: the maps must not write to their input */
	static uint8_t buf[MSGMAX + 64];
	memset(buf, 0xEE, sizeof(buf));
	memcpy(buf + 32, msg, len);
	if (!eval_ep_map(v, buf + 32, len, 0x00, r1, sizeof(r1))) { fprintf(OUT, "unknown-ep_map %s\n", v); return; }
	RLC_TRY { rand_bytes(drain, sizeof(drain)); } RLC_CATCH_ANY { }
	take_err();
	eval_ep_map(v, buf + 32, len, 0xC3, r2, sizeof(r2));
	fprintf(OUT, "%s", r1);
	if (strcmp(r1, r2)) fprintf(OUT, " NONDET(%s)", r2);
	for (int i = 0; i < 32; i++) if (buf[i] != 0xEE || buf[32 + len + i] != 0xEE) { fprintf(OUT, " WROTE-OUTSIDE"); break; }
	if (memcmp(buf + 32, msg, len)) fprintf(OUT, " INPUT-MODIFIED");
	fputc('\n', OUT);
}

/* ep_map <variant> <msg> */
static void op_ep_map(int argc, char **argv) {
	if (argc < 3) { fprintf(OUT, "bad-args\n"); return; }
	static uint8_t msg[MSGMAX];
	int len = bytes_parse(msg, sizeof(msg), argv[2]);
	if (!strcmp(argv[1], "rnd")) { fprintf(OUT, "bad-args\n"); return; }
	run_ep_map(argv[1], msg, len);
}

/* ep_map_rnd <bytes> */
static void op_ep_map_rnd(int argc, char **argv) {
	if (argc < 2) { fprintf(OUT, "bad-args\n"); return; }
	static uint8_t msg[MSGMAX];
	int len = bytes_parse(msg, sizeof(msg), argv[1]);
	run_ep_map("rnd", msg, len);
}


/* ------------------------------------------------------------------------------------------------------------------ */
#ifdef WITH_EB
#include "relic_eb.h"

static void fb_sprint(char *dst, const fb_t a) {
	int p = 0;
	for (int i = RLC_FB_DIGS - 1; i >= 0; i--) p += sprintf(dst + p, "%0*llx", RLC_DIG / 4, (unsigned long long)a[i]);
	dst[p] = 0;
	char *s = dst; while (*s == '0' && s[1]) s++;
	memmove(dst, s, strlen(s) + 1);
}

static void eb_sprint(char *dst, size_t cap, const eb_t p) {
	if (eb_is_infty(p)) { snprintf(dst, cap, "inf"); return; }
	eb_t t; eb_null(t); eb_new(t);
	eb_norm(t, p);
	char bx[RLC_FB_DIGS * 16 + 2], by[RLC_FB_DIGS * 16 + 2];
	fb_sprint(bx, t->x); fb_sprint(by, t->y);
	snprintf(dst, cap, "%s,%s", bx, by);
}

/* eb_map_param <id> : y^2 + xy = x^3 + a x^2 + b over GF(2)[z]/f; field elements as the integer of their bit pattern */
static void op_eb_map_param(int argc, char **argv) {
	if (argc < 2) { fprintf(OUT, "bad-args\n"); return; }
	int id = parse_int(argv[1]);
	volatile int caught = 0;
	RLC_TRY { eb_param_set(id); } RLC_CATCH_ANY { caught = 1; }
	if (take_err() || caught) { fprintf(OUT, "err\n"); return; }
	char b[RLC_FB_DIGS * 16 + 2];
	eb_t g; bn_t n, h; eb_null(g); eb_new(g); bn_null(n); bn_new(n); bn_null(h); bn_new(h);
	eb_curve_get_gen(g); eb_curve_get_ord(n); eb_curve_get_cof(h);
	fprintf(OUT, "eb_map_param id=%d m=%d", id, (int)RLC_FB_BITS);
	/* the reduction polynomial: bit m and the low terms */
	{
		dig_t f[RLC_FB_DIGS + 1]; memset(f, 0, sizeof(f));
		memcpy(f, fb_poly_get(), RLC_FB_DIGS * sizeof(dig_t));
		fprintf(OUT, " f="); raw_print(f, RLC_FB_DIGS, 0);
	}
	fb_sprint(b, eb_curve_get_a()); fprintf(OUT, " a=%s", b);
	fb_sprint(b, eb_curve_get_b()); fprintf(OUT, " b=%s", b);
	fb_sprint(b, g->x); fprintf(OUT, " gx=%s", b);
	fb_sprint(b, g->y); fprintf(OUT, " gy=%s", b);
	fprintf(OUT, " n="); raw_print(n->dp, n->used, 0);
	fprintf(OUT, " h="); raw_print(h->dp, h->used, 0);
	fprintf(OUT, " kbltz=%d mdlen=%d fbbytes=%d\n", eb_curve_is_kbltz(), (int)RLC_MD_LEN, (int)RLC_FB_BYTES);
}

static void eval_eb_map(const uint8_t *msg, size_t len, int pat, char *out, size_t cap) {
	volatile int caught = 0;
	eb_t p; eb_null(p); eb_new(p);
	memset(p->x, pat, sizeof(fb_st)); memset(p->y, pat ^ 0x5a, sizeof(fb_st)); memset(p->z, pat ^ 0xa5, sizeof(fb_st));
	scribble(pat);
	RLC_TRY { eb_map(p, msg, len); } RLC_CATCH_ANY { caught = 1; }
	if (take_err() || caught) snprintf(out, cap, "err"); else eb_sprint(out, cap, p);
}

/* eb_map <msg> */
static void op_eb_map(int argc, char **argv) {
	if (argc < 2) { fprintf(OUT, "bad-args\n"); return; }
	static uint8_t msg[MSGMAX];
	static char r1[1024], r2[1024];
	uint8_t drain[7];
	int len = bytes_parse(msg, sizeof(msg), argv[1]);
	eval_eb_map(msg, len, 0x00, r1, sizeof(r1));
	RLC_TRY { rand_bytes(drain, sizeof(drain)); } RLC_CATCH_ANY { }
	take_err();
	eval_eb_map(msg, len, 0xC3, r2, sizeof(r2));
	fprintf(OUT, "%s", r1);
	if (strcmp(r1, r2)) fprintf(OUT, " NONDET(%s)", r2);
	fputc('\n', OUT);
}
#define EB_MAP_OPS {"eb_map_param", op_eb_map_param}, {"eb_map", op_eb_map},
#else
#define EB_MAP_OPS
#endif


/* ------------------------------------------------------------------------------------------------------------------ */
#if defined(WITH_ED) && FP_PRIME == 255
#include "relic_ed.h"

static void fp_sprint_val(char *dst, size_t cap, const fp_t a) {
	FILE *save = OUT; char *mem = NULL; size_t msz = 0;
	OUT = open_memstream(&mem, &msz);
	fp_print_val(a);
	fclose(OUT); OUT = save;
	snprintf(dst, cap, "%s", mem);
	free(mem);
}

static void ed_sprint(char *dst, size_t cap, const ed_t p) {
	ed_t t; ed_null(t); ed_new(t);
	ed_norm(t, p);
	char bx[160], by[160];
	fp_sprint_val(bx, sizeof(bx), t->x); fp_sprint_val(by, sizeof(by), t->y);
	snprintf(dst, cap, "%s,%s", bx, by);
}

/* ed_map_param <id> : a x^2 + y^2 = 1 + d x^2 y^2 */
static void op_ed_map_param(int argc, char **argv) {
	if (argc < 2) { fprintf(OUT, "bad-args\n"); return; }
	int id = parse_int(argv[1]);
	volatile int caught = 0;
	RLC_TRY { ed_param_set(id); } RLC_CATCH_ANY { caught = 1; }
	if (take_err() || caught) { fprintf(OUT, "err\n"); return; }
	ctx_t *ctx = core_get();
	ed_t g; bn_t n, h; ed_null(g); ed_new(g); bn_null(n); bn_new(n); bn_null(h); bn_new(h);
	ed_curve_get_gen(g); ed_curve_get_ord(n); ed_curve_get_cof(h);
	ed_norm(g, g);
	fprintf(OUT, "ed_map_param id=%d p=", id);
	raw_print(fp_prime_get(), RLC_FP_DIGS, 0);
	fprintf(OUT, " a="); fp_print_val(ctx->ed_a);
	fprintf(OUT, " d="); fp_print_val(ctx->ed_d);
	fprintf(OUT, " gx="); fp_print_val(g->x); fprintf(OUT, " gy="); fp_print_val(g->y);
	fprintf(OUT, " n="); raw_print(n->dp, n->used, 0);
	fprintf(OUT, " h="); raw_print(h->dp, h->used, 0);
	fprintf(OUT, " level=%d fpbits=%d", ed_param_level(), (int)FP_PRIME);
	for (int i = 0; i < 4; i++) { fprintf(OUT, " c%d=", i); fp_print_val(ctx->ed_map_c[i]); }
	fputc('\n', OUT);
}

static void eval_ed_map(int withdst, const uint8_t *msg, size_t len, const uint8_t *dst, size_t dlen, int pat, char *out, size_t cap) {
	volatile int caught = 0;
	ed_t p; ed_null(p); ed_new(p);
	memset(p, pat, sizeof(ed_st));
	p->coord = BASIC;
	scribble(pat);
	RLC_TRY { if (withdst) ed_map_dst(p, msg, len, dst, dlen); else ed_map(p, msg, len); } RLC_CATCH_ANY { caught = 1; }
	if (take_err() || caught) snprintf(out, cap, "err"); else ed_sprint(out, cap, p);
}

/* ed_map <msg> ; ed_map_dst <msg> <dst> */
static void op_ed_map(int argc, char **argv) {
	int withdst = !strcmp(argv[0], "ed_map_dst");
	if (argc < 2 + withdst) { fprintf(OUT, "bad-args\n"); return; }
	static uint8_t msg[MSGMAX], dst[MSGMAX];
	static char r1[1024], r2[1024];
	uint8_t drain[7];
	int len = bytes_parse(msg, sizeof(msg), argv[1]);
	int dlen = withdst ? bytes_parse(dst, sizeof(dst), argv[2]) : 0;
	eval_ed_map(withdst, msg, len, dst, dlen, 0x00, r1, sizeof(r1));
	RLC_TRY { rand_bytes(drain, sizeof(drain)); } RLC_CATCH_ANY { }
	take_err();
	eval_ed_map(withdst, msg, len, dst, dlen, 0xC3, r2, sizeof(r2));
	fprintf(OUT, "%s", r1);
	if (strcmp(r1, r2)) fprintf(OUT, " NONDET(%s)", r2);
	fputc('\n', OUT);
}
/* ed_ell2 <u> : the map from a field element (exported by the library, not declared in its headers) */
void ed_map_ell2_5mod8(ed_t p, fp_t t);
static void op_ed_ell2(int argc, char **argv) {
	if (argc < 2) { fprintf(OUT, "bad-args\n"); return; }
	static char r[2][1024];
	for (int k = 0; k < 2; k++) {
		volatile int caught = 0;
		raw_t rr; bn_t t; fp_t u; ed_t p;
		bn_null(t); bn_new(t); fp_null(u); fp_new(u); ed_null(p); ed_new(p);
		raw_parse(&rr, argv[1]); raw_to_bn(t, &rr);
		if (bn_is_zero(t)) fp_zero(u); else fp_prime_conv(u, t);
		memset(p, k ? 0xC3 : 0x00, sizeof(ed_st));
		scribble(k ? 0xC3 : 0x00);
		RLC_TRY { ed_map_ell2_5mod8(p, u); } RLC_CATCH_ANY { caught = 1; }
		if (take_err() || caught) snprintf(r[k], sizeof(r[k]), "err"); else ed_sprint(r[k], sizeof(r[k]), p);
	}
	fprintf(OUT, "%s", r[0]);
	if (strcmp(r[0], r[1])) fprintf(OUT, " NONDET(%s)", r[1]);
	fputc('\n', OUT);
}
#define ED_MAP_OPS {"ed_map_param", op_ed_map_param}, {"ed_map", op_ed_map}, {"ed_map_dst", op_ed_map}, {"ed_ell2", op_ed_ell2},
#else
#define ED_MAP_OPS
#endif


/* ------------------------------------------------------------------------------------------------------------------ */
#if defined(WITH_EPX) && defined(WITH_EP)
#include "relic_epx.h"

static void fp2_out(const fp2_t a) { fp_print_val(a[0]); fputc(':', OUT); fp_print_val(a[1]); }

static void ep2_sprint(char *dst, size_t cap, const ep2_t p) {
	if (ep2_is_infty(p)) { snprintf(dst, cap, "inf"); return; }
	ep2_t t; ep2_null(t); ep2_new(t);
	ep2_norm(t, p);
	FILE *save = OUT; char *mem = NULL; size_t msz = 0;
	OUT = open_memstream(&mem, &msz);
	fp2_out(t->x); fputc(',', OUT); fp2_out(t->y);
	fclose(OUT); OUT = save;
	snprintf(dst, cap, "%s", mem);
	free(mem);
}

/* ep2_map_param <id> <D|M> : y^2 = x^3 + a x + b over Fp2 = Fp[u]/(u^2 - qnr); elements as c0:c1 */
static void op_ep2_map_param(int argc, char **argv) {
	if (argc < 3) { fprintf(OUT, "bad-args\n"); return; }
	int id = parse_int(argv[1]);
	volatile int caught = 0;
	RLC_TRY { ep_param_set(id); ep2_curve_set_twist(argv[2][0] == 'M' ? RLC_EP_MTYPE : RLC_EP_DTYPE); } RLC_CATCH_ANY { caught = 1; }
	if (take_err() || caught) { fprintf(OUT, "err\n"); return; }
	ctx_t *ctx = core_get();
	ep2_t g; bn_t n, h, par; ep2_null(g); ep2_new(g); bn_null(n); bn_new(n); bn_null(h); bn_new(h); bn_null(par); bn_new(par);
	ep2_curve_get_gen(g); ep2_curve_get_ord(n); ep2_curve_get_cof(h);
	ep2_norm(g, g);
	fp_prime_get_par(par);
	fprintf(OUT, "ep2_map_param id=%d type=%c p=", id, argv[2][0] == 'M' ? 'M' : 'D');
	raw_print(fp_prime_get(), RLC_FP_DIGS, 0);
	fprintf(OUT, " qnr=%d", fp_prime_get_qnr());
	fprintf(OUT, " a="); fp2_out(ep2_curve_get_a());
	fprintf(OUT, " b="); fp2_out(ep2_curve_get_b());
	fprintf(OUT, " gx="); fp2_out(g->x); fprintf(OUT, " gy="); fp2_out(g->y);
	fprintf(OUT, " n="); raw_print(n->dp, n->used, 0);
	fprintf(OUT, " h="); raw_print(h->dp, h->used, 0);
	fprintf(OUT, " par="); raw_print(par->dp, par->used, par->sign == RLC_NEG);
	fprintf(OUT, " pairf=%d level=%d fpbits=%d ctmap=%d twist=%d", ep_curve_is_pairf(), ep_param_level(), (int)FP_PRIME, ep2_curve_is_ctmap(),
		ep2_curve_is_twist());
#if EP_MAP == BASIC
	fprintf(OUT, " mapalg=basic");
#elif EP_MAP == SSWUM
	fprintf(OUT, " mapalg=sswum");
#elif EP_MAP == SWIFT
	fprintf(OUT, " mapalg=swift");
#endif
	fprintf(OUT, " mapu="); fp2_out(ctx->ep2_map_u);
	for (int i = 0; i < 4; i++) { fprintf(OUT, " c%d=", i); fp2_out(ctx->ep2_map_c[i]); }
	fprintf(OUT, " frb0="); fp2_out(ctx->ep2_frb[0]); fprintf(OUT, " frb1="); fp2_out(ctx->ep2_frb[1]);
#ifdef EP_CTMAP
	if (ep2_curve_is_ctmap()) {
		iso2_t iso = ep2_curve_get_iso();
		fprintf(OUT, " isoa="); fp2_out(iso->a);
		fprintf(OUT, " isob="); fp2_out(iso->b);
		const char *nm[4] = {"xn", "xd", "yn", "yd"};
		fp2_t *cf[4] = {iso->xn, iso->xd, iso->yn, iso->yd};
		int dg[4] = {iso->deg_xn, iso->deg_xd, iso->deg_yn, iso->deg_yd};
		for (int k = 0; k < 4; k++) {
			fprintf(OUT, " %s=", nm[k]);
			for (int i = 0; i <= dg[k] && i < RLC_EPX_CTMAP_MAX; i++) { if (i) fputc(',', OUT); fp2_out(cf[k][i]); }
		}
	}
#endif
	fputc('\n', OUT);
}

static int eval_ep2_map(const char *v, const uint8_t *msg, size_t len, int pat, char *out, size_t cap) {
	volatile int caught = 0;
	int vi = ep_map_variant(v);
	if (vi < 0 || vi > 3) return 0;
	ep2_t p; ep2_null(p); ep2_new(p);
	memset(p, pat, sizeof(ep2_st));
	p->coord = BASIC;
	scribble(pat);
	RLC_TRY {
		switch (vi) {
			case 0: ep2_map(p, msg, len); break;
			case 1: ep2_map_basic(p, msg, len); break;
			case 2: ep2_map_sswum(p, msg, len); break;
			case 3: ep2_map_swift(p, msg, len); break;
		}
	} RLC_CATCH_ANY { caught = 1; }
	if (take_err() || caught) snprintf(out, cap, "err"); else ep2_sprint(out, cap, p);
	return 1;
}

/* ep2_map <map|basic|sswum|swift> <msg> */
static void op_ep2_map(int argc, char **argv) {
	if (argc < 3) { fprintf(OUT, "bad-args\n"); return; }
	static uint8_t msg[MSGMAX];
	static char r1[2048], r2[2048];
	uint8_t drain[7];
	int len = bytes_parse(msg, sizeof(msg), argv[2]);
	if (!eval_ep2_map(argv[1], msg, len, 0x00, r1, sizeof(r1))) { fprintf(OUT, "unknown-ep2_map %s\n", argv[1]); return; }
	RLC_TRY { rand_bytes(drain, sizeof(drain)); } RLC_CATCH_ANY { }
	take_err();
	eval_ep2_map(argv[1], msg, len, 0xC3, r2, sizeof(r2));
	fprintf(OUT, "%s", r1);
	if (strcmp(r1, r2)) fprintf(OUT, " NONDET(%s)", r2);
	fputc('\n', OUT);
}
#define EP2_MAP_OPS {"ep2_map_param", op_ep2_map_param}, {"ep2_map", op_ep2_map},
#else
#define EP2_MAP_OPS
#endif

const op_t ops_map[] = {
	{"ep_map_param", op_ep_map_param}, {"ep_map", op_ep_map}, {"ep_map_rnd", op_ep_map_rnd},
	EB_MAP_OPS
	ED_MAP_OPS
	EP2_MAP_OPS
	{NULL, NULL}
};
