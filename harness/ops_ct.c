/* Constant-time operations of the line protocol (property C20).
 *
 * ct_prim <copy|swap|cmp|ucmp> <bit> <n> <c digits> <a digits>   digits: comma separated hex, '.' = none
 *     calls the real dv_copy_sec / dv_swap_sec / dv_cmp_sec / util_cmp_sec on caller arrays with guard words.
 * ct_trace <algorithm> <args…>
 *     runs a ladder / regular-recoding routine of the library and prints the sequence of group-level calls it made
 *     (one token per call, recorded by linker-level interposition: the oracle is linked with -Wl,--wrap=<fn> for
 *     every function listed in tools/props/c20.py WRAPS, so that calls from the library's own object files to these
 *     functions pass through the __wrap_ functions below; nested calls are not recorded), then the result.
 */
#include "oracle.h"
#include "relic_ep.h"
#include "relic_epx.h"
#include "relic_eb.h"
#include "relic_fb.h"

static char LOG[1 << 17];
static int LN, DEPTH, ON;

static void lg(char c) { if (ON && DEPTH == 0 && LN < (int)sizeof(LOG) - 1) LOG[LN++] = c; }

#define WRAP(tok, name, proto, args) \
	void __real_##name proto; \
	void __wrap_##name proto { lg(tok); DEPTH++; __real_##name args; DEPTH--; }

WRAP('A', ep_add_basic, (ep_t r, const ep_t p, const ep_t q), (r, p, q))
WRAP('A', ep_add_projc, (ep_t r, const ep_t p, const ep_t q), (r, p, q))
WRAP('A', ep_add_jacob, (ep_t r, const ep_t p, const ep_t q), (r, p, q))
WRAP('D', ep_dbl_basic, (ep_t r, const ep_t p), (r, p))
WRAP('D', ep_dbl_projc, (ep_t r, const ep_t p), (r, p))
WRAP('D', ep_dbl_jacob, (ep_t r, const ep_t p), (r, p))
WRAP('N', ep_neg, (ep_t r, const ep_t p), (r, p))
WRAP('U', ep_sub, (ep_t r, const ep_t p, const ep_t q), (r, p, q))
WRAP('Z', ep_norm, (ep_t r, const ep_t p), (r, p))
WRAP('B', ep_blind, (ep_t r, const ep_t p), (r, p))
WRAP('T', ep_tab, (ep_t *t, const ep_t p, int w), (t, p, w))
WRAP('P', ep_psi, (ep_t r, const ep_t p), (r, p))
WRAP('s', dv_swap_sec, (dig_t *c, dig_t *a, size_t digits, dig_t bit), (c, a, digits, bit))
WRAP('c', dv_copy_sec, (dig_t *c, const dig_t *a, size_t digits, dig_t bit), (c, a, digits, bit))
WRAP('r', bn_rec_reg, (int8_t *naf, size_t *len, const bn_t k, size_t n, size_t w), (naf, len, k, n, w))
WRAP('g', bn_rec_glv, (bn_t k0, bn_t k1, const bn_t k, const bn_t n, const bn_t *v1, const bn_t *v2), (k0, k1, k, n, v1, v2))
WRAP('M', bn_mul_basic, (bn_t c, const bn_t a, const bn_t b), (c, a, b))
WRAP('M', bn_mul_comba, (bn_t c, const bn_t a, const bn_t b), (c, a, b))
WRAP('M', bn_mul_karat, (bn_t c, const bn_t a, const bn_t b), (c, a, b))
WRAP('Q', bn_sqr_basic, (bn_t c, const bn_t a), (c, a))
WRAP('Q', bn_sqr_comba, (bn_t c, const bn_t a), (c, a))
WRAP('Q', bn_sqr_karat, (bn_t c, const bn_t a), (c, a))
WRAP('R', bn_mod_monty_basic, (bn_t c, const bn_t a, const bn_t m, const bn_t u), (c, a, m, u))
WRAP('R', bn_mod_monty_comba, (bn_t c, const bn_t a, const bn_t m, const bn_t u), (c, a, m, u))
WRAP('R', bn_mod_barrt, (bn_t c, const bn_t a, const bn_t m, const bn_t u), (c, a, m, u))
WRAP('R', bn_mod_pmers, (bn_t c, const bn_t a, const bn_t m, const bn_t u), (c, a, m, u))
WRAP('V', bn_mod_monty_conv, (bn_t c, const bn_t a, const bn_t m), (c, a, m))
WRAP('W', bn_mod_monty_back, (bn_t c, const bn_t a, const bn_t m), (c, a, m))
WRAP('m', fp_mul_basic, (fp_t c, const fp_t a, const fp_t b), (c, a, b))
WRAP('m', fp_mul_comba, (fp_t c, const fp_t a, const fp_t b), (c, a, b))
WRAP('m', fp_mul_integ, (fp_t c, const fp_t a, const fp_t b), (c, a, b))
WRAP('m', fp_mul_karat, (fp_t c, const fp_t a, const fp_t b), (c, a, b))
WRAP('q', fp_sqr_basic, (fp_t c, const fp_t a), (c, a))
WRAP('q', fp_sqr_comba, (fp_t c, const fp_t a), (c, a))
WRAP('q', fp_sqr_integ, (fp_t c, const fp_t a), (c, a))
WRAP('q', fp_sqr_karat, (fp_t c, const fp_t a), (c, a))
WRAP('m', fb_mul_basic, (fb_t c, const fb_t a, const fb_t b), (c, a, b))
WRAP('m', fb_mul_integ, (fb_t c, const fb_t a, const fb_t b), (c, a, b))
WRAP('m', fb_mul_lodah, (fb_t c, const fb_t a, const fb_t b), (c, a, b))
WRAP('m', fb_mul_karat, (fb_t c, const fb_t a, const fb_t b), (c, a, b))
WRAP('q', fb_sqr_basic, (fb_t c, const fb_t a), (c, a))
WRAP('q', fb_sqr_integ, (fb_t c, const fb_t a), (c, a))
WRAP('q', fb_sqr_quick, (fb_t c, const fb_t a), (c, a))
WRAP('A', ep2_add_basic, (ep2_t r, const ep2_t p, const ep2_t q), (r, p, q))
WRAP('A', ep2_add_projc, (ep2_t r, const ep2_t p, const ep2_t q), (r, p, q))
WRAP('A', ep2_add_jacob, (ep2_t r, const ep2_t p, const ep2_t q), (r, p, q))
WRAP('D', ep2_dbl_basic, (ep2_t r, const ep2_t p), (r, p))
WRAP('D', ep2_dbl_projc, (ep2_t r, const ep2_t p), (r, p))
WRAP('D', ep2_dbl_jacob, (ep2_t r, const ep2_t p), (r, p))
WRAP('N', ep2_neg, (ep2_t r, const ep2_t p), (r, p))
WRAP('U', ep2_sub, (ep2_t r, const ep2_t p, const ep2_t q), (r, p, q))
WRAP('Z', ep2_norm, (ep2_t r, const ep2_t p), (r, p))
WRAP('B', ep2_blind, (ep2_t r, const ep2_t p), (r, p))
WRAP('T', ep2_tab, (ep2_t *t, const ep2_t p, int w), (t, p, w))
WRAP('F', ep2_frb, (ep2_t r, const ep2_t p, int i), (r, p, i))

#include "relic_fpx.h"
#include "relic_pc.h"
WRAP('m', fp12_mul_basic, (fp12_t c, const fp12_t a, const fp12_t b), (c, a, b))
WRAP('m', fp12_mul_lazyr, (fp12_t c, const fp12_t a, const fp12_t b), (c, a, b))
WRAP('q', fp12_sqr_basic, (fp12_t c, const fp12_t a), (c, a))
WRAP('q', fp12_sqr_lazyr, (fp12_t c, const fp12_t a), (c, a))
WRAP('y', fp12_sqr_cyc_basic, (fp12_t c, const fp12_t a), (c, a))
WRAP('y', fp12_sqr_cyc_lazyr, (fp12_t c, const fp12_t a), (c, a))
WRAP('k', fp12_sqr_pck_basic, (fp12_t c, const fp12_t a), (c, a))
WRAP('k', fp12_sqr_pck_lazyr, (fp12_t c, const fp12_t a), (c, a))
WRAP('F', fp12_frb, (fp12_t c, const fp12_t a, int i), (c, a, i))
WRAP('i', fp12_inv_cyc, (fp12_t c, const fp12_t a), (c, a))
WRAP('b', fp12_back_cyc, (fp12_t c, const fp12_t a), (c, a))
#ifdef ORACLE_CT_ED
#include "relic_ed.h"
WRAP('A', ed_add_basic, (ed_t r, const ed_t p, const ed_t q), (r, p, q))
WRAP('A', ed_add_projc, (ed_t r, const ed_t p, const ed_t q), (r, p, q))
WRAP('A', ed_add_extnd, (ed_t r, const ed_t p, const ed_t q), (r, p, q))
WRAP('U', ed_sub_basic, (ed_t r, const ed_t p, const ed_t q), (r, p, q))
WRAP('U', ed_sub_projc, (ed_t r, const ed_t p, const ed_t q), (r, p, q))
WRAP('U', ed_sub_extnd, (ed_t r, const ed_t p, const ed_t q), (r, p, q))
WRAP('D', ed_dbl_basic, (ed_t r, const ed_t p), (r, p))
WRAP('D', ed_dbl_projc, (ed_t r, const ed_t p), (r, p))
WRAP('D', ed_dbl_extnd, (ed_t r, const ed_t p), (r, p))
WRAP('N', ed_neg_basic, (ed_t r, const ed_t p), (r, p))
WRAP('N', ed_neg_projc, (ed_t r, const ed_t p), (r, p))
WRAP('Z', ed_norm, (ed_t r, const ed_t p), (r, p))
WRAP('B', ed_blind, (ed_t r, const ed_t p), (r, p))
WRAP('T', ed_tab, (ed_t *t, const ed_t p, int w), (t, p, w))
#endif

void ep_tok(ep_t p, const char *tok);
void ep_out(const ep_t p);

static int parse_digs(dig_t *d, int max, char *s) {
	int n = 0;
	if (s[0] == '.') return 0;
	for (char *q = strtok(s, ","); q && n < max; q = strtok(NULL, ",")) d[n++] = (dig_t)strtoull(q, NULL, 16);
	return n;
}
static void print_digs(const dig_t *d, int n) {
	if (n == 0) { fputc('.', OUT); return; }
	for (int i = 0; i < n; i++) fprintf(OUT, "%s%llx", i ? "," : "", (unsigned long long)d[i]);
}

#define PMAX 64
static void op_ct_prim(int argc, char **argv) {
	if (argc < 6) { fprintf(OUT, "bad-args\n"); return; }
	dig_t c[PMAX + 4], a[PMAX + 4];
	dig_t bit = (dig_t)strtoull(argv[2], NULL, 16);
	int n = parse_int(argv[3]);
	const dig_t G = (dig_t)0x5A5A5A5A5A5A5A5AULL;
	for (int i = 0; i < PMAX + 4; i++) c[i] = a[i] = G;
	char b1[4096], b2[4096];
	strncpy(b1, argv[4], sizeof(b1) - 1); b1[sizeof(b1) - 1] = 0;
	strncpy(b2, argv[5], sizeof(b2) - 1); b2[sizeof(b2) - 1] = 0;
	int nc = parse_digs(c + 2, PMAX, b1), na = parse_digs(a + 2, PMAX, b2);
	if (n < 0 || n > PMAX || nc < n || na < n) { fprintf(OUT, "bad-args\n"); return; }
	const char *f = argv[1];
	ON = 0;
	if (!strcmp(f, "copy")) { dv_copy_sec(c + 2, a + 2, n, bit); print_digs(c + 2, nc); fputc(' ', OUT); print_digs(a + 2, na); }
	else if (!strcmp(f, "swap")) { dv_swap_sec(c + 2, a + 2, n, bit); print_digs(c + 2, nc); fputc(' ', OUT); print_digs(a + 2, na); }
	else if (!strcmp(f, "cmp")) { fprintf(OUT, "%d", dv_cmp_sec(c + 2, a + 2, n)); }
	else if (!strcmp(f, "ucmp")) {
		uint8_t x[PMAX], y[PMAX];
		for (int i = 0; i < n; i++) { x[i] = (uint8_t)c[2 + i]; y[i] = (uint8_t)a[2 + i]; }
		fprintf(OUT, "%d", util_cmp_sec(x, y, n));
	}
	else { fprintf(OUT, "unknown-prim\n"); return; }
	if (c[0] != G || c[1] != G || a[0] != G || a[1] != G || c[2 + nc] != G || a[2 + na] != G) fprintf(OUT, " WROTE-OUTSIDE");
	fputc('\n', OUT);
}

static void start(void) { LN = 0; DEPTH = 0; ON = 1; }
static void stop(void) { ON = 0; LOG[LN] = 0; }

/* ct_trace ep_monty|ep_lwreg <P> <k>           (needs an ep_param context line)
 * ct_trace ep2_monty|ep2_lwreg <j> <k>        Q = j * G2; prints eq=1 if the result equals ep2_mul_basic
 * ct_trace eb_lodah <ebid> <j> <k>            P = j * G on binary curve <ebid>
 * ct_trace bn_mxp <a> <e> <m>  | fp_exp <a> <e> | fb_exp <a-hex-bytes> <e> */
static void op_ct_trace(int argc, char **argv) {
	if (argc < 4) { fprintf(OUT, "bad-args\n"); return; }
	const char *f = argv[1];
	int caught = 0;
	raw_t r;
	bn_t k; bn_null(k); bn_new(k);
	if (!strcmp(f, "ep_monty") || !strcmp(f, "ep_lwreg")) {
		ep_t p, c; ep_null(p); ep_null(c); ep_new(p); ep_new(c);
		ep_tok(p, argv[2]); raw_parse(&r, argv[3]); raw_to_bn(k, &r);
		start();
		RLC_TRY { if (f[3] == 'm') ep_mul_monty(c, p, k); else ep_mul_lwreg(c, p, k); } RLC_CATCH_ANY { caught = 1; }
		stop();
		if (take_err() || caught) { fprintf(OUT, "err\n"); return; }
		fprintf(OUT, "%s ", LN ? LOG : "-"); ep_out(c);
		if (f[3] != 'm') fprintf(OUT, " width=%d", (int)RLC_WIDTH);
		fputc('\n', OUT);
	} else if (!strcmp(f, "ep2_monty") || !strcmp(f, "ep2_lwreg")) {
		ep2_t p, c, d; bn_t j, n; ep2_null(p); ep2_null(c); ep2_null(d); ep2_new(p); ep2_new(c); ep2_new(d); bn_null(j); bn_new(j); bn_null(n); bn_new(n);
		RLC_TRY {
			static int twist_for = -1;
			if (ep2_curve_is_twist() == 0 || twist_for != ep_param_get()) {
				twist_for = ep_param_get();
				/* ep_param_set alone does not install the twist; the pairing setup does it with the type of the family */
				ep2_curve_set_twist(RLC_EP_DTYPE);
				ep2_curve_get_gen(p);
				if (!ep2_on_curve(p)) { ep2_curve_set_twist(RLC_EP_MTYPE); ep2_curve_get_gen(p); }
				if (!ep2_on_curve(p)) { fprintf(OUT, "no-twist\n"); return; }
			}
			raw_parse(&r, argv[2]); raw_to_bn(j, &r); raw_parse(&r, argv[3]); raw_to_bn(k, &r);
			ep2_curve_get_gen(p); ep2_mul_basic(p, p, j);
			start();
			if (f[4] == 'm') ep2_mul_monty(c, p, k); else ep2_mul_lwreg(c, p, k);
			stop();
			ep2_curve_get_ord(n); bn_mod(j, k, n); ep2_mul_basic(d, p, j);
		} RLC_CATCH_ANY { caught = 1; }
		stop();
		if (take_err() || caught) { fprintf(OUT, "err\n"); return; }
		fprintf(OUT, "%s eq=%d\n", LN ? LOG : "-", ep2_cmp(c, d) == RLC_EQ);
	} else if (!strcmp(f, "eb_lodah")) {
		if (argc < 5) { fprintf(OUT, "bad-args\n"); return; }
		eb_t p, c, d; bn_t j, n; eb_null(p); eb_null(c); eb_null(d); eb_new(p); eb_new(c); eb_new(d); bn_null(j); bn_new(j); bn_null(n); bn_new(n);
		RLC_TRY {
			eb_param_set(parse_int(argv[2]));
			raw_parse(&r, argv[3]); raw_to_bn(j, &r); raw_parse(&r, argv[4]); raw_to_bn(k, &r);
			eb_curve_get_gen(p); eb_mul_basic(p, p, j);
			start();
			eb_mul_lodah(c, p, k);
			stop();
			eb_mul_basic(d, p, k);
		} RLC_CATCH_ANY { caught = 1; }
		stop();
		if (take_err() || caught) { fprintf(OUT, "err\n"); return; }
		eb_curve_get_ord(n);
		fprintf(OUT, "%s eq=%d nbits=%d optb=%d\n", LN ? LOG : "-", eb_cmp(c, d) == RLC_EQ, (int)bn_bits(n), eb_curve_opt_b());
	} else if (!strcmp(f, "bn_mxp")) {
		if (argc < 5) { fprintf(OUT, "bad-args\n"); return; }
		bn_t a, m, c; bn_null(a); bn_null(m); bn_null(c); bn_new(a); bn_new(m); bn_new(c);
		raw_parse(&r, argv[2]); raw_to_bn(a, &r); raw_parse(&r, argv[3]); raw_to_bn(k, &r); raw_parse(&r, argv[4]); raw_to_bn(m, &r);
		start();
		RLC_TRY { bn_mxp_monty(c, a, k, m); } RLC_CATCH_ANY { caught = 1; }
		stop();
		if (take_err() || caught) { fprintf(OUT, "err\n"); return; }
		fprintf(OUT, "%s ", LN ? LOG : "-"); bn_out(c); fputc('\n', OUT);
	} else if (!strcmp(f, "fp_exp")) {
		fp_t a, c; bn_t t; fp_null(a); fp_null(c); fp_new(a); fp_new(c); bn_null(t); bn_new(t);
		raw_parse(&r, argv[2]); raw_to_bn(t, &r); if (bn_is_zero(t)) fp_zero(a); else fp_prime_conv(a, t);
		raw_parse(&r, argv[3]); raw_to_bn(k, &r);
		start();
		RLC_TRY { fp_exp_monty(c, a, k); } RLC_CATCH_ANY { caught = 1; }
		stop();
		if (take_err() || caught) { fprintf(OUT, "err\n"); return; }
		fp_prime_back(t, c);
		fprintf(OUT, "%s ", LN ? LOG : "-"); bn_out(t); fputc('\n', OUT);
	} else if (!strcmp(f, "fb_exp")) {
		fb_t a, c, d; fb_null(a); fb_null(c); fb_null(d); fb_new(a); fb_new(c); fb_new(d);
		raw_parse(&r, argv[2]);
		fb_zero(a); for (int i = 0; i < RLC_FB_DIGS && i < r.n; i++) a[i] = r.d[i];
		a[RLC_FB_DIGS - 1] &= RLC_MASK(RLC_FB_BITS % RLC_DIG);
		raw_parse(&r, argv[3]); raw_to_bn(k, &r);
		start();
		RLC_TRY { fb_exp_monty(c, a, k); } RLC_CATCH_ANY { caught = 1; }
		stop();
		RLC_TRY { fb_exp_basic(d, a, k); } RLC_CATCH_ANY { caught = 1; }
		if (take_err() || caught) { fprintf(OUT, "err\n"); return; }
		fprintf(OUT, "%s eq=%d\n", LN ? LOG : "-", fb_cmp(c, d) == RLC_EQ);
	} else fprintf(OUT, "unknown-ct %s\n", f);
}

/* ct_rel <fn> <j> <k1> <k2> : the same routine on the same base (generator^j) with two secret scalars of the same public length; prints whether the
 * two operation logs are identical ("same=1") and whether both results agree with the basic algorithm; on a difference the two logs are appended */
static char LOG1[1 << 17];
static void op_ct_rel(int argc, char **argv) {
	if (argc < 5) { fprintf(OUT, "bad-args\n"); return; }
	const char *f = argv[1];
	int caught = 0, n1 = 0, n2 = 0, eq = 0;
	raw_t r; bn_t j, k[2], n; bn_null(j); bn_new(j); bn_null(k[0]); bn_new(k[0]); bn_null(k[1]); bn_new(k[1]); bn_null(n); bn_new(n);
	raw_parse(&r, argv[2]); raw_to_bn(j, &r);
	raw_parse(&r, argv[3]); raw_to_bn(k[0], &r);
	raw_parse(&r, argv[4]); raw_to_bn(k[1], &r);
	RLC_TRY {
		if (!strcmp(f, "gt_exp_sec")) {
			gt_t a, c, d; gt_null(a); gt_new(a); gt_null(c); gt_new(c); gt_null(d); gt_new(d);
			gt_get_gen(a); fp12_exp(a, a, j);
			eq = 1;
			for (int t = 0; t < 2; t++) {
				start(); gt_exp_sec(c, a, k[t]); stop();
				if (t == 0) { memcpy(LOG1, LOG, LN + 1); n1 = LN; } else n2 = LN;
				fp12_exp(d, a, k[t]); eq &= (fp12_cmp(c, d) == RLC_EQ);
			}
		} else if (!strcmp(f, "ep2_lwreg") || !strcmp(f, "g2_mul_sec")) {
			ep2_t p, c, d; ep2_null(p); ep2_new(p); ep2_null(c); ep2_new(c); ep2_null(d); ep2_new(d);
			ep2_curve_get_gen(p); ep2_mul_basic(p, p, j); ep2_curve_get_ord(n);
			eq = 1;
			for (int t = 0; t < 2; t++) {
				start(); if (f[0] == 'e') ep2_mul_lwreg(c, p, k[t]); else g2_mul_sec(c, p, k[t]); stop();
				if (t == 0) { memcpy(LOG1, LOG, LN + 1); n1 = LN; } else n2 = LN;
				bn_mod(j, k[t], n); ep2_mul_basic(d, p, j); eq &= (ep2_cmp(c, d) == RLC_EQ);
			}
		} else if (!strcmp(f, "g1_mul_sec")) {
			ep_t p, c, d; ep_null(p); ep_new(p); ep_null(c); ep_new(c); ep_null(d); ep_new(d);
			ep_curve_get_gen(p); ep_mul_basic(p, p, j); ep_curve_get_ord(n);
			eq = 1;
			for (int t = 0; t < 2; t++) {
				start(); g1_mul_sec(c, p, k[t]); stop();
				if (t == 0) { memcpy(LOG1, LOG, LN + 1); n1 = LN; } else n2 = LN;
				bn_mod(j, k[t], n); ep_mul_basic(d, p, j); eq &= (ep_cmp(c, d) == RLC_EQ);
			}
#ifdef ORACLE_CT_ED
		} else if (!strcmp(f, "ed_monty") || !strcmp(f, "ed_lwreg")) {
			static int edset = 0;
			if (!edset) { ed_param_set_any(); edset = 1; }
			ed_t p, c, d; ed_null(p); ed_new(p); ed_null(c); ed_new(c); ed_null(d); ed_new(d);
			ed_curve_get_gen(p); ed_mul_basic(p, p, j); ed_curve_get_ord(n);
			eq = 1;
			for (int t = 0; t < 2; t++) {
				start(); if (f[3] == 'm') ed_mul_monty(c, p, k[t]); else ed_mul_lwreg(c, p, k[t]); stop();
				if (t == 0) { memcpy(LOG1, LOG, LN + 1); n1 = LN; } else n2 = LN;
				bn_mod(j, k[t], n); ed_mul_basic(d, p, j); eq &= (ed_cmp(c, d) == RLC_EQ);
			}
#endif
		} else { fprintf(OUT, "unknown-ct-rel %s\n", f); return; }
	} RLC_CATCH_ANY { caught = 1; }
	stop();
	if (take_err() || caught) { fprintf(OUT, "err\n"); return; }
	int same = (n1 == n2) && memcmp(LOG1, LOG, n1) == 0;
	fprintf(OUT, "same=%d eq=%d n1=%d n2=%d", same, eq, n1, n2);
	if (!same) { LOG1[n1 > 400 ? 400 : n1] = 0; LOG[n2 > 400 ? 400 : n2] = 0; fprintf(OUT, " log1=%s log2=%s", n1 ? LOG1 : "-", n2 ? LOG : "-"); }
	fputc('\n', OUT);
}

/* ct_scan <fn> <j> <count> <seed> <bits> : the same routine on the same base with <count> pseudo-random secret scalars of exactly <bits>
 * bits (xorshift64* from <seed>): every operation log must equal the first one. Rare value-dependent paths (one scalar in a thousand)
 * show up here; prints "scan=<count> same=1 eq=1" or the first scalar whose log differs together with both log lengths */
static unsigned long long xs_state;
static unsigned long long xs_next(void) {
	xs_state ^= xs_state >> 12; xs_state ^= xs_state << 25; xs_state ^= xs_state >> 27;
	return xs_state * 2685821657736338717ULL;
}
static void op_ct_scan(int argc, char **argv) {
	if (argc < 6) { fprintf(OUT, "bad-args\n"); return; }
	const char *f = argv[1];
	int count = parse_int(argv[3]), bits = parse_int(argv[5]), caught = 0, n1 = 0, eq = 1, same = 1, n2 = 0;
	raw_t r; bn_t j, k, n, bad; bn_null(j); bn_new(j); bn_null(k); bn_new(k); bn_null(n); bn_new(n); bn_null(bad); bn_new(bad);
	raw_parse(&r, argv[2]); raw_to_bn(j, &r);
	xs_state = parse_u64(argv[4]) | 1;
	if (bits < 2 || bits > RLC_BN_BITS - 64 || count < 2) { fprintf(OUT, "bad-args\n"); return; }
	RLC_TRY {
		ep2_t p2, c2, d2; ep2_null(p2); ep2_new(p2); ep2_null(c2); ep2_new(c2); ep2_null(d2); ep2_new(d2);
		ep_t p1, c1, d1; ep_null(p1); ep_new(p1); ep_null(c1); ep_new(c1); ep_null(d1); ep_new(d1);
		gt_t a, c, d; gt_null(a); gt_new(a); gt_null(c); gt_new(c); gt_null(d); gt_new(d);
		int kind = !strcmp(f, "gt_exp_sec") ? 0 : (!strcmp(f, "ep2_lwreg") || !strcmp(f, "g2_mul_sec")) ? 1 : !strcmp(f, "g1_mul_sec") ? 2 : -1;
		if (kind < 0) { fprintf(OUT, "unknown-ct-scan %s\n", f); return; }
		if (kind == 0) { gt_get_gen(a); fp12_exp(a, a, j); pc_get_ord(n); }
		if (kind == 1) { ep2_curve_get_gen(p2); ep2_mul_basic(p2, p2, j); ep2_curve_get_ord(n); }
		if (kind == 2) { ep_curve_get_gen(p1); ep_mul_basic(p1, p1, j); ep_curve_get_ord(n); }
		for (int t = 0; t < count && same; t++) {
			int digs = (bits + RLC_DIG - 1) / RLC_DIG;
			bn_grow(k, digs);
			for (int i = 0; i < digs; i++) k->dp[i] = (dig_t)xs_next();
			k->used = digs; k->sign = RLC_POS;
			if (bits % RLC_DIG) k->dp[digs - 1] &= (((dig_t)1 << (bits % RLC_DIG)) - 1);
			bn_set_bit(k, bits - 1, 1);
			bn_trim(k);
			start();
			if (kind == 0) gt_exp_sec(c, a, k); else if (kind == 1) { if (f[0] == 'e') ep2_mul_lwreg(c2, p2, k); else g2_mul_sec(c2, p2, k); } else g1_mul_sec(c1, p1, k);
			stop();
			if (t == 0) { memcpy(LOG1, LOG, LN + 1); n1 = LN; }
			else if (LN != n1 || memcmp(LOG1, LOG, n1) != 0) { same = 0; n2 = LN; bn_copy(bad, k); }
			/* the value is checked on a sample only (the basic algorithms are slow) */
			if (t < 3 || !same) {
				if (kind == 0) { fp12_exp(d, a, k); eq &= (fp12_cmp(c, d) == RLC_EQ); }
				if (kind == 1) { bn_mod(j, k, n); ep2_mul_basic(d2, p2, j); eq &= (ep2_cmp(c2, d2) == RLC_EQ); }
				if (kind == 2) { bn_mod(j, k, n); ep_mul_basic(d1, p1, j); eq &= (ep_cmp(c1, d1) == RLC_EQ); }
			}
		}
	} RLC_CATCH_ANY { caught = 1; }
	stop();
	if (take_err() || caught) { fprintf(OUT, "err\n"); return; }
	fprintf(OUT, "scan=%d same=%d eq=%d n1=%d", count, same, eq, n1);
	if (!same) { fprintf(OUT, " n2=%d k=", n2); bn_out(bad); }
	fputc('\n', OUT);
}

const op_t ops_ct[] = {
	{"ct_rel", op_ct_rel}, {"ct_scan", op_ct_scan},
	{"ct_prim", op_ct_prim}, {"ct_trace", op_ct_trace},
	{NULL, NULL}
};
