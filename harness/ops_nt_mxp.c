/* further number-theoretic ops (C09 extension, exponentiation family): linked through ORACLE_EXTRA2. */
#include "oracle.h"

const op_t ops_nt_mxp[] = {
	{NULL, NULL}
};
