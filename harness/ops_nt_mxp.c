/* further number-theoretic ops (C09 extension, exponentiation family): linked through ORACLE_EXTRA2. */
#include "oracle.h"

static void tok_bn(bn_t x, const char *tok) { raw_t r; raw_parse(&r, tok); raw_to_bn(x, &r); }

#define NEW(x) bn_null(x); bn_new(x)

/* nt_mxp_crt <a> <dp> <dq> <p> <q> <sqr> : bn_mxp_crt(d, a, dp, dq, crt, sqr) with crt = {p, q, dp, dq, qi = q^-1 mod p, n = p*q};
 * prints "err" when the inverse of q modulo p does not exist (bn_mod_inv reports it) or the exponentiation reports an error */
static void op_nt_mxp_crt(int argc, char **argv) {
	if (argc < 7) { fprintf(OUT, "bad-args\n"); return; }
	bn_t a, dp, dq, d; crt_t crt; int caught = 0;
	int sqr = atoi(argv[6]) != 0;
	NEW(a); NEW(dp); NEW(dq); NEW(d);
	crt_null(crt);
	RLC_TRY {
		crt_new(crt);
		tok_bn(a, argv[1]); tok_bn(dp, argv[2]); tok_bn(dq, argv[3]);
		tok_bn(crt->p, argv[4]); tok_bn(crt->q, argv[5]);
		bn_copy(crt->dp, dp); bn_copy(crt->dq, dq);
		bn_mul(crt->n, crt->p, crt->q);
		bn_mod_inv(crt->qi, crt->q, crt->p);
	} RLC_CATCH_ANY { caught = 1; }
	if (take_err() || caught) { fprintf(OUT, "err\n"); crt_free(crt); return; }
	RLC_TRY { bn_mxp_crt(d, a, dp, dq, crt, sqr); } RLC_CATCH_ANY { caught = 1; }
	if (take_err() || caught) fprintf(OUT, "err"); else bn_out(d);
	fputc('\n', OUT);
	crt_free(crt);
}

/* nt_mxp_few <c0> <m> <a0> <b0> <a1> <b1> ... : bn_mxp_sim_few(c, a, b, m, n) with c holding c0 before the call (n = 0 leaves c untouched);
 * up to 9 pairs are accepted so that the n > 8 refusal can be presented */
static void op_nt_mxp_few(int argc, char **argv) {
	if (argc < 3 || ((argc - 3) & 1) || (argc - 3) / 2 > 9) { fprintf(OUT, "bad-args\n"); return; }
	size_t n = (size_t)(argc - 3) / 2;
	bn_t a[10], b[10], c, m; int caught = 0;
	NEW(c); NEW(m);
	for (size_t i = 0; i < 10; i++) { NEW(a[i]); NEW(b[i]); }
	tok_bn(c, argv[1]); tok_bn(m, argv[2]);
	for (size_t i = 0; i < n; i++) { tok_bn(a[i], argv[3 + 2 * i]); tok_bn(b[i], argv[4 + 2 * i]); }
	RLC_TRY { bn_mxp_sim_few(c, (const bn_t *)a, (const bn_t *)b, m, n); } RLC_CATCH_ANY { caught = 1; }
	if (take_err() || caught) fprintf(OUT, "err"); else bn_out(c);
	fputc('\n', OUT);
}

/* nt_mxp_lot <m> <a0> <b0> <a1> <b1> ... : bn_mxp_sim_lot(c, a, b, m, n), up to 20 pairs */
static void op_nt_mxp_lot(int argc, char **argv) {
	if (argc < 2 || ((argc - 2) & 1) || (argc - 2) / 2 > 20) { fprintf(OUT, "bad-args\n"); return; }
	size_t n = (size_t)(argc - 2) / 2;
	bn_t a[21], b[21], c, m; int caught = 0;
	NEW(c); NEW(m);
	for (size_t i = 0; i < 21; i++) { NEW(a[i]); NEW(b[i]); }
	tok_bn(m, argv[1]);
	for (size_t i = 0; i < n; i++) { tok_bn(a[i], argv[2 + 2 * i]); tok_bn(b[i], argv[3 + 2 * i]); }
	RLC_TRY { bn_mxp_sim_lot(c, (const bn_t *)a, (const bn_t *)b, m, n); } RLC_CATCH_ANY { caught = 1; }
	if (take_err() || caught) fprintf(OUT, "err"); else bn_out(c);
	fputc('\n', OUT);
}

const op_t ops_nt_mxp[] = {
	{"nt_mxp_lot", op_nt_mxp_lot},
	{"nt_mxp_few", op_nt_mxp_few},
	{"nt_mxp_crt", op_nt_mxp_crt},
	{NULL, NULL}
};
