/* Allocation-failure enumeration (property C08, "every allocation-failure point when built with dynamic allocation").
 *
 * Linked with -Wl,--wrap=malloc,--wrap=calloc,--wrap=realloc,--wrap=posix_memalign against a library built with
 * -DALLOC=DYNAMIC and the sanitizers.  One line
 *
 *     af <fn> <x> <y> <z>
 *
 * builds the operands of the library function <fn> from the three hex integers (outside the injection window), runs the call
 * once to count its allocations (n) and to get the reference output, and then, for each allocation index i (all of them up to
 * AF_ALL, a stride above that):
 *   - runs the call with the i-th allocation failing; the failure must be *reported* (an exception reaches the caller or the
 *     sticky error code is set) — or, if it is not, the output must be the reference output (the failure was absorbed);
 *   - runs the call again with no failure: the output must be the reference output ("the library remains usable afterwards").
 * Every access to freed or never-allocated storage on the failure path stops the process with a sanitizer report (a CRASH
 * line for the check).  Output:
 *
 *     n=<allocations> tested=<t> fired=<f> reported=<r> absorbed=<a> silent=<s> usable=<u> first=<index of the first problem or 0> ref=<reference output>
 */
#include "oracle.h"
#include <errno.h>

void *__real_malloc(size_t);
void *__real_calloc(size_t, size_t);
void *__real_realloc(void *, size_t);
int __real_posix_memalign(void **, size_t, size_t);

static volatile int af_on = 0;
static volatile long af_count = 0, af_fail_at = 0, af_fired = 0;

static int af_hit(void) {
	if (!af_on) return 0;
	af_count++;
	if (af_fail_at != 0 && af_count == af_fail_at) { af_fired++; return 1; }
	return 0;
}

void *__wrap_malloc(size_t n) { if (af_hit()) { errno = ENOMEM; return NULL; } return __real_malloc(n); }
void *__wrap_calloc(size_t a, size_t b) { if (af_hit()) { errno = ENOMEM; return NULL; } return __real_calloc(a, b); }
void *__wrap_realloc(void *p, size_t n) { if (af_hit()) { errno = ENOMEM; return NULL; } return __real_realloc(p, n); }
int __wrap_posix_memalign(void **p, size_t al, size_t n) { if (af_hit()) return ENOMEM; return __real_posix_memalign(p, al, n); }

/* ---- operands and results, allocated once per line outside the injection window ---- */
#define AF_NB 6
#define AF_NSIM 5
static bn_t B[AF_NB], R[4], BB[2];   /* BB: operands beyond the initial capacity (ALLOC=DYNAMIC grows them with realloc) */
static ep_t P[AF_NSIM], RP;
static ep2_t P2[2], RP2;
static eb_t PB[2], RPB;
static bn_t K[AF_NSIM];
static ep_t TAB[1 << 8];
static uint8_t IN[512], OUTB[2048];
static size_t in_len, out_len;
static int8_t REC[8 * RLC_BN_BITS + 16];
static size_t rec_len;
static int RC, RC2, VER, REFVER = -99;
static rsa_t PUB, PRV;
static int have_rsa = 0;
static uint8_t SEED[64];

static void results_reset(void) {
	for (int i = 0; i < 4; i++) bn_zero(R[i]);
	ep_set_infty(RP);
	memset(OUTB, 0, sizeof(OUTB)); out_len = 0;
	memset(REC, 0, sizeof(REC)); rec_len = 0;
	RC = RC2 = VER = -99;
}

static void results_print(FILE *f) {
	FILE *save = OUT; OUT = f;
	for (int i = 0; i < 4; i++) { bn_out(R[i]); fputc(',', OUT); }
	if (ep_is_infty(RP)) fprintf(OUT, "inf"); else {
		ep_t t; ep_null(t); ep_new(t); ep_norm(t, RP);
		uint8_t bin[2 * RLC_FP_BYTES + 1]; ep_write_bin(bin, sizeof(bin), t, 0); bytes_print(bin, sizeof(bin)); ep_free(t);
	}
	fputc(',', OUT); bytes_print(OUTB, (int)(out_len > sizeof(OUTB) ? sizeof(OUTB) : out_len));
	fputc(',', OUT);
	if (rec_len == 0) fputc('.', OUT);
	for (size_t i = 0; i < rec_len && i < sizeof(REC); i++) fprintf(OUT, "%02x", (uint8_t)REC[i]);
	fprintf(OUT, ",rc=%d,%d,%d", RC, RC2, VER);
	OUT = save;
}

/* the library call under test; everything it needs was prepared before */
static int af_call(const char *fn) {
	if (!strcmp(fn, "bn_mul")) bn_mul(R[0], B[0], B[1]);
	else if (!strcmp(fn, "bn_mul_karat")) bn_mul_karat(R[0], B[0], B[1]);
	else if (!strcmp(fn, "bn_sqr")) bn_sqr(R[0], B[0]);
	else if (!strcmp(fn, "bn_add")) bn_add(R[0], B[0], B[1]);
	else if (!strcmp(fn, "bn_lsh")) bn_lsh(R[0], B[0], (int)(B[1]->dp[0] % (RLC_BN_BITS / 2)));
	/* results beyond the initial RLC_BN_SIZE digits: the result objects keep their storage between the runs of one line, so a failed
	 * growth must leave them consistent for the next run */
	else if (!strcmp(fn, "bn_lsh_big")) bn_lsh(R[0], B[0], 2300 + (int)(B[1]->dp[0] % 200));
	else if (!strcmp(fn, "bn_mul_big")) bn_mul(R[0], BB[0], BB[1]);
	else if (!strcmp(fn, "bn_sqr_big")) bn_sqr(R[0], BB[0]);
	else if (!strcmp(fn, "bn_add_big")) { bn_copy(R[0], B[1]); bn_add(R[0], R[0], BB[0]); }
	else if (!strcmp(fn, "bn_div_big")) bn_div_rem(R[0], R[1], BB[0], B[2]);
	else if (!strcmp(fn, "bn_div_rem")) bn_div_rem(R[0], R[1], B[0], B[2]);
	else if (!strcmp(fn, "bn_mod")) bn_mod(R[0], B[0], B[2]);
	else if (!strcmp(fn, "bn_mod_barrt")) { bn_mod_pre_barrt(R[1], B[2]); bn_mod_barrt(R[0], B[0], B[2], R[1]); }
	else if (!strcmp(fn, "bn_mod_monty")) { bn_mod_pre_monty(R[1], B[2]); bn_mod_monty_conv(R[2], B[1], B[2]); bn_mod_monty(R[0], R[2], B[2], R[1]); }
	else if (!strcmp(fn, "bn_mxp_basic")) bn_mxp_basic(R[0], B[0], B[1], B[2]);
	else if (!strcmp(fn, "bn_mxp_slide")) bn_mxp_slide(R[0], B[0], B[1], B[2]);
	else if (!strcmp(fn, "bn_mxp_monty")) bn_mxp_monty(R[0], B[0], B[1], B[2]);
	else if (!strcmp(fn, "bn_mxp_dig")) bn_mxp_dig(R[0], B[0], B[1]->dp[0], B[2]);
	else if (!strcmp(fn, "bn_gcd_basic")) bn_gcd_basic(R[0], B[0], B[1]);
	else if (!strcmp(fn, "bn_gcd_lehme")) bn_gcd_lehme(R[0], B[0], B[1]);
	else if (!strcmp(fn, "bn_gcd_binar")) bn_gcd_binar(R[0], B[0], B[1]);
	else if (!strcmp(fn, "bn_gcd_ext_basic")) bn_gcd_ext_basic(R[0], R[1], R[2], B[0], B[1]);
	else if (!strcmp(fn, "bn_gcd_ext_lehme")) bn_gcd_ext_lehme(R[0], R[1], R[2], B[0], B[1]);
	else if (!strcmp(fn, "bn_gcd_ext_binar")) bn_gcd_ext_binar(R[0], R[1], R[2], B[0], B[1]);
	else if (!strcmp(fn, "bn_gcd_ext_mid")) bn_gcd_ext_mid(R[0], R[1], R[2], R[3], B[0], B[2]);
	else if (!strcmp(fn, "bn_lcm")) bn_lcm(R[0], B[0], B[1]);
	else if (!strcmp(fn, "bn_mod_inv")) bn_mod_inv(R[0], B[0], B[2]);
	else if (!strcmp(fn, "bn_srt")) bn_srt(R[0], B[0]);
	else if (!strcmp(fn, "bn_smb_leg")) RC2 = 100 + bn_smb_leg(B[0], B[2]);
	else if (!strcmp(fn, "bn_smb_jac")) RC2 = 100 + bn_smb_jac(B[0], B[2]);
	else if (!strcmp(fn, "bn_is_prime_basic")) RC2 = 100 + bn_is_prime_basic(B[2]);
	else if (!strcmp(fn, "bn_is_prime_solov")) RC2 = 100 + bn_is_prime_solov(B[2]);
	else if (!strcmp(fn, "bn_is_prime_rabin")) RC2 = 100 + bn_is_prime_rabin(B[2]);
	else if (!strcmp(fn, "bn_gen_prime")) bn_gen_prime_basic(R[0], 96);
	else if (!strcmp(fn, "bn_rand_mod")) bn_rand_mod(R[0], B[2]);
	else if (!strcmp(fn, "bn_write_str")) { out_len = bn_size_str(B[0], 10); bn_write_str((char *)OUTB, out_len, B[0], 10); }
	else if (!strcmp(fn, "bn_read_str")) { bn_read_str(R[0], (const char *)IN, in_len, 16); }
	else if (!strcmp(fn, "bn_write_bin")) { out_len = bn_size_bin(B[0]); bn_write_bin(OUTB, out_len, B[0]); }
	else if (!strcmp(fn, "bn_read_bin")) bn_read_bin(R[0], IN, in_len);
	else if (!strcmp(fn, "bn_rec_win")) { rec_len = RLC_BN_BITS + 1; bn_rec_win((uint8_t *)REC, &rec_len, B[0], 4); }
	else if (!strcmp(fn, "bn_rec_slw")) { rec_len = RLC_BN_BITS + 1; bn_rec_slw((uint8_t *)REC, &rec_len, B[0], 4); }
	else if (!strcmp(fn, "bn_rec_naf")) { rec_len = RLC_BN_BITS + 1; bn_rec_naf(REC, &rec_len, B[0], 4); }
	else if (!strcmp(fn, "bn_rec_tnaf")) { rec_len = RLC_BN_BITS + 1; bn_rec_tnaf(REC, &rec_len, B[0], -1, 163, 4); }
	else if (!strcmp(fn, "bn_rec_rtnaf")) { rec_len = RLC_BN_BITS + 1; bn_rec_rtnaf(REC, &rec_len, B[0], -1, 163, 4); }
	else if (!strcmp(fn, "bn_rec_reg")) { rec_len = RLC_BN_BITS + 1; bn_rec_reg(REC, &rec_len, B[0], 256, 4); }
	else if (!strcmp(fn, "bn_rec_jsf")) { rec_len = 2 * (RLC_BN_BITS + 1); bn_rec_jsf(REC, &rec_len, B[0], B[1]); }
	else if (!strcmp(fn, "bn_rec_glv")) {
		bn_t n; bn_null(n);
		/* needs an endomorphism curve: v1, v2 from the context */
		ep_curve_get_ord(R[3]);
		bn_rec_glv(R[0], R[1], B[0], R[3], (const bn_t *)core_get()->ep_v1, (const bn_t *)core_get()->ep_v2);
		(void)n;
	}
	else if (!strcmp(fn, "ep_mul_basic")) ep_mul_basic(RP, P[0], K[0]);
	else if (!strcmp(fn, "ep_mul_slide")) ep_mul_slide(RP, P[0], K[0]);
	else if (!strcmp(fn, "ep_mul_monty")) ep_mul_monty(RP, P[0], K[0]);
	else if (!strcmp(fn, "ep_mul_lwnaf")) ep_mul_lwnaf(RP, P[0], K[0]);
	else if (!strcmp(fn, "ep_mul_lwreg")) ep_mul_lwreg(RP, P[0], K[0]);
	else if (!strcmp(fn, "ep_mul_gen")) ep_mul_gen(RP, K[0]);
	else if (!strcmp(fn, "ep_mul_dig")) ep_mul_dig(RP, P[0], K[0]->dp[0]);
	else if (!strcmp(fn, "ep_mul_cof")) ep_mul_cof(RP, P[0]);
	else if (!strcmp(fn, "ep_mul_fix_basic")) { ep_mul_pre_basic(TAB, P[0]); ep_mul_fix_basic(RP, (const ep_t *)TAB, K[0]); }
	else if (!strcmp(fn, "ep_mul_fix_combs")) { ep_mul_pre_combs(TAB, P[0]); ep_mul_fix_combs(RP, (const ep_t *)TAB, K[0]); }
	else if (!strcmp(fn, "ep_mul_fix_combd")) { ep_mul_pre_combd(TAB, P[0]); ep_mul_fix_combd(RP, (const ep_t *)TAB, K[0]); }
	else if (!strcmp(fn, "ep_mul_fix_lwnaf")) { ep_mul_pre_lwnaf(TAB, P[0]); ep_mul_fix_lwnaf(RP, (const ep_t *)TAB, K[0]); }
	else if (!strcmp(fn, "ep_mul_sim_basic")) ep_mul_sim_basic(RP, P[0], K[0], P[1], K[1]);
	else if (!strcmp(fn, "ep_mul_sim_trick")) ep_mul_sim_trick(RP, P[0], K[0], P[1], K[1]);
	else if (!strcmp(fn, "ep_mul_sim_inter")) ep_mul_sim_inter(RP, P[0], K[0], P[1], K[1]);
	else if (!strcmp(fn, "ep_mul_sim_joint")) ep_mul_sim_joint(RP, P[0], K[0], P[1], K[1]);
	else if (!strcmp(fn, "ep_mul_sim_gen")) ep_mul_sim_gen(RP, K[0], P[1], K[1]);
	else if (!strcmp(fn, "ep_mul_sim_lot")) ep_mul_sim_lot(RP, (const ep_t *)P, (const bn_t *)K, AF_NSIM);
	else if (!strcmp(fn, "ep_mul_sim_lot0")) ep_mul_sim_lot(RP, (const ep_t *)P, (const bn_t *)K, 0);
	else if (!strcmp(fn, "ep_mul_sim_lot1")) ep_mul_sim_lot(RP, (const ep_t *)P, (const bn_t *)K, 1);
	else if (!strcmp(fn, "ep_mul_sim_dig")) { dig_t ds[AF_NSIM]; for (int i = 0; i < AF_NSIM; i++) ds[i] = K[i]->dp[0]; ep_mul_sim_dig(RP, (const ep_t *)P, ds, AF_NSIM); }
	else if (!strcmp(fn, "ep_norm_sim")) { ep_t t[AF_NSIM]; for (int i = 0; i < AF_NSIM; i++) t[i] = TAB[i]; ep_norm_sim(t, (const ep_t *)P, AF_NSIM); ep_copy(RP, t[AF_NSIM - 1]); }
	else if (!strcmp(fn, "ep_map")) ep_map(RP, IN, in_len);
	else if (!strcmp(fn, "ep_rand")) ep_rand(RP);
	else if (!strcmp(fn, "ep_upk")) { ep_pck(TAB[0], P[0]); ep_upk(RP, TAB[0]); }
	else if (!strcmp(fn, "ep_write_bin")) { out_len = ep_size_bin(P[0], 1); ep_write_bin(OUTB, out_len, P[0], 1); }
	else if (!strcmp(fn, "ep_read_bin")) { size_t l = ep_size_bin(P[1], (int)(B[0]->dp[0] & 1)); ep_write_bin(OUTB, l, P[1], (int)(B[0]->dp[0] & 1)); out_len = l; ep_read_bin(RP, OUTB, l); }
	else if (!strcmp(fn, "ep_on_curve")) RC2 = 100 + ep_on_curve(P[0]);
	else if (!strcmp(fn, "md_kdf")) { out_len = 1 + (B[1]->dp[0] % 200); md_kdf(OUTB, out_len, IN, in_len); }
	else if (!strcmp(fn, "md_mgf")) { out_len = 1 + (B[1]->dp[0] % 200); md_mgf(OUTB, out_len, IN, in_len); }
	else if (!strcmp(fn, "md_hmac")) { out_len = RLC_MD_LEN; md_hmac(OUTB, IN, in_len, IN, in_len / 2 + 1); }
	else if (!strcmp(fn, "md_xmd")) { out_len = 1 + (B[1]->dp[0] % 200); md_xmd(OUTB, out_len, IN, in_len, (const uint8_t *)"DST", 3); }
	else if (!strcmp(fn, "md_map")) { out_len = RLC_MD_LEN; md_map(OUTB, IN, in_len); }
	else if (!strcmp(fn, "rand_bytes")) { out_len = 100; rand_bytes(OUTB, out_len); }
	else if (!strcmp(fn, "cp_rsa_gen")) { RC = cp_rsa_gen(PUB, PRV, 512); bn_copy(R[0], PUB->crt->n); }
	else if (!strcmp(fn, "cp_rsa_enc")) { out_len = 512 / 8 + 1; RC = cp_rsa_enc(OUTB, &out_len, IN, in_len > 16 ? 16 : in_len, PUB); }
	else if (!strcmp(fn, "cp_rsa_encdec")) {
		uint8_t ct[512 / 8 + 1]; size_t cl = sizeof(ct);
		RC = cp_rsa_enc(ct, &cl, IN, in_len > 16 ? 16 : in_len, PUB);
		out_len = 512 / 8 + 1; if (RC == RLC_OK) RC2 = cp_rsa_dec(OUTB, &out_len, ct, cl, PRV);
	}
	else if (!strcmp(fn, "cp_rsa_sigver")) {
		uint8_t sg[512 / 8 + 1]; size_t sl = sizeof(sg);
		RC = cp_rsa_sig(sg, &sl, IN, in_len, 0, PRV);
		memcpy(OUTB, sg, sl > sizeof(sg) ? sizeof(sg) : sl); out_len = sl;
		if (RC == RLC_OK) VER = cp_rsa_ver(sg, sl, IN, in_len, 0, PUB);
	}
	else if (!strcmp(fn, "cp_ecdsa")) {
		RC = cp_ecdsa_sig(R[0], R[1], IN, in_len, 0, K[0]);
		if (RC == RLC_OK) VER = cp_ecdsa_ver(R[0], R[1], IN, in_len, 0, P[0]);
	}
	else if (!strcmp(fn, "cp_ecdh")) { out_len = 32; RC = cp_ecdh_key(OUTB, out_len, K[0], P[1]); }
	else if (!strcmp(fn, "cp_ecss")) {
		RC = cp_ecss_sig(R[0], R[1], IN, in_len, K[0]);
		if (RC == RLC_OK) VER = cp_ecss_ver(R[0], R[1], IN, in_len, P[0]);
	}
	else if (!strcmp(fn, "cp_ecies")) {
		uint8_t ct[600]; size_t cl = sizeof(ct);
		RC = cp_ecies_enc(RP, ct, &cl, IN, in_len > 40 ? 40 : in_len, P[0]);
		out_len = sizeof(OUTB); if (RC == RLC_OK) RC2 = cp_ecies_dec(OUTB, &out_len, RP, ct, cl, K[0]);
	}
	/* modules whose tables are still initialised inside the protected block (known finding C08-AF1) */
	else if (!strcmp(fn, "ep2_mul_lwnaf")) { ep2_mul_lwnaf(RP2, P2[0], K[0]); ep2_norm(RP2, RP2); out_len = 4 * RLC_FP_BYTES + 1; ep2_write_bin(OUTB, out_len, RP2, 0); }
	else if (!strcmp(fn, "ep2_mul_sim_trick")) { ep2_mul_sim_trick(RP2, P2[0], K[0], P2[1], K[1]); ep2_norm(RP2, RP2); out_len = 4 * RLC_FP_BYTES + 1; ep2_write_bin(OUTB, out_len, RP2, 0); }
	else if (!strcmp(fn, "eb_mul_lwnaf")) { eb_mul_lwnaf(RPB, PB[0], K[0]); eb_norm(RPB, RPB); out_len = 2 * RLC_FB_BYTES + 1; eb_write_bin(OUTB, out_len, RPB, 0); }
	else return 0;
	return 1;
}

/* a fresh instantiation (rand_seed on a seeded generator would be a reseed that mixes the old state in) */
static void seed_fixed(void) { core_get()->seeded = 0; rand_seed(SEED, sizeof(SEED)); }

static int af_fresh = 0;   /* 1: the run starts with newly created (small) integer result objects */
static char *run_once(const char *fn, long fail_at, int *reported, long *count, long *fired) {
	char *buf = NULL; size_t bl = 0;
	volatile int caught = 0;
	if (af_fresh) for (int i = 0; i < 2; i++) { bn_free(R[i]); bn_null(R[i]); bn_new(R[i]); }
	results_reset();
	seed_fixed();
	err_get_code();
	af_count = 0; af_fired = 0; af_fail_at = fail_at;
	af_on = 1;
	RLC_TRY { af_call(fn); } RLC_CATCH_ANY { caught = 1; }
	af_on = 0;
	int e = take_err();
	/* reported: an exception reached the caller, the sticky code is set, a status-returning function returned RLC_ERR, or a
	 * verification that succeeds in the reference run failed closed */
	*reported = (e || caught || RC == RLC_ERR || RC2 == RLC_ERR || (fail_at != 0 && REFVER == 1 && VER == 0));
	if (fail_at == 0) REFVER = VER;
	if (count) *count = af_count;
	if (fired) *fired = af_fired;
	FILE *f = open_memstream(&buf, &bl);
	results_print(f);
	fclose(f);
	return buf;
}

#define AF_ALL 600

static void op_af(int argc, char **argv) {
	if (argc < 5) { fprintf(OUT, "bad-args\n"); return; }
	const char *fn = argv[1];
	raw_t r;
	static int init = 0;
	if (!init) {
		if (ep_param_get() == 0 && (ep_param_set_any() != RLC_OK || take_err())) { fprintf(OUT, "no-curve\n"); return; }
		for (int i = 0; i < AF_NB; i++) { bn_null(B[i]); bn_new(B[i]); }
		for (int i = 0; i < 4; i++) { bn_null(R[i]); bn_new(R[i]); }
		for (int i = 0; i < 2; i++) { bn_null(BB[i]); bn_new(BB[i]); }
		for (int i = 0; i < AF_NSIM; i++) { ep_null(P[i]); ep_new(P[i]); bn_null(K[i]); bn_new(K[i]); }
		for (int i = 0; i < (1 << 8); i++) { ep_null(TAB[i]); ep_new(TAB[i]); }
		ep_null(RP); ep_new(RP);
		for (int i = 0; i < 2; i++) { ep2_null(P2[i]); ep2_new(P2[i]); eb_null(PB[i]); eb_new(PB[i]); }
		ep2_null(RP2); ep2_new(RP2); eb_null(RPB); eb_new(RPB);
		rsa_null(PUB); rsa_null(PRV); rsa_new(PUB); rsa_new(PRV);
		for (int i = 0; i < 64; i++) SEED[i] = (uint8_t)(i * 7 + 1);
		init = 1;
	}
	if (!strncmp(fn, "ep2_", 4) && (!ep_curve_is_pairf() || !ep2_curve_is_twist())) {
		if (ep_param_set_any_pairf() != RLC_OK || take_err()) { fprintf(OUT, "no-pairing-curve\n"); return; }
	}
	if (!strncmp(fn, "eb_", 3) && eb_param_get() == 0) {
		if (eb_param_set_any() != RLC_OK || take_err()) { fprintf(OUT, "no-binary-curve\n"); return; }
	}
	for (int i = 0; i < 3; i++) { raw_parse(&r, argv[2 + i]); raw_to_bn(B[i], &r); }
	if (!strncmp(fn + strlen(fn) - 4, "_big", 4)) {
		bn_lsh(BB[0], B[0], 1500); bn_add(BB[0], BB[0], B[1]); bn_lsh(BB[1], B[1], 1400); bn_add(BB[1], BB[1], B[0]);
	}
	/* the tau-adic recodings are specified for scalars below 2^m (the curve code reduces first); longer direct inputs are outside this
	 * enumeration (valgrind shows uninitialised reads there in every build: noted as a candidate in DESIGN.md) */
	if (!strcmp(fn, "bn_rec_tnaf") || !strcmp(fn, "bn_rec_rtnaf")) bn_mod_2b(B[0], B[0], 160);
	if (bn_is_zero(B[2])) bn_set_dig(B[2], 3);
	bn_abs(B[2], B[2]);
	{
		bn_t n; bn_null(n); bn_new(n); ep_curve_get_ord(n);
		/* scalars below the order, points multiples of the generator */
		for (int i = 0; i < AF_NSIM; i++) {
			bn_add_dig(K[i], B[i % 3], (dig_t)(i * 977)); bn_abs(K[i], K[i]); bn_mod(K[i], K[i], n);
			bn_mul_dig(R[0], B[(i + 1) % 3], (dig_t)(i + 3)); bn_abs(R[0], R[0]); bn_mod(R[0], R[0], n);
			if (bn_is_zero(R[0])) bn_set_dig(R[0], 5);
			ep_mul_gen(P[i], R[0]);
		}
		/* ECDSA / ECDH key pair: K[0], P[0] = K[0] G */
		if (bn_is_zero(K[0])) bn_set_dig(K[0], 7);
		if (!strncmp(fn, "cp_", 3)) ep_mul_gen(P[0], K[0]);
		bn_rsh(B[3], n, 1); bn_mod(B[3], B[0], B[3]); bn_rsh(B[4], n, 1); bn_mod(B[4], B[1], B[4]);
		if (bn_is_even(B[3])) bn_add_dig(B[3], B[3], 1);
		bn_set_dig(B[5], (dig_t)((B[0]->dp[0] % 30000) | 1)); bn_mul_dig(B[5], B[5], 10007);
		if (!strncmp(fn, "ep2_", 4)) { ep2_curve_get_gen(P2[0]); ep2_mul_gen(P2[1], K[1]); ep2_mul_gen(P2[0], K[2]); }
		if (!strncmp(fn, "eb_", 3)) { eb_curve_get_ord(n); bn_mod(K[0], K[0], n); eb_mul_gen(PB[0], K[1]); }
		bn_free(n);
	}
	in_len = bn_size_bin(B[0]); if (in_len > sizeof(IN) - 1) in_len = sizeof(IN) - 1;
	bn_write_bin(IN, in_len, B[0]);
	if (!strcmp(fn, "bn_read_str")) { bn_write_str((char *)IN, sizeof(IN), B[0], 16); in_len = strlen((char *)IN); }
	if (!strncmp(fn, "cp_rsa_", 7) && strcmp(fn, "cp_rsa_gen") && !have_rsa) {
		seed_fixed();
		if (cp_rsa_gen(PUB, PRV, 512) != RLC_OK || take_err()) { fprintf(OUT, "rsa-keygen-failed\n"); return; }
		have_rsa = 1;
	}
	results_reset();
	take_err();
	{
		results_reset();
		af_on = 0;
		RLC_TRY { if (!af_call(fn)) { fprintf(OUT, "unknown-fn %s\n", fn); return; } } RLC_CATCH_ANY { }
		take_err();
	}
	int rep0 = 0; long n = 0, fired = 0;
	int big = strlen(fn) > 4 && !strcmp(fn + strlen(fn) - 4, "_big");
	af_fresh = big;
	char *ref = run_once(fn, 0, &rep0, &n, &fired);
	long tested = 0, nf = 0, nrep = 0, nabs = 0, nsil = 0, nus = 0, first = 0;
	long stride = n <= AF_ALL ? 1 : (n + AF_ALL - 1) / AF_ALL;
	for (long i = 1; i <= n; i += (i <= AF_ALL / 2 ? 1 : stride)) {
		int rep = 0; long c = 0, f = 0;
		af_fresh = big;
		char *o = run_once(fn, i, &rep, &c, &f);
		af_fresh = 0;              /* the run without a failure reuses the objects the failed run left behind */
		tested++;
		if (f) {
			nf++;
			if (rep) nrep++;
			else if (strcmp(o, ref) == 0) { nabs++; if (getenv("AF_DEBUG")) fprintf(stderr, "absorbed at allocation %ld\n", i); }
			else { nsil++; if (!first) first = i; }
		}
		free(o);
		int rep2 = 0;
		char *o2 = run_once(fn, 0, &rep2, NULL, NULL);
		if (strcmp(o2, ref) == 0 && rep2 == rep0) nus++; else if (!first) first = -i;
		free(o2);
	}
	fprintf(OUT, "n=%ld tested=%ld fired=%ld reported=%ld absorbed=%ld silent=%ld usable=%ld first=%ld referr=%d ref=%s\n", n, tested, nf, nrep, nabs, nsil,
		nus, first, rep0, ref);
	free(ref);
}

const op_t ops_af[] = { {"af", op_af}, {NULL, NULL} };
