/* prime-curve operations of the line protocol (properties C03, C07, C13, C19, C20).
 * Point tokens: "inf" | "<x>,<y>" (affine, standard representation) | "<x>,<y>,<z>,P" | "<x>,<y>,<z>,J":
 * the affine point presented in homogeneous projective / Jacobian coordinates with that z. */
#include "oracle.h"
#include "relic_ep.h"

static void fp_tok(fp_t a, const char *tok) {
	raw_t r; bn_t t;
	raw_parse(&r, tok);
	bn_null(t); bn_new(t); raw_to_bn(t, &r);
	if (bn_is_zero(t)) fp_zero(a); else fp_prime_conv(a, t);
}

static void fp_print_std(const fp_t a) {
	bn_t t; bn_null(t); bn_new(t);
	fp_prime_back(t, a);
	char buf[RLC_FP_DIGS * (RLC_DIG / 4) + 2]; int p = 0;
	for (int i = t->used - 1; i >= 0; i--) p += sprintf(buf + p, "%0*llx", RLC_DIG / 4, (unsigned long long)t->dp[i]);
	buf[p] = 0;
	char *s = buf; while (*s == '0' && s[1]) s++;
	fprintf(OUT, "%s", s);
}

void ep_tok(ep_t p, const char *tok) {
	char buf[1024];
	strncpy(buf, tok, sizeof(buf) - 1); buf[sizeof(buf) - 1] = 0;
	if (!strcmp(buf, "inf")) { ep_set_infty(p); return; }
	char *f[4]; int n = 0;
	for (char *q = strtok(buf, ","); q && n < 4; q = strtok(NULL, ",")) f[n++] = q;
	fp_tok(p->x, f[0]); fp_tok(p->y, f[1]);
	fp_set_dig(p->z, 1);
	p->coord = BASIC;
	if (n == 4) {
		fp_t z, t; fp_null(z); fp_null(t); fp_new(z); fp_new(t);
		fp_tok(z, f[2]);
		if (f[3][0] == 'P') {
			fp_mul(p->x, p->x, z); fp_mul(p->y, p->y, z); fp_copy(p->z, z); p->coord = PROJC;
		} else {
			fp_sqr(t, z); fp_mul(p->x, p->x, t); fp_mul(t, t, z); fp_mul(p->y, p->y, t); fp_copy(p->z, z); p->coord = JACOB;
		}
	}
}

/* canonical print: normalised affine coordinates, or "inf"; a result that claims to be normalised but is not
 * (coord == BASIC with z != 1) is flagged */
void ep_out(const ep_t p) {
	ep_t t; ep_null(t); ep_new(t);
	if (ep_is_infty(p)) { fprintf(OUT, "inf"); return; }
	ep_norm(t, p);
	fp_print_std(t->x); fputc(',', OUT); fp_print_std(t->y);
	if (p->coord == BASIC && fp_cmp_dig(p->z, 1) != RLC_EQ) fprintf(OUT, " BASIC-WITH-Z!=1");
}


/* ep_sel <id> : call ep_param_set with an arbitrary identifier; print modulus, generator and order before and after and
 * whether an error was reported */
static void ep_sel_state(void) {
	ep_t g; bn_t n; ep_null(g); ep_new(g); bn_null(n); bn_new(n);
	ep_curve_get_gen(g); ep_curve_get_ord(n);
	raw_print(fp_prime_get(), RLC_FP_DIGS, 0);
	fputc(',', OUT); fp_print_std(g->x); fputc(',', OUT); fp_print_std(g->y); fputc(',', OUT);
	raw_print(n->dp, n->used, 0);
	ep_free(g); bn_free(n);
}
static void op_ep_sel(int argc, char **argv) {
	if (argc < 2) { fprintf(OUT, "bad-args\n"); return; }
	int id = parse_int(argv[1]), caught = 0;
	fprintf(OUT, "id0=%d s0=", ep_param_get());
	ep_sel_state();
	RLC_TRY { ep_param_set(id); } RLC_CATCH_ANY { caught = 1; }
	int e = take_err();
	fprintf(OUT, " res=%s id1=%d s1=", (e || caught) ? "err" : "ok", ep_param_get());
	ep_sel_state();
	fputc('\n', OUT);
}

/* core_reinit : shut the library down and initialise it again (the next line selects a parameter set) */
static void op_core_reinit(int argc, char **argv) {
	(void)argc; (void)argv;
	core_clean();
	if (core_init() != RLC_OK) { fprintf(OUT, "core_init-failed\n"); return; }
	fprintf(OUT, "ok\n");
}

/* ep_param <id> */
static void op_ep_param(int argc, char **argv) {
	if (argc < 2) { fprintf(OUT, "bad-args\n"); return; }
	int id = parse_int(argv[1]), caught = 0;
	RLC_TRY { ep_param_set(id); } RLC_CATCH_ANY { caught = 1; }
	if (take_err() || caught) { fprintf(OUT, "err\n"); return; }
	ep_t g; bn_t n, h; ep_null(g); ep_new(g); bn_null(n); bn_new(n); bn_null(h); bn_new(h);
	ep_curve_get_gen(g); ep_curve_get_ord(n); ep_curve_get_cof(h);
	fprintf(OUT, "ep_param id=%d p=", id);
	raw_print(fp_prime_get(), RLC_FP_DIGS, 0);
	fprintf(OUT, " a="); fp_print_std(ep_curve_get_a());
	fprintf(OUT, " b="); fp_print_std(ep_curve_get_b());
	fprintf(OUT, " gx="); fp_print_std(g->x); fprintf(OUT, " gy="); fp_print_std(g->y);
	fprintf(OUT, " n="); raw_print(n->dp, n->used, 0);
	fprintf(OUT, " h="); raw_print(h->dp, h->used, 0);
	fprintf(OUT, " endom=%d pairf=%d super=%d opta=%d optb=%d", ep_curve_is_endom(), ep_curve_is_pairf(), ep_curve_is_super(),
		ep_curve_opt_a(), ep_curve_opt_b());
	if (ep_curve_is_endom()) {
		fprintf(OUT, " beta="); fp_print_std(ep_curve_get_beta());
#if defined(EP_ENDOM)
		/* the lattice data bn_rec_glv works with (signed), for the driver's model of the decomposition */
		for (int i = 0; i < 3; i++) {
			const bn_st *v = &ep_curve_get_v1()[i], *u = &ep_curve_get_v2()[i];
			fprintf(OUT, " v1%d=%s", i, v->sign == RLC_NEG && !bn_is_zero(v) ? "-" : ""); raw_print(v->dp, v->used > 0 ? v->used : 1, 0);
			fprintf(OUT, " v2%d=%s", i, u->sign == RLC_NEG && !bn_is_zero(u) ? "-" : ""); raw_print(u->dp, u->used > 0 ? u->used : 1, 0);
		}
#endif
	}
	/* window width of the variable-base routines, comb depth of the fixed-base routines, field size (recoding capacities) */
	fprintf(OUT, " width=%d depth=%d fpbits=%d", RLC_WIDTH, RLC_DEPTH, RLC_FP_BITS);
	fprintf(OUT, " embed=%d level=%d", ep_curve_embed(), ep_param_level());
	/* field-level derived state that must follow the selection: sparse form of the modulus, family parameter and its sparse form */
	{
		int len = 0; const int *sp = fp_prime_get_sps(&len);
		bn_t x; bn_null(x); bn_new(x);
		fprintf(OUT, " sps=");
		if (sp == NULL || len == 0) fputc('.', OUT);
		for (int i = 0; sp != NULL && i < len; i++) fprintf(OUT, "%s%d", i ? "," : "", sp[i]);
		fp_prime_get_par(x);
		fprintf(OUT, " par=%s", bn_sign(x) == RLC_NEG ? "-" : ""); raw_print(x->dp, x->used, 0);
		len = 0; sp = fp_prime_get_par_sps(&len);
		fprintf(OUT, " parsps=");
		if (sp == NULL || len == 0) fputc('.', OUT);
		for (int i = 0; sp != NULL && i < len; i++) fprintf(OUT, "%s%d", i ? "," : "", sp[i]);
	}
	fputc('\n', OUT);
}

/* ep2 <op> <alias> <P> <Q> */
static void op_ep2(int argc, char **argv) {
	if (argc < 5) { fprintf(OUT, "bad-args\n"); return; }
	const char *op = argv[1];
	int alias = parse_int(argv[2]), caught = 0, r = -99;
	ep_t p, q, c; ep_st *pp, *pq, *pc;
	ep_null(p); ep_null(q); ep_null(c); ep_new(p); ep_new(q); ep_new(c);
	pp = p; pq = q; pc = c;
	ep_tok(p, argv[3]); ep_tok(q, argv[4]);
	if (alias == 3 || alias == 4) pq = pp;
	if (alias == 1 || alias == 4) pc = pp;
	if (alias == 2) pc = pq;
	RLC_TRY {
		if (!strcmp(op, "add")) ep_add(pc, pp, pq);
		else if (!strcmp(op, "add_basic")) ep_add_basic(pc, pp, pq);
		else if (!strcmp(op, "add_projc")) ep_add_projc(pc, pp, pq);
		else if (!strcmp(op, "add_jacob")) ep_add_jacob(pc, pp, pq);
		else if (!strcmp(op, "sub")) ep_sub(pc, pp, pq);
		else if (!strcmp(op, "cmp")) { r = ep_cmp(pp, pq); }
		else { fprintf(OUT, "unknown-ep2 %s\n", op); return; }
	} RLC_CATCH_ANY { caught = 1; }
	if (take_err() || caught) fprintf(OUT, "err"); else if (r != -99) fprintf(OUT, "r=%d", r); else ep_out(pc);
	fputc('\n', OUT);
}

/* ep1 <op> <alias> <P> */
static void op_ep1(int argc, char **argv) {
	if (argc < 4) { fprintf(OUT, "bad-args\n"); return; }
	const char *op = argv[1];
	int alias = parse_int(argv[2]), caught = 0, r = -99;
	ep_t p, c; ep_st *pp, *pc;
	ep_null(p); ep_null(c); ep_new(p); ep_new(c);
	pp = p; pc = c;
	ep_tok(p, argv[3]);
	if (alias == 1) pc = pp;
	RLC_TRY {
		if (!strcmp(op, "dbl")) ep_dbl(pc, pp);
		else if (!strcmp(op, "dbl_basic")) ep_dbl_basic(pc, pp);
		else if (!strcmp(op, "dbl_projc")) ep_dbl_projc(pc, pp);
		else if (!strcmp(op, "dbl_jacob")) ep_dbl_jacob(pc, pp);
		else if (!strcmp(op, "neg")) ep_neg(pc, pp);
		else if (!strcmp(op, "norm")) ep_norm(pc, pp);
		else if (!strcmp(op, "psi")) ep_psi(pc, pp);
		else if (!strcmp(op, "mul_cof")) ep_mul_cof(pc, pp);
		else if (!strcmp(op, "on_curve")) r = ep_on_curve(pp);
		else { fprintf(OUT, "unknown-ep1 %s\n", op); return; }
	} RLC_CATCH_ANY { caught = 1; }
	if (take_err() || caught) fprintf(OUT, "err"); else if (r != -99) fprintf(OUT, "r=%d", r); else ep_out(pc);
	fputc('\n', OUT);
}

/* epm <variant> <alias> <P> <k> : scalar multiplication */
static void op_epm(int argc, char **argv) {
	if (argc < 5) { fprintf(OUT, "bad-args\n"); return; }
	const char *v = argv[1];
	int alias = parse_int(argv[2]), caught = 0;
	ep_t p, c; ep_st *pp, *pc; bn_t k; raw_t rk;
	static ep_t tab[RLC_EP_TABLE_MAX];
	ep_null(p); ep_null(c); ep_new(p); ep_new(c); bn_null(k); bn_new(k);
	pp = p; pc = c;
	ep_tok(p, argv[3]);
	raw_parse(&rk, argv[4]); raw_to_bn(k, &rk);
	if (alias == 1) pc = pp;
	RLC_TRY {
		if (!strcmp(v, "mul")) ep_mul(pc, pp, k);
		else if (!strcmp(v, "basic")) ep_mul_basic(pc, pp, k);
		else if (!strcmp(v, "slide")) ep_mul_slide(pc, pp, k);
		else if (!strcmp(v, "monty")) ep_mul_monty(pc, pp, k);
		else if (!strcmp(v, "lwnaf")) ep_mul_lwnaf(pc, pp, k);
		else if (!strcmp(v, "lwreg")) ep_mul_lwreg(pc, pp, k);
		else if (!strcmp(v, "gen")) ep_mul_gen(pc, k);
		else if (!strcmp(v, "dig")) ep_mul_dig(pc, pp, k->dp[0]);
		else if (!strncmp(v, "fix_", 4)) {
			for (int i = 0; i < RLC_EP_TABLE_MAX; i++) { ep_null(tab[i]); ep_new(tab[i]); }
			if (!strcmp(v, "fix_basic")) { ep_mul_pre_basic(tab, pp); ep_mul_fix_basic(pc, (const ep_t *)tab, k); }
			else if (!strcmp(v, "fix_combs")) { ep_mul_pre_combs(tab, pp); ep_mul_fix_combs(pc, (const ep_t *)tab, k); }
			else if (!strcmp(v, "fix_combd")) { ep_mul_pre_combd(tab, pp); ep_mul_fix_combd(pc, (const ep_t *)tab, k); }
			else if (!strcmp(v, "fix_lwnaf")) { ep_mul_pre_lwnaf(tab, pp); ep_mul_fix_lwnaf(pc, (const ep_t *)tab, k); }
			else if (!strcmp(v, "fix_")) { ep_mul_pre(tab, pp); ep_mul_fix(pc, (const ep_t *)tab, k); }
			else { fprintf(OUT, "unknown-epm %s\n", v); return; }
		}
		else { fprintf(OUT, "unknown-epm %s\n", v); return; }
	} RLC_CATCH_ANY { caught = 1; }
	if (take_err() || caught) fprintf(OUT, "err"); else ep_out(pc);
	fputc('\n', OUT);
}

/* eptab <variant> <P> : the precomputation table ep_mul_pre_<variant> builds for P, every entry normalised, separated by ';' */
static int tab_len(const char *v) {
	bn_t n; bn_null(n); bn_new(n); ep_curve_get_ord(n);
	int l = -1;
	if (!strcmp(v, "basic")) l = bn_bits(n);
	else if (!strcmp(v, "combs")) l = RLC_EP_TABLE_COMBS;
	else if (!strcmp(v, "combd")) l = RLC_EP_TABLE_COMBD;
	else if (!strcmp(v, "lwnaf")) l = RLC_EP_TABLE_LWNAF;
	bn_free(n);
	return l;
}
static void op_eptab(int argc, char **argv) {
	if (argc < 3) { fprintf(OUT, "bad-args\n"); return; }
	const char *v = argv[1];
	int caught = 0, len = tab_len(v);
	static ep_t tab[RLC_EP_TABLE_MAX];
	ep_t p; ep_null(p); ep_new(p);
	if (len < 0) { fprintf(OUT, "unknown-eptab %s\n", v); return; }
	ep_tok(p, argv[2]);
	for (int i = 0; i < RLC_EP_TABLE_MAX; i++) { ep_null(tab[i]); ep_new(tab[i]); ep_set_infty(tab[i]); }
	RLC_TRY {
		if (!strcmp(v, "basic")) ep_mul_pre_basic(tab, p);
		else if (!strcmp(v, "combs")) ep_mul_pre_combs(tab, p);
		else if (!strcmp(v, "combd")) ep_mul_pre_combd(tab, p);
		else ep_mul_pre_lwnaf(tab, p);
	} RLC_CATCH_ANY { caught = 1; }
	if (take_err() || caught) { fprintf(OUT, "err\n"); return; }
	for (int i = 0; i < len; i++) { if (i) fputc(';', OUT); ep_out(tab[i]); }
	fputc('\n', OUT);
}

/* epfixt <variant> <k> <T0>;<T1>;... : ep_mul_fix_<variant> on a caller-supplied table (any points, not necessarily the
 * multiples a precomputation would store): ties the column / digit extraction and the loop to the model independently of the
 * table construction.  Missing entries are the identity. */
static void op_epfixt(int argc, char **argv) {
	if (argc < 3) { fprintf(OUT, "bad-args\n"); return; }
	const char *v = argv[1];
	int caught = 0, len = tab_len(v);
	static ep_t tab[RLC_EP_TABLE_MAX];
	ep_t c; bn_t k; raw_t rk;
	ep_null(c); ep_new(c); bn_null(k); bn_new(k);
	if (len < 0) { fprintf(OUT, "bad-args\n"); return; }
	raw_parse(&rk, argv[2]); raw_to_bn(k, &rk);
	for (int i = 0; i < RLC_EP_TABLE_MAX; i++) { ep_null(tab[i]); ep_new(tab[i]); ep_set_infty(tab[i]); }
	/* the table is one token, entries separated by ';' (the tokenizer of the oracle stops at MAXTOK tokens) */
	if (argc > 3) {
		int i = 0;
		for (char *q = argv[3]; q && *q; i++) {
			char *sep = strchr(q, ';');
			if (sep) *sep = 0;
			if (i >= len) { fprintf(OUT, "bad-args\n"); return; }
			ep_tok(tab[i], q);
			q = sep ? sep + 1 : NULL;
		}
	}
	RLC_TRY {
		if (!strcmp(v, "basic")) ep_mul_fix_basic(c, (const ep_t *)tab, k);
		else if (!strcmp(v, "combs")) ep_mul_fix_combs(c, (const ep_t *)tab, k);
		else if (!strcmp(v, "combd")) ep_mul_fix_combd(c, (const ep_t *)tab, k);
		else ep_mul_fix_lwnaf(c, (const ep_t *)tab, k);
	} RLC_CATCH_ANY { caught = 1; }
	if (take_err() || caught) fprintf(OUT, "err"); else ep_out(c);
	fputc('\n', OUT);
}

/* eps <variant> <P> <k> <Q> <m> : k*P + m*Q ; variant gen uses the generator for P */
static void op_eps(int argc, char **argv) {
	if (argc < 6) { fprintf(OUT, "bad-args\n"); return; }
	/* suffix .p / .q of the variant: the result object is the first / second point operand */
	char v[32]; int al = 0;
	snprintf(v, sizeof(v), "%s", argv[1]);
	{ char *dot = strchr(v, '.'); if (dot) { al = dot[1] == 'p' ? 1 : (dot[1] == 'q' ? 2 : 0); *dot = 0; } }
	int caught = 0;
	ep_t p, q, c; bn_t k, m; raw_t r;
	ep_null(p); ep_null(q); ep_null(c); ep_new(p); ep_new(q); ep_new(c); bn_null(k); bn_new(k); bn_null(m); bn_new(m);
	ep_tok(p, argv[2]); raw_parse(&r, argv[3]); raw_to_bn(k, &r);
	ep_tok(q, argv[4]); raw_parse(&r, argv[5]); raw_to_bn(m, &r);
	ep_st *cc = al == 1 ? p : (al == 2 ? q : c);
	RLC_TRY {
		if (!strcmp(v, "sim")) ep_mul_sim(cc, p, k, q, m);
		else if (!strcmp(v, "basic")) ep_mul_sim_basic(cc, p, k, q, m);
		else if (!strcmp(v, "trick")) ep_mul_sim_trick(cc, p, k, q, m);
		else if (!strcmp(v, "inter")) ep_mul_sim_inter(cc, p, k, q, m);
		else if (!strcmp(v, "joint")) ep_mul_sim_joint(cc, p, k, q, m);
		else if (!strcmp(v, "gen")) ep_mul_sim_gen(cc, k, q, m);
		else { fprintf(OUT, "unknown-eps %s\n", v); return; }
	} RLC_CATCH_ANY { caught = 1; }
	if (take_err() || caught) fprintf(OUT, "err"); else ep_out(cc);
	fputc('\n', OUT);
}

/* epl <n> <P1> <k1> ... : ep_mul_sim_lot ; epd <n> <P1> <d1> ... : ep_mul_sim_dig */
static void op_epl(int argc, char **argv) {
	int alias = -1;
	/* epla/epda <j> <n> ... : the result is written over the j-th input point */
	if (argc >= 3 && argv[0][3] == 'a') { alias = parse_int(argv[1]); argv++; argc--; }
	if (argc < 2) { fprintf(OUT, "bad-args\n"); return; }
	int n = parse_int(argv[1]), caught = 0, lot = argv[-(alias >= 0)][2] == 'l';
	if (n < 0 || n > 24 || argc < 2 + 2 * n || alias >= n) { fprintf(OUT, "bad-args\n"); return; }
	static ep_t ps[24]; static bn_t ks[24]; dig_t ds[24]; ep_t c0; raw_t r;
	ep_null(c0); ep_new(c0);
	for (int i = 0; i < n; i++) {
		ep_null(ps[i]); ep_new(ps[i]); bn_null(ks[i]); bn_new(ks[i]);
		ep_tok(ps[i], argv[2 + 2 * i]); raw_parse(&r, argv[3 + 2 * i]); raw_to_bn(ks[i], &r);
		ds[i] = ks[i]->dp[0];
	}
	ep_t *cp = alias >= 0 ? &ps[alias] : &c0;
	RLC_TRY {
		if (lot) ep_mul_sim_lot(*cp, ps, (const bn_t *)ks, n);
		else ep_mul_sim_dig(*cp, (const ep_t *)ps, ds, n);
	} RLC_CATCH_ANY { caught = 1; }
	if (take_err() || caught) fprintf(OUT, "err"); else ep_out(*cp);
	fputc('\n', OUT);
}

/* ep_glv <k> : the GLV decomposition the library uses on the active endomorphism curve: prints k0 k1 (signed hex) */
static void op_ep_glv(int argc, char **argv) {
	if (argc < 2) { fprintf(OUT, "bad-args\n"); return; }
	if (!ep_curve_is_endom()) { fprintf(OUT, "no-endom\n"); return; }
	bn_t k, k0, k1, n; raw_t r; int caught = 0;
	bn_null(k); bn_null(k0); bn_null(k1); bn_null(n); bn_new(k); bn_new(k0); bn_new(k1); bn_new(n);
	raw_parse(&r, argv[1]); raw_to_bn(k, &r);
	RLC_TRY {
		ep_curve_get_ord(n);
		bn_mod(k, k, n);
		bn_rec_glv(k0, k1, k, n, ep_curve_get_v1(), ep_curve_get_v2());
	} RLC_CATCH_ANY { caught = 1; }
	if (take_err() || caught) { fprintf(OUT, "err\n"); return; }
	bn_out(k0); fputc(' ', OUT); bn_out(k1); fputc('\n', OUT);
}

/* ep_write_bin <len> <pack> <P> ; ep_read_bin <hex> */
static void op_ep_write_bin(int argc, char **argv) {
	if (argc < 4) { fprintf(OUT, "bad-args\n"); return; }
	int len = parse_int(argv[1]), pack = parse_int(argv[2]), caught = 0;
	uint8_t buf[4 * RLC_FP_BYTES + 80];
	ep_t p; ep_null(p); ep_new(p);
	if (len < 0 || len > 4 * RLC_FP_BYTES) { fprintf(OUT, "bad-args\n"); return; }
	ep_tok(p, argv[3]);
	memset(buf, 0xEE, sizeof(buf));
	RLC_TRY { ep_write_bin(buf + 32, len, p, pack); } RLC_CATCH_ANY { caught = 1; }
	if (take_err() || caught) fprintf(OUT, "err"); else bytes_print(buf + 32, len);
	for (int i = 0; i < 32; i++) if (buf[i] != 0xEE || buf[32 + len + i] != 0xEE) { fprintf(OUT, " WROTE-OUTSIDE"); break; }
	fprintf(OUT, " size=%d\n", (int)ep_size_bin(p, pack));
}
static void op_ep_read_bin(int argc, char **argv) {
	if (argc < 2) { fprintf(OUT, "bad-args\n"); return; }
	uint8_t buf[4 * RLC_FP_BYTES + 16];
	int n = bytes_parse(buf, sizeof(buf), argv[1]), caught = 0;
	ep_t p; ep_null(p); ep_new(p);
	/* the result must not depend on what the destination held before: decode into the identity, into the generator and into junk */
	char *res[3] = { NULL, NULL, NULL }; size_t rl[3];
	FILE *save = OUT;
	for (int v = 0; v < 3; v++) {
		if (v == 0) ep_set_infty(p); else if (v == 1) ep_curve_get_gen(p); else memset(p, 0xA5, sizeof(ep_st));
		if (v == 2) p->coord = BASIC;
		caught = 0;
		RLC_TRY { ep_read_bin(p, buf, n); } RLC_CATCH_ANY { caught = 1; }
		OUT = open_memstream(&res[v], &rl[v]);
		if (take_err() || caught) fprintf(OUT, "err");
		else { ep_out(p); fprintf(OUT, " on=%d", ep_on_curve(p)); }
		fclose(OUT); OUT = save;
	}
	fprintf(OUT, "%s", res[0]);
	if (strcmp(res[0], res[1]) != 0 || strcmp(res[0], res[2]) != 0) fprintf(OUT, " DEST-DEPENDENT[%s|%s]", res[1], res[2]);
	for (int v = 0; v < 3; v++) free(res[v]);
	fputc('\n', OUT);
}

#include "ops_ep2.inc"

/* eplc <n> <P> <a> <b> : ep_mul_sim_lot on the n points P, 2P, …, nP with the scalars a, a + b, …, a + (n-1) b (compact form for lists
   longer than a line can hold: the bucket method changes its window with the number of points) */
static void op_eplc(int argc, char **argv) {
	if (argc < 5) { fprintf(OUT, "bad-args\n"); return; }
	int n = parse_int(argv[1]), caught = 0;
	if (n < 1 || n > 80) { fprintf(OUT, "bad-args\n"); return; }
	static ep_t ps[80]; static bn_t ks[80]; ep_t c0, base; bn_t a, b; raw_t r;
	ep_null(c0); ep_new(c0); ep_null(base); ep_new(base); bn_null(a); bn_new(a); bn_null(b); bn_new(b);
	ep_tok(base, argv[2]); raw_parse(&r, argv[3]); raw_to_bn(a, &r); raw_parse(&r, argv[4]); raw_to_bn(b, &r);
	RLC_TRY {
		for (int i = 0; i < n; i++) {
			ep_null(ps[i]); ep_new(ps[i]); bn_null(ks[i]); bn_new(ks[i]);
			if (i == 0) ep_norm(ps[0], base); else { ep_add(ps[i], ps[i - 1], ps[0]); ep_norm(ps[i], ps[i]); }
			if (i == 0) bn_copy(ks[0], a); else bn_add(ks[i], ks[i - 1], b);
		}
		ep_mul_sim_lot(c0, ps, (const bn_t *)ks, n);
	} RLC_CATCH_ANY { caught = 1; }
	if (take_err() || caught) fprintf(OUT, "err"); else ep_out(c0);
	fputc('\n', OUT);
}

const op_t ops_ep[] = {
	{"ep_param", op_ep_param}, {"core_reinit", op_core_reinit}, {"ep_sel", op_ep_sel}, {"ep2", op_ep2}, {"ep1", op_ep1}, {"epm", op_epm}, {"eptab", op_eptab}, {"epfixt", op_epfixt}, {"eps", op_eps}, {"ep_glv", op_ep_glv}, {"epl", op_epl}, {"epd", op_epl}, {"epla", op_epl}, {"epda", op_epl}, {"eplc", op_eplc},
	{"ep_write_bin", op_ep_write_bin}, {"ep_read_bin", op_ep_read_bin},
	EP2_OPS
	{NULL, NULL}
};
