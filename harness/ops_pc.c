/* Pairing groups and pairings of the line protocol (properties C12, C04).
 * G1 points use the tokens of ops_ep.c, G2 points those of ops_ep2.c, GT / Fp12 elements are 12 comma separated
 * coefficients in the memory order of fp12_t (standard representation, hex). */
#include "oracle.h"
#include "relic_ep.h"
#include "relic_epx.h"
#include "relic_fpx.h"
#include "relic_pp.h"
#include "relic_pc.h"

void ep_tok(ep_t p, const char *tok);
void ep_out(const ep_t p);
void ep2_tok(ep2_t p, const char *tok);
void ep2_out(const ep2_t p);
void fp2_printx(const fp2_t a);

static void fpv(fp_t a, const char *tok, int len) {
	char tmp[8 * RLC_FP_BYTES + 8];
	raw_t r; bn_t t;
	if (len > (int)sizeof(tmp) - 1) len = sizeof(tmp) - 1;
	memcpy(tmp, tok, len); tmp[len] = 0;
	raw_parse(&r, tmp);
	bn_null(t); bn_new(t); raw_to_bn(t, &r);
	if (bn_is_zero(t)) fp_zero(a); else fp_prime_conv(a, t);
}

static int fp12_tok(fp12_t a, const char *tok) {
	fp_t *e = (fp_t *)a;
	const char *p = tok;
	for (int i = 0; i < 12; i++) {
		const char *q = strchr(p, ',');
		int len = q ? (int)(q - p) : (int)strlen(p);
		if (len == 0) return 0;
		fpv(e[i], p, len);
		if (!q) return i == 11;
		p = q + 1;
	}
	return 0;
}

static void fp_pv(const fp_t a) {
	bn_t t; bn_null(t); bn_new(t);
	fp_prime_back(t, a);
	char buf[RLC_FP_DIGS * (RLC_DIG / 4) + 2]; int p = 0;
	for (int i = t->used - 1; i >= 0; i--) p += sprintf(buf + p, "%0*llx", RLC_DIG / 4, (unsigned long long)t->dp[i]);
	buf[p] = 0;
	char *s = buf; while (*s == '0' && s[1]) s++;
	fprintf(OUT, "%s", s);
}

static void fp12_out(const fp12_t a) {
	const fp_t *e = (const fp_t *)a;
	for (int i = 0; i < 12; i++) { if (i) fputc(',', OUT); fp_pv(e[i]); }
}

/* pc_param <id> : selects the pairing-friendly curve, installs the twist of the right type and prints what the
 * specification needs: the tower constants (qnr, xi), the groups and the curve parameter */
static void op_pc_param(int argc, char **argv) {
	if (argc < 2) { fprintf(OUT, "bad-args\n"); return; }
	int id = parse_int(argv[1]), caught = 0;
	ep2_t g2; ep_t g1; bn_t n, h, x; gt_t e;
	ep2_null(g2); ep2_new(g2); ep_null(g1); ep_new(g1); bn_null(n); bn_new(n); bn_null(h); bn_new(h); bn_null(x); bn_new(x);
	gt_null(e); gt_new(e);
	RLC_TRY {
		ep_param_set(id);
		if (!ep_curve_is_pairf() || ep_curve_embed() != 12) { fprintf(OUT, "err\n"); take_err(); return; }
		int types[2] = { RLC_EP_DTYPE, RLC_EP_MTYPE };
		for (int t = 0; t < 2; t++) {
			ep2_t a, b; bn_t pp; ep2_null(a); ep2_null(b); ep2_new(a); ep2_new(b); bn_null(pp); bn_new(pp);
			ep2_curve_set_twist(types[t]);
			ep2_curve_get_gen(g2);
			if (!ep2_on_curve(g2)) continue;
			pp->used = RLC_FP_DIGS; pp->sign = RLC_POS; dv_copy(pp->dp, fp_prime_get(), RLC_FP_DIGS); bn_trim(pp);
			ep2_curve_get_ord(n); bn_mod(pp, pp, n);
			ep2_frb(a, g2, 1); ep2_mul_basic(b, g2, pp);
			if (ep2_cmp(a, b) == RLC_EQ) break;
		}
		ep_curve_get_gen(g1);
		ep2_curve_get_gen(g2);
		gt_get_gen(e);
	} RLC_CATCH_ANY { caught = 1; }
	if (take_err() || caught || !ep2_curve_is_twist()) { fprintf(OUT, "err\n"); return; }
	pc_get_ord(n); ep2_curve_get_cof(h); fp_prime_get_par(x);
	fp2_t one, xi; fp2_null(one); fp2_null(xi); fp2_new(one); fp2_new(xi);
	fp2_set_dig(one, 1); fp2_mul_nor(xi, one);
	fprintf(OUT, "pc_param id=%d p=", id);
	raw_print(fp_prime_get(), RLC_FP_DIGS, 0);
	fprintf(OUT, " qnr=%d xi=", fp_prime_get_qnr()); fp2_printx(xi);
	fprintf(OUT, " twist=%d n=", ep2_curve_is_twist()); raw_print(n->dp, n->used, 0);
	fprintf(OUT, " h2="); raw_print(h->dp, h->used, 0);
	fprintf(OUT, " x=%s", bn_sign(x) == RLC_NEG ? "-" : ""); raw_print(x->dp, x->used, 0);
	fprintf(OUT, " a1="); fp_pv(ep_curve_get_a()); fprintf(OUT, " b1="); fp_pv(ep_curve_get_b());
	fprintf(OUT, " g1="); fp_pv(g1->x); fputc(',', OUT); fp_pv(g1->y);
	fprintf(OUT, " a2="); fp2_printx(ep2_curve_get_a()); fprintf(OUT, " b2="); fp2_printx(ep2_curve_get_b());
	fprintf(OUT, " g2="); fp2_printx(g2->x); fputc(',', OUT); fp2_printx(g2->y);
	fprintf(OUT, " gt="); fp12_out(e);
	fprintf(OUT, " family=%d", ep_curve_is_pairf());
	/* what pp_exp_k12 / pp_map_k12 switch on, BY NAME (the enum values are not part of the contract), and the sparse form of
	 * the curve parameter the final exponentiation and the Miller loop iterate over */
	fprintf(OUT, " famname=%s parname=%s", ep_curve_is_pairf() == EP_BN ? "EP_BN" : ep_curve_is_pairf() == EP_B12 ? "EP_B12" : "other",
		ep_param_get() == SM9_P256 ? "SM9_P256" : "other");
	fprintf(OUT, " optbtwo=%d", ep_curve_opt_b() == RLC_TWO);
#if PP_MAP == OATEP
	fprintf(OUT, " ppmap=OATEP");
#elif PP_MAP == TATEP
	fprintf(OUT, " ppmap=TATEP");
#elif PP_MAP == WEILP
	fprintf(OUT, " ppmap=WEILP");
#endif
	{
		int l = 0; const int *b = fp_prime_get_par_sps(&l);
		fprintf(OUT, " sps=");
		if (l == 0 || b == NULL) fprintf(OUT, ".");
		for (int i = 0; i < l; i++) fprintf(OUT, "%s%d", i ? "," : "", b[i]);
	}
	/* what g1_is_valid / g2_is_valid / gt_is_valid branch on: the G1 cofactor, whether the endomorphism branches are compiled in,
	 * the curve id test of the B12 branch, and the constants of ep_psi / ep2_frb the fast tests apply */
	{
		bn_t h1; bn_null(h1); bn_new(h1); ep_curve_get_cof(h1);
		fprintf(OUT, " h1="); raw_print(h1->dp, h1->used, 0);
		bn_free(h1);
#if defined(EP_ENDOM)
		fprintf(OUT, " vendom=1");
		fprintf(OUT, " vbeta="); if (ep_curve_is_endom()) fp_pv(ep_curve_get_beta()); else fprintf(OUT, "0");
#else
		fprintf(OUT, " vendom=0 vbeta=0");
#endif
		fprintf(OUT, " vb383=%d", core_get()->ep_id == B12_383);
		fprintf(OUT, " vfrb0="); fp2_printx(core_get()->ep2_frb[0]);
		fprintf(OUT, " vfrb1="); fp2_printx(core_get()->ep2_frb[1]);
	}
	fputc('\n', OUT);
}

/* fexp sep|ali <a> : the final exponentiation pp_exp_k12 on an ARBITRARY element of Fp12 (not only Miller-loop outputs);
 * "ali": result written over the operand (how pp_map_* call it) */
static void op_fexp(int argc, char **argv) {
	if (argc < 3) { fprintf(OUT, "bad-args\n"); return; }
	int caught = 0; fp12_t a, c;
	fp12_null(a); fp12_new(a); fp12_null(c); fp12_new(c);
	if (!fp12_tok(a, argv[2])) { fprintf(OUT, "bad-args\n"); return; }
	fp12_zero(c);
	RLC_TRY {
		if (!strcmp(argv[1], "ali")) { fp12_copy(c, a); pp_exp_k12(c, c); }
		else if (!strcmp(argv[1], "sep")) pp_exp_k12(c, a);
		else { fprintf(OUT, "unknown-fexp\n"); return; }
	} RLC_CATCH_ANY { caught = 1; }
	if (take_err() || caught) fprintf(OUT, "err"); else fp12_out(c);
	fputc('\n', OUT);
}

/* fcyc sep|ali <a> : fp12_conv_cyc, the easy part (p^6 - 1)(p^2 + 1) */
static void op_fcyc(int argc, char **argv) {
	if (argc < 3) { fprintf(OUT, "bad-args\n"); return; }
	int caught = 0; fp12_t a, c;
	fp12_null(a); fp12_new(a); fp12_null(c); fp12_new(c);
	if (!fp12_tok(a, argv[2])) { fprintf(OUT, "bad-args\n"); return; }
	fp12_zero(c);
	RLC_TRY {
		if (!strcmp(argv[1], "ali")) { fp12_copy(c, a); fp12_conv_cyc(c, c); }
		else fp12_conv_cyc(c, a);
	} RLC_CATCH_ANY { caught = 1; }
	if (take_err() || caught) fprintf(OUT, "err"); else fp12_out(c);
	fputc('\n', OUT);
}

/* expsps sep|ali <a> pos|neg <b0,b1,...|.> : fp12_exp_cyc_sps on a (cyclotomic) element with an arbitrary sparse form */
static void op_expsps(int argc, char **argv) {
	if (argc < 5) { fprintf(OUT, "bad-args\n"); return; }
	int caught = 0, b[64], l = 0; fp12_t a, c;
	fp12_null(a); fp12_new(a); fp12_null(c); fp12_new(c);
	if (!fp12_tok(a, argv[2])) { fprintf(OUT, "bad-args\n"); return; }
	if (strcmp(argv[4], ".")) {
		const char *p = argv[4];
		while (*p && l < 64) {
			int v = parse_int(p);
			/* bound the number of squarings the line can ask for */
			if (v > 4096 || v < -4096) { fprintf(OUT, "bad-args\n"); return; }
			b[l++] = v;
			p = strchr(p, ',');
			if (!p) break;
			p++;
		}
	}
	fp12_zero(c);
	RLC_TRY {
		if (!strcmp(argv[1], "ali")) { fp12_copy(c, a); fp12_exp_cyc_sps(c, c, b, l, !strcmp(argv[3], "neg") ? RLC_NEG : RLC_POS); }
		else fp12_exp_cyc_sps(c, a, b, l, !strcmp(argv[3], "neg") ? RLC_NEG : RLC_POS);
	} RLC_CATCH_ANY { caught = 1; }
	if (take_err() || caught) fprintf(OUT, "err"); else fp12_out(c);
	fputc('\n', OUT);
}

/* pcv g1|g2|gt <element> : the validity predicates */
static void op_pcv(int argc, char **argv) {
	if (argc < 3) { fprintf(OUT, "bad-args\n"); return; }
	int caught = 0, r = -1;
	RLC_TRY {
		if (!strcmp(argv[1], "g1")) { ep_t p; ep_null(p); ep_new(p); ep_tok(p, argv[2]); r = g1_is_valid(p); }
		else if (!strcmp(argv[1], "g2")) { ep2_t p; ep2_null(p); ep2_new(p); ep2_tok(p, argv[2]); r = g2_is_valid(p); }
		else if (!strcmp(argv[1], "gt")) { fp12_t a; fp12_null(a); fp12_new(a); if (!fp12_tok(a, argv[2])) { fprintf(OUT, "bad-args\n"); return; } r = gt_is_valid(a); }
		else { fprintf(OUT, "unknown-pcv\n"); return; }
	} RLC_CATCH_ANY { caught = 1; }
	if (take_err() || caught) fprintf(OUT, "err\n"); else fprintf(OUT, "r=%d\n", r);
}

/* gtel gen <j> | cyc <a> | pow <a> <k> : sources of target-group elements (computed by the library; the driver decides
 * membership itself): generator^j, the image of a under the 'easy part' (p^6-1)(p^2+1) (cyclotomic subgroup, order need
 * not divide r), a^k by fp12_exp_basic-like square and multiply */
static void op_gtel(int argc, char **argv) {
	if (argc < 3) { fprintf(OUT, "bad-args\n"); return; }
	int caught = 0; raw_t r; bn_t k; fp12_t a, c;
	bn_null(k); bn_new(k); fp12_null(a); fp12_new(a); fp12_null(c); fp12_new(c);
	RLC_TRY {
		if (!strcmp(argv[1], "gen")) { raw_parse(&r, argv[2]); raw_to_bn(k, &r); gt_get_gen(a); fp12_exp(c, a, k); }
		else if (!strcmp(argv[1], "cyc")) { if (!fp12_tok(a, argv[2])) { fprintf(OUT, "bad-args\n"); return; } fp12_conv_cyc(c, a); }
		else { fprintf(OUT, "unknown-gtel\n"); return; }
	} RLC_CATCH_ANY { caught = 1; }
	if (take_err() || caught) fprintf(OUT, "err"); else fp12_out(c);
	fputc('\n', OUT);
}

/* g1m / g2m <variant> <P> <k> ; variants: mul, sec, any, gen, dig, fix */
static void op_gm(int argc, char **argv) {
	if (argc < 4) { fprintf(OUT, "bad-args\n"); return; }
	int two = argv[0][1] == '2', caught = 0;
	const char *v = argv[1];
	raw_t r; bn_t k; bn_null(k); bn_new(k);
	raw_parse(&r, argv[3]); raw_to_bn(k, &r);
	if (!two) {
		ep_t p, c; ep_null(p); ep_null(c); ep_new(p); ep_new(c);
		static ep_t tab[RLC_EP_TABLE_MAX];
		ep_tok(p, argv[2]);
		RLC_TRY {
			if (!strcmp(v, "mul!")) { ep_copy(c, p); g1_mul(c, c, k); }
			else if (!strcmp(v, "sec!")) { ep_copy(c, p); g1_mul_sec(c, c, k); }
			else if (!strcmp(v, "dig!")) { ep_copy(c, p); g1_mul_dig(c, c, k->dp[0]); }
			else if (!strcmp(v, "mul")) g1_mul(c, p, k);
			else if (!strcmp(v, "sec")) g1_mul_sec(c, p, k);
			else if (!strcmp(v, "any")) g1_mul_any(c, p, k);
			else if (!strcmp(v, "gen")) g1_mul_gen(c, k);
			else if (!strcmp(v, "dig")) g1_mul_dig(c, p, k->dp[0]);
			else if (!strcmp(v, "fix")) { for (int i = 0; i < RLC_EP_TABLE_MAX; i++) { ep_null(tab[i]); ep_new(tab[i]); } g1_mul_pre(tab, p); g1_mul_fix(c, (const ep_t *)tab, k); }
			else { fprintf(OUT, "unknown-gm\n"); return; }
		} RLC_CATCH_ANY { caught = 1; }
		if (take_err() || caught) fprintf(OUT, "err"); else ep_out(c);
	} else {
		ep2_t p, c; ep2_null(p); ep2_null(c); ep2_new(p); ep2_new(c);
		static ep2_t tab[RLC_EP_TABLE_MAX];
		ep2_tok(p, argv[2]);
		RLC_TRY {
			if (!strcmp(v, "mul!")) { ep2_copy(c, p); g2_mul(c, c, k); }
			else if (!strcmp(v, "sec!")) { ep2_copy(c, p); g2_mul_sec(c, c, k); }
			else if (!strcmp(v, "dig!")) { ep2_copy(c, p); g2_mul_dig(c, c, k->dp[0]); }
			else if (!strcmp(v, "mul")) g2_mul(c, p, k);
			else if (!strcmp(v, "sec")) g2_mul_sec(c, p, k);
			else if (!strcmp(v, "any")) g2_mul_any(c, p, k);
			else if (!strcmp(v, "gen")) g2_mul_gen(c, k);
			else if (!strcmp(v, "dig")) g2_mul_dig(c, p, k->dp[0]);
			else if (!strcmp(v, "fix")) { for (int i = 0; i < RLC_EP_TABLE_MAX; i++) { ep2_null(tab[i]); ep2_new(tab[i]); } g2_mul_pre(tab, p); g2_mul_fix(c, (const ep2_t *)tab, k); }
			else { fprintf(OUT, "unknown-gm\n"); return; }
		} RLC_CATCH_ANY { caught = 1; }
		if (take_err() || caught) fprintf(OUT, "err"); else ep2_out(c);
	}
	fputc('\n', OUT);
}

/* g1s / g2s <variant> <P> <k> <Q> <m> ; variants sim, gen */
static void op_gs(int argc, char **argv) {
	if (argc < 6) { fprintf(OUT, "bad-args\n"); return; }
	int two = argv[0][1] == '2', caught = 0;
	raw_t r; bn_t k, m; bn_null(k); bn_new(k); bn_null(m); bn_new(m);
	raw_parse(&r, argv[3]); raw_to_bn(k, &r); raw_parse(&r, argv[5]); raw_to_bn(m, &r);
	if (!two) {
		ep_t p, q, c; ep_null(p); ep_null(q); ep_null(c); ep_new(p); ep_new(q); ep_new(c);
		ep_tok(p, argv[2]); ep_tok(q, argv[4]);
		RLC_TRY { if (!strcmp(argv[1], "gen")) g1_mul_sim_gen(c, k, q, m); else g1_mul_sim(c, p, k, q, m); } RLC_CATCH_ANY { caught = 1; }
		if (take_err() || caught) fprintf(OUT, "err"); else ep_out(c);
	} else {
		ep2_t p, q, c; ep2_null(p); ep2_null(q); ep2_null(c); ep2_new(p); ep2_new(q); ep2_new(c);
		ep2_tok(p, argv[2]); ep2_tok(q, argv[4]);
		RLC_TRY { if (!strcmp(argv[1], "gen")) g2_mul_sim_gen(c, k, q, m); else g2_mul_sim(c, p, k, q, m); } RLC_CATCH_ANY { caught = 1; }
		if (take_err() || caught) fprintf(OUT, "err"); else ep2_out(c);
	}
	fputc('\n', OUT);
}

/* gte <variant> <a> <k> [<c> <d>] ; variants: exp, sec, dig, gen, sim */
static void op_gte(int argc, char **argv) {
	if (argc < 4) { fprintf(OUT, "bad-args\n"); return; }
	const char *v = argv[1];
	int caught = 0; raw_t r; bn_t k, d; fp12_t a, b, c;
	bn_null(k); bn_new(k); bn_null(d); bn_new(d); fp12_null(a); fp12_new(a); fp12_null(b); fp12_new(b); fp12_null(c); fp12_new(c);
	if (!fp12_tok(a, argv[2])) { fprintf(OUT, "bad-args\n"); return; }
	raw_parse(&r, argv[3]); raw_to_bn(k, &r);
	RLC_TRY {
		/* "exp!", "sec!", "dig!": the result is written over the base */
		if (!strcmp(v, "exp!")) { fp12_copy(c, a); gt_exp(c, c, k); }
		else if (!strcmp(v, "sec!")) { fp12_copy(c, a); gt_exp_sec(c, c, k); }
		else if (!strcmp(v, "dig!")) { fp12_copy(c, a); gt_exp_dig(c, c, k->dp[0]); }
		else if (!strcmp(v, "exp")) gt_exp(c, a, k);
		else if (!strcmp(v, "sec")) gt_exp_sec(c, a, k);
		else if (!strcmp(v, "dig")) gt_exp_dig(c, a, k->dp[0]);
		else if (!strcmp(v, "gen")) gt_exp_gen(c, k);
		else if (!strcmp(v, "sim")) {
			if (argc < 6 || !fp12_tok(b, argv[4])) { fprintf(OUT, "bad-args\n"); return; }
			raw_parse(&r, argv[5]); raw_to_bn(d, &r);
			gt_exp_sim(c, a, k, b, d);
		}
		else { fprintf(OUT, "unknown-gte\n"); return; }
	} RLC_CATCH_ANY { caught = 1; }
	if (take_err() || caught) fprintf(OUT, "err"); else fp12_out(c);
	fputc('\n', OUT);
}

static void pair(const char *v, fp12_t r, const ep_t p, const ep2_t q) {
	if (!strcmp(v, "map")) pc_map(r, p, q);
	else if (!strcmp(v, "tatep")) pp_map_tatep_k12(r, p, q);
	else if (!strcmp(v, "weilp")) pp_map_weilp_k12(r, p, q);
	else if (!strcmp(v, "oatep")) pp_map_oatep_k12(r, p, q);
	else RLC_THROW(ERR_NO_VALID);
}

/* pp <variant> <P> <Q> : the pairing value */
static void op_pp(int argc, char **argv) {
	if (argc < 4) { fprintf(OUT, "bad-args\n"); return; }
	int caught = 0; ep_t p; ep2_t q; fp12_t e;
	ep_null(p); ep_new(p); ep2_null(q); ep2_new(q); fp12_null(e); fp12_new(e);
	ep_tok(p, argv[2]); ep2_tok(q, argv[3]);
	RLC_TRY { pair(argv[1], e, p, q); } RLC_CATCH_ANY { caught = 1; }
	if (take_err() || caught) fprintf(OUT, "err"); else fp12_out(e);
	fputc('\n', OUT);
}

/* ppb <variant> <P> <Q> <aP> <bQ> : e(P,Q) and e(aP,bQ) (the multiples are supplied by the generator and re-checked by the
 * driver): printed as "<e(P,Q)> <e(aP,bQ)>" */
static void op_ppb(int argc, char **argv) {
	if (argc < 6) { fprintf(OUT, "bad-args\n"); return; }
	int caught = 0; ep_t p, ap; ep2_t q, bq; fp12_t e1, e2;
	ep_null(p); ep_new(p); ep_null(ap); ep_new(ap); ep2_null(q); ep2_new(q); ep2_null(bq); ep2_new(bq);
	fp12_null(e1); fp12_new(e1); fp12_null(e2); fp12_new(e2);
	ep_tok(p, argv[2]); ep2_tok(q, argv[3]); ep_tok(ap, argv[4]); ep2_tok(bq, argv[5]);
	RLC_TRY { pair(argv[1], e1, p, q); pair(argv[1], e2, ap, bq); } RLC_CATCH_ANY { caught = 1; }
	if (take_err() || caught) fprintf(OUT, "err"); else { fp12_out(e1); fputc(' ', OUT); fp12_out(e2); }
	fputc('\n', OUT);
}

/* pps <variant> <n> <P1> <Q1> ... : multi-pairing, then the individual pairings: "<multi> <e1> <e2> ..." */
static void op_pps(int argc, char **argv) {
	if (argc < 3) { fprintf(OUT, "bad-args\n"); return; }
	int n = parse_int(argv[2]), caught = 0;
	if (n < 0 || n > 8 || argc < 3 + 2 * n) { fprintf(OUT, "bad-args\n"); return; }
	static ep_t ps[8]; static ep2_t qs[8]; fp12_t m, e[8];
	fp12_null(m); fp12_new(m);
	for (int i = 0; i < n; i++) { ep_null(ps[i]); ep_new(ps[i]); ep2_null(qs[i]); ep2_new(qs[i]); fp12_null(e[i]); fp12_new(e[i]);
		ep_tok(ps[i], argv[3 + 2 * i]); ep2_tok(qs[i], argv[4 + 2 * i]); }
	const char *v = argv[1];
	RLC_TRY {
		if (!strcmp(v, "map")) pc_map_sim(m, ps, qs, n);
		else if (!strcmp(v, "tatep")) pp_map_sim_tatep_k12(m, ps, qs, n);
		else if (!strcmp(v, "weilp")) pp_map_sim_weilp_k12(m, ps, qs, n);
		else if (!strcmp(v, "oatep")) pp_map_sim_oatep_k12(m, ps, qs, n);
		else RLC_THROW(ERR_NO_VALID);
		for (int i = 0; i < n; i++) pair(v, e[i], ps[i], qs[i]);
	} RLC_CATCH_ANY { caught = 1; }
	if (take_err() || caught) { fprintf(OUT, "err\n"); return; }
	fp12_out(m);
	for (int i = 0; i < n; i++) { fputc(' ', OUT); fp12_out(e[i]); }
	fputc('\n', OUT);
}

/* ppms <variant> <n> <P1> <Q1> ... : the multi-pairing value alone (compared with the Miller-loop model) */
static void op_ppms(int argc, char **argv) {
	if (argc < 3) { fprintf(OUT, "bad-args\n"); return; }
	int n = parse_int(argv[2]), caught = 0;
	if (n < 0 || n > 8 || argc < 3 + 2 * n) { fprintf(OUT, "bad-args\n"); return; }
	static ep_t ps[8]; static ep2_t qs[8]; fp12_t m;
	fp12_null(m); fp12_new(m);
	for (int i = 0; i < n; i++) { ep_null(ps[i]); ep_new(ps[i]); ep2_null(qs[i]); ep2_new(qs[i]);
		ep_tok(ps[i], argv[3 + 2 * i]); ep2_tok(qs[i], argv[4 + 2 * i]); }
	const char *v = argv[1];
	RLC_TRY {
		if (!strcmp(v, "map")) pc_map_sim(m, ps, qs, n);
		else if (!strcmp(v, "tatep")) pp_map_sim_tatep_k12(m, ps, qs, n);
		else if (!strcmp(v, "weilp")) pp_map_sim_weilp_k12(m, ps, qs, n);
		else if (!strcmp(v, "oatep")) pp_map_sim_oatep_k12(m, ps, qs, n);
		else RLC_THROW(ERR_NO_VALID);
	} RLC_CATCH_ANY { caught = 1; }
	if (take_err() || caught) { fprintf(OUT, "err\n"); return; }
	fp12_out(m); fputc('\n', OUT);
}

/* lfn dbl <T> <P> | add <T> <Q> <P> | dbll <T in G1> <Q> | addl <T in G1> <P> <Q> : the line functions of the Miller loops, called the
 * way pp_mil_k12 / pp_mil_lit_k12 call them (precomputed (3x_P, -y_P) resp. -Q for the doublings); T may be given in projective
 * coordinates ("…,z,P" tokens); prints "<l> <the updated running point, normalised>" */
static void op_lfn(int argc, char **argv) {
	if (argc < 4) { fprintf(OUT, "bad-args\n"); return; }
	int caught = 0; fp12_t l; ep2_t t2, q2, nq; ep_t t1, p1, _p;
	fp12_null(l); fp12_new(l); ep2_null(t2); ep2_new(t2); ep2_null(q2); ep2_new(q2); ep2_null(nq); ep2_new(nq);
	ep_null(t1); ep_new(t1); ep_null(p1); ep_new(p1); ep_null(_p); ep_new(_p);
	const char *v = argv[1];
	int lit = 0;
	fp12_zero(l);
	RLC_TRY {
		if (!strcmp(v, "dbl")) {
			ep2_tok(t2, argv[2]); ep_tok(p1, argv[3]);
#if EP_ADD == BASIC
			ep_neg(_p, p1);
#else
			fp_add(_p->x, p1->x, p1->x); fp_add(_p->x, _p->x, p1->x); fp_neg(_p->y, p1->y);
#endif
			pp_dbl_k12(l, t2, t2, _p);
		} else if (!strcmp(v, "add") && argc >= 5) {
			ep2_tok(t2, argv[2]); ep2_tok(q2, argv[3]); ep_tok(p1, argv[4]);
			pp_add_k12(l, t2, q2, p1);
		} else if (!strcmp(v, "dbll")) {
			lit = 1; ep_tok(t1, argv[2]); ep2_tok(q2, argv[3]); ep2_neg(nq, q2);
			pp_dbl_lit_k12(l, t1, t1, nq);
		} else if (!strcmp(v, "addl") && argc >= 5) {
			lit = 1; ep_tok(t1, argv[2]); ep_tok(p1, argv[3]); ep2_tok(q2, argv[4]);
			pp_add_lit_k12(l, t1, p1, q2);
		} else { fprintf(OUT, "unknown-lfn\n"); return; }
	} RLC_CATCH_ANY { caught = 1; }
	if (take_err() || caught) { fprintf(OUT, "err\n"); return; }
	fp12_out(l); fputc(' ', OUT);
	if (lit) ep_out(t1); else ep2_out(t2);
	fputc('\n', OUT);
}

const op_t ops_pc[] = {
	{"pc_param", op_pc_param}, {"pcv", op_pcv}, {"gtel", op_gtel}, {"g1m", op_gm}, {"g2m", op_gm}, {"g1s", op_gs}, {"g2s", op_gs},
	{"gte", op_gte}, {"pp", op_pp}, {"ppb", op_ppb}, {"pps", op_pps},
	{"fexp", op_fexp}, {"fcyc", op_fcyc}, {"expsps", op_expsps}, {"ppm", op_pp}, {"ppms", op_ppms}, {"lfn", op_lfn},
	{NULL, NULL}
};
