/* Line-protocol oracle: calls the real library in-process, one operation per input line.
 * Output: one line per input line. The python side diffs it against the Lean driver. */
#include "oracle.h"

FILE *OUT;

int hexval(int c) {
	if (c >= '0' && c <= '9') return c - '0';
	if (c >= 'a' && c <= 'f') return c - 'a' + 10;
	if (c >= 'A' && c <= 'F') return c - 'A' + 10;
	return -1;
}

static void raw_fill(raw_t *r, const char *s, int len) {
	int hpd = RLC_DIG / 4;
	memset(r->d, 0, sizeof(r->d));
	for (int i = 0; i < len; i++) {
		int v = hexval(s[len - 1 - i]);
		if (v < 0) v = 0;
		int di = i / hpd;
		if (di >= (int)(sizeof(r->d) / sizeof(dig_t))) break;
		r->d[di] |= ((dig_t)v) << (4 * (i % hpd));
	}
}

void raw_parse(raw_t *r, const char *s) {
	r->neg = 0;
	if (*s == '-') { r->neg = 1; s++; }
	int len = strlen(s);
	raw_fill(r, s, len);
	int hpd = RLC_DIG / 4;
	int n = (len + hpd - 1) / hpd;
	if (n < 1) n = 1;
	while (n > 1 && r->d[n - 1] == 0) n--;
	r->n = n;
}

void raw_parse_n(raw_t *r, const char *s, int n) {
	r->neg = 0;
	if (*s == '-') { r->neg = 1; s++; }
	raw_fill(r, s, strlen(s));
	r->n = n;
}

void raw_print(const dig_t *d, int n, int neg) {
	/* fixed width: n digits, big-endian, all hex chars kept */
	if (neg) fputc('-', OUT);
	if (n == 0) { fputc('.', OUT); return; }
	for (int i = n - 1; i >= 0; i--) {
		fprintf(OUT, "%0*llx", RLC_DIG / 4, (unsigned long long)d[i]);
	}
}

void raw_to_bn(bn_t b, const raw_t *r) {
	if (r->n > RLC_BN_SIZE) { b->used = 1; b->dp[0] = 0; b->sign = RLC_POS; return; }
	for (int i = 0; i < r->n; i++) b->dp[i] = r->d[i];
	b->used = r->n;
	b->sign = r->neg ? RLC_NEG : RLC_POS;
}

/* value in minimal hex (leading zero chars stripped), then :u<used> ; sign shown even for zero */
void bn_out(const bn_t b) {
	char buf[(RLC_BN_SIZE + 2) * (RLC_DIG / 4) + 4];
	int p = 0;
	int used = b->used;
	if (used < 0 || used > RLC_BN_SIZE) { fprintf(OUT, "BAD-USED:%d", used); return; }
	for (int i = used - 1; i >= 0; i--) {
		p += sprintf(buf + p, "%0*llx", RLC_DIG / 4, (unsigned long long)b->dp[i]);
	}
	buf[p] = 0;
	char *s = buf;
	while (*s == '0' && s[1] != 0) s++;
	if (p == 0) s = (char *)"0";
	fprintf(OUT, "%s%s:u%d", b->sign == RLC_NEG ? "-" : "", s, used);
}

int parse_int(const char *s) { return (int)strtol(s, NULL, 10); }
unsigned long long parse_u64(const char *s) { return strtoull(s, NULL, 16); }

int bytes_parse(uint8_t *out, int max, const char *s) {
	if (s[0] == '.' ) return 0;
	int len = strlen(s) / 2;
	if (len > max) len = max;
	for (int i = 0; i < len; i++) out[i] = (uint8_t)(hexval(s[2 * i]) * 16 + hexval(s[2 * i + 1]));
	return len;
}

void bytes_print(const uint8_t *b, int n) {
	if (n == 0) { fputc('.', OUT); return; }
	for (int i = 0; i < n; i++) fprintf(OUT, "%02x", b[i]);
}

int take_err(void) {
	int e = (err_get_code() != RLC_OK);
	/* a throw outside any try block leaves ctx->last pointing at ctx->error: reset */
	ctx_t *ctx = core_get();
	ctx->last = NULL;
	ctx->caught = 0;
	return e;
}

/* ---------------------------------------------------------------------------------------- */
#ifndef ORACLE_NO_BN
extern const op_t ops_bn[];
#endif
#ifdef ORACLE_FP
extern const op_t ops_fp[];
#endif
#ifdef ORACLE_NT
extern const op_t ops_nt[];
#endif
#ifdef ORACLE_EP
extern const op_t ops_ep[];
#endif
#ifdef ORACLE_MD
extern const op_t ops_md[];
#endif
#ifdef ORACLE_PROGS
extern const op_t ops_prog[];
#endif

/* extension slots: -DORACLE_EXTRA1=ops_xyz links the table `const op_t ops_xyz[]` of an additional ops_*.c file */
#ifdef ORACLE_EXTRA1
extern const op_t ORACLE_EXTRA1[];
#endif
#ifdef ORACLE_EXTRA2
extern const op_t ORACLE_EXTRA2[];
#endif
#ifdef ORACLE_EXTRA3
extern const op_t ORACLE_EXTRA3[];
#endif
#ifdef ORACLE_EXTRA4
extern const op_t ORACLE_EXTRA4[];
#endif

static const op_t *tables[] = {
#ifdef ORACLE_EXTRA1
	ORACLE_EXTRA1,
#endif
#ifdef ORACLE_EXTRA2
	ORACLE_EXTRA2,
#endif
#ifdef ORACLE_EXTRA3
	ORACLE_EXTRA3,
#endif
#ifdef ORACLE_EXTRA4
	ORACLE_EXTRA4,
#endif
#ifndef ORACLE_NO_BN
	ops_bn,
#endif
#if defined(ORACLE_MD)
	ops_md,
#endif
#ifdef ORACLE_FP
	ops_fp,
#endif
#ifdef ORACLE_NT
	ops_nt,
#endif
#ifdef ORACLE_EP
	ops_ep,
#endif
#ifdef ORACLE_PROGS
	ops_prog,
#endif
	NULL
};

static void op_cfg(int argc, char **argv) {
	(void)argc; (void)argv;
	fprintf(OUT, "cfg w=%d size=%d digs=%d", (int)RLC_DIG, (int)RLC_BN_SIZE, (int)RLC_BN_DIGS);
#ifdef ORACLE_FP
	fprintf(OUT, " fpbits=%d fpdigs=%d", (int)RLC_FP_BITS, (int)RLC_FP_DIGS);
#endif
	fprintf(OUT, "\n");
}

int main(int argc, char **argv) {
	(void)argc; (void)argv;
	OUT = stdout;
	static char line[1 << 22];
	char *tok[MAXTOK];
	if (core_init() != RLC_OK) { fprintf(stderr, "core_init failed\n"); return 2; }
	while (fgets(line, sizeof(line), stdin)) {
		int n = 0;
		char *p = strtok(line, " \t\r\n");
		while (p && n < MAXTOK) { tok[n++] = p; p = strtok(NULL, " \t\r\n"); }
		if (n == 0) { fprintf(OUT, "\n"); continue; }
		if (tok[0][0] == '#') { fprintf(OUT, "#\n"); continue; }
		if (strcmp(tok[0], "cfg") == 0) { op_cfg(n, tok); continue; }
		int found = 0;
		for (int t = 0; tables[t] && !found; t++) {
			for (const op_t *o = tables[t]; o->name; o++) {
				if (strcmp(o->name, tok[0]) == 0) {
					err_get_code();
					o->fn(n, tok);
					found = 1;
					break;
				}
			}
		}
		if (!found) fprintf(OUT, "unknown-op %s\n", tok[0]);
		fflush(OUT);
	}
	core_clean();
	return 0;
}
