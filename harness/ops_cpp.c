/* pairing-based signature schemes of the line protocol (property C05).
 * G1 points: "inf" | "<x>,<y>" (as in ops_cp.c).  G2 elements (points of the twist over Fp2):
 *   "k:<hex>"                     the multiple [k]g2 of the generator, computed here with g2_mul_gen (an honest public key whose
 *                                 discrete logarithm the specification knows)
 *   "raw:<x0>,<x1>,<y0>,<y1>"     the affine coordinates as given (x = x0 + x1 u), no validation
 *   "inf"                         the identity
 * Context line: sigpc_param <id> (pairing-friendly curve; prints the twist parameters as well). */
#include "oracle.h"
#include "relic_ep.h"
#include "relic_epx.h"
#include "relic_pc.h"
#include "relic_cp.h"
#include "relic_rand.h"

#define MAXM (1 << 16)
static uint8_t M1[MAXM + 64];
static uint8_t MB[8][1024];

void ep_tok(ep_t p, const char *tok);
void ep_out(const ep_t p);

static void seed_tok(const char *tok) {
	static uint8_t sb[4096];
	int n = bytes_parse(sb, sizeof(sb), tok);
	if (n == 0) { sb[0] = 0; n = 1; }
	core_get()->seeded = 0;
	rand_seed(sb, n);
}

static void bn_tok(bn_t b, const char *tok) {
	raw_t r;
	raw_parse(&r, tok);
	raw_to_bn(b, &r);
	if (b->used == 1 && b->dp[0] == 0) b->sign = RLC_POS;
}

static void bn_hex(const bn_t b) {
	int started = 0;
	if (b->sign == RLC_NEG && !bn_is_zero(b)) fputc('-', OUT);
	for (int i = b->used - 1; i >= 0; i--) {
		if (!started) {
			if (b->dp[i] == 0 && i > 0) continue;
			fprintf(OUT, "%llx", (unsigned long long)b->dp[i]);
			started = 1;
		} else fprintf(OUT, "%0*llx", RLC_DIG / 4, (unsigned long long)b->dp[i]);
	}
	if (!started) fputc('0', OUT);
}

static void fp_tok(fp_t a, const char *tok) {
	raw_t r; bn_t t;
	raw_parse(&r, tok);
	bn_null(t); bn_new(t); raw_to_bn(t, &r);
	if (bn_is_zero(t)) fp_zero(a); else fp_prime_conv(a, t);
}

static void fp_hex(const fp_t a) {
	bn_t t; bn_null(t); bn_new(t);
	fp_prime_back(t, a);
	bn_hex(t);
}

/* returns 0 on a malformed token */
static int g2_tok(g2_t q, const char *tok) {
	if (!strcmp(tok, "inf")) { g2_set_infty(q); return 1; }
	if (!strncmp(tok, "k:", 2)) {
		bn_t k; bn_null(k); bn_new(k);
		bn_tok(k, tok + 2);
		g2_mul_gen(q, k);
		return 1;
	}
	if (!strncmp(tok, "raw:", 4)) {
		char buf[1200]; char *f[4]; int n = 0;
		strncpy(buf, tok + 4, sizeof(buf) - 1); buf[sizeof(buf) - 1] = 0;
		for (char *s = strtok(buf, ","); s && n < 4; s = strtok(NULL, ",")) f[n++] = s;
		if (n != 4) return 0;
		fp_tok(q->x[0], f[0]); fp_tok(q->x[1], f[1]); fp_tok(q->y[0], f[2]); fp_tok(q->y[1], f[3]);
		fp2_set_dig(q->z, 1);
		q->coord = BASIC;
		return 1;
	}
	return 0;
}

static void g2_out(const g2_t p) {
	g2_t t; g2_null(t); g2_new(t);
	if (g2_is_infty(p)) { fprintf(OUT, "inf"); return; }
	g2_norm(t, p);
	fp_hex(t->x[0]); fputc(',', OUT); fp_hex(t->x[1]); fputc(',', OUT); fp_hex(t->y[0]); fputc(',', OUT); fp_hex(t->y[1]);
}

static void ver_out(int v, int caught) {
	int e = take_err();
	if (caught) fprintf(OUT, "err\n");
	else fprintf(OUT, e ? "v=%d err\n" : "v=%d\n", v);
}

#define NEWBN(x) bn_t x; bn_null(x); bn_new(x)
#define NEWG1(x) g1_t x; g1_null(x); g1_new(x)
#define NEWG2(x) g2_t x; g2_null(x); g2_new(x)
#define NEWGT(x) gt_t x; gt_null(x); gt_new(x)
#define BAD() do { fprintf(OUT, "bad-args\n"); return; } while (0)

/* sigpc_param <id> : BN_P256 = 23 (what pc_param_set_any selects), SM9_P256 = 24 (M-type twist, selected by hand: no pc_* entry point does) */
static void op_pc_param(int argc, char **argv) {
	if (argc < 2) BAD();
	int id = parse_int(argv[1]), caught = 0, rc = RLC_OK;
	RLC_TRY {
		if (id == 23) rc = pc_param_set_any();
		else { ep_param_set(id); ep2_curve_set_twist(id == 24 ? RLC_EP_MTYPE : RLC_EP_DTYPE); }
	} RLC_CATCH_ANY { caught = 1; }
	if (take_err() || caught || rc != RLC_OK || !ep_curve_is_pairf() || ep_param_get() != id) { fprintf(OUT, "err\n"); return; }
	ep_t g; bn_t n, h; ep_null(g); ep_new(g); bn_null(n); bn_new(n); bn_null(h); bn_new(h);
	ep_curve_get_gen(g); ep_curve_get_ord(n); ep_curve_get_cof(h);
	fprintf(OUT, "ep_param id=%d p=", id);
	raw_print(fp_prime_get(), RLC_FP_DIGS, 0);
	fprintf(OUT, " a="); fp_hex(ep_curve_get_a());
	fprintf(OUT, " b="); fp_hex(ep_curve_get_b());
	fprintf(OUT, " gx="); fp_hex(g->x); fprintf(OUT, " gy="); fp_hex(g->y);
	fprintf(OUT, " n="); raw_print(n->dp, n->used, 0);
	fprintf(OUT, " h="); raw_print(h->dp, h->used, 0);
	fprintf(OUT, " endom=%d pairf=%d super=%d opta=%d optb=%d", ep_curve_is_endom(), ep_curve_is_pairf(), ep_curve_is_super(),
		ep_curve_opt_a(), ep_curve_opt_b());
	if (ep_curve_is_endom()) { fprintf(OUT, " beta="); fp_hex(ep_curve_get_beta()); }
	fprintf(OUT, " embed=%d level=%d", ep_curve_embed(), ep_param_level());
	/* the twist: y^2 = x^3 + a' x + b' over Fp2 = Fp[u]/(u^2 - qnr) */
	g2_t g2; g2_null(g2); g2_new(g2); g2_get_gen(g2);
	fp_t *ta = ep2_curve_get_a(), *tb = ep2_curve_get_b();
	fprintf(OUT, " qnr=%d ta0=", fp_prime_get_qnr()); fp_hex(ta[0]); fprintf(OUT, " ta1="); fp_hex(ta[1]);
	fprintf(OUT, " tb0="); fp_hex(tb[0]); fprintf(OUT, " tb1="); fp_hex(tb[1]);
	fprintf(OUT, " g2="); g2_out(g2);
	NEWBN(o2); pc_get_ord(o2);
	fprintf(OUT, " pcord="); bn_hex(o2); fputc('\n', OUT);
}

/* message as the schemes that sign integers read it */
static int msg_tok(const char *tok) { return bytes_parse(M1, MAXM, tok); }

/* ------------------------------------------------------------------------------------------------------------- */
/* BLS */

static void op_bls_gen(int argc, char **argv) {
	if (argc < 2) BAD();
	NEWBN(d); NEWG2(q); int rc = -1, caught = 0;
	seed_tok(argv[1]);
	RLC_TRY { rc = cp_bls_gen(d, q); } RLC_CATCH_ANY { caught = 1; }
	if (take_err() || caught || rc != RLC_OK) { fprintf(OUT, "err\n"); return; }
	fprintf(OUT, "d="); bn_hex(d); fprintf(OUT, " q="); g2_out(q); fputc('\n', OUT);
}

/* bls_sig <msg> <d> */
static void op_bls_sig(int argc, char **argv) {
	if (argc < 3) BAD();
	NEWBN(d); NEWG1(s); NEWG1(hm); int rc = -1, caught = 0;
	int ml = msg_tok(argv[1]); bn_tok(d, argv[2]);
	RLC_TRY { rc = cp_bls_sig(s, M1, ml, d); g1_map(hm, M1, ml); } RLC_CATCH_ANY { caught = 1; }
	if (take_err() || caught || rc != RLC_OK) { fprintf(OUT, "err\n"); return; }
	fprintf(OUT, "s="); ep_out(s); fprintf(OUT, " hm="); ep_out(hm); fputc('\n', OUT);
}

/* bls_ver <sigma> <msg> <Q> */
static void op_bls_ver(int argc, char **argv) {
	if (argc < 4) BAD();
	NEWG1(s); NEWG1(hm); NEWG2(q); int v = -1, caught = 0;
	ep_tok(s, argv[1]); int ml = msg_tok(argv[2]);
	if (!g2_tok(q, argv[3])) BAD();
	RLC_TRY { g1_map(hm, M1, ml); v = cp_bls_ver(s, M1, ml, q); } RLC_CATCH_ANY { caught = 1; }
	fprintf(OUT, "hm="); if (caught) fprintf(OUT, "?"); else ep_out(hm); fputc(' ', OUT);
	ver_out(v, caught);
}

/* ------------------------------------------------------------------------------------------------------------- */
/* Boneh-Boyen short signatures and ZSS */

static void op_bbs_gen(int argc, char **argv) {
	if (argc < 2) BAD();
	NEWBN(d); NEWG2(q); NEWGT(z); int rc = -1, caught = 0;
	seed_tok(argv[1]);
	RLC_TRY { rc = cp_bbs_gen(d, q, z); } RLC_CATCH_ANY { caught = 1; }
	if (take_err() || caught || rc != RLC_OK) { fprintf(OUT, "err\n"); return; }
	fprintf(OUT, "d="); bn_hex(d); fprintf(OUT, " q="); g2_out(q); fputc('\n', OUT);
}

/* bbs_sig <hash> <msg> <d> */
static void op_bbs_sig(int argc, char **argv) {
	if (argc < 4) BAD();
	NEWBN(d); NEWG1(s); int rc = -1, caught = 0, hash = parse_int(argv[1]);
	int ml = msg_tok(argv[2]); bn_tok(d, argv[3]);
	RLC_TRY { rc = cp_bbs_sig(s, M1, ml, hash, d); } RLC_CATCH_ANY { caught = 1; }
	if (take_err() || caught || rc != RLC_OK) { fprintf(OUT, "err\n"); return; }
	fprintf(OUT, "s="); ep_out(s); fputc('\n', OUT);
}

/* bbs_ver <sigma> <hash> <msg> <Q> */
static void op_bbs_ver(int argc, char **argv) {
	if (argc < 5) BAD();
	NEWG1(s); NEWG2(q); NEWGT(z); int v = -1, caught = 0, hash = parse_int(argv[2]);
	ep_tok(s, argv[1]); int ml = msg_tok(argv[3]);
	if (!g2_tok(q, argv[4])) BAD();
	RLC_TRY { gt_get_gen(z); v = cp_bbs_ver(s, M1, ml, hash, q, z); } RLC_CATCH_ANY { caught = 1; }
	ver_out(v, caught);
}

static void op_zss_gen(int argc, char **argv) {
	if (argc < 2) BAD();
	NEWBN(d); NEWG1(q); NEWGT(z); int rc = -1, caught = 0;
	seed_tok(argv[1]);
	RLC_TRY { rc = cp_zss_gen(d, q, z); } RLC_CATCH_ANY { caught = 1; }
	if (take_err() || caught || rc != RLC_OK) { fprintf(OUT, "err\n"); return; }
	fprintf(OUT, "d="); bn_hex(d); fprintf(OUT, " q="); ep_out(q); fputc('\n', OUT);
}

/* zss_sig <hash> <msg> <d> */
static void op_zss_sig(int argc, char **argv) {
	if (argc < 4) BAD();
	NEWBN(d); NEWG2(s); int rc = -1, caught = 0, hash = parse_int(argv[1]);
	int ml = msg_tok(argv[2]); bn_tok(d, argv[3]);
	RLC_TRY { rc = cp_zss_sig(s, M1, ml, hash, d); } RLC_CATCH_ANY { caught = 1; }
	if (take_err() || caught || rc != RLC_OK) { fprintf(OUT, "err\n"); return; }
	fprintf(OUT, "s="); g2_out(s); fputc('\n', OUT);
}

/* zss_ver <sigma:G2> <hash> <msg> <Q:G1> */
static void op_zss_ver(int argc, char **argv) {
	if (argc < 5) BAD();
	NEWG2(s); NEWG1(q); NEWGT(z); int v = -1, caught = 0, hash = parse_int(argv[2]);
	if (!g2_tok(s, argv[1])) BAD();
	int ml = msg_tok(argv[3]); ep_tok(q, argv[4]);
	RLC_TRY { gt_get_gen(z); v = cp_zss_ver(s, M1, ml, hash, q, z); } RLC_CATCH_ANY { caught = 1; }
	ver_out(v, caught);
}

/* ------------------------------------------------------------------------------------------------------------- */
/* Camenisch-Lysyanskaya: A (cls), C with commitment randomness (cli), block messages (clb) */

#define MAXL 5

/* cls_gen <seed> ; cli_gen <seed> ; clb_gen <seed> <l> */
static void op_cl_gen(int argc, char **argv) {
	if (argc < 2) BAD();
	int kind = argv[0][2], l = kind == 'b' ? (argc > 2 ? parse_int(argv[2]) : 0) : 0, rc = -1, caught = 0;
	if (kind == 'b' && (l < 1 || l > MAXL)) BAD();
	NEWBN(t); NEWBN(u); bn_t v[MAXL]; NEWG2(x); NEWG2(y); g2_t z[MAXL];
	for (int i = 0; i < MAXL; i++) { bn_null(v[i]); bn_new(v[i]); g2_null(z[i]); g2_new(z[i]); }
	seed_tok(argv[1]);
	RLC_TRY {
		if (kind == 's') rc = cp_cls_gen(t, u, x, y);
		else if (kind == 'i') rc = cp_cli_gen(t, u, v[0], x, y, z[0]);
		else rc = cp_clb_gen(t, u, v, x, y, z, l);
	} RLC_CATCH_ANY { caught = 1; }
	if (take_err() || caught || rc != RLC_OK) { fprintf(OUT, "err\n"); return; }
	fprintf(OUT, "t="); bn_hex(t); fprintf(OUT, " u="); bn_hex(u); fprintf(OUT, " X="); g2_out(x); fprintf(OUT, " Y="); g2_out(y);
	int nz = kind == 's' ? 0 : kind == 'i' ? 1 : l - 1;
	for (int i = 0; i < nz; i++) { fprintf(OUT, " v%d=", i); bn_hex(v[i]); fprintf(OUT, " Z%d=", i); g2_out(z[i]); }
	fputc('\n', OUT);
}

/* cls_sig <seed> <msg> <x> <y> */
static void op_cls_sig(int argc, char **argv) {
	if (argc < 5) BAD();
	NEWBN(x); NEWBN(y); NEWG1(a); NEWG1(b); NEWG1(c); int rc = -1, caught = 0;
	int ml = msg_tok(argv[2]); bn_tok(x, argv[3]); bn_tok(y, argv[4]);
	seed_tok(argv[1]);
	RLC_TRY { rc = cp_cls_sig(a, b, c, M1, ml, x, y); } RLC_CATCH_ANY { caught = 1; }
	if (take_err() || caught || rc != RLC_OK) { fprintf(OUT, "err\n"); return; }
	fprintf(OUT, "a="); ep_out(a); fprintf(OUT, " b="); ep_out(b); fprintf(OUT, " c="); ep_out(c); fputc('\n', OUT);
}

/* cls_ver <a> <b> <c> <msg> <X> <Y> */
static void op_cls_ver(int argc, char **argv) {
	if (argc < 7) BAD();
	NEWG1(a); NEWG1(b); NEWG1(c); NEWG2(x); NEWG2(y); int v = -1, caught = 0;
	ep_tok(a, argv[1]); ep_tok(b, argv[2]); ep_tok(c, argv[3]);
	int ml = msg_tok(argv[4]);
	if (!g2_tok(x, argv[5]) || !g2_tok(y, argv[6])) BAD();
	RLC_TRY { v = cp_cls_ver(a, b, c, M1, ml, x, y); } RLC_CATCH_ANY { caught = 1; }
	ver_out(v, caught);
}

/* cli_sig <seed> <msg> <r> <t> <u> <v> */
static void op_cli_sig(int argc, char **argv) {
	if (argc < 7) BAD();
	NEWBN(r); NEWBN(t); NEWBN(u); NEWBN(v); NEWG1(a); NEWG1(A); NEWG1(b); NEWG1(B); NEWG1(c); int rc = -1, caught = 0;
	int ml = msg_tok(argv[2]); bn_tok(r, argv[3]); bn_tok(t, argv[4]); bn_tok(u, argv[5]); bn_tok(v, argv[6]);
	seed_tok(argv[1]);
	RLC_TRY { rc = cp_cli_sig(a, A, b, B, c, M1, ml, r, t, u, v); } RLC_CATCH_ANY { caught = 1; }
	if (take_err() || caught || rc != RLC_OK) { fprintf(OUT, "err\n"); return; }
	fprintf(OUT, "a="); ep_out(a); fprintf(OUT, " A="); ep_out(A); fprintf(OUT, " b="); ep_out(b); fprintf(OUT, " B="); ep_out(B);
	fprintf(OUT, " c="); ep_out(c); fputc('\n', OUT);
}

/* cli_ver <a> <A> <b> <B> <c> <msg> <r> <X> <Y> <Z> */
static void op_cli_ver(int argc, char **argv) {
	if (argc < 11) BAD();
	NEWG1(a); NEWG1(A); NEWG1(b); NEWG1(B); NEWG1(c); NEWBN(r); NEWG2(x); NEWG2(y); NEWG2(z); int v = -1, caught = 0;
	ep_tok(a, argv[1]); ep_tok(A, argv[2]); ep_tok(b, argv[3]); ep_tok(B, argv[4]); ep_tok(c, argv[5]);
	int ml = msg_tok(argv[6]); bn_tok(r, argv[7]);
	if (!g2_tok(x, argv[8]) || !g2_tok(y, argv[9]) || !g2_tok(z, argv[10])) BAD();
	RLC_TRY { v = cp_cli_ver(a, A, b, B, c, M1, ml, r, x, y, z); } RLC_CATCH_ANY { caught = 1; }
	ver_out(v, caught);
}

/* clb_sig <seed> <l> <msg_0..l-1> <t> <u> <v_0..l-2> */
static void op_clb_sig(int argc, char **argv) {
	if (argc < 3) BAD();
	int l = parse_int(argv[2]), rc = -1, caught = 0;
	if (l < 1 || l > MAXL || argc < 3 + l + 2 + (l - 1)) BAD();
	NEWBN(t); NEWBN(u); bn_t v[MAXL]; NEWG1(a); NEWG1(b); NEWG1(c); g1_t A[MAXL], B[MAXL];
	const uint8_t *ms[MAXL]; size_t ls[MAXL];
	for (int i = 0; i < MAXL; i++) { bn_null(v[i]); bn_new(v[i]); g1_null(A[i]); g1_new(A[i]); g1_null(B[i]); g1_new(B[i]); }
	for (int i = 0; i < l; i++) { ls[i] = bytes_parse(MB[i], sizeof(MB[i]), argv[3 + i]); ms[i] = MB[i]; }
	bn_tok(t, argv[3 + l]); bn_tok(u, argv[4 + l]);
	for (int i = 0; i < l - 1; i++) bn_tok(v[i], argv[5 + l + i]);
	seed_tok(argv[1]);
	RLC_TRY { rc = cp_clb_sig(a, A, b, B, c, ms, ls, t, u, (const bn_t *)v, l); } RLC_CATCH_ANY { caught = 1; }
	if (take_err() || caught || rc != RLC_OK) { fprintf(OUT, "err\n"); return; }
	fprintf(OUT, "a="); ep_out(a); fprintf(OUT, " b="); ep_out(b); fprintf(OUT, " c="); ep_out(c);
	for (int i = 0; i < l - 1; i++) { fprintf(OUT, " A%d=", i); ep_out(A[i]); fprintf(OUT, " B%d=", i); ep_out(B[i]); }
	fputc('\n', OUT);
}

/* clb_ver <l> <a> <b> <c> <A_0..l-2> <B_0..l-2> <msg_0..l-1> <X> <Y> <Z_0..l-2> */
static void op_clb_ver(int argc, char **argv) {
	if (argc < 2) BAD();
	int l = parse_int(argv[1]), v = -1, caught = 0;
	if (l < 1 || l > MAXL || argc < 5 + 2 * (l - 1) + l + 2 + (l - 1)) BAD();
	NEWG1(a); NEWG1(b); NEWG1(c); g1_t A[MAXL], B[MAXL]; NEWG2(x); NEWG2(y); g2_t z[MAXL];
	const uint8_t *ms[MAXL]; size_t ls[MAXL];
	for (int i = 0; i < MAXL; i++) { g1_null(A[i]); g1_new(A[i]); g1_null(B[i]); g1_new(B[i]); g2_null(z[i]); g2_new(z[i]); }
	ep_tok(a, argv[2]); ep_tok(b, argv[3]); ep_tok(c, argv[4]);
	int p = 5;
	for (int i = 0; i < l - 1; i++) ep_tok(A[i], argv[p++]);
	for (int i = 0; i < l - 1; i++) ep_tok(B[i], argv[p++]);
	for (int i = 0; i < l; i++) { ls[i] = bytes_parse(MB[i], sizeof(MB[i]), argv[p++]); ms[i] = MB[i]; }
	if (!g2_tok(x, argv[p++]) || !g2_tok(y, argv[p++])) BAD();
	for (int i = 0; i < l - 1; i++) if (!g2_tok(z[i], argv[p++])) BAD();
	RLC_TRY { v = cp_clb_ver(a, (const g1_t *)A, b, (const g1_t *)B, c, ms, ls, x, y, (const g2_t *)z, l); } RLC_CATCH_ANY { caught = 1; }
	ver_out(v, caught);
}

/* ------------------------------------------------------------------------------------------------------------- */
/* Pointcheval-Sanders: single message (pss), block (psb).  Public keys of verification lines are built from scalars:
 * g = [gk]g2, x = [r]g, y_i = [s_i]g (or given as G2 tokens). */

/* pss_gen <seed> ; psb_gen <seed> <l> */
static void op_ps_gen(int argc, char **argv) {
	if (argc < 2) BAD();
	int blk = argv[0][2] == 'b', l = blk ? (argc > 2 ? parse_int(argv[2]) : 0) : 1, rc = -1, caught = 0;
	if (l < 1 || l > MAXL) BAD();
	NEWBN(r); bn_t s[MAXL]; NEWG2(g); NEWG2(x); g2_t y[MAXL];
	for (int i = 0; i < MAXL; i++) { bn_null(s[i]); bn_new(s[i]); g2_null(y[i]); g2_new(y[i]); }
	seed_tok(argv[1]);
	RLC_TRY { rc = blk ? cp_psb_gen(r, s, g, x, y, l) : cp_pss_gen(r, s[0], g, x, y[0]); } RLC_CATCH_ANY { caught = 1; }
	if (take_err() || caught || rc != RLC_OK) { fprintf(OUT, "err\n"); return; }
	fprintf(OUT, "r="); bn_hex(r); fprintf(OUT, " g="); g2_out(g); fprintf(OUT, " x="); g2_out(x);
	for (int i = 0; i < l; i++) { fprintf(OUT, " s%d=", i); bn_hex(s[i]); fprintf(OUT, " y%d=", i); g2_out(y[i]); }
	fputc('\n', OUT);
}

/* pss_sig <seed> <m> <r> <s> ; psb_sig <seed> <l> <m_0..> <r> <s_0..> */
static void op_ps_sig(int argc, char **argv) {
	int blk = argv[0][2] == 'b';
	if (argc < 3) BAD();
	int l = blk ? parse_int(argv[2]) : 1, rc = -1, caught = 0, p = blk ? 3 : 2;
	if (l < 1 || l > MAXL || argc < p + 2 * l + 1) BAD();
	NEWBN(r); bn_t s[MAXL], m[MAXL]; NEWG1(a); NEWG1(b);
	for (int i = 0; i < MAXL; i++) { bn_null(s[i]); bn_new(s[i]); bn_null(m[i]); bn_new(m[i]); }
	for (int i = 0; i < l; i++) bn_tok(m[i], argv[p++]);
	bn_tok(r, argv[p++]);
	for (int i = 0; i < l; i++) bn_tok(s[i], argv[p++]);
	seed_tok(argv[1]);
	RLC_TRY { rc = blk ? cp_psb_sig(a, b, (const bn_t *)m, r, (const bn_t *)s, l) : cp_pss_sig(a, b, m[0], r, s[0]); } RLC_CATCH_ANY { caught = 1; }
	if (take_err() || caught || rc != RLC_OK) { fprintf(OUT, "err\n"); return; }
	fprintf(OUT, "a="); ep_out(a); fprintf(OUT, " b="); ep_out(b); fputc('\n', OUT);
}

/* a G2 key component: "m:<hex>" = [k]g for the line's generator g, otherwise a G2 token */
static int g2_key(g2_t q, const g2_t g, const char *tok) {
	if (!strncmp(tok, "m:", 2)) {
		bn_t k; bn_null(k); bn_new(k);
		bn_tok(k, tok + 2);
		g2_mul(q, g, k);
		return 1;
	}
	return g2_tok(q, tok);
}

/* pss_ver <a> <b> <m> <g> <x> <y> ; psb_ver <a> <b> <l> <m_0..> <g> <x> <y_0..> */
static void op_ps_ver(int argc, char **argv) {
	int blk = argv[0][2] == 'b';
	if (argc < 4) BAD();
	int l = blk ? parse_int(argv[3]) : 1, v = -1, caught = 0, p = blk ? 4 : 3;
	if (l < 1 || l > MAXL || argc < p + 2 * l + 2) BAD();
	bn_t m[MAXL]; NEWG1(a); NEWG1(b); NEWG2(g); NEWG2(x); g2_t y[MAXL];
	for (int i = 0; i < MAXL; i++) { bn_null(m[i]); bn_new(m[i]); g2_null(y[i]); g2_new(y[i]); }
	ep_tok(a, argv[1]); ep_tok(b, argv[2]);
	for (int i = 0; i < l; i++) bn_tok(m[i], argv[p++]);
	if (!g2_tok(g, argv[p++])) BAD();
	if (!g2_key(x, g, argv[p++])) BAD();
	for (int i = 0; i < l; i++) if (!g2_key(y[i], g, argv[p++])) BAD();
	RLC_TRY { v = blk ? cp_psb_ver(a, b, (const bn_t *)m, g, x, (const g2_t *)y, l) : cp_pss_ver(a, b, m[0], g, x, y[0]); } RLC_CATCH_ANY { caught = 1; }
	ver_out(v, caught);
}

/* g2_check <Q> : g2_is_valid and on-curve of a G2 token (the specification's Fp2 helper is compared on these) */
static void op_g2_check(int argc, char **argv) {
	if (argc < 2) BAD();
	NEWG2(q); int caught = 0, on = -1, val = -1;
	if (!g2_tok(q, argv[1])) BAD();
	RLC_TRY { on = g2_on_curve(q); val = g2_is_valid(q); } RLC_CATCH_ANY { caught = 1; }
	if (take_err() || caught) { fprintf(OUT, "err\n"); return; }
	fprintf(OUT, "q="); g2_out(q); fprintf(OUT, " on=%d valid=%d\n", on, val);
}

const op_t ops_cpp[] = {
	{"sigpc_param", op_pc_param}, {"g2_check", op_g2_check},
	{"bls_gen", op_bls_gen}, {"bls_sig", op_bls_sig}, {"bls_ver", op_bls_ver},
	{"bbs_gen", op_bbs_gen}, {"bbs_sig", op_bbs_sig}, {"bbs_ver", op_bbs_ver},
	{"zss_gen", op_zss_gen}, {"zss_sig", op_zss_sig}, {"zss_ver", op_zss_ver},
	{"cls_gen", op_cl_gen}, {"cli_gen", op_cl_gen}, {"clb_gen", op_cl_gen},
	{"cls_sig", op_cls_sig}, {"cls_ver", op_cls_ver}, {"cli_sig", op_cli_sig}, {"cli_ver", op_cli_ver},
	{"clb_sig", op_clb_sig}, {"clb_ver", op_clb_ver},
	{"pss_gen", op_ps_gen}, {"psb_gen", op_ps_gen}, {"pss_sig", op_ps_sig}, {"psb_sig", op_ps_sig},
	{"pss_ver", op_ps_ver}, {"psb_ver", op_ps_ver},
	{NULL, NULL}
};
