/* prime-field operations of the line protocol (properties C02, C07). Field elements travel in standard
 * representation (integers in [0,p)); the raw (Montgomery) digits of every result are printed as well so
 * that the canonical-form clause is observable. */
#include "oracle.h"
#include "relic_fp_low.h"

static void fp_from_tok(fp_t a, const char *tok) {
	raw_t r; bn_t t;
	raw_parse(&r, tok);
	bn_null(t); bn_new(t); raw_to_bn(t, &r);
	if (bn_is_zero(t)) fp_zero(a); else fp_prime_conv(a, t);
}

static void fp_raw_from_tok(dig_t *a, const char *tok, int n) {
	raw_t r;
	raw_parse_n(&r, tok, n);
	for (int i = 0; i < n; i++) a[i] = r.d[i];
}

static void fp_out(const fp_t a) {
	bn_t t;
	bn_null(t); bn_new(t);
	fp_prime_back(t, a);
	/* value (minimal hex) and raw digits (fixed width) */
	char buf[RLC_FP_DIGS * (RLC_DIG / 4) + 2]; int p = 0;
	for (int i = t->used - 1; i >= 0; i--) p += sprintf(buf + p, "%0*llx", RLC_DIG / 4, (unsigned long long)t->dp[i]);
	char *s = buf; while (*s == '0' && s[1]) s++;
	fprintf(OUT, "%s raw=", s);
	raw_print(a, RLC_FP_DIGS, 0);
}

/* fp_param <id> : select the prime; print everything the model needs from the running library */
static void op_fp_param(int argc, char **argv) {
	if (argc < 2) { fprintf(OUT, "bad-args\n"); return; }
	int id = parse_int(argv[1]);
	int caught = 0;
	RLC_TRY { fp_param_set(id); } RLC_CATCH_ANY { caught = 1; }
	if (take_err() || caught) { fprintf(OUT, "err\n"); return; }
	fprintf(OUT, "fp_param id=%d digs=%d bits=%d p=", id, (int)RLC_FP_DIGS, (int)RLC_FP_BITS);
	raw_print(fp_prime_get(), RLC_FP_DIGS, 0);
	fprintf(OUT, " u=%llx conv=", (unsigned long long)*fp_prime_get_rdc());
	raw_print(fp_prime_get_conv(), RLC_FP_DIGS, 0);
	fprintf(OUT, " qnr=%d cnr=%d mod8=%d 2ad=%d width=%d srt=", fp_prime_get_qnr(), fp_prime_get_cnr(), (int)fp_prime_get_mod8(), fp_prime_get_2ad(),
		(int)RLC_WIDTH);
	{	/* the 2^f-th root of unity used by fp_srt, as a standard value (fixed width) */
		bn_t t; bn_null(t); bn_new(t);
		fp_prime_back(t, fp_prime_get_srt());
		dig_t d[RLC_FP_DIGS];
		for (int i = 0; i < RLC_FP_DIGS; i++) d[i] = i < (int)t->used ? t->dp[i] : 0;
		raw_print(d, RLC_FP_DIGS, 0);
	}
	fputc('\n', OUT);
}


/* fp_sel <id> : "an unsupported parameter is reported": call fp_param_set with an arbitrary identifier and print what the
 * getters say before and after, and whether an error was reported */
static void op_fp_sel(int argc, char **argv) {
	if (argc < 2) { fprintf(OUT, "bad-args\n"); return; }
	int id = parse_int(argv[1]);
	int caught = 0, id0 = fp_param_get();
	fprintf(OUT, "id0=%d p0=", id0);
	raw_print(fp_prime_get(), RLC_FP_DIGS, 0);
	RLC_TRY { fp_param_set(id); } RLC_CATCH_ANY { caught = 1; }
	int e = take_err();
	fprintf(OUT, " res=%s id1=%d p1=", (e || caught) ? "err" : "ok", fp_param_get());
	raw_print(fp_prime_get(), RLC_FP_DIGS, 0);
	fputc('\n', OUT);
}

/* fp2 <op> <alias> <a> <b> */
static void op_fp2(int argc, char **argv) {
	if (argc < 5) { fprintf(OUT, "bad-args\n"); return; }
	const char *op = argv[1];
	int alias = parse_int(argv[2]);
	fp_t a, b, c; int caught = 0;
	dig_t *pa, *pb, *pc;
	fp_null(a); fp_null(b); fp_null(c); fp_new(a); fp_new(b); fp_new(c);
	pa = a; pb = b; pc = c;
	fp_from_tok(a, argv[3]); fp_from_tok(b, argv[4]);
	for (int i = 0; i < RLC_FP_DIGS; i++) c[i] = (dig_t)0xA5A5A5A5A5A5A5A5ULL;
	if (alias == 3 || alias == 4) pb = pa;
	if (alias == 1 || alias == 4) pc = pa;
	if (alias == 2) pc = pb;
	RLC_TRY {
		if (!strcmp(op, "add")) fp_add(pc, pa, pb);
		else if (!strcmp(op, "add_basic")) fp_add_basic(pc, pa, pb);
		else if (!strcmp(op, "add_integ")) fp_add_integ(pc, pa, pb);
		else if (!strcmp(op, "sub")) fp_sub(pc, pa, pb);
		else if (!strcmp(op, "sub_basic")) fp_sub_basic(pc, pa, pb);
		else if (!strcmp(op, "sub_integ")) fp_sub_integ(pc, pa, pb);
		else if (!strcmp(op, "mul")) fp_mul(pc, pa, pb);
		else if (!strcmp(op, "mul_basic")) fp_mul_basic(pc, pa, pb);
		else if (!strcmp(op, "mul_comba")) fp_mul_comba(pc, pa, pb);
		else if (!strcmp(op, "mul_integ")) fp_mul_integ(pc, pa, pb);
		else if (!strcmp(op, "mul_karat")) fp_mul_karat(pc, pa, pb);
		else { fprintf(OUT, "unknown-fp2 %s\n", op); return; }
	} RLC_CATCH_ANY { caught = 1; }
	if (take_err() || caught) fprintf(OUT, "err"); else fp_out(pc);
	fputc('\n', OUT);
}

/* fp1 <op> <alias> <a> */
static void op_fp1(int argc, char **argv) {
	if (argc < 4) { fprintf(OUT, "bad-args\n"); return; }
	const char *op = argv[1];
	int alias = parse_int(argv[2]);
	fp_t a, c; int caught = 0, r = -99;
	dig_t *pa, *pc;
	fp_null(a); fp_null(c); fp_new(a); fp_new(c);
	pa = a; pc = c;
	fp_from_tok(a, argv[3]);
	for (int i = 0; i < RLC_FP_DIGS; i++) c[i] = (dig_t)0xA5A5A5A5A5A5A5A5ULL;
	if (alias == 1) pc = pa;
	RLC_TRY {
		if (!strcmp(op, "neg")) fp_neg(pc, pa);
		else if (!strcmp(op, "neg_basic")) fp_neg_basic(pc, pa);
		else if (!strcmp(op, "neg_integ")) fp_neg_integ(pc, pa);
		else if (!strcmp(op, "dbl")) fp_dbl(pc, pa);
		else if (!strcmp(op, "dbl_basic")) fp_dbl_basic(pc, pa);
		else if (!strcmp(op, "dbl_integ")) fp_dbl_integ(pc, pa);
		else if (!strcmp(op, "hlv")) fp_hlv(pc, pa);
		else if (!strcmp(op, "hlv_basic")) fp_hlv_basic(pc, pa);
		else if (!strcmp(op, "hlv_integ")) fp_hlv_integ(pc, pa);
		else if (!strcmp(op, "sqr")) fp_sqr(pc, pa);
		else if (!strcmp(op, "sqr_basic")) fp_sqr_basic(pc, pa);
		else if (!strcmp(op, "sqr_comba")) fp_sqr_comba(pc, pa);
		else if (!strcmp(op, "sqr_integ")) fp_sqr_integ(pc, pa);
		else if (!strcmp(op, "sqr_karat")) fp_sqr_karat(pc, pa);
		else if (!strcmp(op, "inv")) fp_inv(pc, pa);
		else if (!strcmp(op, "inv_basic")) fp_inv_basic(pc, pa);
		else if (!strcmp(op, "inv_binar")) fp_inv_binar(pc, pa);
		else if (!strcmp(op, "inv_monty")) fp_inv_monty(pc, pa);
		else if (!strcmp(op, "inv_exgcd")) fp_inv_exgcd(pc, pa);
		else if (!strcmp(op, "inv_divst")) fp_inv_divst(pc, pa);
		else if (!strcmp(op, "inv_jmpds")) fp_inv_jmpds(pc, pa);
		else if (!strcmp(op, "inv_lower")) fp_inv_lower(pc, pa);
		else if (!strcmp(op, "srt")) r = fp_srt(pc, pa);
		else if (!strcmp(op, "crt")) r = fp_crt(pc, pa);
		else if (!strcmp(op, "smb")) { r = fp_smb(pa); pc = NULL; }
		else if (!strcmp(op, "smb_basic")) { r = fp_smb_basic(pa); pc = NULL; }
		else if (!strcmp(op, "smb_binar")) { r = fp_smb_binar(pa); pc = NULL; }
		else if (!strcmp(op, "smb_divst")) { r = fp_smb_divst(pa); pc = NULL; }
		else if (!strcmp(op, "smb_jmpds")) { r = fp_smb_jmpds(pa); pc = NULL; }
		else if (!strcmp(op, "smb_lower")) { r = fp_smb_lower(pa); pc = NULL; }
		else if (!strcmp(op, "is_sqr")) { r = fp_is_sqr(pa); pc = NULL; }
		else { fprintf(OUT, "unknown-fp1 %s\n", op); return; }
	} RLC_CATCH_ANY { caught = 1; }
	if (take_err() || caught) fprintf(OUT, "err");
	else {
		if (r != -99) fprintf(OUT, "r=%d", r);
		if (pc != NULL && r != 0) { if (r != -99) fputc(' ', OUT); fp_out(pc); }
	}
	fputc('\n', OUT);
}

/* fpe <op> <alias> <a> <e> : exponentiation with a signed bn exponent */
static void op_fpe(int argc, char **argv) {
	if (argc < 5) { fprintf(OUT, "bad-args\n"); return; }
	const char *op = argv[1];
	int alias = parse_int(argv[2]);
	fp_t a, c; bn_t e; raw_t re; int caught = 0;
	dig_t *pa, *pc;
	fp_null(a); fp_null(c); fp_new(a); fp_new(c);
	bn_null(e); bn_new(e);
	pa = a; pc = c;
	fp_from_tok(a, argv[3]);
	raw_parse(&re, argv[4]); raw_to_bn(e, &re);
	if (alias == 1) pc = pa;
	RLC_TRY {
		if (!strcmp(op, "exp")) fp_exp(pc, pa, e);
		else if (!strcmp(op, "exp_basic")) fp_exp_basic(pc, pa, e);
		else if (!strcmp(op, "exp_slide")) fp_exp_slide(pc, pa, e);
		else if (!strcmp(op, "exp_monty")) fp_exp_monty(pc, pa, e);
		else { fprintf(OUT, "unknown-fpe %s\n", op); return; }
	} RLC_CATCH_ANY { caught = 1; }
	if (take_err() || caught) fprintf(OUT, "err"); else fp_out(pc);
	fputc('\n', OUT);
}

/* fpd <op> <alias> <a> <dig> */
static void op_fpd(int argc, char **argv) {
	if (argc < 5) { fprintf(OUT, "bad-args\n"); return; }
	const char *op = argv[1];
	int alias = parse_int(argv[2]);
	fp_t a, c; int caught = 0;
	dig_t d = (dig_t)parse_u64(argv[4]);
	dig_t *pa, *pc;
	fp_null(a); fp_null(c); fp_new(a); fp_new(c);
	pa = a; pc = c;
	fp_from_tok(a, argv[3]);
	if (alias == 1) pc = pa;
	RLC_TRY {
		if (!strcmp(op, "add_dig")) fp_add_dig(pc, pa, d);
		else if (!strcmp(op, "sub_dig")) fp_sub_dig(pc, pa, d);
		else if (!strcmp(op, "mul_dig")) fp_mul_dig(pc, pa, d);
		else if (!strcmp(op, "set_dig")) fp_set_dig(pc, d);
		else if (!strcmp(op, "exp_dig")) fp_exp_dig(pc, pa, d);
		else { fprintf(OUT, "unknown-fpd %s\n", op); return; }
	} RLC_CATCH_ANY { caught = 1; }
	if (take_err() || caught) fprintf(OUT, "err"); else fp_out(pc);
	fputc('\n', OUT);
}

/* fpsim <alias> <a1> ... <an> : fp_inv_sim on n >= 1 elements (alias 1: results written over the operands) */
#define FPSIM_MAX 24
static void op_fpsim(int argc, char **argv) {
	if (argc < 3 || argc - 2 > FPSIM_MAX) { fprintf(OUT, "bad-args\n"); return; }
	int alias = parse_int(argv[1]), n = argc - 2, caught = 0;
	fp_t a[FPSIM_MAX], c[FPSIM_MAX];
	for (int i = 0; i < n; i++) {
		fp_null(a[i]); fp_null(c[i]); fp_new(a[i]); fp_new(c[i]);
		fp_from_tok(a[i], argv[2 + i]);
		for (int j = 0; j < RLC_FP_DIGS; j++) c[i][j] = (dig_t)0xA5A5A5A5A5A5A5A5ULL;
	}
	RLC_TRY {
		if (alias == 1) fp_inv_sim(a, (const fp_t *)a, n); else fp_inv_sim(c, (const fp_t *)a, n);
	} RLC_CATCH_ANY { caught = 1; }
	if (take_err() || caught) fprintf(OUT, "err");
	else for (int i = 0; i < n; i++) { if (i) fputc(' ', OUT); fp_out(alias == 1 ? a[i] : c[i]); }
	fputc('\n', OUT);
}

/* fpraw <op> <alias> <rawa> <rawb> : exported low-level functions on raw digit vectors (values < p) */
static void op_fpraw(int argc, char **argv) {
	if (argc < 5) { fprintf(OUT, "bad-args\n"); return; }
	const char *op = argv[1];
	int alias = parse_int(argv[2]);
	rlc_align dig_t a[2 * RLC_FP_DIGS + 2], b[2 * RLC_FP_DIGS + 2], c[2 * RLC_FP_DIGS + 2];
	dig_t *pc = c, carry = 0;
	int outn = RLC_FP_DIGS, show_carry = 0;
	fp_raw_from_tok(a, argv[3], 2 * RLC_FP_DIGS);
	fp_raw_from_tok(b, argv[4], 2 * RLC_FP_DIGS);
	for (int i = 0; i < 2 * RLC_FP_DIGS + 2; i++) c[i] = (dig_t)0x7E7E7E7E7E7E7E7EULL;
	if (alias == 1) pc = a;
	if (!strcmp(op, "addm")) fp_addm_low(pc, a, b);
	else if (!strcmp(op, "subm")) fp_subm_low(pc, a, b);
	else if (!strcmp(op, "negm")) fp_negm_low(pc, a);
	else if (!strcmp(op, "dblm")) fp_dblm_low(pc, a);
	else if (!strcmp(op, "hlvm")) fp_hlvm_low(pc, a);
	else if (!strcmp(op, "addn")) { carry = fp_addn_low(pc, a, b); show_carry = 1; }
	else if (!strcmp(op, "subn")) { carry = fp_subn_low(pc, a, b); show_carry = 1; }
	else if (!strcmp(op, "mulm")) fp_mulm_low(pc, a, b);
	else if (!strcmp(op, "sqrm")) fp_sqrm_low(pc, a);
	else if (!strcmp(op, "muln")) { pc = c; fp_muln_low(pc, a, b); outn = 2 * RLC_FP_DIGS; }
	else if (!strcmp(op, "sqrn")) { pc = c; fp_sqrn_low(pc, a); outn = 2 * RLC_FP_DIGS; }
	else if (!strcmp(op, "rdcn")) { pc = c; fp_rdcn_low(pc, a); }   /* destroys a */
	else if (!strcmp(op, "addc")) { fp_addc_low(pc, a, b); outn = 2 * RLC_FP_DIGS; }
	else if (!strcmp(op, "subc")) { fp_subc_low(pc, a, b); outn = 2 * RLC_FP_DIGS; }
	else { fprintf(OUT, "unknown-fpraw %s\n", op); return; }
	raw_print(pc, outn, 0);
	if (show_carry) fprintf(OUT, " %llx", (unsigned long long)carry);
	fputc('\n', OUT);
}

/* fp_read_bin <hex> ; fp_write_bin <len> <a> */
static void op_fp_read_bin(int argc, char **argv) {
	if (argc < 2) { fprintf(OUT, "bad-args\n"); return; }
	uint8_t buf[4 * RLC_FP_BYTES + 16];
	int n = bytes_parse(buf, sizeof(buf), argv[1]);
	fp_t a; int caught = 0;
	fp_null(a); fp_new(a);
	RLC_TRY { fp_read_bin(a, buf, n); } RLC_CATCH_ANY { caught = 1; }
	if (take_err() || caught) fprintf(OUT, "err"); else fp_out(a);
	fputc('\n', OUT);
}
static void op_fp_write_bin(int argc, char **argv) {
	if (argc < 3) { fprintf(OUT, "bad-args\n"); return; }
	uint8_t buf[4 * RLC_FP_BYTES + 80];
	int len = parse_int(argv[1]);
	fp_t a; int caught = 0;
	if (len < 0 || len > 4 * RLC_FP_BYTES) { fprintf(OUT, "bad-args\n"); return; }
	fp_null(a); fp_new(a);
	fp_from_tok(a, argv[2]);
	memset(buf, 0xEE, sizeof(buf));
	RLC_TRY { fp_write_bin(buf + 32, len, a); } RLC_CATCH_ANY { caught = 1; }
	if (take_err() || caught) fprintf(OUT, "err"); else bytes_print(buf + 32, len);
	for (int i = 0; i < 32; i++) if (buf[i] != 0xEE || buf[32 + len + i] != 0xEE) { fprintf(OUT, " WROTE-OUTSIDE"); break; }
	fputc('\n', OUT);
}

const op_t ops_fp[] = {
	{"fp_param", op_fp_param}, {"fp_sel", op_fp_sel}, {"fp2", op_fp2}, {"fp1", op_fp1}, {"fpe", op_fpe}, {"fpd", op_fpd}, {"fpsim", op_fpsim}, {"fpraw", op_fpraw},
	{"fp_read_bin", op_fp_read_bin}, {"fp_write_bin", op_fp_write_bin},
	{NULL, NULL}
};
