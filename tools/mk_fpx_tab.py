#!/usr/bin/env python3
"""Writes harness/ops_fpx_tab.inc: one wrapper + table entry per public fpN_* function of include/relic_fpx.h
(the signature class is derived from the prototype).  Run once after the pinned header changes:
    python3 tools/mk_fpx_tab.py [/repo]
"""
import os, re, sys

REPO = sys.argv[1] if len(sys.argv) > 1 else os.environ.get("RELIC_REPO", "/repo")
OUT = os.path.join(os.path.dirname(os.path.dirname(os.path.abspath(__file__))), "harness", "ops_fpx_tab.inc")
SKIP = re.compile(r"_(field_init|field_get_qnr|field_get_cnr|copy|copy_sec|zero|rand|print)$")

hdr = open(os.path.join(REPO, "include", "relic_fpx.h")).read()
hdr = re.sub(r"/\*.*?\*/", "", hdr, flags=re.S)
protos = re.findall(r"^(void|int)\s+fp(\d+)_(\w+)\(([^;]*?)\);", hdr, flags=re.M | re.S)


def classify(ret, n, name, args):
    a = [re.sub(r"\s+", " ", x.strip()) for x in args.split(",")]
    t = []
    for x in a:
        x = x.replace("const ", "")
        if re.match(r"fp\d+_t \*?\w+(\[\])?$", x):
            t.append("E*" if ("*" in x or "[]" in x) else "E")
        elif re.match(r"dv\d+_t \w+$", x):
            t.append("D")
        elif x.startswith("bn_t"):
            t.append("B")
        elif x.startswith("dig_t"):
            t.append("G")
        elif x.startswith("int *"):
            t.append("I*")
        elif x.startswith("int ") or x.startswith("size_t "):
            t.append("I")
        elif x.startswith("uint8_t *"):
            t.append("U")
        else:
            t.append("?")
    s = (ret, tuple(t))
    table = {
        ("void", ("E", "E")): ("UN", "K_UN"),
        ("void", ("E", "E", "E")): ("BIN", "K_BIN"),
        ("void", ("D", "E")): ("UNR1", "K_UNR1"),
        ("void", ("D", "E", "E")): ("UNR2", "K_UNR2"),
        ("void", ("E", "E", "I")): ("INT_", "K_INT"),
        ("void", ("E", "E", "B")): ("BN_", "K_BN"),
        ("void", ("E", "E", "G")): ("DIG", "K_DIG"),
        ("void", ("E", "G")): ("SETD", "K_SETDIG"),
        ("int", ("E",)): ("TEST", "K_TEST"),
        ("int", ("E", "E")): ("SRT", "K_SRT"),
        ("int", ("E", "G")): ("CMPD", "K_CMPD"),
        ("void", ("E*", "E*", "I")): ("SIM", "K_SIM"),
        ("void", ("E", "E", "B", "E", "B")): ("XSIM", "K_EXPSIM"),
        ("void", ("E", "E", "I*", "I", "I")): ("SPS", "K_SPS"),
        ("void", ("E", "E", "I", "I")): ("FRB2", "K_FRB2"),
        ("void", ("E", "U", "I")): ("RDB", "K_RDBIN"),
        ("void", ("U", "I", "E")): ("WRB", "K_WRBIN"),
        ("void", ("U", "I", "E", "I")): ("WRBP", "K_WRBIN"),
        ("int", ("E", "I")): ("SZBP", "K_SZBIN"),
    }
    if name == "cmp":
        return ("CMP", "K_CMP")
    if name == "size_bin" and s == ("int", ("E",)):
        return ("SZB", "K_SZBIN")
    return table.get(s)


# only functions that are defined somewhere under src/ (a few prototypes have no definition)
defined = set()
for d, _, fs in os.walk(os.path.join(REPO, "src")):
    for f in fs:
        if f.endswith(".c"):
            defined.update(re.findall(r"^(?:void|int)\s+(fp\d+_\w+)\(", open(os.path.join(d, f)).read(), flags=re.M))

wr, tab, skipped = [], [], []
for ret, n, name, args in protos:
    if SKIP.search("_" + name):
        continue
    if "fp%s_%s" % (n, name) not in defined:
        skipped.append("fp%s_%s (declared, not defined)" % (n, name))
        continue
    c = classify(ret, int(n), name, args)
    if c is None:
        skipped.append("fp%s_%s(%s)" % (n, name, re.sub(r"\s+", " ", args)))
        continue
    wr.append("%s(%s, %s)" % (c[0], n, name))
    tab.append('\t{"fp%s_%s", %s, %s, (void (*)(void))w_fp%s_%s},' % (n, name, n, c[1], n, name))
with open(OUT, "w") as fh:
    fh.write("/* written by tools/mk_fpx_tab.py from include/relic_fpx.h — %d functions */\n" % len(tab))
    fh.write("\n".join(wr) + "\n\nstatic const ent_t fpx_tab[] = {\n" + "\n".join(tab) + "\n\t{NULL, 0, K_UN, NULL}\n};\n")
    if skipped:
        fh.write("/* not wrapped (irregular signature): %s */\n" % "; ".join(skipped))
print(len(tab), "functions;", len(skipped), "skipped:", skipped)
