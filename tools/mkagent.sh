#!/bin/sh
# usage: tools/mkagent.sh <name> — private clone of /verif for a sub-agent (branch <name>), with build caches copied
N=$1; D=/var/tmp/agents/$N
rm -rf $D; mkdir -p $D
git clone -q /verif $D/verif && cd $D/verif && git checkout -q -b $N
cp -r /verif/.cache $D/verif/.cache 2>/dev/null
mkdir -p $D/verif/lean/.lake && cp -r /verif/lean/.lake/. $D/verif/lean/.lake/
mkdir -p $D/verif/lean/RelicVerif/Gen && cp -r /verif/lean/RelicVerif/Gen/. $D/verif/lean/RelicVerif/Gen/
git config user.name builder; git config user.email builder@example.invalid
echo $D/verif
