#!/usr/bin/env python3
"""setup_cmd: build everything that does not depend on /repo's working tree (the Lean library + driver).
Idempotent; every check also works without it (it builds what it needs)."""
import os, subprocess, sys
VERIF = os.path.dirname(os.path.dirname(os.path.abspath(__file__)))
LEAN = os.path.join(VERIF, "lean")
os.makedirs(os.path.join(LEAN, "RelicVerif", "Gen"), exist_ok=True)
r = subprocess.run(["lake", "build", "RelicVerif", "driver"], cwd=LEAN)
sys.exit(r.returncode)
