#!/usr/bin/env python3
"""setup_cmd: build everything that does not depend on /repo's working tree (the Lean library + driver).
Idempotent; every check also works without it (it builds what it needs)."""
import os, subprocess, sys
VERIF = os.path.dirname(os.path.dirname(os.path.abspath(__file__)))
LEAN = os.path.join(VERIF, "lean")
os.makedirs(os.path.join(LEAN, "RelicVerif", "Gen"), exist_ok=True)
sys.path.insert(0, os.path.join(VERIF, "tools"))
import relicbuild, translate
b, err = relicbuild.build("base")
if b is None:
    print(err)
    sys.exit(1)
g = translate.generate_all(b)
for name, grp in g["groups"].items():
    if grp["failures"]:
        print("translator failures (%s):" % name, grp["failures"])
r = subprocess.run(["lake", "build", "RelicVerif", "driver"], cwd=LEAN)
sys.exit(r.returncode)
