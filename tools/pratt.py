#!/usr/bin/env python3
"""Untrusted search for Pratt certificates (run with python3-vt: needs sympy). Results are cached in certs/pratt.json and checked by
the Lean kernel (Model/Pratt.lean `checkLines`); nothing here is trusted.
usage: python3-vt tools/pratt.py <hex n> ...   -> updates certs/pratt.json"""
import json, os, sys, time
from multiprocessing import Pool

VERIF = os.path.dirname(os.path.dirname(os.path.abspath(__file__)))
CERTS = os.path.join(VERIF, "certs", "pratt.json")
SMALL = {2, 3, 5, 7, 11, 13, 17, 19, 23, 29, 31, 37, 41, 43, 47, 53, 59, 61, 67, 71, 73, 79, 83, 89, 97}


def factor(m):
    from sympy import factorint
    return (m, {int(k): int(v) for k, v in factorint(m).items()})


def witness(n, fac):
    for a in range(2, 2000):
        if pow(a, n - 1, n) != 1:
            return None
        if all(pow(a, (n - 1) // q, n) != 1 for q in fac):
            return a
    return None


def build(ns, timeout_s=1200):
    """returns lines (dicts n,a,fs) in dependency order for all primes in ns"""
    from sympy import isprime
    db = json.load(open(CERTS)) if os.path.exists(CERTS) else {}
    lines, done = [], set()
    todo = [n for n in ns]
    facs = {}
    t0 = time.time()
    while todo:
        batch = [n for n in set(todo) if str(n) not in db and n not in SMALL and n not in facs]
        if batch:
            with Pool(min(16, len(batch))) as pool:
                for m, f in pool.imap_unordered(factor, [n - 1 for n in batch]):
                    facs[m + 1] = f
        nxt = []
        for n in set(todo):
            if n in SMALL:
                continue
            if str(n) in db:
                f = {int(q): e for q, e in db[str(n)]["fs"]}
            else:
                if not isprime(n):
                    raise ValueError("%x is not prime" % n)
                f = facs[n]
                a = witness(n, f)
                if a is None:
                    raise ValueError("no witness for %x" % n)
                db[str(n)] = {"a": a, "fs": sorted([[q, e] for q, e in f.items()])}
            nxt += [q for q in f if q not in SMALL]
        todo = [q for q in nxt if str(q) not in db or True]
        todo = [q for q in set(todo) if q not in done]
        done |= set(todo)
        if time.time() - t0 > timeout_s:
            raise TimeoutError("factoring budget exceeded")
        if not any(str(q) not in db for q in todo):
            # everything below is cached; still need to walk for ordering, done in order_lines
            break
    os.makedirs(os.path.dirname(CERTS), exist_ok=True)
    json.dump(db, open(CERTS, "w"), indent=0, sort_keys=True)
    return db


def order_lines(db, roots):
    out, seen = [], set()

    def visit(n):
        if n in SMALL or n in seen:
            return
        seen.add(n)
        ent = db[str(n)]
        for q, _ in ent["fs"]:
            visit(q)
        out.append((n, ent["a"], ent["fs"]))
    for r in roots:
        visit(r)
    return out


def ensure(ns):
    """make sure certs cover ns (all must be prime); returns ordered lines"""
    db = json.load(open(CERTS)) if os.path.exists(CERTS) else {}

    def covered(n):
        if n in SMALL:
            return True
        if str(n) not in db:
            return False
        return all(covered(q) for q, _ in db[str(n)]["fs"])
    while not all(covered(n) for n in ns):
        db = build([n for n in ns if not covered(n)] + [q for k in list(db) for q, _ in db[k]["fs"] if not covered(q)])
    return order_lines(db, ns)


if __name__ == "__main__":
    ns = [int(a, 16) for a in sys.argv[1:]]
    t = time.time()
    ls = ensure(ns)
    print("%d lines, %.1fs" % (len(ls), time.time() - t))
