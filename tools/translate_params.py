#!/usr/bin/env python3
"""Translator for parameter tables (property C18): extracts every prime-field and prime-curve parameter set that is selectable in a
configuration from src/fp/relic_fp_param.c and src/ep/relic_ep_param.c (after `gcc -E -fdirectives-only`, so exactly the sets the build
compiles in) and writes them as Lean literals (RelicVerif/Gen/Params.lean). The little constructor language of fp_param.c (sparse forms
f[], hex strings, bn_set_2b / bn_set_bit / bn_set_dig / bn_lsh / bn_add / bn_add_dig / bn_sub_dig / bn_neg on t0, t1) is evaluated here;
the family polynomials p(x), r(x) are *not* applied here: they are theorems on the Lean side (the extracted x is a literal)."""
import os, re, subprocess, sys

TOOLS = os.path.dirname(os.path.abspath(__file__))
VERIF = os.path.dirname(TOOLS)
REPO = os.environ.get("RELIC_REPO", "/repo")


class ParamError(Exception):
    pass


def pp(path, incdirs):
    cmd = ["gcc", "-E", "-fdirectives-only", "-P"]
    for d in incdirs:
        cmd += ["-I", d]
    cmd.append(path)
    r = subprocess.run(cmd, stdout=subprocess.PIPE, stderr=subprocess.PIPE, text=True)
    if r.returncode != 0:
        raise ParamError("gcc -E failed on %s: %s" % (path, r.stderr[-400:]))
    return re.sub(r"/\*.*?\*/", "", r.stdout, flags=re.S)


def enum_values(header_text, first_names):
    """values of the anonymous enums that contain the given identifiers"""
    vals = {}
    for m in re.finditer(r"enum\s*\{([^}]*)\}", header_text, flags=re.S):
        names = [n.strip() for n in m.group(1).split(",") if n.strip()]
        if not any(n.split("=")[0].strip() in first_names for n in names):
            continue
        v = -1
        for n in names:
            if "=" in n:
                k, e = n.split("=")
                v = int(e.strip(), 0)
                vals[k.strip()] = v
            else:
                v += 1
                vals[n] = v
    return vals


def eval_field_case(body, strings):
    """evaluates one `case X:` body of fp_param_set; returns dict(kind, p or x, family)"""
    f = {}
    regs = {"t0": 0, "t1": 0, "p": 0}
    res = None
    for st in [s.strip() for s in body.split(";") if s.strip()]:
        m = re.match(r"f\[(\d+)\] = (-?\d+)$", st)
        if m:
            f[int(m.group(1))] = int(m.group(2))
            continue
        m = re.match(r"fp_prime_set_pmers\(f, (\d+)\)$", st)
        if m:
            n = int(m.group(1))
            p = 1 << f[n - 1]
            for i in range(n - 2, 0, -1):
                p += (1 << f[i]) if f[i] > 0 else -(1 << -f[i])
            p += f[0]
            res = {"kind": "pmers", "p": p, "sps": [f[i] for i in range(n)]}
            continue
        m = re.match(r"bn_read_str\((\w+), (\w+), strlen\(\w+\), 16\)$", st)
        if m:
            if m.group(2) not in strings:
                raise ParamError("unknown string constant %s" % m.group(2))
            regs[m.group(1)] = int(strings[m.group(2)], 16)
            continue
        m = re.match(r"fp_prime_set_dense\((\w+)\)$", st)
        if m:
            res = {"kind": "dense", "p": regs[m.group(1)]}
            continue
        m = re.match(r"bn_set_2b\((\w+), (\d+)\)$", st)
        if m:
            regs[m.group(1)] = 1 << int(m.group(2))
            continue
        m = re.match(r"bn_set_bit\((\w+), (\d+), 1\)$", st)
        if m:
            regs[m.group(1)] |= 1 << int(m.group(2))
            continue
        m = re.match(r"bn_set_dig\((\w+), (\w+)\)$", st)
        if m:
            regs[m.group(1)] = int(m.group(2), 0)
            continue
        m = re.match(r"bn_lsh\((\w+), (\w+), (\d+)\)$", st)
        if m:
            regs[m.group(1)] = regs[m.group(2)] << int(m.group(3))
            continue
        m = re.match(r"bn_add\((\w+), (\w+), (\w+)\)$", st)
        if m:
            regs[m.group(1)] = regs[m.group(2)] + regs[m.group(3)]
            continue
        m = re.match(r"bn_sub\((\w+), (\w+), (\w+)\)$", st)
        if m:
            regs[m.group(1)] = regs[m.group(2)] - regs[m.group(3)]
            continue
        m = re.match(r"bn_add_dig\((\w+), (\w+), (\w+)\)$", st)
        if m:
            regs[m.group(1)] = regs[m.group(2)] + int(m.group(3), 0)
            continue
        m = re.match(r"bn_sub_dig\((\w+), (\w+), (\w+)\)$", st)
        if m:
            regs[m.group(1)] = regs[m.group(2)] - int(m.group(3), 0)
            continue
        m = re.match(r"bn_neg\((\w+), (\w+)\)$", st)
        if m:
            regs[m.group(1)] = -regs[m.group(2)]
            continue
        m = re.match(r"fp_prime_set_pairf\((\w+), (\w+)\)$", st)
        if m:
            res = {"kind": "pairf", "x": regs[m.group(1)], "family": m.group(2)}
            continue
        if st == "break":
            continue
        raise ParamError("unsupported statement in fp_param_set: %r" % st)
    if res is None:
        raise ParamError("no prime was set in: %r" % body[:80])
    return res


def extract(incdirs):
    fp_c = pp(os.path.join(REPO, "src/fp/relic_fp_param.c"), incdirs)
    ep_c = pp(os.path.join(REPO, "src/ep/relic_ep_param.c"), incdirs)
    hdr = pp(os.path.join(REPO, "include/relic_ep.h"), incdirs)
    enums = enum_values(hdr, {"SECG_160", "SECG_P160", "EP_BN"})
    # string constants
    strings = dict(re.findall(r'^#define (\w+) "([0-9A-Fa-f\-]*)"$', fp_c, flags=re.M))
    estr = dict(re.findall(r'^#define (\w+)\s+"([0-9A-Fa-f\-]*)"$', ep_c, flags=re.M))
    # fields: the switch of fp_param_set
    m = re.search(r"void fp_param_set\(int param\) \{(.*?)\n\}", fp_c, flags=re.S)
    if not m:
        raise ParamError("fp_param_set not found")
    body = m.group(1)
    fields = {}
    for cm in re.finditer(r"case (\w+):(.*?)break;", body, flags=re.S):
        name, cb = cm.group(1), cm.group(2)
        fields[name] = eval_field_case(cb, strings)
        fields[name]["id"] = enums.get(name)
    # curves: the switch of ep_param_set
    m = re.search(r"void ep_param_set\(int param\) \{(.*?)\n\}", ep_c, flags=re.S)
    if not m:
        raise ParamError("ep_param_set not found")
    curves = {}
    for cm in re.finditer(r"case (\w+):\s*(ASSIGNK?)\((\w+), (\w+)\);(.*?)break;", m.group(1), flags=re.S):
        name, kind, cname, fname, rest = cm.groups()
        if name != cname:
            raise ParamError("case %s assigns %s" % (name, cname))
        c = {"field": fname, "id": enums.get(name)}
        for k in ("A", "B", "X", "Y", "R", "H"):
            key = "%s_%s" % (name, k)
            if key not in estr:
                raise ParamError("missing constant %s" % key)
            s = estr[key]
            c[k] = -int(s[1:], 16) if s.startswith("-") else int(s, 16)
        c["flags"] = {}
        for fm in re.finditer(r"(\w+) = (\w+);", rest):
            c["flags"][fm.group(1)] = fm.group(2)
        if fname not in fields:
            raise ParamError("curve %s uses field %s which is not selectable" % (name, fname))
        curves[name] = c
    # advertised security levels: the switch of ep_param_level
    m = re.search(r"int ep_param_level\(void\) \{(.*?)\n\}", ep_c, flags=re.S)
    if not m:
        raise ParamError("ep_param_level not found")
    for grp in re.finditer(r"((?:case \w+:\s*)+)return (\d+);", m.group(1)):
        for nm in re.findall(r"case (\w+):", grp.group(1)):
            if nm in curves:
                curves[nm]["level"] = int(grp.group(2))
    # twists: the table of ep2_curve_set_twist
    e2_path = os.path.join(REPO, "src/epx/relic_ep2_curve.c")
    e2_c = pp(e2_path, incdirs)
    e2str = dict(re.findall(r'^#define (\w+)\s+"([0-9A-Fa-f\-]*)"$', e2_c, flags=re.M))
    m = re.search(r"void ep2_curve_set_twist\(int type\) \{(.*?)\n\}", e2_c, flags=re.S)
    if not m:
        raise ParamError("ep2_curve_set_twist not found")
    for cm in re.finditer(r"case (\w+):\s*ASSIGN\((\w+)\);", m.group(1)):
        name, cname = cm.groups()
        if name not in curves:
            continue
        if name != cname:
            raise ParamError("twist case %s assigns %s" % (name, cname))
        t = {}
        for k in ("A0", "A1", "B0", "B1", "X0", "X1", "Y0", "Y1", "R", "H"):
            key = "%s_%s" % (name, k)
            if key not in e2str:
                raise ParamError("missing twist constant %s" % key)
            t[k] = int(e2str[key], 16)
        curves[name]["twist"] = t
    return fields, curves, enums


def derive_qnr(p):
    """the quadratic non-residue fp_prime_set derives for p (src/fp/relic_fp_prime.c): -1 for p = 3 mod 4, -2 for p = 5 mod 8, else the first
    of -6/-7… that is a non-residue; the value is compared with what the running library reports"""
    if p % 4 == 3:
        return -1
    if p % 8 == 5:
        return -2
    q = 2
    while pow((-q) % p, (p - 1) // 2, p) == 1:
        q += 1
    return -q


def isqrt_exact(n):
    import math
    if n < 0:
        return 0
    r = math.isqrt(n)
    return r


FAMILY_CODE = {"EP_BN": 1}


def extract_ed(incdirs):
    """twisted Edwards sets: the case table of ed_param_set and its string constants (preprocessed with the configuration's relic_conf.h)"""
    ed_c = pp(os.path.join(REPO, "src/ed/relic_ed_param.c"), incdirs)
    hdr = pp(os.path.join(REPO, "include/relic_ed.h"), incdirs)
    estr = dict(re.findall(r'^#define (\w+)\s+"([0-9A-Fa-f]*)"$', ed_c, flags=re.M))
    m = re.search(r"void ed_param_set\(int param\) \{(.*?)\n\}", ed_c, flags=re.S)
    if not m:
        raise ParamError("ed_param_set not found")
    out = {}
    for cm in re.finditer(r"case (\w+):\s*ASSIGN_ED\((\w+), (\w+)\);", m.group(1)):
        name, cname, fname = cm.groups()
        if name != cname:
            raise ParamError("case %s assigns %s" % (name, cname))
        em = re.search(r"\b%s = (\d+)" % name, hdr)
        if not em:
            raise ParamError("enumerator %s not found in relic_ed.h" % name)
        c = {"field": fname, "id": int(em.group(1))}
        for k in ("A", "D", "X", "Y", "R", "H"):
            key = "%s_%s" % (name, k)
            if key not in estr:
                raise ParamError("missing constant %s" % key)
            c[k] = int(estr[key], 16)
        out[name] = c
    return out


def _field_rows(fields):
    rows = []
    for n, f in sorted(fields.items()):
        if f["kind"] == "pairf":
            rows.append('  { name := "%s", id := %d, kind := .family "%s" (%d), sps := [] }' % (n, f["id"], f["family"], f["x"]))
        else:
            rows.append('  { name := "%s", id := %d, kind := .literal 0x%x, sps := [%s] }' % (n, f["id"], f["p"], ", ".join(str(v) for v in f.get("sps", []))))
    return rows


def _curve_rows(fields, curves):
    rows = []
    for n, c in sorted(curves.items()):
        fl = c["flags"]
        tw = "none"
        if c.get("twist"):
            t = c["twist"]
            f = fields[c["field"]]
            pr = field_prime(f)
            tr = pr + 1 - c["H"] * c["R"]
            t2 = tr * tr - 2 * pr
            f2 = isqrt_exact((4 * pr * pr - t2 * t2) // 3)
            tw = ("some { a0 := 0x%x, a1 := 0x%x, b0 := 0x%x, b1 := 0x%x, x0 := 0x%x, x1 := 0x%x, y0 := 0x%x, y1 := 0x%x, "
                  "r := 0x%x, h := 0x%x, qnr := %d, f2 := 0x%x }" % (t["A0"], t["A1"], t["B0"], t["B1"], t["X0"], t["X1"], t["Y0"], t["Y1"],
                                                                     t["R"], t["H"], derive_qnr(pr), f2))
        rows.append('  { name := "%s", id := %d, field := "%s", a := %d, b := 0x%x, gx := 0x%x, gy := 0x%x, r := 0x%x, h := 0x%x,\n'
                    '    plain := %s, endom := %s, pairf := "%s", level := %d,\n    twist := %s }' % (
                        n, c["id"], c["field"], c["A"], c["B"], c["X"], c["Y"], c["R"], c["H"],
                        "true" if fl.get("plain") == "1" else "false", "true" if fl.get("endom") == "1" else "false",
                        fl.get("pairf", ""), c.get("level", 0), tw))
    return rows


def write_lean(fields, curves, enums, out_path, extra_fields=None, extra_curves=None, ed_curves=None):
    """`fields` / `curves`: the sets selectable in the pinned (base) configuration; `extraFields` / `extraCurves`: the sets selectable in the
    other verified configurations (EXTRA_CFGS), extracted with those configurations' relic_conf.h"""
    extra_fields, extra_curves = extra_fields or {}, extra_curves or {}
    L = ["/-", "GENERATED by tools/translate_params.py from src/fp/relic_fp_param.c and src/ep/relic_ep_param.c of the current /repo working tree",
         "— do not edit, not committed.", "-/", "import RelicVerif.Model.ParamBase", "", "namespace Relic.Gen.Params", "open Relic.Model.Param", ""]
    L.append("def fields : List FieldParam := [")
    L.append(",\n".join(_field_rows(fields)))
    L.append("]\n")
    L.append("def curves : List CurveParam := [")
    L.append(",\n".join(_curve_rows(fields, curves)))
    L.append("]\n")
    L.append("/-- parameter sets of the other verified configurations (%s) -/" % ", ".join(EXTRA_CFGS))
    L.append("def extraFields : List FieldParam := [")
    L.append(",\n".join(_field_rows(extra_fields)))
    L.append("]\n")
    L.append("def extraCurves : List CurveParam := [")
    L.append(",\n".join(_curve_rows(extra_fields, extra_curves)))
    L.append("]\n")
    L.append("/-- twisted Edwards parameter sets (src/ed/relic_ed_param.c, every configuration above) -/")
    L.append("def edCurves : List EdParam := [")
    L.append(",\n".join('  { name := "%s", id := %d, field := "%s", a := 0x%x, d := 0x%x, gx := 0x%x, gy := 0x%x, r := 0x%x, h := 0x%x }' % (
        n, c["id"], c["field"], c["A"], c["D"], c["X"], c["Y"], c["R"], c["H"]) for n, c in sorted((ed_curves or {}).items())))
    L.append("]\n")
    L.append("end Relic.Gen.Params")
    os.makedirs(os.path.dirname(out_path), exist_ok=True)
    __import__("relicbuild").write_if_changed(out_path, "\n".join(L) + "\n")


def bn_p(x):
    return 36 * x ** 4 + 36 * x ** 3 + 24 * x ** 2 + 6 * x + 1


def family_p(fam, x):
    """field characteristic of a pairing-friendly family (mirrors Model/ParamBase.lean familyP; 0 = unknown family)"""
    if fam == "EP_BN":
        return bn_p(x)
    if fam == "EP_B12":
        return (x - 1) ** 2 * (x ** 4 - x ** 2 + 1) // 3 + x
    return 0


def field_prime(f):
    return f["p"] if f["kind"] != "pairf" else family_p(f["family"], f["x"])


def needed_primes(fields, curves):
    ns = set()
    for f in fields.values():
        ns.add(field_prime(f))
    for c in curves.values():
        ns.add(c["R"])
    return sorted(ns)


def write_certs(ns, out_path):
    """Gen/Certs.lean: the Pratt lines for the primes of the tables, from certs/pratt.json (found by the untrusted search tools/pratt.py;
    a missing certificate is searched for with a time budget; the Lean kernel checks every line)"""
    import json
    sys.path.insert(0, TOOLS)
    import pratt
    failures = []
    db = json.load(open(pratt.CERTS)) if os.path.exists(pratt.CERTS) else {}

    def covered(n):
        return n in pratt.SMALL or (str(n) in db and all(covered(q) for q, _ in db[str(n)]["fs"]))
    missing = [n for n in ns if not covered(n)]
    if missing and os.environ.get("VERIF_NO_CERT_SEARCH") != "1":
        # the search needs sympy (tooling venv); bounded time; the cache file is not committed by the check
        try:
            subprocess.run(["python3-vt", os.path.join(TOOLS, "pratt.py")] + ["%x" % n for n in missing], timeout=240,
                           stdout=subprocess.PIPE, stderr=subprocess.PIPE)
            db = json.load(open(pratt.CERTS)) if os.path.exists(pratt.CERTS) else {}
        except Exception as e:
            failures.append("certificate search failed: %r" % (e,))
    ok = [n for n in ns if covered(n)]
    for n in ns:
        if n not in ok:
            failures.append("no Pratt certificate for 0x%x (composite, or n-1 could not be factored in the time budget)" % n)
    lines = pratt.order_lines(db, ok)
    L = ["/-", "GENERATED by tools/translate_params.py from certs/pratt.json (untrusted search results, checked by the kernel).", "-/",
         "import RelicVerif.Model.Pratt", "", "namespace Relic.Gen.Certs", "open Relic.Model.Pratt", "", "def lines : List Line := ["]
    L.append(",\n".join("  { n := %d, a := %d, fs := [%s] }" % (n, a, ", ".join("(%d, %d)" % (q, e) for q, e in fs)) for n, a, fs in lines))
    L += ["]", "", "end Relic.Gen.Certs"]
    __import__("relicbuild").write_if_changed(out_path, "\n".join(L) + "\n")
    return failures


EXTRA_CFGS = ("p255", "p381")


def generate(base_build_dir, out_path=None):
    inc = [os.path.join(base_build_dir, "include"), os.path.join(REPO, "include"), os.path.join(REPO, "include", "low"),
           os.path.join(REPO, "src", "tmpl")]
    out_path = out_path or os.path.join(VERIF, "lean", "RelicVerif", "Gen", "Params.lean")
    ids_path = os.path.join(os.path.dirname(out_path), "params_ids.json")
    import json
    try:
        fields, curves, enums = extract(inc)
        # the other verified configurations: the same two switch statements preprocessed with their relic_conf.h
        xf, xc, ids, xfail = {}, {}, {"base": sorted(c["id"] for c in curves.values())}, []
        eds = extract_ed(inc)
        sys.path.insert(0, TOOLS)
        import relicbuild as rb
        for cfg in EXTRA_CFGS:
            b, err = rb.build(cfg)
            if b is None:
                xfail.append("configuration %s does not build: %s" % (cfg, (err or "")[-200:]))
                continue
            f2, c2, _ = extract([os.path.join(b, "include")] + inc[1:])
            ids[cfg] = sorted(c["id"] for c in c2.values())
            for n, f in f2.items():
                if n not in fields:
                    xf[n] = f
            for n, c in c2.items():
                if n not in curves:
                    xc[n] = c
            eds.update(extract_ed([os.path.join(b, "include")] + inc[1:]))
        write_lean(fields, curves, enums, out_path, xf, xc, eds)
        __import__("relicbuild").write_if_changed(ids_path, json.dumps(ids, sort_keys=True) + "\n")
        allf = dict(fields); allf.update(xf)
        allc = dict(curves); allc.update(xc)
        for n, c in eds.items():
            if c["field"] not in allf:
                raise ParamError("Edwards set %s uses field %s which no extracted configuration selects" % (n, c["field"]))
        cert_fail = write_certs(sorted(set(needed_primes(allf, allc)) | {c["R"] for c in eds.values()}), os.path.join(os.path.dirname(out_path), "Certs.lean"))
        obl = [{"c_function": "fp_param_set case " + n, "ok": True} for n in sorted(allf)] + \
              [{"c_function": "ep_param_set case " + n, "ok": True} for n in sorted(allc)] + \
              [{"c_function": "ed_param_set case " + n, "ok": True} for n in sorted(eds)]
        return {"obligations": obl, "failures": cert_fail + xfail, "fields": allf, "curves": allc}
    except ParamError as e:
        # keep the Lean library buildable: an empty table makes every per-set theorem vacuous, the failure is reported
        write_lean({}, {}, {}, out_path)
        write_certs([], os.path.join(os.path.dirname(out_path), "Certs.lean"))
        return {"obligations": [{"c_function": "parameter tables", "ok": False, "error": str(e)}], "failures": ["parameter extraction: %s" % e],
                "fields": {}, "curves": {}}


if __name__ == "__main__":
    sys.path.insert(0, TOOLS)
    import relicbuild as rb
    b, err = rb.build("base")
    r = generate(b)
    print(r["failures"])
    for n, f in r["fields"].items():
        print(n, f)
    for n, c in r["curves"].items():
        print(n, {k: (hex(v) if isinstance(v, int) and abs(v) > 1000 else v) for k, v in c.items()})
