#!/usr/bin/env python3
"""Translator for the line functions of the Miller loops of embedding degree 12 (property C04).

pp_dbl_k12_projc_basic / _lazyr, pp_add_k12_projc_basic / _lazyr (src/pp/relic_pp_dbl_k12.c, relic_pp_add_k12.c: the running point
on the twist in homogeneous projective coordinates, the line evaluated at P in G1) and pp_dbl_lit_k12 / pp_add_lit_k12 (running
point in G1, line evaluated at Q on the twist) are turned, on every run, into Lean `let` chains over the field-operation record
`FOps F` of Model/FormulaBase.lean, written to lean/RelicVerif/Gen/PpLine.lean.  Lemmas/PpLine.lean proves ABOUT THE GENERATED
DEFINITIONS that the three coefficients of the sparse element are (subfield factor) x (the coefficients of the affine tangent /
chord) and that the updated point is the tangent / chord point of the curve law.

ONE carrier F: the field of the twist (Fp2); elements of Fp (coordinates of the G1 point, Fp temporaries of the lit functions) are
elements of F through the inclusion, so a coordinate-wise product of an Fp2 value by an Fp value is a product in F.

Accepted fragment (anything else is a translation failure = broken obligation):
  * scaffolding (declarations, *_null / *_new / *_free, RLC_TRY / CATCH_ANY { RLC_THROW(ERR_CAUGHT) } / FINALLY { frees },
    `r->coord = PROJC;`, `int one = 1, zero = 0;`, `if (ep2_curve_is_twist() == RLC_EP_MTYPE) { one ^= 1; zero ^= 1; }` — the slots of the
    sparse element are kept SYMBOLIC: l[zero][zero] -> l00, l[zero][one] -> l01, l[one][zero] -> l10, l[one][one] -> l11);
  * fp2_/fp_ mul, sqr, add, sub, dbl, neg, copy on whole values; the lazy-reduction primitives fp2_muln_low / fp2_sqrn_low (product /
    square, unreduced), fp2_addd_low / fp2_subc_low (sum / difference of unreduced values), fp2_rdcn_low (reduction = identity on values):
    ABSTRACTION: double-precision values are field elements;
  * the coordinate-wise scaling of an Fp2 value by an Fp value: `fp_mul(X[0], A[0], s); fp_mul(X[1], A[1], s);` (either operand order);
  * an Fp value put into an Fp2 slot: `fp_OP(X[0], a, b); fp_zero(X[1]);`, and Fp operations on `l[zero][zero][0]` alone in
    pp_add_lit_k12 (the other coordinate is the caller's zero: both Miller loops clear l before the first call);
  * the Fp temporary `t3[0]` (`fp_neg(t3[0], p->x)`);
  * `if (ep_curve_opt_b() == RLC_TWO) { … } else { … }`: the GENERAL branch is translated (parameter b); the b = 2 branch works on single
    coordinates of Fp2 values with the non-residue −1 built in and stays class C (no configured curve takes it).
"""
import hashlib, os, re, sys

TOOLS = os.path.dirname(os.path.abspath(__file__))
VERIF = os.path.dirname(TOOLS)
REPO = os.environ.get("RELIC_REPO", "/repo")
sys.path.insert(0, TOOLS)
from translate_pp import TranslationError, function_text, parse  # noqa: E402

SLOT = {("zero", "zero"): "l00", ("zero", "one"): "l01", ("one", "zero"): "l10", ("one", "one"): "l11"}
DECL = re.compile(r"^(const\s+)?(fp2_t|fp_t|dv2_t|dv_t|int)\s+[\w\s,=\d]+$")
SCAF = re.compile(r"^(fp2|fp|dv2|dv)_(null|new|free)\(\w+\)$")
BIN = {"mul": "mul", "add": "add", "sub": "sub", "muln_low": "mul", "addd_low": "add", "subc_low": "sub", "addc_low": "add", "subd_low": "sub"}
UN = {"sqr": "sqr", "dbl": "dbl", "neg": "neg", "sqrn_low": "sqr"}
SCAL = re.compile(r"^t\d\[0\]$")     # an Fp temporary kept in the first coordinate of an Fp2 temporary (fp_neg(t3[0], p->x))


class Emit:
    def __init__(self, name, inputs):
        self.name, self.cur, self.cnt, self.lines, self.nops = name, dict(inputs), {}, [], 0

    def key(self, tok):
        tok = tok.strip()
        m = re.match(r"^l\[(one|zero)\]\[(one|zero)\]$", tok)
        if m:
            return SLOT[(m.group(1), m.group(2))]
        if tok in ("ep2_curve_get_b()", "ep_curve_get_b()"):
            return "b"
        m = re.match(r"^(\w)->(\w)$", tok)
        if m:
            return "%s%s" % (m.group(1), m.group(2))
        if re.match(r"^\w+$", tok) or SCAL.match(tok):
            return tok
        raise TranslationError("%s: operand %r" % (self.name, tok))

    def rd(self, tok):
        k = self.key(tok)
        if k not in self.cur:
            raise TranslationError("%s: %s read before assignment" % (self.name, tok))
        return self.cur[k]

    def wr(self, tok, expr):
        k = self.key(tok)
        stem = re.sub(r"\W", "", k)
        self.cnt[stem] = self.cnt.get(stem, 0) + 1
        nm = "%s_%d" % (stem, self.cnt[stem])
        self.lines.append("  let %s := %s" % (nm, expr))
        self.cur[k] = nm
        if SCAL.match(k):
            self.cur.pop(k[:-3], None)      # the coordinate write destroys the Fp2 value
        self.nops += 1

    def stmts(self, nodes):
        """flatten: try -> body, the twist-type flip -> nothing, the opt_b test -> else branch"""
        out = []
        for n in nodes:
            if n[0] == "stmt":
                t = n[1]
                if DECL.match(t) or SCAF.match(t) or t == "r->coord = PROJC":
                    continue
                out.append(t)
            elif n[0] == "try":
                if [c for c in n[2] if c != ("stmt", "RLC_THROW(ERR_CAUGHT)")]:
                    raise TranslationError("%s: handler other than RLC_THROW(ERR_CAUGHT)" % self.name)
                for f in n[3]:
                    if f[0] != "stmt" or not SCAF.match(f[1]):
                        raise TranslationError("%s: RLC_FINALLY does more than release" % self.name)
                out += self.stmts(n[1])
            elif n[0] == "if" and n[1] == "ep2_curve_is_twist() == RLC_EP_MTYPE":
                if n[2] != [("stmt", "one ^= 1"), ("stmt", "zero ^= 1")] or n[3]:
                    raise TranslationError("%s: the twist-type branch does more than exchange the slot indices" % self.name)
            elif n[0] == "if" and n[1] == "ep_curve_opt_b() == RLC_TWO":
                if n[3] is None:
                    raise TranslationError("%s: no general branch" % self.name)
                out += self.stmts(n[3])
            else:
                raise TranslationError("%s: %s outside the accepted fragment (%s)" % (self.name, n[0], n[1] if len(n) > 1 else ""))
        return out

    def run(self, st):
        i = 0
        while i < len(st):
            i += self.one(st[i], st[i + 1] if i + 1 < len(st) else "")

    def one(self, t, nxt):
        m = re.match(r"^(fp2?)_(\w+)\((.*)\)$", t)
        if not m:
            raise TranslationError("%s: statement outside the accepted fragment: %s" % (self.name, t))
        lvl, op, args = m.group(1), m.group(2), [a.strip() for a in m.group(3).split(",")]
        # coordinate-wise scaling  fp_mul(X[0], A[0], s); fp_mul(X[1], A[1], s);
        if lvl == "fp" and op == "mul" and len(args) == 3 and args[0].endswith("[0]") and not SCAL.match(args[0]):
            X = args[0][:-3]
            for A0, s in ((args[1], args[2]), (args[2], args[1])):
                if A0.endswith("[0]") and not (SCAL.match(A0) and A0 in self.cur):
                    A = A0[:-3]
                    want = ["fp_mul(%s[1], %s[1], %s)" % (X, A, s), "fp_mul(%s[1], %s, %s[1])" % (X, s, A)]
                    if nxt in want:
                        self.wr(X, "o.mul %s %s" % (self.rd(A), self.rd(s)))
                        return 2
            # Fp product into the real coordinate of l00 (pp_add_lit_k12)
            if X == "l[zero][zero]" and not any(a.endswith("]") and not SCAL.match(a) for a in args[1:]):
                self.wr(X, "o.mul %s %s" % (self.rd(args[1]), self.rd(args[2])))
                return 1
            raise TranslationError("%s: coordinate operation without its partner: %s" % (self.name, t))
        # an Fp value into an Fp2 slot:  fp_OP(X[0], a, b); fp_zero(X[1]);
        if lvl == "fp" and op in ("sub", "add") and len(args) == 3 and args[0].endswith("[0]") and not SCAL.match(args[0]):
            X = args[0][:-3]
            a = [X if x == args[0] else x for x in args[1:]]
            if nxt == "fp_zero(%s[1])" % X:
                self.wr(X, "o.%s %s %s" % (op, self.rd(a[0]), self.rd(a[1])))
                return 2
            if X == "l[zero][zero]":
                self.wr(X, "o.%s %s %s" % (op, self.rd(a[0]), self.rd(a[1])))
                return 1
            raise TranslationError("%s: coordinate operation without its partner: %s" % (self.name, t))
        if any(re.search(r"\]\[[01]\]$|\w\[[01]\]$", a) and not SCAL.match(a) for a in args):
            raise TranslationError("%s: single-coordinate operation outside the fragment: %s" % (self.name, t))
        if op in BIN and len(args) == 3:
            self.wr(args[0], "o.%s %s %s" % (BIN[op], self.rd(args[1]), self.rd(args[2])))
        elif op in UN and len(args) == 2:
            self.wr(args[0], "o.%s %s" % (UN[op], self.rd(args[1])))
        elif op in ("copy", "rdcn_low") and len(args) == 2:
            self.wr(args[0], self.rd(args[1]))
        else:
            raise TranslationError("%s: statement outside the accepted fragment: %s" % (self.name, t))
        return 1


# name, file, inputs (C lvalue key -> Lean parameter), point that is read as running point
T = [
    ("pp_dbl_k12_projc_basic", "relic_pp_dbl_k12.c", ["b", "qx", "qy", "qz", "px", "py"]),
    ("pp_dbl_k12_projc_lazyr", "relic_pp_dbl_k12.c", ["b", "qx", "qy", "qz", "px", "py"]),
    ("pp_add_k12_projc_basic", "relic_pp_add_k12.c", ["rx", "ry", "rz", "qx", "qy", "px", "py"]),
    ("pp_add_k12_projc_lazyr", "relic_pp_add_k12.c", ["rx", "ry", "rz", "qx", "qy", "px", "py"]),
    ("pp_dbl_lit_k12", "relic_pp_dbl_k12.c", ["b", "px", "py", "pz", "qx", "qy"]),
    ("pp_add_lit_k12", "relic_pp_add_k12.c", ["rx", "ry", "rz", "px", "py", "qx", "qy"]),
]

HEADER = """/-
GENERATED by tools/translate_ppline.py from the current /repo working tree — do not edit, not committed.
Line functions of the Miller loops (general-b branch) as `let` chains over `FOps F`; the slots of the sparse element are symbolic
(l00 = l[zero][zero], l01 = l[zero][one], l10 = l[one][zero], l11 = l[one][one]; a slot that is never written is the caller's zero).
-/
import RelicVerif.Model.FormulaBase

set_option linter.unusedVariables false

namespace Relic.Gen.PpLine
open Relic.Model.Formula

/-- the sparse line value (symbolic slots) and the updated running point (homogeneous projective) -/
structure LineOut (F : Type) where
  l00 : F
  l01 : F
  l10 : F
  l11 : F
  x : F
  y : F
  z : F

"""


def translate(name, fname, inputs):
    path = os.path.join(REPO, "src", "pp", fname)
    whole, cparams, body = function_text(path, name)
    e = Emit(name, {k: k for k in inputs})
    e.run(e.stmts(parse(body)))
    for k in ("rx", "ry", "rz"):
        if k not in e.cur or e.cur[k] == k and k not in inputs:
            raise TranslationError("%s: coordinate %s of the result is never written" % (name, k))
    slots = [e.cur.get(s, "o.zero") for s in ("l00", "l01", "l10", "l11")]
    if len([s for s in slots if s != "o.zero"]) != 3:
        raise TranslationError("%s: %d slots of the sparse element are written (expected 3)" % (name, len([s for s in slots if s != "o.zero"])))
    sha = hashlib.sha256(whole.encode()).hexdigest()[:16]
    doc = "/-- %s, from src/pp/%s (sha256 %s, %d operations) -/" % (name, fname, sha, e.nops)
    sig = "def %s {F : Type} (o : FOps F) %s : LineOut F :=" % (name, " ".join("(%s : F)" % k for k in inputs))
    res = "  ⟨%s, %s, %s, %s⟩" % (", ".join(slots), e.cur["rx"], e.cur["ry"], e.cur["rz"])
    return "\n".join([doc, sig] + e.lines + [res]), {"name": name, "source": "src/pp/" + fname, "sha256": sha, "operations": e.nops, "ok": True}


def generate(out_path=None):
    out_path = out_path or os.path.join(VERIF, "lean", "RelicVerif", "Gen", "PpLine.lean")
    defs, obligations, failures = [], [], []
    for name, fname, inputs in T:
        try:
            d, ob = translate(name, fname, inputs)
            defs.append(d)
            obligations.append(ob)
        except (TranslationError, OSError, KeyError, IndexError, AssertionError) as e:
            failures.append("translate_ppline: %s: %s" % (name, e))
            obligations.append({"name": name, "ok": False, "error": str(e)})
    os.makedirs(os.path.dirname(out_path), exist_ok=True)
    new = HEADER + "\n\n".join(defs) + "\n\nend Relic.Gen.PpLine\n"
    if not os.path.exists(out_path) or open(out_path).read() != new:
        __import__("relicbuild").write_if_changed(out_path, new)
    return {"obligations": obligations, "failures": failures}


if __name__ == "__main__":
    r = generate()
    for o in r["obligations"]:
        print(o)
    print("FAILURES:", r["failures"])
