#!/usr/bin/env python3
"""usage: subst_commits.py <prefix-of-finding-ids-to-drop e.g. C10-> [keep ids...] — replaces <COMMIT:patch> placeholders in known_findings.json by the
/repo commit whose subject matches the patch file name, and drops the findings of that slice that are now fixed (all but the kept ids)."""
import json, re, subprocess, sys
p = "/verif/known_findings.json"
d = json.load(open(p))
log = subprocess.run(["git", "-C", "/repo", "log", "--format=%h %s", "-n", "80"], stdout=subprocess.PIPE, text=True).stdout.splitlines()


def commit_for(patchname):
    words = [w for w in re.sub(r"^\d+-", "", patchname).replace(".patch", "").split("-") if w]
    best = None
    for l in log:
        h, subj = l.split(" ", 1)
        sj = re.sub(r"[^a-z0-9_ ]", " ", subj.lower())
        score = sum(1 for w in words[1:8] if w.lower() in sj.split() or w.lower() in sj)
        if best is None or score > best[0]:
            best = (score, h, subj)
    return best


new = []
for x in d["fixed"]:
    m = re.search(r"<COMMIT:([^>]+)>", x)
    if m:
        sc, h, subj = commit_for(m.group(1))
        print("%-60s -> %s %s (score %d)" % (m.group(1)[:60], h, subj[:60], sc))
        x = x.replace(m.group(0), h)
    new.append(x)
d["fixed"] = new
pref = sys.argv[1]
keep = set(sys.argv[2:])
d["findings"] = [f for f in d["findings"] if not f["id"].startswith(pref) or f["id"] in keep]
json.dump(d, open(p, "w"), indent=1)
open(p, "a").write("\n")
print("findings left:", [f["id"] for f in d["findings"]])
