#!/usr/bin/env python3
"""Translator for the final-exponentiation code of embedding degree 12 (property C04).

src/pp/relic_pp_exp_k12.c (pp_exp_bn, pp_exp_sm9, pp_exp_b12, dispatcher pp_exp_k12) and fp12_conv_cyc of
src/fpx/relic_fpx_cyc.c are turned, on every run, into Lean `let` chains in static single assignment form over the
operation record `CycOps G` of Model/PpExp.lean, written to lean/RelicVerif/Gen/PpExp.lean.  Props/C04B.lean proves the
theorems ABOUT THE GENERATED DEFINITIONS (chain = f^(c·(p^12−1)/r)), and the driver executes the generated definitions
with its own Fp12 arithmetic, so a change of the C text either still computes the same power or breaks a proof / the tie.

Accepted fragment (anything else is a translation failure, reported as a broken obligation):
  * scaffolding: declarations, fp12_null/new/free, bn_null/new/free, RLC_TRY { … } RLC_CATCH_ANY { RLC_THROW(ERR_CAUGHT); }
    RLC_FINALLY { frees };  `fp_prime_get_par(x);` and `b = fp_prime_get_par_sps(&l);` bind the parameters x, b, l;
  * fp12_mul / sqr_cyc / inv_cyc / inv / copy / frb(·,·,k) / conv_cyc / exp_cyc_sps(dst, src, b|_b, l, RLC_POS|RLC_NEG|bn_sign(x));
  * `if (cond) { … } [else { … }]` with cond one of `bn_sign(x) == RLC_NEG`, `b[0] == 0` (variables assigned in a branch
    are merged by an if-expression returning the tuple of their values);
  * the index loop `for (int i = 0; i < l; i++) { if (b[i] OP n) { _b[i] = b[i] ± m; } else { _b[i] = b[i] ± m'; } }`
    -> `b.map (fun bi => if bi OP n then bi ± m else bi ± m')`;
  * the dispatcher: `switch (ep_curve_is_pairf()) { case EP_X: … break; … }` with `if (ep_param_get() == ID)` inside and calls
    of the translated chains -> a function of the family name and the parameter name (both read BY NAME from the running
    library by the harness) returning `none` when no case writes the result.
Aliasing of the destination with an operand is not modelled (value semantics; the correspondence run exercises the real code).
"""
import hashlib, os, re, sys

TOOLS = os.path.dirname(os.path.abspath(__file__))
VERIF = os.path.dirname(TOOLS)
REPO = os.environ.get("RELIC_REPO", "/repo")


class TranslationError(Exception):
    pass


# ------------------------------------------------------------------------------------------------ C text -> tree
def function_text(path, name):
    txt = open(path).read()
    txt = re.sub(r"/\*.*?\*/", "", txt, flags=re.S)
    txt = re.sub(r"//[^\n]*", "", txt)
    m = re.search(r"^(?:static\s+)?(?:void|int)\s+%s\(([^)]*)\)\s*\{" % re.escape(name), txt, flags=re.M)
    if not m:
        raise TranslationError("%s: definition not found in %s" % (name, os.path.basename(path)))
    i, d = m.end(), 1
    while d:
        d += {"{": 1, "}": -1}.get(txt[i], 0)
        i += 1
    return txt[m.start():i], m.group(1), txt[m.end():i - 1]


def _skip_ws(s, i):
    while i < len(s) and s[i].isspace():
        i += 1
    return i


def _paren(s, i):
    """s[i] == '(' -> (inside, index after the matching ')')"""
    assert s[i] == "("
    d, j = 1, i + 1
    while d:
        d += {"(": 1, ")": -1}.get(s[j], 0)
        j += 1
    return s[i + 1:j - 1].strip(), j


def _block(s, i):
    """s[i] == '{' -> (list of nodes, index after the matching '}')"""
    assert s[i] == "{"
    d, j = 1, i + 1
    while d:
        d += {"{": 1, "}": -1}.get(s[j], 0)
        j += 1
    return parse(s[i + 1:j - 1]), j


def parse(s):
    """statement list -> nodes: ("stmt", text) | ("if", cond, then, else|None) | ("for", header, body) |
    ("switch", expr, [(label, nodes)]) | ("try", body, catch, finally) | ("break",)"""
    out, i = [], 0
    while True:
        i = _skip_ws(s, i)
        if i >= len(s):
            return out
        if s.startswith("#", i):
            raise TranslationError("preprocessor line inside the body: %s" % s[i:].split("\n")[0])
        m = re.compile(r"(if|for|switch)\s*\(").match(s, i)
        if m:
            kw = m.group(1)
            inside, j = _paren(s, m.end() - 1)
            j = _skip_ws(s, j)
            if s[j] != "{":
                raise TranslationError("%s without braces" % kw)
            if kw == "switch":
                d, k = 1, j + 1
                while d:
                    d += {"{": 1, "}": -1}.get(s[k], 0)
                    k += 1
                body = s[j + 1:k - 1]
                cases, pos = [], [(mm.start(), mm.end(), mm.group(1)) for mm in re.finditer(r"\b(?:case\s+(\w+)|default)\s*:", body)]
                if body[:pos[0][0]].strip() if pos else body.strip():
                    raise TranslationError("statements before the first case label")
                for n, (st, en, lab) in enumerate(pos):
                    nxt = pos[n + 1][0] if n + 1 < len(pos) else len(body)
                    cases.append((lab or "default", parse(body[en:nxt])))
                out.append(("switch", inside, cases))
                i = k
                continue
            blk, j = _block(s, j)
            if kw == "for":
                out.append(("for", re.sub(r"\s+", " ", inside), blk))
                i = j
                continue
            els = None
            k = _skip_ws(s, j)
            if re.compile(r"else\b").match(s, k):
                k = _skip_ws(s, k + 4)
                if s[k] != "{":
                    raise TranslationError("else without braces (else-if chains are outside the fragment)")
                els, k = _block(s, k)
                j = k
            out.append(("if", re.sub(r"\s+", " ", inside), blk, els))
            i = j
            continue
        m = re.compile(r"RLC_TRY\s*\{").match(s, i)
        if m:
            body, j = _block(s, m.end() - 1)
            j = _skip_ws(s, j)
            m2 = re.compile(r"RLC_CATCH_ANY\s*\{").match(s, j)
            if not m2:
                raise TranslationError("RLC_TRY without RLC_CATCH_ANY")
            catch, j = _block(s, m2.end() - 1)
            j = _skip_ws(s, j)
            fin = []
            m3 = re.compile(r"RLC_FINALLY\s*\{").match(s, j)
            if m3:
                fin, j = _block(s, m3.end() - 1)
            out.append(("try", body, catch, fin))
            i = j
            continue
        j = s.find(";", i)
        if j < 0:
            raise TranslationError("unterminated statement: %s" % s[i:i + 60])
        t = re.sub(r"\s+", " ", s[i:j].strip())
        out.append(("break",) if t == "break" else ("stmt", t))
        i = j + 1


# ------------------------------------------------------------------------------------------------ tree -> Lean
DECL = re.compile(r"^(const\s+)?(fp12_t|bn_t|int|size_t)\s*\*?\s*[\w\s,\*\[\]\+]+$")
SCAF = re.compile(r"^(fp12|bn)_(null|new|free)\(\w+\)$")
CMP = {">": ">", "<": "<", ">=": "≥", "<=": "≤", "==": "==", "!=": "!="}
UNARY = {"fp12_sqr_cyc": "sqrCyc", "fp12_inv_cyc": "invCyc", "fp12_inv": "inv"}
CHAINS = ("pp_exp_bn", "pp_exp_sm9", "pp_exp_b12")


class Emit:
    def __init__(self, name, indent=1):
        self.name = name
        self.cur = {}          # C variable -> current Lean name
        self.cnt = {}          # shared counters (names are unique in the whole definition)
        self.lines = []
        self.nops = 0
        self.ind = indent
        self.lists = {"b": "b"}     # C int arrays -> Lean name

    def fork(self):
        e = Emit(self.name, self.ind + 2)
        e.cur, e.cnt, e.lists = dict(self.cur), self.cnt, dict(self.lists)
        return e

    def rd(self, v):
        v = v.strip()
        if v not in self.cur:
            raise TranslationError("%s: %s read before assignment" % (self.name, v))
        return self.cur[v]

    def fresh(self, v):
        stem = v.strip("_") if v.startswith("_") else v
        stem = ("u" + stem) if v.startswith("_") else stem
        self.cnt[stem] = self.cnt.get(stem, 0) + 1
        return "%s_%d" % (stem, self.cnt[stem])

    def let(self, v, expr):
        nm = self.fresh(v)
        self.lines.append("%slet %s := %s" % ("  " * self.ind, nm, expr))
        self.cur[v.strip()] = nm

    def cond(self, c):
        if c == "bn_sign(x) == RLC_NEG":
            return "xneg"
        if c == "bn_sign(x) == RLC_POS":
            return "!xneg"
        m = re.match(r"^(\w+)\[0\] (==|!=) (-?\d+)$", c)
        if m and m.group(1) in self.lists:
            e = "%s.head? == some (%s : Int)" % (self.lists[m.group(1)], m.group(3))
            return e if m.group(2) == "==" else "!(%s)" % e
        raise TranslationError("%s: condition outside the fragment: %s" % (self.name, c))

    def sign(self, a):
        a = a.strip()
        if a == "RLC_POS":
            return "false"
        if a == "RLC_NEG":
            return "true"
        if a == "bn_sign(x)":
            return "xneg"
        raise TranslationError("%s: sign argument %s" % (self.name, a))

    def call(self, t):
        if DECL.match(t) or SCAF.match(t):
            return
        if t == "fp_prime_get_par(x)" or t == "b = fp_prime_get_par_sps(&l)":
            return
        m = re.match(r"^(\w+)\((.*)\)$", t)
        if not m:
            raise TranslationError("%s: statement outside the accepted fragment: %s" % (self.name, t))
        fn, args = m.group(1), [a.strip() for a in m.group(2).split(",")]
        self.nops += 1
        if fn == "fp12_mul" and len(args) == 3:
            self.let(args[0], "o.mul %s %s" % (self.rd(args[1]), self.rd(args[2])))
        elif fn in UNARY and len(args) == 2:
            self.let(args[0], "o.%s %s" % (UNARY[fn], self.rd(args[1])))
        elif fn == "fp12_copy" and len(args) == 2:
            self.let(args[0], self.rd(args[1]))
        elif fn == "fp12_frb" and len(args) == 3 and re.match(r"^\d+$", args[2]):
            self.let(args[0], "o.frb %s %s" % (self.rd(args[1]), args[2]))
        elif fn == "fp12_conv_cyc" and len(args) == 2:
            self.let(args[0], "fp12_conv_cyc o %s" % self.rd(args[1]))
        elif fn == "fp12_exp_cyc_sps" and len(args) == 5:
            if args[2] not in self.lists or args[3] != "l":
                raise TranslationError("%s: exponent arguments of %s" % (self.name, t))
            self.let(args[0], "expCycSps o %s %s %s" % (self.rd(args[1]), self.lists[args[2]], self.sign(args[4])))
        else:
            raise TranslationError("%s: statement outside the accepted fragment: %s" % (self.name, t))

    def index_loop(self, header, body):
        if header != "int i = 0; i < l; i++":
            raise TranslationError("%s: loop header outside the fragment: %s" % (self.name, header))
        if len(body) != 1 or body[0][0] != "if" or body[0][3] is None:
            raise TranslationError("%s: loop body outside the fragment" % self.name)
        _, c, th, el = body[0]
        mc = re.match(r"^b\[i\] (>|<|>=|<=|==|!=) (-?\d+)$", c)
        def arm(bl):
            if len(bl) != 1 or bl[0][0] != "stmt":
                raise TranslationError("%s: loop arm outside the fragment" % self.name)
            ma = re.match(r"^(\w+)\[i\] = b\[i\] ([+-]) (\d+)$", bl[0][1])
            if not ma:
                raise TranslationError("%s: loop arm outside the fragment: %s" % (self.name, bl[0][1]))
            return ma.group(1), "bi %s %s" % (ma.group(2), ma.group(3))
        if not mc:
            raise TranslationError("%s: loop condition outside the fragment: %s" % (self.name, c))
        (d1, e1), (d2, e2) = arm(th), arm(el)
        if d1 != d2 or d1 == "b":
            raise TranslationError("%s: loop arms write different arrays" % self.name)
        nm = self.fresh(d1)
        self.lines.append("%slet %s : List Int := b.map (fun bi => if bi %s %s then %s else %s)" % (
            "  " * self.ind, nm, CMP[mc.group(1)], mc.group(2), e1, e2))
        self.lists[d1] = nm
        self.nops += 1

    def nodes(self, ns):
        for n in ns:
            if n[0] == "stmt":
                self.call(n[1])
            elif n[0] == "try":
                _, body, catch, fin = n
                if [c for c in catch if c != ("stmt", "RLC_THROW(ERR_CAUGHT)")]:
                    raise TranslationError("%s: handler other than RLC_THROW(ERR_CAUGHT)" % self.name)
                for f in fin:
                    if f[0] == "for":     # release loops
                        continue
                    if f[0] != "stmt" or not SCAF.match(f[1]):
                        raise TranslationError("%s: RLC_FINALLY does more than release" % self.name)
                self.nodes(body)
            elif n[0] == "for":
                self.index_loop(n[1], n[2])
            elif n[0] == "if":
                self.branch(n[1], n[2], n[3] or [])
            else:
                raise TranslationError("%s: %s outside the accepted fragment" % (self.name, n[0]))

    def branch(self, c, th, el):
        ce = self.cond(c)
        a, b = self.fork(), self.fork()
        a.nodes(th)
        b.nodes(el)
        self.nops += a.nops + b.nops
        # variables whose current name differs after a branch
        vs = sorted(v for v in set(a.cur) | set(b.cur) if a.cur.get(v) != self.cur.get(v) or b.cur.get(v) != self.cur.get(v))
        # arrays declared inside a branch stay local to it (a later use fails as 'exponent arguments')
        for v in vs:
            if v not in a.cur or v not in b.cur:
                raise TranslationError("%s: %s assigned in one branch only and not before" % (self.name, v))
        if not vs:
            return
        r = self.fresh("r")
        pad = "  " * self.ind
        tup = lambda e: e.cur[vs[0]] if len(vs) == 1 else "(" + ", ".join(e.cur[v] for v in vs) + ")"
        self.lines.append("%slet %s := if %s then" % (pad, r, ce))
        self.lines += a.lines + ["%s    %s" % (pad, tup(a))]
        self.lines.append("%s  else" % pad)
        self.lines += b.lines + ["%s    %s" % (pad, tup(b))]
        for k, v in enumerate(vs):
            if len(vs) == 1:
                proj = r
            else:
                proj = r + ".2" * k + (".1" if k < len(vs) - 1 else "")
            self.let(v, proj)


def chain(name, path, params="(xneg : Bool) (b : List Int) (a : G)", res="c"):
    whole, cparams, body = function_text(path, name)
    e = Emit(name)
    e.cur["a"] = "a"
    e.nodes(parse(body))
    if res not in e.cur:
        raise TranslationError("%s: the result is never written" % name)
    sha = hashlib.sha256(whole.encode()).hexdigest()[:16]
    rel = os.path.relpath(path, REPO)
    doc = "/-- %s, from %s (sha256 %s, %d operations) -/" % (name, rel, sha, e.nops)
    sig = "def %s {G : Type} (o : CycOps G) %s : G :=" % (name, params)
    return "\n".join([doc, sig] + e.lines + ["  " + e.cur[res]]), {"name": name, "source": rel, "sha256": sha, "operations": e.nops, "ok": True}


def dispatcher(path):
    """pp_exp_k12: switch over the family, parameter test inside"""
    name = "pp_exp_k12"
    whole, cparams, body = function_text(path, name)
    ns = parse(body)
    if len(ns) != 1 or ns[0][0] != "switch" or ns[0][1] != "ep_curve_is_pairf()":
        raise TranslationError("%s: not a switch over ep_curve_is_pairf()" % name)

    def call(n):
        if n[0] != "stmt":
            raise TranslationError("%s: %s inside a case" % (name, n[0]))
        m = re.match(r"^(pp_exp_\w+)\(c, a\)$", n[1])
        if not m or m.group(1) not in CHAINS:
            raise TranslationError("%s: call outside the fragment: %s" % (name, n[1]))
        return "some (%s o xneg b a)" % m.group(1)

    def seq(nodes):
        """nodes of one case up to `break` -> Lean expression (Option G); falls through -> error"""
        if not nodes or nodes[-1] != ("break",):
            raise TranslationError("%s: case without break (fall-through is outside the fragment)" % name)
        nodes = nodes[:-1]
        if len(nodes) != 1:
            raise TranslationError("%s: a case must be one call or one if/else" % name)
        n = nodes[0]
        if n[0] == "if":
            m = re.match(r"^ep_param_get\(\) (==|!=) (\w+)$", n[1])
            if not m or n[3] is None or len(n[2]) != 1 or len(n[3]) != 1:
                raise TranslationError("%s: condition outside the fragment: %s" % (name, n[1]))
            t, f = call(n[2][0]), call(n[3][0])
            if m.group(1) == "!=":
                t, f = f, t
            return "if param == \"%s\" then %s else %s" % (m.group(2), t, f)
        return call(n)

    arms = []
    for lab, nodes in ns[0][2]:
        if lab == "default":
            raise TranslationError("%s: default label" % name)
        arms.append((lab, seq(nodes)))
    lines = ["  " + " else ".join("if fam == \"%s\" then %s" % (lab, e) for lab, e in arms) + " else none"]
    sha = hashlib.sha256(whole.encode()).hexdigest()[:16]
    rel = os.path.relpath(path, REPO)
    doc = "/-- %s, from %s (sha256 %s): the chain selected by the family / parameter names; `none` = no case writes c -/" % (name, rel, sha)
    sig = "def %s {G : Type} (o : CycOps G) (fam param : String) (xneg : Bool) (b : List Int) (a : G) : Option G :=" % name
    return "\n".join([doc, sig] + lines), {"name": name, "source": rel, "sha256": sha, "operations": len(arms), "ok": True}


HEADER = """/-
GENERATED by tools/translate_pp.py from the current /repo working tree — do not edit, not committed.
Final exponentiation of embedding degree 12 (src/pp/relic_pp_exp_k12.c, fp12_conv_cyc) as `let` chains over `CycOps G`.
`xneg` ⇔ bn_sign(x) == RLC_NEG for the curve parameter x, `b` = fp_prime_get_par_sps (the sparse form of |x|).
-/
import RelicVerif.Model.PpExp

set_option linter.unusedVariables false

namespace Relic.Gen.PpExp
open Relic.Model.PpExp

"""


def generate(out_path=None):
    out_path = out_path or os.path.join(VERIF, "lean", "RelicVerif", "Gen", "PpExp.lean")
    k12 = os.path.join(REPO, "src", "pp", "relic_pp_exp_k12.c")
    cyc = os.path.join(REPO, "src", "fpx", "relic_fpx_cyc.c")
    defs, obligations, failures = [], [], []
    jobs = [("fp12_conv_cyc", lambda: chain("fp12_conv_cyc", cyc, params="(a : G)"))]
    jobs += [(n, (lambda n=n: chain(n, k12))) for n in CHAINS]
    jobs.append(("pp_exp_k12", lambda: dispatcher(k12)))
    for name, job in jobs:
        try:
            d, ob = job()
            defs.append(d)
            obligations.append(ob)
        except (TranslationError, OSError, KeyError, IndexError, AssertionError) as e:
            failures.append("translate_pp: %s: %s" % (name, e))
            obligations.append({"name": name, "ok": False, "error": str(e)})
    os.makedirs(os.path.dirname(out_path), exist_ok=True)
    new = HEADER + "\n\n".join(defs) + "\n\nend Relic.Gen.PpExp\n"
    if not os.path.exists(out_path) or open(out_path).read() != new:
        sys.path.insert(0, TOOLS)
        __import__("relicbuild").write_if_changed(out_path, new)
    return {"obligations": obligations, "failures": failures}


if __name__ == "__main__":
    r = generate()
    for o in r["obligations"]:
        print(o)
    print("FAILURES:", r["failures"])
