#!/usr/bin/env python3
"""usage: main_add.py <import> <fields-text> <dispatch-text> <loop-block-file>  — adds a slice to lean/Driver/Main.lean (taken from HEAD)"""
import subprocess, sys, os
V = os.path.dirname(os.path.dirname(os.path.abspath(__file__)))
imp, fields, disp, blockf = sys.argv[1:5]
ours = subprocess.run(["git", "show", "HEAD:lean/Driver/Main.lean"], cwd=V, stdout=subprocess.PIPE, text=True).stdout
k = ours.index("\nopen Driver Relic.Model")
ours = ours[:k] + "\nimport " + imp + ours[k:]
k = ours.index("\ndef parseCfg")
ours = ours[:k].rstrip("\n") + "\n" + fields.rstrip("\n") + "\n" + ours[k:]
k = ours.index("\ndef processLine")
head = ours[:k].rstrip("\n")
ours = head + " <|> " + disp + "\n" + ours[k:]
block = open(blockf).read() if blockf != "-" else ""
k = ours.index('  else if line.startsWith "fp_param " then')
ours = ours[:k] + block + ours[k:]
open(os.path.join(V, "lean/Driver/Main.lean"), "w").write(ours)
