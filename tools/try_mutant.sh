#!/bin/sh
# usage: tools/try_mutant.sh <patch.diff> <Cxx> [<Cyy> ...]  — applies the patch to /repo, runs the quick checks, reverts.
P=$1; shift
cd /repo && git apply --check "$P" || { echo "patch does not apply"; exit 2; }
git apply "$P"
cd /verif
rm -rf /var/tmp/evidence-keep && cp -r /verif/evidence /var/tmp/evidence-keep
for c in "$@"; do
  timeout 1500 python3 tools/check.py $c 2>/dev/null | grep -v "^KNOWN-FINDING" | cut -c1-200
  echo "[$c exit=$?]"
done
rm -rf /verif/evidence && mv /var/tmp/evidence-keep /verif/evidence
git -C /repo checkout -- . && git -C /repo status --short | grep -v _build
