#!/usr/bin/env python3
"""Extractor for the constants of the hash implementations (property C14).

Parsed from the C text on every run and written to lean/RelicVerif/Gen/MdConsts.lean (namespace Relic.Gen.MdConsts),
together with kernel-checked theorems that they equal the constants of the FIPS 180-4 / RFC 7693 definitions of
Spec/Sha256.lean, Spec/Sha512.lean, Spec/Blake2s.lean:

  src/md/sha224-256.c   K[64] of SHA224_256ProcessMessageBlock, SHA224_H0, SHA256_H0
  src/md/sha384-512.c   BOTH variants of the file: K[80], SHA384_H0, SHA512_H0 as uint64_t, and K[80*2], SHA384_H0[16], SHA512_H0[16] as
                        pairs of uint32_t (USE_32BIT_ONLY — the variant the library actually compiles, see findings/C14-ext-1.md)
  src/md/blake2s-ref.c  blake2s_IV[8], blake2s_sigma[10][16]

and, checked on the python side (the Lean definitions carry them as literals inside the functions), the rotation / shift amounts
of the SIGMA / sigma macros and of the G macro.  A changed constant makes a generated theorem false (the build of the proofs
fails); a constant that cannot be found or parsed is a translation failure.
"""
import os, re, sys

TOOLS = os.path.dirname(os.path.abspath(__file__))
VERIF = os.path.dirname(TOOLS)
REPO = os.environ.get("RELIC_REPO", "/repo")


class TranslationError(Exception):
    pass


def strip_comments(src):
    src = re.sub(r"/\*.*?\*/", " ", src, flags=re.S)
    return re.sub(r"//[^\n]*", " ", src)


LIT = re.compile(r"^(0[xX][0-9a-fA-F]+|0[0-7]*|[1-9][0-9]*)([uUlL]*)$")


def lit(tok, bits):
    m = LIT.match(tok.strip())
    if not m:
        raise TranslationError("not an integer literal: %r" % tok[:40])
    b = m.group(1)
    v = int(b, 16) if b[:2] in ("0x", "0X") else (int(b, 8) if b.startswith("0") and len(b) > 1 else int(b, 10))
    if v >> bits:
        raise TranslationError("literal does not fit %d bits: %r" % (bits, tok))
    return v


def table(src, decl_re, bits, count, what):
    ms = list(re.finditer(decl_re + r"\s*=\s*\{(.*?)\}\s*;", src, flags=re.S))
    if len(ms) != 1:
        raise TranslationError("%s: %d definitions found, expected exactly 1" % (what, len(ms)))
    body = ms[0].group(1).replace("{", " ").replace("}", " ")
    toks = [t for t in (x.strip() for x in body.split(",")) if t]
    vals = [lit(t, bits) for t in toks]
    if len(vals) != count:
        raise TranslationError("%s: %d entries, expected %d" % (what, len(vals), count))
    return vals


def macro_numbers(src, name):
    m = re.search(r"#define\s+" + re.escape(name) + r"\(word\)\s*\\?\s*\n?\s*\((.*?)\)\s*\n", src, flags=re.S)
    if not m:
        raise TranslationError("macro %s not found" % name)
    return [int(x) for x in re.findall(r"(?:ROTR|SHR)\(\s*(\d+)\s*,", m.group(1))]


def arr(name, ty, vals, width):
    body = ",\n  ".join(", ".join("0x%0*x" % (width, v) for v in vals[i:i + 4]) for i in range(0, len(vals), 4))
    return "def %s : Array %s := #[\n  %s]\n" % (name, ty, body)


# (name, file, declaration regex, bits, count, Lean type, Lean spec term it must equal)
TABLES = [
    ("sha256K", "src/md/sha224-256.c", r"static\s+const\s+uint32_t\s+K\s*\[\s*64\s*\]", 32, 64, "UInt32", "Relic.Spec.Sha256.K"),
    ("sha224H0", "src/md/sha224-256.c", r"static\s+uint32_t\s+SHA224_H0\s*\[[^\]]*\]", 32, 8, "UInt32", "Relic.Spec.Sha256.H0_224.toArray"),
    ("sha256H0", "src/md/sha224-256.c", r"static\s+uint32_t\s+SHA256_H0\s*\[[^\]]*\]", 32, 8, "UInt32", "Relic.Spec.Sha256.H0.toArray"),
    ("sha512K", "src/md/sha384-512.c", r"static\s+const\s+uint64_t\s+K\s*\[\s*80\s*\]", 64, 80, "UInt64", "Relic.Spec.Sha512.K"),
    ("sha384H0", "src/md/sha384-512.c", r"static\s+uint64_t\s+SHA384_H0\s*\[[^\]]*\]", 64, 8, "UInt64", "Relic.Spec.Sha512.H0_384.toArray"),
    ("sha512H0", "src/md/sha384-512.c", r"static\s+uint64_t\s+SHA512_H0\s*\[[^\]]*\]", 64, 8, "UInt64", "Relic.Spec.Sha512.H0_512.toArray"),
    ("sha512K32", "src/md/sha384-512.c", r"static\s+const\s+uint32_t\s+K\s*\[\s*80\s*\*\s*2\s*\]", 32, 160, "UInt32", None),
    ("sha384H032", "src/md/sha384-512.c", r"static\s+uint32_t\s+SHA384_H0\s*\[[^\]]*\]", 32, 16, "UInt32", None),
    ("sha512H032", "src/md/sha384-512.c", r"static\s+uint32_t\s+SHA512_H0\s*\[[^\]]*\]", 32, 16, "UInt32", None),
    ("blake2sIV", "src/md/blake2s-ref.c", r"static\s+const\s+uint32_t\s+blake2s_IV\s*\[\s*8\s*\]", 32, 8, "UInt32", "Relic.Spec.Blake2s.IV"),
]

# macro -> the rotation / shift amounts of FIPS 180-4 §4.1.2 / §4.1.3
MACROS = [
    ("src/md/sha224-256.c", "SHA256_SIGMA0", [2, 13, 22]), ("src/md/sha224-256.c", "SHA256_SIGMA1", [6, 11, 25]),
    ("src/md/sha224-256.c", "SHA256_sigma0", [7, 18, 3]), ("src/md/sha224-256.c", "SHA256_sigma1", [17, 19, 10]),
    ("src/md/sha384-512.c", "SHA512_SIGMA0", [28, 34, 39]), ("src/md/sha384-512.c", "SHA512_SIGMA1", [14, 18, 41]),
    ("src/md/sha384-512.c", "SHA512_sigma0", [1, 8, 7]), ("src/md/sha384-512.c", "SHA512_sigma1", [19, 61, 6]),
]


def generate(out_path=None):
    out_path = out_path or os.path.join(VERIF, "lean", "RelicVerif", "Gen", "MdConsts.lean")
    obligations, failures = [], []
    srcs = {}
    parts = ["/- GENERATED by tools/translate_md.py from the C text of src/md — do not edit. -/",
             "import RelicVerif.Spec.Sha512", "import RelicVerif.Spec.Blake2s", "", "namespace Relic.Gen.MdConsts", ""]

    def src_of(f):
        if f not in srcs:
            try:
                srcs[f] = strip_comments(open(os.path.join(REPO, f)).read())
            except OSError as e:
                raise TranslationError("cannot read %s: %s" % (f, e))
        return srcs[f]

    thms = []
    for name, f, decl, bits, count, ty, spec in TABLES:
        ob = {"name": name, "file": f, "ok": False}
        try:
            vals = table(src_of(f), decl, bits, count, name)
            parts.append(arr(name, ty, vals, bits // 4))
            ob["ok"] = True
            ob["entries"] = count
        except TranslationError as e:
            failures.append("translate_md: %s" % e)
            ob["error"] = str(e)
            parts.append("def %s : Array %s := #[]\n" % (name, ty))
        if spec is not None:
            thms.append("/-- the constant of the C text is the constant of the standard's definition -/\n"
                        "theorem %s_eq : %s = %s := by decide +kernel\n" % (name, name, spec))
        obligations.append(ob)
    # sigma: 10 x 16
    ob = {"name": "blake2sSigma", "file": "src/md/blake2s-ref.c", "ok": False}
    try:
        vals = table(src_of("src/md/blake2s-ref.c"), r"static\s+const\s+uint8_t\s+blake2s_sigma\s*\[\s*10\s*\]\s*\[\s*16\s*\]", 8, 160,
                     "blake2s_sigma")
        rows = ["#[" + ", ".join(str(v) for v in vals[16 * r:16 * r + 16]) + "]" for r in range(10)]
        parts.append("def blake2sSigma : Array (Array Nat) := #[\n  " + ",\n  ".join(rows) + "]\n")
        ob["ok"] = True
    except TranslationError as e:
        failures.append("translate_md: %s" % e)
        ob["error"] = str(e)
        parts.append("def blake2sSigma : Array (Array Nat) := #[]\n")
    obligations.append(ob)
    thms.append("theorem blake2sSigma_eq : blake2sSigma = Relic.Spec.Blake2s.sigma := by decide +kernel\n")
    # rotation amounts (python-side comparison with the amounts of the standard)
    for f, mac, want in MACROS:
        ob = {"name": mac, "file": f, "ok": False}
        try:
            got = macro_numbers(open(os.path.join(REPO, f)).read(), mac)
            ob["amounts"] = got
            if got == want:
                ob["ok"] = True
            else:
                failures.append("translate_md: %s has rotation/shift amounts %s, FIPS 180-4 has %s" % (mac, got, want))
        except (TranslationError, OSError) as e:
            failures.append("translate_md: %s" % e)
            ob["error"] = str(e)
        obligations.append(ob)
    # the G macro of blake2s-ref.c: rotr32 by 16, 12, 8, 7
    ob = {"name": "blake2s_G_rotations", "file": "src/md/blake2s-ref.c", "ok": False}
    try:
        raw = open(os.path.join(REPO, "src/md/blake2s-ref.c")).read()
        m = re.search(r"#define\s+G\(r,i,a,b,c,d\)(.*?)while\(0\)", raw, flags=re.S)
        got = [int(x) for x in re.findall(r"rotr32\([^,]*,\s*(\d+)\s*\)", m.group(1))] if m else None
        ob["amounts"] = got
        if got == [16, 12, 8, 7]:
            ob["ok"] = True
        else:
            failures.append("translate_md: G rotates by %s, RFC 7693 has [16, 12, 8, 7]" % (got,))
    except OSError as e:
        failures.append("translate_md: %s" % e)
    obligations.append(ob)
    # the 32-bit-pair variant: (hi, lo) pairs are the 64-bit constants
    thms.append("def join32 (a : Array UInt32) : List UInt64 :=\n"
                "  (List.range (a.size / 2)).map fun i => ((a.getD (2 * i) 0).toUInt64 <<< (32 : UInt64)) ||| (a.getD (2 * i + 1) 0).toUInt64\n")
    thms.append("theorem sha512K32_eq : join32 sha512K32 = Relic.Spec.Sha512.K.toList := by decide +kernel\n")
    thms.append("theorem sha384H032_eq : join32 sha384H032 = Relic.Spec.Sha512.H0_384 := by decide +kernel\n")
    thms.append("theorem sha512H032_eq : join32 sha512H032 = Relic.Spec.Sha512.H0_512 := by decide +kernel\n")
    parts += thms
    parts += ["", "end Relic.Gen.MdConsts", ""]
    text = "\n".join(parts)
    old = None
    try:
        old = open(out_path).read()
    except OSError:
        pass
    if old != text:
        os.makedirs(os.path.dirname(out_path), exist_ok=True)
        with open(out_path, "w") as fh:
            fh.write(text)
    return {"obligations": obligations, "failures": failures}


if __name__ == "__main__":
    r = generate()
    for o in r["obligations"]:
        print(o)
    print("FAILURES:", r["failures"])
