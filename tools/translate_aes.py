#!/usr/bin/env python3
"""Extractor for the lookup tables of the table-driven AES of src/bc/rijndael-alg-fst.c.

The C text is parsed on every run: the ten tables Te0..Te4, Td0..Td4 (`static const u32 NAME[256] = { … };`) and
`rcon` (`static const u32 rcon[] = { … };`) are written as `Array UInt32` literals to
lean/RelicVerif/Gen/AesTables.lean (namespace Relic.Gen.AesTables).  Lemmas/AesTables.lean proves, for all 256 indices,
that every extracted table is what the comment at the top of the C file claims in terms of the FIPS-197 S-box,
inverse S-box and GF(2^8) multiplication of Spec/Aes.lean; Model/Rijndael.lean is the word-level model of the four C
functions over these tables.  So a changed table entry breaks a theorem, and a table that is missing, has a number of
entries different from 256 (rcon: at least 10; the first 10 are the ones reachable by the key schedules) or contains
anything but unsigned 32-bit integer literals is a translation failure.

Accepted initialiser: a comma-separated list (optional trailing comma) of C integer literals (hex / decimal / octal,
suffix among u, U, l, L) after removal of comments.  The declared dimension must be the literal 256 (tables) or empty
(rcon).  Exactly one definition per name.

The model mirrors the loop variant of rijndaelEncrypt / rijndaelDecrypt (`r = Nr >> 1; for (;;) {…}`), i.e. the text
compiled without FULL_UNROLL: a `#define FULL_UNROLL` in the C file or its header is reported as a failure.
"""
import hashlib, os, re, sys

TOOLS = os.path.dirname(os.path.abspath(__file__))
VERIF = os.path.dirname(TOOLS)
REPO = os.environ.get("RELIC_REPO", "/repo")

CFILE = "src/bc/rijndael-alg-fst.c"
HFILE = "src/bc/rijndael-alg-fst.h"
TABLES = ["Te0", "Te1", "Te2", "Te3", "Te4", "Td0", "Td1", "Td2", "Td3", "Td4"]
RCON_MIN = 10


class TranslationError(Exception):
    pass


def strip_comments(src):
    src = re.sub(r"/\*.*?\*/", " ", src, flags=re.S)
    return re.sub(r"//[^\n]*", " ", src)


LIT = re.compile(r"^(0[xX][0-9a-fA-F]+|0[0-7]*|[1-9][0-9]*)([uUlL]*)$")


def parse_literal(tok):
    m = LIT.match(tok)
    if not m:
        raise TranslationError("not an integer literal: %r" % tok[:40])
    body = m.group(1)
    if body[:2] in ("0x", "0X"):
        v = int(body, 16)
    elif body.startswith("0") and len(body) > 1:
        v = int(body, 8)
    else:
        v = int(body, 10)
    if v >> 32:
        raise TranslationError("literal does not fit 32 bits: %r" % tok)
    return v


def extract(src, name, want_dim):
    """src: comment-free C text.  Returns the list of entries of the array `name`."""
    pat = re.compile(r"\bstatic\s+const\s+u32\s+%s\s*\[\s*([^\]]*?)\s*\]\s*=\s*\{([^{}]*)\}\s*;" % re.escape(name))
    ms = list(pat.finditer(src))
    if not ms:
        raise TranslationError("%s: no definition `static const u32 %s[…] = {…};` found" % (name, name))
    if len(ms) > 1:
        raise TranslationError("%s: %d definitions" % (name, len(ms)))
    # any other mention that looks like a (re)definition of the same name is suspicious
    if len(re.findall(r"\b%s\s*\[[^\]]*\]\s*=" % re.escape(name), src)) != 1:
        raise TranslationError("%s: more than one array initialiser with this name" % name)
    dim, body = ms[0].group(1), ms[0].group(2)
    if dim != want_dim:
        raise TranslationError("%s: declared dimension [%s], expected [%s]" % (name, dim, want_dim))
    toks = [t.strip() for t in body.split(",")]
    if toks and toks[-1] == "":
        toks.pop()  # trailing comma
    if any(t == "" for t in toks):
        raise TranslationError("%s: empty entry in the initialiser" % name)
    try:
        return [parse_literal(t) for t in toks]
    except TranslationError as e:
        raise TranslationError("%s: %s" % (name, e))


def lean_array(name, vals, doc):
    rows = []
    for i in range(0, len(vals), 8):
        rows.append("  " + ", ".join("0x%08x" % v for v in vals[i:i + 8]))
    body = ",\n".join(rows)
    return "/-- %s -/\ndef %s : Array UInt32 := #[\n%s]" % (doc, name, body) if vals else \
        "/-- %s (NOT EXTRACTED) -/\ndef %s : Array UInt32 := #[]" % (doc, name)


def generate(out_path=None):
    out_path = out_path or os.path.join(VERIF, "lean", "RelicVerif", "Gen", "AesTables.lean")
    obligations, failures, defs = [], [], []
    cpath = os.path.join(REPO, CFILE)
    try:
        raw = open(cpath, encoding="utf-8", errors="replace").read()
        sha = hashlib.sha256(raw.encode("utf-8", "replace")).hexdigest()
        src = strip_comments(raw)
    except OSError as e:
        raw, sha, src = None, None, None
        failures.append("translate_aes: cannot read %s: %s" % (CFILE, e))
    for name in TABLES + ["rcon"]:
        ob = {"name": name, "file": CFILE, "sha256": sha, "lean_def": "Relic.Gen.AesTables." + name, "ok": False}
        vals = []
        if src is None:
            ob["error"] = "source not readable"
        else:
            try:
                if name == "rcon":
                    vals = extract(src, name, "")
                    if len(vals) < RCON_MIN:
                        raise TranslationError("rcon: %d entries, need at least %d" % (len(vals), RCON_MIN))
                else:
                    vals = extract(src, name, "256")
                    if len(vals) != 256:
                        raise TranslationError("%s: %d entries, expected exactly 256" % (name, len(vals)))
                ob["ok"] = True
                ob["entries"] = len(vals)
            except TranslationError as e:
                vals = []
                ob["error"] = str(e)
                failures.append("translate_aes: %s" % e)
        obligations.append(ob)
        defs.append(lean_array(name, vals, "`%s` of %s" % (name, CFILE)))
    # the model is the loop variant: FULL_UNROLL must not be switched on in the sources
    ob = {"name": "no_FULL_UNROLL", "file": CFILE, "ok": False}
    try:
        texts = [raw if raw is not None else ""]
        hpath = os.path.join(REPO, HFILE)
        if os.path.exists(hpath):
            texts.append(open(hpath, encoding="utf-8", errors="replace").read())
        if raw is None:
            raise TranslationError("source not readable")
        for t in texts:
            if re.search(r"^\s*#\s*define\s+FULL_UNROLL\b", strip_comments(t), flags=re.M):
                raise TranslationError("FULL_UNROLL is defined: the model mirrors the loop variant")
        for fn in ("rijndaelEncrypt", "rijndaelDecrypt"):
            m = re.search(r"\bvoid\s+%s\s*\(.*?\n\}" % fn, src, flags=re.S)
            if not m or not re.search(r"#\s*else[^\n]*\n\s*r\s*=\s*Nr\s*>>\s*1\s*;\s*for\s*\(\s*;\s*;\s*\)", m.group(0)):
                raise TranslationError("%s: loop variant `r = Nr >> 1; for (;;)` not found" % fn)
        ob["ok"] = True
    except (TranslationError, OSError) as e:
        ob["error"] = str(e)
        failures.append("translate_aes: %s" % e)
    obligations.append(ob)
    header = ("/-\nGENERATED by tools/translate_aes.py from %s (sha256 %s) — do not edit.\n"
              "The lookup tables of the table-driven AES, as they stand in the C text.\n-/\n"
              "namespace Relic.Gen.AesTables\n\n" % (CFILE, sha))
    new = header + "\n\n".join(defs) + "\n\nend Relic.Gen.AesTables\n"
    sys.path.insert(0, TOOLS)
    __import__("relicbuild").write_if_changed(out_path, new)
    return {"obligations": obligations, "failures": failures}


if __name__ == "__main__":
    r = generate()
    for o in r["obligations"]:
        print(o)
    print("FAILURES:", r["failures"])
