#!/bin/sh
# usage: tools/try_mutant_wt.sh <abs patch.diff> <Cxx> [<Cyy> ...]
# Like try_mutant.sh but never touches /repo or /verif's evidence: the patch is applied to a scratch worktree of /repo HEAD and the checks of a
# private clone of /verif (synchronised with /verif HEAD first) run against it through RELIC_REPO.  Safe while other checks use /repo.
P=$1; shift
T=${MT_TAG:-mt}; W=/tmp/$T-wt; C=/var/tmp/agents/muttest-$T/verif   # MT_TAG: one clone per tag, so several runs can go on at once
[ -d $C ] || sh /verif/tools/mkagent.sh muttest-$T >/dev/null
git -C $C fetch -q /verif HEAD 2>/dev/null && git -C $C reset -q --hard FETCH_HEAD
git -C /repo worktree remove --force $W 2>/dev/null
git -C /repo worktree add -q --detach $W HEAD || exit 2
(cd $W && git apply "$P") || { echo "patch does not apply"; git -C /repo worktree remove --force $W; exit 2; }
cd $C
for c in "$@"; do
  RELIC_REPO=$W timeout 1800 python3 tools/check.py $c 2>/dev/null | grep -v "^KNOWN-FINDING" | cut -c1-220
  echo "[$c done]"
done
FP=$(RELIC_REPO=$W python3 -c "import sys; sys.path.insert(0,'tools'); import relicbuild as rb; print(rb.fingerprint())" 2>/dev/null)
[ -n "$FP" ] && rm -rf $C/.cache/build/*/$FP
git -C $C checkout -q -- . 2>/dev/null
git -C /repo worktree remove --force $W
