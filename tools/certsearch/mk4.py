import re
out = open('/var/tmp/agents/epf/scratch/cof.out').read().strip().split('\n')
cof = {}
for i in range(0, len(out), 2):
    cof[out[i].strip()] = out[i+1].strip()
hdr = r'''import RelicVerif.Lemmas.Scratch5

namespace Relic.Lemmas.EpFormulas
open Relic.Model.Formula Relic.Gen

variable {F : Type} [Field F] [DecidableEq F]

set_option linter.unusedSimpArgs false
set_option linter.unusedSectionVars false

/-- closing step for homogeneous projective results -/
theorem projc_finish (r : Pt F) (cx cy Nx Dx Ny Dy : F) (hc : r.coord = .projc)
    (hcx : cx = Nx / Dx) (hcy : cy = Ny / Dy) (hDx : Dx ≠ 0) (hDy : Dy ≠ 0)
    (hx : r.x * Dx = Nx * r.z) (hy : r.y * Dy = Ny * r.z) :
    r.coord = .projc ∧ (r.z ≠ 0 → r.x / r.z = cx ∧ r.y / r.z = cy) := by
  refine ⟨hc, fun hz => ⟨?_, ?_⟩⟩
  · rw [hcx, div_eq_div_iff hz hDx, hx]
  · rw [hcy, div_eq_div_iff hz hDy, hy]

'''
simpset = "reduceCtorEq, not_false_eq_true, not_true_eq_false, and_self, and_true, true_and, and_false, false_and, if_true, if_false"
def branch_add(tag, extra):
    return f'''    simp only [ep_add_projc_imp, fieldOps, {extra}{simpset}] at hr
    subst hr
    refine projc_finish _ _ _ _ _ _ _ rfl (chordX_projc x1 y1 z1 x2 y2 z2 hzp hzq hx)
      (chordY_projc x1 y1 z1 x2 y2 z2 hzp hzq hx) hDx hDy ?_ ?_
    · {cof['add '+tag+' x']}
    · {cof['add '+tag+' y']}
'''
def branch_dbl(tag, extra, aval):
    return f'''    simp only [ep_dbl_projc_imp, fieldOps, {extra}{simpset}] at hr
    subst hr
    refine projc_finish _ _ _ _ _ _ _ rfl (tangX_projc {aval} x1 y1 z1 h2 hzp hy)
      (tangY_projc {aval} x1 y1 z1 h2 hzp hy) hDx hDy ?_ ?_
    · {cof['dbl '+tag+' x']}
    · {cof['dbl '+tag+' y']}
'''
body = hdr + r'''
set_option maxHeartbeats 1000000 in
theorem add_projc_imp_chord' (cv : CurveC F) (p q : Pt F) (hp : p.coord = .projc) (hq : q.coord = .projc)
    (hzp : p.z ≠ 0) (hzq : q.z ≠ 0) (hcp : OnCurve cv p) (hcq : OnCurve cv q)
    (hx : q.x * p.z - p.x * q.z ≠ 0)
    (hopt : (cv.optA = .min3 → cv.a = -3) ∧ (cv.optA = .zero → cv.a = 0)) :
    let r := ep_add_projc_imp fieldOps cv p q
    r.coord = .projc ∧ (r.z ≠ 0 →
      r.x / r.z = chordX (p.x / p.z) (p.y / p.z) (q.x / q.z) (q.y / q.z) ∧
      r.y / r.z = chordY (p.x / p.z) (p.y / p.z) (q.x / q.z) (q.y / q.z)) := by
  rcases p with ⟨x1, y1, z1, c1⟩
  rcases q with ⟨x2, y2, z2, c2⟩
  rcases cv with ⟨a, b, oa⟩
  simp only at hp hq hzp hzq hx hopt
  subst hp hq
  simp only [OnCurve] at hcp hcq
  have hDx : z1 * z2 * (x2 * z1 - x1 * z2) ^ 2 ≠ 0 := mul_ne_zero (mul_ne_zero hzp hzq) (pow_ne_zero 2 hx)
  have hDy : z1 * z2 * (x2 * z1 - x1 * z2) ^ 3 ≠ 0 := mul_ne_zero (mul_ne_zero hzp hzq) (pow_ne_zero 3 hx)
  generalize hr : ep_add_projc_imp fieldOps ⟨a, b, oa⟩ ⟨x1, y1, z1, .projc⟩ ⟨x2, y2, z2, .projc⟩ = r
  intro r'
  by_cases h0 : oa = .zero
  · subst h0
    obtain rfl := hopt.2 rfl
''' + branch_add('zero', '') + r'''  by_cases h3 : oa = .min3
  · subst h3
    obtain rfl := hopt.1 rfl
''' + branch_add('min3', '') + r'''  · clear hopt
''' + branch_add('gen', 'h0, h3, ') + r'''
set_option maxHeartbeats 1000000 in
theorem dbl_projc_imp_tangent' (cv : CurveC F) (p : Pt F) (hp : p.coord = .projc) (h2 : (2 : F) ≠ 0)
    (hzp : p.z ≠ 0) (hcp : OnCurve cv p) (hy : p.y ≠ 0)
    (hopt : (cv.optA = .min3 → cv.a = -3) ∧ (cv.optA = .zero → cv.a = 0)) :
    let r := ep_dbl_projc_imp fieldOps cv p
    r.coord = .projc ∧ (r.z ≠ 0 →
      r.x / r.z = tangX cv.a (p.x / p.z) (p.y / p.z) ∧ r.y / r.z = tangY cv.a (p.x / p.z) (p.y / p.z)) := by
  rcases p with ⟨x1, y1, z1, c1⟩
  rcases cv with ⟨a, b, oa⟩
  simp only at hp hzp hy hopt
  subst hp
  simp only [OnCurve] at hcp
  have hD : 2 * y1 * z1 ≠ 0 := mul_ne_zero (mul_ne_zero h2 hy) hzp
  have hDx : (2 * y1 * z1) ^ 2 ≠ 0 := pow_ne_zero 2 hD
  have hDy : (2 * y1 * z1) ^ 3 ≠ 0 := pow_ne_zero 3 hD
  generalize hr : ep_dbl_projc_imp fieldOps ⟨a, b, oa⟩ ⟨x1, y1, z1, .projc⟩ = r
  intro r'
  by_cases h0 : oa = .zero
  · subst h0
    obtain rfl := hopt.2 rfl
''' + branch_dbl('zero', '', '0') + r'''  by_cases h3 : oa = .min3
  · subst h3
    obtain rfl := hopt.1 rfl
''' + branch_dbl('min3', '', '(-3)') + r'''  · clear hopt
''' + branch_dbl('gen', 'h0, h3, ', 'a') + r'''
end Relic.Lemmas.EpFormulas
'''
open('/var/tmp/agents/epf/lean/RelicVerif/Lemmas/Scratch4.lean','w').write(body)
