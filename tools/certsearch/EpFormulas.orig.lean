/-
The generated coordinate-system formulas (RelicVerif/Gen/EpFormulas.lean, regenerated from
src/tmpl/relic_ep_add_tmpl.h, relic_ep_dbl_tmpl.h and src/ep/relic_ep_add.c, relic_ep_dbl.c on every run)
compute the affine chord-and-tangent law, over an arbitrary field.
-/
import Mathlib.Algebra.Field.Defs
import Mathlib.Algebra.Field.Basic
import Mathlib.Tactic.FieldSimp
import Mathlib.Tactic.Ring
import Mathlib.Tactic.LinearCombination
import RelicVerif.Gen.EpFormulas

namespace Relic.Lemmas.EpFormulas
open Relic.Model.Formula Relic.Gen

variable {F : Type} [Field F] [DecidableEq F]

/-- the operations of the field -/
def fieldOps : FOps F :=
  { zero := 0, one := 1, add := (· + ·), sub := (· - ·), mul := (· * ·), neg := Neg.neg, sqr := fun a => a * a,
    dbl := fun a => a + a, hlv := fun a => a / 2, inv := fun a => a⁻¹, ofNat := fun n => (n : F),
    isZero := fun a => decide (a = 0) }

/-- affine chord through (x1,y1), (x2,y2), x1 ≠ x2 -/
def chordX (x1 y1 x2 y2 : F) : F := ((y2 - y1) / (x2 - x1)) ^ 2 - x1 - x2
def chordY (x1 y1 x2 y2 : F) : F := ((y2 - y1) / (x2 - x1)) * (x1 - chordX x1 y1 x2 y2) - y1
/-- affine tangent at (x1,y1), y1 ≠ 0, on y² = x³ + a x + b -/
def tangX (a x1 y1 : F) : F := ((3 * x1 ^ 2 + a) / (2 * y1)) ^ 2 - 2 * x1
def tangY (a x1 y1 : F) : F := ((3 * x1 ^ 2 + a) / (2 * y1)) * (x1 - tangX a x1 y1) - y1

/-- the affine point a representation denotes (z ≠ 0) -/
def affX (r : Pt F) : F := match r.coord with
  | .basic => r.x
  | .projc => r.x / r.z
  | .jacob => r.x / r.z ^ 2
def affY (r : Pt F) : F := match r.coord with
  | .basic => r.y
  | .projc => r.y / r.z
  | .jacob => r.y / r.z ^ 3

/-- on-curve in the representation's own equation -/
def OnCurve (cv : CurveC F) (r : Pt F) : Prop := match r.coord with
  | .basic => r.y ^ 2 = r.x ^ 3 + cv.a * r.x + cv.b
  | .projc => r.y ^ 2 * r.z = r.x ^ 3 + cv.a * r.x * r.z ^ 2 + cv.b * r.z ^ 3
  | .jacob => r.y ^ 2 = r.x ^ 3 + cv.a * r.x * r.z ^ 4 + cv.b * r.z ^ 6

/-! ### affine -/
theorem add_basic_imp_chord (cv : CurveC F) (p q : Pt F) (hx : q.x - p.x ≠ 0) :
    let r := ep_add_basic_imp fieldOps cv p q
    r.x = chordX p.x p.y q.x q.y ∧ r.y = chordY p.x p.y q.x q.y ∧ r.z = p.z ∧ r.coord = .basic := by
  sorry

theorem add_basic_imp_exceptional (cv : CurveC F) (p q : Pt F) (hx : q.x - p.x = 0) :
    (q.y - p.y = 0 → ep_add_basic_imp fieldOps cv p q = ep_dbl_basic fieldOps cv p) ∧
    (q.y - p.y ≠ 0 → (ep_add_basic_imp fieldOps cv p q).z = 0) := by
  sorry

theorem dbl_basic_imp_tangent (cv : CurveC F) (p : Pt F) (h2 : (2 : F) ≠ 0) (hy : p.y ≠ 0) :
    let r := ep_dbl_basic_imp fieldOps cv p
    r.x = tangX cv.a p.x p.y ∧ r.y = tangY cv.a p.x p.y ∧ r.z = p.z ∧ r.coord = .basic := by
  sorry

/-! ### Jacobian -/
theorem add_jacob_mix_chord (cv : CurveC F) (p q : Pt F) (hp : p.coord = .jacob) (hz : p.z ≠ 0)
    (hx : q.x * p.z ^ 2 - p.x ≠ 0) :
    let r := ep_add_jacob_mix fieldOps cv p q
    r.coord = .jacob ∧ r.z ≠ 0 ∧
    r.x / r.z ^ 2 = chordX (p.x / p.z ^ 2) (p.y / p.z ^ 3) q.x q.y ∧
    r.y / r.z ^ 3 = chordY (p.x / p.z ^ 2) (p.y / p.z ^ 3) q.x q.y := by
  sorry

theorem add_jacob_mix_chord_basic (cv : CurveC F) (p q : Pt F) (hp : p.coord = .basic) (h2 : (2 : F) ≠ 0)
    (hx : q.x - p.x ≠ 0) :
    let r := ep_add_jacob_mix fieldOps cv p q
    r.coord = .jacob ∧ r.z ≠ 0 ∧
    r.x / r.z ^ 2 = chordX p.x p.y q.x q.y ∧ r.y / r.z ^ 3 = chordY p.x p.y q.x q.y := by
  sorry

theorem dbl_jacob_imp_tangent (cv : CurveC F) (p : Pt F) (hp : p.coord = .jacob) (h2 : (2 : F) ≠ 0) (hz : p.z ≠ 0)
    (hy : p.y ≠ 0)
    (hopt : (cv.optA = .min3 → cv.a = -3) ∧ (cv.optA = .zero → cv.a = 0)) :
    let r := ep_dbl_jacob_imp fieldOps cv p
    r.coord = .jacob ∧ r.z ≠ 0 ∧
    r.x / r.z ^ 2 = tangX cv.a (p.x / p.z ^ 2) (p.y / p.z ^ 3) ∧
    r.y / r.z ^ 3 = tangY cv.a (p.x / p.z ^ 2) (p.y / p.z ^ 3) := by
  sorry

/-! ### homogeneous projective (Renes–Costello–Batina complete formulas): identities modulo the curve equation -/
theorem add_projc_imp_chord (cv : CurveC F) (p q : Pt F) (hp : p.coord = .projc) (hq : q.coord = .projc)
    (hzp : p.z ≠ 0) (hzq : q.z ≠ 0) (hcp : OnCurve cv p) (hcq : OnCurve cv q)
    (hx : q.x * p.z - p.x * q.z ≠ 0)
    (hopt : (cv.optA = .min3 → cv.a = -3) ∧ (cv.optA = .zero → cv.a = 0)) :
    let r := ep_add_projc_imp fieldOps cv p q
    r.coord = .projc ∧ (r.z ≠ 0 →
      r.x / r.z = chordX (p.x / p.z) (p.y / p.z) (q.x / q.z) (q.y / q.z) ∧
      r.y / r.z = chordY (p.x / p.z) (p.y / p.z) (q.x / q.z) (q.y / q.z)) := by
  sorry

theorem dbl_projc_imp_tangent (cv : CurveC F) (p : Pt F) (hp : p.coord = .projc) (h2 : (2 : F) ≠ 0)
    (hzp : p.z ≠ 0) (hcp : OnCurve cv p) (hy : p.y ≠ 0)
    (hopt : (cv.optA = .min3 → cv.a = -3) ∧ (cv.optA = .zero → cv.a = 0)) :
    let r := ep_dbl_projc_imp fieldOps cv p
    r.coord = .projc ∧ (r.z ≠ 0 →
      r.x / r.z = tangX cv.a (p.x / p.z) (p.y / p.z) ∧ r.y / r.z = tangY cv.a (p.x / p.z) (p.y / p.z)) := by
  sorry

/-! ### the public entry points dispatch the identity operand -/
theorem add_jacob_identity (cv : CurveC F) (p q : Pt F) :
    (p.z = 0 → ep_add_jacob fieldOps cv p q = q) ∧ (p.z ≠ 0 → q.z = 0 → ep_add_jacob fieldOps cv p q = p) := by
  sorry

theorem add_projc_identity (cv : CurveC F) (p q : Pt F) :
    (p.z = 0 → ep_add_projc fieldOps cv p q = q) ∧ (p.z ≠ 0 → q.z = 0 → ep_add_projc fieldOps cv p q = p) := by
  sorry

end Relic.Lemmas.EpFormulas
