from gen import *
x1,y1,z1,x2,y2,z2 = sp.symbols('x1 y1 z1 x2 y2 z2')
sub = {X1:x1,Y1:y1,Z1:z1,X2:x2,Y2:y2,Z2:z2}
def lean(e):
    return str(e).replace('**','^')
def curveP(a_): return y1**2*z1 - (x1**3 + a_*x1*z1**2 + b*z1**3)
def curveQ(a_): return y2**2*z2 - (x2**3 + a_*x2*z2**2 + b*z2**3)
# chord
u = y2*z1 - y1*z2; v = x2*z1 - x1*z2
Ncx = u**2*z1*z2 - (x1*z2 + x2*z1)*v**2; Dcx = z1*z2*v**2
Ncy = u*(x1*z2*v**2 - Ncx) - y1*z2*v**3; Dcy = z1*z2*v**3
def tangND(a_):
    M = 3*x1**2 + a_*z1**2
    Ntx = M**2 - 8*x1*y1**2*z1; Dtx = 4*y1**2*z1**2
    Nty = M*(12*x1*y1**2*z1 - M**2) - 8*y1**4*z1**2; Dty = 8*y1**3*z1**3
    return Ntx, Dtx, Nty, Dty
import sys
for name, ranges, aval in [('add zero', [(566,573),(575,604)], 0), ('add min3', [(566,573),(607,642)], -3), ('add gen', [(566,573),(644,680)], a)]:
    rx, ry, rz, c = run(ranges, envp)
    rx, ry, rz = [sp.expand(e.subs(a, aval).subs(sub)) for e in (rx,ry,rz)]
    for lab, r_, N, D in [('x', rx, Ncx, Dcx), ('y', ry, Ncy, Dcy)]:
        expr = sp.expand(r_*D - N*rz)
        q, rem = sp.reduced(expr, [curveP(aval), curveQ(aval)], y1, y2, x1, x2, z1, z2, a, b)
        assert rem == 0
        print(name, lab)
        print('linear_combination (%s) * hcp + (%s) * hcq' % (lean(q[0]), lean(q[1])))
for name, ranges, aval in [('dbl zero', [(53,54),(74,92)], 0), ('dbl min3', [(94,98),(130,159)], -3), ('dbl gen', [(94,98),(192,222)], a)]:
    rx, ry, rz, c = run(ranges, envp)
    rx, ry, rz = [sp.expand(e.subs(a, aval).subs(sub)) for e in (rx,ry,rz)]
    Ntx, Dtx, Nty, Dty = tangND(aval)
    for lab, r_, N, D in [('x', rx, Ntx, Dtx), ('y', ry, Nty, Dty)]:
        expr = sp.expand(r_*D - N*rz)
        q, rem = sp.reduced(expr, [curveP(aval)], y1, x1, z1, a, b)
        assert rem == 0
        print(name, lab)
        print('linear_combination (%s) * hcp' % (lean(q[0])))
