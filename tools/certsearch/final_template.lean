/-
The generated coordinate-system formulas (RelicVerif/Gen/EpFormulas.lean, regenerated from
src/tmpl/relic_ep_add_tmpl.h, relic_ep_dbl_tmpl.h and src/ep/relic_ep_add.c, relic_ep_dbl.c on every run)
compute the affine chord-and-tangent law, over an arbitrary field.

Proof method (robust against renaming / reordering of the generated `let`s): the generated definition is
unfolded once (`simp only [ep_…, fieldOps, …]`), configuration `if`s are decided from the hypotheses, data `if`s by
`split_ifs`, and the remaining goals are polynomial identities closed by `ring` / `field_simp` /
`linear_combination` (cofactors of the curve equations computed with sympy for the Renes–Costello–Batina
formulas, whose identities only hold modulo the curve equation).
-/
import Mathlib.Algebra.Field.Defs
import Mathlib.Algebra.Field.Basic
import Mathlib.Tactic.FieldSimp
import Mathlib.Tactic.Ring
import Mathlib.Tactic.LinearCombination
import Mathlib.Tactic.SplitIfs
import RelicVerif.Gen.EpFormulas

namespace Relic.Lemmas.EpFormulas
open Relic.Model.Formula Relic.Gen

set_option linter.unusedSimpArgs false
set_option linter.unusedSectionVars false
set_option linter.unusedVariables false
set_option linter.unnecessarySeqFocus false

variable {F : Type} [Field F] [DecidableEq F]

/-- the operations of the field -/
def fieldOps : FOps F :=
  { zero := 0, one := 1, add := (· + ·), sub := (· - ·), mul := (· * ·), neg := Neg.neg, sqr := fun a => a * a,
    dbl := fun a => a + a, hlv := fun a => a / 2, inv := fun a => a⁻¹, ofNat := fun n => (n : F),
    isZero := fun a => decide (a = 0) }

/-- affine chord through (x1,y1), (x2,y2), x1 ≠ x2 -/
def chordX (x1 y1 x2 y2 : F) : F := ((y2 - y1) / (x2 - x1)) ^ 2 - x1 - x2
def chordY (x1 y1 x2 y2 : F) : F := ((y2 - y1) / (x2 - x1)) * (x1 - chordX x1 y1 x2 y2) - y1
/-- affine tangent at (x1,y1), y1 ≠ 0, on y² = x³ + a x + b -/
def tangX (a x1 y1 : F) : F := ((3 * x1 ^ 2 + a) / (2 * y1)) ^ 2 - 2 * x1
def tangY (a x1 y1 : F) : F := ((3 * x1 ^ 2 + a) / (2 * y1)) * (x1 - tangX a x1 y1) - y1

/-- the affine point a representation denotes (z ≠ 0) -/
def affX (r : Pt F) : F := match r.coord with
  | .basic => r.x
  | .projc => r.x / r.z
  | .jacob => r.x / r.z ^ 2
def affY (r : Pt F) : F := match r.coord with
  | .basic => r.y
  | .projc => r.y / r.z
  | .jacob => r.y / r.z ^ 3

/-- on-curve in the representation's own equation -/
def OnCurve (cv : CurveC F) (r : Pt F) : Prop := match r.coord with
  | .basic => r.y ^ 2 = r.x ^ 3 + cv.a * r.x + cv.b
  | .projc => r.y ^ 2 * r.z = r.x ^ 3 + cv.a * r.x * r.z ^ 2 + cv.b * r.z ^ 3
  | .jacob => r.y ^ 2 = r.x ^ 3 + cv.a * r.x * r.z ^ 4 + cv.b * r.z ^ 6

/-! ### auxiliary: closing steps and the chord / tangent in fraction form (independent of the generated code) -/

/-- closing step for Jacobian results: `Zc` is the closed form of the computed z -/
theorem jacob_finish (r : Pt F) (Zc cx cy : F) (hc : r.coord = .jacob) (hZc : Zc ≠ 0) (hz : r.z = Zc)
    (hx : r.x = cx * Zc ^ 2) (hy : r.y = cy * Zc ^ 3) :
    r.coord = .jacob ∧ r.z ≠ 0 ∧ r.x / r.z ^ 2 = cx ∧ r.y / r.z ^ 3 = cy := by
  rw [hz, hx, hy]
  refine ⟨hc, hZc, ?_, ?_⟩ <;> field_simp

/-- closing step for homogeneous projective results: the cross-multiplied identities suffice -/
theorem projc_finish (r : Pt F) (cx cy Nx Dx Ny Dy : F) (hc : r.coord = .projc)
    (hcx : cx = Nx / Dx) (hcy : cy = Ny / Dy) (hDx : Dx ≠ 0) (hDy : Dy ≠ 0)
    (hx : r.x * Dx = Nx * r.z) (hy : r.y * Dy = Ny * r.z) :
    r.coord = .projc ∧ (r.z ≠ 0 → r.x / r.z = cx ∧ r.y / r.z = cy) := by
  refine ⟨hc, fun hz => ⟨?_, ?_⟩⟩
  · rw [hcx, div_eq_div_iff hz hDx, hx]
  · rw [hcy, div_eq_div_iff hz hDy, hy]

theorem chordX_projc (x1 y1 z1 x2 y2 z2 : F) (hz1 : z1 ≠ 0) (hz2 : z2 ≠ 0) (hv : x2 * z1 - x1 * z2 ≠ 0) :
    chordX (x1 / z1) (y1 / z1) (x2 / z2) (y2 / z2) =
      ((y2 * z1 - y1 * z2) ^ 2 * z1 * z2 - (x1 * z2 + x2 * z1) * (x2 * z1 - x1 * z2) ^ 2) /
        (z1 * z2 * (x2 * z1 - x1 * z2) ^ 2) := by
  have hv' : x2 / z2 - x1 / z1 = (x2 * z1 - x1 * z2) / (z1 * z2) := by field_simp
  have hu' : y2 / z2 - y1 / z1 = (y2 * z1 - y1 * z2) / (z1 * z2) := by field_simp
  simp only [chordX, hv', hu']
  rw [div_div_div_cancel_right₀ (mul_ne_zero hz1 hz2)]
  generalize x2 * z1 - x1 * z2 = v at hv ⊢
  generalize y2 * z1 - y1 * z2 = u
  field_simp <;> ring

theorem chordY_projc (x1 y1 z1 x2 y2 z2 : F) (hz1 : z1 ≠ 0) (hz2 : z2 ≠ 0) (hv : x2 * z1 - x1 * z2 ≠ 0) :
    chordY (x1 / z1) (y1 / z1) (x2 / z2) (y2 / z2) =
      ((y2 * z1 - y1 * z2) * (x1 * z2 * (x2 * z1 - x1 * z2) ^ 2 -
          ((y2 * z1 - y1 * z2) ^ 2 * z1 * z2 - (x1 * z2 + x2 * z1) * (x2 * z1 - x1 * z2) ^ 2)) -
        y1 * z2 * (x2 * z1 - x1 * z2) ^ 3) / (z1 * z2 * (x2 * z1 - x1 * z2) ^ 3) := by
  have hv' : x2 / z2 - x1 / z1 = (x2 * z1 - x1 * z2) / (z1 * z2) := by field_simp
  have hu' : y2 / z2 - y1 / z1 = (y2 * z1 - y1 * z2) / (z1 * z2) := by field_simp
  simp only [chordY, chordX_projc x1 y1 z1 x2 y2 z2 hz1 hz2 hv, hv', hu']
  rw [div_div_div_cancel_right₀ (mul_ne_zero hz1 hz2)]
  generalize x2 * z1 - x1 * z2 = v at hv ⊢
  generalize y2 * z1 - y1 * z2 = u
  field_simp

/-- the same with an affine second operand (z2 = 1) -/
theorem chordX_projc_mix (x1 y1 z1 x2 y2 : F) (hz1 : z1 ≠ 0) (hv : x2 * z1 - x1 * 1 ≠ 0) :
    chordX (x1 / z1) (y1 / z1) x2 y2 =
      ((y2 * z1 - y1 * 1) ^ 2 * z1 * 1 - (x1 * 1 + x2 * z1) * (x2 * z1 - x1 * 1) ^ 2) /
        (z1 * 1 * (x2 * z1 - x1 * 1) ^ 2) := by
  have h := chordX_projc x1 y1 z1 x2 y2 1 hz1 one_ne_zero hv
  rwa [div_one, div_one] at h

theorem chordY_projc_mix (x1 y1 z1 x2 y2 : F) (hz1 : z1 ≠ 0) (hv : x2 * z1 - x1 * 1 ≠ 0) :
    chordY (x1 / z1) (y1 / z1) x2 y2 =
      ((y2 * z1 - y1 * 1) * (x1 * 1 * (x2 * z1 - x1 * 1) ^ 2 -
          ((y2 * z1 - y1 * 1) ^ 2 * z1 * 1 - (x1 * 1 + x2 * z1) * (x2 * z1 - x1 * 1) ^ 2)) -
        y1 * 1 * (x2 * z1 - x1 * 1) ^ 3) / (z1 * 1 * (x2 * z1 - x1 * 1) ^ 3) := by
  have h := chordY_projc x1 y1 z1 x2 y2 1 hz1 one_ne_zero hv
  rwa [div_one, div_one] at h

/-- both operands affine -/
theorem chordX_affine (x1 y1 x2 y2 : F) (hv : x2 * 1 - x1 * 1 ≠ 0) :
    chordX x1 y1 x2 y2 =
      ((y2 * 1 - y1 * 1) ^ 2 * 1 * 1 - (x1 * 1 + x2 * 1) * (x2 * 1 - x1 * 1) ^ 2) /
        (1 * 1 * (x2 * 1 - x1 * 1) ^ 2) := by
  have h := chordX_projc x1 y1 1 x2 y2 1 one_ne_zero one_ne_zero hv
  rwa [div_one, div_one, div_one, div_one] at h

theorem chordY_affine (x1 y1 x2 y2 : F) (hv : x2 * 1 - x1 * 1 ≠ 0) :
    chordY x1 y1 x2 y2 =
      ((y2 * 1 - y1 * 1) * (x1 * 1 * (x2 * 1 - x1 * 1) ^ 2 -
          ((y2 * 1 - y1 * 1) ^ 2 * 1 * 1 - (x1 * 1 + x2 * 1) * (x2 * 1 - x1 * 1) ^ 2)) -
        y1 * 1 * (x2 * 1 - x1 * 1) ^ 3) / (1 * 1 * (x2 * 1 - x1 * 1) ^ 3) := by
  have h := chordY_projc x1 y1 1 x2 y2 1 one_ne_zero one_ne_zero hv
  rwa [div_one, div_one, div_one, div_one] at h

theorem tangX_projc (a x1 y1 z1 : F) (h2 : (2 : F) ≠ 0) (hz1 : z1 ≠ 0) (hy1 : y1 ≠ 0) :
    tangX a (x1 / z1) (y1 / z1) =
      ((3 * x1 ^ 2 + a * z1 ^ 2) ^ 2 - 8 * x1 * y1 ^ 2 * z1) / (2 * y1 * z1) ^ 2 := by
  simp only [tangX]
  field_simp <;> ring

theorem tangY_projc (a x1 y1 z1 : F) (h2 : (2 : F) ≠ 0) (hz1 : z1 ≠ 0) (hy1 : y1 ≠ 0) :
    tangY a (x1 / z1) (y1 / z1) =
      ((3 * x1 ^ 2 + a * z1 ^ 2) * (12 * x1 * y1 ^ 2 * z1 - (3 * x1 ^ 2 + a * z1 ^ 2) ^ 2) - 8 * y1 ^ 4 * z1 ^ 2) /
        (2 * y1 * z1) ^ 3 := by
  simp only [tangY, tangX]
  field_simp <;> ring

theorem tangX_affine (a x1 y1 : F) (h2 : (2 : F) ≠ 0) (hy1 : y1 ≠ 0) :
    tangX a x1 y1 = ((3 * x1 ^ 2 + a * 1 ^ 2) ^ 2 - 8 * x1 * y1 ^ 2 * 1) / (2 * y1 * 1) ^ 2 := by
  have h := tangX_projc a x1 y1 1 h2 one_ne_zero hy1
  rwa [div_one, div_one] at h

theorem tangY_affine (a x1 y1 : F) (h2 : (2 : F) ≠ 0) (hy1 : y1 ≠ 0) :
    tangY a x1 y1 =
      ((3 * x1 ^ 2 + a * 1 ^ 2) * (12 * x1 * y1 ^ 2 * 1 - (3 * x1 ^ 2 + a * 1 ^ 2) ^ 2) - 8 * y1 ^ 4 * 1 ^ 2) /
        (2 * y1 * 1) ^ 3 := by
  have h := tangY_projc a x1 y1 1 h2 one_ne_zero hy1
  rwa [div_one, div_one] at h

/-! ### affine -/
theorem add_basic_imp_chord (cv : CurveC F) (p q : Pt F) (hx : q.x - p.x ≠ 0) :
    let r := ep_add_basic_imp fieldOps cv p q
    r.x = chordX p.x p.y q.x q.y ∧ r.y = chordY p.x p.y q.x q.y ∧ r.z = p.z ∧ r.coord = .basic := by
  generalize hr : ep_add_basic_imp fieldOps cv p q = r
  simp only [ep_add_basic_imp, fieldOps, decide_eq_true_eq, not_true_eq_false, if_true, if_false] at hr
  split_ifs at hr with h1 h2
  · exact absurd (by linear_combination h1) hx
  · exact absurd (by linear_combination h1) hx
  subst hr
  refine ⟨?_, ?_, rfl, rfl⟩
  · simp only [chordX, div_eq_mul_inv]; ring
  · simp only [chordY, chordX, div_eq_mul_inv]; ring

theorem add_basic_imp_exceptional (cv : CurveC F) (p q : Pt F) (hx : q.x - p.x = 0) :
    (q.y - p.y = 0 → ep_add_basic_imp fieldOps cv p q = ep_dbl_basic fieldOps cv p) ∧
    (q.y - p.y ≠ 0 → (ep_add_basic_imp fieldOps cv p q).z = 0) := by
  constructor
  · intro hy
    simp only [ep_add_basic_imp, fieldOps, decide_eq_true_eq, hx, hy, if_true]
  · intro hy
    simp only [ep_add_basic_imp, fieldOps, decide_eq_true_eq, hx, hy, if_true, if_false]

theorem dbl_basic_imp_tangent (cv : CurveC F) (p : Pt F) (h2 : (2 : F) ≠ 0) (hy : p.y ≠ 0) :
    let r := ep_dbl_basic_imp fieldOps cv p
    r.x = tangX cv.a p.x p.y ∧ r.y = tangY cv.a p.x p.y ∧ r.z = p.z ∧ r.coord = .basic := by
  generalize hr : ep_dbl_basic_imp fieldOps cv p = r
  simp only [ep_dbl_basic_imp, fieldOps, not_true_eq_false, if_true, if_false] at hr
  subst hr
  refine ⟨?_, ?_, rfl, rfl⟩
  · simp only [tangX, div_eq_mul_inv]; ring
  · simp only [tangY, tangX, div_eq_mul_inv]; ring

/-! ### Jacobian -/
-- STATEMENT CHANGED: added `h2 : (2 : F) ≠ 0`. The computed z is (Z1 + H)² − Z1² − H² = 2·Z1·H
-- (H = x2·Z1² − X1), so `r.z ≠ 0` is false in characteristic 2.
theorem add_jacob_mix_chord (cv : CurveC F) (p q : Pt F) (hp : p.coord = .jacob) (h2 : (2 : F) ≠ 0) (hz : p.z ≠ 0)
    (hx : q.x * p.z ^ 2 - p.x ≠ 0) :
    let r := ep_add_jacob_mix fieldOps cv p q
    r.coord = .jacob ∧ r.z ≠ 0 ∧
    r.x / r.z ^ 2 = chordX (p.x / p.z ^ 2) (p.y / p.z ^ 3) q.x q.y ∧
    r.y / r.z ^ 3 = chordY (p.x / p.z ^ 2) (p.y / p.z ^ 3) q.x q.y := by
  rcases p with ⟨x1, y1, z1, c1⟩
  rcases q with ⟨x2, y2, z2, c2⟩
  simp only at hp hz hx
  subst hp
  generalize hr : ep_add_jacob_mix fieldOps cv ⟨x1, y1, z1, .jacob⟩ ⟨x2, y2, z2, c2⟩ = r
  simp only [ep_add_jacob_mix, fieldOps, decide_eq_true_eq, reduceCtorEq, not_false_eq_true, not_true_eq_false,
    if_true, if_false] at hr
  split_ifs at hr with h1 h2'
  · exact absurd (by linear_combination h1) hx
  · exact absurd (by linear_combination h1) hx
  subst hr
  intro r
  have hH' : z1 ^ 2 * x2 - x1 ≠ 0 := by rwa [mul_comm]
  refine jacob_finish _ (2 * z1 * (x2 * z1 ^ 2 - x1)) _ _ rfl (mul_ne_zero (mul_ne_zero h2 hz) hx) ?_ ?_ ?_
  · simp only [r]; ring
  · simp only [r, chordX]; field_simp <;> ring
  · simp only [r, chordY, chordX]; field_simp <;> ring

theorem add_jacob_mix_chord_basic (cv : CurveC F) (p q : Pt F) (hp : p.coord = .basic) (h2 : (2 : F) ≠ 0)
    (hx : q.x - p.x ≠ 0) :
    let r := ep_add_jacob_mix fieldOps cv p q
    r.coord = .jacob ∧ r.z ≠ 0 ∧
    r.x / r.z ^ 2 = chordX p.x p.y q.x q.y ∧ r.y / r.z ^ 3 = chordY p.x p.y q.x q.y := by
  rcases p with ⟨x1, y1, z1, c1⟩
  rcases q with ⟨x2, y2, z2, c2⟩
  simp only at hp hx
  subst hp
  generalize hr : ep_add_jacob_mix fieldOps cv ⟨x1, y1, z1, .basic⟩ ⟨x2, y2, z2, c2⟩ = r
  simp only [ep_add_jacob_mix, fieldOps, decide_eq_true_eq, reduceCtorEq, not_false_eq_true, not_true_eq_false,
    if_true, if_false] at hr
  split_ifs at hr with h1 h2'
  · exact absurd (by linear_combination h1) hx
  · exact absurd (by linear_combination h1) hx
  subst hr
  intro r
  refine jacob_finish _ (2 * (x2 - x1)) _ _ rfl (mul_ne_zero h2 hx) ?_ ?_ ?_
  · simp only [r]; ring
  · simp only [r, chordX]; field_simp <;> ring
  · simp only [r, chordY, chordX]; field_simp <;> ring

/-- ADDED (not in the original list): the non-mixed Jacobian addition (second operand Jacobian / not affine). -/
theorem add_jacob_imp_chord (cv : CurveC F) (p q : Pt F) (hq : q.coord ≠ .basic) (h2 : (2 : F) ≠ 0)
    (hzp : p.z ≠ 0) (hzq : q.z ≠ 0) (hx : q.x * p.z ^ 2 - p.x * q.z ^ 2 ≠ 0) :
    let r := ep_add_jacob_imp fieldOps cv p q
    r.coord = .jacob ∧ r.z ≠ 0 ∧
    r.x / r.z ^ 2 = chordX (p.x / p.z ^ 2) (p.y / p.z ^ 3) (q.x / q.z ^ 2) (q.y / q.z ^ 3) ∧
    r.y / r.z ^ 3 = chordY (p.x / p.z ^ 2) (p.y / p.z ^ 3) (q.x / q.z ^ 2) (q.y / q.z ^ 3) := by
  rcases p with ⟨x1, y1, z1, c1⟩
  rcases q with ⟨x2, y2, z2, c2⟩
  simp only at hq hzp hzq hx
  generalize hr : ep_add_jacob_imp fieldOps cv ⟨x1, y1, z1, c1⟩ ⟨x2, y2, z2, c2⟩ = r
  simp only [ep_add_jacob_imp, fieldOps, decide_eq_true_eq, hq, not_false_eq_true, not_true_eq_false,
    if_true, if_false] at hr
  split_ifs at hr with h1 h2'
  · exact absurd (by linear_combination h1) hx
  · exact absurd (by linear_combination h1) hx
  subst hr
  intro r
  have hx' : z1 ^ 2 * x2 - z2 ^ 2 * x1 ≠ 0 := by rwa [mul_comm, mul_comm _ x1]
  have hv : x2 / z2 ^ 2 - x1 / z1 ^ 2 = (x2 * z1 ^ 2 - x1 * z2 ^ 2) / (z1 ^ 2 * z2 ^ 2) := by field_simp
  have hu : y2 / z2 ^ 3 - y1 / z1 ^ 3 = (y2 * z1 ^ 3 - y1 * z2 ^ 3) / (z1 ^ 3 * z2 ^ 3) := by field_simp
  refine jacob_finish _ (2 * z1 * z2 * (x2 * z1 ^ 2 - x1 * z2 ^ 2)) _ _ rfl
    (mul_ne_zero (mul_ne_zero (mul_ne_zero h2 hzp) hzq) hx) ?_ ?_ ?_
  · simp only [r]; ring
  · simp only [r, chordX, hv, hu]; field_simp <;> ring
  · simp only [r, chordY, chordX, hv, hu]; field_simp <;> ring

theorem dbl_jacob_imp_tangent (cv : CurveC F) (p : Pt F) (hp : p.coord = .jacob) (h2 : (2 : F) ≠ 0) (hz : p.z ≠ 0)
    (hy : p.y ≠ 0)
    (hopt : (cv.optA = .min3 → cv.a = -3) ∧ (cv.optA = .zero → cv.a = 0)) :
    let r := ep_dbl_jacob_imp fieldOps cv p
    r.coord = .jacob ∧ r.z ≠ 0 ∧
    r.x / r.z ^ 2 = tangX cv.a (p.x / p.z ^ 2) (p.y / p.z ^ 3) ∧
    r.y / r.z ^ 3 = tangY cv.a (p.x / p.z ^ 2) (p.y / p.z ^ 3) := by
  rcases p with ⟨x1, y1, z1, c1⟩
  rcases cv with ⟨a, b, oa⟩
  simp only at hp hz hy hopt
  subst hp
  have hZ : 2 * y1 * z1 ≠ 0 := mul_ne_zero (mul_ne_zero h2 hy) hz
  generalize hr : ep_dbl_jacob_imp fieldOps ⟨a, b, oa⟩ ⟨x1, y1, z1, .jacob⟩ = r
  intro r'
  by_cases h3 : oa = .min3
  · subst h3
    obtain rfl := hopt.1 rfl
    simp only [ep_dbl_jacob_imp, fieldOps, reduceCtorEq, not_false_eq_true, not_true_eq_false, and_self, and_true,
      true_and, and_false, false_and, if_true, if_false] at hr
    subst hr
    refine jacob_finish _ (2 * y1 * z1) _ _ rfl hZ ?_ ?_ ?_
    · simp only [r']; ring
    · simp only [r', tangX]; field_simp <;> ring
    · simp only [r', tangY, tangX]; field_simp <;> ring
  by_cases h0 : oa = .zero
  · subst h0
    obtain rfl := hopt.2 rfl
    simp only [ep_dbl_jacob_imp, fieldOps, reduceCtorEq, not_false_eq_true, not_true_eq_false, and_self, and_true,
      true_and, and_false, false_and, if_true, if_false] at hr
    subst hr
    refine jacob_finish _ (2 * y1 * z1) _ _ rfl hZ ?_ ?_ ?_
    · simp only [r']; ring
    · simp only [r', tangX]; field_simp <;> ring
    · simp only [r', tangY, tangX]; field_simp <;> ring
  · simp only [ep_dbl_jacob_imp, fieldOps, h0, h3, reduceCtorEq, not_false_eq_true, not_true_eq_false, and_self,
      and_true, true_and, and_false, false_and, if_true, if_false] at hr
    subst hr
    refine jacob_finish _ (2 * y1 * z1) _ _ rfl hZ ?_ ?_ ?_
    · simp only [r']; ring
    · simp only [r', tangX]; field_simp <;> ring
    · simp only [r', tangY, tangX]; field_simp <;> ring

/-- ADDED: Jacobian doubling of an affine (normalized, z = 1) operand. -/
theorem dbl_jacob_imp_tangent_basic (cv : CurveC F) (p : Pt F) (hp : p.coord = .basic) (hz1 : p.z = 1)
    (h2 : (2 : F) ≠ 0) (hy : p.y ≠ 0) (hopt : cv.optA = .zero → cv.a = 0) :
    let r := ep_dbl_jacob_imp fieldOps cv p
    r.coord = .jacob ∧ r.z ≠ 0 ∧ r.x / r.z ^ 2 = tangX cv.a p.x p.y ∧ r.y / r.z ^ 3 = tangY cv.a p.x p.y := by
  rcases p with ⟨x1, y1, z1, c1⟩
  rcases cv with ⟨a, b, oa⟩
  simp only at hp hz1 hy hopt
  subst hp hz1
  have hZ : 2 * y1 ≠ 0 := mul_ne_zero h2 hy
  generalize hr : ep_dbl_jacob_imp fieldOps ⟨a, b, oa⟩ ⟨x1, y1, 1, .basic⟩ = r
  intro r'
  by_cases h0 : oa = .zero
  · subst h0
    obtain rfl := hopt rfl
    simp only [ep_dbl_jacob_imp, fieldOps, reduceCtorEq, not_false_eq_true, not_true_eq_false, and_self, and_true,
      true_and, and_false, false_and, if_true, if_false] at hr
    subst hr
    refine jacob_finish _ (2 * y1) _ _ rfl hZ ?_ ?_ ?_
    · simp only [r']; ring
    · simp only [r', tangX]; field_simp <;> ring
    · simp only [r', tangY, tangX]; field_simp <;> ring
  · simp only [ep_dbl_jacob_imp, fieldOps, h0, reduceCtorEq, not_false_eq_true, not_true_eq_false, and_self,
      and_true, true_and, and_false, false_and, if_true, if_false] at hr
    subst hr
    refine jacob_finish _ (2 * y1) _ _ rfl hZ ?_ ?_ ?_
    · simp only [r']; ring
    · simp only [r', tangX]; field_simp <;> ring
    · simp only [r', tangY, tangX]; field_simp <;> ring

/-! ### homogeneous projective (Renes–Costello–Batina complete formulas): identities modulo the curve equation -/
set_option maxHeartbeats 1000000 in
theorem add_projc_imp_chord (cv : CurveC F) (p q : Pt F) (hp : p.coord = .projc) (hq : q.coord = .projc)
    (hzp : p.z ≠ 0) (hzq : q.z ≠ 0) (hcp : OnCurve cv p) (hcq : OnCurve cv q)
    (hx : q.x * p.z - p.x * q.z ≠ 0)
    (hopt : (cv.optA = .min3 → cv.a = -3) ∧ (cv.optA = .zero → cv.a = 0)) :
    let r := ep_add_projc_imp fieldOps cv p q
    r.coord = .projc ∧ (r.z ≠ 0 →
      r.x / r.z = chordX (p.x / p.z) (p.y / p.z) (q.x / q.z) (q.y / q.z) ∧
      r.y / r.z = chordY (p.x / p.z) (p.y / p.z) (q.x / q.z) (q.y / q.z)) := by
  rcases p with ⟨x1, y1, z1, c1⟩
  rcases q with ⟨x2, y2, z2, c2⟩
  rcases cv with ⟨a, b, oa⟩
  simp only at hp hq hzp hzq hx hopt
  subst hp hq
  simp only [OnCurve] at hcp hcq
  have hDx : z1 * z2 * (x2 * z1 - x1 * z2) ^ 2 ≠ 0 := mul_ne_zero (mul_ne_zero hzp hzq) (pow_ne_zero 2 hx)
  have hDy : z1 * z2 * (x2 * z1 - x1 * z2) ^ 3 ≠ 0 := mul_ne_zero (mul_ne_zero hzp hzq) (pow_ne_zero 3 hx)
  generalize hr : ep_add_projc_imp fieldOps ⟨a, b, oa⟩ ⟨x1, y1, z1, .projc⟩ ⟨x2, y2, z2, .projc⟩ = r
  intro r'
%%BRANCHES ep_add_projc_imp add_imp (chordX_projc x1 y1 z1 x2 y2 z2 hzp hzq hx) (chordY_projc x1 y1 z1 x2 y2 z2 hzp hzq hx)

/-- ADDED: the mixed formula (second operand affine: `q.z` is ignored, i.e. taken as 1), first operand projective. -/
theorem add_projc_mix_chord (cv : CurveC F) (p q : Pt F) (hp : p.coord = .projc)
    (hzp : p.z ≠ 0) (hcp : OnCurve cv p) (hcq : q.y ^ 2 = q.x ^ 3 + cv.a * q.x + cv.b)
    (hx : q.x * p.z - p.x ≠ 0)
    (hopt : (cv.optA = .min3 → cv.a = -3) ∧ (cv.optA = .zero → cv.a = 0)) :
    let r := ep_add_projc_mix fieldOps cv p q
    r.coord = .projc ∧ (r.z ≠ 0 →
      r.x / r.z = chordX (p.x / p.z) (p.y / p.z) q.x q.y ∧
      r.y / r.z = chordY (p.x / p.z) (p.y / p.z) q.x q.y) := by
  rcases p with ⟨x1, y1, z1, c1⟩
  rcases q with ⟨x2, y2, z2, c2⟩
  rcases cv with ⟨a, b, oa⟩
  simp only at hp hzp hx hopt hcq
  subst hp
  simp only [OnCurve] at hcp
  have hx' : x2 * z1 - x1 * 1 ≠ 0 := by rwa [mul_one]
  have hDx : z1 * 1 * (x2 * z1 - x1 * 1) ^ 2 ≠ 0 := mul_ne_zero (mul_ne_zero hzp one_ne_zero) (pow_ne_zero 2 hx')
  have hDy : z1 * 1 * (x2 * z1 - x1 * 1) ^ 3 ≠ 0 := mul_ne_zero (mul_ne_zero hzp one_ne_zero) (pow_ne_zero 3 hx')
  generalize hr : ep_add_projc_mix fieldOps ⟨a, b, oa⟩ ⟨x1, y1, z1, .projc⟩ ⟨x2, y2, z2, c2⟩ = r
  intro r'
%%BRANCHES ep_add_projc_mix mix_non (chordX_projc_mix x1 y1 z1 x2 y2 hzp hx') (chordY_projc_mix x1 y1 z1 x2 y2 hzp hx')

/-- ADDED: the mixed formula with both operands affine (`p.z`, `q.z` ignored, i.e. taken as 1). -/
theorem add_projc_mix_chord_basic (cv : CurveC F) (p q : Pt F) (hp : p.coord = .basic)
    (hcp : p.y ^ 2 = p.x ^ 3 + cv.a * p.x + cv.b) (hcq : q.y ^ 2 = q.x ^ 3 + cv.a * q.x + cv.b)
    (hx : q.x - p.x ≠ 0)
    (hopt : (cv.optA = .min3 → cv.a = -3) ∧ (cv.optA = .zero → cv.a = 0)) :
    let r := ep_add_projc_mix fieldOps cv p q
    r.coord = .projc ∧ (r.z ≠ 0 →
      r.x / r.z = chordX p.x p.y q.x q.y ∧ r.y / r.z = chordY p.x p.y q.x q.y) := by
  rcases p with ⟨x1, y1, z1, c1⟩
  rcases q with ⟨x2, y2, z2, c2⟩
  rcases cv with ⟨a, b, oa⟩
  simp only at hp hx hopt hcp hcq
  subst hp
  have hx' : x2 * 1 - x1 * 1 ≠ 0 := by rwa [mul_one, mul_one]
  have hDx : (1 : F) * 1 * (x2 * 1 - x1 * 1) ^ 2 ≠ 0 :=
    mul_ne_zero (mul_ne_zero one_ne_zero one_ne_zero) (pow_ne_zero 2 hx')
  have hDy : (1 : F) * 1 * (x2 * 1 - x1 * 1) ^ 3 ≠ 0 :=
    mul_ne_zero (mul_ne_zero one_ne_zero one_ne_zero) (pow_ne_zero 3 hx')
  generalize hr : ep_add_projc_mix fieldOps ⟨a, b, oa⟩ ⟨x1, y1, z1, .basic⟩ ⟨x2, y2, z2, c2⟩ = r
  intro r'
%%BRANCHES ep_add_projc_mix mix_basic (chordX_affine x1 y1 x2 y2 hx') (chordY_affine x1 y1 x2 y2 hx')

/-- ADDED: `ep_add_projc_imp` dispatches an affine second operand to the mixed formula. -/
theorem add_projc_imp_mix (cv : CurveC F) (p q : Pt F) (hq : q.coord = .basic) :
    ep_add_projc_imp fieldOps cv p q = ep_add_projc_mix fieldOps cv p q := by
  unfold ep_add_projc_imp
  rw [if_pos hq]

/-- ADDED: `ep_add_jacob_imp` dispatches an affine second operand to the mixed formula. -/
theorem add_jacob_imp_mix (cv : CurveC F) (p q : Pt F) (hq : q.coord = .basic) :
    ep_add_jacob_imp fieldOps cv p q = ep_add_jacob_mix fieldOps cv p q := by
  unfold ep_add_jacob_imp
  rw [if_pos hq]

set_option maxHeartbeats 1000000 in
theorem dbl_projc_imp_tangent (cv : CurveC F) (p : Pt F) (hp : p.coord = .projc) (h2 : (2 : F) ≠ 0)
    (hzp : p.z ≠ 0) (hcp : OnCurve cv p) (hy : p.y ≠ 0)
    (hopt : (cv.optA = .min3 → cv.a = -3) ∧ (cv.optA = .zero → cv.a = 0)) :
    let r := ep_dbl_projc_imp fieldOps cv p
    r.coord = .projc ∧ (r.z ≠ 0 →
      r.x / r.z = tangX cv.a (p.x / p.z) (p.y / p.z) ∧ r.y / r.z = tangY cv.a (p.x / p.z) (p.y / p.z)) := by
  rcases p with ⟨x1, y1, z1, c1⟩
  rcases cv with ⟨a, b, oa⟩
  simp only at hp hzp hy hopt
  subst hp
  simp only [OnCurve] at hcp
  have hD : 2 * y1 * z1 ≠ 0 := mul_ne_zero (mul_ne_zero h2 hy) hzp
  have hDx : (2 * y1 * z1) ^ 2 ≠ 0 := pow_ne_zero 2 hD
  have hDy : (2 * y1 * z1) ^ 3 ≠ 0 := pow_ne_zero 3 hD
  generalize hr : ep_dbl_projc_imp fieldOps ⟨a, b, oa⟩ ⟨x1, y1, z1, .projc⟩ = r
  intro r'
%%BRANCHES ep_dbl_projc_imp dbl_imp (tangX_projc AVAL x1 y1 z1 h2 hzp hy) (tangY_projc AVAL x1 y1 z1 h2 hzp hy)

/-- ADDED: projective doubling of an affine (normalized, z = 1) operand. -/
theorem dbl_projc_imp_tangent_basic (cv : CurveC F) (p : Pt F) (hp : p.coord = .basic) (hz1 : p.z = 1)
    (h2 : (2 : F) ≠ 0) (hcp : OnCurve cv p) (hy : p.y ≠ 0)
    (hopt : (cv.optA = .min3 → cv.a = -3) ∧ (cv.optA = .zero → cv.a = 0)) :
    let r := ep_dbl_projc_imp fieldOps cv p
    r.coord = .projc ∧ (r.z ≠ 0 → r.x / r.z = tangX cv.a p.x p.y ∧ r.y / r.z = tangY cv.a p.x p.y) := by
  rcases p with ⟨x1, y1, z1, c1⟩
  rcases cv with ⟨a, b, oa⟩
  simp only at hp hz1 hy hopt
  subst hp hz1
  simp only [OnCurve] at hcp
  have hD : 2 * y1 * 1 ≠ 0 := mul_ne_zero (mul_ne_zero h2 hy) one_ne_zero
  have hDx : (2 * y1 * 1) ^ 2 ≠ 0 := pow_ne_zero 2 hD
  have hDy : (2 * y1 * 1) ^ 3 ≠ 0 := pow_ne_zero 3 hD
  generalize hr : ep_dbl_projc_imp fieldOps ⟨a, b, oa⟩ ⟨x1, y1, 1, .basic⟩ = r
  intro r'
%%BRANCHES ep_dbl_projc_imp dbl_basic (tangX_affine AVAL x1 y1 h2 hy) (tangY_affine AVAL x1 y1 h2 hy)

/-! ### the public entry points dispatch the identity operand -/
theorem add_jacob_identity (cv : CurveC F) (p q : Pt F) :
    (p.z = 0 → ep_add_jacob fieldOps cv p q = q) ∧ (p.z ≠ 0 → q.z = 0 → ep_add_jacob fieldOps cv p q = p) := by
  constructor
  · intro h; simp only [ep_add_jacob, fieldOps, decide_eq_true_eq, h, if_true]
  · intro h h'; simp only [ep_add_jacob, fieldOps, decide_eq_true_eq, h, h', if_true, if_false]

theorem add_projc_identity (cv : CurveC F) (p q : Pt F) :
    (p.z = 0 → ep_add_projc fieldOps cv p q = q) ∧ (p.z ≠ 0 → q.z = 0 → ep_add_projc fieldOps cv p q = p) := by
  constructor
  · intro h; simp only [ep_add_projc, fieldOps, decide_eq_true_eq, h, if_true]
  · intro h h'; simp only [ep_add_projc, fieldOps, decide_eq_true_eq, h, h', if_true, if_false]

end Relic.Lemmas.EpFormulas
