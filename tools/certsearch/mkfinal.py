import json, re, textwrap
T = json.load(open('/var/tmp/agents/epf/scratch/cof2.json'))
def wrap(s, indent):
    # break long linear_combination lines at spaces
    lines = textwrap.wrap(s, width=112, break_long_words=False, break_on_hyphens=False)
    return ('\n' + ' ' * (indent + 4)).join(lines)
SIMP = ("reduceCtorEq, not_false_eq_true, not_true_eq_false, and_self, and_true, true_and, and_false, false_and,\n"
        "      if_true, if_false, Nat.cast_ofNat")
def projc_branches(defn, key, finish):
    out = ''
    for i, (intro, extra) in enumerate([
        ("  by_cases h0 : oa = .zero\n  · subst h0\n    obtain rfl := hopt.2 rfl\n", ''),
        ("  by_cases h3 : oa = .min3\n  · subst h3\n    obtain rfl := hopt.1 rfl\n", ''),
        ("  · clear hopt\n", 'h0, h3, ')]):
        aval = ['0', '(-3)', 'a'][i]
        out += intro
        out += f"    simp only [{defn}, fieldOps, {extra}{SIMP}] at hr\n"
        out += "    subst hr\n"
        out += "    refine projc_finish _ _ _ _ _ _ _ rfl " + finish.replace('AVAL', aval) + " hDx hDy ?_ ?_\n"
        out += "    · " + wrap(T[key][i][0], 6) + "\n"
        out += "    · " + wrap(T[key][i][1], 6) + "\n"
    return out
body = open('/var/tmp/agents/epf/scratch/final_template.lean').read()
for m in re.findall(r'^%%BRANCHES (\S+) (\S+) (.*)$', body, flags=re.M):
    defn, key, finish = m
    body = body.replace(f'%%BRANCHES {defn} {key} {finish}\n', projc_branches(defn, key, finish))
open('/var/tmp/agents/epf/lean/RelicVerif/Lemmas/EpFormulas.lean', 'w').write(body)
