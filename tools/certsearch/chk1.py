from gen import *
def tang(a_, x, y):
    l = (3*x**2 + a_)/(2*y); tx = l**2 - 2*x; ty = l*(x-tx) - y; return tx, ty
def chord(x1,y1,x2,y2):
    l = (y2-y1)/(x2-x1); cx = l**2 - x1 - x2; cy = l*(x1-cx)-y1; return cx, cy
curveP = lambda a_: Y1**2*Z1 - (X1**3 + a_*X1*Z1**2 + b*Z1**3)
curveQ = lambda a_: Y2**2*Z2 - (X2**3 + a_*X2*Z2**2 + b*Z2**3)
for name, ranges, aval in [('dbl zero', [(53,54),(74,92)], 0), ('dbl min3', [(94,98),(130,159)], -3), ('dbl gen', [(94,98),(192,222)], a)]:
    rx, ry, rz, c = run(ranges, envp)
    rx, ry, rz = [sp.expand(e.subs(a, aval)) for e in (rx,ry,rz)]
    tx, ty = tang(aval, X1/Z1, Y1/Z1)
    print(name, c, 'rz =', sp.factor(rz))
    for lab, r_, t_ in [('x', rx, tx), ('y', ry, ty)]:
        num, den = sp.fraction(sp.together(r_/rz - t_))
        num = sp.expand(num)
        q, rem = sp.reduced(num, [curveP(aval)], Y1, X1, Z1, a, b)
        print(' ', lab, 'den', sp.factor(den), 'rem', rem)
