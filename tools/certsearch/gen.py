import re, sympy as sp
X1,Y1,Z1,X2,Y2,Z2,a,b = sp.symbols('X1 Y1 Z1 X2 Y2 Z2 a b')
lines = open('/var/tmp/agents/epf/lean/RelicVerif/Gen/EpFormulas.lean').read().split('\n')
def run(ranges, env0):
    env = dict(env0)
    def val(t):
        t = t.strip('()')
        if t in env: return env[t]
        raise KeyError(t)
    res = None
    for (lo,hi) in ranges:
        for ln in lines[lo-1:hi]:
            s = ln.strip()
            m = re.match(r'let (\w+) := (.*)$', s)
            if m:
                name, rhs = m.group(1), m.group(2).strip()
                rhs = rhs.strip('()')
                toks = rhs.split()
                if toks[0].startswith('o.'):
                    op = toks[0][2:]
                    if op == 'ofNat': v = sp.Integer(int(toks[1]))
                    else:
                        args = [val(t) for t in toks[1:]]
                        v = {'add': lambda x,y:x+y, 'sub': lambda x,y:x-y, 'mul': lambda x,y:x*y,
                             'sqr': lambda x:x*x, 'dbl': lambda x:2*x, 'neg': lambda x:-x, 'hlv': lambda x:x/2, 'inv': lambda x:1/x}[op](*args)
                else:
                    assert len(toks)==1, s
                    v = val(toks[0])
                env[name] = sp.expand(v)
                continue
            m = re.match(r'\(Pt\.mk (\S+) (\S+) (\S+) Coord\.(\w+)\)$', s)
            if m:
                res = (val(m.group(1)), val(m.group(2)), val(m.group(3)), m.group(4))
                continue
            raise Exception('unparsed: '+s)
    return res
envp = {'p.x':X1,'p.y':Y1,'p.z':Z1,'q.x':X2,'q.y':Y2,'q.z':Z2,'cv.a':a,'cv.b':b}
