from gen import *
def tang(a_, x, y):
    l = (3*x**2 + a_)/(2*y); tx = l**2 - 2*x; ty = l*(x-tx) - y; return tx, ty
def chord(x1,y1,x2,y2):
    l = (y2-y1)/(x2-x1); cx = l**2 - x1 - x2; cy = l*(x1-cx)-y1; return cx, cy
def check(name, ranges, aval, kind, pz=None, qz=None, coord='projc'):
    rx, ry, rz, c = run(ranges, envp)
    s = {a: aval}
    if pz is not None: s[Z1] = pz
    if qz is not None: s[Z2] = qz
    rx, ry, rz = [sp.expand(e.subs(s)) for e in (rx,ry,rz)]
    zz1 = Z1 if pz is None else pz; zz2 = Z2 if qz is None else qz
    if coord == 'projc':
        px, py = X1/zz1, Y1/zz1; qx, qy = X2/zz2, Y2/zz2
        cp = Y1**2*zz1 - (X1**3 + aval*X1*zz1**2 + b*zz1**3); cq = Y2**2*zz2 - (X2**3 + aval*X2*zz2**2 + b*zz2**3)
        ax, ay = rx/rz, ry/rz
    else:
        px, py = X1/zz1**2, Y1/zz1**3; qx, qy = X2/zz2**2, Y2/zz2**3
        cp = Y1**2 - (X1**3 + aval*X1*zz1**4 + b*zz1**6); cq = Y2**2 - (X2**3 + aval*X2*zz2**4 + b*zz2**6)
        ax, ay = rx/rz**2, ry/rz**3
    tx, ty = tang(aval, px, py) if kind == 'dbl' else chord(px, py, qx, qy)
    out = []
    for lab, r_, t_ in [('x', ax, tx), ('y', ay, ty)]:
        num, den = sp.fraction(sp.together(r_ - t_))
        num = sp.expand(num)
        q, rem = sp.reduced(num, [cp, cq], Y1, Y2, X1, X2, Z1, Z2, a, b)
        out.append((lab, 'OK' if rem == 0 else 'FAIL', 'exact' if num == 0 else 'mod curve'))
    print(name, c, 'rz=', sp.factor(rz), out)
check('dbl projc zero/basic', [(53,54),(56,72)], 0, 'dbl', pz=1)
check('dbl projc min3/basic', [(94,98),(101,128)], -3, 'dbl', pz=1)
check('dbl projc gen/basic', [(94,98),(162,190)], a, 'dbl', pz=1)
check('mix zero/basic', [(382,388),(391,411)], 0, 'add', pz=1, qz=1)
check('mix zero/non', [(382,388),(413,436)], 0, 'add', qz=1)
check('mix min3/basic', [(382,388),(440,465)], -3, 'add', pz=1, qz=1)
check('mix min3/non', [(382,388),(467,496)], -3, 'add', qz=1)
check('mix gen/basic', [(382,388),(499,526)], a, 'add', pz=1, qz=1)
check('mix gen/non', [(382,388),(528,558)], a, 'add', qz=1)
check('dbl jacob min3', [(235,258)], -3, 'dbl', coord='jacob')
check('dbl jacob zero', [(261,282)], 0, 'dbl', coord='jacob')
check('dbl jacob gen/non', [(284,286),(288,312)], a, 'dbl', coord='jacob')
check('dbl jacob gen/basic', [(284,286),(314,332)], a, 'dbl', coord='jacob', pz=1)
check('add jacob imp', [(763,774),(782,799)], a, 'add', coord='jacob')
check('add jacob mix non', [(696,703),(711,728)], a, 'add', coord='jacob', qz=1)
check('add jacob mix basic', [(730,733),(741,755)], a, 'add', coord='jacob', pz=1, qz=1)
