import RelicVerif.Lemmas.EpFormulas
open Relic.Lemmas.EpFormulas
#print axioms add_basic_imp_chord
#print axioms add_basic_imp_exceptional
#print axioms dbl_basic_imp_tangent
#print axioms add_jacob_mix_chord
#print axioms add_jacob_mix_chord_basic
#print axioms add_jacob_imp_chord
#print axioms dbl_jacob_imp_tangent
#print axioms dbl_jacob_imp_tangent_basic
#print axioms add_projc_imp_chord
#print axioms add_projc_mix_chord
#print axioms add_projc_mix_chord_basic
#print axioms add_projc_imp_mix
#print axioms add_jacob_imp_mix
#print axioms dbl_projc_imp_tangent
#print axioms dbl_projc_imp_tangent_basic
#print axioms add_jacob_identity
#print axioms add_projc_identity
