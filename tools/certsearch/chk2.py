from gen import *
from chk1 import chord, curveP, curveQ
for name, ranges, aval in [('add zero', [(566,573),(575,604)], 0), ('add min3', [(566,573),(607,642)], -3), ('add gen', [(566,573),(644,680)], a)]:
    rx, ry, rz, c = run(ranges, envp)
    rx, ry, rz = [sp.expand(e.subs(a, aval)) for e in (rx,ry,rz)]
    cx, cy = chord(X1/Z1, Y1/Z1, X2/Z2, Y2/Z2)
    print(name, c, 'rz =', sp.factor(rz))
    for lab, r_, t_ in [('x', rx, cx), ('y', ry, cy)]:
        num, den = sp.fraction(sp.together(r_/rz - t_))
        num = sp.expand(num)
        q, rem = sp.reduced(num, [curveP(aval), curveQ(aval)], Y1, Y2, X1, X2, Z1, Z2, a, b)
        print(' ', lab, 'den', sp.factor(den), 'rem', rem, [len(sp.Poly(qq, X1,Y1,Z1,X2,Y2,Z2,a,b).terms()) for qq in q])
