from gen import *
x1,y1,z1,x2,y2,z2 = sp.symbols('x1 y1 z1 x2 y2 z2')
def lean(e): return str(e).replace('**','^')
def chordND(zz1, zz2):
    u = y2*zz1 - y1*zz2; v = x2*zz1 - x1*zz2
    Ncx = u**2*zz1*zz2 - (x1*zz2 + x2*zz1)*v**2; Dcx = zz1*zz2*v**2
    Ncy = u*(x1*zz2*v**2 - Ncx) - y1*zz2*v**3; Dcy = zz1*zz2*v**3
    return Ncx, Dcx, Ncy, Dcy
def tangND(a_, zz1):
    M = 3*x1**2 + a_*zz1**2
    return M**2 - 8*x1*y1**2*zz1, (2*y1*zz1)**2, M*(12*x1*y1**2*zz1 - M**2) - 8*y1**4*zz1**2, (2*y1*zz1)**3
def cofs(ranges, aval, kind, pz=None, qz=None):
    zz1 = z1 if pz is None else sp.Integer(pz); zz2 = z2 if qz is None else sp.Integer(qz)
    sub = {X1:x1,Y1:y1,Z1:zz1,X2:x2,Y2:y2,Z2:zz2,a:aval}
    rx, ry, rz, c = run(ranges, envp)
    rx, ry, rz = [sp.expand(e.subs(sub)) for e in (rx,ry,rz)]
    cp = y1**2*zz1 - (x1**3 + aval*x1*zz1**2 + b*zz1**3); cq = y2**2*zz2 - (x2**3 + aval*x2*zz2**2 + b*zz2**3)
    if kind == 'dbl':
        Nx, Dx, Ny, Dy = tangND(aval, zz1); gens = [cp]
    else:
        Nx, Dx, Ny, Dy = chordND(zz1, zz2); gens = [cp, cq]
    res = []
    for r_, N, D in [(rx, Nx, Dx), (ry, Ny, Dy)]:
        expr = sp.expand(r_*D - N*rz)
        q, rem = sp.reduced(expr, gens, y1, y2, x1, x2, z1, z2, a, b)
        assert rem == 0
        if kind == 'dbl': res.append('linear_combination (%s) * hcp' % lean(q[0]))
        else: res.append('linear_combination (%s) * hcp + (%s) * hcq' % (lean(q[0]), lean(q[1])))
    return res
A = a
table = {
 'add_imp': [cofs([(566,573),(575,604)], 0, 'add'), cofs([(566,573),(607,642)], -3, 'add'), cofs([(566,573),(644,680)], A, 'add')],
 'dbl_imp': [cofs([(53,54),(74,92)], 0, 'dbl'), cofs([(94,98),(130,159)], -3, 'dbl'), cofs([(94,98),(192,222)], A, 'dbl')],
 'dbl_basic': [cofs([(53,54),(56,72)], 0, 'dbl', pz=1), cofs([(94,98),(101,128)], -3, 'dbl', pz=1), cofs([(94,98),(162,190)], A, 'dbl', pz=1)],
 'mix_non': [cofs([(382,388),(413,436)], 0, 'add', qz=1), cofs([(382,388),(467,496)], -3, 'add', qz=1), cofs([(382,388),(528,558)], A, 'add', qz=1)],
 'mix_basic': [cofs([(382,388),(391,411)], 0, 'add', pz=1, qz=1), cofs([(382,388),(440,465)], -3, 'add', pz=1, qz=1), cofs([(382,388),(499,526)], A, 'add', pz=1, qz=1)],
}
import json
json.dump(table, open('cof2.json','w'), indent=1)
for k,v in table.items():
    print(k, [len(s) for br in v for s in br])
