#!/bin/sh
# usage: tools/confirm_mutant.sh <name> <patch> <demo.c> <tests...>
# Confirms in a scratch worktree: original builds + demo PASS; with patch: builds, listed pinned tests pass, demo FAILS.
N=$1; P=$2; D=$3; shift 3
W=/tmp/confirm-$N
git -C /repo worktree remove --force $W 2>/dev/null
git -C /repo worktree add -q --detach $W HEAD || exit 2
cd $W
bld() { # $1 = dir
  mkdir -p $1 && (cd $1 && CFLAGS="-O2 -w" cmake -G Ninja $W -DTESTS=100 -DBENCH=0 -DDOCUM=off -DSHLIB=off -DVERBS=off $EXTRA_CMAKE >/dev/null 2>&1 && cmake --build . -j8 --target relic_s $2 >/dev/null 2>&1); }
demo() { gcc -O1 -w $DEMO_FLAGS -I $1/include -I $W/include -I $W/include/low $D -o $1/demo $1/lib/librelic_s.a 2>/dev/null && (cd $1 && timeout 600 ./demo >/dev/null 2>&1; echo $?); }
bld $W/b0 ""
R0=$(demo $W/b0)
git apply $P || { echo "$N: patch does not apply"; exit 2; }
bld $W/b1 "$*"
T=""
for t in "$@"; do (cd $W/b1 && timeout 3000 ./bin/$t >/dev/null 2>&1) && T="$T $t:pass" || T="$T $t:FAIL"; done
R1=$(demo $W/b1)
echo "$N: demo-original-exit=$R0 demo-mutant-exit=$R1 tests:$T"
cd /; git -C /repo worktree remove --force $W
