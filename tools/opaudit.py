import sys, re, glob, importlib, collections
sys.path.insert(0,'/verif/tools')
import check
ops=set()
for f in glob.glob('/verif/harness/*.c')+glob.glob('/verif/harness/*.inc'):
    for m in re.finditer(r'\{"([a-z0-9_!]+)",\s*op_', open(f).read()): ops.add(m.group(1))
seen=collections.Counter()
for pid in ["C%02d"%i for i in range(1,21)]:
    try:
        mod=importlib.import_module("props."+pid.lower())
        ctx=check.Ctx(pid,"quick",1)
        for st in mod.streams(ctx):
            for l in st["lines"]:
                t=l.split()
                if t: seen[t[0]]+=1
    except Exception as e:
        print(pid,"ERR",repr(e)[:200])
print("never generated:", sorted(o for o in ops if o not in seen))
