"""Translator for the constant-time primitives (C20): C text -> values of Relic.Model.CtLang.Prog.

Accepted fragment (anything else raises TranslationFailure and is reported as a broken obligation):
  declarations of scalars (dig_t, uint8_t, int, size_t) with optional initialiser, pointer aliases with a cast
  (`const uint8_t *_a = (const uint8_t *)a;`), assignments `x op= e` / `a[i] op= e` with op in {=, ^=, |=, &=},
  `for (T i = 0; i < N; i++) { ... }`, a final `return e;`, expressions over - ~ ! ^ & | == != [] and the ternary
  `c ? K1 : K2` with constant arms.  No if / while / switch / && / || / calls / early return.
"""
import os, re, hashlib

REPO = os.environ.get("RELIC_REPO", "/repo")


class TranslationFailure(Exception):
    pass


TOK = re.compile(r"\s*(?:(\d+)|([A-Za-z_]\w*)|(\+\+|--|\^=|\|=|&=|==|!=|<=|>=|&&|\|\||<<|>>|[-+*/%^&|~!<>=?:;,(){}\[\]]))")

WIDTH = {"dig_t": "W", "uint8_t": 8, "int": 0, "size_t": 0, "uint_t": 0}
CONSTS = {"RLC_EQ": 0, "RLC_NE": 2, "RLC_LT": -1, "RLC_GT": 1}


def tokenize(src):
    src = re.sub(r"/\*.*?\*/", "", src, flags=re.S)
    src = re.sub(r"//[^\n]*", "", src)
    out, pos = [], 0
    src = src.strip()
    while pos < len(src):
        m = TOK.match(src, pos)
        if not m:
            raise TranslationFailure("cannot tokenise at %r" % src[pos:pos + 20])
        if m.group(1):
            out.append(("num", int(m.group(1))))
        elif m.group(2):
            out.append(("id", m.group(2)))
        else:
            out.append(("op", m.group(3)))
        pos = m.end()
    return out


def extract_function(path, name):
    src = open(path).read()
    m = re.search(r"^(?:\w[\w\s\*]*?)\b%s\s*\(([^)]*)\)\s*\{" % re.escape(name), src, flags=re.M)
    if not m:
        raise TranslationFailure("function %s not found in %s" % (name, path))
    depth, i = 1, m.end()
    while depth and i < len(src):
        depth += {"{": 1, "}": -1}.get(src[i], 0)
        i += 1
    return m.group(1), src[m.end():i - 1], hashlib.sha256(src[m.start():i].encode()).hexdigest()[:16]


class P:
    def __init__(self, toks, types, alias):
        self.t, self.i = toks, 0
        self.types = types      # name -> width ("W", 8, 0) for scalars / element width for arrays
        self.arrays = set()
        self.alias = alias

    def peek(self, k=0):
        return self.t[self.i + k] if self.i + k < len(self.t) else ("eof", None)

    def eat(self, kind=None, val=None):
        tk = self.peek()
        if (kind and tk[0] != kind) or (val is not None and tk[1] != val):
            raise TranslationFailure("expected %s %s, found %r" % (kind, val, tk))
        self.i += 1
        return tk

    def at(self, val):
        return self.peek()[1] == val and self.peek()[0] == "op"

    # ---- expressions --------------------------------------------------------------------------
    def expr(self):
        c = self.orx()
        if self.at("?"):
            self.eat()
            a = self.const_arm()
            self.eat("op", ":")
            b = self.const_arm()
            return ("sel", c, a, b)
        return c

    def const_arm(self):
        tk = self.eat()
        neg = False
        if tk == ("op", "-"):
            neg = True
            tk = self.eat()
        if tk[0] == "num":
            return -tk[1] if neg else tk[1]
        if tk[0] == "id" and tk[1] in CONSTS:
            return CONSTS[tk[1]]
        raise TranslationFailure("ternary arm is not a constant: %r (a data-dependent selection of computed values is outside the fragment)" % (tk,))

    def orx(self):
        a = self.xorx()
        while self.at("|"):
            self.eat()
            a = ("or", a, self.xorx())
        if self.at("||") or self.at("&&"):
            raise TranslationFailure("short-circuit operator (a branch) in an expression")
        return a

    def xorx(self):
        a = self.andx()
        while self.at("^"):
            self.eat()
            a = ("xor", a, self.andx())
        return a

    def andx(self):
        a = self.eqx()
        while self.at("&"):
            self.eat()
            a = ("and", a, self.eqx())
        return a

    def eqx(self):
        a = self.addx()
        while self.at("==") or self.at("!="):
            op = self.eat()[1]
            a = ("eq" if op == "==" else "ne", a, self.addx())
        return a

    def addx(self):
        a = self.unary()
        while self.at("+") or self.at("-"):
            op = self.eat()[1]
            a = ("add" if op == "+" else "sub", a, self.unary())
        return a

    def unary(self):
        if self.at("-"):
            self.eat()
            return ("neg", self.unary())
        if self.at("~"):
            self.eat()
            return ("bnot", self.unary())
        if self.at("!"):
            self.eat()
            return ("lnot", self.unary())
        return self.postfix()

    def postfix(self):
        tk = self.peek()
        if tk == ("op", "("):
            # cast or parenthesised expression
            j, depth, inner = self.i + 1, 1, []
            while depth:
                t = self.t[j]
                depth += 1 if t == ("op", "(") else -1 if t == ("op", ")") else 0
                if depth:
                    inner.append(t)
                j += 1
            if inner and all(t[0] == "id" and (t[1] in WIDTH or t[1] in ("const", "unsigned", "void")) or t == ("op", "*") for t in inner):
                self.i = j       # a cast: value-preserving for the widths used here (checked by the width of the receiving variable)
                return self.unary()
            self.eat()
            e = self.expr()
            self.eat("op", ")")
            return e
        if tk[0] == "num":
            self.eat()
            return ("num", tk[1])
        if tk[0] == "id":
            self.eat()
            name = self.alias.get(tk[1], tk[1])
            if tk[1] in CONSTS:
                return ("num", CONSTS[tk[1]])
            if self.at("("):
                raise TranslationFailure("call to %s inside a constant-time primitive" % tk[1])
            if self.at("["):
                self.eat()
                ix = self.expr()
                self.eat("op", "]")
                self.arrays.add(name)
                return ("idx", name, ix)
            return ("var", name)
        raise TranslationFailure("unexpected token %r" % (tk,))

    # ---- statements ---------------------------------------------------------------------------
    def stmts(self, until=None):
        out = []
        while self.peek()[0] != "eof" and not (until and self.at(until)):
            out += self.stmt()
        return out

    def stmt(self):
        tk = self.peek()
        if tk[0] == "id" and tk[1] in ("if", "while", "do", "switch", "goto", "break", "continue"):
            raise TranslationFailure("`%s` statement: control flow outside the branch-free fragment" % tk[1])
        if tk[0] == "id" and (tk[1] in WIDTH or tk[1] == "const"):
            return self.decl()
        if tk == ("id", "for"):
            return [self.forloop()]
        if tk == ("id", "return"):
            self.eat()
            e = self.expr()
            self.eat("op", ";")
            if self.peek()[0] != "eof":
                raise TranslationFailure("return that is not the last statement")
            return [("ret", e)]
        return [self.assign()]

    def decl(self):
        if self.peek() == ("id", "const"):
            self.eat()
        ty = self.eat("id")[1]
        if ty not in WIDTH:
            raise TranslationFailure("unknown type %s" % ty)
        out = []
        while True:
            ptr = False
            if self.at("*"):
                self.eat()
                ptr = True
            name = self.eat("id")[1]
            if ptr:
                # pointer alias: `T *_a = (T *)a;`
                self.eat("op", "=")
                e = self.unary()
                if e[0] != "var":
                    raise TranslationFailure("pointer initialised with something that is not a parameter")
                self.alias[name] = e[1]
                self.types[e[1]] = WIDTH[ty]
            else:
                self.types[name] = WIDTH[ty]
                if self.at("="):
                    self.eat()
                    out.append(("assign", name, self.expr()))
            if self.at(","):
                self.eat()
                continue
            self.eat("op", ";")
            return out

    def lvalue(self):
        name = self.eat("id")[1]
        name = self.alias.get(name, name)
        if self.at("["):
            self.eat()
            ix = self.expr()
            self.eat("op", "]")
            self.arrays.add(name)
            return ("idx", name, ix)
        return ("var", name)

    def assign(self):
        lv = self.lvalue()
        op = self.eat("op")[1]
        if op not in ("=", "^=", "|=", "&="):
            raise TranslationFailure("assignment operator %s" % op)
        e = self.expr()
        self.eat("op", ";")
        if op != "=":
            e = ({"^=": "xor", "|=": "or", "&=": "and"}[op], lv, e)
        if lv[0] == "idx":
            return ("store", lv[1], lv[2], e)
        return ("assign", lv[1], e)

    def forloop(self):
        self.eat("id", "for")
        self.eat("op", "(")
        if self.peek()[0] == "id" and self.peek()[1] in WIDTH:
            ty = self.eat()[1]
            self.types[self.peek()[1]] = WIDTH[ty]
        i = self.eat("id")[1]
        self.eat("op", "=")
        if self.eat() != ("num", 0):
            raise TranslationFailure("loop does not start at 0")
        self.eat("op", ";")
        if self.eat("id")[1] != i:
            raise TranslationFailure("loop condition on another variable")
        self.eat("op", "<")
        n = self.expr()
        self.eat("op", ";")
        if self.eat("id")[1] != i:
            raise TranslationFailure("loop increment on another variable")
        self.eat("op", "++")
        self.eat("op", ")")
        self.eat("op", "{")
        body = self.stmts(until="}")
        self.eat("op", "}")
        return ("for", i, n, body)


def lean_e(e, types, wctx):
    k = e[0]
    if k == "num":
        return "(.num %d)" % e[1]
    if k == "var":
        return '(.var "%s")' % e[1]
    if k == "idx":
        return '(.idx "%s" %s)' % (e[1], lean_e(e[2], types, wctx))
    if k in ("neg", "bnot"):
        return "(.%s %s %s)" % (k, wctx, lean_e(e[1], types, wctx))
    if k == "lnot":
        return "(.lnot %s)" % lean_e(e[1], types, wctx)
    if k == "sel":
        if e[2] < 0 or e[3] < 0:
            raise TranslationFailure("negative constant arm")
        return "(.sel %s %d %d)" % (lean_e(e[1], types, wctx), e[2], e[3])
    return "(.%s %s %s)" % (k, lean_e(e[1], types, wctx), lean_e(e[2], types, wctx))


def width_of(name, types):
    w = types.get(name, 0)
    return "w" if w == "W" else str(w)


def lean_s(s, types, ind):
    pad = " " * ind
    if s[0] == "assign":
        w = width_of(s[1], types)
        return '%s.assign "%s" %s %s' % (pad, s[1], w, lean_e(s[2], types, w))
    if s[0] == "store":
        w = width_of(s[1], types)
        return '%s.store "%s" %s %s %s' % (pad, s[1], lean_e(s[2], types, "0"), w, lean_e(s[3], types, w))
    if s[0] == "ret":
        return "%s.ret %s" % (pad, lean_e(s[1], types, "0"))
    if s[0] == "for":
        body = ",\n".join(lean_s(b, types, ind + 2) for b in s[3])
        return '%s.for_ "%s" %s [\n%s]' % (pad, s[1], lean_e(s[2], types, "0"), body)
    raise TranslationFailure("statement %r" % (s,))


# (function, file, public parameters).  Everything not listed as public is secret.
PRIMS = [
    ("dv_copy_sec", "src/dv/relic_dv_util.c", ["digits"]),
    ("dv_swap_sec", "src/dv/relic_dv_util.c", ["digits"]),
    ("dv_cmp_sec", "src/dv/relic_dv_util.c", ["size"]),
    ("util_cmp_sec", "src/relic_util.c", ["size"]),
]


def translate_one(name, rel, pub):
    params, body, sha = extract_function(os.path.join(REPO, rel), name)
    types, alias = {}, {}
    plist = []
    for prm in params.split(","):
        toks = [t for t in re.findall(r"[A-Za-z_]\w*|\*", prm)]
        pname = toks[-1]
        ty = [t for t in toks[:-1] if t in WIDTH]
        types[pname] = WIDTH[ty[0]] if ty else 0
        plist.append(pname)
    for p in pub:
        if p not in plist:
            raise TranslationFailure("%s: public parameter %s is not a parameter any more" % (name, p))
    ps = P(tokenize(body), types, alias)
    stmts = ps.stmts()
    lean = "def %s (w : Nat) : Prog := {\n  name := \"%s\"\n  pub := [%s]\n  body := [\n%s]\n}\n" % (
        name, name, ", ".join('"%s"' % p for p in pub), ",\n".join(lean_s(s, types, 4) for s in stmts))
    return lean, sha, plist, sorted(ps.arrays)


def generate(out_dir):
    os.makedirs(out_dir, exist_ok=True)
    obligations, failures, parts, meta = [], [], [], []
    for name, rel, pub in PRIMS:
        try:
            lean, sha, plist, arrays = translate_one(name, rel, pub)
            parts.append("/-- generated from %s: %s(%s); arrays: %s -/\n%s" % (rel, name, ", ".join(plist), ", ".join(arrays), lean))
            obligations.append({"c_function": name, "file": rel, "sha256": sha, "lean_def": "Relic.Gen.Ct." + name, "ok": True})
            meta.append(name)
        except TranslationFailure as e:
            failures.append("translate_ct: %s: %s" % (name, e))
            obligations.append({"c_function": name, "file": rel, "sha256": "", "lean_def": "Relic.Gen.Ct." + name, "ok": False, "error": str(e)})
            # keep the Lean library buildable: emit a program that fails the discipline check
            parts.append('def %s (w : Nat) : Prog := { name := "%s", pub := [], body := [.for_ "i" (.idx "untranslatable" (.num w)) []] }\n' % (name, name))
    txt = ("/- GENERATED by tools/translate_ct.py from the C sources on every run. Do not edit. -/\n"
           "import RelicVerif.Model.CtLang\n\nnamespace Relic.Gen.Ct\nopen Relic.Model.CtLang\n\n" + "\n".join(parts) +
           "\ndef all (w : Nat) : List Prog := [%s]\n\nend Relic.Gen.Ct\n" % ", ".join("%s w" % n for n, _, _ in PRIMS))
    path = os.path.join(out_dir, "Ct.lean")
    __import__("relicbuild").write_if_changed(path, txt)
    return {"obligations": obligations, "failures": failures}


if __name__ == "__main__":
    import json
    print(json.dumps(generate(os.path.join(os.path.dirname(os.path.dirname(os.path.abspath(__file__))), "lean", "RelicVerif", "Gen")), indent=1))
