#!/usr/bin/env python3
"""Resolve the routine conflicts of merging a slice branch (run inside a conflicted merge): imports and Conf fields are unioned, the
dispatch chain of Driver/Main.lean keeps ours and appends their new handlers, known_findings.json is merged by id, MANIFEST.json and
evidence are regenerated afterwards."""
import json, re, subprocess, sys, os
V = os.path.dirname(os.path.dirname(os.path.abspath(__file__)))


def show(stage, path):
    return subprocess.run(["git", "show", ":%d:%s" % (stage, path)], cwd=V, stdout=subprocess.PIPE, text=True).stdout


def union_hunks(path, special=None):
    txt = open(os.path.join(V, path)).read()
    def rep(m):
        ours, theirs = m.group(1), m.group(2)
        if special:
            r = special(ours, theirs)
            if r is not None:
                return r
        lines = ours.splitlines(keepends=True)
        for l in theirs.splitlines(keepends=True):
            if l not in lines:
                lines.append(l)
        return "".join(lines)
    new = re.sub(r"<<<<<<< [^\n]*\n(.*?)=======\n(.*?)>>>>>>> [^\n]*\n", rep, txt, flags=re.S)
    open(os.path.join(V, path), "w").write(new)


def main_special(ours, theirs):
    if "C01.handle" in ours or "<|>" in ours:
        # dispatch chain: handlers present in theirs but not in ours are appended
        calls = re.findall(r"<\|> (\((?:C\d\d)(?:\.\w+)*\.handle [^()]*\)|\(match c\.\w+ with\n\s*\| some e => C\d\d(?:\.\w+)*\.handle [^\n]*\n\s*\| none => none\))", theirs)
        extra = [c for c in calls if re.search(r"C\d\d(?:\.\w+)*\.handle", c).group(0) not in ours]
        return ours.rstrip("\n") + "".join(" <|> " + c for c in extra) + "\n"
    return None


conf = subprocess.run(["git", "diff", "--name-only", "--diff-filter=U"], cwd=V, stdout=subprocess.PIPE, text=True).stdout.split()
for p in conf:
    if p == "lean/Driver/Main.lean":
        union_hunks(p, main_special)
    elif p in ("lean/RelicVerif.lean", ".gitignore"):
        union_hunks(p)
    elif p == "known_findings.json":
        ours, theirs = json.loads(show(2, p)), json.loads(show(3, p))
        ids = {f["id"] for f in ours["findings"]}
        for f in theirs["findings"]:
            if f["id"] not in ids:
                ours["findings"].append(f)
        for f in theirs.get("fixed", []):
            if f not in ours["fixed"]:
                ours["fixed"].append(f)
        json.dump(ours, open(os.path.join(V, p), "w"), indent=1)
        open(os.path.join(V, p), "a").write("\n")
    elif p == "MANIFEST.json" or p.startswith("evidence/"):
        open(os.path.join(V, p), "w").write(show(2, p))
    elif p == "tools/mkmanifest.py" or p == "tools/relicbuild.py":
        union_hunks(p)
    else:
        print("UNRESOLVED", p)
        continue
    subprocess.run(["git", "add", p], cwd=V)
print("remaining:", subprocess.run(["git", "diff", "--name-only", "--diff-filter=U"], cwd=V, stdout=subprocess.PIPE, text=True).stdout)
