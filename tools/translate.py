#!/usr/bin/env python3
"""Translator (tie T): straight-line field-formula C code -> Lean definitions, regenerated from /repo on every run.

Input: the function-like template macros of src/tmpl/*.h (after `gcc -E -fdirectives-only`, which resolves every #if of the
configuration but leaves macros unexpanded) and plain C functions of the formula files. Accepted fragment: calls of field
operations PFX_op(dst, src...), curve-constant multiplications, point-level calls, assignments to r->coord, `if` on
configuration / representation / is_zero predicates, `return`, and the RLC_TRY / CATCH / FINALLY / new / null / free
scaffolding (dropped). Anything else is a translation failure (= a broken obligation, never a silent pass).

Output: Lean `def`s over an explicit operation record `FOps F` (RelicVerif/Model/FormulaBase.lean), one `let` per C statement with
SSA renaming, `if`s kept as Lean `if`s with the continuation duplicated into both branches.
"""
import hashlib, os, re, subprocess, sys

TOOLS = os.path.dirname(os.path.abspath(__file__))
VERIF = os.path.dirname(TOOLS)
REPO = os.environ.get("RELIC_REPO", "/repo")

TOKEN = re.compile(r"\s*(->|==|!=|&&|\|\||##|[A-Za-z_][A-Za-z_0-9]*|\d+|[{}();,=!<>*&\[\]+\-\.])")


class TranslationError(Exception):
    pass


def preprocess(path, incdirs):
    cmd = ["gcc", "-E", "-fdirectives-only", "-P"]
    for d in incdirs:
        cmd += ["-I", d]
    cmd.append(path)
    r = subprocess.run(cmd, stdout=subprocess.PIPE, stderr=subprocess.PIPE, text=True)
    if r.returncode != 0:
        raise TranslationError("gcc -E failed on %s: %s" % (path, r.stderr[-500:]))
    return r.stdout


def tokenize(text):
    toks, pos = [], 0
    text = text.strip()
    while pos < len(text):
        m = TOKEN.match(text, pos)
        if not m:
            raise TranslationError("cannot tokenize at: %r" % text[pos:pos + 40])
        toks.append(m.group(1))
        pos = m.end()
    # glue `C ## _foo` into C_foo
    out = []
    i = 0
    while i < len(toks):
        if i + 2 < len(toks) and toks[i + 1] == "##":
            out.append(toks[i] + toks[i + 2])
            i += 3
        else:
            out.append(toks[i])
            i += 1
    return out


class Parser:
    def __init__(self, toks):
        self.t = toks
        self.i = 0

    def peek(self, k=0):
        return self.t[self.i + k] if self.i + k < len(self.t) else None

    def eat(self, x=None):
        tok = self.peek()
        if x is not None and tok != x:
            raise TranslationError("expected %r, got %r near %s" % (x, tok, " ".join(self.t[max(0, self.i - 6):self.i + 6])))
        self.i += 1
        return tok

    # ---- expressions ----
    def expr(self):
        return self.or_()

    def or_(self):
        e = self.and_()
        while self.peek() == "||":
            self.eat()
            e = ("or", e, self.and_())
        return e

    def and_(self):
        e = self.cmp()
        while self.peek() == "&&":
            self.eat()
            e = ("and", e, self.cmp())
        return e

    def cmp(self):
        e = self.unary()
        while self.peek() in ("==", "!="):
            op = self.eat()
            e = (op, e, self.unary())
        return e

    def unary(self):
        if self.peek() == "!":
            self.eat()
            return ("not", self.unary())
        if self.peek() == "(":
            self.eat()
            e = self.expr()
            self.eat(")")
            return e
        return self.postfix()

    def postfix(self):
        tok = self.eat()
        if re.match(r"\d+$", tok):
            return ("num", int(tok))
        e = ("id", tok)
        while True:
            if self.peek() == "->":
                self.eat()
                e = ("mem", e, self.eat())
            elif self.peek() == "(":
                self.eat()
                args = []
                while self.peek() != ")":
                    args.append(self.expr())
                    if self.peek() == ",":
                        self.eat()
                self.eat(")")
                e = ("call", e[1] if e[0] == "id" else None, args)
            elif self.peek() == "[":
                self.eat()
                idx = self.expr()
                self.eat("]")
                e = ("idx", e, idx)
            else:
                return e

    # ---- statements ----
    def block(self):
        self.eat("{")
        out = []
        while self.peek() != "}":
            s = self.stmt()
            if s is not None:
                out.extend(s if isinstance(s, list) else [s])
        self.eat("}")
        return out

    def stmt(self):
        tok = self.peek()
        if tok == "{":
            return self.block()
        if tok == ";":
            self.eat()
            return None
        if tok == "if":
            self.eat()
            self.eat("(")
            c = self.expr()
            self.eat(")")
            th = self.stmt_as_list()
            el = []
            if self.peek() == "else":
                self.eat()
                el = self.stmt_as_list()
            return ("if", c, th, el)
        if tok == "return":
            self.eat()
            self.eat(";")
            return ("return",)
        if tok == "RLC_TRY":
            self.eat()
            body = self.block()
            while self.peek() in ("RLC_CATCH_ANY", "RLC_CATCH", "RLC_FINALLY"):
                k = self.eat()
                if k == "RLC_CATCH":
                    self.eat("(")
                    self.expr()
                    self.eat(")")
                self.block()        # handler / finally bodies: scaffolding (their semantics is C19's subject)
            return body
        # declaration: type-ish identifier followed by identifier
        if re.match(r"(const|int|size_t|dig_t|static|void|[A-Za-z0-9_]+_t)$", tok) and re.match(r"[A-Za-z_*]", self.peek(1) or ""):
            while self.eat() != ";":
                pass
            return None
        e = self.expr()
        if self.peek() == "=":
            self.eat()
            rhs = self.expr()
            self.eat(";")
            return ("assign", e, rhs)
        self.eat(";")
        return ("expr", e)

    def stmt_as_list(self):
        s = self.stmt()
        if s is None:
            return []
        return s if isinstance(s, list) else [s]


# ------------------------------------------------------------------------------------------------
FIELD_BIN = {"add": "add", "sub": "sub", "mul": "mul"}
FIELD_UN = {"sqr": "sqr", "dbl": "dbl", "neg": "neg", "hlv": "hlv", "inv": "inv", "copy": None}
SCAFFOLD = {"new", "null", "free"}
OPTA = {"RLC_ZERO": "OptA.zero", "RLC_ONE": "OptA.one", "RLC_TWO": "OptA.two", "RLC_TINY": "OptA.tiny", "RLC_MIN3": "OptA.min3",
        "RLC_HUGE": "OptA.huge"}
COORD = {"BASIC": "Coord.basic", "PROJC": "Coord.projc", "JACOB": "Coord.jacob"}


class Emitter:
    """one C function -> one Lean def"""

    def __init__(self, name, fpfx, cpfx, params, known_funcs):
        self.name, self.F, self.C = name, fpfx, cpfx
        self.params = params            # list of (kind, cname): kind in {"pt_out", "pt_in", "fld_out_ignored"}
        self.known = known_funcs        # C point-level function name -> (lean name, arity of point inputs)
        self.counter = {}
        self.lines = 0

    def fresh(self, base):
        base = re.sub(r"[^A-Za-z0-9]", "_", base)
        n = self.counter.get(base, 0) + 1
        self.counter[base] = n
        return "%s_%d" % (base, n)

    def lv(self, e):
        if e[0] == "id":
            return e[1]
        if e[0] == "mem" and e[1][0] == "id":
            return "%s->%s" % (e[1][1], e[2])
        raise TranslationError("%s: unsupported lvalue %r" % (self.name, e))

    def rv(self, e, env):
        if e[0] in ("id", "mem"):
            k = self.lv(e)
            if k not in env:
                raise TranslationError("%s: read of %s before any assignment (uninitialised temporary?)" % (self.name, k))
            return env[k]
        if e[0] == "call":
            fn = e[1]
            if fn == self.C + "_curve_get_a":
                return "cv.a"
            if fn == self.C + "_curve_get_b":
                return "cv.b"
        if e[0] == "num":
            return "(o.ofNat %d)" % e[1]
        raise TranslationError("%s: unsupported operand %r" % (self.name, e))

    def cond(self, e, env):
        if e[0] == "and":
            return "(%s ∧ %s)" % (self.cond(e[1], env), self.cond(e[2], env))
        if e[0] == "or":
            return "(%s ∨ %s)" % (self.cond(e[1], env), self.cond(e[2], env))
        if e[0] == "not":
            return "¬ %s" % self.cond(e[1], env)
        if e[0] in ("==", "!="):
            neg = e[0] == "!="
            a, b = e[1], e[2]
            # configuration predicate: curve_opt_a() == RLC_x
            if a[0] == "call" and a[1] == self.C + "_curve_opt_a" and b[0] == "id" and b[1] in OPTA:
                s = "cv.optA = %s" % OPTA[b[1]]
            elif a[0] == "mem" and a[2] == "coord" and b[0] == "id" and b[1] in COORD:
                s = "%s.coord = %s" % (a[1][1], COORD[b[1]])
            elif a[0] == "id" and b == ("id", "NULL"):
                # optional output pointers (slope) are modelled as absent
                s = "True"
            else:
                raise TranslationError("%s: unsupported comparison %r" % (self.name, e))
            return "¬ (%s)" % s if neg else "(%s)" % s
        if e[0] == "call":
            fn = e[1]
            if fn == self.F + "_is_zero":
                return "(o.isZero %s = true)" % self.rv(e[2][0], env)
            if fn == self.C + "_is_infty":
                return "(o.isZero %s = true)" % self.rv(("mem", e[2][0], "z"), env)
        raise TranslationError("%s: unsupported condition %r" % (self.name, e))

    def atoms(self, e, env):
        """[(atom text, polarity)] for a conjunction of configuration / representation predicates, else None"""
        if e[0] == "and":
            a, b = self.atoms(e[1], env), self.atoms(e[2], env)
            return None if a is None or b is None else a + b
        if e[0] in ("==", "!="):
            a, b = e[1], e[2]
            if (a[0] == "call" and a[1] == self.C + "_curve_opt_a") or (a[0] == "mem" and a[2] == "coord"):
                return [(self.cond(("==", a, b), env), e[0] == "==")]
        return None

    def point_of(self, pname, env):
        return "(Pt.mk %s %s %s %s)" % (env[pname + "->x"], env[pname + "->y"], env[pname + "->z"], env[pname + "->coord"])

    def result(self, env):
        return self.point_of(self.out, env)

    def emit(self, stmts, env, ind):
        pad = "  " * ind
        if not stmts:
            return pad + self.result(env)
        s, rest = stmts[0], stmts[1:]
        if s[0] == "return":
            return pad + self.result(env)
        if s[0] == "if":
            # a conjunction of already decided atoms is decided: prune infeasible paths (same predicate tested twice)
            facts = env.get("$facts", {})
            atoms = self.atoms(s[1], env)
            if atoms is not None and all(a in facts for a, _ in atoms):
                val = all(facts[a] == pol for a, pol in atoms)
                return self.emit((s[2] if val else s[3]) + rest, env, ind)
            c = self.cond(s[1], env)
            et, ee = dict(env), dict(env)
            if atoms is not None and len(atoms) == 1:
                a, pol = atoms[0]
                et["$facts"] = dict(facts, **{a: pol})
                ee["$facts"] = dict(facts, **{a: (not pol)})
            elif atoms is not None:
                et["$facts"] = dict(facts, **{a: pol for a, pol in atoms})
            return "%sif %s then\n%s\n%selse\n%s" % (pad, c, self.emit(s[2] + rest, et, ind + 1), pad,
                                                     self.emit(s[3] + rest, ee, ind + 1))
        if s[0] == "assign":
            k = self.lv(s[1])
            if k.endswith("->coord") and s[2][0] == "id" and s[2][1] in COORD:
                env = dict(env)
                env[k] = COORD[s[2][1]]
                return self.emit(rest, env, ind)
            raise TranslationError("%s: unsupported assignment %r" % (self.name, s))
        if s[0] == "expr" and s[1][0] == "call":
            fn, args = s[1][1], s[1][2]
            env = dict(env)
            self.lines += 1
            if fn.startswith(self.F + "_"):
                op = fn[len(self.F) + 1:]
                if op in SCAFFOLD:
                    return self.emit(rest, env, ind)
                dst = self.lv(args[0])
                if op in FIELD_BIN:
                    val = "o.%s %s %s" % (FIELD_BIN[op], self.rv(args[1], env), self.rv(args[2], env))
                elif op in FIELD_UN:
                    val = self.rv(args[1], env) if FIELD_UN[op] is None else "o.%s %s" % (FIELD_UN[op], self.rv(args[1], env))
                elif op == "zero":
                    val = "o.zero"
                elif op == "set_dig":
                    val = self.rv(args[1], env)
                elif op in ("mul_dig", "add_dig", "sub_dig"):
                    val = "o.%s %s %s" % (op[:3], self.rv(args[1], env), self.rv(args[2], env))
                else:
                    raise TranslationError("%s: unsupported field operation %s" % (self.name, fn))
                name = self.fresh(dst)
                env[dst] = name
                return "%slet %s := %s\n%s" % (pad, name, val, self.emit(rest, env, ind))
            if fn in (self.C + "_curve_mul_a", self.C + "_curve_mul_b"):
                dst = self.lv(args[0])
                name = self.fresh(dst)
                val = "o.mul cv.%s %s" % (fn[-1], self.rv(args[1], env))
                env[dst] = name
                return "%slet %s := %s\n%s" % (pad, name, val, self.emit(rest, env, ind))
            if fn == self.C + "_set_infty":
                r = self.lv(args[0])
                for f in "xyz":
                    env[r + "->" + f] = "o.zero"
                env[r + "->coord"] = "Coord.basic"
                return self.emit(rest, env, ind)
            if fn == self.C + "_copy":
                r, p = self.lv(args[0]), self.lv(args[1])
                for f in ("x", "y", "z", "coord"):
                    env[r + "->" + f] = env[p + "->" + f]
                return self.emit(rest, env, ind)
            if fn in self.known:
                lean, _ = self.known[fn]
                r = self.lv(args[0])
                ins = []
                for a in args[1:]:
                    if a == ("id", "NULL"):
                        continue
                    ins.append(self.point_of(self.lv(a), env))
                name = self.fresh("pt_" + r)
                for f in ("x", "y", "z", "coord"):
                    env[r + "->" + f] = "%s.%s" % (name, f)
                return "%slet %s := %s o cv %s\n%s" % (pad, name, lean, " ".join(ins), self.emit(rest, env, ind))
            raise TranslationError("%s: call of untranslated function %s" % (self.name, fn))
        raise TranslationError("%s: unsupported statement %r" % (self.name, s))

    def translate(self, body_stmts):
        env = {}
        ins = []
        self.out = None
        for kind, cname in self.params:
            if kind == "pt_out":
                self.out = cname
                for f in "xyz":
                    env[cname + "->" + f] = "o.zero"
                env[cname + "->coord"] = "Coord.basic"
            elif kind == "pt_in":
                ins.append(cname)
                for f in ("x", "y", "z", "coord"):
                    env[cname + "->" + f] = "%s.%s" % (cname, f)
        body = self.emit(body_stmts, env, 1)
        sig = " ".join("(%s : Pt F)" % p for p in ins)
        return "def %s {F : Type} (o : FOps F) (cv : CurveC F) %s : Pt F :=\n%s\n" % (self.name, sig, body)


def parse_function(text):
    """text = `static void NAME(params) { body }` ; returns (name, [(type, pname)], stmts)"""
    toks = tokenize(text)
    p = Parser(toks)
    while p.peek() in ("static", "void", "inline", "const"):
        p.eat()
    name = p.eat()
    p.eat("(")
    params, cur = [], []
    depth = 0
    while True:
        t = p.eat()
        if t == "(":
            depth += 1
        if t == ")":
            if depth == 0:
                break
            depth -= 1
        if t == "," and depth == 0:
            params.append(cur)
            cur = []
        else:
            cur.append(t)
    if cur:
        params.append(cur)
    body = p.block()
    return name, params, body


def classify_params(params, cpfx, fpfx):
    out = []
    for pr in params:
        ty = [t for t in pr if t not in ("const",)]
        pname = ty[-1]
        t = ty[0]
        if t == cpfx + "_t":
            out.append(("pt_in" if "const" in pr else "pt_out", pname))
        elif t == fpfx + "_t":
            out.append(("fld_out_ignored", pname))
        else:
            raise TranslationError("unsupported parameter %r" % (pr,))
    return out


def macro_bodies(pp_text):
    res = {}
    for m in re.finditer(r"^#define (TMPL_[A-Z0-9_]+)\(C,F\) (.*)$", pp_text, flags=re.M):
        res[m.group(1)] = m.group(2)
    return res


def c_functions(pp_text, names):
    """extract plain C function definitions `void NAME(...) { ... }` by brace matching"""
    res = {}
    for n in names:
        m = re.search(r"^(?:static )?void %s\([^;{]*\)\s*\{" % re.escape(n), pp_text, flags=re.M)
        if not m:
            continue
        i = m.end() - 1
        depth, j = 0, i
        while True:
            if pp_text[j] == "{":
                depth += 1
            elif pp_text[j] == "}":
                depth -= 1
                if depth == 0:
                    break
            j += 1
        res[n] = pp_text[m.start():j + 1]
    return res


HEADER = """/-
GENERATED by tools/translate.py from the current /repo working tree — do not edit, not committed.
%s
-/
import RelicVerif.Model.FormulaBase

namespace Relic.Gen
open Relic.Model.Formula

"""


def gen_ep_formulas(incdirs, out_path, cpfx="ep", fpfx="fp"):
    """the add / dbl templates instantiated for (cpfx, fpfx) and the public wrappers of relic_ep_add.c / relic_ep_dbl.c"""
    obligations, failures, defs = [], [], []
    src_add = os.path.join(REPO, "src/tmpl/relic_ep_add_tmpl.h")
    src_dbl = os.path.join(REPO, "src/tmpl/relic_ep_dbl_tmpl.h")
    macros = {}
    for s in (src_add, src_dbl):
        macros.update(macro_bodies(preprocess(s, incdirs)))
    cfiles = {"add": os.path.join(REPO, "src/%s/relic_%s_add.c" % (cpfx if cpfx == "ep" else "epx", cpfx)),
              "dbl": os.path.join(REPO, "src/%s/relic_%s_dbl.c" % (cpfx if cpfx == "ep" else "epx", cpfx))}
    # order matters: callees first
    order = [("TMPL_DBL_BASIC_IMP", "dbl"), ("dbl_basic", "dbl"), ("TMPL_DBL_PROJC_IMP", "dbl"), ("dbl_projc", "dbl"),
             ("TMPL_DBL_JACOB_IMP", "dbl"), ("dbl_jacob", "dbl"),
             ("TMPL_ADD_BASIC_IMP", "add"), ("add_basic", "add"), ("TMPL_ADD_PROJC_MIX", "add"), ("TMPL_ADD_PROJC_IMP", "add"),
             ("add_projc", "add"), ("TMPL_ADD_JACOB_MIX", "add"), ("TMPL_ADD_JACOB_IMP", "add"), ("add_jacob", "add")]
    pp_c = {k: re.sub(r"/\*.*?\*/", "", preprocess(v, incdirs), flags=re.S) for k, v in cfiles.items()}
    # the .c files must instantiate the templates with exactly (cpfx, fpfx)
    for mname, which in order:
        if mname.startswith("TMPL_") and not re.search(r"%s\(%s, %s\)" % (mname, cpfx, fpfx), open(cfiles[which]).read()):
            failures.append("%s is not instantiated as %s(%s, %s) in %s" % (mname, mname, cpfx, fpfx, cfiles[which]))
    known = {}
    for item, which in order:
        try:
            if item.startswith("TMPL_"):
                text = macros.get(item)
                if text is None:
                    raise TranslationError("macro %s not found (configuration does not define it)" % item)
                text = re.sub(r"\bC ## ?_", cpfx + "_", text)
                text = re.sub(r"\bF ## ?_", fpfx + "_", text)
                text = text.replace("C ##_", cpfx + "_").replace("F ##_", fpfx + "_")
                srcfile = src_add if "ADD" in item else src_dbl
            else:
                cname = "%s_%s" % (cpfx, item)
                fn = c_functions(pp_c[which], [cname])
                if cname not in fn:
                    raise TranslationError("function %s not found" % cname)
                text = fn[cname]
                srcfile = cfiles[which]
            name, params, body = parse_function(text)
            em = Emitter(name, fpfx, cpfx, classify_params(params, cpfx, fpfx), known)
            lean = em.translate(body)
            h = hashlib.sha256(text.encode()).hexdigest()[:16]
            defs.append("/-- %s, from %s (sha256 %s, %d field operations on the longest listing) -/\n%s" % (
                name, os.path.relpath(srcfile, REPO), h, em.lines, lean))
            known[name] = (name, len([p for p in em.params if p[0] == "pt_in"]))
            obligations.append({"c_function": name, "file": os.path.relpath(srcfile, REPO), "sha256": h, "lean_def": "Relic.Gen." + name,
                                "ok": True})
        except TranslationError as e:
            failures.append("translation of %s failed: %s" % (item, e))
            obligations.append({"c_function": item, "ok": False, "error": str(e)})
    import relicbuild
    relicbuild.write_if_changed(out_path, (HEADER % ("source: src/tmpl/relic_ep_add_tmpl.h, src/tmpl/relic_ep_dbl_tmpl.h, src/%s/relic_%s_add.c, relic_%s_dbl.c" % (
        "ep" if cpfx == "ep" else "epx", cpfx, cpfx))) + "\n".join(defs) + "\nend Relic.Gen\n")
    return {"obligations": obligations, "failures": failures}


def generate_all(base_build_dir):
    """regenerate every Gen/*.lean from the current tree; returns {"groups": {name: {"obligations": [...], "failures": [...]}}}"""
    inc = [os.path.join(base_build_dir, "include"), os.path.join(REPO, "include"), os.path.join(REPO, "include", "low"),
           os.path.join(REPO, "src", "tmpl")]
    gen_dir = os.path.join(VERIF, "lean", "RelicVerif", "Gen")
    groups = {}
    ep = {"obligations": [], "failures": []}
    try:
        r = gen_ep_formulas(inc, os.path.join(gen_dir, "EpFormulas.lean"))
        ep["obligations"] += r["obligations"]
        ep["failures"] += r["failures"]
    except TranslationError as e:
        ep["failures"].append("translator: %s" % e)
    groups["ep"] = ep
    ep2 = {"obligations": [], "failures": []}
    try:
        r = gen_ep_formulas(inc, os.path.join(gen_dir, "Ep2Formulas.lean"), cpfx="ep2", fpfx="fp2")
        ep2["obligations"] += r["obligations"]
        ep2["failures"] += r["failures"]
    except TranslationError as e:
        ep2["failures"].append("translator: %s" % e)
    groups["ep2"] = ep2
    import translate_params
    pr = translate_params.generate(base_build_dir)
    groups["params"] = {"obligations": pr["obligations"], "failures": pr["failures"]}
    import translate_ct
    groups["ct"] = translate_ct.generate(gen_dir)
    # tower formulas of src/fpx (property C10)
    try:
        import translate_fpx
        fr = translate_fpx.generate()
        groups["fpx"] = {"obligations": fr["obligations"], "failures": fr["failures"]}
    except Exception as e:  # noqa: BLE001
        groups["fpx"] = {"obligations": [], "failures": ["translate_fpx: %r" % (e,)]}
    # Edwards formulas (C17): translated from the 255-bit configurations
    try:
        import translate_ed
        er = translate_ed.generate()
        groups["ed"] = {"obligations": er["obligations"], "failures": er["failures"]}
    except Exception as e:  # noqa: BLE001
        groups["ed"] = {"obligations": [], "failures": ["Edwards translator: %r" % (e,)]}
    # final exponentiation of embedding degree 12 (C04): chains, dispatcher, fp12_conv_cyc
    try:
        import translate_pp
        pr2 = translate_pp.generate()
        groups["pp"] = {"obligations": pr2["obligations"], "failures": pr2["failures"]}
    except Exception as e:  # noqa: BLE001
        groups["pp"] = {"obligations": [], "failures": ["translate_pp: %r" % (e,)]}
    # line functions of the Miller loops (C04)
    try:
        import translate_ppline
        pl = translate_ppline.generate()
        groups["ppline"] = {"obligations": pl["obligations"], "failures": pl["failures"]}
    except Exception as e:  # noqa: BLE001
        groups["ppline"] = {"obligations": [], "failures": ["translate_ppline: %r" % (e,)]}
    # lookup tables of the table-driven AES (src/bc/rijndael-alg-fst.c)
    try:
        import translate_aes
        ar = translate_aes.generate()
        groups["aes"] = {"obligations": ar["obligations"], "failures": ar["failures"]}
    except Exception as e:  # noqa: BLE001
        groups["aes"] = {"obligations": [], "failures": ["translate_aes: %r" % (e,)]}
    # constants of the hash implementations (C14): K / H0 / IV / sigma tables, rotation amounts
    try:
        import translate_md
        mr = translate_md.generate()
        groups["md"] = {"obligations": mr["obligations"], "failures": mr["failures"]}
    except Exception as e:  # noqa: BLE001
        groups["md"] = {"obligations": [], "failures": ["translate_md: %r" % (e,)]}
    return {"groups": groups}


if __name__ == "__main__":
    sys.path.insert(0, TOOLS)
    import relicbuild as rb
    b, err = rb.build("base")
    inc = [os.path.join(b, "include"), os.path.join(REPO, "include"), os.path.join(REPO, "include", "low"), os.path.join(REPO, "src", "tmpl")]
    r = gen_ep_formulas(inc, os.path.join(VERIF, "lean", "RelicVerif", "Gen", "EpFormulas.lean"))
    for o in r["obligations"]:
        print(o)
    print("FAILURES:", r["failures"])
