#!/usr/bin/env python3
"""Translator for the Edwards formula code (property C17): the straight-line field code of src/ed/relic_ed_add.c,
relic_ed_dbl.c, relic_ed_neg.c, relic_ed_norm.c and ed_set_infty / ed_copy of relic_ed_util.c  ->  Lean definitions over the
operation record `FOps F`, regenerated from the C text of the current tree on every run (lean/RelicVerif/Gen/EdFormulas.lean).

Two things the prime-curve translator (translate.py) does not have:
  * ALIASING is part of the semantics: every function is emitted once per pattern of pointer equalities among its point
    parameters (`_a1`: r = p, `_a2`: r = q, `_a3`: p = q, `_a4`: r = p = q); in an aliased variant both C names denote one
    location, so a write through one name is seen by later reads through the other. Lemmas/EdFormulas.lean proves every aliased
    variant equal to the plain one by `rfl`; a formula that clobbers an operand it still needs breaks that proof.
  * the module is CONFIGURATION dependent (#if ED_ADD == EXTND inside ed_neg_projc, ed_set_infty, ed_copy, ed_norm_imp): the
    functions are translated from the preprocessed text of the EXTND build (namespace Relic.Gen.Ed) and of the PROJC build
    (namespace Relic.Gen.EdP); the BASIC build must preprocess to the same text as the PROJC build (checked: an obligation).

Accepted fragment: fp_* calls on point fields / temporaries / the constants core_get()->ed_a, ed_d; assignments to ->coord;
calls of already translated point functions; `if` on ed_is_infty(p), p->coord ==/!= C, pointer equality of two parameters
(decided statically per alias pattern), an `int` parameter (specialised to the constant given in SPECIALISE); `return`; the
RLC_TRY scaffolding. Anything else is a translation failure (a broken obligation, never a silent pass).
"""
import hashlib, os, re, sys

TOOLS = os.path.dirname(os.path.abspath(__file__))
VERIF = os.path.dirname(TOOLS)
sys.path.insert(0, TOOLS)
import translate as T      # noqa: E402  (tokenizer, parser, function extraction)
import relicbuild as rb    # noqa: E402

FIELDS = ("x", "y", "z", "t", "coord")
COORD = {"BASIC": "ECoord.basic", "PROJC": "ECoord.projc", "EXTND": "ECoord.extnd"}
FIELD_BIN = {"add": "add", "sub": "sub", "mul": "mul"}
FIELD_UN = {"sqr": "sqr", "dbl": "dbl", "neg": "neg", "hlv": "hlv", "inv": "inv"}
SPECIALISE = {"ed_norm_imp": {"inverted": 0}}

# (function, file) — callees first
FUNCS = [("ed_set_infty", "relic_ed_util.c"), ("ed_copy", "relic_ed_util.c"),
         ("ed_neg_basic", "relic_ed_neg.c"), ("ed_neg_projc", "relic_ed_neg.c"),
         ("ed_add_basic", "relic_ed_add.c"), ("ed_add_projc", "relic_ed_add.c"), ("ed_add_extnd", "relic_ed_add.c"),
         ("ed_sub_basic", "relic_ed_add.c"), ("ed_sub_projc", "relic_ed_add.c"), ("ed_sub_extnd", "relic_ed_add.c"),
         ("ed_dbl_basic", "relic_ed_dbl.c"), ("ed_dbl_projc", "relic_ed_dbl.c"), ("ed_dbl_extnd", "relic_ed_dbl.c"),
         ("ed_norm_imp", "relic_ed_norm.c"), ("ed_norm", "relic_ed_norm.c")]


def alias_patterns(pts):
    """pts: the point parameters in C order, output first. Returns [(suffix, {name: canonical})]"""
    if len(pts) == 1:
        return [("", {})]
    if len(pts) == 2:
        r, p = pts
        return [("", {}), ("_a1", {r: p})]
    r, p, q = pts
    return [("", {}), ("_a1", {r: p}), ("_a2", {r: q}), ("_a3", {q: p}), ("_a4", {r: p, q: p})]


def call_suffix(args):
    """alias pattern of a call site: args = canonical names of the point arguments, output first"""
    if len(args) == 2:
        return "_a1" if args[0] == args[1] else ""
    if len(args) == 3:
        r, p, q = args
        if r == p == q:
            return "_a4"
        if r == p:
            return "_a1"
        if r == q:
            return "_a2"
        if p == q:
            return "_a3"
    return ""


class Emitter:
    def __init__(self, name, pts, ints, amap, known):
        self.name, self.pts, self.ints, self.amap, self.known = name, pts, ints, amap, known
        self.counter = {}
        self.lines = 0
        self.locals = set()

    def canon(self, n):
        return self.amap.get(n, n)

    def fresh(self, base):
        base = re.sub(r"[^A-Za-z0-9]", "_", base)
        n = self.counter.get(base, 0) + 1
        self.counter[base] = n
        return "%s_%d" % (base, n)

    def lv(self, e):
        if e[0] == "id":
            return e[1]
        if e[0] == "mem" and e[1][0] == "id":
            return "%s->%s" % (self.canon(e[1][1]), e[2])
        raise T.TranslationError("%s: unsupported lvalue %r" % (self.name, e))

    def rv(self, e, env):
        if e[0] == "mem" and e[1][0] == "call" and e[1][1] == "core_get" and e[2] in ("ed_a", "ed_d"):
            return "cv." + e[2][-1]
        if e[0] in ("id", "mem"):
            k = self.lv(e)
            if k not in env:
                raise T.TranslationError("%s: read of %s before any assignment (uninitialised temporary?)" % (self.name, k))
            return env[k]
        if e[0] == "num":
            return "(o.ofNat %d)" % e[1]
        raise T.TranslationError("%s: unsupported operand %r" % (self.name, e))

    def static(self, e):
        """True / False when the condition is decided by the alias pattern or a specialised int parameter, else None"""
        if e[0] == "id" and e[1] in self.ints:
            return self.ints[e[1]] != 0
        if e[0] == "not":
            s = self.static(e[1])
            return None if s is None else (not s)
        if e[0] in ("==", "!=") and e[1][0] == "id" and e[2][0] == "id" and e[1][1] in self.pts and e[2][1] in self.pts:
            eq = self.canon(e[1][1]) == self.canon(e[2][1])
            return eq if e[0] == "==" else (not eq)
        return None

    def cond(self, e, env):
        if e[0] == "not":
            return "¬ %s" % self.cond(e[1], env)
        if e[0] in ("==", "!="):
            a, b = e[1], e[2]
            if a[0] == "mem" and a[2] == "coord" and b[0] == "id" and b[1] in COORD:
                s = "%s = %s" % (self.rv(a, env), COORD[b[1]])
                return "¬ (%s)" % s if e[0] == "!=" else "(%s)" % s
        if e[0] == "call" and e[1] == "ed_is_infty":
            return "(EPt.isInfty o %s = true)" % self.point_of(self.canon(e[2][0][1]), env)
        raise T.TranslationError("%s: unsupported condition %r" % (self.name, e))

    def point_of(self, pname, env):
        return "(EPt.mk %s)" % " ".join(env[pname + "->" + f] for f in FIELDS)

    def emit(self, stmts, env, ind):
        pad = "  " * ind
        if not stmts:
            return pad + self.point_of(self.canon(self.pts[0]), env)
        s, rest = stmts[0], stmts[1:]
        if s[0] == "return":
            return pad + self.point_of(self.canon(self.pts[0]), env)
        if s[0] == "if":
            st = self.static(s[1])
            if st is not None:
                return self.emit((s[2] if st else s[3]) + rest, env, ind)
            c = self.cond(s[1], env)
            return "%sif %s then\n%s\n%selse\n%s" % (pad, c, self.emit(s[2] + rest, dict(env), ind + 1), pad,
                                                     self.emit(s[3] + rest, dict(env), ind + 1))
        if s[0] == "assign":
            k = self.lv(s[1])
            env = dict(env)
            if k.endswith("->coord"):
                if s[2][0] == "id" and s[2][1] in COORD:
                    env[k] = COORD[s[2][1]]
                    return self.emit(rest, env, ind)
                if s[2][0] == "mem" and s[2][2] == "coord":
                    env[k] = self.rv(s[2], env)
                    return self.emit(rest, env, ind)
            raise T.TranslationError("%s: unsupported assignment %r" % (self.name, s))
        if s[0] == "expr" and s[1][0] == "call":
            fn, args = s[1][1], s[1][2]
            env = dict(env)
            if fn.startswith("fp_"):
                op = fn[3:]
                if op in ("new", "null", "free"):
                    return self.emit(rest, env, ind)
                self.lines += 1
                dst = self.lv(args[0])
                if op in FIELD_BIN:
                    val = "o.%s %s %s" % (FIELD_BIN[op], self.rv(args[1], env), self.rv(args[2], env))
                elif op in FIELD_UN:
                    val = "o.%s %s" % (FIELD_UN[op], self.rv(args[1], env))
                elif op == "copy":
                    val = self.rv(args[1], env)
                elif op == "zero":
                    val = "o.zero"
                elif op == "set_dig":
                    val = self.rv(args[1], env)
                elif op in ("add_dig", "sub_dig", "mul_dig"):
                    val = "o.%s %s %s" % (op[:3], self.rv(args[1], env), self.rv(args[2], env))
                else:
                    raise T.TranslationError("%s: unsupported field operation %s" % (self.name, fn))
                name = self.fresh(dst)
                env[dst] = name
                return "%slet %s := %s\n%s" % (pad, name, val, self.emit(rest, env, ind))
            if fn in ("ed_new", "ed_null", "ed_free"):
                if fn == "ed_new" or fn == "ed_null":
                    n = args[0][1]
                    if n not in self.locals:
                        self.locals.add(n)
                        for f in FIELDS:
                            env[n + "->" + f] = "(EPt.junk o).%s" % f
                return self.emit(rest, env, ind)
            if fn in self.known:
                pargs = [self.canon(a[1]) for a in args if a[0] == "id" and (a[1] in self.pts or a[1] in self.locals)]
                iargs = [a for a in args if a[0] == "num"]
                if len(pargs) + len(iargs) != len(args):
                    raise T.TranslationError("%s: unsupported arguments in call of %s" % (self.name, fn))
                want = SPECIALISE.get(fn, {})
                if [a[1] for a in iargs] != list(want.values()):
                    raise T.TranslationError("%s: call of %s with int arguments %r (translated for %r)" % (self.name, fn, iargs, want))
                suf = call_suffix(pargs)
                if suf == "" and len(set(pargs)) != len(pargs):
                    raise T.TranslationError("%s: unsupported alias pattern in call of %s" % (self.name, fn))
                # the variant's parameters: plain (r p q), _a1 (p q), _a2 (p q), _a3 (r p), _a4 (p); unary plain (r p), _a1 (p)
                if len(pargs) == 3:
                    r, p, q = pargs
                    order = {"": [r, p, q], "_a1": [p, q], "_a2": [p, q], "_a3": [r, p], "_a4": [p]}[suf]
                elif len(pargs) == 2:
                    r, p = pargs
                    order = {"": [r, p], "_a1": [p]}[suf]
                else:
                    order = pargs
                argtxt = " ".join(self.point_of(a, env) for a in order)      # values before the call
                name = self.fresh("pt_" + pargs[0])
                for f in FIELDS:
                    env[pargs[0] + "->" + f] = "%s.%s" % (name, f)
                self.lines += 1
                return "%slet %s := %s%s o cv %s\n%s" % (pad, name, fn, suf, argtxt, self.emit(rest, env, ind))
            raise T.TranslationError("%s: call of untranslated function %s" % (self.name, fn))
        raise T.TranslationError("%s: unsupported statement %r" % (self.name, s))

    def translate(self, body):
        env = {}
        params = []
        for p in self.pts:
            c = self.canon(p)
            if c == p:
                params.append(p)
                for f in FIELDS:
                    env[p + "->" + f] = "%s.%s" % (p, f)
        text = self.emit(body, env, 1)
        sig = " ".join("(%s : EPt F)" % p for p in params)
        return "def %s {F : Type} (o : FOps F) (cv : EdC F) %s : EPt F :=\n%s\n" % (self.name, sig, text)


class EdParser(T.Parser):
    """handler / finally bodies are skipped by brace matching (ed_add_projc has `RLC_THROW(ERR_CAUGHT)` without a semicolon there)"""

    def skip_block(self):
        self.eat("{")
        depth = 1
        while depth:
            t = self.eat()
            if t is None:
                raise T.TranslationError("unbalanced braces")
            depth += (t == "{") - (t == "}")

    def stmt(self):
        if self.peek() == "RLC_TRY":
            self.eat()
            body = self.block()
            while self.peek() in ("RLC_CATCH_ANY", "RLC_CATCH", "RLC_FINALLY"):
                if self.eat() == "RLC_CATCH":
                    self.eat("(")
                    self.expr()
                    self.eat(")")
                self.skip_block()
            return body
        return super().stmt()


def parse_function(text):
    p = EdParser(T.tokenize(text))
    while p.peek() in ("static", "void", "inline", "const"):
        p.eat()
    name = p.eat()
    p.eat("(")
    params, cur, depth = [], [], 0
    while True:
        t = p.eat()
        if t == "(":
            depth += 1
        if t == ")":
            if depth == 0:
                break
            depth -= 1
        if t == "," and depth == 0:
            params.append(cur)
            cur = []
        else:
            cur.append(t)
    if cur:
        params.append(cur)
    return name, params, p.block()


def split_params(params):
    pts, ints = [], []
    for pr in params:
        ty = [t for t in pr if t != "const"]
        if ty[0] == "ed_t":
            pts.append(ty[-1])
        elif ty[0] == "int":
            ints.append(ty[-1])
        else:
            raise T.TranslationError("unsupported parameter %r" % (pr,))
    return pts, ints


def translate_config(incdirs, repo):
    """returns ({fn: preprocessed text}, {fn: [lean defs]}, failures)"""
    texts, defs, failures, known, lines = {}, {}, [], {}, {}
    pp = {}
    for fn, f in FUNCS:
        try:
            if f not in pp:
                pp[f] = re.sub(r"/\*.*?\*/", "", T.preprocess(os.path.join(repo, "src/ed", f), incdirs), flags=re.S)
                pp[f] = re.sub(r"//[^\n]*", "", pp[f])
            got = T.c_functions(pp[f], [fn])
            if fn not in got:
                raise T.TranslationError("function %s not found in %s (not compiled in this configuration?)" % (fn, f))
            texts[fn] = re.sub(r"\s+", " ", got[fn]).strip()
            name, params, body = parse_function(got[fn])
            pts, ints = split_params(params)
            spec = SPECIALISE.get(fn, {})
            if sorted(spec) != sorted(ints):
                raise T.TranslationError("%s: int parameters %r without a specialisation" % (fn, ints))
            out = []
            for suf, amap in alias_patterns(pts):
                em = Emitter(fn + suf, pts, spec, amap, known)
                out.append(em.translate(body))
                lines[fn] = max(lines.get(fn, 0), em.lines)
            defs[fn] = out
            known[fn] = True
        except T.TranslationError as e:
            failures.append("translation of %s failed: %s" % (fn, e))
    return texts, defs, failures, lines


HEADER = """/-
GENERATED by tools/translate_ed.py from the current /repo working tree — do not edit, not committed.
source: src/ed/relic_ed_util.c (ed_set_infty, ed_copy), relic_ed_neg.c, relic_ed_add.c, relic_ed_dbl.c, relic_ed_norm.c
namespace Relic.Gen.Ed  : preprocessed in the EXTND build (ED_ADD == EXTND)
namespace Relic.Gen.EdP : preprocessed in the PROJC build (the BASIC build gives the same text: checked by the translator)
suffixes: _a1 r = p, _a2 r = q, _a3 p = q, _a4 r = p = q (pointer equalities among the point parameters)
-/
import RelicVerif.Model.EdFormulaBase

set_option linter.unusedVariables false

"""


def generate(repo=None, out_path=None):
    repo = repo or rb.REPO
    out_path = out_path or os.path.join(VERIF, "lean", "RelicVerif", "Gen", "EdFormulas.lean")
    obligations, failures = [], []
    res = {}
    for cfg in ("p255-extnd", "p255", "p255-basic"):
        b, err = rb.build(cfg)
        if b is None:
            failures.append("build of %s failed: %s" % (cfg, (err or "")[-300:]))
            continue
        inc = [os.path.join(b, "include"), os.path.join(repo, "include"), os.path.join(repo, "include", "low")]
        res[cfg] = translate_config(inc, repo)
        failures += ["[%s] %s" % (cfg, f) for f in res[cfg][2]]
    parts = [HEADER]
    for cfg, ns in (("p255-extnd", "Relic.Gen.Ed"), ("p255", "Relic.Gen.EdP")):
        if cfg not in res:
            continue
        texts, defs, _, lines = res[cfg]
        parts.append("namespace %s\nopen Relic.Model.Formula\n\n" % ns)
        for fn, f in FUNCS:
            if fn not in defs:
                obligations.append({"c_function": fn, "config": cfg, "ok": False})
                continue
            h = hashlib.sha256(texts[fn].encode()).hexdigest()[:16]
            parts.append("/-- %s, from src/ed/%s as preprocessed in %s (sha256 %s, %d field/point operations) -/\n" % (fn, f, cfg, h, lines[fn]))
            parts.append("\n".join(defs[fn]) + "\n")
            obligations.append({"c_function": fn, "config": cfg, "file": "src/ed/" + f, "sha256": h, "lean_def": "%s.%s" % (ns, fn),
                                "variants": len(defs[fn]), "ok": True})
        parts.append("end %s\n\n" % ns)
    # dispatch tables for the driver: (build is EXTND, C function, alias pattern) -> the translated variant, as a function of
    # (previous content of the destination, operands) returning the final content of the destination
    if "p255-extnd" in res and "p255" in res:
        bins, uns = [], []
        for cfg, ns, ext in (("p255-extnd", "Ed", "true"), ("p255", "EdP", "false")):
            for fn, _ in FUNCS:
                if fn not in res[cfg][1]:
                    continue
                n = len(res[cfg][1][fn])
                if n == 5:
                    for al, args in enumerate(["r p q", "p q", "p q", "r p", "p"]):
                        bins.append('  | %s, "%s", %d => some (fun o cv r p q => %s.%s%s o cv %s)' % (ext, fn, al, ns, fn, "_a%d" % al if al else "", args))
                elif n == 2:
                    for al, args in enumerate(["r p", "p"]):
                        uns.append('  | %s, "%s", %d => some (fun o cv r p => %s.%s%s o cv %s)' % (ext, fn, al, ns, fn, "_a%d" % al if al else "", args))
        parts.append("namespace Relic.Gen\nopen Relic.Model.Formula\n\n")
        parts.append("def edBin {F : Type} (ext : Bool) (fn : String) (al : Nat) : Option (FOps F → EdC F → EPt F → EPt F → EPt F → EPt F) :=\n"
                     "  match ext, fn, al with\n%s\n  | _, _, _ => none\n\n" % "\n".join(bins))
        parts.append("def edUn {F : Type} (ext : Bool) (fn : String) (al : Nat) : Option (FOps F → EdC F → EPt F → EPt F → EPt F) :=\n"
                     "  match ext, fn, al with\n%s\n  | _, _, _ => none\n\nend Relic.Gen\n" % "\n".join(uns))
    if "p255" in res and "p255-basic" in res:
        for fn, _ in FUNCS:
            same = res["p255"][0].get(fn) == res["p255-basic"][0].get(fn) and fn in res["p255"][0]
            obligations.append({"c_function": fn, "check": "BASIC build preprocesses to the text of the PROJC build", "ok": bool(same)})
            if not same:
                failures.append("%s: the BASIC build's text differs from the PROJC build's (Relic.Gen.EdP does not describe it)" % fn)
    os.makedirs(os.path.dirname(out_path), exist_ok=True)
    new = "".join(parts)
    if failures and os.path.exists(out_path):
        # keep the previous file: the driver of EVERY property imports it, and a tree whose Edwards code cannot be translated must
        # break C17 (through `failures`), not the build of the other properties' driver
        return {"obligations": obligations, "failures": failures}
    if not (os.path.exists(out_path) and open(out_path).read() == new):
        __import__("relicbuild").write_if_changed(out_path, new)
    return {"obligations": obligations, "failures": failures}


if __name__ == "__main__":
    r = generate()
    for o in r["obligations"]:
        print(o)
    print("FAILURES:", r["failures"])
