#!/bin/sh
# Build and run selected pinned tests (guard off) from /repo's working tree in a scratch build dir.
# usage: tools/repo_test.sh test_bn [test_fp ...]
set -e
D=/var/tmp/relic-test/build
mkdir -p $D
cd $D
[ -f build.ninja ] || CFLAGS="-O2 -Wno-error -w" cmake -G Ninja -S /repo -B $D -DTESTS=100 -DBENCH=0 -DDOCUM=off -DSHLIB=off -DVERBS=off >/dev/null 2>&1
for t in "$@"; do
  cmake --build $D --target $t -j16 >/dev/null
  echo "== $t"; ./bin/$t > $D/$t.log 2>&1 && echo PASS || { echo FAIL; grep -n "FAIL\|ERROR" $D/$t.log | head; }
done
