"""C02 — prime-field arithmetic realises Z/pZ with canonical results."""
import subprocess
from props.bngen import window_digits, hx

TRUSTED = [
    "class A (modelled at digit level and proved): fp_addm/subm/negm/dblm/hlvm, Montgomery reduction fp_rdcn_low, fp_mulm/fp_sqrm, conversions",
    "class C (compared with the Z/pZ specification only, not modelled): the seven inversion algorithms, the symbol algorithms, fp_exp_*, "
    "fp_srt (Tonelli-Shanks etc.), fp_crt, fp_*_dig; their results are pinned by a*c = 1, r*r = a, Euler's criterion",
    "the field context (p, u, conv, qnr) is read from the running library; its defining equations are evaluated by the driver and the "
    "source tables are checked in C18",
]
ASSUMPTIONS = ["FP_RDC = MONTY (the pinned configuration); the sparse-prime QUICK reduction is not the active path"]
RULE = ("for each selectable prime: residues 0, 1, 2, p-1, p-2, (p±1)/2, values whose Montgomery form has zero / all-ones digits, small values, "
        "non-residues, uniform residues; exponents 0, ±1, p-1, p, negative, longer than p; all algorithm variants by name; out==in aliasing; raw "
        "digit-level calls with structured digits; non-trivial = distinct line with a non-error result")

PRIMES = {"base": [14, 15, 16, 17, 27, 28]}   # NIST_256, BSI_256, SECG_256, SM2_256, BN_256, SM9_256 (ids printed by the library)

FP2 = ["add", "add_basic", "add_integ", "sub", "sub_basic", "sub_integ", "mul", "mul_basic", "mul_comba", "mul_integ", "mul_karat"]
FP1 = ["neg", "neg_basic", "neg_integ", "dbl", "dbl_basic", "dbl_integ", "hlv", "hlv_basic", "hlv_integ", "sqr", "sqr_basic", "sqr_comba",
       "sqr_integ", "sqr_karat", "inv", "inv_basic", "inv_binar", "inv_monty", "inv_exgcd", "inv_divst", "inv_jmpds", "inv_lower",
       "srt", "smb", "smb_basic", "smb_binar", "smb_divst", "smb_jmpds", "smb_lower", "is_sqr"]
FPE = ["exp", "exp_basic", "exp_slide", "exp_monty"]
FPD = ["add_dig", "sub_dig", "mul_dig", "set_dig", "exp_dig"]
RAW = ["addm", "subm", "negm", "dblm", "hlvm", "mulm", "sqrm", "rdcn", "muln", "sqrn"]


def residue(rng, p, R, w, n):
    k = rng.below(14)
    B = 1 << w
    if k == 0:
        return 0
    if k == 1:
        return rng.choice([1, 2, 3, 4])
    if k == 2:
        return p - rng.choice([1, 2, 3])
    if k == 3:
        return (p + rng.choice([-1, 1])) // 2
    if k in (4, 5):
        # Montgomery form with structured digits: solve x*R = pattern (mod p)
        pat = 0
        if rng.chance(1, 2):
            pat = window_digits(rng, w, n)
        else:
            for i in range(n):
                pat |= rng.choice([0, B - 1, 1, B >> 1, rng.bits(w)]) << (i * w)
        pat %= p
        return pat * pow(R, -1, p) % p
    if k == 6:
        return rng.bits(rng.choice([8, 32, 64, 65, 128]))
    return rng.bits(n * w + 8) % p


def rawval(rng, p, w, n):
    B = 1 << w
    k = rng.below(6)
    if k == 0:
        return rng.choice([0, 1, p - 1, p - 2])
    v = 0
    if k == 1:
        return window_digits(rng, w, n) % p
    for i in range(n):
        v |= rng.choice([0, B - 1, 1, B >> 1, rng.bits(w), rng.bits(w)]) << (i * w)
    return v % p


def gen_lines(rng, p, w, n, count):
    R = 1 << (w * n)
    out = []
    for _ in range(count):
        k = rng.below(100)
        if k < 25:
            a, b = residue(rng, p, R, w, n), residue(rng, p, R, w, n)
            if rng.chance(1, 6):
                b = rng.choice([a, p - a if a else 0])
            out.append("fp2 %s %d %x %x" % (rng.choice(FP2), rng.below(5), a, b))
        elif k < 55:
            op = rng.choice(FP1)
            a = residue(rng, p, R, w, n)
            if op == "srt" and rng.chance(1, 2):
                a = a * a % p
            out.append("fp1 %s %d %x" % (op, rng.below(2), a))
        elif k < 65:
            a = residue(rng, p, R, w, n)
            e = rng.choice([0, 1, -1, 2, p - 1, p, p - 2, -(p - 2), rng.bits(256), -rng.bits(100), rng.bits(300), rng.bits(10)])
            out.append("fpe %s %d %x %s" % (rng.choice(FPE), rng.below(2), a, hx(e)))
        elif k < 72:
            out.append("fpd %s %d %x %x" % (rng.choice(FPD), rng.below(2), residue(rng, p, R, w, n),
                                          rng.choice([0, 1, 2, 3, (1 << w) - 1, 1 << (w - 1), rng.bits(w), rng.bits(5)])))
        elif k < 92:
            op = rng.choice(RAW)
            a, b = rawval(rng, p, w, n), rawval(rng, p, w, n)
            if op == "rdcn":
                t = rng.choice([a * b, p * R - 1, (p - 1) * (p - 1), rng.bits(2 * n * w) % (p * R), a << (w * n), a])
                out.append("fpraw rdcn 0 %x 0" % t)
            else:
                out.append("fpraw %s %d %x %x" % (op, rng.below(2) if op not in ("muln", "sqrn", "rdcn") else 0, a, b))
        elif k < 96:
            nb = n * w // 8
            v = rng.choice([0, 1, p - 1, p, p + 1, (1 << (8 * nb)) - 1, rng.bits(8 * nb)])
            ln = rng.choice([nb, nb, nb, nb - 1, nb + 1, 0])
            h = ("%0*x" % (2 * ln, v % (1 << (8 * ln)))) if ln else "."
            out.append("fp_read_bin %s" % h)
        else:
            nb = n * w // 8
            out.append("fp_write_bin %d %x" % (rng.choice([nb, nb, nb - 1, nb + 1, 0]), residue(rng, p, R, w, n)))
    return out


def _exe(ctx, cfg="base"):
    return ctx.oracle(cfg, defs=("ORACLE_FP",), sources=("oracle.c", "ops_bn.c", "ops_fp.c"), tag="_fp")


def root_sweep(rng, p, count):
    """the value-producing unary functions that are not modelled digit by digit (roots, inverses): each on squares / cubes / arbitrary
    residues with the result in a separate object and written over the operand, for every prime (the algorithm depends on p mod 8 / 9)"""
    out = []
    for _ in range(count):
        a = rng.choice([rng.bits(256) % p, rng.bits(64), p - 1 - rng.bits(8), 2, 3, 4])
        for alias in (0, 1):
            out.append("fp1 srt %d %x" % (alias, a * a % p))
            out.append("fp1 srt %d %x" % (alias, a % p))
            out.append("fp1 crt %d %x" % (alias, pow(a, 3, p)))
            out.append("fp1 crt %d %x" % (alias, a % p))
            out.append("fp1 %s %d %x" % (rng.choice(["inv", "inv_basic", "inv_binar", "inv_monty", "inv_exgcd", "inv_divst", "inv_lower"]), alias,
                                         a % p))
    return out


def _param(exe, pid):
    out = subprocess.run([exe], input="fp_param %d\n" % pid, stdout=subprocess.PIPE, stderr=subprocess.DEVNULL, text=True, timeout=60).stdout
    kv = dict(t.split("=") for t in out.split()[1:] if "=" in t)
    return kv


def streams(ctx, scale=1):
    per = (700 if ctx.tier == "quick" else 30000) * scale
    res = []
    for cfg, ids in PRIMES.items():
        exe = _exe(ctx, cfg)
        lines = ["cfg"]
        for pid in ids:
            kv = _param(exe, pid)
            if "p" not in kv:
                continue
            p = int(kv["p"], 16)
            lines.append("fp_param %d" % pid)
            lines += root_sweep(ctx.rng, p, 12 * scale)
            lines += gen_lines(ctx.rng, p, 64, int(kv["digs"]), per)
        res.append({"name": "fp-" + cfg, "cfg": cfg, "exe": exe, "lines": lines})
    return res


def search_streams(ctx, mfail):
    return streams(ctx, scale=4)


def replay_streams(ctx, rp):
    cfg = rp.get("config", "base")
    return [{"name": "replay", "cfg": cfg, "exe": _exe(ctx, cfg), "lines": ["cfg"] + rp.get("context_lines", []) + rp.get("op_lines", [])}]


def nontrivial(r):
    return not r["got"].startswith("err")


def matches_finding(f, r):
    t = r["line"].split()
    if f.get("pred") == "exp_slide_long" and t[0] == "fpe" and t[1] in ("exp", "exp_slide"):
        e = t[4].lstrip("-")
        return int(e, 16).bit_length() > 257 and r["got"] == "err"
    return False
