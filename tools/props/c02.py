"""C02 — prime-field arithmetic realises Z/pZ with canonical results."""
import subprocess
from props.bngen import window_digits, hx

TRUSTED = [
    "class A (modelled at digit level and proved, Model/Fp + Lemmas/Fp): fp_addm/subm/negm/dblm/hlvm, Montgomery reduction fp_rdcn_low, "
    "fp_mulm/fp_sqrm, conversions",
    "class A (modelled at value level over [0,p) with the loops, windows, tables, branches, Montgomery-domain conversions and error "
    "conditions of the C function, Model/FpAlg, Model/FpAlgCrt; proved for every input in Props/C02B; the model's prediction is the model column of every "
    "presented line): fp_exp_basic, fp_exp_slide (odd-power table + bn_rec_slw windows, refusal of exponents longer than RLC_FP_BITS+1 "
    "bits), fp_exp_monty (ladder with conditional swaps), fp_exp_dig, the sign handling of negative exponents through fp_inv; "
    "fp_inv_monty (Kaliski phase 1, reduction of x1, phase 2 with 2^(2m-k)), fp_inv_binar, fp_inv_exgcd, fp_inv_basic, fp_inv_lower / "
    "fp_invm_low, fp_inv_sim (every list length >= 1, zero element -> error of fp_inv); fp_smb_basic / fp_smb_lower (Euler) = Legendre "
    "symbol; fp_srt (p = 3 mod 4 branch and the constant-time Tonelli-Shanks branch, which covers p = 5 mod 8) and fp_is_sqr; the three "
    "one-exponentiation branches of fp_crt (p = 2 mod 3, p = 4 mod 9, p = 7 mod 9). The models treat "
    "fp_mul / fp_sqr / fp_neg as the Z/pZ operation (proved at digit level above) - the composition is by value, not by digits",
    "fp_is_sqr and the flag of the Tonelli-Shanks branch of fp_srt call fp_smb = fp_smb_jmpds (FP_SMB = JMPDS), which is not modelled: the "
    "model evaluates Euler's criterion instead, so on those lines the tie pins the value of fp_smb_jmpds, not its algorithm",
    "class C (compared with the Z/pZ specification only, not modelled): fp_inv_divst, fp_inv_jmpds (Bernstein-Yang divsteps), fp_smb_binar "
    "(Pornin), fp_smb_divst, fp_smb_jmpds, the general (p = 1 mod 9, cubic Tonelli-Shanks) branch of fp_crt and fp_is_cub, fp_add_dig / sub_dig / mul_dig; pinned by a*c = 1, Euler's criterion, r^3 = a",
    "the Tonelli-Shanks loop is proved for every 2-adicity f, but the primes of the verified configurations only exercise f <= 2 (one "
    "iteration without inner squarings); deeper iterations of the C loop are covered by the theorem about the model, not by the tie",
    "the field context (p, u, conv, qnr, RLC_FP_BITS, RLC_WIDTH, 2-adicity, root of unity of fp_srt) is read from the running library; its "
    "defining equations - which are the hypotheses Ctx.WF / Ctx.WFsrt of the theorems - are evaluated by the driver on every fp_param "
    "line and the source tables are checked in C18",
]
ASSUMPTIONS = ["FP_RDC = MONTY (the pinned configuration); the sparse-prime QUICK reduction is not the active path",
               "FP_EXP = SLIDE, FP_INV = MONTY (the pinned configuration): the models of fp_exp / fp_inv used inside fp_inv_basic, fp_srt, "
               "fp_smb_basic, fp_inv_sim and the negative-exponent path are the sliding-window and Kaliski models",
               "primality of the six moduli is C18's subject (Pratt certificates); the theorems here take p.Prime as a hypothesis"]
RULE = ("for each selectable prime: residues 0, 1, 2, p-1, p-2, (p±1)/2, values whose Montgomery form has zero / all-ones digits, small values, "
        "non-residues, uniform residues; exponents 0, ±1, shorter than the window, all-ones, sparse, p-2 .. p+1, RLC_FP_BITS and RLC_FP_BITS+1 "
        "bits, longer, negative of each; every variant of exponentiation / inversion / symbol by name; inversion operands with tiny / power-of-two "
        "Montgomery form (both phase-2 branches of Kaliski); fp_inv_sim of every length 1..9, 16, 17, 24 with a zero in every position class, "
        "in place; out==in aliasing; raw digit-level calls with structured digits; non-trivial = distinct line with a non-error result")
EXTRA_THEOREM_MODULES = ["RelicVerif.Props.C02B"]

PRIMES = {"base": [14, 15, 16, 17, 27, 28]}   # NIST_256, BSI_256, SECG_256, SM2_256, BN_256, SM9_256 (ids printed by the library)

FP2 = ["add", "add_basic", "add_integ", "sub", "sub_basic", "sub_integ", "mul", "mul_basic", "mul_comba", "mul_integ", "mul_karat"]
FP1 = ["neg", "neg_basic", "neg_integ", "dbl", "dbl_basic", "dbl_integ", "hlv", "hlv_basic", "hlv_integ", "sqr", "sqr_basic", "sqr_comba",
       "sqr_integ", "sqr_karat", "inv", "inv_basic", "inv_binar", "inv_monty", "inv_exgcd", "inv_divst", "inv_jmpds", "inv_lower",
       "srt", "smb", "smb_basic", "smb_binar", "smb_divst", "smb_jmpds", "smb_lower", "is_sqr"]
FPE = ["exp", "exp_basic", "exp_slide", "exp_monty"]
FPD = ["add_dig", "sub_dig", "mul_dig", "set_dig", "exp_dig"]
RAW = ["addm", "subm", "negm", "dblm", "hlvm", "mulm", "sqrm", "rdcn", "muln", "sqrn"]


def residue(rng, p, R, w, n):
    k = rng.below(14)
    B = 1 << w
    if k == 0:
        return 0
    if k == 1:
        return rng.choice([1, 2, 3, 4])
    if k == 2:
        return p - rng.choice([1, 2, 3])
    if k == 3:
        return (p + rng.choice([-1, 1])) // 2
    if k in (4, 5):
        # Montgomery form with structured digits: solve x*R = pattern (mod p)
        pat = 0
        if rng.chance(1, 2):
            pat = window_digits(rng, w, n)
        else:
            for i in range(n):
                pat |= rng.choice([0, B - 1, 1, B >> 1, rng.bits(w)]) << (i * w)
        pat %= p
        return pat * pow(R, -1, p) % p
    if k == 6:
        return rng.bits(rng.choice([8, 32, 64, 65, 128]))
    return rng.bits(n * w + 8) % p


def rawval(rng, p, w, n):
    B = 1 << w
    k = rng.below(6)
    if k == 0:
        return rng.choice([0, 1, p - 1, p - 2])
    v = 0
    if k == 1:
        return window_digits(rng, w, n) % p
    for i in range(n):
        v |= rng.choice([0, B - 1, 1, B >> 1, rng.bits(w), rng.bits(w)]) << (i * w)
    return v % p


def gen_lines(rng, p, w, n, count):
    R = 1 << (w * n)
    out = []
    for _ in range(count):
        k = rng.below(100)
        if k < 25:
            a, b = residue(rng, p, R, w, n), residue(rng, p, R, w, n)
            if rng.chance(1, 6):
                b = rng.choice([a, p - a if a else 0])
            out.append("fp2 %s %d %x %x" % (rng.choice(FP2), rng.below(5), a, b))
        elif k < 55:
            op = rng.choice(FP1)
            a = residue(rng, p, R, w, n)
            if op == "srt" and rng.chance(1, 2):
                a = a * a % p
            out.append("fp1 %s %d %x" % (op, rng.below(2), a))
        elif k < 65:
            a = residue(rng, p, R, w, n)
            e = rng.choice([0, 1, -1, 2, p - 1, p, p - 2, -(p - 2), rng.bits(256), -rng.bits(100), rng.bits(300), rng.bits(10)])
            out.append("fpe %s %d %x %s" % (rng.choice(FPE), rng.below(2), a, hx(e)))
        elif k < 72:
            out.append("fpd %s %d %x %x" % (rng.choice(FPD), rng.below(2), residue(rng, p, R, w, n),
                                          rng.choice([0, 1, 2, 3, (1 << w) - 1, 1 << (w - 1), rng.bits(w), rng.bits(5)])))
        elif k < 92:
            op = rng.choice(RAW)
            a, b = rawval(rng, p, w, n), rawval(rng, p, w, n)
            if op == "rdcn":
                t = rng.choice([a * b, p * R - 1, (p - 1) * (p - 1), rng.bits(2 * n * w) % (p * R), a << (w * n), a])
                out.append("fpraw rdcn 0 %x 0" % t)
            else:
                out.append("fpraw %s %d %x %x" % (op, rng.below(2) if op not in ("muln", "sqrn", "rdcn") else 0, a, b))
        elif k < 96:
            nb = n * w // 8
            v = rng.choice([0, 1, p - 1, p, p + 1, (1 << (8 * nb)) - 1, rng.bits(8 * nb)])
            ln = rng.choice([nb, nb, nb, nb - 1, nb + 1, 0])
            h = ("%0*x" % (2 * ln, v % (1 << (8 * ln)))) if ln else "."
            out.append("fp_read_bin %s" % h)
        else:
            nb = n * w // 8
            out.append("fp_write_bin %d %x" % (rng.choice([nb, nb, nb - 1, nb + 1, 0]), residue(rng, p, R, w, n)))
    return out


def _exe(ctx, cfg="base"):
    return ctx.oracle(cfg, defs=("ORACLE_FP",), sources=("oracle.c", "ops_bn.c", "ops_fp.c"), tag="_fp")


def root_sweep(rng, p, count):
    """the value-producing unary functions that are not modelled digit by digit (roots, inverses): each on squares / cubes / arbitrary
    residues with the result in a separate object and written over the operand, for every prime (the algorithm depends on p mod 8 / 9)"""
    out = []
    for _ in range(count):
        a = rng.choice([rng.bits(256) % p, rng.bits(64), p - 1 - rng.bits(8), 2, 3, 4])
        for alias in (0, 1):
            out.append("fp1 srt %d %x" % (alias, a * a % p))
            out.append("fp1 srt %d %x" % (alias, a % p))
            out.append("fp1 crt %d %x" % (alias, pow(a, 3, p)))
            out.append("fp1 crt %d %x" % (alias, a % p))
            out.append("fp1 %s %d %x" % (rng.choice(["inv", "inv_basic", "inv_binar", "inv_monty", "inv_exgcd", "inv_divst", "inv_lower"]), alias,
                                         a % p))
    return out


INVS = ["inv", "inv_basic", "inv_binar", "inv_monty", "inv_exgcd", "inv_divst", "inv_jmpds", "inv_lower"]


def alg_sweep(rng, p, w, n, scale=1):
    """the algorithm families modelled in Model/FpAlg (class A): every variant by name on the operands / exponents that select
    each branch of its model.  Exponentiations: exponent 0, +-1, shorter than the window, all-ones, sparse, powers of two +-1,
    p-2 .. p+1, exactly RLC_FP_BITS and RLC_FP_BITS+1 bits (accepted by the sliding window), longer (refused: known finding F16),
    negative of each; bases 0, 1, p-1, uniform.  Inversions: 0, 1, 2, p-1, p-2, (p+-1)/2, powers of two, elements whose Montgomery
    form is tiny / a power of two / p-1 (short and long runs of Kaliski's phase 1: k <= m and k > m), uniform.  Simultaneous
    inversion: every length 1..9, 16, 17, 24, a zero in first / middle / last position, equal elements, in place.  Roots and
    symbols: 0, 1, 4, p-1, squares, non-squares."""
    R = 1 << (w * n)
    Ri = pow(R, -1, p)
    fb = w * n
    out = []
    uni = lambda: rng.bits(fb + 8) % p
    bases = [0, 1, 2, p - 1, uni(), uni()]
    exps = [0, 1, 2, 3, 5, 7, 8, 15, 16, 17, 31, 255, 256, 257, (1 << 64) - 1, 1 << 64, (1 << 64) + 1, (1 << 200) + (1 << 3),
            (1 << 255) + 1, (1 << 128) - 1, 0x8001, 0x10000001, 0xf0f0f0f0f0f0f0f0, 0x1111111111111111, 0x9999999999999999,
            p - 2, p - 1, p, p + 1, (p - 1) // 2, (p + 1) // 4, (1 << fb) - 1, 1 << (fb - 1), (1 << (fb - 1)) + 1,
            1 << fb, (1 << fb) + 1, (1 << (fb + 1)) - 1, 1 << (fb + 1), (1 << (fb + 1)) + 5, rng.bits(fb), rng.bits(fb + 1) | (1 << fb),
            rng.bits(100), rng.bits(12), rng.bits(fb + 30)]
    for _ in range(scale):
        for e in exps:
            for sgn in (1, -1):
                if e == 0 and sgn < 0:
                    continue
                for op in FPE:
                    if rng.chance(1, 2) or e in (0, 1, p - 2, 1 << fb, 1 << (fb + 1)):
                        out.append("fpe %s %d %x %s" % (op, rng.below(2), rng.choice(bases), hx(sgn * e)))
        for d in [0, 1, 2, 3, 4, 5, 7, 8, 0xff, 1 << (w - 1), (1 << w) - 1, (1 << (w - 1)) + 1, rng.bits(w), rng.bits(w), rng.bits(9)]:
            out.append("fpd exp_dig %d %x %x" % (rng.below(2), rng.choice(bases), d))
        mont_small = [j * Ri % p for j in (1, 2, 3, 4, 5, 1 << 10, 1 << 63, 1 << 64, 1 << 128, 1 << (fb - 2), p - 1, p - 2, (p - 1) // 2)]
        # powers of the digit base +-1 and their complements: multi-digit values whose low digit is 1 / all-ones (the `used == 1 &&
        # dp[0] == 1` exits of the binary algorithms), also reached from p by one subtraction
        basepm = [(1 << (w * i)) + d for i in range(1, n) for d in (1, -1)]
        basepm += [p - x for x in basepm] + [(p - x) // 2 for x in basepm[:2]]
        invops = [0, 1, 2, 3, 4, p - 1, p - 2, (p - 1) // 2, (p + 1) // 2, 1 << 64, 1 << 128, 1 << (fb - 2), (1 << 64) - 1, Ri, R % p,
                  uni(), uni(), uni()] + mont_small + basepm
        for a in invops:
            for op in INVS:
                if rng.chance(2, 3) or a in (0, 1, p - 1):
                    out.append("fp1 %s %d %x" % (op, rng.below(2), a % p))
        for ln in [1, 2, 3, 4, 5, 6, 7, 8, 9, 16, 17, 24]:
            els = [rng.choice([uni(), uni(), 1, p - 1, 2, rng.bits(64)]) or 1 for _ in range(ln)]
            out.append("fpsim %d %s" % (rng.below(2), " ".join("%x" % x for x in els)))
            if ln >= 2 and rng.chance(1, 2):
                eq = [els[0]] * ln
                out.append("fpsim %d %s" % (rng.below(2), " ".join("%x" % x for x in eq)))
            for pos in (0, ln // 2, ln - 1):
                z = list(els)
                z[pos] = 0
                if rng.chance(1, 2) or ln <= 3:
                    out.append("fpsim %d %s" % (rng.below(2), " ".join("%x" % x for x in z)))
        for a in [0, 1, 2, 3, 4, 9, p - 1, p - 2, p - 4, (p - 1) // 2, uni(), uni(), uni(), uni()]:
            for op in ("srt", "crt", "smb", "smb_basic", "smb_binar", "smb_divst", "smb_jmpds", "smb_lower", "is_sqr"):
                out.append("fp1 %s %d %x" % (op, rng.below(2), a % p))
                out.append("fp1 %s %d %x" % (op, rng.below(2), a * a % p))
    return out


def _param(exe, pid):
    out = subprocess.run([exe], input="fp_param %d\n" % pid, stdout=subprocess.PIPE, stderr=subprocess.DEVNULL, text=True, timeout=60).stdout
    kv = dict(t.split("=") for t in out.split()[1:] if "=" in t)
    return kv


def streams(ctx, scale=1):
    per = (700 if ctx.tier == "quick" else 30000) * scale
    res = []
    for cfg, ids in PRIMES.items():
        exe = _exe(ctx, cfg)
        lines = ["cfg"]
        for pid in ids:
            kv = _param(exe, pid)
            if "p" not in kv:
                continue
            p = int(kv["p"], 16)
            lines.append("fp_param %d" % pid)
            lines += root_sweep(ctx.rng, p, 12 * scale)
            lines += alg_sweep(ctx.rng, p, 64, int(kv["digs"]), scale)
            lines += gen_lines(ctx.rng, p, 64, int(kv["digs"]), per)
        res.append({"name": "fp-" + cfg, "cfg": cfg, "exe": exe, "lines": lines})
    return res


def search_streams(ctx, mfail):
    return streams(ctx, scale=4)


def replay_streams(ctx, rp):
    cfg = rp.get("config", "base")
    return [{"name": "replay", "cfg": cfg, "exe": _exe(ctx, cfg), "lines": ["cfg"] + rp.get("context_lines", []) + rp.get("op_lines", [])}]


def nontrivial(r):
    return not r["got"].startswith("err")


def matches_finding(f, r):
    t = r["line"].split()
    if f.get("pred") == "exp_slide_long" and t[0] == "fpe" and t[1] in ("exp", "exp_slide"):
        e = t[4].lstrip("-")
        return int(e, 16).bit_length() > 257 and r["got"] == "err"
    return False
