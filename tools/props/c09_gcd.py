"""C09 extension (Gcd family): generators for the modelled functions bn_gcd_basic / binar / dig, bn_gcd_ext_basic / binar / dig,
bn_lcm, bn_mod_inv, bn_mod_inv_sim.  Every line is judged twice: model column (Model/NtGcd.lean, exact cofactors) and spec column."""
from props.bngen import hx, magnitude, signed

TRUSTED = [
    "class A (Model/NtGcd.lean, Model/NtLehmer.lean mirror the C loops at value level; Lemmas/NtGcd*.lean, NtLehmer.lean prove model = Int.gcd / Bezout / lcm / inverse "
    "for all integers; the driver executes the models on every line and the exact outputs INCLUDING THE COFACTORS must coincide with the library's): bn_gcd_basic (= bn_gcd), "
    "bn_gcd_binar, bn_gcd_dig, bn_gcd_ext_basic (= bn_gcd_ext) with bn_gcd_ext_sign, bn_gcd_ext_dig, bn_gcd_ext_binar (incl. termination of its cofactor-reduction loop), "
    "bn_lcm, bn_mod_inv, bn_mod_inv_sim — theorems at full strength "
    "(all integers, fuel proved sufficient)",
    "class A with a partial theorem ('whenever the model returns'): bn_gcd_lehme / bn_gcd_ext_lehme (unimodular simulated matrix keeps the gcd, tracked "
    "cofactor + exact division give Bezout; absence of dis_t overflow / negative intermediates / fuel exhaustion is checked by the model on every line — it then prints "
    "`model-overflow-or-fuel` — not proved)",
    "class A with a weaker specification: bn_gcd_ext_mid (Model/NtGcdMid.lean mirrors the loop incl. the outputs left unwritten on some paths; theorem gcd_ext_mid_lattice: "
    "both returned vectors lie in the lattice x + y*v0 = 0 mod u0; that they are SHORT is not proved — C18 checks the GLV decomposition they give on every curve); "
    "the harness passes zero-initialised outputs and the model is run with the same prior values",
]

CORPUS = [
    "nt_gcd basic 0 0", "nt_gcd binar 0 0", "nt_gcd dig 0 0", "nt_gcd_ext basic 0 0", "nt_gcd_ext binar 0 0", "nt_gcd_ext dig 0 0",
    "nt_gcd binar 8 c", "nt_gcd binar -8 c", "nt_gcd_ext binar 8 c", "nt_gcd_ext binar c 8", "nt_gcd_ext binar -c -8", "nt_gcd_ext binar 6 f",
    "nt_gcd_ext binar f 6", "nt_gcd_ext binar 5 5", "nt_gcd_ext binar 1 1", "nt_gcd_ext binar 2 1", "nt_gcd_ext binar 1 2", "nt_gcd_ext binar 3 2",
    "nt_gcd_ext basic 5 5", "nt_gcd_ext basic -5 -5", "nt_gcd_ext basic 5 -5", "nt_gcd_ext basic 1 1", "nt_gcd_ext basic a 5", "nt_gcd_ext basic 5 a",
    "nt_gcd_ext dig 5 5", "nt_gcd_ext dig -5 5", "nt_gcd_ext dig a 5", "nt_gcd_ext dig 5 a", "nt_gcd_ext dig -7 0", "nt_gcd_ext dig 0 7", "nt_gcd dig -7 3",
    "nt_gcd dig -6 3", "nt_gcd lcm 0 5", "nt_gcd lcm 5 0", "nt_gcd lcm 0 0", "nt_gcd lcm -4 6", "nt_gcd lcm 4 -6", "nt_gcd lcm 6 6",
    "nt_gcd lehme 0 0", "nt_gcd_ext lehme 0 0", "nt_gcd_ext lehme 0 5", "nt_gcd_ext lehme -5 0", "nt_gcd_ext lehme 5 5", "nt_gcd_ext lehme -c 12", "nt_gcd_ext lehme 12 -c",
    "nt_gcd_ext mid 0 5", "nt_gcd_ext mid 5 0", "nt_gcd_ext mid 0 0", "nt_gcd_ext mid c 12", "nt_gcd_ext mid 12 c", "nt_gcd_ext mid 3e8 61", "nt_gcd_ext mid 61 3e8",
    "nt_gcd_ext mid 7 7", "nt_gcd_ext mid 1 1", "nt_gcd_ext mid -3e8 61", "nt_gcd_ext mid 5 3", "nt_gcd_ext mid 2 1", "nt_gcd_ext mid 1 2", "nt_gcd_ext mid 10001 100", "nt_gcd_ext mid 100 ff",
    "nt_gcd_ext mid ffffffffffffffffffffffff 123456789abcdef",
    "nt_inv 1 2", "nt_inv 3 2", "nt_inv -1 2", "nt_inv 2 4", "nt_inv 0 5", "nt_inv 5 5", "nt_inv 6 5", "nt_inv -6 5", "nt_inv 4 -7",
    "nt_inv_sim 7 3", "nt_inv_sim 7 3 5", "nt_inv_sim 7 3 5 6 1 2 4", "nt_inv_sim 7 3 0 5", "nt_inv_sim 9 2 3 4", "nt_inv_sim 7 a -3 10",
]


def _fib(k):
    x, y = 1, 1
    for _ in range(k):
        x, y = y, x + y
    return y, x


def _pair(rng, w, md):
    """operand pairs: boundary values, common factors (odd / even / powers of two), Euclid worst cases, near-equal, one-digit vs many-digit"""
    B = 1 << w
    j = rng.below(14)
    a, b = signed(rng, w, md), signed(rng, w, md)
    if j == 0:      # common factor
        g = magnitude(rng, w, max(1, md // 2)) + 1
        a, b = g * signed(rng, w, max(1, md // 2)), g * signed(rng, w, max(1, md // 2))
    elif j == 1:    # consecutive Fibonacci numbers (all quotients 1)
        a, b = _fib(rng.below(max(1, md * w - 2)))
        if rng.chance(1, 2):
            a, b = b, a
    elif j == 2:    # common power of two (Stein: shift > 0), different odd parts
        s = 1 + rng.below(2 * w)
        a, b = (rng.bits(rng.below(max(1, md * w - 2 * w)) + 1) | 1) << s, (rng.bits(rng.below(max(1, md * w - 2 * w)) + 1) | 1) << (s + rng.below(3))
    elif j == 3:    # one operand zero / equal / negated
        b = rng.choice([0, a, -a])
        if rng.chance(1, 3):
            a, b = b, a
    elif j == 4:    # boundary constants
        vals = [0, 1, 2, 3, B - 1, B, B + 1, B * B - 1, B * B, B * B + 1, (1 << (md * w)) - 1, 1 << (md * w - 1)]
        a, b = rng.choice(vals), rng.choice(vals)
    elif j == 5:    # one divides the other
        b = magnitude(rng, w, max(1, md // 2)) + 1
        a = b * (magnitude(rng, w, max(1, md // 2)) + 1)
        if rng.chance(1, 2):
            a, b = b, a
    elif j == 6:    # coprime neighbours
        a = magnitude(rng, w, md) + 2
        b = a + rng.choice([1, -1])
    elif j == 7:    # power of two against odd
        a = 1 << rng.below(md * w)
        b = rng.bits(rng.below(md * w) + 1) | 1
        if rng.chance(1, 2):
            a, b = b, a
    elif j == 8:    # small against large
        a = rng.below(16)
        b = magnitude(rng, w, md)
        if rng.chance(1, 2):
            a, b = b, a
    elif j == 9:    # equal top digits
        top = rng.bits(w) | (1 << (w - 1))
        ln = max(2, rng.below(md) + 1)
        a = (top << ((ln - 1) * w)) | rng.bits((ln - 1) * w)
        b = (top << ((ln - 1) * w)) | rng.bits((ln - 1) * w)
    if rng.chance(1, 4):
        a = -a
    if rng.chance(1, 4):
        b = -b
    lim = 1 << (md * w)
    return (a % lim if a >= 0 else -((-a) % lim)), (b % lim if b >= 0 else -((-b) % lim))


def gen(rng, w, cap, digs, n):
    out = []
    B = 1 << w
    md = max(1, digs)
    for _ in range(n):
        k = rng.below(10)
        m = md if rng.chance(3, 4) else max(1, md // 4)
        if k < 3:
            v = rng.choice(["basic", "binar", "gcd", "dig", "lehme", "lehme"])
            a, b = _pair(rng, w, m)
            if v == "dig":
                b = abs(b) % B if rng.chance(2, 3) else rng.choice([0, 1, 2, B - 1, B >> 1])
            out.append("nt_gcd %s %s %s" % (v, hx(a), hx(b)))
        elif k < 7:
            v = rng.choice(["basic", "binar", "binar", "ext", "dig", "lehme", "lehme", "mid"])
            a, b = _pair(rng, w, m)
            if v == "dig":
                b = abs(b) % B if rng.chance(2, 3) else rng.choice([0, 1, 2, B - 1, B >> 1])
            out.append("nt_gcd_ext %s %s %s" % (v, hx(a), hx(b)))
        elif k < 8:
            hm = max(1, min(m, cap // 2 - 1) // 2)
            a, b = _pair(rng, w, hm)
            out.append("nt_gcd lcm %s %s" % (hx(a), hx(b)))
        elif k < 9:
            mm = rng.choice([2, 3, 4, B - 1, B, B + 1, magnitude(rng, w, m) + 2, (magnitude(rng, w, m) | 1) + 2])
            a = rng.choice([0, 1, -1, 2, mm - 1, mm, mm + 1, 2 * mm - 1, rng.below(mm), -rng.below(mm) - 1, rng.bits(mm.bit_length() + w),
                            (rng.below(mm) | 1) if mm % 2 == 0 else 2 * rng.below(mm)])
            if a.bit_length() > md * w:
                a %= 1 << (md * w)
            out.append("nt_inv %s %x" % (hx(a), mm))
        else:
            hm = max(1, min(m, cap // 2 - 1) // 2)
            mm = rng.choice([3, 5, 7, B - 1, B + 1, (magnitude(rng, w, hm) | 1) + 2, magnitude(rng, w, hm) + 2])
            cnt = 1 + rng.below(8)
            xs = []
            for i in range(cnt):
                xs.append(rng.choice([1, mm - 1, rng.below(mm), rng.below(mm), rng.below(mm) + mm, -rng.below(mm) - 1]))
            if rng.chance(1, 6):
                xs[rng.below(cnt)] = rng.choice([0, mm, 2 * mm])       # a non-invertible entry: the whole call is refused
            out.append("nt_inv_sim %x %s" % (mm, " ".join(hx(x) for x in xs)))
    return out
