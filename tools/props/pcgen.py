"""Shared generators for the pairing-group slices (C12, C04)."""
import subprocess
import props.c03 as c03, props.c11 as c11
from props.bngen import hx

WRAP = ()


def exe(ctx, cfg="base"):
    return ctx.oracle(cfg, defs=("ORACLE_FP", "ORACLE_EP", "ORACLE_EXTRA1=ops_ep2", "ORACLE_EXTRA2=ops_pc"),
                      sources=("oracle.c", "ops_bn.c", "ops_fp.c", "ops_ep.c", "ops_ep2.c", "ops_pc.c"), tag="_pc")


def info(ex, cid):
    out = subprocess.run([ex], input="pc_param %d\n" % cid, stdout=subprocess.PIPE, stderr=subprocess.DEVNULL, text=True, timeout=120).stdout
    return dict(t.split("=", 1) for t in out.split()[1:] if "=" in t)


class Setting:
    def __init__(self, kv):
        self.p = int(kv["p"], 16)
        self.n = int(kv["n"], 16)
        g1 = kv["g1"].split(",")
        self.cv1 = c03.Cv({"p": kv["p"], "a": kv["a1"], "b": kv["b1"], "gx": g1[0], "gy": g1[1], "n": kv["n"], "h": "1"})
        self.cv2 = c11.Cv2({"p": kv["p"], "qnr": kv["qnr"], "a": kv["a2"], "b": kv["b2"], "g": kv["g2"], "n": kv["n"], "h": kv["h2"]})
        self.gt = kv["gt"]
        self.kv = kv


def p1tok(P):
    return "inf" if P is None else "%x,%x" % P


def p2tok(Q):
    return "inf" if Q is None else "%x,%x,%x,%x" % (Q[0][0], Q[0][1], Q[1][0], Q[1][1])


def outside_g2(ex, cid, rng, n):
    pts = []
    inp = ["ep2_param %d" % cid] + ["e2pt %x %x" % (rng.below(1 << 16), rng.below(1 << 16)) for _ in range(4 * n)]
    out = subprocess.run([ex], input="\n".join(inp) + "\n", stdout=subprocess.PIPE, stderr=subprocess.DEVNULL, text=True, timeout=120).stdout.split("\n")
    for o in out[1:]:
        t = o.split(",")
        if len(t) == 4:
            pts.append(((int(t[0], 16), int(t[1], 16)), (int(t[2], 16), int(t[3], 16))))
        if len(pts) >= n:
            break
    return pts


def gt_elements(ex, cid, rng, st, n):
    """target-group elements produced by the library (membership is decided by the driver, not assumed): generator powers,
    cyclotomic images of random field elements (order usually not dividing r), raw field elements"""
    inp = ["pc_param %d" % cid]
    for _ in range(n):
        inp.append("gtel gen %x" % (rng.bits(256) % st.n))
    rnd = [",".join("%x" % (rng.bits(256) % st.p) for _ in range(12)) for _ in range(n)]
    for a in rnd:
        inp.append("gtel cyc %s" % a)
    out = subprocess.run([ex], input="\n".join(inp) + "\n", stdout=subprocess.PIPE, stderr=subprocess.DEVNULL, text=True, timeout=300).stdout.split("\n")
    valid = [o for o in out[1:1 + n] if o.count(",") == 11]
    cyc = [o for o in out[1 + n:1 + 2 * n] if o.count(",") == 11]
    return valid, cyc, rnd, inp[1:]


def pairing_ids(ex):
    """identifiers the pairing setup accepts in this configuration (embedding degree 12)"""
    return [cid for cid in range(0, 70) if "p" in info(ex, cid)]
