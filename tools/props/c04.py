"""C04 — the pairing is bilinear, non-degenerate and maps into the order-r target group."""
import props.c03 as c03
import props.pcgen as pg
from props.bngen import hx

TRUSTED = [
    "NOT PROVED: bilinearity of the Tate / Weil / optimal ate pairing as computed by the Miller loops (it needs the theory of divisors on "
    "elliptic curves, which Mathlib does not have).  It is decided per presented line: the library prints e(P,Q) and e(aP,bQ); the driver checks "
    "with its own arithmetic (Spec/Curve, Spec/CurveX, tower spec for Fp12) that the operands are the stated multiples, that "
    "e(aP,bQ) = e(P,Q)^(ab), that e(P,Q) has order r and is non-trivial for non-identity operands, that an identity operand gives 1, and that a "
    "multi-pairing equals the product of the individual pairings",
    "proved (Props/C04.lean, abstract algebra): bilinearity on generators extends to the whole cyclic groups; the final exponentiation by "
    "(q-1)/r maps every non-zero field element into the elements of order dividing r and is multiplicative, hence a multi-pairing computed as "
    "one final exponentiation of a product of Miller values is the product of the pairings; bilinear + non-degenerate on generators of "
    "prime-order groups implies non-degenerate everywhere",
    "the pairing code itself (Miller loop, line functions, final exponentiation chains) is not modelled",
]
ASSUMPTIONS = ["the k = 8, 16, 18, 24 families are not covered (PARTIAL); BLS12-381 runs in the p381 configuration: the specification side is generic in the "
               "tower, the harness covers embedding degree 12 in the base configuration only"]
RULE = ("both pairing-friendly curves, variants map / tatep / weilp / oatep: operands identity, generators, equal/opposite multiples, non-normalised "
        "representations; scalars 0, 1, r-1, r, negative, random; multi-pairings of length 0..5 with identities at arbitrary positions; "
        "non-trivial = line with non-identity operands and ab != 0 mod r")

IDS = {"base": [23, 24]}
VARIANTS = ["map", "tatep", "weilp", "oatep"]


def rep1(rng, cv, P):
    return c03.ptok(rng, cv, P, "P")


def scal(rng, n):
    k = rng.below(10)
    if k == 0:
        return 0
    if k == 1:
        return rng.choice([1, 2, n - 1, n, n + 1])
    if k == 2:
        return -(rng.bits(256) % n)
    if k == 3:
        return rng.bits(rng.choice([8, 64, 128]))
    return rng.bits(256) % n


def gen_lines(rng, st, count):
    import props.c11 as c11
    cv1, cv2 = st.cv1, st.cv2
    out = []
    pool1 = [cv1.mul(cv1.g, rng.bits(256) % st.n) for _ in range(3)] + [cv1.g]
    pool2 = [cv2.mul(cv2.g, rng.bits(256) % st.n) for _ in range(3)] + [cv2.g]
    # systematic: each variant on the generators and with an identity in each slot
    for v in VARIANTS:
        out.append("pp %s %s %s" % (v, pg.p1tok(cv1.g), pg.p2tok(cv2.g)))
        out.append("pp %s inf %s" % (v, pg.p2tok(cv2.g)))
        out.append("pp %s %s inf" % (v, pg.p1tok(cv1.g)))
        out.append("pp %s inf inf" % v)
    for _ in range(count):
        k = rng.below(100)
        v = rng.choice(VARIANTS)
        if k < 65:
            P, Q = rng.choice(pool1 + [None] * (1 if rng.chance(1, 6) else 0)), rng.choice(pool2 + [None] * (1 if rng.chance(1, 6) else 0))
            a, b = scal(rng, st.n), scal(rng, st.n)
            aP, bQ = cv1.mul(P, a), cv2.mul(Q, b)
            out.append("ppb %s %s %s %s %s %s %s" % (v, rep1(rng, cv1, P), c11.ptok(rng, cv2, Q, "P"), rep1(rng, cv1, aP),
                                                     c11.ptok(rng, cv2, bQ, "P"), hx(a), hx(b)))
        elif k < 75:
            P = rng.choice(pool1)
            j = rng.below(3)
            Q = rng.choice(pool2)
            # equal / opposite operands on the G1 side expressed through the same Q
            P2 = P if j == 0 else (cv1.mul(P, -1) if j == 1 else rng.choice(pool1))
            out.append("pps %s 2 %s %s %s %s" % (v, pg.p1tok(P), pg.p2tok(Q), pg.p1tok(P2), pg.p2tok(Q)))
        else:
            n_ = rng.choice([0, 1, 2, 3, 5])
            toks = []
            for _i in range(n_):
                P = rng.choice(pool1 + [None])
                Q = rng.choice(pool2 + [None])
                toks += [rep1(rng, cv1, P), c11.ptok(rng, cv2, Q, "P")]
            out.append("pps %s %d %s" % (v, n_, " ".join(toks)))
    return out


def streams(ctx, scale=1):
    per = (60 if ctx.tier == "quick" else 1200) * scale
    res = []
    for cfg in ["base", "p381"]:
        res += _stream(ctx, cfg, per if cfg == "base" else max(40, per // 4))
    return res


def _stream(ctx, cfg, per):
    ex = pg.exe(ctx, cfg)
    lines = ["cfg"]
    for cid in (IDS.get(cfg) or pg.pairing_ids(ex)):
        kv = pg.info(ex, cid)
        if "p" not in kv:
            continue
        st = pg.Setting(kv)
        lines.append("pc_param %d" % cid)
        lines += gen_lines(ctx.rng, st, per)
    return [{"name": "pp-" + cfg, "cfg": cfg, "exe": ex, "lines": lines}]


def search_streams(ctx, mfail):
    return streams(ctx, scale=3)


def replay_streams(ctx, rp):
    cfg = rp.get("config", "base")
    return [{"name": "replay", "cfg": cfg, "exe": pg.exe(ctx, cfg), "lines": ["cfg"] + rp.get("context_lines", []) + rp.get("op_lines", [])}]


def nontrivial(r):
    return not r["got"].startswith("err") and "ab=0" not in r["verdict"] and "identity-slot" not in r["verdict"]


def matches_finding(f, r):
    return False
