"""C04 — the pairing is bilinear, non-degenerate and maps into the order-r target group."""
import props.c03 as c03
import props.pcgen as pg
from props.bngen import hx

TRUSTED = [
    "NOT PROVED: bilinearity of the Tate / Weil / optimal ate pairing as computed by the Miller loops (it needs the theory of divisors on "
    "elliptic curves, which Mathlib does not have).  It is decided per presented line: the library prints e(P,Q) and e(aP,bQ); the driver checks "
    "with its own arithmetic (Spec/Curve, Spec/CurveX, tower spec for Fp12) that the operands are the stated multiples, that "
    "e(aP,bQ) = e(P,Q)^(ab), that e(P,Q) has order r and is non-trivial for non-identity operands, that an identity operand gives 1, and that a "
    "multi-pairing equals the product of the individual pairings",
    "proved (Props/C04.lean, abstract algebra): bilinearity on generators extends to the whole cyclic groups; the final exponentiation by "
    "(q-1)/r maps every non-zero field element into the elements of order dividing r and is multiplicative, hence a multi-pairing computed as "
    "one final exponentiation of a product of Miller values is the product of the pairings; bilinear + non-degenerate on generators of "
    "prime-order groups implies non-degenerate everywhere",
    "the pairing code itself (Miller loop, line functions, final exponentiation chains) is not modelled",
]
ASSUMPTIONS = ["the k = 8, 16, 18, 24 families are not covered (PARTIAL); BLS12-381 runs in the p381 configuration: the specification side is generic in the "
               "tower, the harness covers embedding degree 12 in the base configuration only"]
RULE = ("both pairing-friendly curves, variants map / tatep / weilp / oatep: operands identity, generators, equal/opposite multiples, non-normalised "
        "representations; scalars 0, 1, r-1, r, negative, random; multi-pairings of length 0..5 with identities at arbitrary positions; "
        "non-trivial = line with non-identity operands and ab != 0 mod r")

GENERATED = ["pp"]
EXTRA_THEOREM_MODULES = ["RelicVerif.Props.C04B"]

IDS = {"base": [23, 24]}
VARIANTS = ["map", "tatep", "weilp", "oatep"]


def rep1(rng, cv, P):
    return c03.ptok(rng, cv, P, "P")


def scal(rng, n):
    k = rng.below(10)
    if k == 0:
        return 0
    if k == 1:
        return rng.choice([1, 2, n - 1, n, n + 1])
    if k == 2:
        return -(rng.bits(256) % n)
    if k == 3:
        return rng.bits(rng.choice([8, 64, 128]))
    return rng.bits(256) % n


def gen_lines(rng, st, count):
    import props.c11 as c11
    cv1, cv2 = st.cv1, st.cv2
    out = []
    pool1 = [cv1.mul(cv1.g, rng.bits(256) % st.n) for _ in range(3)] + [cv1.g]
    pool2 = [cv2.mul(cv2.g, rng.bits(256) % st.n) for _ in range(3)] + [cv2.g]
    # systematic: each variant on the generators and with an identity in each slot
    for v in VARIANTS:
        out.append("pp %s %s %s" % (v, pg.p1tok(cv1.g), pg.p2tok(cv2.g)))
        out.append("pp %s inf %s" % (v, pg.p2tok(cv2.g)))
        out.append("pp %s %s inf" % (v, pg.p1tok(cv1.g)))
        out.append("pp %s inf inf" % v)
    for _ in range(count):
        k = rng.below(100)
        v = rng.choice(VARIANTS)
        if k < 65:
            P, Q = rng.choice(pool1 + [None] * (1 if rng.chance(1, 6) else 0)), rng.choice(pool2 + [None] * (1 if rng.chance(1, 6) else 0))
            a, b = scal(rng, st.n), scal(rng, st.n)
            aP, bQ = cv1.mul(P, a), cv2.mul(Q, b)
            out.append("ppb %s %s %s %s %s %s %s" % (v, rep1(rng, cv1, P), c11.ptok(rng, cv2, Q, "P"), rep1(rng, cv1, aP),
                                                     c11.ptok(rng, cv2, bQ, "P"), hx(a), hx(b)))
        elif k < 75:
            P = rng.choice(pool1)
            j = rng.below(3)
            Q = rng.choice(pool2)
            # equal / opposite operands on the G1 side expressed through the same Q
            P2 = P if j == 0 else (cv1.mul(P, -1) if j == 1 else rng.choice(pool1))
            out.append("pps %s 2 %s %s %s %s" % (v, pg.p1tok(P), pg.p2tok(Q), pg.p1tok(P2), pg.p2tok(Q)))
        else:
            n_ = rng.choice([0, 1, 2, 3, 5])
            toks = []
            for _i in range(n_):
                P = rng.choice(pool1 + [None])
                Q = rng.choice(pool2 + [None])
                toks += [rep1(rng, cv1, P), c11.ptok(rng, cv2, Q, "P")]
            out.append("pps %s %d %s" % (v, n_, " ".join(toks)))
    return out


def fp12tok(cs):
    return ",".join("%x" % c for c in cs)


def special_elements(rng, st):
    """elements of Fp12 by class (flat memory order of fp12_t; index 0 = the Fp part): 0, 1, -1, subfield elements (killed by the easy
    part), roots of unity of small order, single-coefficient elements, coefficients next to p"""
    p = st.p
    unit = lambda i, v=1: [v if j == i else 0 for j in range(12)]
    out = [("zero", [0] * 12), ("one", unit(0)), ("minus-one", unit(0, p - 1)), ("fp", unit(0, 2)), ("fp", unit(0, rng.bits(300) % p or 1))]
    # a primitive cube root of unity in Fp (p = 1 mod 3 for both families)
    if p % 3 == 1:
        g = 2
        while pow(g, (p - 1) // 3, p) == 1:
            g += 1
        out.append(("order-3", unit(0, pow(g, (p - 1) // 3, p))))
    out.append(("fp2", [rng.bits(300) % p, rng.bits(300) % p] + [0] * 10))          # in Fp2
    out.append(("fp2-i", unit(1)))                                                    # the adjoined square root (order 4 when qnr = -1)
    out.append(("fp6", [rng.bits(300) % p for _ in range(6)] + [0] * 6))             # in Fp6: killed by p^6 - 1
    for i in (2, 4, 6, 8, 11):
        out.append(("single", unit(i, rng.choice([1, 2, p - 1]))))
    out.append(("near-p", [p - 1 - rng.below(3) for _ in range(12)]))
    out.append(("near-p", [rng.choice([0, 1, p - 1]) for _ in range(12)]))
    return out


def sps_lists(rng, shipped):
    """sparse forms for fp12_exp_cyc_sps: every shape of the code (len 0, b[0] == 0 or not, negative entries, one entry, long gaps),
    the shipped form and its lowered copy (the `_b` array of pp_exp_b12), and lists that are not ascending (j never goes back)"""
    out = [[], [0], [1], [-1], [2], [-3], [0, 1], [0, -1], [0, 2], [0, -2], [1, 2], [1, -2], [-1, 2], [-1, 3], [2, -4], [0, 1, 2, 3], [0, -2, 4, -6],
           [7], [0, 64], [0, -64], [63], [-63, 64], [3, 70], list(shipped), [b - 1 if b > 0 else b + 1 for b in shipped if b != 0],
           [5, 3], [0, 0], [4, 4], [0, 3, 2, 6]]
    for _ in range(8):
        n = 1 + rng.below(7)
        pos = sorted(rng.below(66) for _ in range(n))
        pos = [q for i, q in enumerate(pos) if i == 0 or q != pos[i - 1]]
        out.append([q if (q == 0 or rng.chance(1, 2)) else -q for q in pos])
    return out


def gen_fexp(ctx, ex, cid, st, kv, count):
    """final exponentiation on arbitrary elements, the easy part, the sparse exponentiation"""
    rng = ctx.rng
    valid, cyc, rnd, _ = pg.gt_elements(ex, cid, rng, st, max(4, count // 6))
    lines = []
    spec = special_elements(rng, st)
    for i, (_cls, a) in enumerate(spec):
        lines.append("fexp %s %s" % ("ali" if i % 2 else "sep", fp12tok(a)))
    for _cls, a in spec[:8]:
        lines.append("fcyc %s %s" % (rng.choice(["sep", "ali"]), fp12tok(a)))
    pool = [("generic", a) for a in rnd] + [("cyc", a) for a in cyc] + [("gt", a) for a in valid]
    for i in range(count):
        _c, a = pool[i % len(pool)] if pool else ("one", fp12tok(spec[1][1]))
        lines.append("fexp %s %s" % (rng.choice(["sep", "ali"]), a))
    for a in rnd[:3] + cyc[:1]:
        lines.append("fcyc %s %s" % (rng.choice(["sep", "ali"]), a))
    shipped = [] if kv.get("sps", ".") == "." else [int(t) for t in kv["sps"].split(",")]
    bases = (cyc + valid) or [fp12tok(spec[1][1])]
    for i, b in enumerate(sps_lists(rng, shipped)):
        a = bases[i % len(bases)] if i % 7 else fp12tok(spec[1][1])
        lines.append("expsps %s %s %s %s" % (rng.choice(["sep", "ali"]), a, "neg" if i % 3 == 1 else "pos", ",".join(str(t) for t in b) or "."))
    # a non-cyclotomic operand: outside the contract of the compressed squarings, compared only
    if rnd:
        lines.append("expsps sep %s pos 0,3" % rnd[0])
    return lines


def streams(ctx, scale=1):
    per = (60 if ctx.tier == "quick" else 1200) * scale
    res = []
    for cfg in ["base", "p381"]:
        res += _stream(ctx, cfg, per if cfg == "base" else max(40, per // 4))
    return res


def _stream(ctx, cfg, per):
    ex = pg.exe(ctx, cfg)
    lines = ["cfg"]
    flines = ["cfg"]
    for cid in (IDS.get(cfg) or pg.pairing_ids(ex)):
        kv = pg.info(ex, cid)
        if "p" not in kv:
            continue
        st = pg.Setting(kv)
        lines.append("pc_param %d" % cid)
        lines += gen_lines(ctx.rng, st, per)
        flines.append("pc_param %d" % cid)
        flines += gen_fexp(ctx, ex, cid, st, kv, max(8, per // 5) if cfg == "base" else max(6, per // 8))
    return [{"name": "pp-" + cfg, "cfg": cfg, "exe": ex, "lines": lines},
            {"name": "fexp-" + cfg, "cfg": cfg, "exe": ex, "lines": flines}]


def search_streams(ctx, mfail):
    return streams(ctx, scale=3)


def replay_streams(ctx, rp):
    cfg = rp.get("config", "base")
    return [{"name": "replay", "cfg": cfg, "exe": pg.exe(ctx, cfg), "lines": ["cfg"] + rp.get("context_lines", []) + rp.get("op_lines", [])}]


def nontrivial(r):
    return not r["got"].startswith("err") and "ab=0" not in r["verdict"] and "identity-slot" not in r["verdict"]


def matches_finding(f, r):
    return False
