"""C04 — the pairing is bilinear, non-degenerate and maps into the order-r target group."""
import props.c03 as c03
import props.pcgen as pg
from props.bngen import hx

TRUSTED = [
    "NOT PROVED: bilinearity of the Tate / Weil / optimal ate pairing (that the value of the Miller recurrence is the function with divisor "
    "s(Q) - ([s]Q) - (s-1)(O), Weil reciprocity): it needs the theory of divisors on elliptic curves, which Mathlib does not have.  It is decided per "
    "presented line (ppb): the library prints e(P,Q) and e(aP,bQ); the driver checks with its own arithmetic (Spec/Curve, Spec/CurveX, tower spec for "
    "Fp12) that the operands are the stated multiples, that e(aP,bQ) = e(P,Q)^(ab), that e(P,Q) has order r and is non-trivial for non-identity "
    "operands, that an identity operand gives 1, and that a multi-pairing equals the product of the individual pairings",
    "CLASS A (model proved = specification for all inputs AND executed on every presented line): the final exponentiation.  pp_exp_bn, pp_exp_sm9, "
    "pp_exp_b12, the dispatcher pp_exp_k12 and fp12_conv_cyc are TRANSLATED from the C text on every run (tools/translate_pp.py -> Gen/PpExp.lean); "
    "Props/C04B.lean proves about the generated definitions: chain(f) = f^(c (p^12-1)/r) with c = 2x(6x^2+3x+1) (BN), 1 (SM9, x >= 0), 3 (BLS12, both "
    "branches) for every integer x, gcd(c, r) = 1 for every x, the easy part lies in the cyclotomic subgroup (any finite field with p^12 elements); "
    "fp12_exp_cyc_sps is a hand model (loop for loop) proved to raise to the integer the sparse form denotes.  The driver executes the generated "
    "chains and the hand model with its own Fp12 arithmetic on fexp / fcyc / expsps lines (arbitrary field elements: 0, 1, -1, subfield elements, "
    "small orders, cyclotomic, order r, generic; arbitrary sparse forms) and compares with f^(c (p^12-1)/r) by plain square-and-multiply; the "
    "hypotheses of the theorems are evaluated on the parameters the running library reports",
    "CLASS A, the Miller loops: pp_mil_k12, pp_mil_lit_k12, pp_fin_k12_oatep and the maps pp_map_(sim_)oatep / tatep / weilp_k12 are hand models "
    "(Model/PpMiller.lean) with the line functions as parameters.  Proved over an abstract Miller algebra (Props/C04B.lean): the loops as coded "
    "(NAF digits, peeled first iteration, sign handling, inner loop over the pairs) compute the canonical recurrence f <- f^2 l_{[n]Q,[n]Q}(P), "
    "n <- 2n; digit +-1: f <- f l_{[n]Q,+-Q}(P), n <- n +- 1 with the lines at the integer multiples, the running points end at [s]Q for the integer s "
    "the digits denote, and the multi-pairing loop is the product of the single loops.  The driver runs the models over E(Fp12) with the affine "
    "chord-and-tangent lines and compares the library's pairing value with the model's value after the final exponentiation, value for value "
    "(ppm / ppms lines, every variant, multi-pairings with identities, all three curves)",
    "CLASS A, the line functions (general-b branch): pp_dbl_k12_projc_basic / _lazyr, pp_add_k12_projc_basic / _lazyr, pp_dbl_lit_k12, pp_add_lit_k12 "
    "are TRANSLATED from the C text on every run (tools/translate_ppline.py -> Gen/PpLine.lean; the lazy-reduction primitives are field operations "
    "on values).  Proved about the generated definitions over any field (Props/C04B.lean, *_line): the three written slots of the sparse element "
    "are s x (the coefficients of the affine tangent / chord through the running point evaluated at the other argument) with s = -2YZ resp. "
    "X - Z x2 (a factor in the field of the twist, removed by the final exponentiation), the fourth slot stays zero, and the updated running point "
    "is the tangent / chord point of the curve law.  The driver executes the generated definitions with its own Fp2 arithmetic on the operands in "
    "the representation the library received (lfn lines: model column, exact equality incl. the placement of the slots by twist type) and judges "
    "the library's line value against the affine line over Fp12 up to a factor in a proper subfield (spec column)",
    "CLASS C (no model; compared on the presented lines only): the b = 2 branch of pp_dbl_k12_projc_* (coordinate-level code with the non-residue -1 "
    "built in; no configured curve takes it: the harness reports ep_curve_opt_b() and the driver falls back to the spec column alone), "
    "pp_dbl_k12_basic / pp_add_k12_basic (EP_ADD = BASIC builds, not configured); which positions of Fp12 the symbolic slots are is part of the "
    "executed model (placeSlots) but not of the theorems; the compressed squarings fp12_sqr_pck / fp12_back_cyc_sim inside fp12_exp_cyc_sps are "
    "abstracted to a squaring / the identity on values (C10 proves the decompression); digit-level lazy reduction (C10's class C)",
    "trusted: tools/translate_pp.py, tools/translate_ppline.py (accepted fragments documented in the files; anything else is a translation failure = broken obligation), the "
    "tower specification as the definition of Fp12, the tower-norm inverse of the driver is checked by a * a^-1 = 1 on every use",
]
ASSUMPTIONS = ["the k = 8, 16, 18, 24 families are not covered (PARTIAL); BLS12-381 runs in the p381 configuration: the specification side is generic in the "
               "tower, the harness covers embedding degree 12 only",
               "the odd-parameter branch (b[0] == 0) of pp_exp_b12 is proved but not exercised: no configured BLS12 curve has an odd parameter",
               "pp_exp_b12, even branch: the sparse form must not contain the position -1 (hypothesis hbs of the theorem, evaluated by the driver); "
               "fp_prime_set_pairf can store it for |x| = 6 mod 8, no shipped parameter is of that form"]
RULE = ("both pairing-friendly curves (+ BLS12-381), variants map / tatep / weilp / oatep: operands identity, generators, equal/opposite multiples, "
        "non-normalised representations; scalars 0, 1, r-1, r, negative, random; multi-pairings of length 0..5 with identities at arbitrary positions; "
        "final exponentiation of arbitrary field elements by class; sparse exponent forms of every shape; non-trivial = line with non-identity "
        "operands and ab != 0 mod r, or a final-exponentiation / Miller-model line on a non-zero, non-identity operand")

GENERATED = ["pp", "ppline"]
EXTRA_THEOREM_MODULES = ["RelicVerif.Props.C04B"]

IDS = {"base": [23, 24]}
VARIANTS = ["map", "tatep", "weilp", "oatep"]


def rep1(rng, cv, P):
    return c03.ptok(rng, cv, P, "P")


def scal(rng, n):
    k = rng.below(10)
    if k == 0:
        return 0
    if k == 1:
        return rng.choice([1, 2, n - 1, n, n + 1])
    if k == 2:
        return -(rng.bits(256) % n)
    if k == 3:
        return rng.bits(rng.choice([8, 64, 128]))
    return rng.bits(256) % n


def gen_lines(rng, st, count):
    import props.c11 as c11
    cv1, cv2 = st.cv1, st.cv2
    out = []
    pool1 = [cv1.mul(cv1.g, rng.bits(256) % st.n) for _ in range(3)] + [cv1.g]
    pool2 = [cv2.mul(cv2.g, rng.bits(256) % st.n) for _ in range(3)] + [cv2.g]
    # systematic: each variant on the generators and with an identity in each slot
    for v in VARIANTS:
        out.append("pp %s %s %s" % (v, pg.p1tok(cv1.g), pg.p2tok(cv2.g)))
        out.append("pp %s inf %s" % (v, pg.p2tok(cv2.g)))
        out.append("pp %s %s inf" % (v, pg.p1tok(cv1.g)))
        out.append("pp %s inf inf" % v)
    for _ in range(count):
        k = rng.below(100)
        v = rng.choice(VARIANTS)
        if k < 65:
            P, Q = rng.choice(pool1 + [None] * (1 if rng.chance(1, 6) else 0)), rng.choice(pool2 + [None] * (1 if rng.chance(1, 6) else 0))
            a, b = scal(rng, st.n), scal(rng, st.n)
            aP, bQ = cv1.mul(P, a), cv2.mul(Q, b)
            out.append("ppb %s %s %s %s %s %s %s" % (v, rep1(rng, cv1, P), c11.ptok(rng, cv2, Q, "P"), rep1(rng, cv1, aP),
                                                     c11.ptok(rng, cv2, bQ, "P"), hx(a), hx(b)))
        elif k < 75:
            P = rng.choice(pool1)
            j = rng.below(3)
            Q = rng.choice(pool2)
            # equal / opposite operands on the G1 side expressed through the same Q
            P2 = P if j == 0 else (cv1.mul(P, -1) if j == 1 else rng.choice(pool1))
            out.append("pps %s 2 %s %s %s %s" % (v, pg.p1tok(P), pg.p2tok(Q), pg.p1tok(P2), pg.p2tok(Q)))
        else:
            n_ = rng.choice([0, 1, 2, 3, 5])
            toks = []
            for _i in range(n_):
                P = rng.choice(pool1 + [None])
                Q = rng.choice(pool2 + [None])
                toks += [rep1(rng, cv1, P), c11.ptok(rng, cv2, Q, "P")]
            out.append("pps %s %d %s" % (v, n_, " ".join(toks)))
    return out


def fp12tok(cs):
    return ",".join("%x" % c for c in cs)


def special_elements(rng, st):
    """elements of Fp12 by class (flat memory order of fp12_t; index 0 = the Fp part): 0, 1, -1, subfield elements (killed by the easy
    part), roots of unity of small order, single-coefficient elements, coefficients next to p"""
    p = st.p
    unit = lambda i, v=1: [v if j == i else 0 for j in range(12)]
    out = [("zero", [0] * 12), ("one", unit(0)), ("minus-one", unit(0, p - 1)), ("fp", unit(0, 2)), ("fp", unit(0, rng.bits(300) % p or 1))]
    # a primitive cube root of unity in Fp (p = 1 mod 3 for both families)
    if p % 3 == 1:
        g = 2
        while pow(g, (p - 1) // 3, p) == 1:
            g += 1
        out.append(("order-3", unit(0, pow(g, (p - 1) // 3, p))))
    out.append(("fp2", [rng.bits(300) % p, rng.bits(300) % p] + [0] * 10))          # in Fp2
    out.append(("fp2-i", unit(1)))                                                    # the adjoined square root (order 4 when qnr = -1)
    out.append(("fp6", [rng.bits(300) % p for _ in range(6)] + [0] * 6))             # in Fp6: killed by p^6 - 1
    for i in (2, 4, 6, 8, 11):
        out.append(("single", unit(i, rng.choice([1, 2, p - 1]))))
    out.append(("near-p", [p - 1 - rng.below(3) for _ in range(12)]))
    out.append(("near-p", [rng.choice([0, 1, p - 1]) for _ in range(12)]))
    return out


def sps_lists(rng, shipped):
    """sparse forms for fp12_exp_cyc_sps: every shape of the code (len 0, b[0] == 0 or not, negative entries, one entry, long gaps),
    the shipped form and its lowered copy (the `_b` array of pp_exp_b12), and lists that are not ascending (j never goes back)"""
    out = [[], [0], [1], [-1], [2], [-3], [0, 1], [0, -1], [0, 2], [0, -2], [1, 2], [1, -2], [-1, 2], [-1, 3], [2, -4], [0, 1, 2, 3], [0, -2, 4, -6],
           [7], [0, 64], [0, -64], [63], [-63, 64], [3, 70], list(shipped), [b - 1 if b > 0 else b + 1 for b in shipped if b != 0],
           [5, 3], [0, 0], [4, 4], [0, 3, 2, 6]]
    for _ in range(8):
        n = 1 + rng.below(7)
        pos = sorted(rng.below(66) for _ in range(n))
        pos = [q for i, q in enumerate(pos) if i == 0 or q != pos[i - 1]]
        out.append([q if (q == 0 or rng.chance(1, 2)) else -q for q in pos])
    return out


def gen_fexp(ctx, ex, cid, st, kv, count):
    """final exponentiation on arbitrary elements, the easy part, the sparse exponentiation"""
    rng = ctx.rng
    valid, cyc, rnd, _ = pg.gt_elements(ex, cid, rng, st, max(4, count // 6))
    lines = []
    spec = special_elements(rng, st)
    for i, (_cls, a) in enumerate(spec):
        lines.append("fexp %s %s" % ("ali" if i % 2 else "sep", fp12tok(a)))
    for _cls, a in spec[:8]:
        lines.append("fcyc %s %s" % (rng.choice(["sep", "ali"]), fp12tok(a)))
    pool = [("generic", a) for a in rnd] + [("cyc", a) for a in cyc] + [("gt", a) for a in valid]
    for i in range(count):
        _c, a = pool[i % len(pool)] if pool else ("one", fp12tok(spec[1][1]))
        lines.append("fexp %s %s" % (rng.choice(["sep", "ali"]), a))
    for a in rnd[:3] + cyc[:1]:
        lines.append("fcyc %s %s" % (rng.choice(["sep", "ali"]), a))
    shipped = [] if kv.get("sps", ".") == "." else [int(t) for t in kv["sps"].split(",")]
    bases = (cyc + valid) or [fp12tok(spec[1][1])]
    for i, b in enumerate(sps_lists(rng, shipped)):
        a = bases[i % len(bases)] if i % 7 else fp12tok(spec[1][1])
        lines.append("expsps %s %s %s %s" % (rng.choice(["sep", "ali"]), a, "neg" if i % 3 == 1 else "pos", ",".join(str(t) for t in b) or "."))
    # a non-cyclotomic operand: outside the contract of the compressed squarings, compared only
    if rnd:
        lines.append("expsps sep %s pos 0,3" % rnd[0])
    return lines


def gen_miller(ctx, st, count):
    """pairing values compared with the Miller-loop model (model column): every variant, generators and random subgroup points, an
    identity in either slot, multi-pairings with identities inside, equal / opposite operands"""
    rng = ctx.rng
    cv1, cv2 = st.cv1, st.cv2
    P = [cv1.g] + [cv1.mul(cv1.g, rng.bits(256) % st.n) for _ in range(2)]
    Q = [cv2.g] + [cv2.mul(cv2.g, rng.bits(256) % st.n) for _ in range(2)]
    out = []
    for v in ["oatep", "map", "tatep", "weilp"]:
        out.append("ppm %s %s %s" % (v, pg.p1tok(P[0]), pg.p2tok(Q[0])))
    out.append("ppm oatep inf %s" % pg.p2tok(Q[0]))
    out.append("ppm tatep %s inf" % pg.p1tok(P[0]))
    out.append("ppm oatep %s %s" % (pg.p1tok(P[1]), pg.p2tok(Q[2])))
    out.append("ppm oatep %s %s" % (pg.p1tok(cv1.mul(P[1], -1)), pg.p2tok(Q[1])))
    out.append("ppm tatep %s %s" % (pg.p1tok(P[2]), pg.p2tok(Q[1])))
    out.append("ppms oatep 0")
    out.append("ppms oatep 1 %s %s" % (pg.p1tok(P[1]), pg.p2tok(Q[1])))
    out.append("ppms oatep 2 %s %s %s %s" % (pg.p1tok(P[1]), pg.p2tok(Q[1]), pg.p1tok(P[2]), pg.p2tok(Q[0])))
    out.append("ppms oatep 3 %s %s inf %s %s %s" % (pg.p1tok(P[0]), pg.p2tok(Q[2]), pg.p2tok(Q[0]), pg.p1tok(P[2]), pg.p2tok(Q[1])))
    out.append("ppms map 2 %s %s %s %s" % (pg.p1tok(P[1]), pg.p2tok(Q[1]), pg.p1tok(cv1.mul(P[1], -1)), pg.p2tok(Q[1])))
    out.append("ppms tatep 2 %s %s %s %s" % (pg.p1tok(P[0]), pg.p2tok(Q[1]), pg.p1tok(P[1]), pg.p2tok(Q[0])))
    out.append("ppms weilp 2 %s inf %s %s" % (pg.p1tok(P[0]), pg.p1tok(P[1]), pg.p2tok(Q[2])))
    for _ in range(count):
        v = rng.choice(["oatep", "oatep", "oatep", "map", "tatep"])
        a, b = cv1.mul(cv1.g, rng.bits(256) % st.n), cv2.mul(cv2.g, rng.bits(256) % st.n)
        out.append("ppm %s %s %s" % (v, pg.p1tok(a), pg.p2tok(b)))
    return out


def gen_lines_fn(ctx, st, count):
    """the four line functions called directly: running points as small and random multiples, affine and projective representations,
    the addition with distinct / far-apart points (the exceptional T = +-Q is outside the loops' reach for points of order r)"""
    import props.c11 as c11
    rng = ctx.rng
    cv1, cv2 = st.cv1, st.cv2
    out = []
    for i in range(count):
        k = [1, 2, 3][i] if i < 3 else rng.bits(256) % st.n
        T2 = cv2.mul(cv2.g, k or 1)
        Q2 = cv2.mul(cv2.g, (rng.bits(256) % (st.n - 3)) + 2)
        T1 = cv1.mul(cv1.g, k or 1)
        P1 = cv1.mul(cv1.g, (rng.bits(256) % (st.n - 3)) + 2)
        rep2 = c11.ptok(rng, cv2, T2, "P") if i % 2 else pg.p2tok(T2)
        rep1 = c03.ptok(rng, cv1, T1, "P") if i % 2 else pg.p1tok(T1)
        out.append("lfn dbl %s %s" % (rep2, pg.p1tok(P1)))
        out.append("lfn dbll %s %s" % (rep1, pg.p2tok(Q2)))
        if cv2.mul(Q2, 1) != T2 and cv2.mul(Q2, -1) != T2:
            out.append("lfn add %s %s %s" % (rep2, pg.p2tok(Q2), pg.p1tok(P1)))
        if P1 != T1 and cv1.mul(P1, -1) != T1:
            out.append("lfn addl %s %s %s" % (rep1, pg.p1tok(P1), pg.p2tok(Q2)))
    return out


def streams(ctx, scale=1):
    per = (60 if ctx.tier == "quick" else 1200) * scale
    res = []
    for cfg in ["base", "p381"]:
        res += _stream(ctx, cfg, per if cfg == "base" else max(40, per // 4))
    return res


def _stream(ctx, cfg, per):
    ex = pg.exe(ctx, cfg)
    lines = ["cfg"]
    flines = ["cfg"]
    mlines = ["cfg"]
    for cid in (IDS.get(cfg) or pg.pairing_ids(ex)):
        kv = pg.info(ex, cid)
        if "p" not in kv:
            continue
        st = pg.Setting(kv)
        lines.append("pc_param %d" % cid)
        lines += gen_lines(ctx.rng, st, per)
        flines.append("pc_param %d" % cid)
        flines += gen_fexp(ctx, ex, cid, st, kv, max(6, per // 8) if cfg == "base" else max(5, per // 10))
        mlines.append("pc_param %d" % cid)
        mlines += gen_miller(ctx, st, max(2, per // 20) if cfg == "base" else 1)
        mlines += gen_lines_fn(ctx, st, 6 if ctx.tier == "quick" else 60)
    return [{"name": "pp-" + cfg, "cfg": cfg, "exe": ex, "lines": lines},
            {"name": "fexp-" + cfg, "cfg": cfg, "exe": ex, "lines": flines},
            {"name": "miller-" + cfg, "cfg": cfg, "exe": ex, "lines": mlines}]


def search_streams(ctx, mfail):
    return streams(ctx, scale=3)


def replay_streams(ctx, rp):
    cfg = rp.get("config", "base")
    return [{"name": "replay", "cfg": cfg, "exe": pg.exe(ctx, cfg), "lines": ["cfg"] + rp.get("context_lines", []) + rp.get("op_lines", [])}]


def nontrivial(r):
    return not r["got"].startswith("err") and "ab=0" not in r["verdict"] and "identity-slot" not in r["verdict"]


def matches_finding(f, r):
    return False
