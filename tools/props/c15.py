"""C15 — the deterministic random generator follows Hash_DRBG for every call history."""
from props.bngen import hx, magnitude
from props.c01 import _cfg

TRUSTED = [
    "SHA-256 enters the DRBG model and spec as the executable FIPS 180-4 definition of Spec/Sha256.lean; its agreement with md_map_sh256 is "
    "checked by the md_map lines of this stream and by C14",
    "modelled, not verified: bn_mod inside bn_rand_mod (C09: the model takes the mathematical residue); little-endian host byte order of "
    "the digit array in bn_rand / fp_rand / fb_rand (digitOf reads w/8 little-endian bytes per digit: checked per line, not derived from C)",
    "class A here (Model/RandInt.lean proved in Props/C15 for every byte source, state and request, executed per line): bn_rand, "
    "bn_rand_mod, fp_rand, fb_rand. The state after bn_rand / fp_rand / fb_rand is observed through the next 16 generator bytes",
    "class C: ep_rand / eb_rand / ed_rand / pc *_rand (bn_rand_mod + fixed-base multiplication, not composed here); rand_init's entropy "
    "source; fp_rand's loop is exercised for at most one subtraction (every configured prime has the top bit of RLC_FP_BITS set; the "
    "theorem covers any number of iterations)",
]
ASSUMPTIONS = [
    "fewer than 2^31 - 256 generate calls between reseeds (ctx->counter is an int; SP 800-90A allows 2^48)",
    "histories start with a non-empty seed (the library seeds itself in core_init)",
]
RULE = ("histories = one seed followed by 1..40 generate/reseed operations with request sizes from the boundary set "
        "{0,1,31,32,33,55,56,64,65,255,256,257,1000,4096,65535,65536,65537} and random sizes; non-trivial = distinct history with at "
        "least one non-empty generate; bn_rand_st: every bit length in {0,1,2,7,8,9,w-1,w,w+1,2w-1,2w,2w+1,255..257,cap*w-w..cap*w+w+1} "
        "with both signs plus random lengths; fp_rand: 12 seeds for every prime identifier the build selects (base: 256-bit, p255: 255-bit "
        "with the top-digit mask); fb_rand: 40 seeds under the configured binary field")

SIZES = [0, 1, 31, 32, 33, 55, 56, 64, 65, 255, 256, 257, 1000, 4096]
BIG = [65535, 65536, 65537, 70000]


def history(rng, maxops, allow_big):
    toks = ["s:" + rng.bytes(1 + rng.below(rng.choice([1, 8, 64, 200]))).hex()]
    for _ in range(1 + rng.below(maxops)):
        k = rng.below(10)
        if k < 7:
            n = rng.choice(SIZES) if rng.chance(2, 3) else rng.below(300)
            if allow_big and rng.chance(1, 40):
                n = rng.choice(BIG)
            toks.append("g:%d" % n)
        elif k < 9:
            toks.append("s:" + rng.bytes(1 + rng.below(rng.choice([1, 8, 64, 200]))).hex())
        else:
            toks.append("s:.")     # empty reseed must be refused
    return "drbg " + " ".join(toks)


def boundary_state(rng):
    """V / C with runs of 0xFF ending at every byte position (all carry-chain lengths), near-wrap values, extreme counters"""
    def pat():
        k = rng.below(6)
        b = bytearray(rng.bytes(55))
        if k == 0:
            return bytes([0xFF] * 55)
        if k == 1:
            return bytes(55)
        if k == 2:      # low j bytes all ones
            j = 1 + rng.below(55)
            b[55 - j:] = bytes([0xFF] * j)
        elif k == 3:    # a run of ones ending at a random position, low part near the wrap
            j = 1 + rng.below(54)
            i = rng.below(j)
            b[i:j] = bytes([0xFF] * (j - i))
            b[54] = 0xFF - rng.below(3)
        elif k == 4:    # low 32 bits just below 2^32 (block-counter wrap inside one request)
            b[51:55] = (0xFFFFFFFF - rng.below(2100)).to_bytes(4, "big")
        return bytes(b)
    ctr = rng.choice([1, 2, 255, 256, 65535, 65536, 32767, 32768, 2 ** 31 - 300, rng.below(2 ** 31 - 300)])
    return "S:%s:%s:%d" % (pat().hex(), pat().hex(), ctr)


def gen_lines(rng, w, cap, tier):
    n = 150 if tier == "quick" else 3000
    out = []
    for i in range(n):
        toks = [boundary_state(rng)]
        for _ in range(1 + rng.below(4)):
            toks.append("g:%d" % rng.choice([0, 1, 32, 33, 64, 65, 100, 4928, 8192] + ([65536] if i % 8 == 0 else [])))
        out.append("drbg " + " ".join(toks))
    for i in range(n):
        out.append(history(rng, 40, allow_big=(i % 10 == 0)))
    # long histories without reseed (the counter addition)
    out.append("drbg s:%s r:%d:1" % (rng.bytes(16).hex(), 40000 if tier == "quick" else 300000))
    out.append("drbg s:%s r:33000:7 g:40" % rng.bytes(16).hex())
    for _ in range(60 if tier == "quick" else 1500):
        out.append("md_map sh256 %s" % (rng.bytes(rng.below(200)).hex() or "."))
    for _ in range(150 if tier == "quick" else 3000):
        bits = rng.choice([0, 1, w - 1, w, w + 1, 255, 256, 257, rng.below(cap * w + 40)])
        out.append("bn_rand %s %d %d" % (rng.bytes(8).hex(), rng.below(2), bits))
    # sampling below a bound: tiny bounds (the residue is zero for a large share of the draws), powers of two and their neighbours, one
    # and several digits, bounds close to the capacity
    for _ in range(150 if tier == "quick" else 3000):
        k = rng.choice([2, 3, 8, 63, 64, 65, 128, 255, 256, 257, 1 + rng.below(cap * w - 50)])
        b = rng.choice([2, 2, 3, 4, 5, 7, 1 << k, (1 << k) + 1, (1 << k) - 1, rng.bits(k) | (1 << (k - 1)), 2 + rng.below(14)])
        out.append("bn_rand_mod %s %x" % (rng.bytes(8).hex(), max(b, 2)))
    # bn_rand with the state after the call shown (next 16 bytes): every branch of the model — zero bits, below one digit, exact
    # multiples of the digit size (no mask), one over, the largest request that fits, the first that does not, both signs
    edge = [0, 1, 2, 7, 8, 9, w - 1, w, w + 1, 2 * w - 1, 2 * w, 2 * w + 1, 255, 256, 257, cap * w - w, cap * w - 1, cap * w,
            cap * w + 1, cap * w + w, cap * w + w + 1]
    for bits in edge:
        for sign in (0, 1):
            out.append("bn_rand_st %s %d %d" % (rng.bytes(1 + rng.below(16)).hex(), sign, bits))
    for _ in range(120 if tier == "quick" else 3000):
        bits = rng.choice([rng.below(w + 1), w * (1 + rng.below(cap)), w * rng.below(cap) + 1 + rng.below(w - 1), rng.below(cap * w + 2 * w)])
        out.append("bn_rand_st %s %d %d" % (rng.bytes(1 + rng.below(16)).hex(), rng.below(2), bits))
    return out


def fp_contexts(exe):
    """(id, p, bits, digs) of every field parameter identifier the build supports (asked from the running library)"""
    import subprocess
    ids = list(range(1, 130))
    out = subprocess.run([exe], input="".join("fp_rand_ctx %d\n" % i for i in ids), stdout=subprocess.PIPE,
                         stderr=subprocess.DEVNULL, text=True, timeout=300).stdout.split("\n")
    res = []
    for i, l in zip(ids, out):
        if l.startswith("p="):
            kv = dict(t.split("=") for t in l.split())
            res.append((i, kv["p"], int(kv["bits"]), int(kv["digs"])))
    return res


def fb_lines(rng, exe, tier):
    """fb_rand under the binary field the build is configured for (RLC_FB_BITS is a compile-time constant; asked from the library)"""
    import subprocess
    l = subprocess.run([exe], input="fb_rand_ctx\n", stdout=subprocess.PIPE, stderr=subprocess.DEVNULL, text=True, timeout=60).stdout.strip()
    if not l.startswith("bits="):
        return []
    kv = dict(t.split("=") for t in l.split())
    return ["fb_rand %s %s %s" % (rng.bytes(1 + rng.below(16)).hex(), kv["bits"], kv["digs"]) for _ in range(40 if tier == "quick" else 1000)]


def fp_lines(rng, ctxs, tier):
    """fp_rand for every supported prime: primes far below 2^bits (the subtraction loop runs for a large share of the draws) and primes
    just below 2^bits (it practically never runs)"""
    out = []
    per = 12 if tier == "quick" else 300
    for (i, p, bits, digs) in ctxs:
        for _ in range(per):
            out.append("fp_rand %s %d %s %d %d" % (rng.bytes(1 + rng.below(16)).hex(), i, p, bits, digs))
    return out


CORPUS = [
    # NIST CAVS-style shape: seed, generate, generate (values compared with the SP 800-90A spec in the driver)
    "drbg s:a65ad0f345db4e0effe875c3a2e71f42c7129d620ff5c119a9ef55f05185e0fb8581f9317517276e06e9607ddbcbcc2e g:128 g:128",
    "drbg s:00 g:0 g:1 s:. g:65536 g:65537",
]


def streams(ctx, scale=1):
    exe = ctx.oracle("base", defs=("ORACLE_MD",), sources=("oracle.c", "ops_bn.c", "ops_md.c"), tag="_md")
    hdr, kv = _cfg(exe)
    lines = ["cfg"] + CORPUS
    fctx = fp_contexts(exe)
    for _ in range(scale):
        lines += gen_lines(ctx.rng, kv["w"], kv["size"], ctx.tier)
        lines += fp_lines(ctx.rng, fctx, ctx.tier)
        lines += fb_lines(ctx.rng, exe, ctx.tier)
    res = [{"name": "drbg-base", "cfg": "base", "exe": exe, "lines": lines}]
    # a field whose bit length is not a multiple of the digit size (the top-digit mask of fp_rand)
    exe2 = ctx.oracle("p255", defs=("ORACLE_MD",), sources=("oracle.c", "ops_bn.c", "ops_md.c"), tag="_md")
    hdr2, kv2 = _cfg(exe2)
    lines2 = ["cfg"]
    fctx2 = fp_contexts(exe2)
    for _ in range(scale):
        lines2 += fp_lines(ctx.rng, fctx2, ctx.tier)
    res.append({"name": "fprand-p255", "cfg": "p255", "exe": exe2, "lines": lines2})
    return res


def search_streams(ctx, mfail):
    return streams(ctx, scale=3)


def replay_streams(ctx, rp):
    cfg = rp.get("config", "base")
    exe = ctx.oracle(cfg, defs=("ORACLE_MD",), sources=("oracle.c", "ops_bn.c", "ops_md.c"), tag="_md")
    return [{"name": "replay", "cfg": cfg, "exe": exe, "lines": ["cfg"] + rp.get("op_lines", [])}]


def nontrivial(r):
    return r["got"] not in ("err", "skip") and any(c in "0123456789abcdef" for c in r["got"])


def matches_finding(f, r):
    return False
