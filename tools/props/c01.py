"""C01 — multi-precision integer arithmetic is exact: correspondence streams and finding predicates."""
from props.bngen import hx, magnitude, signed, ndigits, div_pair, digit_pattern

TRUSTED = [
    "modelled, not verified: __uint128_t product of RLC_MUL_DIG/RLC_DIV_DIG (modelled as (a*b)/B, (a*b)%B), arch_lzcnt",
    "aliasing and 'inputs unchanged' are observed on the implementation only (each line is run in every alias pattern)",
]
ASSUMPTIONS = [
    "ALLOC=AUTO capacity model: bn_grow fails iff more than RLC_BN_SIZE digits are requested",
    "operands longer than the configured precision (RLC_BN_DIGS digits) may be refused with an error",
]
RULE = ("structured generator (lengths 0..capacity digits, digit patterns 0/1/B-1/B/2±1/single-bit/random, all sign pairs, "
        "all alias patterns, Knuth-D corner families); non-trivial = distinct line whose result is not an error")

BIN = ["bn_add", "bn_sub", "bn_mul", "bn_mul_basic", "bn_mul_comba", "bn_mul_karat", "bn_div"]
UN = ["bn_sqr", "bn_sqr_comba", "bn_sqr_basic", "bn_sqr_karat", "bn_dbl", "bn_hlv", "bn_neg", "bn_abs", "bn_copy"]
DIG = ["bn_add_dig", "bn_sub_dig", "bn_mul_dig", "bn_div_dig", "bn_div_rem_dig"]
LOW1 = ["add1", "sub1", "mul1", "lsh1", "lshb", "rsh1", "rshb", "div1", "sqrn"]
LOW2 = ["addn", "subn", "muln"]


def gen_lines(rng, w, cap, digs, n):
    out = []
    for _ in range(n):
        k = rng.below(100)
        # operand length: mostly within the configured precision, sometimes up to the capacity
        md = digs if rng.chance(4, 5) else cap
        if k < 30:
            op = rng.choice(BIN)
            if op == "bn_div":
                a, b = div_pair(rng, w, md)
                if rng.chance(2, 5):
                    a = -a
                if rng.chance(2, 5):
                    b = -b
            else:
                mdm = md if op in ("bn_add", "bn_sub") else min(md, rng.choice([digs, cap // 2, cap // 2 + 1]))
                a, b = signed(rng, w, mdm), signed(rng, w, mdm)
                if rng.chance(1, 6):
                    b = a if rng.chance(1, 2) else -a
            out.append("%s %d %s %s" % (op, rng.below(5), hx(a), hx(b)))
        elif k < 40:
            a, b = div_pair(rng, w, md)
            if rng.chance(2, 5):
                a = -a
            if rng.chance(2, 5):
                b = -b
            out.append("bn_div_rem %d %s %s" % (rng.below(5), hx(a), hx(b)))
        elif k < 52:
            op = rng.choice(UN)
            mdm = md if not op.startswith("bn_sqr") else min(md, rng.choice([digs, cap // 2, cap // 2 + 1]))
            out.append("%s %d %s" % (op, rng.below(2), hx(signed(rng, w, mdm))))
        elif k < 62:
            op = rng.choice(DIG)
            a = signed(rng, w, md)
            d = digit_pattern(rng, w)
            if op in ("bn_add_dig", "bn_sub_dig") and rng.chance(1, 3):
                a = rng.choice([-1, 1]) * (d + rng.choice([-1, 0, 1]))  # crossing zero
            out.append("%s %d %s %x" % (op, rng.below(2), hx(a), d))
        elif k < 70:
            op = rng.choice(["bn_lsh", "bn_rsh"])
            a = signed(rng, w, md)
            bits = rng.choice([0, 1, w - 1, w, w + 1, 2 * w, rng.below(4 * w), rng.below(cap * w + 70)])
            out.append("%s %d %s %d" % (op, rng.below(2), hx(a), bits))
        elif k < 76:
            a, b = signed(rng, w, md), signed(rng, w, md)
            if rng.chance(1, 3):
                b = rng.choice([a, -a, a + 1, a - 1])
                if abs(b).bit_length() > cap * w:       # a + 1 of the largest representable value is not an operand
                    b = a
            out.append("bn_cmp %s %s" % (hx(a), hx(b)))
        elif k < 79:
            a = signed(rng, w, 2)
            out.append("bn_cmp_dig %s %x" % (hx(a), rng.choice([abs(a) & ((1 << w) - 1), digit_pattern(rng, w)])))
        elif k < 82:
            out.append("bn_info %s" % hx(signed(rng, w, md)))
        elif k < 85:
            a = signed(rng, w, md)
            out.append("bn_get_bit %s %d" % (hx(a), rng.choice([0, abs(a).bit_length(), max(0, abs(a).bit_length() - 1),
                                                                rng.below(abs(a).bit_length() + 70)])))
        elif k < 87:
            a2 = signed(rng, w, md)
            out.append("bn_mod_dig 0 %s %x" % (hx(a2), rng.choice([0, 1, 2, 3, (1 << w) - 1, 1 << (w - 1), digit_pattern(rng, w)])))
            out.append("bn_mod_2b %d %s %d" % (rng.below(2), hx(a2), rng.choice([0, 1, w - 1, w, w + 1, abs(a2).bit_length(), max(abs(a2).bit_length() - 1, 0),
                                                                                    abs(a2).bit_length() + 5, rng.below(cap * w)])))
            out.append("bn_set_2b %d" % rng.choice([0, 1, w - 1, w, cap * w - 1, cap * w, rng.below(cap * w + 10)]))
            a_ = rng.choice([0, 1, -1, rng.bits(w), rng.bits(3 * w), -rng.bits(2 * w + 5), (1 << (cap * w)) - 1, rng.bits(rng.below(cap * w) + 1)])
            nb_ = abs(a_).bit_length()
            out.append("bn_set_bit %s %d %d" % (hx(a_), rng.choice([0, 1, w - 1, w, max(nb_ - 1, 0), nb_, nb_ + 1, nb_ + w, nb_ + 3 * w + 1, cap * w - 1,
                                                                     cap * w, cap * w + 1, rng.below(cap * w + 10)]), rng.below(2)))
        elif k < 93:
            op = rng.choice(LOW1)
            n_ = rng.choice([1, 2, 3, digs, rng.below(cap) + 1])
            if op == "sqrn":
                n_ = min(n_, cap // 2)
            a = magnitude(rng, w, n_)
            if op in ("lshb", "rshb"):
                d = 1 + rng.below(w - 1)
            elif op in ("lsh1", "rsh1", "sqrn"):
                d = 0
            else:
                d = digit_pattern(rng, w)
                if op == "div1" and d == 0:
                    d = 3
            out.append("low1 %s %d %d %x %x" % (op, rng.below(2) if op != "sqrn" else 0, n_, a, d))
        elif k < 97:
            op = rng.choice(LOW2)
            n_ = rng.choice([1, 2, 3, digs, rng.below(cap // 2) + 1])
            a, b = magnitude(rng, w, n_), magnitude(rng, w, n_)
            out.append("low2 %s %d %d %x %x" % (op, rng.below(3) if op != "muln" else 0, n_, a, b))
        elif k < 98:
            n_ = rng.choice([1, 2, digs, rng.below(cap) + 1])
            out.append("lowa mula %d %x %x %x" % (n_, magnitude(rng, w, n_), magnitude(rng, w, n_), digit_pattern(rng, w)))
        else:
            a, b = div_pair(rng, w, digs)
            if b == 0 or a < b:
                a, b = b + a + 1, max(b, 1)
            sa, sb = ndigits(a, w), ndigits(b, w)
            out.append("lowdiv %d %x %d %x" % (sa, a, sb, b))
    return out


CORPUS = [
    "bn_div_rem 0 0 -5", "bn_div_rem_dig 0 -7 2", "bn_div_rem_dig 0 -6 2", "bn_div_dig 0 -7 2", "bn_hlv 0 -7", "bn_rsh 0 -7 1",
    "bn_rsh 0 -7 2", "bn_add 4 -1 0", "bn_sub 3 5 0", "bn_mul 0 -5 0", "bn_div 0 7 -2", "bn_div_rem 0 -7 2", "bn_div_rem 0 7 -7",
]


def _cfg(exe):
    import subprocess
    out = subprocess.run([exe], input="cfg\n", stdout=subprocess.PIPE, stderr=subprocess.DEVNULL, text=True).stdout.strip()
    kv = dict(t.split("=") for t in out.split()[1:])
    return out, {k: int(v) for k, v in kv.items()}


def streams(ctx, scale=1):
    n = (4000 if ctx.tier == "quick" else 120000) * scale
    res = []
    for cfg in ("base", "w8"):
        exe = ctx.oracle(cfg)
        hdr, kv = _cfg(exe)
        lines = ["cfg"] + CORPUS + gen_lines(ctx.rng, kv["w"], kv["size"], kv["digs"], n)
        res.append({"name": "bn-" + cfg, "cfg": cfg, "exe": exe, "lines": lines})
    return res


def search_streams(ctx, mfail):
    return streams(ctx, scale=5)


def replay_streams(ctx, rp):
    cfg = rp.get("config", "base")
    exe = ctx.oracle(cfg)
    return [{"name": "replay", "cfg": cfg, "exe": exe, "lines": ["cfg"] + rp.get("op_lines", [])}]


def nontrivial(r):
    return not r["got"].startswith("err") and r["got"] != "skip"


def _args(r):
    t = r["line"].split()
    return t[0], t[1:]


def _int(s):
    return -int(s[1:], 16) if s.startswith("-") else int(s, 16)


def _nf(v, w):
    """the oracle's print of the integer v in normal form"""
    m = abs(v)
    used = max(1, (m.bit_length() + w - 1) // w)
    return "%s%x:u%d" % ("-" if v < 0 else "", m, used)


def matches_finding(f, r):
    """a finding is one specific wrong behaviour (truncation toward zero where the header documents floor): the line is matched only if
    the library returned exactly that value in normal form, so any other wrong answer on the same inputs is still a violation"""
    op, a = _args(r)
    pred = f.get("pred")
    w = 8 if "w8" in r.get("cfg", "") else 64
    got = r.get("got", "")
    try:
        if pred == "rsh_neg_inexact":        # magnitude shift of a negative operand with dropped bits
            if op == "bn_hlv":
                v = _int(a[1])
                return v < 0 and v % 2 != 0 and got == _nf(-(abs(v) >> 1), w)
            if op == "bn_rsh":
                v, k = _int(a[1]), int(a[2])
                return v < 0 and v % (1 << k) != 0 and got == _nf(-(abs(v) >> k), w)
        if pred == "div_dig_neg_inexact":    # single-digit division of a negative operand, inexact
            if op in ("bn_div_dig", "bn_div_rem_dig"):
                d = int(a[2], 16)
                v = _int(a[1])
                if not (v < 0 and d > 1 and v % d != 0):
                    return False
                q = -(abs(v) // d)
                if op == "bn_div_dig":
                    return got == _nf(q, w)
                return got == "%s %x" % (_nf(q, w), v % d)        # the remainder is the non-negative one (6ced643)
        if pred == "div_zero_by_neg":
            if op in ("bn_div_rem", "bn_div"):
                return _int(a[1]) == 0 and _int(a[2]) < 0
    except Exception:
        return False
    return False
