"""C09 extension (Pol family): bn_evl (Horner modulo b) and bn_lag (coefficients of prod (X - a_i) modulo b)."""
from props.bngen import hx, magnitude

TRUSTED = [
    "class A (Model/NtPoly.lean mirrors the two loops of src/bn/relic_bn_lag.c; Lemmas/NtPoly.lean: evl = (sum a_j x^j) mod b for every b > 0, "
    "lag = the n+1 reduced coefficients of prod (X - a_i) mod b for every b > 1 — as a congruence at every integer X; executed by the driver on every line): "
    "bn_evl, bn_lag (non-positive moduli and b = 1 stay with the specification-only handler)",
]

CORPUS = ["nt_lag 7", "nt_lag 7 0", "nt_lag 7 7", "nt_lag 7 1 2 3", "nt_lag 7 3 3 3", "nt_lag 2 1 1", "nt_lag 7 -1 8 f", "nt_evl 0 7", "nt_evl 3 7 1 4 1 1",
          "nt_evl -3 7 1 4 1 1", "nt_evl a 7 -1 -8 f", "nt_evl 1 1 5 6", "nt_evl 0 5 0 0 0"]


def gen(rng, w, cap, digs, n):
    out = []
    B = 1 << w
    hm = max(1, (cap // 2 - 1) // 2)
    for _ in range(max(1, n // 3)):
        b = rng.choice([2, 3, 7, B - 1, B, B + 1, magnitude(rng, w, min(hm, 3)) + 2, magnitude(rng, w, hm) + 2, 0xfffffffb, (1 << 61) - 1])
        pick = lambda: rng.choice([0, 1, b - 1, b, b + 1, rng.below(b), rng.below(b), -rng.below(b) - 1, rng.below(b) + b * rng.below(3)])
        if rng.chance(1, 2):
            cnt = rng.choice([0, 1, 2, 3, 5, 8, 13])
            out.append(("nt_evl %s %x %s" % (hx(pick()), b, " ".join(hx(pick()) for _ in range(cnt)))).rstrip())
        else:
            cnt = rng.choice([0, 1, 2, 3, 4, 6, 9, 12])
            pts = [pick() for _ in range(cnt)]
            if cnt >= 2 and rng.chance(1, 3):
                pts[rng.below(cnt)] = pts[rng.below(cnt)]          # repeated root
            out.append(("nt_lag %x %s" % (b, " ".join(hx(p) for p in pts))).rstrip())
    return out
