"""C14 — hash functions, MAC, KDFs and the block cipher conform to their standards."""
from props.c01 import _cfg

TRUSTED = [
    "SHA-224/256/384/512, BLAKE2s (keyed and unkeyed), HMAC, MGF1/KDF2, expand_message_xmd, AES, CBC and PKCS#7 are Lean definitions written "
    "from FIPS 180-4, RFC 7693, RFC 2104, PKCS#1/IEEE 1363, RFC 9380 and FIPS 197/SP 800-38A (no network: the reading of the standards is "
    "anchored on the fixed vectors of /repo/test/test_md.c, FIPS 197 appendix C and python hashlib inside tools/)",
    "class A (model mirrors the C control flow, proved = specification for all inputs, executed on every line): the Reset/Input/Result "
    "code of sha224-256.c and sha384-512.c (one parametric model: block buffer, Message_Block_Index, length counter with the AddLength test "
    "of the variant that is compiled, both padding cases, Computed/Corrupted exits), blake2s-ref.c init/init_key/update/final (buffer-fill "
    "logic, t[0]/t[1] counter with carry, last-block flag, parameter checks), md_hmac, nist_kdf (md_kdf/md_mgf), md_xmd over all four SHA "
    "streams, padEncrypt/padDecrypt/bc_aes_cbc_enc/bc_aes_cbc_dec, rijndaelKeySetupEnc + rijndaelEncrypt and rijndaelKeySetupDec + "
    "rijndaelDecrypt (word-level mirror over the tables extracted from the C text: = FIPS 197 KeyExpansion / Cipher resp. the par. 5.3.5 "
    "key schedule / equivalent inverse cipher = InvCipher, for every key and block), so the CBC + PKCS#7 theorems hold for the table code "
    "end to end with no hypothesis",
    "kernel-checked ties to the C text, regenerated on every run: the ten T-tables and rcon of rijndael-alg-fst.c (all 256 entries each "
    "= the FIPS 197 S-box / inverse S-box / GF(2^8) products they are documented to be), K / H0 / IV / sigma constants of the three hash "
    "files incl. both variants of sha384-512.c (= the constants of the standards' definitions), rotation amounts of the SIGMA/sigma/G "
    "macros (python-side comparison)",
    "class C (executable specification compared on the presented lines only): the round functions SHA224_256ProcessMessageBlock, "
    "SHA384_512ProcessMessageBlock (compiled in its 32-bit-word emulation) and blake2s_compress - the models call the specification's "
    "compress / F, whose constants are tied as above but whose statement-level correspondence to the C text is the per-line comparison; "
    "makeKey2/cipherInit glue of rijndael-api-fst.c; the preset-state harness ops md_stream_len / b2s_ctr "
    "write into library structs (counter located by a probe of the library itself)",
]
ASSUMPTIONS = [
    "message bit length below 2^64 (SHA-224/256 streaming theorems) resp. below 2^128 (SHA-384/512) - the bounds of FIPS 180-4; "
    "BLAKE2s: fewer than 2^64 - 64 bytes",
    "md_map_* pass a size_t length to SHA*Input(unsigned int): messages of 4 GiB and more are outside the presented range",
    "AES-CBC theorems: 16-byte IV, key of 16/24/32 bytes (other key sizes: rejection is modelled and compared)",
]
# lean/RelicVerif/Gen/AesTables.lean (the ten lookup tables and rcon of src/bc/rijndael-alg-fst.c) and Gen/MdConsts.lean (K / H0 / IV / sigma
# of the hash implementations) are regenerated from the C text on every run
GENERATED = ["aes", "md"]
RULE = ("all message lengths 0..300 (every residue mod 64 and mod 128), key lengths 0..200, output lengths 0..3*hLen+5 and the 255*hLen "
        "boundary, AES key sizes 16/24/32 (+ invalid), plaintext lengths 0..80, every single-byte corruption of the last ciphertext block, "
        "controlled alterations of every part of the PKCS#7 padding; incremental APIs with structured chunkings (single, byte-wise, cuts "
        "before/at/after block boundaries, empty chunks, chunks longer than two blocks, Result/final in between), BLAKE2s digest lengths "
        "1..32 and key lengths 0..32 (+ invalid), preset counters at every value where a counter test can fire; "
        "non-trivial = distinct line with a non-error result")


def hexs(b):
    return b.hex() or "."


def gen_lines(rng, tier):
    out = []
    q = tier == "quick"
    lens = list(range(0, 140)) + [183, 184, 191, 192, 239, 240, 247, 248, 255, 256, 257, 300]
    for alg in ("sh224", "sh256", "sh384", "sh512", "b2s160", "b2s256"):
        for n in (lens if not q else lens[::3] + [55, 56, 63, 64, 111, 112, 119, 120, 127, 128]):
            out.append("md_map %s %s" % (alg, hexs(rng.bytes(n))))
    for kl in ([0, 1, 31, 32, 33, 63, 64, 65, 100, 200] if q else list(range(0, 70)) + [100, 127, 128, 129, 200]):
        for ml in ([0, 1, 55, 56, 64, 100] if q else [0, 1, 7, 55, 56, 63, 64, 65, 100, 200]):
            out.append("md_hmac %s %s" % (hexs(rng.bytes(kl)), hexs(rng.bytes(ml))))
    for op in ("md_kdf", "md_mgf"):
        for ol in ([0, 1, 31, 32, 33, 64, 65, 96, 101] if q else list(range(0, 101)) + [128, 255, 256, 257, 1000]):
            out.append("%s %d %s" % (op, ol, hexs(rng.bytes(rng.below(70)))))
    for alg in ("sh224", "sh256", "sh384", "sh512"):
        hl = {"sh224": 28, "sh256": 32, "sh384": 48, "sh512": 64}[alg]
        ols = [0, 1, hl - 1, hl, hl + 1, 2 * hl, 3 * hl + 5, 255 * hl, 255 * hl + 1, 255 * hl - 1]
        if not q:
            ols += [rng.below(4 * hl) for _ in range(30)]
        for ol in ols:
            for dl in ([0, 16, 255, 256] if ol in (hl, 2 * hl) or not q else [rng.choice([1, 16, 43])]):
                out.append("md_xmd %s %d %s %s" % (alg, ol, hexs(rng.bytes(rng.below(100))), hexs(rng.bytes(dl))))
    # AES-CBC
    for kl in (16, 24, 32):
        for pl in ([0, 1, 15, 16, 17, 31, 32, 33, 64] if q else range(0, 81)):
            key, iv, pt = rng.bytes(kl), rng.bytes(16), rng.bytes(pl)
            cap = pl + 16 - pl % 16
            out.append("aes_enc %d %s %s %s" % (cap + rng.choice([0, 0, 5]), key.hex(), iv.hex(), hexs(pt)))
            if rng.chance(1, 4):
                out.append("aes_enc %d %s %s %s" % (max(0, cap - 1), key.hex(), iv.hex(), hexs(pt)))   # buffer too short
    for kl in (0, 15, 17, 33):
        out.append("aes_enc 64 %s %s %s" % (hexs(rng.bytes(kl)), rng.bytes(16).hex(), rng.bytes(20).hex()))
    # FIPS 197 appendix C through CBC with a zero IV (the first ciphertext block is the block cipher output), extreme keys and blocks
    pt = "00112233445566778899aabbccddeeff"
    for kl in (16, 24, 32):
        out.append("aes_enc 32 %s %s %s" % (bytes(range(kl)).hex(), "00" * 16, pt))
        for kb, pb in ((0x00, 0x00), (0xff, 0xff), (0x00, 0xff), (0xff, 0x00), (0x52, 0x52), (0x63, 0x63)):
            out.append("aes_enc 48 %s %s %s" % (("%02x" % kb) * kl, "00" * 16, ("%02x" % pb) * 32))
    return out


def _splits(rng, n, bs):
    """structured chunkings of a message of n bytes: lists of chunk lengths (sum = n)"""
    out = [[n]]
    if n >= 1:
        out.append([1, n - 1])
        out.append([n - 1, 1])
    if 1 < n <= 3 * bs // 2:
        out.append(_small(n))                                # byte at a time (the oracle takes at most 64 tokens per line: 1- to 4-byte chunks)
    for cut in (bs - 1, bs, bs + 1, 2 * bs):                   # a chunk ending just before / at / after a block boundary
        if 0 < cut < n:
            out.append([cut, n - cut])
    if n > 2:
        a = 1 + rng.below(n - 1)
        b = a + rng.below(n - a)
        out.append([a, b - a, n - b])                        # random three-way split (may contain an empty chunk)
    out.append([0, n])
    out.append([n, 0])
    if n > 4:
        out.append([n // 3, 0, 0, n - n // 3])
    return out


def _small(n):
    c = (n + 55) // 56
    return [c] * (n // c) + ([n % c] if n % c else [])


def _toks(msg, lens):
    t, o = [], 0
    for l in lens:
        t.append(hexs(msg[o:o + l]))
        o += l
    return t


def gen_stream_lines(rng, tier):
    """the incremental APIs: SHA*Reset/Input/Result and blake2s_init[_key]/update/final with structured chunkings"""
    q = tier == "quick"
    out = []
    for alg, bs, lb in (("sh224", 64, 8), ("sh256", 64, 8), ("sh384", 128, 16), ("sh512", 128, 16)):
        pb = bs - lb                                          # first length whose padding needs an extra block is pb
        lens = [0, 1, 2, pb - 2, pb - 1, pb, pb + 1, bs - 2, bs - 1, bs, bs + 1, bs + pb - 1, bs + pb, bs + pb + 1, 2 * bs - 1, 2 * bs,
                2 * bs + 1, 3 * bs + 5, 4 * bs]
        if not q:
            lens += list(range(3, bs + 20)) + [5 * bs + rng.below(bs) for _ in range(10)]
        for n in lens:
            msg = rng.bytes(n)
            sp = _splits(rng, n, bs)
            if q:
                sp = [sp[0]] + [sp[1 + rng.below(len(sp) - 1)] for _ in range(2)] + ([_small(n)] if n in (pb, bs, bs + 1) else [])
            for lens_ in sp:
                out.append("md_stream %s %s" % (alg, " ".join(_toks(msg, lens_))))
        # chunks longer than one / two blocks inside a longer message, block-aligned and not
        for lens_ in ([2 * bs + 3, bs - 3], [3, 2 * bs, bs - 3], [bs, bs, bs], [bs // 2, bs // 2, bs // 2, bs // 2 + pb]):
            msg = rng.bytes(sum(lens_))
            out.append("md_stream %s %s" % (alg, " ".join(_toks(msg, lens_))))
        # Result in between: twice (same digest), then empty Input (allowed), then data (state error), Result first
        m = rng.bytes(pb + 3)
        for pat in (["="], [hexs(m), "="], [hexs(m), "=", "."], [hexs(m), "=", "00"], [hexs(m[:5]), "=", hexs(m[5:])], ["=", hexs(m)],
                    ["=", ".", "="], [hexs(m), "=", "00", "="], [".", "=", "."]):
            out.append("md_stream %s %s" % (alg, " ".join(pat)))
        out.append("md_stream %s" % alg)                       # no Input call at all
        # the counter test of SHA*_AddLength (counter preset just below the values where a test fires or fired once:
        # 2^64 for sha224-256.c; 2^128 for sha384-512.c; k*2^96 (fixed: 91cb094, C14-ext-1) and 2^64 must NOT fire there)
        if bs == 64:
            presets = [(1 << 64) - 8, (1 << 64) - 16, (1 << 64) - 24, (1 << 32) - 8, (1 << 63), 0x1234567800]
        else:
            presets = [(1 << 128) - 8, (1 << 128) - 16, (1 << 96) - 8, (1 << 96) - 16, 3 * (1 << 96) - 8, 7 * (1 << 96) - 8, 8 * (1 << 96) - 8,
                       9 * (1 << 96) - 8, (1 << 64) - 8, (1 << 32) - 8, (1 << 96) + (1 << 32) - 8, (1 << 127), 0x1234567800]
        for pv in presets:
            for lens_ in ([1], [2], [1, 1, 1], [3], [bs + 3]):
                msg = rng.bytes(sum(lens_))
                out.append("md_stream_len %s %x %s" % (alg, pv, " ".join(_toks(msg, lens_))))
    # BLAKE2s
    for ol in ([1, 20, 32] if q else [1, 2, 16, 20, 28, 31, 32]):
        for kl in ([0, 1, 32] if q else [0, 1, 16, 31, 32]):
            key = rng.bytes(kl)
            lens = [0, 1, 63, 64, 65, 127, 128, 129, 192, 193, 300]
            if not q:
                lens += list(range(2, 63, 3)) + [256, 257, 500]
            for n in lens:
                msg = rng.bytes(n)
                sp = _splits(rng, n, 64)
                if q:
                    sp = [sp[0], sp[1 + rng.below(len(sp) - 1)]]
                for lens_ in sp:
                    out.append("b2s_stream %d %s %s" % (ol, hexs(key), " ".join(_toks(msg, lens_))))
                out.append("b2s %d %s %s" % (ol, hexs(key), hexs(msg)))
    # the fill logic of blake2s_update: left + inlen below / at / just above the block, and the direct-from-input loop bounds
    for left in (0, 1, 10, 63, 64):
        fill = 64 - left
        for inl in sorted({1, fill - 1, fill, fill + 1, fill + 63, fill + 64, fill + 65, fill + 128, fill + 129}):
            if inl <= 0:
                continue
            for tail in (0, 1):
                lens_ = ([left] if left else []) + [inl] + ([tail] if tail else [])
                msg = rng.bytes(sum(lens_))
                out.append("b2s_stream 32 . %s" % " ".join(_toks(msg, lens_)))
    m = rng.bytes(70)
    for pat in (["="], [hexs(m), "="], [hexs(m), "=", "."], [hexs(m), "=", "00"], ["=", hexs(m)]):
        out.append("b2s_stream 32 . %s" % " ".join(pat))
        out.append("b2s_stream 20 %s %s" % (hexs(rng.bytes(16)), " ".join(pat)))
    out.append("b2s_stream 32 .")
    out.append("b2s_stream 32 %s" % hexs(rng.bytes(32)))
    # rejected parameters: outlen 0 / 33, key of 33 bytes
    for ol, kl in ((0, 0), (33, 0), (0, 16), (33, 16), (32, 33), (16, 40)):
        out.append("b2s_stream %d %s %s" % (ol, hexs(rng.bytes(kl)), hexs(rng.bytes(5))))
        out.append("b2s %d %s %s" % (ol, hexs(rng.bytes(kl)), hexs(rng.bytes(5))))
    # the carry t[0] -> t[1] of blake2s_increment_counter (state preset below the 2^32 boundary)
    for t0, t1 in ((0xffffffc0, 0), (0xffffff80, 0), (0xffffffc0, 0xffffffff), (0xffffffff, 5), (0xffffffc1, 1), (0x10, 7), (0, 0)):
        for lens_ in ([10], [64], [65], [64, 64, 1], [200], [63, 1, 1]):
            msg = rng.bytes(sum(lens_))
            out.append("b2s_ctr 32 %x %x %s" % (t0, t1, " ".join(_toks(msg, lens_))))
    return out


def gen_dec_lines(rng, tier, enc_pairs):
    """second pass: decrypt honest ciphertexts, corrupted ones, wrong lengths"""
    out = []
    for line, ct in enc_pairs:
        t = line.split()
        if ct.startswith("err") or " " in ct:
            continue
        key, iv = t[2], t[3]
        n = len(ct) // 2
        out.append("aes_dec %d %s %s %s" % (n, key, iv, ct))
        out.append("aes_dec %d %s %s %s" % (n - 1, key, iv, ct))     # output buffer one short
        b = bytearray.fromhex(ct)
        pos = [n - 1, n - 16, max(0, n - 17), rng.below(n)] if tier == "quick" else list(range(max(0, n - 32), n))
        for p in pos:
            c = bytearray(b)
            c[p] ^= 1 << rng.below(8)
            out.append("aes_dec %d %s %s %s" % (n, key, iv, c.hex()))
        ivb = bytearray.fromhex(iv)
        ivb[15] ^= rng.choice([1, 2, 0x10, 0xff])
        out.append("aes_dec %d %s %s %s" % (n, key, ivb.hex(), ct))
        # controlled alterations of single bytes of the LAST PLAINTEXT block (through the preceding ciphertext block, or the IV for
        # a one-block message): the first padding byte, a middle one, the last data byte (still well formed), the padding length
        # byte raised / lowered by one, set to 0 and to 17
        pl = 0 if t[4] == "." else len(t[4]) // 2
        padlen = 16 - pl % 16
        def alter(pos, mask):
            if n >= 32:
                c = bytearray(b)
                c[n - 32 + pos] ^= mask
                return "aes_dec %d %s %s %s" % (n, key, iv, c.hex())
            v = bytearray.fromhex(iv)
            v[pos] ^= mask
            return "aes_dec %d %s %s %s" % (n, key, v.hex(), ct)
        out.append(alter(16 - padlen, 1 << rng.below(8)))                       # first padding byte
        if padlen > 2:
            out.append(alter(16 - padlen + 1 + rng.below(padlen - 2), 0x80))    # a middle padding byte
        if padlen < 16:
            out.append(alter(16 - padlen - 1, 1 << rng.below(8)))               # last data byte: accepted, other plaintext
        out.append(alter(15, padlen ^ (padlen + 1)))                            # length byte + 1
        out.append(alter(15, padlen ^ (padlen - 1)))                            # length byte - 1 (0 for padlen 1)
        out.append(alter(15, padlen))                                           # length byte 0
        out.append(alter(15, padlen ^ 17))                                      # length byte 17
        out.append("aes_dec %d %s %s %s" % (n, key, iv, ct[:-2]))    # not a multiple of the block size
    out.append("aes_dec 16 %s %s ." % (rng.bytes(16).hex(), rng.bytes(16).hex()))
    return out


CORPUS = [
    "md_map sh256 616263", "md_map sh256 .", "md_hmac 0b0b0b0b0b0b0b0b0b0b0b0b0b0b0b0b0b0b0b0b 4869205468657265",
    "md_xmd sh256 32 . 515549432d5630302d43533032",
]


def _exe(ctx):
    return ctx.oracle("base", defs=("ORACLE_MD", "ORACLE_BC"), sources=("oracle.c", "ops_bn.c", "ops_md.c"), tag="_mdbc")


def streams(ctx, scale=1):
    import check
    exe = _exe(ctx)
    lines = ["cfg"] + CORPUS
    for _ in range(scale):
        lines += gen_lines(ctx.rng, ctx.tier)
        lines += gen_stream_lines(ctx.rng, ctx.tier)
    # the decryption stream is derived from the implementation's own ciphertexts
    enc = [l for l in lines if l.startswith("aes_enc")]
    outs = check.run_oracle(exe, ["cfg"] + enc)[1:]
    lines += gen_dec_lines(ctx.rng, ctx.tier, list(zip(enc, outs)))
    return [{"name": "md-base", "cfg": "base", "exe": exe, "lines": lines}]


def search_streams(ctx, mfail):
    return streams(ctx, scale=3)


def replay_streams(ctx, rp):
    return [{"name": "replay", "cfg": "base", "exe": _exe(ctx), "lines": ["cfg"] + rp.get("op_lines", [])}]


def nontrivial(r):
    return not r["got"].startswith("err")


def matches_finding(f, r):
    t = r["line"].split()
    pred = f.get("pred")
    if pred == "aes_empty_plaintext":
        if t[0] == "aes_enc" and t[4] == ".":
            return True
        if t[0] == "aes_dec":
            # a ciphertext whose padded plaintext is a lone 0x10-block (the PKCS#7 encoding of the empty message)
            return "spec=[.]" in r["verdict"]
    return False
