"""C14 — hash functions, MAC, KDFs and the block cipher conform to their standards."""
from props.c01 import _cfg

TRUSTED = [
    "SHA-224/256/384/512, HMAC, MGF1/KDF2, expand_message_xmd, AES, CBC and PKCS#7 are Lean definitions written from FIPS 180-4, RFC 2104, "
    "PKCS#1/IEEE 1363, RFC 9380 and FIPS 197/SP 800-38A (no network: the reading of the standards is anchored on the fixed vectors of "
    "/repo/test/test_md.c, FIPS 197 appendix C and python hashlib inside tools/)",
    "modelled, not verified: the compression functions and the table-driven rijndaelEncrypt/rijndaelDecrypt are tied to the spec by "
    "correspondence only; BLAKE2s (RFC 7693 definition in Spec/Blake2s.lean) is compared one-shot only",
]
ASSUMPTIONS = [
    "message bit length below 2^64 (SHA-256 streaming theorem)",
    "CBC round-trip theorem takes 'the block decryption inverts the block encryption' as a hypothesis",
]
RULE = ("all message lengths 0..300 (every residue mod 64 and mod 128), key lengths 0..200, output lengths 0..3*hLen+5 and the 255*hLen "
        "boundary, AES key sizes 16/24/32 (+ invalid), plaintext lengths 0..80, every single-byte corruption of the last ciphertext block; "
        "non-trivial = distinct line with a non-error result")


def hexs(b):
    return b.hex() or "."


def gen_lines(rng, tier):
    out = []
    q = tier == "quick"
    lens = list(range(0, 140)) + [183, 184, 191, 192, 239, 240, 247, 248, 255, 256, 257, 300]
    for alg in ("sh224", "sh256", "sh384", "sh512", "b2s160", "b2s256"):
        for n in (lens if not q else lens[::3] + [55, 56, 63, 64, 111, 112, 119, 120, 127, 128]):
            out.append("md_map %s %s" % (alg, hexs(rng.bytes(n))))
    for kl in ([0, 1, 31, 32, 33, 63, 64, 65, 100, 200] if q else list(range(0, 70)) + [100, 127, 128, 129, 200]):
        for ml in ([0, 1, 55, 56, 64, 100] if q else [0, 1, 7, 55, 56, 63, 64, 65, 100, 200]):
            out.append("md_hmac %s %s" % (hexs(rng.bytes(kl)), hexs(rng.bytes(ml))))
    for op in ("md_kdf", "md_mgf"):
        for ol in ([0, 1, 31, 32, 33, 64, 65, 96, 101] if q else list(range(0, 101)) + [128, 255, 256, 257, 1000]):
            out.append("%s %d %s" % (op, ol, hexs(rng.bytes(rng.below(70)))))
    for alg in ("sh224", "sh256", "sh384", "sh512"):
        hl = {"sh224": 28, "sh256": 32, "sh384": 48, "sh512": 64}[alg]
        ols = [0, 1, hl - 1, hl, hl + 1, 2 * hl, 3 * hl + 5, 255 * hl, 255 * hl + 1, 255 * hl - 1]
        if not q:
            ols += [rng.below(4 * hl) for _ in range(30)]
        for ol in ols:
            for dl in ([0, 16, 255, 256] if ol in (hl, 2 * hl) or not q else [rng.choice([1, 16, 43])]):
                out.append("md_xmd %s %d %s %s" % (alg, ol, hexs(rng.bytes(rng.below(100))), hexs(rng.bytes(dl))))
    # AES-CBC
    for kl in (16, 24, 32):
        for pl in ([0, 1, 15, 16, 17, 31, 32, 33, 64] if q else range(0, 81)):
            key, iv, pt = rng.bytes(kl), rng.bytes(16), rng.bytes(pl)
            cap = pl + 16 - pl % 16
            out.append("aes_enc %d %s %s %s" % (cap + rng.choice([0, 0, 5]), key.hex(), iv.hex(), hexs(pt)))
            if rng.chance(1, 4):
                out.append("aes_enc %d %s %s %s" % (max(0, cap - 1), key.hex(), iv.hex(), hexs(pt)))   # buffer too short
    for kl in (0, 15, 17, 33):
        out.append("aes_enc 64 %s %s %s" % (hexs(rng.bytes(kl)), rng.bytes(16).hex(), rng.bytes(20).hex()))
    return out


def gen_dec_lines(rng, tier, enc_pairs):
    """second pass: decrypt honest ciphertexts, corrupted ones, wrong lengths"""
    out = []
    for line, ct in enc_pairs:
        t = line.split()
        if ct.startswith("err") or " " in ct:
            continue
        key, iv = t[2], t[3]
        n = len(ct) // 2
        out.append("aes_dec %d %s %s %s" % (n, key, iv, ct))
        out.append("aes_dec %d %s %s %s" % (n - 1, key, iv, ct))     # output buffer one short
        b = bytearray.fromhex(ct)
        pos = [n - 1, n - 16, max(0, n - 17), rng.below(n)] if tier == "quick" else list(range(max(0, n - 32), n))
        for p in pos:
            c = bytearray(b)
            c[p] ^= 1 << rng.below(8)
            out.append("aes_dec %d %s %s %s" % (n, key, iv, c.hex()))
        ivb = bytearray.fromhex(iv)
        ivb[15] ^= rng.choice([1, 2, 0x10, 0xff])
        out.append("aes_dec %d %s %s %s" % (n, key, ivb.hex(), ct))
        out.append("aes_dec %d %s %s %s" % (n, key, iv, ct[:-2]))    # not a multiple of the block size
    out.append("aes_dec 16 %s %s ." % (rng.bytes(16).hex(), rng.bytes(16).hex()))
    return out


CORPUS = [
    "md_map sh256 616263", "md_map sh256 .", "md_hmac 0b0b0b0b0b0b0b0b0b0b0b0b0b0b0b0b0b0b0b0b 4869205468657265",
    "md_xmd sh256 32 . 515549432d5630302d43533032",
]


def _exe(ctx):
    return ctx.oracle("base", defs=("ORACLE_MD", "ORACLE_BC"), sources=("oracle.c", "ops_bn.c", "ops_md.c"), tag="_mdbc")


def streams(ctx, scale=1):
    import check
    exe = _exe(ctx)
    lines = ["cfg"] + CORPUS
    for _ in range(scale):
        lines += gen_lines(ctx.rng, ctx.tier)
    # the decryption stream is derived from the implementation's own ciphertexts
    enc = [l for l in lines if l.startswith("aes_enc")]
    outs = check.run_oracle(exe, ["cfg"] + enc)[1:]
    lines += gen_dec_lines(ctx.rng, ctx.tier, list(zip(enc, outs)))
    return [{"name": "md-base", "cfg": "base", "exe": exe, "lines": lines}]


def search_streams(ctx, mfail):
    return streams(ctx, scale=3)


def replay_streams(ctx, rp):
    return [{"name": "replay", "cfg": "base", "exe": _exe(ctx), "lines": ["cfg"] + rp.get("op_lines", [])}]


def nontrivial(r):
    return not r["got"].startswith("err")


def matches_finding(f, r):
    t = r["line"].split()
    pred = f.get("pred")
    if pred == "aes_empty_plaintext":
        if t[0] == "aes_enc" and t[4] == ".":
            return True
        if t[0] == "aes_dec":
            # a ciphertext whose padded plaintext is a lone 0x10-block (the PKCS#7 encoding of the empty message)
            return "spec=[.]" in r["verdict"]
    return False
