"""C05 — signature schemes are complete and sound, including encoding checks.

Two passes per stream: key generation and signing lines are first executed by the oracle (the real library, DRBG seeded from the
line) to obtain honest keys and signatures; the verification lines are then built from those values by systematic alteration.
Every line of both passes is part of the stream that is compared with the Lean driver."""
import hashlib
import subprocess
from props.bngen import hx
from props.c03 import Cv

TRUSTED = [
    "specification: Spec/Sig.lean (FIPS 186-4 / SEC 1 ECDSA verification with public-key validation; RFC 8017 RSAVP1 + EMSA-PSS (sLen = 0) / "
    "EMSA-PKCS1-v1_5 verification; the schemes' defining equations for EC-Schnorr, vBNN-IBS, Camenisch-Stadler proofs / signatures of knowledge "
    "and the ring signatures built from them), executed by the compiled Lean driver over the affine arithmetic of Spec/Curve.lean",
    "class C (compared with the specification on the presented lines only): every verdict of the real verifiers and every output of the "
    "real key generators / signers; the theorems are about the specification's own algebra (completeness, malleability, RSA/CRT "
    "round trip over abstract groups / Z/nZ), soundness 'accepts only if the defining equation holds' is by construction of the "
    "specification verifier plus this comparison, not a theorem about the C code",
    "SHA-256, MGF1 are the specifications of C14; curve arithmetic is the specification of C03; curve parameters are those of C18",
    "signers draw their nonces from the library DRBG (seeded per line): the produced signature is checked to verify under the "
    "specification, its exact value is not predicted",
]
ASSUMPTIONS = [
    "the group order n of every selectable curve is prime and the cofactor is 1 (checked by C18)",
    "CP_RSAPD = PKCS2 (PSS, empty salt) in the pinned configuration; PKCS1 / BASIC paddings are exercised in two extra configurations",
]
RULE = ("per curve / key: keys from key generation (several seeds); message lengths 0, 1, 31..33, 55, 56, 63..65, 119..129, ~300; hash-then-sign "
        "and pre-hashed; honest triple, (r, n-s), every listed single-bit flip of each component, single-byte message mutations, substitutions "
        "0, 1, n-1, n, n+1, r+n, s+n, negative, swapped components, swapped / foreign / negated / identity / off-curve / other-curve public keys, "
        "RSA: sig+N, 0, 1, N-1, N, zero-prefixed and shortened encodings, crafted encoded messages; non-trivial = distinct line with a verdict or value")

USES_GENERATED = False
EXTRA_THEOREM_MODULES = []

CURVES = [12, 13, 14, 15, 23, 24]   # NIST_P256, BSI_P256, SECG_K256, SM2_P256, BN_P256, SM9_P256
MSGLENS = [0, 1, 31, 32, 33, 55, 56, 63, 64, 65, 119, 120, 121, 127, 128, 129, 300]
BITPOS = [0, 1, 7, 8, 31, 32, 63, 64, 65, 127, 128, 129, 191, 192, 193, 253, 254, 255]

SRC = ("oracle.c", "ops_bn.c", "ops_fp.c", "ops_ep.c", "ops_md.c", "ops_cp.c")
DEFS = ("ORACLE_FP", "ORACLE_EP", "ORACLE_MD", "ORACLE_EXTRA1=ops_cp")


def _exe(ctx, cfg="base"):
    return ctx.oracle(cfg, defs=DEFS, sources=SRC, tag="_cp")


def ask(exe, pre, lines):
    """first pass: the oracle's answers to `lines` in the context `pre`"""
    if not lines:
        return []
    try:
        p = subprocess.run([exe], input="\n".join(pre + lines) + "\n", stdout=subprocess.PIPE, stderr=subprocess.DEVNULL, text=True,
                           timeout=120)
        out = p.stdout.split("\n")[len(pre):]
    except subprocess.TimeoutExpired:
        out = []
    out = out[:len(lines)]
    return out + ["err"] * (len(lines) - len(out))


def kv(s):
    return dict(t.split("=", 1) for t in s.split() if "=" in t)


def bx(b):
    return b.hex() if b else "."


def pt(P):
    return "inf" if P is None else "%x,%x" % P


def parse_pt(s):
    if s == "inf":
        return None
    a = s.split(",")
    return (int(a[0], 16), int(a[1], 16))


def sha(b):
    return hashlib.sha256(b).digest()


def message(rng, ln):
    k = rng.below(4)
    if k == 0:
        return bytes([rng.choice([0x00, 0xff, 0x61])]) * ln
    return rng.bytes(ln)


def mutate_msg(rng, m):
    """single-byte mutations, plus one byte more / less"""
    out = []
    if m:
        for pos in {0, len(m) - 1, len(m) // 2, rng.below(len(m))}:
            out.append(m[:pos] + bytes([m[pos] ^ (1 << rng.below(8))]) + m[pos + 1:])
        out.append(m[:-1])
    out.append(m + b"\x00")
    out.append(b"\x00" + m)
    return out


def seedhex(rng):
    return rng.bytes(rng.choice([1, 8, 16, 32])).hex()


# -------------------------------------------------------------------------------------------------------------------------
# ECDSA / EC-Schnorr

def ec_component_subs(rng, n, v):
    """values substituted for a component whose honest value is v"""
    return [0, 1, n - 1, n, n + 1, v + n, v - n, -v, n - v, v + 2 * n, (v + 1) % n, 1 << 256, (1 << 256) + v, 2 * v % n]


def bad_keys(rng, cv, Q, others):
    p = cv.p
    l = [None, (Q[0], (p - Q[1]) % p), (Q[0], (Q[1] + 1) % p), ((Q[0] + 1) % p, Q[1]), (0, 0), (Q[1], Q[0]), (rng.bits(256) % p, rng.bits(256) % p),
         cv.add(Q, Q), cv.add(Q, cv.g), cv.g]
    return l + others


def ecdsa_craft(cv, d, k, e):
    """(r, s) from a chosen nonce"""
    n = cv.n
    R = cv.mul(cv.g, k)
    r = R[0] % n
    s = pow(k, -1, n) * (e + r * d) % n
    return r, s


def bits2int(n, h):
    v = int.from_bytes(h, "big")
    if 8 * len(h) > n.bit_length():
        v >>= 8 * len(h) - n.bit_length()
    return v


def gen_ec(ctx, exe, cid, cv, scale, other_pts):
    rng = ctx.rng
    n = cv.n
    pre = ["ep_param %d" % cid]
    lines = []
    nkeys = (1 if ctx.tier == "quick" else 3) * scale
    # ---- key generation
    gl = ["%s_gen %s" % (s, seedhex(rng)) for s in ("ecdsa", "ecss") for _ in range(nkeys)]
    go = ask(exe, pre, gl)
    lines += gl
    keys = {"ecdsa": [], "ecss": []}
    for l, o in zip(gl, go):
        k = kv(o)
        if "d" in k and "q" in k:
            keys[l.split("_")[0]].append((int(k["d"], 16), parse_pt(k["q"])))
    # boundary private keys (valid by definition of the key space)
    for s in keys:
        for d in ((1, n - 1) if ctx.tier == "quick" else (1, n - 1, 2, (n + 1) // 2)):
            keys[s].append((d, cv.mul(cv.g, d)))
    # ---- signing
    lens = MSGLENS if ctx.tier != "quick" else [0, 1, 31, 32, 33, 55, 56, 63, 64, 65] + [rng.choice([119, 120, 121, 127, 128, 129]), 300]
    sl = []
    meta = []
    for ki, (d, Q) in enumerate(keys["ecdsa"]):
        for ln in (lens if ki < nkeys else [rng.choice(lens)]):
            m = message(rng, ln)
            for h in (0, 1):
                if h == 1 and ki > 0 and ln not in (0, 31, 32, 33, 64):
                    continue
                sl.append("ecdsa_sig %s %d %s %x" % (seedhex(rng), h, bx(m), d))
                meta.append(("ecdsa", d, Q, m, h))
    for ki, (d, Q) in enumerate(keys["ecss"]):
        for ln in (lens if ki < nkeys else [rng.choice(lens)]):
            m = message(rng, ln)
            sl.append("ecss_sig %s %s %x" % (seedhex(rng), bx(m), d))
            meta.append(("ecss", d, Q, m, 0))
    so = ask(exe, pre, sl)
    lines += sl
    allQ = [k[1] for k in keys["ecdsa"] + keys["ecss"]]
    # ---- verification
    cnt = {"ecdsa": 0, "ecss": 0}
    for (sch, d, Q, m, h), o in zip(meta, so):
        k = kv(o)
        full = cnt[sch]
        cnt[sch] += 1
        if sch == "ecdsa":
            if "r" not in k:
                continue
            r, s = int(k["r"], 16), int(k["s"], 16)

            def V(Q_, m_, r_, s_, h_=h):
                lines.append("ecdsa_ver %d %s %s %s %s" % (h_, pt(Q_), bx(m_), hx(r_), hx(s_)))
            V(Q, m, r, s)
            V(Q, m, r, n - s)
            # the other mode on the same bytes, and the pre-hashed mode on the digest of a hashed message (equivalent)
            V(Q, m, r, s, 1 - h)
            if h == 0:
                V(Q, sha(m), r, s, 1)
                V(Q, sha(m) + b"\x00", r, s, 1)     # longer digest: leftmost bits only
                V(Q, sha(m)[:-1], r, s, 1)
            heavy = full < 2 * scale or rng.chance(1, 12 if ctx.tier == "quick" else 4)
            if heavy:
                for b in BITPOS:
                    V(Q, m, r ^ (1 << b), s)
                    V(Q, m, r, s ^ (1 << b))
                for v in ec_component_subs(rng, n, r):
                    V(Q, m, v, s)
                for v in ec_component_subs(rng, n, s):
                    V(Q, m, r, v)
                V(Q, m, s, r)
                V(Q, m, n - r, n - s)
                for K in bad_keys(rng, cv, Q, [rng.choice(allQ), rng.choice(other_pts)]):
                    V(K, m, r, s)
                    V(K, m, r, n - s)
            else:
                b = rng.choice(BITPOS)
                V(Q, m, r ^ (1 << b), s)
                V(Q, m, r, s ^ (1 << rng.choice(BITPOS)))
                V(Q, m, rng.choice(ec_component_subs(rng, n, r)), s)
                V(Q, m, r, rng.choice(ec_component_subs(rng, n, s)))
                V(rng.choice(bad_keys(rng, cv, Q, [rng.choice(allQ)])), m, r, s)
            for mm in mutate_msg(rng, m)[:(7 if heavy else 2)]:
                V(Q, mm, r, s)
        else:
            if "e" not in k:
                continue
            e, s = int(k["e"], 16), int(k["s"], 16)

            def W(Q_, m_, e_, s_):
                lines.append("ecss_ver %s %s %s %s" % (pt(Q_), bx(m_), hx(e_), hx(s_)))
            W(Q, m, e, s)
            heavy = full < 2 * scale or rng.chance(1, 12 if ctx.tier == "quick" else 4)
            if heavy:
                for b in BITPOS:
                    W(Q, m, e ^ (1 << b), s)
                    W(Q, m, e, s ^ (1 << b))
                for v in ec_component_subs(rng, n, e):
                    W(Q, m, v, s)
                for v in ec_component_subs(rng, n, s):
                    W(Q, m, e, v)
                W(Q, m, s, e)
                for K in bad_keys(rng, cv, Q, [rng.choice(allQ), rng.choice(other_pts)]):
                    W(K, m, e, s)
            else:
                W(Q, m, e ^ (1 << rng.choice(BITPOS)), s)
                W(Q, m, e, s ^ (1 << rng.choice(BITPOS)))
                W(Q, m, rng.choice(ec_component_subs(rng, n, e)), s)
                W(Q, m, e, rng.choice(ec_component_subs(rng, n, s)))
                W(rng.choice(bad_keys(rng, cv, Q, [rng.choice(allQ)])), m, e, s)
            for mm in mutate_msg(rng, m)[:(7 if heavy else 2)]:
                W(Q, mm, e, s)
    # ---- crafted ECDSA triples (valid or invalid by construction, no library signer involved)
    d, Q = keys["ecdsa"][0]
    for dig in [b"\x00" * 32, b"\xff" * 32, n.to_bytes(32, "big"), (n - 1).to_bytes(32, "big"), (n + 1).to_bytes(32, "big"), b"", b"\x01",
                b"\xff" * 33, b"\x80" + b"\x00" * 63, rng.bytes(48), rng.bytes(64), rng.bytes(20)]:
        e = bits2int(n, dig)
        for k in (1, 2, n - 1, rng.bits(256) % n or 1):
            r, s = ecdsa_craft(cv, d, k, e)
            if r and s:
                lines.append("ecdsa_ver 1 %s %s %x %x" % (pt(Q), bx(dig), r, s))
                lines.append("ecdsa_ver 1 %s %s %x %x" % (pt(Q), bx(dig), r, n - s))
    # identity public key: (r, s) built from the message alone passes the verification equation u1 G + u2 O = (e/s) G
    for m in (b"abc", b"", rng.bytes(40)):
        e = bits2int(n, sha(m))
        s = rng.choice([1, 7, rng.bits(256) % n or 1])
        R = cv.mul(cv.g, e * pow(s, -1, n) % n)
        if R is not None and R[0] % n:
            lines.append("ecdsa_ver 0 inf %s %x %x" % (bx(m), R[0] % n, s))
    # EC-Schnorr with the identity as public key / as commitment
    d, Q = keys["ecss"][0]
    fc = (cv.p.bit_length() + 7) // 8
    for m in (b"abc", b"", rng.bytes(70)):
        s = rng.bits(256) % n or 1
        R = cv.mul(cv.g, s)
        e = int.from_bytes(sha(m + (R[0] % n).to_bytes(fc, "big")), "big") % n
        lines.append("ecss_ver inf %s %x %x" % (bx(m), e, s))
        e = int.from_bytes(sha(m + (0).to_bytes(fc, "big")), "big") % n
        lines.append("ecss_ver %s %s %x %x" % (pt(Q), bx(m), e, (n - e * d) % n))
    return lines


# -------------------------------------------------------------------------------------------------------------------------
# RSA

def mgf1(seed, ln):
    o, c = b"", 0
    while len(o) < ln:
        o += sha(seed + c.to_bytes(4, "big"))
        c += 1
    return o[:ln]


def pss_em(mhash, embits, salt=b"", trailer=0xbc, sep=1, ps=0, hflip=False, top=None):
    """EMSA-PSS encoding with knobs to make it wrong"""
    emlen = (embits + 7) // 8
    h = sha(b"\0" * 8 + mhash + salt)
    db = bytes([ps]) * (emlen - 32 - 2 - len(salt)) + bytes([sep]) + salt
    mask = mgf1(h, emlen - 33)
    mdb = bytes(a ^ b for a, b in zip(db, mask))
    t = 8 * emlen - embits
    mdb = bytes([mdb[0] & (0xff >> t)]) + mdb[1:]
    if top is not None:
        mdb = bytes([mdb[0] | top]) + mdb[1:]
    if hflip:
        h = bytes([h[0] ^ 1]) + h[1:]
    return mdb + h + bytes([trailer])


SHA256_ID = bytes([0x30, 0x31, 0x30, 0x0d, 0x06, 0x09, 0x60, 0x86, 0x48, 0x01, 0x65, 0x03, 0x04, 0x02, 0x01, 0x05, 0x00, 0x04, 0x20])


def honest_em(pad, n, mhash, pre):
    k = (n.bit_length() + 7) // 8
    if pad == "pkcs2":
        return pss_em(mhash, n.bit_length() - 1)
    if pad == "pkcs1":
        t = (b"" if pre else SHA256_ID) + mhash
        return b"\x00\x01" + b"\xff" * (k - len(t) - 3) + b"\x00" + t
    return b"\x00\xff" + b"\x00" * (k - len(mhash) - 2) + mhash


def crafted_ems(rng, pad, n, mhash, pre):
    """(tag, EM) pairs: encoded messages that differ from the honest one in one place"""
    k = (n.bit_length() + 7) // 8
    out = []
    if pad == "pkcs2":
        eb = n.bit_length() - 1
        t = 8 * ((eb + 7) // 8) - eb
        out.append(("trailer", pss_em(mhash, eb, trailer=0xcc)))
        out.append(("sep", pss_em(mhash, eb, sep=2)))
        out.append(("ps", pss_em(mhash, eb, ps=1)))
        out.append(("salt1", pss_em(mhash, eb, salt=b"\x00")))
        out.append(("salt8", pss_em(mhash, eb, salt=rng.bytes(8))))
        out.append(("salt32", pss_em(mhash, eb, salt=rng.bytes(32))))
        out.append(("hflip", pss_em(mhash, eb, hflip=True)))
        # the bit just above emBits (inside the modulus length)
        out.append(("topbit", (int.from_bytes(pss_em(mhash, eb), "big") | (1 << eb)).to_bytes(k, "big")))
        out.append(("embits-1", pss_em(mhash, eb - 1)))
        if eb > 8 * 34 + 8:
            out.append(("embits-8", pss_em(mhash, eb - 8)))
    elif pad == "pkcs1":
        T = (b"" if pre else SHA256_ID) + mhash
        out.append(("bt2", b"\x00\x02" + b"\xff" * (k - len(T) - 3) + b"\x00" + T))
        out.append(("ps-short", b"\x00\x01" + b"\xff" * (k - len(T) - 4) + b"\x00" + T + b"\x00"))
        out.append(("ps-fe", b"\x00\x01" + b"\xff" * (k - len(T) - 4) + b"\xfe\x00" + T))
        out.append(("ps-zero-inside", b"\x00\x01" + b"\xff" * 8 + b"\x00" + b"\xff" * (k - len(T) - 12) + b"\x00" + T))
        out.append(("no-sep", b"\x00\x01" + b"\xff" * (k - len(T) - 2) + T))
        out.append(("lead1", b"\x01\x01" + b"\xff" * (k - len(T) - 3) + b"\x00" + T))
        if not pre:
            out.append(("no-id", b"\x00\x01" + b"\xff" * (k - len(mhash) - 3) + b"\x00" + mhash))
            bad = bytearray(SHA256_ID)
            bad[14] = 0x02
            out.append(("id-sha384", b"\x00\x01" + b"\xff" * (k - len(T) - 3) + b"\x00" + bytes(bad) + mhash))
            out.append(("garbage-after", b"\x00\x01" + b"\xff" * 8 + b"\x00" + T + rng.bytes(k - len(T) - 11)))
        else:
            out.append(("with-id", b"\x00\x01" + b"\xff" * (k - len(T) - 3 - len(SHA256_ID)) + b"\x00" + SHA256_ID + T))
    else:
        out.append(("ff-low", b"\x00\xfe" + b"\x00" * (k - len(mhash) - 2) + mhash))
        out.append(("lead1", b"\x01\xff" + b"\x00" * (k - len(mhash) - 2) + mhash))
        out.append(("ff-later", b"\x00\x00\xff" + b"\x00" * (k - len(mhash) - 3) + mhash))
        out.append(("junk-between", b"\x00\xff" + b"\x00" * (k - len(mhash) - 3) + b"\x01" + mhash))
    return [(t, em) for t, em in out if len(em) == k or pad == "pkcs2"]


def rsa_keys(ctx, exe, sizes):
    """keys from the library's generator; modulus lengths of 8k+1 bits (emBits a multiple of 8) are looked for explicitly"""
    rng = ctx.rng
    gl = ["rsa_gen %s %d" % (seedhex(rng), b) for b in sizes]
    extra = ["rsa_gen %s %d" % (seedhex(rng), 1018) for _ in range(10)]
    go = ask(exe, [], gl + extra)
    keys, lines, have = [], [], False
    for i, (l, o) in enumerate(zip(gl + extra, go)):
        k = kv(o)
        if "qi" not in k:
            if i < len(gl):
                lines.append(l)
            continue
        K = {x: int(k[x], 16) for x in ("n", "e", "d", "p", "q", "dp", "dq", "qi")}
        odd = K["n"].bit_length() % 8 == 1
        if i < len(gl) or (odd and not have):
            lines.append(l)
            keys.append(K)
            have = have or odd
    return keys, lines


def gen_rsa(ctx, exe, pad, scale):
    rng = ctx.rng
    lines = []
    sizes = [1024, 1018, 1018, 1009, 768, 512] if ctx.tier == "quick" else [1024, 1024, 1023, 1018, 1018, 1018, 1017, 1016, 1010, 1009, 1009, 896, 768, 520, 512]
    sizes = sizes * scale
    keys, gl = rsa_keys(ctx, exe, sizes)
    lines += gl
    # the key of 8k+1 bits (if any) second, so that it gets the full treatment
    if keys:
        first = keys[0]
        keys = [first] + sorted(keys[1:], key=lambda K: 0 if K["n"].bit_length() % 8 == 1 else 1)
    lens = [0, 1, 31, 32, 33, 55, 56, 63, 64, 65, rng.choice([119, 120, 121, 127, 128, 129]), 300] if ctx.tier == "quick" else MSGLENS
    sl, meta = [], []
    for ki, K in enumerate(keys):
        kl = (K["n"].bit_length() + 7) // 8
        for ln in (lens if ki < 2 else [rng.choice(lens), rng.choice(lens)]):
            m = message(rng, ln)
            cap = rng.choice([kl, kl, kl + 1, 256, kl - 1]) if ln in (1, 33, 65) else kl
            for h in (0, 1):
                mm = sha(m) if (h == 1 and ln not in (0, 1, 31, 33)) else m
                sl.append("rsa_sig %s %d %s %d %x %x %x %x %x %x %x %x" % (pad, h, bx(mm), cap, K["n"], K["e"], K["d"], K["p"], K["q"], K["dp"], K["dq"], K["qi"]))
                meta.append((K, mm, h))
    so = ask(exe, [], sl)
    lines += sl
    full = 0
    for (K, m, h), o in zip(meta, so):
        n, e, d = K["n"], K["e"], K["d"]
        kl = (n.bit_length() + 7) // 8

        def V(m_, sig_, n_=n, e_=e, h_=h):
            lines.append("rsa_ver %s %d %x %x %s %s" % (pad, h_, n_, e_, bx(m_), bx(sig_)))
        if not o.startswith("sig="):
            continue
        sig = bytes.fromhex(o.split()[0][4:]) if o.split()[0] != "sig=." else b""
        s = int.from_bytes(sig, "big")
        V(m, sig)
        if h == 0:
            V(sha(m), sig, h_=1)          # the two modes agree on the digest
        V(m, sig, h_=1 - h)
        heavy = full < 4 * scale or rng.chance(1, 8)
        full += 1
        # non-canonical encodings of the same / congruent signature representative
        V(m, (s + n).to_bytes(kl + 1, "big"))
        if s + n < 256 ** kl:
            V(m, (s + n).to_bytes(kl, "big"))
        V(m, b"\x00" + sig)
        if heavy:
            V(m, (s + 2 * n).to_bytes(kl + 1, "big"))
            V(m, (n - s).to_bytes(kl, "big"))
            V(m, b"\x00" * 8 + sig)
            V(m, b"\x00" * 150 + sig)
            V(m, sig[1:])
            V(m, sig[:-1])
            V(m, sig + b"\x00")
            V(m, b"")
            for v in (0, 1, n - 1, n, n + 1, 2, n - 2):
                V(m, v.to_bytes(kl, "big"))
            for pos in sorted({0, 1, 7, 8, 8 * kl - 1, 8 * kl - 2, 8 * kl - 8, 8 * kl - 9, 4 * kl, rng.below(8 * kl), rng.below(8 * kl)}):
                V(m, (s ^ (1 << pos)).to_bytes(kl, "big"))
            for mm in mutate_msg(rng, m):
                V(mm, sig)
            # foreign / altered public keys
            for K2 in keys[:3]:
                if K2["n"] != n:
                    V(m, sig, n_=K2["n"], e_=K2["e"])
            V(m, sig, e_=3)
            V(m, sig, e_=e + 2)
            V(m, sig, n_=n + 2)
            V(m, sig, n_=n - 2)
            mh = m if h else sha(m)
            # encoded messages signed with the real private exponent
            for tag, em in crafted_ems(rng, pad, n, mh, h):
                v = int.from_bytes(em, "big")
                if v < n:
                    V(m, pow(v, d, n).to_bytes(kl, "big"))
            # e = 1: the encoded message is its own signature (the verification equation holds)
            if len(mh) == 32:
                V(m, honest_em(pad, n, mh, h).rjust(kl, b"\x00"), e_=1)
        else:
            V(m, (s ^ (1 << rng.below(8 * kl))).to_bytes(kl, "big"))
            V(rng.choice(mutate_msg(rng, m)), sig)
            V(m, rng.choice([0, 1, n - 1, n]).to_bytes(kl, "big"))
    # a signature whose leading byte is zero: the shortened encoding has the wrong length
    for K in keys[:2 * scale]:
        n, e, d = K["n"], K["e"], K["d"]
        kl = (n.bit_length() + 7) // 8
        for t in range(4000):
            m = b"lead" + t.to_bytes(2, "big")
            v = int.from_bytes(honest_em(pad, n, sha(m), 0), "big")
            s = pow(v, d, n)
            if s < 256 ** (kl - 1):
                sig = s.to_bytes(kl, "big")
                for sg in (sig, sig[1:], b"\x00" + sig):
                    lines.append("rsa_ver %s 0 %x %x %s %s" % (pad, n, e, bx(m), bx(sg)))
                break
    return lines


# -------------------------------------------------------------------------------------------------------------------------
CVS = {}


def curve_info(exe, cid):
    out = subprocess.run([exe], input="ep_param %d\n" % cid, stdout=subprocess.PIPE, stderr=subprocess.DEVNULL, text=True, timeout=60).stdout
    return dict(t.split("=") for t in out.split()[1:] if "=" in t)


def streams(ctx, scale=1):
    exe = _exe(ctx, "base")
    res = []
    for cid in CURVES:
        k = curve_info(exe, cid)
        if "p" in k:
            CVS[cid] = Cv(k)
    lines = ["cfg"]
    for cid, cv in CVS.items():
        others = [c.g for i, c in CVS.items() if i != cid]
        lines.append("ep_param %d" % cid)
        lines += gen_ec(ctx, exe, cid, cv, scale, others)
    res.append({"name": "ec-base", "cfg": "base", "exe": exe, "lines": lines})
    res.append({"name": "rsa-pss", "cfg": "base", "exe": exe, "lines": ["cfg"] + gen_rsa(ctx, exe, "pkcs2", scale)})
    return res


def search_streams(ctx, mfail):
    return streams(ctx, scale=3)


def replay_streams(ctx, rp):
    cfg = rp.get("config", "base")
    return [{"name": "replay", "cfg": cfg, "exe": _exe(ctx, cfg), "lines": ["cfg"] + rp.get("context_lines", []) + rp.get("op_lines", [])}]


def nontrivial(r):
    return r["got"] != "err" and not r["got"].startswith("bad-args")


# -------------------------------------------------------------------------------------------------------------------------
def _accepted(r):
    return r["got"].startswith("v=1")


def matches_finding(f, r):
    t = r["line"].split()
    pred = f.get("pred")
    op = t[0]
    if pred == "ecdsa_identity_key":
        return op == "ecdsa_ver" and t[2] == "inf" and _accepted(r)
    if pred == "ecss_identity":
        # identity public key, or a commitment sG + eQ equal to the identity (x-coordinate read as 0)
        return op == "ecss_ver" and _accepted(r)
    if op == "rsa_ver" and pred and pred.startswith("rsa_"):
        pad, h, n, e = t[1], int(t[2]), int(t[3], 16), int(t[4], 16)
        msg = b"" if t[5] == "." else bytes.fromhex(t[5])
        sig = b"" if t[6] == "." else bytes.fromhex(t[6])
        s = int.from_bytes(sig, "big")
        kl = (n.bit_length() + 7) // 8
        if pred == "rsa_prehash_len":
            return h == 1 and len(msg) != 32
        if pred == "rsa_sig_ge_n":
            return s >= n and _accepted(r)
        if pred == "rsa_wrong_length":
            return len(sig) != kl and s < n and _accepted(r)
        if pred == "rsa_pss_top_bit":
            return pad == "pkcs2" and _accepted(r) and n > 1 and (pow(s, e, n) >> (n.bit_length() - 1)) & 1 == 1
        if pred == "rsa_pss_size":
            return pad == "pkcs2" and n.bit_length() % 8 == 1 and r["got"].startswith("v=0")
    if op == "rsa_sig" and pred == "rsa_prehash_len":
        msg = b"" if t[3] == "." else bytes.fromhex(t[3])
        return int(t[2]) == 1 and len(msg) != 32
    return False
