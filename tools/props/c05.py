"""C05 — signature schemes are complete and sound, including encoding checks.

Two passes per stream: key generation and signing lines are first executed by the oracle (the real library, DRBG seeded from the
line) to obtain honest keys and signatures; the verification lines are then built from those values by systematic alteration.
Every line of both passes is part of the stream that is compared with the Lean driver."""
import hashlib
import subprocess
from props.bngen import hx
from props.c03 import Cv

TRUSTED = [
    "specification: Spec/Sig.lean — FIPS 186-4 / SEC 1 ECDSA verification with public-key validation; RFC 8017 RSAVP1 + EMSA-PSS-VERIFY "
    "(sLen = 0, the library's parameter) / EMSA-PKCS1-v1_5 by re-encoding / the library's BASIC padding; the defining equations of relic's "
    "EC-Schnorr variant, vBNN-IBS, Camenisch-Stadler proofs / signatures of knowledge (DL, OR), extendable ring signatures (ers), their "
    "same-message-linkable (smlers) and threshold (etrs) variants — executed by the compiled Lean driver over Spec/Curve.lean; scalar "
    "multiplications are evaluated in Jacobian coordinates (Spec/CurveFast.lean), proved equal to the affine definition "
    "(fast_evaluator_exact) and re-evaluated with the affine definition on a deterministic sample of the lines (tag affine-recheck)",
    "pairing-based schemes (BLS, Boneh-Boyen, ZSS, Camenisch-Lysyanskaya A / C / blocks, Pointcheval-Sanders single / blocks) are decided in "
    "the discrete-logarithm-oracle formulation: the line carries the secret multipliers of the G2 public keys, the specification decides the "
    "equivalent G1 equation; the equivalence theorems (bls_equation … ps_equation) hold for every bilinear map that is non-degenerate at the "
    "generator — that the implemented pairing is such a map is property C04 and is NOT checked here; statements about G2 elements themselves "
    "(generated public keys = [sk]g2, ZSS signatures, malformed keys, g2_is_valid) are decided with the affine Fp2 arithmetic of "
    "Spec/Fp2Curve.lean on the twist parameters printed by the running library; H(m) of BLS and of the linkable ring signature (hash to "
    "curve) is taken from the oracle line (property C13); the GT generator passed to cp_bbs_ver / cp_zss_ver is gt_get_gen's",
    "class C (compared with the specification on the presented lines only): every verdict of every real verifier and every output of the "
    "real key generators / signers (nonces come from the library DRBG seeded per line; the produced signature is checked to satisfy the "
    "specification verifier, its exact value is not predicted, except RSA where the signature is deterministic and predicted exactly, "
    "plain and through the CRT); the theorems are about the specification's own algebra — completeness (ECDSA, EC-Schnorr, SoK/PoK of a "
    "discrete logarithm, vBNN-IBS, RSASSA-PSS end to end incl. I2OSP/OS2IP, honest BB/ZSS/CL signatures), the (r, n-s) malleability, "
    "RSA round trip for every residue and CRT recombination, EMSA-PSS decode-accepts-exactly-the-encoding — over abstract groups / Z/nZ; "
    "soundness 'accepts only if the defining equation holds' is by construction of the specification verifier plus this comparison, it is "
    "not a theorem about the C code; no model of the C verifiers' control flow is proved",
    "NOT COVERED (PARTIAL): cp_mpss_* / cp_mpsb_* (two-party Pointcheval-Sanders), cp_cmlhs_*, cp_mklhs_* (homomorphic signatures); the OR "
    "proofs' / ring signatures' completeness is compared, not proved; the ETRS specification is this check's reading of the scheme (all "
    "points and (0, pp) on one polynomial of degree N - thres, exact threshold, proofs of knowledge) — the repaired cp_etrs_ver agrees with "
    "it on every line; SHA-256 / MGF1 are the specifications of C14, curve arithmetic that of C03, parameters those of C18",
    "the thirteen defects found by this check (C05-1 ... C05-13, findings/C05-*.md) are repaired in /repo (fixed: lines of "
    "known_findings.json); their trigger lines stay in the generators, so a regression shows up as a spec failure",
]
ASSUMPTIONS = [
    "the group order n of every selectable curve is prime and the cofactor of G1 is 1 (checked by C18); pairing curves: BN_P256 (what "
    "pc_param_set_any selects) and SM9_P256 (selected by hand with its M-type twist; no pc_* entry point selects it)",
    "CP_RSAPD = PKCS2 (PSS, empty salt), CP_CRT on in the pinned configuration; PKCS1 and BASIC (+ CP_CRT off) are exercised in two extra "
    "configurations; BN_PRECI = 1024 limits RSA moduli to 1024 bits and integer-valued messages (CL schemes) to 272 bytes",
    "public keys must be valid group elements other than the identity (key generation never outputs the identity): a verifier that accepts a "
    "triple under an identity / off-curve key violates the property (C05-1, C05-2, C05-12, repaired)",
]
RULE = ("per curve / key: keys from key generation (several seeds) plus boundary keys 1, n-1; message lengths 0, 1, 31..33, 55, 56, 63..65, "
        "119..129, ~300; hash-then-sign and pre-hashed (digest lengths 0..64); honest triple, (r, n-s), listed single-bit flips of every scalar "
        "component, single-byte message mutations, substitutions 0, 1, n-1, n, n+1, v+n, v-n, -v, n-v, 2^256+v, capacity-filling scalars, "
        "swapped components, swapped / foreign / negated / identity / off-curve / other-curve public keys and point components, re-randomised "
        "and re-ordered valid variants; RSA: sig+N, sig+2N, N-sig, 0, 1, N-1, N, zero-prefixed / shortened / extended encodings, bit flips, "
        "foreign / altered keys, crafted encoded messages signed with the real key, modulus lengths 8k+1..8k+8; non-trivial = distinct line "
        "with a verdict or value")

USES_GENERATED = False
EXTRA_THEOREM_MODULES = []

CURVES = [12, 13, 14, 15, 23, 24]   # NIST_P256, BSI_P256, SECG_K256, SM2_P256, BN_P256, SM9_P256
MSGLENS = [0, 1, 31, 32, 33, 55, 56, 63, 64, 65, 119, 120, 121, 127, 128, 129, 300]
BITPOS = [0, 1, 7, 8, 31, 32, 63, 64, 65, 127, 128, 129, 191, 192, 193, 253, 254, 255]
BITPOS_Q = [0, 1, 63, 64, 128, 254, 255]
QUICK = [False]

SRC = ("oracle.c", "ops_bn.c", "ops_fp.c", "ops_ep.c", "ops_md.c", "ops_sig.c", "ops_cpp.c")
DEFS = ("ORACLE_FP", "ORACLE_EP", "ORACLE_MD", "ORACLE_EXTRA1=ops_sig", "ORACLE_EXTRA2=ops_cpp")


def _exe(ctx, cfg="base"):
    return ctx.oracle(cfg, defs=DEFS, sources=SRC, tag="_sig")


def ask(exe, pre, lines):
    """first pass: the oracle's answers to `lines` in the context `pre`"""
    if not lines:
        return []
    try:
        p = subprocess.run([exe], input="\n".join(pre + lines) + "\n", stdout=subprocess.PIPE, stderr=subprocess.DEVNULL, text=True,
                           timeout=120)
        out = p.stdout.split("\n")[len(pre):]
    except subprocess.TimeoutExpired:
        out = []
    out = out[:len(lines)]
    return out + ["err"] * (len(lines) - len(out))


def kv(s):
    return dict(t.split("=", 1) for t in s.split() if "=" in t)


def bx(b):
    return b.hex() if b else "."


def pt(P):
    return "inf" if P is None else "%x,%x" % P


def parse_pt(s):
    if s == "inf":
        return None
    a = s.split(",")
    return (int(a[0], 16), int(a[1], 16))


def sha(b):
    return hashlib.sha256(b).digest()


def message(rng, ln):
    k = rng.below(4)
    if k == 0:
        return bytes([rng.choice([0x00, 0xff, 0x61])]) * ln
    return rng.bytes(ln)


def mutate_msg(rng, m):
    """single-byte mutations, plus one byte more / less"""
    out = []
    if m:
        for pos in {0, len(m) - 1, len(m) // 2, rng.below(len(m))}:
            out.append(m[:pos] + bytes([m[pos] ^ (1 << rng.below(8))]) + m[pos + 1:])
        out.append(m[:-1])
    out.append(m + b"\x00")
    out.append(b"\x00" + m)
    return out


def seedhex(rng):
    return rng.bytes(rng.choice([1, 8, 16, 32])).hex()


# -------------------------------------------------------------------------------------------------------------------------
# ECDSA / EC-Schnorr

def ec_component_subs(rng, n, v):
    """values substituted for a component whose honest value is v"""
    return [0, 1, n - 1, n, n + 1, v + n, v - n, -v, n - v, v + 2 * n, (v + 1) % n, 1 << 256, (1 << 256) + v, 2 * v % n]


def bad_keys(rng, cv, Q, others):
    p = cv.p
    l = [None, (Q[0], (p - Q[1]) % p), (Q[0], (Q[1] + 1) % p), ((Q[0] + 1) % p, Q[1]), (0, 0), (Q[1], Q[0]), (rng.bits(256) % p, rng.bits(256) % p),
         cv.add(Q, Q), cv.add(Q, cv.g), cv.g]
    return l + others


def ecdsa_craft(cv, d, k, e):
    """(r, s) from a chosen nonce"""
    n = cv.n
    R = cv.mul(cv.g, k)
    r = R[0] % n
    s = pow(k, -1, n) * (e + r * d) % n
    return r, s


def bits2int(n, h):
    v = int.from_bytes(h, "big")
    if 8 * len(h) > n.bit_length():
        v >>= 8 * len(h) - n.bit_length()
    return v


def gen_ec(ctx, exe, cid, cv, scale, other_pts):
    rng = ctx.rng
    n = cv.n
    pre = ["ep_param %d" % cid]
    lines = []
    nkeys = (1 if ctx.tier == "quick" else 3) * scale
    # ---- key generation
    gl = ["%s_gen %s" % (s, seedhex(rng)) for s in ("ecdsa", "ecss") for _ in range(nkeys)]
    go = ask(exe, pre, gl)
    lines += gl
    keys = {"ecdsa": [], "ecss": []}
    for l, o in zip(gl, go):
        k = kv(o)
        if "d" in k and "q" in k:
            keys[l.split("_")[0]].append((int(k["d"], 16), parse_pt(k["q"])))
    # boundary private keys (valid by definition of the key space)
    for s in keys:
        for d in ((1, n - 1) if ctx.tier == "quick" else (1, n - 1, 2, (n + 1) // 2)):
            keys[s].append((d, cv.mul(cv.g, d)))
    # ---- signing
    lens = MSGLENS if ctx.tier != "quick" else [0, 1, 31, 32, 33, 55, 56, 63, 64, 65] + [rng.choice([119, 120, 121, 127, 128, 129]), 300]
    if ctx.tier == "quick" and (CURVES.index(cid) + ctx.seed) % len(CURVES) != 0:
        # the hash-block boundary lengths are curve independent: all of them on one curve per run, a subset on the others
        lens = [0, 1, 32, 33, 64, 300, rng.choice([31, 55, 56, 63, 65, 119, 120, 121, 127, 128, 129])]
    sl = []
    meta = []
    for ki, (d, Q) in enumerate(keys["ecdsa"]):
        for ln in (lens if ki < nkeys else [rng.choice(lens)]):
            m = message(rng, ln)
            for h in (0, 1):
                if h == 1 and ki > 0 and ln not in (0, 31, 32, 33, 64):
                    continue
                sl.append("ecdsa_sig %s %d %s %x" % (seedhex(rng), h, bx(m), d))
                meta.append(("ecdsa", d, Q, m, h))
    for ki, (d, Q) in enumerate(keys["ecss"]):
        for ln in (lens if ki < nkeys else [rng.choice(lens)]):
            m = message(rng, ln)
            sl.append("ecss_sig %s %s %x" % (seedhex(rng), bx(m), d))
            meta.append(("ecss", d, Q, m, 0))
    so = ask(exe, pre, sl)
    lines += sl
    allQ = [k[1] for k in keys["ecdsa"] + keys["ecss"]]
    # ---- verification
    cnt = {"ecdsa": 0, "ecss": 0}
    for (sch, d, Q, m, h), o in zip(meta, so):
        k = kv(o)
        full = cnt[sch]
        cnt[sch] += 1
        if sch == "ecdsa":
            if "r" not in k:
                continue
            r, s = int(k["r"], 16), int(k["s"], 16)

            def V(Q_, m_, r_, s_, h_=h):
                lines.append("ecdsa_ver %d %s %s %s %s" % (h_, pt(Q_), bx(m_), hx(r_), hx(s_)))
            V(Q, m, r, s)
            V(Q, m, r, n - s)
            # the other mode on the same bytes, and the pre-hashed mode on the digest of a hashed message (equivalent)
            V(Q, m, r, s, 1 - h)
            if h == 0:
                V(Q, sha(m), r, s, 1)
                V(Q, sha(m) + b"\x00", r, s, 1)     # longer digest: leftmost bits only
                V(Q, sha(m)[:-1], r, s, 1)
            heavy = full < (1 if ctx.tier == "quick" else 2) * scale or rng.chance(1, 16 if ctx.tier == "quick" else 4)
            if heavy:
                for b in BITPOS:
                    V(Q, m, r ^ (1 << b), s)
                    V(Q, m, r, s ^ (1 << b))
                for v in ec_component_subs(rng, n, r):
                    V(Q, m, v, s)
                for v in ec_component_subs(rng, n, s):
                    V(Q, m, r, v)
                V(Q, m, s, r)
                V(Q, m, n - r, n - s)
                for K in bad_keys(rng, cv, Q, [rng.choice(allQ), rng.choice(other_pts)]):
                    V(K, m, r, s)
                    V(K, m, r, n - s)
            else:
                b = rng.choice(BITPOS)
                V(Q, m, r ^ (1 << b), s)
                V(Q, m, r, s ^ (1 << rng.choice(BITPOS)))
                V(Q, m, rng.choice(ec_component_subs(rng, n, r)), s)
                V(Q, m, r, rng.choice(ec_component_subs(rng, n, s)))
                V(rng.choice(bad_keys(rng, cv, Q, [rng.choice(allQ)])), m, r, s)
            for mm in mutate_msg(rng, m)[:(7 if heavy else 2)]:
                V(Q, mm, r, s)
        else:
            if "e" not in k:
                continue
            e, s = int(k["e"], 16), int(k["s"], 16)

            def W(Q_, m_, e_, s_):
                lines.append("ecss_ver %s %s %s %s" % (pt(Q_), bx(m_), hx(e_), hx(s_)))
            W(Q, m, e, s)
            heavy = full < (1 if ctx.tier == "quick" else 2) * scale or rng.chance(1, 16 if ctx.tier == "quick" else 4)
            if heavy:
                for b in BITPOS:
                    W(Q, m, e ^ (1 << b), s)
                    W(Q, m, e, s ^ (1 << b))
                for v in ec_component_subs(rng, n, e):
                    W(Q, m, v, s)
                for v in ec_component_subs(rng, n, s):
                    W(Q, m, e, v)
                W(Q, m, s, e)
                for K in bad_keys(rng, cv, Q, [rng.choice(allQ), rng.choice(other_pts)]):
                    W(K, m, e, s)
            else:
                W(Q, m, e ^ (1 << rng.choice(BITPOS)), s)
                W(Q, m, e, s ^ (1 << rng.choice(BITPOS)))
                W(Q, m, rng.choice(ec_component_subs(rng, n, e)), s)
                W(Q, m, e, rng.choice(ec_component_subs(rng, n, s)))
                W(rng.choice(bad_keys(rng, cv, Q, [rng.choice(allQ)])), m, e, s)
            for mm in mutate_msg(rng, m)[:(7 if heavy else 2)]:
                W(Q, mm, e, s)
    # ---- crafted ECDSA triples (valid or invalid by construction, no library signer involved)
    d, Q = keys["ecdsa"][0]
    for dig in [b"\x00" * 32, b"\xff" * 32, n.to_bytes(32, "big"), (n - 1).to_bytes(32, "big"), (n + 1).to_bytes(32, "big"), b"", b"\x01",
                b"\xff" * 33, b"\x80" + b"\x00" * 63, rng.bytes(48), rng.bytes(64), rng.bytes(20)]:
        e = bits2int(n, dig)
        for k in ((1, 2, n - 1, rng.bits(256) % n or 1) if ctx.tier != "quick" else (rng.choice([1, 2, n - 1]), rng.bits(256) % n or 1)):
            r, s = ecdsa_craft(cv, d, k, e)
            if r and s:
                lines.append("ecdsa_ver 1 %s %s %x %x" % (pt(Q), bx(dig), r, s))
                lines.append("ecdsa_ver 1 %s %s %x %x" % (pt(Q), bx(dig), r, n - s))
    # identity public key: (r, s) built from the message alone passes the verification equation u1 G + u2 O = (e/s) G
    for m in (b"abc", b"", rng.bytes(40)):
        e = bits2int(n, sha(m))
        s = rng.choice([1, 7, rng.bits(256) % n or 1])
        R = cv.mul(cv.g, e * pow(s, -1, n) % n)
        if R is not None and R[0] % n:
            lines.append("ecdsa_ver 0 inf %s %x %x" % (bx(m), R[0] % n, s))
    # EC-Schnorr with the identity as public key / as commitment
    d, Q = keys["ecss"][0]
    fc = (cv.p.bit_length() + 7) // 8
    for m in (b"abc", b"", rng.bytes(70)):
        s = rng.bits(256) % n or 1
        R = cv.mul(cv.g, s)
        e = int.from_bytes(sha(m + (R[0] % n).to_bytes(fc, "big")), "big") % n
        lines.append("ecss_ver inf %s %x %x" % (bx(m), e, s))
        e = int.from_bytes(sha(m + (0).to_bytes(fc, "big")), "big") % n
        lines.append("ecss_ver %s %s %x %x" % (pt(Q), bx(m), e, (n - e * d) % n))
    return lines


# -------------------------------------------------------------------------------------------------------------------------
# RSA

def mgf1(seed, ln):
    o, c = b"", 0
    while len(o) < ln:
        o += sha(seed + c.to_bytes(4, "big"))
        c += 1
    return o[:ln]


def pss_em(mhash, embits, salt=b"", trailer=0xbc, sep=1, ps=0, hflip=False, top=None):
    """EMSA-PSS encoding with knobs to make it wrong"""
    emlen = (embits + 7) // 8
    h = sha(b"\0" * 8 + mhash + salt)
    db = bytes([ps]) * (emlen - 32 - 2 - len(salt)) + bytes([sep]) + salt
    mask = mgf1(h, emlen - 33)
    mdb = bytes(a ^ b for a, b in zip(db, mask))
    t = 8 * emlen - embits
    mdb = bytes([mdb[0] & (0xff >> t)]) + mdb[1:]
    if top is not None:
        mdb = bytes([mdb[0] | top]) + mdb[1:]
    if hflip:
        h = bytes([h[0] ^ 1]) + h[1:]
    return mdb + h + bytes([trailer])


SHA256_ID = bytes([0x30, 0x31, 0x30, 0x0d, 0x06, 0x09, 0x60, 0x86, 0x48, 0x01, 0x65, 0x03, 0x04, 0x02, 0x01, 0x05, 0x00, 0x04, 0x20])


def honest_em(pad, n, mhash, pre):
    k = (n.bit_length() + 7) // 8
    if pad == "pkcs2":
        return pss_em(mhash, n.bit_length() - 1)
    if pad == "pkcs1":
        t = (b"" if pre else SHA256_ID) + mhash
        return b"\x00\x01" + b"\xff" * (k - len(t) - 3) + b"\x00" + t
    return b"\x00" * (k - len(mhash) - 1) + b"\xff" + mhash


def crafted_ems(rng, pad, n, mhash, pre):
    """(tag, EM) pairs: encoded messages that differ from the honest one in one place"""
    k = (n.bit_length() + 7) // 8
    out = []
    if pad == "pkcs2":
        eb = n.bit_length() - 1
        t = 8 * ((eb + 7) // 8) - eb
        out.append(("trailer", pss_em(mhash, eb, trailer=0xcc)))
        out.append(("sep", pss_em(mhash, eb, sep=2)))
        out.append(("ps", pss_em(mhash, eb, ps=1)))
        out.append(("salt1", pss_em(mhash, eb, salt=b"\x00")))
        out.append(("salt8", pss_em(mhash, eb, salt=rng.bytes(8))))
        out.append(("salt32", pss_em(mhash, eb, salt=rng.bytes(32))))
        out.append(("hflip", pss_em(mhash, eb, hflip=True)))
        # the bit just above emBits (inside the modulus length)
        out.append(("topbit", (int.from_bytes(pss_em(mhash, eb), "big") | (1 << eb)).to_bytes(k, "big")))
        out.append(("embits-1", pss_em(mhash, eb - 1)))
        if eb > 8 * 34 + 8:
            out.append(("embits-8", pss_em(mhash, eb - 8)))
    elif pad == "pkcs1":
        T = (b"" if pre else SHA256_ID) + mhash
        out.append(("bt2", b"\x00\x02" + b"\xff" * (k - len(T) - 3) + b"\x00" + T))
        out.append(("ps-short", b"\x00\x01" + b"\xff" * (k - len(T) - 4) + b"\x00" + T + b"\x00"))
        out.append(("ps-fe", b"\x00\x01" + b"\xff" * (k - len(T) - 4) + b"\xfe\x00" + T))
        out.append(("ps-zero-inside", b"\x00\x01" + b"\xff" * 8 + b"\x00" + b"\xff" * (k - len(T) - 12) + b"\x00" + T))
        out.append(("no-sep", b"\x00\x01" + b"\xff" * (k - len(T) - 2) + T))
        out.append(("lead1", b"\x01\x01" + b"\xff" * (k - len(T) - 3) + b"\x00" + T))
        if not pre:
            out.append(("no-id", b"\x00\x01" + b"\xff" * (k - len(mhash) - 3) + b"\x00" + mhash))
            bad = bytearray(SHA256_ID)
            bad[14] = 0x02
            out.append(("id-sha384", b"\x00\x01" + b"\xff" * (k - len(T) - 3) + b"\x00" + bytes(bad) + mhash))
            out.append(("garbage-after", b"\x00\x01" + b"\xff" * 8 + b"\x00" + T + rng.bytes(k - len(T) - 11)))
        else:
            out.append(("with-id", b"\x00\x01" + b"\xff" * (k - len(T) - 3 - len(SHA256_ID)) + b"\x00" + SHA256_ID + T))
    else:
        z = b"\x00" * (k - len(mhash) - 1)
        out.append(("fe", z + b"\xfe" + mhash))
        out.append(("lead1", b"\x01" + z[1:] + b"\xff" + mhash))
        out.append(("junk-before", z[:-1] + b"\x01\xff" + mhash))
        out.append(("no-ff", z + b"\x00" + mhash))
        out.append(("ff-twice", z[:-1] + b"\xff\xff" + mhash))
        # FF earlier: the "message" is longer than a digest (the verifier copies it into a digest-sized buffer)
        out.append(("ff-early-8", z[:-8] + b"\xff" + rng.bytes(8) + mhash))
        out.append(("ff-early", b"\x00\xff" + rng.bytes(k - len(mhash) - 2) + mhash))
        out.append(("short-digest", z + b"\x00\xff" + mhash[:-1]))
    return [(t, em) for t, em in out if len(em) == k or pad == "pkcs2"]


def rsa_keys(ctx, exe, sizes):
    """keys from the library's generator; modulus lengths of 8k+1 bits (emBits a multiple of 8) are looked for explicitly"""
    rng = ctx.rng
    gl = ["rsa_gen %s %d" % (seedhex(rng), b) for b in sizes]
    extra = ["rsa_gen %s %d" % (seedhex(rng), 1018) for _ in range(10)]
    go = ask(exe, [], gl + extra)
    keys, lines, have = [], [], False
    for i, (l, o) in enumerate(zip(gl + extra, go)):
        k = kv(o)
        if "qi" not in k:
            if i < len(gl):
                lines.append(l)
            continue
        K = {x: int(k[x], 16) for x in ("n", "e", "d", "p", "q", "dp", "dq", "qi")}
        odd = K["n"].bit_length() % 8 == 1
        if i < len(gl) or (odd and not have):
            lines.append(l)
            keys.append(K)
            have = have or odd
    return keys, lines


def gen_rsa(ctx, exe, pad, scale):
    rng = ctx.rng
    lines = []
    sizes = [1024, 1018, 1018, 1009, 768, 512] if ctx.tier == "quick" else [1024, 1024, 1023, 1018, 1018, 1018, 1017, 1016, 1010, 1009, 1009, 896, 768, 520, 512]
    sizes = sizes * scale
    keys, gl = rsa_keys(ctx, exe, sizes)
    lines += gl
    # the key of 8k+1 bits (if any) second, so that it gets the full treatment
    if keys:
        first = keys[0]
        keys = [first] + sorted(keys[1:], key=lambda K: 0 if K["n"].bit_length() % 8 == 1 else 1)
    lens = [0, 1, 31, 32, 33, 55, 56, 63, 64, 65, rng.choice([119, 120, 121, 127, 128, 129]), 300] if ctx.tier == "quick" else MSGLENS
    sl, meta = [], []
    for ki, K in enumerate(keys):
        kl = (K["n"].bit_length() + 7) // 8
        for ln in (lens if ki < 2 else [rng.choice(lens), rng.choice(lens)]):
            m = message(rng, ln)
            cap = rng.choice([kl, kl, kl + 1, 256, kl - 1]) if ln in (1, 33, 65) else kl
            for h in (0, 1):
                mm = sha(m) if (h == 1 and ln not in (0, 1, 31, 33)) else m
                sl.append("rsa_sig %s %d %s %d %x %x %x %x %x %x %x %x" % (pad, h, bx(mm), cap, K["n"], K["e"], K["d"], K["p"], K["q"], K["dp"], K["dq"], K["qi"]))
                meta.append((K, mm, h))
    so = ask(exe, [], sl)
    lines += sl
    full = 0
    for (K, m, h), o in zip(meta, so):
        n, e, d = K["n"], K["e"], K["d"]
        kl = (n.bit_length() + 7) // 8

        def V(m_, sig_, n_=n, e_=e, h_=h):
            lines.append("rsa_ver %s %d %x %x %s %s" % (pad, h_, n_, e_, bx(m_), bx(sig_)))
        if not o.startswith("sig="):
            continue
        sig = bytes.fromhex(o.split()[0][4:]) if o.split()[0] != "sig=." else b""
        s = int.from_bytes(sig, "big")
        V(m, sig)
        if h == 0:
            V(sha(m), sig, h_=1)          # the two modes agree on the digest
        V(m, sig, h_=1 - h)
        heavy = full < 4 * scale or rng.chance(1, 8)
        full += 1
        # non-canonical encodings of the same / congruent signature representative
        V(m, (s + n).to_bytes(kl + 1, "big"))
        if s + n < 256 ** kl:
            V(m, (s + n).to_bytes(kl, "big"))
        V(m, b"\x00" + sig)
        if heavy:
            V(m, (s + 2 * n).to_bytes(kl + 1, "big"))
            V(m, (n - s).to_bytes(kl, "big"))
            V(m, b"\x00" * 8 + sig)
            V(m, b"\x00" * 150 + sig)
            V(m, sig[1:])
            V(m, sig[:-1])
            V(m, sig + b"\x00")
            V(m, b"")
            for v in (0, 1, n - 1, n, n + 1, 2, n - 2):
                V(m, v.to_bytes(kl, "big"))
            for pos in sorted({0, 1, 7, 8, 8 * kl - 1, 8 * kl - 2, 8 * kl - 8, 8 * kl - 9, 4 * kl, rng.below(8 * kl), rng.below(8 * kl)}):
                V(m, (s ^ (1 << pos)).to_bytes(kl, "big"))
            for mm in mutate_msg(rng, m):
                V(mm, sig)
            # foreign / altered public keys
            for K2 in keys[:3]:
                if K2["n"] != n:
                    V(m, sig, n_=K2["n"], e_=K2["e"])
            V(m, sig, e_=3)
            V(m, sig, e_=e + 2)
            V(m, sig, n_=n + 2)
            V(m, sig, n_=n - 2)
            mh = m if h else sha(m)
            # encoded messages signed with the real private exponent
            for tag, em in crafted_ems(rng, pad, n, mh, h):
                v = int.from_bytes(em, "big")
                if tag == "ff-early" and full > 1:
                    continue            # faults the BASIC verifier (finding C05-13): once per run
                if v < n:
                    V(m, pow(v, d, n).to_bytes(kl, "big"))
            # e = 1: the encoded message is its own signature (the verification equation holds)
            if len(mh) == 32:
                V(m, honest_em(pad, n, mh, h).rjust(kl, b"\x00"), e_=1)
        else:
            V(m, (s ^ (1 << rng.below(8 * kl))).to_bytes(kl, "big"))
            V(rng.choice(mutate_msg(rng, m)), sig)
            V(m, rng.choice([0, 1, n - 1, n]).to_bytes(kl, "big"))
    # a signature whose leading byte is zero: the shortened encoding has the wrong length
    for K in keys[:2 * scale]:
        n, e, d = K["n"], K["e"], K["d"]
        kl = (n.bit_length() + 7) // 8
        for t in range(4000):
            m = b"lead" + t.to_bytes(2, "big")
            v = int.from_bytes(honest_em(pad, n, sha(m), 0), "big")
            s = pow(v, d, n)
            if s < 256 ** (kl - 1):
                sig = s.to_bytes(kl, "big")
                for sg in (sig, sig[1:], b"\x00" + sig):
                    lines.append("rsa_ver %s 0 %x %x %s %s" % (pad, n, e, bx(m), bx(sg)))
                break
    return lines



# -------------------------------------------------------------------------------------------------------------------------
# vBNN-IBS, proofs / signatures of knowledge, ring signatures

def alter_int(rng, n, v, heavy):
    """altered values of a scalar component: single-bit flips, range substitutions"""
    subs = [0, 1, n - 1, n, v + n, v - n, -v, (n - v) % n, (v + 1) % n, v + 2 * n, (1 << 256) + v]
    if heavy:
        return [v ^ (1 << b) for b in (BITPOS if QUICK[0] is False else BITPOS_Q)] + subs
    return [v ^ (1 << rng.choice(BITPOS)), rng.choice(subs), rng.choice(subs)]


def alter_pt(rng, cv, P, heavy, pool):
    p = cv.p
    l = [None, (P[0], (p - P[1]) % p), (P[0], (P[1] + 1) % p), ((P[0] + 1) % p, P[1]), (0, 0), cv.add(P, P), cv.add(P, cv.g), rng.choice(pool)]
    return l if heavy else [rng.choice(l), rng.choice(l)]


def rnd_scalar(rng, n):
    return rng.bits(320) % (n - 1) + 1


def gen_vbnn(ctx, exe, cid, cv, scale, pool, lvl=2):
    rng, n = ctx.rng, cv.n
    pre = ["ep_param %d" % cid]
    lines = []
    gl = ["vbnn_gen %s" % seedhex(rng)]
    go = ask(exe, pre, gl)
    lines += gl
    k = kv(go[0])
    if "d" not in k:
        return lines
    msk, mpk = int(k["d"], 16), parse_pt(k["q"])
    ids = [b"", b"a", rng.bytes(16), rng.bytes(65)]
    if lvl < 2:
        ids = [rng.choice(ids[:2]), rng.choice(ids[2:])]
    pl = ["vbnn_gen_prv %s %x %s" % (seedhex(rng), msk, bx(i)) for i in ids]
    po = ask(exe, pre, pl)
    lines += pl
    users = []
    for i, o in zip(ids, po):
        k = kv(o)
        if "sk" in k:
            users.append((i, int(k["sk"], 16), parse_pt(k["pk"])))
    lens = [0, 1, 32, 56, 64, 300] if ctx.tier == "quick" else MSGLENS
    sl, meta = [], []
    for ui, (i, sk, R) in enumerate(users):
        for ln in (lens if ui == 0 and lvl == 2 else [rng.choice(lens[:3]), rng.choice(lens[3:])]):
            m = message(rng, ln)
            sl.append("vbnn_sig %s %s %s %x %s" % (seedhex(rng), bx(i), bx(m), sk, pt(R)))
            meta.append((i, m, R))
    so = ask(exe, pre, sl)
    lines += sl
    cnt = 0
    for (i, m, R), o in zip(meta, so):
        k = kv(o)
        if "z" not in k:
            continue
        z, h = int(k["z"], 16), int(k["h"], 16)
        heavy = cnt < scale and lvl == 2
        cnt += 1

        def V(R_=R, z_=z, h_=h, i_=i, m_=m, K_=mpk):
            lines.append("vbnn_ver %s %s %s %s %s %s" % (pt(R_), hx(z_), hx(h_), bx(i_), bx(m_), pt(K_)))
        V()
        for v in alter_int(rng, n, z, heavy):
            V(z_=v)
        for v in alter_int(rng, n, h, heavy):
            V(h_=v)
        for P in alter_pt(rng, cv, R, heavy, pool):
            if P is not None:
                V(R_=P)
        # R = O: the verifier's buffer is sized from ec_size_bin(R) (finding C05-10); with a long message the overrun stays inside the frame,
        # one line per run uses an empty identity and message
        if cnt == 1:
            V(R_=None, i_=b"identity", m_=m + rng.bytes(150))
            if cid == CURVES[0]:
                V(R_=None, i_=b"", m_=b"")
        for P in alter_pt(rng, cv, mpk, heavy, pool):
            V(K_=P)
        for mm in mutate_msg(rng, m)[:(7 if heavy else 2)]:
            V(m_=mm)
        for ii in mutate_msg(rng, i)[:(4 if heavy else 1)]:
            V(i_=ii)
        V(i_=m, m_=i)
        V(z_=h, h_=z)
    return lines


CAPBITS = 34 * 64 - 6     # a scalar that fills the bn capacity of the pinned configuration (RLC_BN_SIZE digits): inner products overflow


def gen_sok(ctx, exe, cid, cv, scale, pool, lvl=2):
    rng, n = ctx.rng, cv.n
    pre = ["ep_param %d" % cid]
    lines = []
    # responses / challenges so long that the arithmetic inside the verifier fails: a failed verification is not a valid proof
    big = (1 << CAPBITS) + rng.bits(64)
    yv = cv.mul(cv.g, rnd_scalar(rng, n))
    c = rnd_scalar(rng, n)
    lines.append("pokdl_ver %x %x %s" % (c, big, pt(yv)))
    lines.append("sokdl_ver %x %x %s %s" % (c, big, bx(b"any message"), pt(yv)))
    lines.append("pokor_ver %x %x %x %x %s %s" % (c, c, big, c, pt(yv), pt(cv.g)))
    lines.append("sokor_ver %x %x %x %x %s %s %s - -" % (c, c, c, big, bx(b"any message"), pt(yv), pt(cv.g)))
    if lvl == 2:
        lines.append("pokdl_ver %x %x %s" % (big, c, pt(yv)))
        lines.append("pokor_ver %x %x %x %x %s %s" % (big, c, c, c, pt(yv), pt(cv.g)))
        for b in (1000, 2000, 2100, CAPBITS - 64, CAPBITS + 5):
            lines.append("pokdl_ver %x %x %s" % (c, (1 << b) + 1, pt(yv)))
    lens = [0, 1, 32, 64, 119, 300] if ctx.tier == "quick" else MSGLENS
    if lvl < 2:
        lens = [rng.choice(lens[:3]), rng.choice(lens[3:])]
    reps = scale if ctx.tier == "quick" else 2 * scale
    pl, meta = [], []
    for _ in range(reps):
        x = rnd_scalar(rng, n)
        y = cv.mul(cv.g, x)
        y0 = cv.mul(cv.g, rnd_scalar(rng, n))
        pl.append("pokdl_prv %s %s %x" % (seedhex(rng), pt(y), x))
        meta.append(("pokdl", b"", y, None, None, None))
        pl.append("pokor_prv %s %s %s %x" % (seedhex(rng), pt(y0), pt(y), x))
        meta.append(("pokor", b"", y0, y, None, None))
        for ln in lens:
            m = message(rng, ln)
            pl.append("sokdl_sig %s %s %s %x" % (seedhex(rng), bx(m), pt(y), x))
            meta.append(("sokdl", m, y, None, None, None))
        for ln in (lens[:3] + [rng.choice(lens)] if lvl == 2 else [rng.choice(lens)]):
            m = message(rng, ln)
            for first in (0, 1):
                if lvl == 2 or first == 0:
                    f1 = first if lvl == 2 else rng.below(2)
                    ys = (y0, y) if f1 == 0 else (y, y0)
                    pl.append("sokor_sig %s %s %s %s - - %x %d" % (seedhex(rng), bx(m), pt(ys[0]), pt(ys[1]), x, f1))
                    meta.append(("sokor", m, ys[0], ys[1], None, None))
                if lvl == 2 or first == 1:
                    # own generators: y_i = x g_i for the known branch
                    f1 = first if lvl == 2 else rng.below(2)
                    g0, g1 = cv.mul(cv.g, rnd_scalar(rng, n)), cv.mul(cv.g, rnd_scalar(rng, n))
                    ys = (y0, cv.mul(g1, x)) if f1 == 0 else (cv.mul(g0, x), y0)
                    pl.append("sokor_sig %s %s %s %s %s %s %x %d" % (seedhex(rng), bx(m), pt(ys[0]), pt(ys[1]), pt(g0), pt(g1), x, f1))
                    meta.append(("sokor", m, ys[0], ys[1], g0, g1))
    po = ask(exe, pre, pl)
    lines += pl
    cnt = {}
    for (sch, m, ya, yb, g0, g1), o in zip(meta, po):
        k = kv(o)
        heavy = cnt.get(sch, 0) < scale and lvl == 2
        cnt[sch] = cnt.get(sch, 0) + 1
        if sch in ("pokdl", "sokdl"):
            if "c" not in k:
                continue
            c, r = int(k["c"], 16), int(k["r"], 16)

            def V(c_=c, r_=r, m_=m, y_=ya):
                if sch == "pokdl":
                    lines.append("pokdl_ver %s %s %s" % (hx(c_), hx(r_), pt(y_)))
                else:
                    lines.append("sokdl_ver %s %s %s %s" % (hx(c_), hx(r_), bx(m_), pt(y_)))
            V()
            for v in alter_int(rng, n, c, heavy):
                V(c_=v)
            for v in alter_int(rng, n, r, heavy):
                V(r_=v)
            for P in alter_pt(rng, cv, ya, heavy, pool):
                V(y_=P)
            V(c_=r, r_=c)
            if sch == "sokdl":
                for mm in mutate_msg(rng, m)[:(7 if heavy else 2)]:
                    V(m_=mm)
        else:
            if "c0" not in k:
                continue
            c0, c1, r0, r1 = (int(k[t], 16) for t in ("c0", "c1", "r0", "r1"))

            def W(c0_=c0, c1_=c1, r0_=r0, r1_=r1, m_=m, y0_=ya, y1_=yb, g0_=g0, g1_=g1):
                if sch == "pokor":
                    lines.append("pokor_ver %s %s %s %s %s %s" % (hx(c0_), hx(c1_), hx(r0_), hx(r1_), pt(y0_), pt(y1_)))
                else:
                    lines.append("sokor_ver %s %s %s %s %s %s %s %s %s" % (hx(c0_), hx(c1_), hx(r0_), hx(r1_), bx(m_), pt(y0_), pt(y1_),
                                                                     "-" if g0_ is None else pt(g0_), "-" if g1_ is None else pt(g1_)))
            W()
            few = None if lvl == 2 else 1
            for v in alter_int(rng, n, c0, heavy):
                W(c0_=v)
            for v in alter_int(rng, n, c1, heavy and sch == "pokor")[:few]:
                W(c1_=v)
            for v in alter_int(rng, n, r0, False)[:few]:
                W(r0_=v)
            for v in alter_int(rng, n, r1, heavy and sch == "sokor")[:few]:
                W(r1_=v)
            # the two challenges only enter through their sum: (c0 + 1, c1 - 1) changes the commitments, (c0 + n, c1) does not
            W(c0_=(c0 + 1) % n, c1_=(c1 - 1) % n)
            W(c0_=c1, c1_=c0)
            W(c0_=c1, c1_=c0, r0_=r1, r1_=r0, y0_=yb, y1_=ya, g0_=g1, g1_=g0)      # the whole statement swapped: valid
            for P in alter_pt(rng, cv, ya, heavy, pool)[:(None if lvl == 2 else 1)]:
                W(y0_=P)
            for P in alter_pt(rng, cv, yb, False, pool)[:few]:
                W(y1_=P)
            if g0 is not None:
                for P in alter_pt(rng, cv, g0, False, pool)[:few]:
                    W(g0_=P)
                W(g0_=None, g1_=None)
            if sch == "sokor":
                for mm in mutate_msg(rng, m)[:(7 if heavy else 2)]:
                    W(m_=mm)
    return lines


def ring_tokens(elts):
    return " ".join(" ".join([pt(e[0]), pt(e[1])] + [hx(v) for v in e[2:6]] + ([pt(e[6])] + [hx(v) for v in e[7:11]] if len(e) > 6 else [])) for e in elts)


def parse_ring(toks, k, link=False):
    w = 11 if link else 6
    out = []
    for i in range(k):
        t = toks[w * i: w * i + w]
        e = [parse_pt(t[0]), parse_pt(t[1])] + [int(x, 16) for x in t[2:6]]
        if link:
            e += [parse_pt(t[6])] + [int(x, 16) for x in t[7:11]]
        out.append(e)
    return out, toks[w * k:]


def gen_ers(ctx, exe, cid, cv, scale, pool, link=False, lvl=2):
    """extendable ring signatures (cp_ers_*) and the same-message linkable variant (cp_smlers_*)"""
    rng, n = ctx.rng, cv.n
    pre = ["ep_param %d" % cid]
    op = "smlers" if link else "ers"
    lines = [] if link else ["ers_gen %s" % seedhex(rng)]
    sizes = ([1, 3] if link else [1, 2, 4]) if ctx.tier == "quick" else ([1, 2, 4] if link else [1, 2, 3, 5, 6])
    if lvl < 2:
        sizes = [rng.choice([1, 2]) if link else rng.choice([1, 2, 3])]
    rl, meta = [], []
    for k in sizes * scale:
        m = message(rng, rng.choice([0, 1, 32, 64, 120, 300]))
        rl.append("%s_run %s %s %d" % (op, seedhex(rng), bx(m), k))
        meta.append((m, k))
    ro = ask(exe, pre, rl)
    lines += rl
    if not link:
        # a ring of one element made from public values only: h = pp - td G, any public key, a response that fills the bn capacity
        pp = cv.mul(cv.g, rnd_scalar(rng, n))
        td = rnd_scalar(rng, n)
        h = cv.add(pp, cv.mul(cv.g, n - td))
        c = rnd_scalar(rng, n)
        lines.append("ers_ver %x %s %s 1 %s %s %x %x %x %x" % (td, bx(b"forged"), pt(pp), pt(h), pt(pool[-1]), c, c, (1 << CAPBITS) + 1, c))
    for idx, ((m, k), o) in enumerate(zip(meta, ro)):
        t = o.split()
        if len(t) < 4 or not t[0].startswith("pp="):
            continue
        pp = parse_pt(t[0][3:])
        off = 2 if link else 1
        td = int(t[off][3:], 16)
        ring, _ = parse_ring(t[off + 2:], k, link)
        heavy = idx < 2 * scale and lvl == 2

        def V(td_=td, m_=m, pp_=pp, ring_=ring):
            lines.append("%s_ver %s %s %s %d %s" % (op, hx(td_), bx(m_), pt(pp_), len(ring_), ring_tokens(ring_)))
        V()
        for v in alter_int(rng, n, td, heavy):
            V(td_=v)
        for mm in mutate_msg(rng, m)[:(5 if heavy else (2 if lvl == 2 else 1))]:
            V(m_=mm)
        for P in alter_pt(rng, cv, pp, False, pool)[:(None if lvl == 2 else 1)]:
            V(pp_=P)
        if k > 1:
            V(ring_=ring[::-1])                     # the order of the elements does not matter: valid
            V(ring_=ring[:-1])                      # one element removed
            V(ring_=ring + [ring[0]])               # one element twice
        V(ring_=[])
        for i in (sorted({0, k - 1}) if lvl == 2 else [rng.below(k)]):
            e = ring[i]
            comps = list(range(2, 6)) if not link else list(range(2, 6)) + list(range(7, 11))
            if lvl < 2:
                comps = [rng.choice(comps[:4])] + ([rng.choice(comps[4:])] if link else [rng.choice(comps[:4])])
            for j in comps:
                for v in (alter_int(rng, n, e[j], heavy and j in (2, 5)) if lvl == 2 else alter_int(rng, n, e[j], False)[:1]):
                    V(ring_=ring[:i] + [e[:j] + [v] + e[j + 1:]] + ring[i + 1:])
            for j in (((0, 1) if not link else (0, 1, 6)) if lvl == 2 else [rng.choice([0, 1]), 6][:(2 if link else 1)]):
                for P in alter_pt(rng, cv, e[j], heavy and j == 0, pool)[:(None if lvl == 2 else 1)]:
                    V(ring_=ring[:i] + [e[:j] + [P] + e[j + 1:]] + ring[i + 1:])
            # compensate an altered h in the trapdoor so that the sum still matches: only the proof of knowledge stands in the way
            h2 = cv.add(e[0], cv.g)
            V(td_=(td - 1) % n, ring_=ring[:i] + [[h2] + e[1:]] + ring[i + 1:])
    return lines


def gen_etrs(ctx, exe, cid, cv, scale, pool, lvl=2):
    rng, n = ctx.rng, cv.n
    pre = ["ep_param %d" % cid]
    lines = []
    combos = [(4, 0, 0), (4, 2, 0), (3, 1, 1)] if ctx.tier == "quick" else \
        [(mx, ext, uni) for mx in (1, 2, 3, 4) for ext in range(0, mx + 1) for uni in (0, 1) if 1 + uni + ext <= 6]
    if lvl < 2:
        combos = [rng.choice(combos)]
    rl, meta = [], []
    for (mx, ext, uni) in combos * scale:
        m = message(rng, rng.choice([0, 1, 32, 64, 120, 300]))
        rl.append("etrs_run %s %s %d %d %d" % (seedhex(rng), bx(m), mx, ext, uni))
        meta.append(m)
    ro = ask(exe, pre, rl)
    lines += rl
    # a ring element built without any secret key of the ring: h = rG, proof of knowledge of log h
    victim = cv.mul(cv.g, rnd_scalar(rng, n))
    fm = b"forged"
    fr = rnd_scalar(rng, n)
    fh = cv.mul(cv.g, fr)
    fl = ["sokor_sig %s %s %s %s - - %x 1" % (seedhex(rng), bx(fm), pt(fh), pt(victim), fr)]
    fo = kv(ask(exe, pre, fl)[0])
    lines += fl

    def line(thres, m, pp, tds, ys, ring):
        return "etrs_ver %d %s %s %d %s %s %d %s" % (thres, bx(m), pt(pp), len(tds), " ".join(hx(v) for v in tds), " ".join(hx(v) for v in ys), len(ring),
                                                      " ".join(" ".join([hx(e[0]), pt(e[1]), pt(e[2])] + [hx(v) for v in e[3:7]]) for e in ring))
    for idx, (m, o) in enumerate(zip(meta, ro)):
        t = o.split()
        if len(t) < 5 or not t[0].startswith("pp="):
            continue
        pp = parse_pt(t[0][3:])
        thres, mx = int(t[1][6:]), int(t[2][4:])
        tds = [int(x, 16) for x in t[3:3 + mx]]
        ys = [int(x, 16) for x in t[3 + mx:3 + 2 * mx]]
        size = int(t[3 + 2 * mx][5:])
        ring = []
        rt = t[4 + 2 * mx:]
        for i in range(size):
            e = rt[7 * i:7 * i + 7]
            ring.append([int(e[0], 16), parse_pt(e[1]), parse_pt(e[2])] + [int(x, 16) for x in e[3:7]])
        heavy = idx < scale and lvl == 2

        def V(thres_=thres, m_=m, pp_=pp, tds_=tds, ys_=ys, ring_=ring):
            if 0 <= thres_ <= len(ring_) and len(tds_) <= 4:
                lines.append(line(thres_, m_, pp_, tds_, ys_, ring_))
        V()
        for th in range(0, size + 1):
            if th != thres:
                V(thres_=th)
        for mm in mutate_msg(rng, m)[:(2 if lvl == 2 else 1)]:
            V(m_=mm)
        V(pp_=cv.add(pp, cv.g))
        for i in (sorted({0, mx - 1}) if lvl == 2 else [rng.below(mx)]) if mx else []:
            for v in alter_int(rng, n, tds[i], False)[:(None if lvl == 2 else 2)]:
                V(tds_=tds[:i] + [v] + tds[i + 1:])
            for v in alter_int(rng, n, ys[i], False)[:(None if lvl == 2 else 2)]:
                V(ys_=ys[:i] + [v] + ys[i + 1:])
        if mx > 1:
            V(tds_=tds[::-1], ys_=ys[::-1])       # order of the trapdoor pairs: same set of points, valid
            V(tds_=tds[1:], ys_=ys[1:])
        for i in (sorted({0, size - 1}) if lvl == 2 else [rng.below(size)]):
            e = ring[i]
            for j in ((0, 3, 4, 5, 6) if lvl == 2 else (0, rng.choice([3, 4, 5, 6]))):
                for v in (alter_int(rng, n, e[j], heavy and j in (0, 3)) if lvl == 2 else alter_int(rng, n, e[j], False)[:1]):
                    V(ring_=ring[:i] + [e[:j] + [v] + e[j + 1:]] + ring[i + 1:])
            for j in ((1, 2) if lvl == 2 else [rng.choice([1, 2])]):
                for P in alter_pt(rng, cv, e[j], False, pool)[:(None if lvl == 2 else 1)]:
                    V(ring_=ring[:i] + [e[:j] + [P] + e[j + 1:]] + ring[i + 1:])
        if size > 1:
            V(ring_=ring[::-1])
            V(ring_=ring[:-1], thres_=min(thres, size - 1))
        # forged: nothing but public values and one element made without a key of the ring
        if "c0" in fo:
            fe = [rnd_scalar(rng, n), fh, victim] + [int(fo[x], 16) for x in ("c0", "c1", "r0", "r1")]
            V(thres_=1, m_=fm, ring_=[fe])
            V(thres_=1, m_=fm, ring_=[fe], tds_=[rnd_scalar(rng, n) for _ in tds], ys_=[rnd_scalar(rng, n) for _ in ys])
    return lines


# -------------------------------------------------------------------------------------------------------------------------
# pairing-based schemes (discrete-logarithm-oracle formulation: G2 public keys are given as multipliers "k:<hex>" of g2)

PAIRING_CURVES = [23, 24]      # BN_P256 (pc_param_set_any), SM9_P256


def _sqrt_fp(a, p):
    """square root modulo p (Tonelli-Shanks) or None"""
    a %= p
    if a == 0:
        return 0
    if pow(a, (p - 1) // 2, p) != 1:
        return None
    if p % 4 == 3:
        return pow(a, (p + 1) // 4, p)
    q, s = p - 1, 0
    while q % 2 == 0:
        q //= 2
        s += 1
    z = 2
    while pow(z, (p - 1) // 2, p) != p - 1:
        z += 1
    m, c, t, r = s, pow(z, q, p), pow(a, q, p), pow(a, (q + 1) // 2, p)
    while t != 1:
        i, t2 = 0, t
        while t2 != 1:
            t2 = t2 * t2 % p
            i += 1
        b = pow(c, 1 << (m - i - 1), p)
        m, c, t, r = i, b * b % p, t * b * b % p, r * b % p
    return r


def twist_point(rng, p, beta, tb):
    """a random point of the twist y^2 = x^3 + b' over Fp2 = Fp[u]/(u^2 - beta): almost surely outside the order-n subgroup"""
    def mul(a, b):
        return ((a[0] * b[0] + beta * a[1] * b[1]) % p, (a[0] * b[1] + a[1] * b[0]) % p)
    for _ in range(200):
        x = (rng.bits(300) % p, rng.bits(300) % p)
        x3 = mul(mul(x, x), x)
        a = ((x3[0] + tb[0]) % p, (x3[1] + tb[1]) % p)
        # sqrt(a0 + a1 u): norm N = a0^2 - beta a1^2 = s^2; y0^2 = (a0 + s)/2, y1 = a1/(2 y0)
        s_ = _sqrt_fp(a[0] * a[0] - beta * a[1] * a[1], p)
        if s_ is None:
            continue
        for sg in (s_, p - s_):
            y0 = _sqrt_fp((a[0] + sg) * pow(2, -1, p), p)
            if y0:
                y = (y0, a[1] * pow(2 * y0, -1, p) % p)
                if mul(y, y) == a:
                    return [x[0], x[1], y[0], y[1]]
    return None


def g2raw(coords, dy=0):
    c = list(coords)
    c[2] += dy
    return "raw:" + ",".join("%x" % v for v in c)


def parse_g2(sv):
    return None if sv == "inf" else [int(x, 16) for x in sv.split(",")]


def key_alts(rng, n, d, qc, heavy):
    """alterations of a G2 public key [d]g2 (qc = its coordinates if known)"""
    l = ["k:%x" % ((d + 1) % n), "k:%x" % (n - d), "k:0", "k:%x" % n, "inf", "raw:1,2,3,4"]
    if qc:
        l.append(g2raw(qc, 1))
    return l if heavy else [rng.choice(l[:2]), rng.choice(l[2:])]


def msg_int(n, m, hashed=True):
    return int.from_bytes(m if hashed else sha(m), "big") % n


def gen_pairing(ctx, exe, cid, cv, scale, lvl=2):
    rng, n = ctx.rng, cv.n
    pre = ["sigpc_param %d" % cid]
    lines = []
    heavy0 = lvl == 2
    pool = [cv.mul(cv.g, rnd_scalar(rng, n)) for _ in range(3)]
    lens = [0, 1, 32, 33, 64, 120, 250] if heavy0 else [rng.choice([0, 1]), 32, rng.choice([64, 120, 250])]

    def altp(P, heavy):
        return alter_pt(rng, cv, P, heavy, pool)

    # ---- G2 membership: what g2_is_valid says about multiples of the generator, the identity, junk, and points of the twist outside G2
    lines += ["g2_check k:%x" % rnd_scalar(rng, n), "g2_check k:0", "g2_check k:%x" % n, "g2_check inf", "g2_check raw:1,2,3,4"]
    info = kv(ask(exe, [], pre)[0])
    outside = []
    if "tb0" in info:
        beta = int(info["qnr"]) % cv.p
        for _ in range(3 if heavy0 else 2):
            tp = twist_point(rng, cv.p, beta, (int(info["tb0"], 16), int(info["tb1"], 16)))
            if tp:
                outside.append(g2raw(tp))
                lines.append("g2_check " + outside[-1])
    # ---- key generation (all schemes), first pass
    gl = ["bls_gen %s" % seedhex(rng), "bbs_gen %s" % seedhex(rng), "zss_gen %s" % seedhex(rng), "cls_gen %s" % seedhex(rng),
          "cli_gen %s" % seedhex(rng), "clb_gen %s 1" % seedhex(rng), "clb_gen %s 3" % seedhex(rng), "pss_gen %s" % seedhex(rng),
          "psb_gen %s 1" % seedhex(rng), "psb_gen %s 3" % seedhex(rng)]
    go = [kv(o) for o in ask(exe, pre, gl)]
    lines += gl
    G = dict(zip([l.split()[0] + (l.split()[2] if len(l.split()) > 2 else "") for l in gl], go))
    sl, meta = [], []

    def add(line, *m):
        sl.append(line)
        meta.append(m)
    # BLS
    if "d" in G["bls_gen"]:
        d = int(G["bls_gen"]["d"], 16)
        qc = parse_g2(G["bls_gen"]["q"])
        for ln in lens:
            m = message(rng, ln)
            add("bls_sig %s %x" % (bx(m), d), "bls", d, qc, m)
        add("bls_sig %s %x" % (bx(b"boundary"), 1), "bls", 1, None, b"boundary")
        add("bls_sig %s %x" % (bx(b"boundary"), n - 1), "bls", n - 1, None, b"boundary")
    # BB / ZSS
    for sch in ("bbs", "zss"):
        if "d" in G[sch + "_gen"]:
            d = int(G[sch + "_gen"]["d"], 16)
            qc = parse_g2(G[sch + "_gen"]["q"]) if sch == "bbs" else parse_pt(G[sch + "_gen"]["q"])
            for ln in lens:
                m = message(rng, ln)
                for h in ((0, 1) if ln in (0, 32, 33) else (0,)):
                    add("%s_sig %d %s %x" % (sch, h, bx(m), d), sch, d, qc, m, h)
            # m + d = 0 (mod n): no signature exists
            add("%s_sig 1 %s %x" % (sch, bx(((n - d) % n).to_bytes(32, "big")), d), sch + "0", d, qc, ((n - d) % n).to_bytes(32, "big"), 1)
    # CL
    if "t" in G["cls_gen"]:
        x, y = int(G["cls_gen"]["t"], 16), int(G["cls_gen"]["u"], 16)
        for ln in lens:
            m = message(rng, ln)
            add("cls_sig %s %s %x %x" % (seedhex(rng), bx(m), x, y), "cls", (x, y), m)
    if "v0" in G["cli_gen"]:
        t, u, v = (int(G["cli_gen"][k], 16) for k in ("t", "u", "v0"))
        for ln in lens[:4]:
            m = message(rng, ln)
            r = rng.choice([0, 1, rnd_scalar(rng, n)])
            add("cli_sig %s %s %x %x %x %x" % (seedhex(rng), bx(m), r, t, u, v), "cli", (t, u, v), m, r)
    for l in (1, 3):
        g = G["clb_gen%d" % l]
        if "t" in g:
            t, u = int(g["t"], 16), int(g["u"], 16)
            vs = [int(g["v%d" % i], 16) for i in range(l - 1)]
            for _ in range(2 if heavy0 else 1):
                ms = [message(rng, rng.choice(lens)) for _ in range(l)]
                add("clb_sig %s %d %s %x %x %s" % (seedhex(rng), l, " ".join(bx(m) for m in ms), t, u, " ".join("%x" % v for v in vs)), "clb", (t, u, vs), ms)
            if l > 1:
                # equal blocks: the final equation cannot tell compensating changes of two components apart — each relation has to hold alone
                m0 = message(rng, rng.choice(lens))
                add("clb_sig %s %d %s %x %x %s" % (seedhex(rng), l, " ".join(bx(m0) for _ in range(l)), t, u, " ".join("%x" % v for v in vs)),
                    "clb", (t, u, vs), [m0] * l)
    # PS
    if "r" in G["pss_gen"]:
        r, s0 = int(G["pss_gen"]["r"], 16), int(G["pss_gen"]["s0"], 16)
        for mv in [0, 1, n - 1, rnd_scalar(rng, n), rnd_scalar(rng, n)][:(5 if heavy0 else 3)]:
            add("pss_sig %s %x %x %x" % (seedhex(rng), mv, r, s0), "pss", (r, [s0]), [mv])
    for l in (1, 3):
        g = G["psb_gen%d" % l]
        if "r" in g:
            r = int(g["r"], 16)
            ss = [int(g["s%d" % i], 16) for i in range(l)]
            for _ in range(2 if heavy0 else 1):
                ms = [rng.choice([0, 1, rnd_scalar(rng, n)]) for _ in range(l)]
                add("psb_sig %s %d %s %x %s" % (seedhex(rng), l, " ".join("%x" % m for m in ms), r, " ".join("%x" % v for v in ss)), "psb", (r, ss), ms)
    so = ask(exe, pre, sl)
    lines += sl
    seen = {}
    for mt, o in zip(meta, so):
        k = kv(o)
        sch = mt[0]
        heavy = heavy0 and seen.get(sch, 0) < scale
        seen[sch] = seen.get(sch, 0) + 1
        if sch == "bls":
            _, d, qc, m = mt
            if "s" not in k:
                continue
            S = parse_pt(k["s"])

            def V(S_=S, m_=m, K_="k:%x" % d):
                lines.append("bls_ver %s %s %s" % (pt(S_), bx(m_), K_))
            V()
            V(K_="k:%x" % (d + n))                   # the same key
            for P in altp(S, heavy):
                V(S_=P)
            for mm in mutate_msg(rng, m)[:(7 if heavy else 2)]:
                V(m_=mm)
            for K in key_alts(rng, n, d, qc, heavy) + outside[:(None if heavy else 1)]:
                V(K_=K)
            # identity signature under the identity key: the pairing product is trivially 1
            V(S_=None, K_="inf")
            V(S_=None, K_="k:0")
            hm = parse_pt(k["hm"])
            d2 = rnd_scalar(rng, n)
            V(S_=cv.mul(hm, d2), K_="k:%x" % d2)     # a signature under another key, presented with that key: valid
            V(S_=cv.mul(hm, d2))
        elif sch in ("bbs", "zss", "bbs0", "zss0"):
            _, d, qc, m, h = mt
            base = sch[:3]
            mi = msg_int(n, m, h == 1)
            if sch.endswith("0"):
                # whatever the signer answered, no signature verifies for this message
                if base == "bbs":
                    lines.append("bbs_ver %s 1 %s k:%x" % (pt(cv.g), bx(m), d))
                    lines.append("bbs_ver inf 1 %s k:%x" % (bx(m), d))
                else:
                    lines.append("zss_ver k:1 1 %s %s" % (bx(m), pt(qc)))
                    lines.append("zss_ver inf 1 %s %s" % (bx(m), pt(qc)))
                continue
            if "s" not in k:
                continue
            if base == "bbs":
                S = parse_pt(k["s"])

                def V(S_=S, m_=m, K_="k:%x" % d, h_=h):
                    lines.append("bbs_ver %s %d %s %s" % (pt(S_), h_, bx(m_), K_))
                V()
                if mi and seen[sch] <= 2:
                    # identity public key: [1/m]g1 satisfies the pairing equation for the message without any secret
                    V(S_=cv.mul(cv.g, pow(mi, -1, n)), K_="inf")
                    V(S_=cv.mul(cv.g, pow(mi, -1, n)), K_="k:0")
                V(K_="k:%x" % (d + n))
                V(h_=1 - h)
                if h == 0:
                    V(m_=sha(m), h_=1)                # the two modes agree on the digest
                for P in altp(S, heavy):
                    V(S_=P)
                for mm in mutate_msg(rng, m)[:(7 if heavy else 2)]:
                    V(m_=mm)
                for K in key_alts(rng, n, d, qc, heavy):
                    V(K_=K)
                if h == 1:
                    V(m_=(mi + n).to_bytes(33, "big"))   # the same residue: valid
            else:
                t = pow((mi + d) % n, -1, n)
                sc = parse_g2(k["s"])

                def V(S_="k:%x" % t, m_=m, Q_=qc, h_=h):
                    lines.append("zss_ver %s %d %s %s" % (S_, h_, bx(m_), pt(Q_)))
                V()
                if mi and seen[sch] <= 2:
                    V(S_="k:%x" % pow(mi, -1, n), Q_=None)      # identity public key
                V(S_="k:%x" % (t + n))
                V(h_=1 - h)
                if h == 0:
                    V(m_=sha(m), h_=1)
                for K in key_alts(rng, n, t, sc, heavy):
                    V(S_=K)
                if heavy and sc:
                    V(S_=g2raw(sc))                   # the library's own encoding of the signature (not decided by the specification)
                for P in altp(qc, heavy):
                    V(Q_=P)
                for mm in mutate_msg(rng, m)[:(7 if heavy else 2)]:
                    V(m_=mm)
        elif sch == "cls":
            _, (x, y), m = mt
            if "c" not in k:
                continue
            a, b, c = parse_pt(k["a"]), parse_pt(k["b"]), parse_pt(k["c"])

            def V(a_=a, b_=b, c_=c, m_=m, X_="k:%x" % x, Y_="k:%x" % y):
                lines.append("cls_ver %s %s %s %s %s %s" % (pt(a_), pt(b_), pt(c_), bx(m_), X_, Y_))
            V()
            for P in altp(a, heavy):
                V(a_=P)
            for P in altp(b, False):
                V(b_=P)
            for P in altp(c, heavy):
                V(c_=P)
            for mm in mutate_msg(rng, m)[:(5 if heavy else 2)]:
                V(m_=mm)
            for K in key_alts(rng, n, x, None, heavy):
                V(X_=K)
            for K in key_alts(rng, n, y, None, False):
                V(Y_=K)
            V(X_="k:%x" % y, Y_="k:%x" % x)
            # re-randomised signature: ([t]a, [t]b, [t]c) is another valid signature of the same message
            t = rnd_scalar(rng, n)
            V(a_=cv.mul(a, t), b_=cv.mul(b, t), c_=cv.mul(c, t))
            V(a_=cv.mul(a, t), b_=cv.mul(b, t))
        elif sch == "cli":
            _, (t, u, v), m, r = mt
            if "c" not in k:
                continue
            P5 = [parse_pt(k[x]) for x in ("a", "A", "b", "B", "c")]

            def V(P_=P5, m_=m, r_=r, K_=("k:%x" % t, "k:%x" % u, "k:%x" % v)):
                lines.append("cli_ver %s %s %x %s" % (" ".join(pt(x) for x in P_), bx(m_), r_, " ".join(K_)))
            V()
            for i in range(5):
                for P in altp(P5[i], heavy and i in (0, 4))[:(None if heavy else 1)]:
                    V(P_=P5[:i] + [P] + P5[i + 1:])
            for mm in mutate_msg(rng, m)[:2]:
                V(m_=mm)
            V(r_=(r + 1) % n)
            V(r_=r + n)                                # the same residue: valid
            for i, sc in enumerate((t, u, v)):
                for K in key_alts(rng, n, sc, None, False):
                    Ks = ["k:%x" % t, "k:%x" % u, "k:%x" % v]
                    Ks[i] = K
                    V(K_=Ks)
            s = rnd_scalar(rng, n)
            V(P_=[cv.mul(x, s) for x in P5])           # re-randomised: valid
        elif sch == "clb":
            _, (t, u, vs), ms = mt
            l = len(ms)
            if "c" not in k:
                continue
            a, b, c = parse_pt(k["a"]), parse_pt(k["b"]), parse_pt(k["c"])
            As = [parse_pt(k["A%d" % i]) for i in range(l - 1)]
            Bs = [parse_pt(k["B%d" % i]) for i in range(l - 1)]

            def V(a_=a, b_=b, c_=c, As_=As, Bs_=Bs, ms_=ms, K_=None):
                K_ = K_ or ["k:%x" % t, "k:%x" % u] + ["k:%x" % v for v in vs]
                lines.append("clb_ver %d %s %s %s" % (l, " ".join(pt(x) for x in [a_, b_, c_] + As_ + Bs_), " ".join(bx(m) for m in ms_), " ".join(K_)))
            V()
            for P in altp(a, False):
                V(a_=P)
            for P in altp(b, False):
                V(b_=P)
            for P in altp(c, heavy):
                V(c_=P)
            for i in range(l - 1):
                for P in altp(As[i], False)[:1]:
                    V(As_=As[:i] + [P] + As[i + 1:])
                for P in altp(Bs[i], False)[:1]:
                    V(Bs_=Bs[:i] + [P] + Bs[i + 1:])
            for i in range(l):
                for mm in mutate_msg(rng, ms[i])[:1]:
                    V(ms_=ms[:i] + [mm] + ms[i + 1:])
            if l > 1:
                V(ms_=ms[::-1])
                V(As_=As[::-1], Bs_=Bs[::-1])
                # compensating changes: two components moved by +D and -D keep every sum of components (a verifier that multiplies its
                # pairing checks together without random exponents accepts them); each pair of components that enter the same kind of relation
                D = cv.mul(cv.g, rnd_scalar(rng, n))
                mD = (D[0], (cv.p - D[1]) % cv.p)
                V(Bs_=[cv.add(Bs[0], D), cv.add(Bs[1], mD)] + Bs[2:])
                V(As_=[cv.add(As[0], D), cv.add(As[1], mD)] + As[2:])
                V(b_=cv.add(b, D), Bs_=[cv.add(Bs[0], mD)] + Bs[1:])
                V(a_=cv.add(a, D), As_=[cv.add(As[0], mD)] + As[1:])
                V(As_=[cv.add(As[0], D), cv.add(As[1], mD)] + As[2:], Bs_=[cv.add(Bs[0], D), cv.add(Bs[1], mD)] + Bs[2:])
            Ks = ["k:%x" % t, "k:%x" % u] + ["k:%x" % v for v in vs]
            for i in range(len(Ks)):
                for K in key_alts(rng, n, [t, u] + vs and ([t, u] + vs)[i], None, False)[:(2 if i < 2 else 1)]:
                    V(K_=Ks[:i] + [K] + Ks[i + 1:])
        elif sch in ("pss", "psb"):
            _, (r, ss), ms = mt
            l = len(ms)
            if "b" not in k:
                continue
            a, b = parse_pt(k["a"]), parse_pt(k["b"])
            gk = rnd_scalar(rng, n)

            def V(a_=a, b_=b, ms_=ms, g_="k:%x" % gk, x_="m:%x" % r, ys_=None):
                ys_ = ys_ or ["m:%x" % v for v in ss]
                if sch == "pss":
                    lines.append("pss_ver %s %s %s %s %s %s" % (pt(a_), pt(b_), hx(ms_[0]), g_, x_, ys_[0]))
                else:
                    lines.append("psb_ver %s %s %d %s %s %s %s" % (pt(a_), pt(b_), l, " ".join(hx(m) for m in ms_), g_, x_, " ".join(ys_)))
            V()
            V(g_="k:1")                                  # the same key over another generator: valid
            V(g_="k:1", x_="k:%x" % r, ys_=["k:%x" % v for v in ss])      # keys given absolutely
            for P in altp(a, heavy):
                V(a_=P)
            for P in altp(b, heavy):
                V(b_=P)
            for i in range(l):
                V(ms_=ms[:i] + [(ms[i] + 1) % n] + ms[i + 1:])
                V(ms_=ms[:i] + [ms[i] + n] + ms[i + 1:])          # the same residue: valid
                V(ms_=ms[:i] + [ms[i] - n] + ms[i + 1:])          # negative representative of the same residue
            if l > 1:
                V(ms_=ms[::-1])
            V(x_="m:%x" % ((r + 1) % n))
            V(x_="m:0")
            V(x_="inf")
            V(g_="k:0")
            V(g_="inf")
            V(g_="raw:1,2,3,4")
            for i in range(l):
                ys = ["m:%x" % v for v in ss]
                for alt in ("m:%x" % ((ss[i] + 1) % n), "m:0", "inf"):
                    V(ys_=ys[:i] + [alt] + ys[i + 1:])
            t = rnd_scalar(rng, n)
            V(a_=cv.mul(a, t), b_=cv.mul(b, t))          # re-randomised: valid
            # (O, O) satisfies the pairing equation for every message
            V(a_=None, b_=None)
    return lines

# -------------------------------------------------------------------------------------------------------------------------
CVS = {}


def curve_info(exe, cid):
    out = subprocess.run([exe], input="ep_param %d\n" % cid, stdout=subprocess.PIPE, stderr=subprocess.DEVNULL, text=True, timeout=60).stdout
    return dict(t.split("=") for t in out.split()[1:] if "=" in t)


def streams(ctx, scale=1):
    QUICK[0] = ctx.tier == "quick"
    exe = _exe(ctx, "base")
    res = []
    for cid in CURVES:
        k = curve_info(exe, cid)
        if "p" in k:
            CVS[cid] = Cv(k)
    lines = ["cfg"]
    for cid, cv in CVS.items():
        others = [c.g for i, c in CVS.items() if i != cid]
        lines.append("ep_param %d" % cid)
        lines += gen_ec(ctx, exe, cid, cv, scale, others)
    res.append({"name": "ec-base", "cfg": "base", "exe": exe, "lines": lines})
    lines = ["cfg"]
    for ci, (cid, cv) in enumerate(CVS.items()):
        pool = [c.g for i, c in CVS.items() if i != cid] + [cv.mul(cv.g, rnd_scalar(ctx.rng, cv.n)) for _ in range(3)]
        lines.append("ep_param %d" % cid)

        # quick tier: every scheme on every curve lightly, and fully on one curve (which one rotates with the seed)
        def lvl(k):
            return 2 if ctx.tier != "quick" or (ci + k + ctx.seed) % len(CVS) == 0 else 1
        lines += gen_vbnn(ctx, exe, cid, cv, scale, pool, lvl(0))
        lines += gen_sok(ctx, exe, cid, cv, scale, pool, lvl(1))
        lines += gen_ers(ctx, exe, cid, cv, scale, pool, False, lvl(2))
        lines += gen_ers(ctx, exe, cid, cv, scale, pool, True, lvl(3))
        lines += gen_etrs(ctx, exe, cid, cv, scale, pool, lvl(4))
    res.append({"name": "ec2-base", "cfg": "base", "exe": exe, "lines": lines})
    lines = ["cfg"]
    for ci, cid in enumerate(PAIRING_CURVES):
        if cid in CVS:
            lines.append("sigpc_param %d" % cid)
            lines += gen_pairing(ctx, exe, cid, CVS[cid], scale, 2 if ctx.tier != "quick" or (ci + ctx.seed) % 2 == 0 else 1)
    res.append({"name": "pairing-base", "cfg": "base", "exe": exe, "lines": lines})
    res.append({"name": "rsa-pss", "cfg": "base", "exe": exe, "lines": ["cfg"] + gen_rsa(ctx, exe, "pkcs2", scale)})
    for cfg, pad in (("rsa-pkcs1", "pkcs1"), ("rsa-basic", "basic")):
        ex2 = _exe(ctx, cfg)
        res.append({"name": cfg, "cfg": cfg, "exe": ex2, "lines": ["cfg"] + gen_rsa(ctx, ex2, pad, scale)})
    return res


def search_streams(ctx, mfail):
    return streams(ctx, scale=3)


def replay_streams(ctx, rp):
    cfg = rp.get("config", "base")
    return [{"name": "replay", "cfg": cfg, "exe": _exe(ctx, cfg), "lines": ["cfg"] + rp.get("context_lines", []) + rp.get("op_lines", [])}]


def nontrivial(r):
    return r["got"] != "err" and not r["got"].startswith("bad-args")


# -------------------------------------------------------------------------------------------------------------------------
def _accepted(r):
    return r["got"].startswith("v=1")


def _accepted_any(r):
    return " v=1" in " " + r["got"]


def _is_scalar(tok):
    return "," not in tok and tok not in ("inf", "-", ".")


SCALAR_POS = {   # positions (token indices) of the scalar components of each verification line
    "vbnn_ver": lambda t: [2, 3], "pokdl_ver": lambda t: [1, 2], "sokdl_ver": lambda t: [1, 2],
    "pokor_ver": lambda t: [1, 2, 3, 4], "sokor_ver": lambda t: [1, 2, 3, 4],
    "ers_ver": lambda t: [1] + [5 + 6 * i + j for i in range(int(t[4])) for j in (2, 3, 4, 5)],
    "smlers_ver": lambda t: [1] + [5 + 11 * i + j for i in range(int(t[4])) for j in (2, 3, 4, 5, 7, 8, 9, 10)],
    "etrs_ver": lambda t: list(range(5, 5 + 2 * int(t[4]))) + [6 + 2 * int(t[4]) + 7 * i + j for i in range(int(t[5 + 2 * int(t[4])])) for j in (0, 3, 4, 5, 6)],
}


def _out_of_range(r):
    t = r["line"].split()
    if t[0] not in SCALAR_POS or not r.get("context"):
        return False
    cv = CVS.get(int(r["context"].split()[1]))
    if cv is None:
        return False
    try:
        vals = [int(t[i], 16) for i in SCALAR_POS[t[0]](t)]
    except (ValueError, IndexError):
        return False
    return any(v < 0 or v >= cv.n for v in vals)


def matches_finding(f, r):
    t = r["line"].split()
    pred = f.get("pred")
    op = t[0]
    if pred == "pairing_identity_key":
        if op in ("pss_ver", "psb_ver", "bbs_ver") and _accepted(r):
            cv = CVS.get(int(r["context"].split()[1])) if r.get("context") else None
            for x in t[1:]:
                if x == "inf" and t.index(x) > 2:
                    return True
                if x[:2] in ("k:", "m:") and cv and int(x[2:], 16) % cv.n == 0:
                    return True
        return op == "zss_ver" and t[4] == "inf" and _accepted(r)
    if pred == "verifier_returns_err":
        return op in ("pokdl_ver", "pokor_ver", "sokdl_ver", "sokor_ver", "ers_ver", "smlers_ver", "etrs_ver") and "v=1 err" in r["got"]
    if pred == "vbnn_r_identity":
        return op == "vbnn_ver" and t[1] == "inf" and r["got"].startswith("CRASH")
    if pred == "scalar_range":
        return op in SCALAR_POS and _accepted_any(r) and _out_of_range(r) and "v=1 err" not in r["got"]
    if pred == "etrs_unbound":
        return op == "etrs_ver" and _accepted_any(r) and not _out_of_range(r)
    if pred == "ecdsa_identity_key":
        return op == "ecdsa_ver" and t[2] == "inf" and _accepted(r)
    if pred == "ecss_identity":
        # identity public key, or a commitment sG + eQ equal to the identity (x-coordinate read as 0)
        return op == "ecss_ver" and _accepted(r)
    if op == "rsa_ver" and pred and pred.startswith("rsa_"):
        pad, h, n, e = t[1], int(t[2]), int(t[3], 16), int(t[4], 16)
        msg = b"" if t[5] == "." else bytes.fromhex(t[5])
        sig = b"" if t[6] == "." else bytes.fromhex(t[6])
        s = int.from_bytes(sig, "big")
        kl = (n.bit_length() + 7) // 8
        if pred == "rsa_prehash_len":
            return h == 1 and len(msg) != 32
        if pred == "rsa_sig_ge_n":
            return s >= n and _accepted(r)
        if pred == "rsa_wrong_length":
            return len(sig) != kl and s < n and _accepted(r)
        if pred == "rsa_pss_top_bit":
            return pad == "pkcs2" and _accepted(r) and n > 1 and (pow(s, e, n) >> (n.bit_length() - 1)) & 1 == 1
        if pred == "rsa_basic_position":
            if pad != "basic" or n < 2 or not (_accepted(r) or r["got"].startswith("CRASH")):
                return False
            if not r["got"].startswith("CRASH") and (s >= n or len(sig) != kl):
                return False
            em = pow(s, e, n).to_bytes(kl, "big").lstrip(b"\x00")
            return em[:1] == b"\xff" and len(em) != 33
        if pred == "rsa_pss_size":
            return pad == "pkcs2" and n.bit_length() % 8 == 1 and r["got"].startswith("v=0")
    if op == "rsa_sig" and pred == "rsa_prehash_len":
        msg = b"" if t[3] == "." else bytes.fromhex(t[3])
        return int(t[2]) == 1 and len(msg) != 32
    return False
