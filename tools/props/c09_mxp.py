"""C09 extension (Mxp family): generators for the modelled functions (bn_mxp_basic/slide/monty/dig/crt, bn_smb_leg)."""
from props.bngen import hx, magnitude, signed

TRUSTED = [
    "class A (Model/NtMxp.lean, proved in Lemmas/NtMxp.lean, theorems of Props/C09Mxp.lean, executed by the driver on every nt_mxp / "
    "nt_mxp_crt / nt_smb leg line): bn_mxp_basic, bn_mxp_slide (= bn_mxp), bn_mxp_monty, bn_mxp_dig — early exits (m = 1, b = 0), "
    "ERR_NO_VALID for an even or non-positive modulus, Montgomery form by its value (R = 2^(w*used(m)), reduction x -> x*R^-1 mod m), "
    "square-and-multiply / window table + bn_rec_slw scanning / ladder loops, negative exponents through the model of bn_mod_inv "
    "(bn_gcd_ext_basic cofactor loop); bn_mxp_crt recombination (sqr = 0 proved; sqr = 1 modelled and executed, no theorem); "
    "bn_smb_leg = Legendre symbol for every a and odd prime b",
    "inside the Mxp model the Montgomery reduction bn_mod_monty_comba and the conversions are taken at value level (x*R^-1 mod m for "
    "0 <= x < m*R, which holds at every call of the loops); their digit-level correctness is the Mod family's / C02's subject",
    "bn_mxp_sim (= bn_mxp_sim_few at n = 2) and bn_mxp_sim_few for every n are class A as well (mxpSim / mxpSimFew, theorems mxp_sim_exact, mxp_sim_few_exact: "
    "table built block by block with unbuilt blocks for zero exponents, one squaring + one table multiplication per bit of the longest exponent; the signs of the exponents are "
    "ignored — known finding C09-ext-mxp-1 —, no zero-exponent exit, even modulus -> error, n = 0 leaves the result untouched, n > 8 -> error); bn_mxp_sim_lot is class A too "
    "(mxpSimLot: blocks of 8 through bn_mxp_sim_few, a single leftover through bn_mxp, products reduced by bn_mod; theorem mxp_sim_lot_exact for odd m > 1 and exponents >= 0); "
    "nothing of the Mxp family is left in class C except the digit-level Montgomery reduction (taken by value) and out-of-contract inputs judged by the model alone",
]

# odd primes for Legendre / CRT lines (all below 2^256 so that they fit RLC_BN_DIGS of both configurations)
PRIMES = [3, 5, 7, 11, 13, 97, 251, 257, 65521, 65537, 4294967291, 4294967311, 18446744073709551557, 18446744073709551629,
          (1 << 61) - 1, (1 << 89) - 1, (1 << 107) - 1, (1 << 127) - 1,
          0xffffffff00000001000000000000000000000000ffffffffffffffffffffffff]

CORPUS = [
    "nt_mxp basic 5 0 1", "nt_mxp slide 5 0 1", "nt_mxp monty 5 0 1", "nt_mxp dig 5 0 1", "nt_mxp mxp 5 3 1",
    "nt_mxp basic 5 0 8", "nt_mxp slide 5 0 0", "nt_mxp monty 5 0 -7", "nt_mxp dig 3 0 6",
    "nt_mxp basic 5 3 8", "nt_mxp slide 5 3 -7", "nt_mxp monty 3 5 0", "nt_mxp dig 3 5 a", "nt_mxp mxp 3 5 -1",
    "nt_mxp basic 5 -3 7", "nt_mxp slide 5 -3 7", "nt_mxp monty 5 -3 7", "nt_mxp monty 3 -2 9", "nt_mxp slide 0 -1 7", "nt_mxp basic 7 -1 7",
    "nt_mxp basic -5 3 7", "nt_mxp slide -5 3 7", "nt_mxp monty -5 3 7", "nt_mxp dig -5 3 7",
    "nt_smb leg 6 3", "nt_smb leg 3 3", "nt_smb leg 5 1", "nt_smb leg 5 2", "nt_smb leg 5 0", "nt_smb leg -1 7", "nt_smb leg 5 -7", "nt_smb leg 5 8",
    "nt_smb leg e 7", "nt_smb leg 2 7", "nt_smb leg 3 7", "nt_smb leg 0 7", "nt_smb leg -7 7", "nt_smb leg 9 f",
    "nt_mxp_crt 5 3 3 7 b 0", "nt_mxp_crt 5 3 3 b 7 0", "nt_mxp_crt 5 3 3 7 7 0", "nt_mxp_crt 5 3 3 7 b 1", "nt_mxp_crt 5 0 0 7 b 0", "nt_mxp_crt 4d 3 3 7 b 0",
    "nt_mxp_sim 2 3 5 2 7", "nt_mxp_sim 2 0 5 0 7", "nt_mxp_sim 2 0 5 0 8", "nt_mxp_sim 2 0 5 0 1", "nt_mxp_sim 2 3 5 0 7", "nt_mxp_sim 2 0 5 3 7",
    "nt_mxp_sim 2 3 5 2 8", "nt_mxp_sim 2 3 5 2 0", "nt_mxp_sim 2 3 5 2 -7", "nt_mxp_sim 2 -3 5 2 7", "nt_mxp_sim 2 3 5 -2 7", "nt_mxp_sim -2 3 -5 3 7",
    "nt_mxp_sim 7 3 5 2 7", "nt_mxp_sim e 1 15 1 7", "nt_mxp_sim 2 ff 5 1 7", "nt_mxp_sim 2 1 5 ff 7",
    "nt_mxp_few 9 7", "nt_mxp_few 9 1", "nt_mxp_few -9 8", "nt_mxp_few 9 7 2 3", "nt_mxp_few 9 7 2 0", "nt_mxp_few 9 8 2 0", "nt_mxp_few 9 7 2 3 5 2",
    "nt_mxp_few 9 7 2 0 5 2 3 4", "nt_mxp_few 9 7 2 3 5 0 3 4", "nt_mxp_few 9 7 2 3 5 2 3 0", "nt_mxp_few 9 7 2 0 5 0 3 0",
    "nt_mxp_few 9 b 2 1 3 1 5 1 7 1 2 1 3 1 5 1 7 1", "nt_mxp_few 9 b 2 1 3 1 5 1 7 1 2 1 3 1 5 1 7 1 2 1", "nt_mxp_few 9 1 2 1 3 1 5 1 7 1 2 1 3 1 5 1 7 1 2 1",
    "nt_mxp_few 9 b 2 3 3 0 5 ff 7 0 2 1 3 0 5 6 7 0", "nt_mxp_few 9 7 2 -3 5 2",
    "nt_mxp_lot 7", "nt_mxp_lot 8", "nt_mxp_lot 1", "nt_mxp_lot 7 2 3", "nt_mxp_lot 7 2 0", "nt_mxp_lot 8 2 0", "nt_mxp_lot 8 2 3", "nt_mxp_lot 7 2 -1", "nt_mxp_lot 9 3 -1",
    "nt_mxp_lot 7 2 3 5 2", "nt_mxp_lot b 2 1 3 1 5 1 7 1 2 1 3 1 5 1 7 1", "nt_mxp_lot b 2 1 3 1 5 1 7 1 2 1 3 1 5 1 7 1 6 5",
    "nt_mxp_lot b 2 1 3 1 5 1 7 1 2 1 3 1 5 1 7 1 6 -1", "nt_mxp_lot b 2 1 3 1 5 1 7 1 2 1 3 1 5 1 7 1 6 5 2 3", "nt_mxp_lot 8 2 1 3 1 5 1 7 1 2 1 3 1 5 1 7 1",
    "nt_mxp_crt 5 3 3 8 b 0", "nt_mxp_crt 5 3 3 7 a 0", "nt_mxp_crt 5 3 3 1 b 0", "nt_mxp_crt 5 3 3 7 1 0",
]

THRESH = [1, 2, 3, 4, 7, 20, 21, 22, 23, 31, 32, 33, 34, 127, 128, 129, 255, 256, 257, 511, 512, 513, 514]


def exponent(rng, bits, kind):
    """an exponent of exactly `bits` bits of the named shape"""
    top = 1 << (bits - 1)
    if kind == "ones":
        return (1 << bits) - 1
    if kind == "single":
        return top
    if kind == "alt":
        return int(("10" * bits)[:bits], 2)
    if kind == "runs":          # long runs of zeros and ones
        v, pos = 0, 0
        while pos < bits:
            run = 1 + rng.below(24)
            if rng.chance(1, 3):
                v |= ((1 << run) - 1) << pos
            pos += run
        return (v & (top - 1)) | top
    if kind == "sparse":        # a few isolated one bits
        v = top
        for _ in range(1 + bits // 16):
            v |= 1 << rng.below(bits)
        return v
    if kind == "lowzero":       # trailing zeros (windows end early)
        z = rng.below(bits) if bits > 1 else 0
        return ((rng.bits(bits) | top) >> z) << z
    return rng.bits(bits) | top


KINDS = ["ones", "single", "alt", "runs", "sparse", "lowzero", "rand", "rand"]


def modulus(rng, w, digs, odd=True):
    """structured moduli: one digit, multi digit, 2^k +- 1, digit-boundary values"""
    k = rng.below(9)
    md = 1 + rng.below(min(digs, 4))
    if k == 0:
        m = rng.choice([3, 5, 7, 9, 15, 255, 257])
    elif k == 1:
        j = 1 + rng.below(min(digs, 4))
        m = (1 << (w * j)) - 1
    elif k == 2:
        j = 1 + rng.below(min(digs - 1, 3))
        m = (1 << (w * j)) + 1
    elif k == 3:
        e = 2 + rng.below(w * min(digs, 4) - 2)
        m = (1 << e) + rng.choice([-1, 1])
    elif k == 4:
        m = rng.bits(w) | 1 | (1 << (w - 1))        # one full digit
    elif k == 5:
        m = rng.choice(PRIMES)
    else:
        m = magnitude(rng, w, md) | 1
    if not odd:
        m += 1
    return m if m > 1 else 3


def bases(rng, w, digs, m):
    am = abs(m) if m else 5
    return [0, 1, 2, am - 1, am, am + 1, 2 * am, -1, -am, -(rng.below(am) + 1), rng.below(am), rng.bits(am.bit_length() + 9),
            rng.bits(min(w * digs, 2 * am.bit_length() + w)), (1 << (w * ((am.bit_length() + w - 1) // w))) % am]


def gen(rng, w, cap, digs, n):
    """structured lines for this family (n = budget of random lines; boundary lines come on top)"""
    out = []
    maxe = w * digs                     # exponents are kept within RLC_BN_DIGS digits
    lens = [l for l in THRESH if l <= maxe]
    # 1. every variant by name at every window threshold, every exponent shape
    for v in ("basic", "slide", "monty", "mxp"):
        for l in lens:
            for kind in (["ones", "single", rng.choice(KINDS)] if l > 2 else ["rand"]):
                m = modulus(rng, w, digs)
                a = rng.choice(bases(rng, w, digs, m))
                e = exponent(rng, l, kind)
                if rng.chance(1, 8):
                    e = -e
                out.append("nt_mxp %s %s %s %s" % (v, hx(a), hx(e), hx(m)))
    # 2. every base class against every variant, small exponents 0..3 and a longer one
    for v in ("basic", "slide", "monty", "mxp", "dig"):
        m = modulus(rng, w, digs)
        for a in bases(rng, w, digs, m):
            e = rng.choice([0, 1, 2, 3, 5, rng.bits(min(w, 30)) + 1])
            out.append("nt_mxp %s %s %s %s" % (v, hx(a), hx(e), hx(m)))
        # moduli 1, 2, 3, even, non-positive: early exits first, then the reported error
        for m2 in (1, 2, 3, 4, 6, (1 << w), (1 << w) - 2, 0, -1, -3, -4, modulus(rng, w, digs, odd=False)):
            for e in (0, 1, 3, -1):
                if v == "dig" and e < 0:
                    continue
                out.append("nt_mxp %s %s %s %s" % (v, hx(rng.choice([0, 1, 2, 5, -3])), hx(e), hx(m2)))
        # digit exponents
        if v == "dig":
            for e in (1, 2, 3, (1 << w) - 1, 1 << (w - 1), (1 << (w - 1)) + 1, rng.bits(w), rng.bits(w // 2)):
                m = modulus(rng, w, digs)
                out.append("nt_mxp dig %s %s %s" % (hx(rng.choice(bases(rng, w, digs, m))), hx(e), hx(m)))
    # 3. negative exponents: invertible and non-invertible bases (composite moduli with a known factor)
    for v in ("basic", "slide", "monty", "mxp"):
        for _ in range(6):
            f = rng.choice([3, 5, 7, 255, 65537])
            m = f * (magnitude(rng, w, 1 + rng.below(2)) | 1)
            a = rng.choice([f, f * (rng.below(1000) + 1), rng.below(m), m - 1, 1, 0, m, 2, -f, -2])
            e = -exponent(rng, rng.choice([1, 2, 5, 22, 33, 64]), rng.choice(KINDS))
            out.append("nt_mxp %s %s %s %s" % (v, hx(a), hx(e), hx(m)))
    # 3b. simultaneous exponentiation: unequal lengths, zero exponents, equal exponents, complementary bit patterns, every modulus class
    for _ in range(60):
        m = modulus(rng, w, digs) if rng.chance(5, 6) else rng.choice([1, 2, 4, 6, 0, -3, (1 << w), modulus(rng, w, digs, odd=False)])
        lb = rng.choice(lens[:14])
        le = rng.choice([lb, lb, 1, 2, max(1, lb - 1), lb + 1, rng.choice(lens[:14])])
        b = exponent(rng, lb, rng.choice(KINDS))
        e = exponent(rng, le, rng.choice(KINDS))
        j = rng.below(10)
        if j == 0:
            b = 0
        elif j == 1:
            e = 0
        elif j == 2:
            b = e = 0
        elif j == 3:
            e = b
        elif j == 4:        # complementary: never both bits set
            e = ((1 << lb) - 1) ^ b
        elif j == 5:        # always both bits set
            e = b = (1 << lb) - 1
        elif j == 6 and rng.chance(1, 2):
            b = -b
        elif j == 6:
            e = -e
        bs = bases(rng, w, digs, m)
        out.append("nt_mxp_sim %s %s %s %s %s" % (hx(rng.choice(bs)), hx(b), hx(rng.choice(bs)), hx(e), hx(m)))
    # 3c. bn_mxp_sim_few: every n in 0..9, zero exponents in every position, unequal lengths, every modulus class
    for nn in (0, 1, 2, 3, 4, 5, 6, 7, 8, 9, 1, 2, 3, 8, 3, 8):
        for rep in range(2):
            m = modulus(rng, w, digs) if rng.chance(7, 8) else rng.choice([1, 2, 6, 0, -3, modulus(rng, w, digs, odd=False)])
            bs = bases(rng, w, digs, m)
            toks = []
            zero_at = rng.below(nn) if nn and rep == 0 else -1
            for i in range(nn):
                lb = rng.choice([1, 2, 3, 8, 21, 33] + ([64, 65] if w * digs >= 65 else []))
                b = exponent(rng, lb, rng.choice(KINDS))
                if i == zero_at or rng.chance(1, 6):
                    b = 0
                toks += [hx(rng.choice(bs)), hx(b)]
            out.append(" ".join(["nt_mxp_few", hx(rng.choice([0, 1, -5, rng.bits(w)])), hx(m)] + toks))
    # 3d. every table index is read: all exponents all-ones of one length (parities = 2^n - 1), and one exponent cleared in turn
    for nn in (2, 3, 4, 5, 6, 7, 8):
        for clear in (-1, rng.below(nn)):
            m = modulus(rng, w, digs)
            bs = [x for x in bases(rng, w, digs, m) if x % m not in (0, 1)] or [2]
            lb = rng.choice([1, 2, 5])
            toks = []
            for i in range(nn):
                toks += [hx(rng.choice(bs)), hx(((1 << lb) - 1) if i != clear else rng.choice([0, 1 << (lb - 1)]))]
            out.append(" ".join(["nt_mxp_few", "0", hx(m)] + toks))
    # 3e. bn_mxp_sim_lot: block boundaries (8, 16), single leftover (through bn_mxp), several leftovers, zero exponents, modulus classes
    for nn in (0, 1, 2, 7, 8, 9, 10, 15, 16, 17, 18, 20, 1, 9, 17):
        for rep in range(2):
            m = modulus(rng, w, digs) if rng.chance(7, 8) else rng.choice([1, 2, 6, -3, modulus(rng, w, digs, odd=False)])
            bs = bases(rng, w, digs, m)
            toks = []
            zero_at = rng.below(nn) if nn and rep == 0 else -1
            for i in range(nn):
                lb = rng.choice([1, 2, 3, 8, 21, 33])
                b_ = exponent(rng, lb, rng.choice(KINDS))
                if i == zero_at or rng.chance(1, 8):
                    b_ = 0
                if i == nn - 1 and nn % 8 == 1 and rng.chance(1, 3):
                    b_ = -b_          # the single leftover goes through bn_mxp, which inverts
                toks += [hx(rng.choice(bs)), hx(b_)]
            out.append(" ".join(["nt_mxp_lot", hx(m)] + toks))
    # 4. random lines
    for _ in range(n):
        k = rng.below(10)
        if k < 6:
            v = rng.choice(["basic", "slide", "monty", "mxp", "dig"])
            m = modulus(rng, w, digs)
            a = rng.choice(bases(rng, w, digs, m))
            l = rng.choice(lens) if rng.chance(1, 2) else 1 + rng.below(min(maxe, 160))
            e = exponent(rng, l, rng.choice(KINDS))
            if v == "dig":
                e &= (1 << w) - 1
            elif rng.chance(1, 10):
                e = -e
            out.append("nt_mxp %s %s %s %s" % (v, hx(a), hx(e), hx(m)))
        elif k < 8:
            p = rng.choice(PRIMES)
            a = rng.choice([0, 1, 2, 3, 4, p - 1, p, p + 1, 2 * p, 3 * p, -1, -p, -2 * p, rng.below(p), rng.below(p) ** 2, -rng.below(p) - 1,
                            rng.bits(p.bit_length() + 8), rng.bits(min(w * digs, 2 * p.bit_length()))])
            out.append("nt_smb leg %s %s" % (hx(a), hx(p)))
            if rng.chance(1, 6):       # outside the contract (not an odd prime): the model alone judges
                b = rng.choice([0, 1, 2, 9, 15, 21, 255, 8, 10, -3, -7, (1 << w) + 1, 561])
                out.append("nt_smb leg %s %s" % (hx(rng.choice([0, 1, 2, b, b + 1, -1, rng.bits(20)])), hx(b)))
        else:
            # bn_mxp_crt brings m1 - m2 into [0, p) by repeated addition of p: about q/p iterations, so p and q of similar size
            p = rng.choice(PRIMES)
            q = rng.choice([x for x in PRIMES if x < 40 * p and p < 40 * x])
            if (p * q).bit_length() > w * digs - 2:
                p, q = 65537, 65521
            j = rng.below(12)
            if j == 0:
                q = rng.choice([p, 9, 15, 2 * p + 1 if (2 * p + 1) % 2 else 21, 1])     # equal / composite / one
            elif j == 1:
                q = rng.choice([4, 6, p + 1])       # even
            dp = rng.choice([0, 1, 2, p - 2, p - 1, rng.below(p), rng.bits(p.bit_length() + 3)])
            dq = rng.choice([0, 1, 2, q - 1, rng.below(q) if q > 0 else 1, rng.bits(q.bit_length() + 3)])
            a = rng.choice([0, 1, 2, p, q, p * q - 1, p * q, p * q + 1, rng.below(p * q), rng.below(p * q), -rng.below(p * q) - 1])
            sqr = 1 if rng.chance(1, 5) and (p * p).bit_length() <= w * digs // 2 and (q * q).bit_length() <= w * digs // 2 else 0
            if sqr:
                a = a if a % p and a % q else 2     # L((a^b mod p^2)) needs a unit
            out.append("nt_mxp_crt %s %s %s %s %s %d" % (hx(a), hx(dp), hx(dq), hx(p), hx(q), sqr))
    return out
