"""C09 extension (Mxp family): generators for the modelled functions."""
from props.bngen import hx, magnitude, signed

TRUSTED = []
CORPUS = []


def gen(rng, w, cap, digs, n):
    """structured lines for this family (n = budget of random lines; boundary lines come on top)"""
    return []
