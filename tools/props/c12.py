"""C12 — subgroup membership tests are exact; group exponentiation is repeated operation."""
import props.c03 as c03, props.c11 as c11
import props.pcgen as pg
from props.bngen import hx

TRUSTED = [
    "specification: G1 = Spec/Curve.lean, G2 = Spec/CurveX.lean over Fp2, GT = generic tower spec for Fp12 (Spec/Tower.lean: schoolbook polynomial "
    "arithmetic modulo the tower's defining polynomials); membership is decided by definition (on the curve, not the identity, r*P = O; a != 1, "
    "a^r = 1), exponentiation by square-and-multiply in the specification; all constants are read from the running library (pc_param) and checked",
    "class A (Model/PcValid.lean executed by Driver/C12V.lean on every pcv line, model column): the decision logic of g1_is_valid / g2_is_valid / "
    "gt_is_valid for embedding degree 12 — identity / zero exits, cofactor-1 shortcut, EP_B12 and EP_BN endomorphism / Frobenius relations, B12_383 "
    "shortcut, default order check, fp12_test_cyc — with the constants the running library reports (h1, beta of ep_psi, ep2_frb constants, sparse "
    "form and sign of the parameter, EP_ENDOM compiled in or not). Inside the model g*_mul_any, the group law, ep2_frb / fp12_frb and "
    "fp12_exp_cyc_sps are evaluated by the specification arithmetic resp. Model/PpExp (those routines are class A in C03 / C11 / C04 / C10)",
    "class A (dispatch): g1_mul / g2_mul (one-digit path with negation vs. reduction mod n and ep_mul / ep2_mul), g*_mul_gen (reduction mod n), "
    "_any, _dig, _fix, _sim, _sim_gen and g1_mul_sec are executed through the models of the routine the macro of include/relic_pc.h expands to "
    "(Driver/C03.modelMul / modelSim, Driver/C11.modelMul / modelSim; needs the ep_param / ep2_param context lines of the same curve, otherwise "
    "the line is tagged classC). An identity base of the _fix variant is the recorded finding F33 and is left to the specification column",
    "class C (specification column only): g2_mul_sec (ep2_mul_lwreg is not modelled), every gt_exp variant (gt_exp, _sec, _dig, _gen, _sim: "
    "gt_exp_gls_naf / gt_exp_reg_gls and the cyclotomic digit exponentiation are not modelled)",
    "theorems (Lemmas/PcValid.lean): cofactor-1 test, B12 G1 test and B12 G2 test accept exactly the non-zero elements killed by r over an "
    "abstract commutative group with endomorphism, under explicit hypotheses (characteristic equation of psi on the group, eigenvalue on the "
    "r-torsion, r = z^4 - z^2 + 1 resp. gcd(z^2 - t z + p, group order) | r); BN G2: reduction to the coded relation and completeness only; B12 GT test (fp12_test_cyc and a^p = a^z) over an abstract commutative "
    "group with Frobenius. NOT proved: soundness of the BN G2 relation, the BN GT relation (Dai et al.); of the hypotheses only r = z^4-z^2+1, the gcd condition and the characteristic equations at the "
    "generators are re-checked on the reported constants (pc_param line, B12) — the per-line specification column (definition: on the curve, killed by r) is what judges those",
    "theorems (Props/C12.lean): the membership predicate 'a^r = 1' already implies membership in the cyclotomic subgroup (unique subgroup of order "
    "r in a cyclic group), so the specification predicate equals the property's predicate; exponentiation by k depends on k mod r only",
]
ASSUMPTIONS = ["gt_exp* have a contract on target-group elements only: for field elements outside the group the cyclotomic routines are not "
               "claimed (lines tagged gte.outside are not judged)"]
EXTRA_THEOREM_MODULES = ["RelicVerif.Lemmas.PcValid"]
RULE = ("both pairing-friendly curves: subgroup elements, twist points outside the subgroup, off-curve coordinates, identity, field elements "
        "outside the cyclotomic subgroup, cyclotomic elements of order not dividing r; scalars of every class of C03; every variant by name; "
        "non-trivial = distinct line with a non-error result")

IDS = {"base": [23, 24]}
GM = ["mul", "sec", "any", "gen", "dig", "fix", "mul!", "sec!", "dig!"]
# the boundary of the one-digit path of g1_mul / g2_mul (bn_bits(k) <= RLC_DIG), both signs
EDGE = [0, 1, -1, 2, -3, 0xffff, (1 << 63), -(1 << 63), (1 << 64) - 1, -((1 << 64) - 1), 1 << 64, -(1 << 64), (1 << 64) + 1, -((1 << 64) + 1)]
GTE = ["exp", "sec", "dig", "gen", "sim", "exp!", "sec!", "dig!"]


def gen_lines(rng, ex, cid, st, count):
    out = []
    cv1, cv2 = st.cv1, st.cv2
    pool1 = [cv1.mul(cv1.g, rng.bits(256) % st.n) for _ in range(4)] + [cv1.g]
    pool2 = [cv2.mul(cv2.g, rng.bits(256) % st.n) for _ in range(3)] + [cv2.g]
    outside = pg.outside_g2(ex, cid, rng, 4)
    # points of E(Fp) found from x (for a cofactor != 1 almost surely OUTSIDE the subgroup: the endomorphism-based test of
    # g1_is_valid must reject them), and their cofactor-cleared multiples are not needed: pool1 is inside
    out1 = []
    if st.p % 4 == 3:
        a1, b1 = int(st.kv["a1"], 16), int(st.kv["b1"], 16)
        x = rng.bits(200)
        while len(out1) < 4:
            x += 1
            rhs = (x * x * x + a1 * x + b1) % st.p
            y = pow(rhs, (st.p + 1) // 4, st.p)
            if y * y % st.p == rhs:
                out1.append((x % st.p, y if rng.chance(1, 2) else (st.p - y) % st.p))
    valid, cyc, rnd, pre = pg.gt_elements(ex, cid, rng, st, 4)
    out += pre
    one = "1," + ",".join(["0"] * 11)
    zero = ",".join(["0"] * 12)

    def t1(P, v):
        # operands also in projective form (the direct output of g1_add / g1_dbl), except for the precomputation-based variant
        return pg.p1tok(P) if P is None or v == "fix" else c03.ptok(rng, cv1, P, "P")

    def t2(Q, v):
        return pg.p2tok(Q) if Q is None or v == "fix" else c11.ptok(rng, cv2, Q, "P")
    # systematic part: every multiplication / exponentiation variant meets the scalar classes that exercise reduction and sign handling
    # (short, order multiples, negatives, order multiple +- one digit with either sign)
    for v in GM:
        for cls in (1, 2, 3, 4, 9, 14, 14, 14):
            kk = c03.scalar(rng, st.n, cls)
            if v.startswith("dig"):
                kk = abs(kk) & ((1 << 64) - 1)
            out.append("g1m %s %s %s" % (v, t1(rng.choice(pool1), v), hx(kk)))
            kk = c03.scalar(rng, st.n, cls)
            if v.startswith("dig"):
                kk = abs(kk) & ((1 << 64) - 1)
            out.append("g2m %s %s %s" % (v, t2(rng.choice(pool2), v), hx(kk)))
    for v in GTE:
        if v == "sim":
            continue
        for cls in (1, 3, 4, 14, 14):
            kk = c03.scalar(rng, st.n, cls)
            if v.startswith("dig"):
                kk = abs(kk) & ((1 << 64) - 1)
            out.append("gte %s %s %s" % (v, rng.choice(valid + [st.gt]), hx(kk)))
    for _ in range(count):
        k = rng.below(100)
        if k < 10:
            P = rng.choice(pool1 + out1 + [None])
            j = rng.below(4)
            if P in out1:
                pass
            elif P is not None and j == 0:
                P = (P[0], (P[1] + 1) % st.p)           # off the curve
            elif P is not None and j == 1:
                P = ((P[0] + 1) % st.p, P[1])
            out.append("pcv g1 %s" % pg.p1tok(P))
        elif k < 22:
            Q = rng.choice(pool2 + outside + outside + [None])
            if Q is not None and rng.chance(1, 5):
                Q = (Q[0], ((Q[1][0] + 1) % st.p, Q[1][1]))
            out.append("pcv g2 %s" % pg.p2tok(Q))
        elif k < 36:
            a = rng.choice(valid + cyc + rnd + [one, zero, st.gt])
            if rng.chance(1, 3):
                # -a for a valid a, and -1: order 2r resp. 2 — inside the cyclotomic subgroup's neighbourhood but not of order r
                t = rng.choice(valid + [st.gt, one]).split(",")
                a = ",".join("%x" % ((st.p - int(x, 16)) % st.p) for x in t)
            if rng.chance(1, 8):
                t = a.split(",")
                t[rng.below(12)] = "%x" % (rng.bits(256) % st.p)
                a = ",".join(t)
            out.append("pcv gt %s" % a)
        elif k < 52:
            v = rng.choice(GM)
            kk = c03.scalar(rng, st.n)
            if v.startswith("mul") and rng.chance(1, 2):
                kk = rng.choice(EDGE)
            if v.startswith("dig"):
                kk = abs(kk) & ((1 << 64) - 1)
            out.append("g1m %s %s %s" % (v, t1(rng.choice(pool1 + [None]), v), hx(kk)))
        elif k < 66:
            v = rng.choice(GM)
            kk = c03.scalar(rng, st.n)
            if v.startswith("mul") and rng.chance(1, 2):
                kk = rng.choice(EDGE)
            if v.startswith("dig"):
                kk = abs(kk) & ((1 << 64) - 1)
            out.append("g2m %s %s %s" % (v, t2(rng.choice(pool2 + [None]), v), hx(kk)))
        elif k < 78:
            # simultaneous multiplication: also with a vanishing term (scalar 0, r, 2r, identity) on either side and distinct points
            g = "g1s" if k < 72 else "g2s"
            tk = t1 if k < 72 else t2
            pool = pool1 if k < 72 else pool2
            P, Q = rng.choice(pool), rng.choice(pool)
            a, b = c03.scalar(rng, st.n), c03.scalar(rng, st.n)
            j = rng.below(8)
            if j == 0: b = rng.choice([0, st.n, 2 * st.n, -st.n])
            elif j == 1: a = rng.choice([0, st.n, 2 * st.n, -st.n])
            elif j == 2: Q = None
            elif j == 3: P = None
            out.append("%s %s %s %s %s %s" % (g, rng.choice(["sim", "gen"]), tk(P, "sim"), hx(a), tk(Q, "sim"), hx(b)))
        else:
            v = rng.choice(GTE)
            a = rng.choice(valid + [st.gt, one])
            kk = c03.scalar(rng, st.n)
            if rng.chance(1, 3):
                kk = rng.choice([2, 3, 5, 9, 10, 13, 21, 37, 255, (1 << 63) + 5, (1 << 64) - 1, -5, -9])   # the one-digit shortcut and its NAF shapes
            if v.startswith("dig"):
                kk = abs(kk) & ((1 << 64) - 1)
            if v == "sim":
                out.append("gte sim %s %s %s %s" % (a, hx(kk), rng.choice(valid + [st.gt]), hx(c03.scalar(rng, st.n))))
            else:
                out.append("gte %s %s %s" % (v, a, hx(kk)))
    return out


def streams(ctx, scale=1):
    per = (130 if ctx.tier == "quick" else 2500) * scale
    res = []
    for cfg in ["base", "p381"]:
        res += _stream(ctx, cfg, per if cfg == "base" else max(60, per // 4))
    return res


def _stream(ctx, cfg, per):
    ex = pg.exe(ctx, cfg)
    lines = ["cfg"]
    for cid in (IDS.get(cfg) or pg.pairing_ids(ex)):
        kv = pg.info(ex, cid)
        if "p" not in kv:
            continue
        st = pg.Setting(kv)
        lines.append("pc_param %d" % cid)
        lines.append("ep_param %d" % cid)
        lines.append("ep2_param %d" % cid)
        lines.append("pc_param %d" % cid)
        lines += gen_lines(ctx.rng, ex, cid, st, per)
    return [{"name": "pc-" + cfg, "cfg": cfg, "exe": ex, "lines": lines}]


def search_streams(ctx, mfail):
    return streams(ctx, scale=3)


def replay_streams(ctx, rp):
    cfg = rp.get("config", "base")
    return [{"name": "replay", "cfg": cfg, "exe": pg.exe(ctx, cfg), "lines": ["cfg"] + rp.get("context_lines", []) + rp.get("op_lines", [])}]


def nontrivial(r):
    return not r["got"].startswith("err")


def matches_finding(f, r):
    t = r["line"].split()
    if f.get("pred") == "fix_identity_base" and t[0] in ("g1m", "g2m") and t[1] == "fix" and t[2] == "inf" and r["got"] == "err":
        return True
    return False
