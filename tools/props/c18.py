"""C18 — every built-in parameter set is internally consistent."""
import props.c03 as c03

GENERATED = ["params"]
TRUSTED = [
    "translator tools/translate_params.py (regex extraction of the case tables and hex constants after gcc -E; evaluation of the sparse "
    "forms and of the bn_set_2b/bn_set_bit/... constructor language); a construct it does not know is a translation failure",
    "Pratt certificates are found by an untrusted sympy search (certs/pratt.json) and checked line by line by the kernel; soundness of the "
    "checker is Lemmas/Pratt.lean (Mathlib lucas_primality)",
    "r*G = O is evaluated by the kernel with Jacobian formulas written independently in Model/ParamBase.lean, and in affine coordinates by "
    "the compiled driver on every run; the two evaluations are compared",
    "Hasse's theorem itself (|#E - p - 1| <= 2 sqrt p) is a hypothesis of the reading 'h*r is the curve order': it is not in Mathlib",
]
ASSUMPTIONS = ["GLV constants (beta, lattice basis) are derived at run time: checked through their defining equations on the values the library "
               "reports (beta^3 = 1, psi(G) on the curve, k*G = k0*G + k1*psi(G) with short k0, k1), not extracted as a table; twist generators and "
               "Frobenius constants are not covered yet"]
RULE = "every parameter identifier the library accepts in the configuration (probed by id 0..200); non-trivial = an identifier the library accepts"


def streams(ctx, scale=1):
    import props.c11 as c11
    exe = c11._exe(ctx, "base")
    lines = ["cfg"]
    # probe every identifier: accepted ones must be in the extracted table and agree with it (the driver checks), and every table
    # entry must be accepted
    rng = ctx.rng
    for cid in range(0, 120):
        lines.append("ep2_param %d" % cid)    # twist table vs the library (rejected for non-pairing identifiers)
        lines.append("ep_param %d" % cid)
        # endomorphism / lattice constants derived at installation: the decomposition they produce is checked on scalars of every shape
        # (the op answers "no-endom" / is skipped by the oracle on curves without endomorphism or unknown identifiers)
        if cid in c03.CURVES["base"]:
            n = 1 << 256
            for k in [0, 1, 2, (1 << 128) - 1, 1 << 128, (1 << 255), (1 << 256) - 1] + [rng.bits(256) for _ in range(12 if ctx.tier == "quick" else 300)]:
                lines.append("ep_glv %x" % k)
    out = [{"name": "params-base", "cfg": "base", "exe": exe, "lines": lines}]
    # the other configurations whose tables the translator extracts (Gen/Params.lean extraFields / extraCurves): every identifier is offered
    # to a library built in that configuration; accepted ones are judged against the extracted entries
    for cfg, mk in (("p255", c03._exe), ("p381", c11._exe)):
        xl = ["cfg"]
        for cid in range(0, 120):
            if cfg == "p381":
                xl.append("ep2_param %d" % cid)
            xl.append("ep_param %d" % cid)
            if cid in _cfg_ids().get(cfg, []):
                for k in [0, 1, 2, (1 << 128) - 1, 1 << 128, (1 << 255), (1 << 256) - 1] + [rng.bits(256) for _ in range(6 if ctx.tier == "quick" else 100)]:
                    xl.append("ep_glv %x" % k)
        out.append({"name": "params-" + cfg, "cfg": cfg, "exe": mk(ctx, cfg), "lines": xl})
    return out


def _cfg_ids():
    """identifiers selectable per configuration, as extracted by the translator for this run (Gen/params_ids.json)"""
    import os, json
    f = os.path.join(os.path.dirname(os.path.dirname(os.path.dirname(os.path.abspath(__file__)))), "lean", "RelicVerif", "Gen", "params_ids.json")
    try:
        return json.load(open(f))
    except (OSError, ValueError):
        return {}


def _table_ids():
    """identifiers of the curve table the translator extracted for this run (lean/RelicVerif/Gen/Params.lean)"""
    import os, re
    f = os.path.join(os.path.dirname(os.path.dirname(os.path.dirname(os.path.abspath(__file__)))), "lean", "RelicVerif", "Gen", "Params.lean")
    try:
        txt = open(f).read()
    except OSError:
        return set()
    txt = txt[txt.find("def curves"):]      # base and extra curve tables
    if "def edCurves" in txt:
        txt = txt[:txt.find("def edCurves")]  # the Edwards table is offered through ed_param in the C17 streams (judged against the table there)
    return {int(m.group(1)) for m in re.finditer(r'name := "\w+", id := (\d+), field :=', txt)}


def postprocess(ctx, recs):
    """every entry of the extracted table must be accepted by the running library (the converse — every accepted identifier is in the
    table and agrees with it — is the driver's judgement of the ep_param line)"""
    by_cfg = _cfg_ids()
    if not by_cfg:
        by_cfg = {"base": sorted(_table_ids())}
    seen = set()
    for r in recs:
        t = r["line"].split()
        if len(t) == 2 and t[0] == "ep_param" and t[1].isdigit():
            cid = int(t[1])
            if cid in by_cfg.get(r.get("cfg", "base"), []):
                seen.add((r.get("cfg", "base"), cid))
                if r["got"].startswith("err") and not r["verdict"].startswith("FAIL"):
                    r["verdict"] = "FAIL S model=[] spec=[ep_param %d selects the table entry extracted from the source] got=[err]" % cid
    want = {(cfg, cid) for cfg, l in by_cfg.items() for cid in l}
    # every identifier of the Lean table must belong to one of the configurations (nothing in the table is left unoffered)
    tab = _table_ids()
    orphan = tab - {cid for _, cid in want}
    if recs and (want - seen or orphan):
        recs[0]["verdict"] = "FAIL S model=[] spec=[every table entry is offered to the library] got=[never offered: %s %s]" % (sorted(want - seen), sorted(orphan))


def search_streams(ctx, mfail):
    return streams(ctx)


def replay_streams(ctx, rp):
    cfg = rp.get("config", "base")
    if cfg not in ("base", "p255", "p381"):
        cfg = "base"
    import props.c11 as c11
    return [{"name": "replay", "cfg": cfg, "exe": (c03._exe if cfg == "p255" else c11._exe)(ctx, cfg), "lines": ["cfg"] + rp.get("context_lines", []) + rp.get("op_lines", [])}]


def nontrivial(r):
    return "ep_param-rejected" not in r["verdict"]


def matches_finding(f, r):
    return False


def extra_evidence(ctx, recs):
    acc = [r["line"] for r in recs if r["verdict"].startswith("ok ep_param") and "rejected" not in r["verdict"]]
    return {"accepted_identifiers": acc, "exhaustive": True}
