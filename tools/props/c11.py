"""C11 — extension-field curves: group law, [k]Q, Frobenius and cofactor clearing."""
import subprocess
import props.c03 as c03
from props.bngen import hx

GENERATED = ["ep2", "ep"]
EXTRA_THEOREM_MODULES = ["RelicVerif.Lemmas.Ep2Formulas", "RelicVerif.Lemmas.Ep2Mul"]
TRUSTED = [
    "translator tools/translate.py: the add/dbl templates instantiated for (ep2, fp2) and the wrappers of relic_ep2_add.c / relic_ep2_dbl.c are "
    "regenerated on every run; Lemmas/Ep2Formulas.lean checks by rfl that they are the same terms as the (ep, fp) instantiation, so the formula "
    "theorems of Lemmas/EpFormulas.lean (over an arbitrary field) apply; the driver executes the generated ep2 code over the tower arithmetic",
    "specification: affine chord-and-tangent law over Fp2 = Fp[u]/(u^2 - qnr) built from the generic tower spec (Spec/Tower.lean, Spec/CurveX.lean); "
    "the twist (a', b', generator, order, cofactor, qnr) is read from the running library and its defining properties are checked by the driver "
    "(qnr non-residue, G on the twist, r*G = O, h*r in the Hasse interval of E'(Fp2))",
    "class A (model executed per line, model column = its prediction incl. errors; theorem for every integer scalar): ep2_mul_basic/big/dig, slide "
    "(|k| unreduced), monty, gen/fix/fix_combs, fix_combd, fix_basic, fix_lwnaf, sim_trick, sim_joint, sim_dig; Frobenius paths ep2_mul_gls_imp "
    "(= lwnaf = ep2_mul), ep2_mul_sim_endom (= sim_inter / sim / sim_gen, the ep2_mul calls of sim_basic and of the early exits), ep2_mul_sim_lot "
    "for n <= 10, with bn_rec_frb (BN branch) in integer form.  The models run over the affine law of the twist (Spec/CurveX), the C loops over "
    "the projective formulas: the link is the formula theorems.  The Frobenius data (constants of ep2_frb, family parameter, BN flag) are read "
    "from the running library; the driver checks psi(G) = [p mod r]G and that the four columns of the bn_rec_frb lattice annihilate G "
    "(hypotheses of rec_frb_bn_congr / ep2_mul_gls_correct)",
    "modelled and executed per line but not proved: the bucket branch of ep2_mul_sim_lot (n > 10; Ep2Mul.simLotBucket4), bn_rec_frb for non-BN "
    "families (digits in base |x|); op e2frb presents the decomposition of bn_rec_frb itself (a different valid decomposition does not change k*Q)",
    "class C (compared with [k]Q in the specification per line, not modelled): ep2_mul_lwreg (ep2_mul_reg_gls, bn_rec_sac), ep2_mul_cof",
    "Frobenius: ep2_frb(Q, i) = [p^i mod r]Q is checked per line for subgroup points and 'image on the twist' for points outside; the theorem "
    "endo_is_scalar_on_cyclic reduces the subgroup claim to the generator under additivity (additivity itself is observed, not proved)",
    "cofactor clearing: image has order dividing r and is zero iff h*P is; points outside the subgroup come from e2pt (x chosen by the generator, y "
    "by the library's square root, curve equation re-checked by the driver)",
]
ASSUMPTIONS = ["bn_rec_frb is modelled on integers (floor division, +1 on negative quotients, residues centred by comparing bit lengths); the "
               "fixed-length digit arithmetic of bn_mul / bn_div / bn_mod underneath is C01's subject; tie: every lwnaf / mul / sim / lot line",
               "the GLS theorems assume psi(Q) = [p mod r]Q: true on the order-r subgroup (checked on G, additivity of psi observed per line by the "
               "frb lines); for twist points outside the subgroup the GLS routines are compared with the specification only where the generator "
               "presents them (e2m takes subgroup points)",
               "curves over cubic/quartic/octic extensions (ep3/ep4/ep8) exist only for other pairing field sizes and are not covered (PARTIAL)",
               "p381 (BLS12-381, M-type twist) is run in the thorough tier"]
RULE = ("both pairing-friendly curves of the configuration (BN-P256, SM9-P256): identity, generator multiples, equal/opposite operands, projective and "
        "Jacobian operands with random z, every alias pattern; every multiplication variant by name x every scalar class of C03; Frobenius powers "
        "0..3 (and 12); cofactor map on random twist points outside the subgroup; non-trivial = distinct line with a non-error, non-identity result")

CURVES = {"base": [23, 24], "p381": None}     # BN_P256, SM9_P256; p381: found by probing

ADD = ["add", "add_basic", "add_projc", "add_jacob", "sub"]
DBL = ["dbl", "dbl_basic", "dbl_projc", "dbl_jacob"]
MUL = ["mul", "basic", "slide", "monty", "lwnaf", "lwreg", "big", "gen", "dig", "fix_basic", "fix_combs", "fix_combd", "fix_lwnaf", "fix_"]
SIM = ["sim", "basic", "trick", "inter", "joint", "gen"]


class F2:
    """Fp[u]/(u^2 - qnr)"""

    def __init__(self, p, qnr):
        self.p, self.q = p, qnr % p

    def add(self, a, b): return ((a[0] + b[0]) % self.p, (a[1] + b[1]) % self.p)
    def sub(self, a, b): return ((a[0] - b[0]) % self.p, (a[1] - b[1]) % self.p)
    def neg(self, a): return ((-a[0]) % self.p, (-a[1]) % self.p)
    def mul(self, a, b):
        p = self.p
        return ((a[0] * b[0] + self.q * a[1] * b[1]) % p, (a[0] * b[1] + a[1] * b[0]) % p)
    def inv(self, a):
        p = self.p
        n = (a[0] * a[0] - self.q * a[1] * a[1]) % p
        ni = pow(n, -1, p)
        return (a[0] * ni % p, (-a[1]) * ni % p)


class Cv2:
    def __init__(self, kv):
        self.p = int(kv["p"], 16)
        self.f = F2(self.p, int(kv["qnr"]))
        el = lambda s: tuple(int(t, 16) for t in s.split(","))
        self.a, self.b = el(kv["a"]), el(kv["b"])
        g = el(kv["g"])
        self.g = ((g[0], g[1]), (g[2], g[3]))
        self.n, self.h = int(kv["n"], 16), int(kv["h"], 16)

    def add(self, P, Q):
        f = self.f
        if P is None: return Q
        if Q is None: return P
        if P[0] == Q[0]:
            if f.add(P[1], Q[1]) == (0, 0): return None
            l = f.mul(f.add(f.mul((3, 0), f.mul(P[0], P[0])), self.a), f.inv(f.mul((2, 0), P[1])))
        else:
            l = f.mul(f.sub(Q[1], P[1]), f.inv(f.sub(Q[0], P[0])))
        x = f.sub(f.sub(f.mul(l, l), P[0]), Q[0])
        return (x, f.sub(f.mul(l, f.sub(P[0], x)), P[1]))

    def neg(self, P):
        return None if P is None else (P[0], self.f.neg(P[1]))

    def mul(self, P, k):
        if k < 0:
            P, k = self.neg(P), -k
        R = None
        while k:
            if k & 1: R = self.add(R, P)
            P = self.add(P, P)
            k >>= 1
        return R


def ptok(rng, cv, P, rep="P"):
    if P is None:
        return "inf"
    s = "%x,%x,%x,%x" % (P[0][0], P[0][1], P[1][0], P[1][1])
    if rep and rng.chance(1, 2):
        z0, z1 = rng.bits(256) % cv.p, rng.bits(256) % cv.p
        if rng.chance(1, 4):
            z1 = 0
        if (z0, z1) == (0, 0):
            z0 = 1
        return "%s,%x,%x,%s" % (s, z0, z1, rep)
    return s


def point(rng, cv, pool):
    k = rng.below(10)
    if k == 0: return None
    if k == 1: return cv.g
    if k == 2: return cv.neg(cv.g)
    if k == 3: return cv.mul(cv.g, rng.choice([2, 3, 4, 5, cv.n - 1, cv.n - 2]))
    return rng.choice(pool)


def gen_lines(rng, cv, count, outside):
    pool = [cv.mul(cv.g, rng.bits(256) % cv.n) for _ in range(5)]
    out = []
    # systematic: every multiplication variant meets every scalar class
    for v in MUL:
        for kc in range(c03.NCLASS):
            P = rng.choice(pool + [cv.g])
            kk = c03.scalar(rng, cv.n, kc)
            if v == "dig":
                kk = abs(kk) & ((1 << 64) - 1)
            out.append("e2m %s %d %s %s" % (v, rng.below(2), ptok(rng, cv, P, "" if v.startswith("fix") else "P"), hx(kk)))
        if v != "dig":
            for kk in (-2, -(3 + rng.below(17)), -((1 << 63) + rng.below(1 << 20))):
                for al in (0, 1):
                    out.append("e2m %s %d %s %s" % (v, al, ptok(rng, cv, rng.choice(pool + [cv.g]), "" if v.startswith("fix") else "P"), hx(kk)))
    # scalars that are short combinations of powers of the Frobenius eigenvalue (k = c0 + c1*L + c2*L^2 + c3*L^3 mod r, L = p mod r: the
    # GLS recodings decompose them into exactly these sub-scalars): zero, negative, one-digit and mixed-sign sub-scalars in every position
    L = cv.p % cv.n
    pats = [(-1, 0, -4, 6), (1, 0, 0, 0), (0, 1, 0, 0), (0, 0, 0, -1), (5, -3, 0, 2), (-7, 0, 0, 9), (0, 0, 3, 0), (2, -2, 2, -2), (-1, -1, 0, -1),
            (0, -5, 0, 7), (1, 0, -1, 0), (-3, 0, 5, 0)]
    for v in [m for m in MUL if m not in ("dig", "gen") and not m.startswith("fix")] + ["fix_lwnaf", "fix_combs"]:
        fam = [(-1 - rng.below(3), 0, rng.below(25) - 12, rng.below(25) - 12) for _ in range(4)]
        todo = (pats + fam) if v in ("lwnaf", "mul", "lwreg") else [rng.choice(pats), rng.choice(pats + fam)]
        for cs in todo + [tuple(rng.choice([0, 0, 1, -1, rng.below(1 << 20), -rng.below(1 << 62)]) for _ in range(4))]:
            kk = sum(c * pow(L, i, cv.n) for i, c in enumerate(cs)) % cv.n
            out.append("e2m %s %d %s %s" % (v, rng.below(2), ptok(rng, cv, rng.choice(pool + [cv.g]), "" if v.startswith("fix") else "P"), hx(kk)))
    # long lists for ep2_mul_sim_lot (the bucket method widens its window at 32 and 64 points): compact form
    for n_ in ((11, 31, 32, 33) if count < 1000 else (11, 16, 31, 32, 33, 40, 64)):
        out.append("e2lc %d %s %x %x" % (n_, ptok(rng, cv, rng.choice(pool), ""), rng.bits(256) % cv.n, rng.bits(256) % cv.n))
    # two-point simultaneous multiplication with the result object being the first / second point operand, every variant
    for v in SIM:
        for al in (".p", ".q"):
            out.append("e2s %s%s %s %x %s %x" % (v, al, ptok(rng, cv, rng.choice(pool), "P"), 1 + rng.below(cv.n - 1),
                                                ptok(rng, cv, rng.choice(pool), "P"), 1 + rng.below(cv.n - 1)))
    # the Frobenius paths of the two-point and many-point routines: both scalars short combinations of powers of the eigenvalue (zero,
    # negative and mixed-sign sub-scalars in every position, for either operand)
    fro = lambda cs: sum(c * pow(L, i, cv.n) for i, c in enumerate(cs)) % cv.n
    for v in ("inter", "sim", "gen", "basic"):
        for _ in range(3):
            out.append("e2s %s %s %x %s %x" % (v, ptok(rng, cv, rng.choice(pool + [cv.g]), "P"), fro(rng.choice(pats)),
                                              ptok(rng, cv, rng.choice(pool), "P"), fro(rng.choice(pats))))
    # the decomposition itself (invisible in k*Q: any valid decomposition gives the same point): every scalar class, structured scalars
    for kc in range(c03.NCLASS):
        out.append("e2frb %s" % hx(c03.scalar(rng, cv.n, kc)))
    for cs in pats:
        out.append("e2frb %s" % hx(fro(cs)))
    for n_ in (1, 2, 4, 11, 13):      # above ten points: the bucket branch
        toks = []
        for _ in range(n_):
            toks += [ptok(rng, cv, rng.choice(pool + [cv.g])), hx(rng.choice([fro(rng.choice(pats)), -fro(rng.choice(pats)), c03.scalar(rng, cv.n)]))]
        out.append("e2l %d %s" % (n_, " ".join(toks)))
    # single-digit scalars: the longest digit first / last / in the middle, a zero digit, equal lengths
    for ds in ([(1 << 63) + 5, 3], [3, (1 << 63) + 5], [7, (1 << 40) + 1, 2], [0, 9], [(1 << 64) - 1, (1 << 64) - 1], [1]):
        toks = []
        for dg in ds:
            toks += [ptok(rng, cv, rng.choice(pool + [cv.g])), hx(dg)]
        out.append("e2d %d %s" % (len(ds), " ".join(toks)))
    # identity as fixed base for every table form; sliding window at the capacity of its buffer (RLC_FP_BITS + 1 windows), both signs
    for v in ("fix_basic", "fix_combs", "fix_combd", "fix_lwnaf", "fix_"):
        out.append("e2m %s %d inf %s" % (v, rng.below(2), hx(1 + rng.below(cv.n - 1))))
    for bl in (255, 256, 257, 258, 300):
        kk = (1 << (bl - 1)) | rng.bits(bl - 1) | 1
        out.append("e2m slide %d %s %s" % (rng.below(2), ptok(rng, cv, rng.choice(pool), "P"), hx(kk if rng.chance(1, 2) else -kk)))
    for _ in range(count):
        k = rng.below(100)
        if k < 22:
            o = rng.choice(ADD + ["cmp"])
            P, Q = point(rng, cv, pool), point(rng, cv, pool)
            j = rng.below(8)
            if j == 0: Q = P
            elif j == 1: Q = cv.neg(P)
            rep = "J" if o == "add_jacob" else ("" if o == "add_basic" else "P")
            out.append("e2b %s %d %s %s" % (o, rng.below(5) if o != "cmp" else 0, ptok(rng, cv, P, rep), ptok(rng, cv, Q, rep)))
        elif k < 38:
            o = rng.choice(DBL + ["neg", "norm", "on_curve", "blind"])
            P = point(rng, cv, pool)
            rep = "J" if o == "dbl_jacob" else ("" if o == "dbl_basic" else "P")
            out.append("e2u %s %d %s" % (o, rng.below(2), ptok(rng, cv, P, rep)))
        elif k < 50:
            P = point(rng, cv, pool + outside) if rng.chance(2, 3) else rng.choice(outside or pool)
            out.append("e2u frb %d %s %d" % (rng.below(2), ptok(rng, cv, P, "P"), rng.choice([0, 1, 1, 2, 3, 12])))
        elif k < 60:
            P = rng.choice(outside + pool + [None, cv.g]) if outside else point(rng, cv, pool)
            out.append("e2u mul_cof %d %s" % (rng.below(2), ptok(rng, cv, P, "P")))
        elif k < 64:
            x0, x1 = rng.choice([(rng.bits(256) % cv.p, rng.bits(256) % cv.p), (rng.below(50), 0), (0, rng.below(50)), (rng.below(50), rng.below(50))])
            out.append("e2pt %x %x" % (x0, x1))
        elif k < 80:
            v = rng.choice(MUL)
            P = point(rng, cv, pool)
            kk = c03.scalar(rng, cv.n)
            if v == "dig":
                kk = abs(kk) & ((1 << 64) - 1)
            out.append("e2m %s %d %s %s" % (v, rng.below(2), ptok(rng, cv, P, "" if v.startswith("fix") else "P"), hx(kk)))
        elif k < 93:
            v = rng.choice(SIM) + rng.choice(["", "", ".p", ".q"])      # result object = an operand
            out.append("e2s %s %s %s %s %s" % (v, ptok(rng, cv, point(rng, cv, pool)), hx(c03.scalar(rng, cv.n)),
                                               ptok(rng, cv, point(rng, cv, pool)), hx(c03.scalar(rng, cv.n))))
        else:
            n_ = rng.choice([0, 1, 2, 3, 5, 10, 11])
            toks = []
            for _ in range(n_):
                toks += [ptok(rng, cv, point(rng, cv, pool)), hx(c03.scalar(rng, cv.n))]
            o = rng.choice(["e2l", "e2l", "e2d"])
            if n_ > 0 and rng.chance(1, 2):
                out.append("%sa %d %d %s" % (o, rng.choice([0, n_ - 1, rng.below(n_)]), n_, " ".join(toks)))
            else:
                out.append("%s %d %s" % (o, n_, " ".join(toks)))
    return out


def _exe(ctx, cfg="base"):
    return ctx.oracle(cfg, defs=("ORACLE_FP", "ORACLE_EP", "ORACLE_EXTRA1=ops_ep2"),
                      sources=("oracle.c", "ops_bn.c", "ops_fp.c", "ops_ep.c", "ops_ep2.c"), tag="_ep2")


def info(exe, cid):
    out = subprocess.run([exe], input="ep2_param %d\n" % cid, stdout=subprocess.PIPE, stderr=subprocess.DEVNULL, text=True, timeout=60).stdout
    return dict(t.split("=", 1) for t in out.split()[1:] if "=" in t)


def outside_points(exe, cid, cv, rng, n):
    """twist points outside the order-r subgroup: x from the generator, y from the library's square root (the driver re-checks the equation)"""
    pts = []
    inp = ["ep2_param %d" % cid] + ["e2pt %x %x" % (rng.below(1 << 16), rng.below(1 << 16)) for _ in range(4 * n)]
    out = subprocess.run([exe], input="\n".join(inp) + "\n", stdout=subprocess.PIPE, stderr=subprocess.DEVNULL, text=True, timeout=120).stdout.split("\n")
    for o in out[1:]:
        t = o.split(",")
        if len(t) == 4:
            P = ((int(t[0], 16), int(t[1], 16)), (int(t[2], 16), int(t[3], 16)))
            pts.append(P)
        if len(pts) >= n:
            break
    return pts


def pairing_ids(exe):
    ids = []
    for cid in range(0, 70):
        kv = info(exe, cid)
        if "p" in kv:
            ids.append(cid)
    return ids


def streams(ctx, scale=1):
    per = (110 if ctx.tier == "quick" else 2000) * scale
    res = []
    cfgs = ["base"] + (["p381"] if ctx.tier == "thorough" else [])
    for cfg in cfgs:
        exe = _exe(ctx, cfg)
        ids = CURVES.get(cfg) or pairing_ids(exe)
        lines = ["cfg"]
        for cid in ids:
            kv = info(exe, cid)
            if "p" not in kv:
                continue
            cv = Cv2(kv)
            CVS[cid] = cv
            lines.append("ep2_param %d" % cid)
            lines += gen_lines(ctx.rng, cv, per, outside_points(exe, cid, cv, ctx.rng, 4))
        res.append({"name": "ep2-" + cfg, "cfg": cfg, "exe": exe, "lines": lines})
    return res


def search_streams(ctx, mfail):
    return streams(ctx, scale=3)


def replay_streams(ctx, rp):
    cfg = rp.get("config", "base")
    exe = _exe(ctx, cfg)
    for cl in rp.get("context_lines", []):
        kv = info(exe, int(cl.split()[1]))
        if "p" in kv:
            CVS[int(cl.split()[1])] = Cv2(kv)
    return [{"name": "replay", "cfg": cfg, "exe": exe, "lines": ["cfg"] + rp.get("context_lines", []) + rp.get("op_lines", [])}]


def nontrivial(r):
    return not r["got"].startswith("err") and r["got"] != "inf"


CVS = {}


def _pt(tok):
    if tok == "inf":
        return None
    f = [int(x, 16) for x in tok.split(",")[:4]]
    return ((f[0], f[1]), (f[2], f[3]))


def matches_finding(f, r):
    t = r["line"].split()
    if f.get("pred") == "fix_identity_base" and t[0] == "e2m" and t[1].startswith("fix") and t[3] == "inf" and r["got"] == "err":
        return True
    if f.get("pred") == "ep2_slide_long" and t[0] == "e2m" and t[1] == "slide" and r["got"] == "err":
        return int(t[4].lstrip("-"), 16).bit_length() > 257
    if f.get("pred") == "sim_table_identity" and t[0] == "e2s" and t[1].split(".")[0] in ("trick", "joint") and r["got"] == "err" and r.get("context"):
        cv = CVS.get(int(r["context"].split()[1]))
        if cv is None:
            return False
        P, Q = _pt(t[2]), _pt(t[4])
        rng_ = range(-3, 4) if t[1].split(".")[0] == "trick" else range(-1, 2)
        return any((i, j) != (0, 0) and cv.add(cv.mul(P, i), cv.mul(Q, j)) is None for i in rng_ for j in rng_)
    return False
