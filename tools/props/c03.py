"""C03 — prime-curve group law and every scalar multiplication equal [k]P."""
import subprocess
from props.bngen import hx

TRUSTED = [
    "specification: affine chord-and-tangent arithmetic of Spec/Curve.lean and double-and-add, executed by the compiled Lean driver; for the "
    "table lines (eptab) and the arbitrary-table lines (epfixt) the Jacobian evaluator of Spec/CurveFast.lean (proved to represent the affine law)",
    "class A (model mirrors the C function, theorem model = k*P resp. sum k_i*P_i for all integer scalars over an abstract commutative group, "
    "model executed on every line over Jacobian arithmetic with the recodings of Model/Rec.lean at the C buffer capacities): ep_mul_basic, dig, "
    "slide, monty, lwnaf (plain and GLV), lwreg (plain), gen, fix_basic, fix_lwnaf, fix_combs (plain and endomorphism), fix_combd, ep_mul_fix, "
    "ep_mul_sim_basic, trick, inter (plain and GLV), joint, gen, ep_mul_sim_lot (plain, GLV n <= 10, GLV buckets n > 10), ep_mul_sim_dig; the "
    "integer model of bn_rec_glv (k0 + k1*lambda = k mod n proved from the lattice rows; rows checked on G for every selected curve)",
    "executed by the driver but not proved: ep_mul_reg_glv (ep_mul_lwreg on endomorphism curves)",
    "class C: ep_mul_cof, ep_psi (defining equations only), ep_norm, ep_cmp, ep_on_curve, point encodings",
    "the add/dbl formulas are translated from the C text on every run (tie T) and proved equal to the group law; the multiplication models run "
    "over the group law, not over the translated formulas",
    "curve parameters (p, a, b, G, n, h), GLV data (beta, v1, v2), RLC_WIDTH, RLC_DEPTH, RLC_FP_BITS are read from the running library; generator on "
    "curve and n*G = O are evaluated by the driver, the source tables are checked in C18",
    "harness/ops_ep.c: eptab prints every entry of a precomputation table; epfixt runs ep_mul_fix_* on a caller-supplied table (one token, ';' separated)",
]
ASSUMPTIONS = ["points presented to the scalar multiplications lie in the prime-order group (cofactor 1 on every curve of the base configuration)",
               "ep_mul_combs_endom: no GLV sub-scalar of the selected curves exceeds l*d bits (the code drops the sign on that path; hypothesis hs0/hs1 of "
               "mul_fix_combs_endom_correct); the 2*RLC_FP_DIGS+1-digit two's-complement arithmetic of bn_rec_glv does not overflow (integer model)"]
RULE = ("points 0, G, -G, small multiples, random multiples, equal/opposite pairs, each presented affine / projective / Jacobian with random z; "
        "scalars 0, ±1, 2, n-1, n, n+1, multiples of n, negative, longer than n, sparse/dense/alternating, half-order boundary values; "
        "comb-structured scalars (single bits at row/column boundaries, full/empty columns and rows, empty top column, all ones), lambda-structured "
        "scalars a + b*lambda with zero/tiny/negative/half-length parts; every add/dbl/mul/mul_fix/mul_sim variant by name; every precomputation table; "
        "fixed-base loops on arbitrary tables; non-trivial = distinct line whose result is not the identity")

GENERATED = ["ep"]
EXTRA_THEOREM_MODULES = ["RelicVerif.Lemmas.EpFormulas", "RelicVerif.Lemmas.EpComb", "RelicVerif.Lemmas.EpSim"]

CURVES = {"base": [12, 13, 14, 15, 23, 24]}   # NIST_P256, BSI_P256, SECG_K256, SM2_P256, BN_P256, SM9_P256

ADD = ["add", "add_basic", "add_projc", "add_jacob", "sub"]
DBL = ["dbl", "dbl_basic", "dbl_projc", "dbl_jacob"]
MUL = ["mul", "basic", "slide", "monty", "lwnaf", "lwreg", "gen", "dig", "fix_basic", "fix_combs", "fix_combd", "fix_lwnaf", "fix_"]
SIM = ["sim", "basic", "trick", "inter", "joint", "gen"]
TABS = ["basic", "combs", "combd", "lwnaf"]


class Cv:
    def __init__(self, kv):
        self.p = int(kv["p"], 16); self.a = int(kv["a"], 16); self.b = int(kv["b"], 16)
        self.g = (int(kv["gx"], 16), int(kv["gy"], 16)); self.n = int(kv["n"], 16); self.h = int(kv["h"], 16)
        self.endom = kv.get("endom") == "1"
        self.beta = int(kv["beta"], 16) if "beta" in kv else None
        self.depth = int(kv.get("depth", "4")); self.width = int(kv.get("width", "4"))
        self._lam = None

    def lam(self):
        """eigenvalue of psi(x, y) = (beta x, y) on the order-n group: the root of x^2 + x + 1 mod n with lam*G = psi(G)"""
        if self._lam is None and self.endom and self.beta is not None:
            n = self.n
            r = _sqrt_mod((-3) % n, n)
            if r is not None:
                for cand in ((-1 + r) * pow(2, -1, n) % n, (-1 - r) * pow(2, -1, n) % n):
                    if self.mul(self.g, cand) == (self.beta * self.g[0] % self.p, self.g[1]):
                        self._lam = cand
        return self._lam

    def add(self, P, Q):
        p = self.p
        if P is None:
            return Q
        if Q is None:
            return P
        if P[0] == Q[0]:
            if (P[1] + Q[1]) % p == 0:
                return None
            l = (3 * P[0] * P[0] + self.a) * pow(2 * P[1], -1, p) % p
        else:
            l = (Q[1] - P[1]) * pow(Q[0] - P[0], -1, p) % p
        x = (l * l - P[0] - Q[0]) % p
        return (x, (l * (P[0] - x) - P[1]) % p)

    def mul(self, P, k):
        if k < 0:
            P = None if P is None else (P[0], (-P[1]) % self.p)
            k = -k
        R = None
        while k:
            if k & 1:
                R = self.add(R, P)
            P = self.add(P, P)
            k >>= 1
        return R


def _sqrt_mod(a, p):
    """Tonelli-Shanks"""
    if pow(a, (p - 1) // 2, p) != 1:
        return None
    q, s_ = p - 1, 0
    while q % 2 == 0:
        q //= 2; s_ += 1
    z = 2
    while pow(z, (p - 1) // 2, p) != p - 1:
        z += 1
    m, c, t, r = s_, pow(z, q, p), pow(a, q, p), pow(a, (q + 1) // 2, p)
    while t != 1:
        i, t2 = 0, t
        while t2 != 1:
            t2 = t2 * t2 % p; i += 1
        b = pow(c, 1 << (m - i - 1), p)
        m, c, t, r = i, b * b % p, t * b * b % p, r * b % p
    return r


def ptok(rng, cv, P, rep="P"):
    """rep: the coordinate system the operation works in ("P" homogeneous projective = the build's EP_ADD, "J" Jacobian, "" affine only);
    an operand is presented either normalised or in that system with a random z (mixed-coordinate operands)"""
    if P is None:
        return "inf"
    s = "%x,%x" % P
    if rep and rng.chance(1, 2):
        z = rng.choice([1, 2, cv.p - 1, rng.bits(256) % cv.p or 1])
        s += ",%x,%s" % (z, rep)
    return s


def rep_of(op):
    if op.endswith("_basic"):
        return ""
    if op.endswith("_jacob"):
        return "J"
    return "P"


def point(rng, cv, pool):
    k = rng.below(10)
    if k == 0:
        return None
    if k == 1:
        return cv.g
    if k == 2:
        return (cv.g[0], (-cv.g[1]) % cv.p)
    if k == 3:
        return cv.mul(cv.g, rng.choice([2, 3, 4, 5, cv.n - 1, cv.n - 2]))
    return rng.choice(pool)


NCLASS = 15


def comb_scalar(rng, cv):
    """scalars structured along the comb: l columns, depth rows (l = ceil(bits/depth), halved on endomorphism curves; the double
    comb splits the columns at e = ceil(l/2)): single bits at row boundaries, full / empty columns, empty top column, all ones"""
    bits = cv.n.bit_length()
    d = cv.depth
    l = -(-bits // d)
    e = -(-l // 2)
    j = rng.below(d)
    i = rng.choice([0, 1, e - 1, e, e + 1, l - 2, l - 1])
    fam = rng.below(8)
    if fam == 0:
        k = 1 << (j * l + i)                        # one bit: row j, column i
    elif fam == 1:
        k = sum(1 << (jj * l + i) for jj in range(d))    # a full column
    elif fam == 2:
        k = ((1 << l) - 1) << (j * l)                # a full row
    elif fam == 3:
        k = (1 << (l - 1)) - 1                       # rows above 0 empty, top column empty
    elif fam == 4:
        k = sum(((1 << (l - 1)) - 1) << (jj * l) for jj in range(d))   # top column empty in every row
    elif fam == 5:
        k = (1 << (j * l + i)) - 1
    elif fam == 6:
        k = sum(1 << (jj * l + ii) for jj in range(d) for ii in range(0, l, 2))   # alternating columns
    else:
        k = (1 << (d * l)) - 1                       # all ones over the whole comb (reduced modulo n by the routine)
    return k % cv.n if rng.chance(3, 4) else k


def glv_scalar(rng, cv):
    """k = a + b*lambda mod n with zero / tiny / negative / half-length sub-scalars in either position"""
    lam = cv.lam()
    if lam is None:
        return comb_scalar(rng, cv)
    half = cv.n.bit_length() // 2
    def part():
        return rng.choice([0, 1, -1, 2, -2, 3, (1 << (half - 1)) - 1, -(1 << (half - 1)), 1 << (half - 2), rng.bits(half - 1), -rng.bits(half - 1), rng.bits(64), rng.bits(8)])
    return (part() + part() * lam) % cv.n


def scalar(rng, n, k=None, cv=None):
    if k is None:
        k = rng.below(20)
    if k == 12 and cv is not None:
        return comb_scalar(rng, cv)
    if k == 13 and cv is not None:
        return glv_scalar(rng, cv)
    if k == 0:
        return 0
    if k == 1:
        return rng.choice([1, -1, 2, -2, 3])
    if k == 2:
        return n + rng.choice([-2, -1, 0, 1, 2])
    if k == 3:
        return rng.choice([2, 3, 7]) * n + rng.choice([-1, 0, 1])
    if k == 4:
        return -(rng.bits(256) % n)
    if k == 5:
        return rng.bits(rng.choice([257, 300, 384, 512]))     # longer than the group order
    if k == 6:
        return n // 2 + rng.choice([-1, 0, 1])
    if k == 7:
        return (1 << rng.below(256)) + rng.choice([-1, 0, 1])
    if k == 8:
        return int("01" * 128, 2) % n
    if k == 9:
        return rng.bits(rng.choice([8, 32, 64, 127, 128, 129]))
    if k == 14:   # a multiple of the order plus or minus a one-digit value, either sign (reduction first, sign fix-up after; short residues)
        m_ = rng.choice([1, 2, 3, 5])
        s_ = rng.choice([1, 3, rng.bits(63) | 1, (1 << 64) - 1])
        return rng.choice([1, -1]) * (m_ * n + rng.choice([1, -1]) * s_)
    if k == 10:   # GLV boundary: around sqrt(n)
        r = int(n ** 0.5)
        return r * rng.choice([1, 2, 3]) + rng.choice([-1, 0, 1])
    return rng.bits(256) % n


def gen_lines(rng, cv, count):
    pool = [cv.mul(cv.g, rng.bits(256) % cv.n) for _ in range(6)]
    out = []
    # systematic part: every multiplication variant meets every scalar class at least once per curve
    for v in MUL:
        for cls in range(NCLASS):
            kk = scalar(rng, cv.n, cls, cv)
            if v == "dig":
                kk = abs(kk) & ((1 << 64) - 1)
            P = rng.choice(pool + [cv.g])
            out.append("epm %s %d %s %s" % (v, rng.below(2), ptok(rng, cv, P, "" if v.startswith("fix") else "P"), hx(kk)))
        # short negative scalars (one digit: the single-digit fast paths and their sign fix-up), result separate from and over the operand
        if v != "dig":
            for kk in (-2, -(3 + rng.below(17)), -((1 << 63) + rng.below(1 << 20))):
                for al in (0, 1):
                    out.append("epm %s %d %s %s" % (v, al, ptok(rng, cv, rng.choice(pool + [cv.g]), "" if v.startswith("fix") else "P"), hx(kk)))
    # the precomputation tables themselves (every entry), and the fixed-base loops on caller-supplied tables of arbitrary points:
    # the column / digit extraction is tied to the model independently of what a precomputation would store
    small = [cv.mul(cv.g, j) for j in (2, 3, 5, cv.n - 1)]
    for v in TABS:
        for P in (cv.g, rng.choice(pool), None):
            out.append("eptab %s %s" % (v, ptok(rng, cv, P, "")))
    for v, tl in (("combs", 1 << cv.depth), ("combd", 2 << cv.depth), ("lwnaf", 1 << (cv.depth - 2))):
        for cls in ([0, 1, 2, 3, 4, 5, 8, 11, 12, 12, 12, 12, 13, 13] if v != "lwnaf" else [1, 2, 3, 5, 11, 13]):
            tab = [rng.choice(pool + small + [None, cv.g]) for _ in range(tl)]
            if rng.chance(1, 3):
                tab = tab[:rng.below(tl + 1)]            # missing entries are the identity
            out.append("epfixt %s %s %s" % (v, hx(scalar(rng, cv.n, cls, cv)), ";".join(ptok(rng, cv, T, "") for T in tab) or "inf"))
    # long lists for ep_mul_sim_lot in the compact form (the windows of the interleaved / bucket branches change with the number of points)
    for n_ in ((11, 31, 32, 33) if count < 1000 else (11, 16, 31, 32, 33, 40, 64)):
        out.append("eplc %d %s %x %x" % (n_, ptok(rng, cv, rng.choice(pool), ""), rng.bits(256) % cv.n, rng.bits(256) % cv.n))
    for v in SIM:
        for cls in range(NCLASS):
            out.append("eps %s %s %s %s %s" % (v, ptok(rng, cv, rng.choice(pool)), hx(scalar(rng, cv.n, cls, cv)),
                                              ptok(rng, cv, rng.choice(pool)), hx(scalar(rng, cv.n, (cls * 5 + 3) % NCLASS, cv))))
        # the result object is the first / second point operand (non-zero scalars of ordinary size)
        for al in (".p", ".q"):
            out.append("eps %s%s %s %x %s %x" % (v, al, ptok(rng, cv, rng.choice(pool)), 1 + rng.below(cv.n - 1),
                                                ptok(rng, cv, rng.choice(pool)), 1 + rng.below(cv.n - 1)))
    for _ in range(count):
        k = rng.below(100)
        if k < 22:
            P, Q = point(rng, cv, pool), point(rng, cv, pool)
            j = rng.below(6)
            if j == 0:
                Q = P
            elif j == 1 and P is not None:
                Q = (P[0], (-P[1]) % cv.p)
            op = rng.choice(ADD)
            out.append("ep2 %s %d %s %s" % (op, rng.below(5), ptok(rng, cv, P, rep_of(op)), ptok(rng, cv, Q, rep_of(op))))
        elif k < 34:
            op = rng.choice(DBL + ["neg", "norm", "on_curve"])
            out.append("ep1 %s %d %s" % (op, rng.below(2), ptok(rng, cv, point(rng, cv, pool), rep_of(op))))
        elif k < 38:
            P, Q = point(rng, cv, pool), point(rng, cv, pool)
            if rng.chance(1, 2):
                Q = P
            out.append("ep2 cmp 0 %s %s" % (ptok(rng, cv, P), ptok(rng, cv, Q)))
        elif k < 72:
            v = rng.choice(MUL)
            P = point(rng, cv, pool)
            kk = scalar(rng, cv.n, None, cv)
            if v == "dig":
                kk = abs(kk) & ((1 << 64) - 1)
            out.append("epm %s %d %s %s" % (v, rng.below(2), ptok(rng, cv, P, "" if v.startswith("fix") else "P"), hx(kk)))
        elif k < 92:
            v = rng.choice(SIM) + rng.choice(["", "", ".p", ".q"])      # result object = an operand
            out.append("eps %s %s %s %s %s" % (v, ptok(rng, cv, point(rng, cv, pool)), hx(scalar(rng, cv.n, None, cv)),
                                              ptok(rng, cv, point(rng, cv, pool)), hx(scalar(rng, cv.n, None, cv))))
        else:
            # 10/11 is the switch between the windowed and the bucket branch of ep_mul_sim_lot on endomorphism curves
            n_ = rng.choice([0, 1, 2, 3, 5, 10, 11, 12, 17])
            toks = []
            for _ in range(n_):
                toks += [ptok(rng, cv, point(rng, cv, pool)), hx(scalar(rng, cv.n, None, cv))]
            o = rng.choice(["epl", "epl", "epd"])
            if n_ > 0 and rng.chance(1, 2):      # result written over one of the inputs
                out.append("%sa %d %d %s" % (o, rng.choice([0, n_ - 1, rng.below(n_)]), n_, " ".join(toks)))
            else:
                out.append("%s %d %s" % (o, n_, " ".join(toks)))
    return out


CVS = {}


def _exe(ctx, cfg="base"):
    return ctx.oracle(cfg, defs=("ORACLE_FP", "ORACLE_EP"), sources=("oracle.c", "ops_bn.c", "ops_fp.c", "ops_ep.c"), tag="_ep")


def curve_info(exe, cid):
    out = subprocess.run([exe], input="ep_param %d\n" % cid, stdout=subprocess.PIPE, stderr=subprocess.DEVNULL, text=True, timeout=60).stdout
    return dict(t.split("=") for t in out.split()[1:] if "=" in t)


def streams(ctx, scale=1):
    per = (150 if ctx.tier == "quick" else 3000) * scale
    res = []
    for cfg, ids in CURVES.items():
        exe = _exe(ctx, cfg)
        lines = ["cfg"]
        for cid in ids:
            kv = curve_info(exe, cid)
            if "p" not in kv:
                continue
            lines.append("ep_param %d" % cid)
            CVS[cid] = Cv(kv)
            lines += gen_lines(ctx.rng, CVS[cid], per)
        res.append({"name": "ep-" + cfg, "cfg": cfg, "exe": exe, "lines": lines})
    return res


def search_streams(ctx, mfail):
    return streams(ctx, scale=3)


def replay_streams(ctx, rp):
    cfg = rp.get("config", "base")
    return [{"name": "replay", "cfg": cfg, "exe": _exe(ctx, cfg), "lines": ["cfg"] + rp.get("context_lines", []) + rp.get("op_lines", [])}]


def nontrivial(r):
    return not r["got"].startswith("err") and r["got"] != "inf"


def _pt(x):
    if x == "inf":
        return None
    f = x.split(",")
    return (int(f[0], 16), int(f[1], 16))


def matches_finding(f, r):
    t = r["line"].split()
    pred = f.get("pred")
    if r["got"] != "err":
        return False
    if pred == "fix_identity_base":
        return (t[0] == "epm" and t[1].startswith("fix") and t[3] == "inf") or (t[0] == "eptab" and t[2] == "inf")
    if pred == "sim_table_identity" and t[0] == "eps" and t[1].split(".")[0] in ("trick", "joint") and r.get("context"):
        cv = CVS.get(int(r["context"].split()[1]))
        if cv is None:
            return False
        P, Q = _pt(t[2]), _pt(t[4])
        rng_ = range(-3, 4) if t[1].split(".")[0] == "trick" else range(-1, 2)
        return any((i, j) != (0, 0) and cv.add(cv.mul(P, i), cv.mul(Q, j)) is None for i in rng_ for j in rng_)
    return False
