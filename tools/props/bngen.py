"""Structured operand generators for bignum operation lines (shared by C01, C07, C09, C08)."""


def hx(v):
    return ("-" if v < 0 else "") + "%x" % abs(v)


def digit_pattern(rng, w):
    B = 1 << w
    k = rng.below(10)
    if k == 0:
        return 0
    if k == 1:
        return 1
    if k == 2:
        return B - 1
    if k == 3:
        return B >> 1
    if k == 4:
        return (B >> 1) - 1
    if k == 5:
        return (B >> 1) + 1
    if k == 6:
        return B - 2
    if k == 7:
        return 1 << rng.below(w)
    return rng.bits(w)


def window_pair(rng, w):
    """two digits whose product sits next to a carry boundary of the double-width product (2^(2w-1): the doubled cross
    product of a squaring has high word 2^w - 1; 2^(2w): high word of the product at its maximum)"""
    x = rng.bits(w) | (1 << (w - 1))
    T = 1 << rng.choice([2 * w - 1, 2 * w - 1, 2 * w, 2 * w - 2])
    y = min((1 << w) - 1, max(1, (T - 1) // x + rng.choice([0, 0, 0, 1])))
    return (x, y) if rng.chance(1, 2) else (y, x)


def window_digits(rng, w, n):
    """n-digit value whose digits come from window pairs (every cross product a_i*a_j then includes boundary cases)"""
    x, y = window_pair(rng, w)
    v = 0
    for i in range(n):
        v |= rng.choice([x, y, x, y, (1 << w) - 1, rng.bits(w)]) << (i * w)
    return v


def magnitude(rng, w, maxdigits):
    """non-negative integer with a structured digit pattern and length 0..maxdigits digits"""
    k = rng.below(12)
    if k == 0:
        return 0
    if k == 1:
        return rng.choice([1, 2, 3, (1 << w) - 1, 1 << w, (1 << w) + 1])
    n = 1 + rng.below(maxdigits) if maxdigits > 0 else 0
    if k == 2:
        n = maxdigits
    style = rng.below(7)
    v = 0
    if style == 6:
        v = window_digits(rng, w, n)
    elif style == 0:        # uniform
        v = rng.bits(n * w)
    elif style == 1:      # all ones
        v = (1 << (n * w)) - 1
    elif style == 2:      # single bit
        v = 1 << rng.below(n * w)
    elif style == 3:      # power of two minus one / plus one
        v = (1 << rng.below(n * w)) + rng.choice([-1, 1])
    else:                 # digit patterns
        for i in range(n):
            v |= digit_pattern(rng, w) << (i * w)
    if v < 0:
        v = 0
    return v


def signed(rng, w, maxdigits):
    v = magnitude(rng, w, maxdigits)
    return -v if rng.chance(2, 5) else v


def ndigits(v, w):
    v = abs(v)
    return max(1, (v.bit_length() + w - 1) // w)


def div_pair(rng, w, maxdigits):
    """(a, b) families that drive Knuth D into its corner branches"""
    B = 1 << w
    k = rng.below(8)
    nb = 1 + rng.below(max(1, maxdigits // 2))
    if k == 0:   # add-back family: low digits of b all ones, a = m*b - delta
        nb = max(nb, 3)
        top = rng.bits(2 * w) | (1 << (2 * w - 1 - rng.below(w)))
        b = (top << ((nb - 2) * w)) | ((1 << ((nb - 2) * w)) - 1)
        m = 1 + rng.bits(w * (1 + rng.below(3)))
        a = m * b - 1 - rng.below(3)
    elif k == 1:  # qhat = B-1 branch: a just below b * B^k
        b = magnitude(rng, w, nb) | (1 << (nb * w - 1 - rng.below(w)))
        a = b * (B ** (1 + rng.below(3))) - 1 - rng.below(5)
    elif k == 2:  # built backwards from (q, b, r)
        b = magnitude(rng, w, nb) + 1
        q = magnitude(rng, w, max(1, maxdigits - nb))
        r = rng.choice([0, 1, b - 1, rng.below(b)])
        a = q * b + r
    elif k == 3:  # b with top digit all ones / 100..0 / 0111..1
        topd = rng.choice([B - 1, B >> 1, (B >> 1) - 1, 1, (B >> 1) + 1, B >> 2])
        b = (topd << ((nb - 1) * w)) | rng.bits((nb - 1) * w)
        a = magnitude(rng, w, maxdigits)
    elif k == 4:  # |a| < |b|
        b = magnitude(rng, w, nb) + 1
        a = rng.below(b)
    elif k == 5:  # equal lengths
        b = magnitude(rng, w, nb) + 1
        a = magnitude(rng, w, nb)
    else:
        b = magnitude(rng, w, nb)
        a = magnitude(rng, w, maxdigits)
    if a.bit_length() > maxdigits * w:
        a >>= (a.bit_length() - maxdigits * w)
    return abs(a), abs(b)
