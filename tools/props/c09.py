"""C09 — modular and number-theoretic integer functions and scalar recodings are correct."""
from props.bngen import hx, magnitude, signed
from props.c01 import _cfg
from props import c09_gcd, c09_mxp, c09_smb, c09_mod, c09_pol

FAMILIES = (c09_gcd, c09_mxp, c09_smb, c09_mod, c09_pol)
EXTRA_THEOREM_MODULES = ["RelicVerif.Props.C09Gcd", "RelicVerif.Props.C09Mxp", "RelicVerif.Props.C09Smb", "RelicVerif.Props.C09Mod", "RelicVerif.Props.C09Pol"]

TRUSTED = [
    "class A/B (modelled in Model/Rec.lean and proved): bn_rec_win/slw/naf/reg/jsf — value, digit set, length, sparsity",
    "class A since the extension of round 2 (value-level Lean models that mirror each C loop, proved equal to the mathematical definition for all inputs, and executed "
    "by the driver on every presented line with the model's prediction in the model column): see the per-family entries below (gcd / exponentiation / symbols and "
    "primality / reductions and square root / polynomials); 'partial' there means: the theorem holds whenever the model returns, and the model checks on every line "
    "what is not proved (termination / no overflow) instead of assuming it",
    "class C (compared with the mathematical definition evaluated in Lean, not modelled): bn_mod_basic / bn_mod with three arguments (= the division of C01), "
    "bn_is_prime_solov on composite inputs (random bases), prime generation "
    "(bn_gen_prime_*: length, oddness and primality of the output below 2^80), operands longer than RLC_BN_DIGS (may be refused), moduli <= 0 or = 1 of bn_evl / bn_lag, "
    "multi-digit moduli of bn_smb_jac (model executed and tied; theorem only for one-digit moduli and for the single-digit loop)",
    "primality ground truth: deterministic Miller-Rabin below 2^80 in the driver; above that only numbers with a supplied factor (composites) "
    "or parameter primes certified in C18 / well-known primes (Mersenne, Proth with recomputed witnesses) are presented",
    "known finding of this property (listed, not repaired; the check prints KNOWN-FINDING): C09-ext-mxp-1 (bn_mxp_sim ignores the sign of the exponents); the matcher "
    "compares the observed wrong value exactly. C09-ext-mod-1 (bn_mod_barrt / bn_mod_pmers non-canonical for negative operands) is repaired in /repo (060ee71): the models follow "
    "the repaired code, the theorems hold for every integer a, and the formerly failing classes are presented in every run",
]
ASSUMPTIONS = ["'rejects every composite presented' is decided on the presented corpus (Carmichael numbers, strong pseudoprimes, prime squares, "
               "products of close primes); it cannot be a theorem for a fixed-base test"]
RULE = ("operands incl. zero, one, negative, larger than the modulus, even/odd moduli, extreme digits, exponents 0/negative/longer than the "
        "modulus, Lehmer-fallback pairs, pseudoprime corpus, widths 2..8 and scalars with long runs; non-trivial = distinct line with a non-error result")

CARMICHAEL = [561, 1105, 1729, 2465, 2821, 6601, 8911, 10585, 15841, 29341, 41041, 46657, 52633, 62745, 63973, 75361, 101101, 115921,
              126217, 162401, 172081, 188461, 252601, 278545, 294409, 314821, 334153, 340561, 399001, 410041, 449065, 488881, 512461]
# strong pseudoprimes to several small bases (psi values and friends)
SPSP = [2047, 1373653, 25326001, 3215031751, 2152302898747, 3474749660383, 341550071728321, 3825123056546413051,
        318665857834031151167461, 3317044064679887385961981, 4759123141, 1122004669633, 21652684502221, 47636622961201]
PRIMES64 = [2, 3, 5, 7, 11, 13, 97, 251, 257, 65521, 65537, 4294967291, 4294967311, 18446744073709551557, 18446744073709551629,
            (1 << 61) - 1, (1 << 31) - 1, 1000000007, 999999999989]
PARAM_PRIMES = [
    0xffffffff00000001000000000000000000000000ffffffffffffffffffffffff,   # NIST P-256 p
    0xffffffff00000000ffffffffffffffffbce6faada7179e84f3b9cac2fc632551,   # NIST P-256 n
    0xfffffffffffffffffffffffffffffffffffffffffffffffffffffffefffffc2f,   # secp256k1 p
    0xfffffffffffffffffffffffffffffffebaaedce6af48a03bbfd25e8cd0364141,   # secp256k1 n
]


def odd_modulus(rng, w, md):
    m = magnitude(rng, w, md) | 1
    return m if m > 1 else 3


def scalar(rng, bits):
    k = rng.below(8)
    if k == 0:
        return (1 << bits) - 1
    if k == 1:
        return 1 << (bits - 1)
    if k == 2:      # alternating
        return int("01" * (bits // 2 + 1), 2) & ((1 << bits) - 1)
    if k == 3:      # long runs
        v, pos = 0, 0
        while pos < bits:
            run = 1 + rng.below(40)
            if rng.chance(1, 2):
                v |= ((1 << run) - 1) << pos
            pos += run
        return v & ((1 << bits) - 1)
    if k == 4:
        return rng.below(1 << min(bits, 12))
    return rng.bits(bits)


def gen_lines(rng, w, cap, digs, n):
    out = []
    small = w == 8
    for _ in range(n):
        k = rng.below(100)
        md = max(1, digs if rng.chance(4, 5) else cap // 2 - 1)
        if k < 14:
            v = rng.choice(["basic", "mod", "barrt", "monty", "monty_basic", "monty_comba", "monty_conv", "monty_back", "pre_monty"])
            m = odd_modulus(rng, w, md) if v.startswith("monty") or v == "pre_monty" else magnitude(rng, w, md) + rng.below(2)
            if v in ("basic", "mod") and rng.chance(1, 3):
                m = -m
            mu = (abs(m).bit_length() + w - 1) // w
            a = rng.choice([0, 1, abs(m) - 1, abs(m), abs(m) + 1, magnitude(rng, w, min(cap // 2 - 1, 2 * mu)), rng.bits(2 * mu * w)])
            if v == "barrt" and rng.chance(1, 2) and mu >= 2:
                # low mu+1 digits (almost) zero: the truncated difference of Barrett's final step wraps below zero
                hi = rng.choice([1, rng.bits(w * (mu - 1)) + 1, (1 << (w * (mu - 1))) - 1, magnitude(rng, w, mu - 1) + 1])
                a = (hi << (w * (mu + 1))) + rng.choice([0, 0, 1, 7, rng.bits(w)])
            if v in ("basic", "mod") and rng.chance(1, 3):
                a = -a
            if v.startswith("monty") and v not in ("monty_conv",):
                a = a % (abs(m) << (mu * w)) if m else a
            if v == "monty_back":
                a = a % abs(m)
            out.append("nt_mod %s %s %s" % (v, hx(a), hx(m)))
        elif k < 26:
            v = rng.choice(["basic", "slide", "monty", "mxp", "dig"])
            md2 = max(1, min(md, 4 if not small else 8))
            m = odd_modulus(rng, w, md2) if (v in ("monty", "mxp") or rng.chance(1, 2)) else magnitude(rng, w, md2) + 2
            a = rng.choice([0, 1, m - 1, m, m + 1, rng.bits(m.bit_length() + 5), rng.bits(8)])
            e = rng.choice([0, 1, 2, -1, m - 1, m, rng.bits(m.bit_length()), rng.bits(m.bit_length() + 70), -rng.bits(m.bit_length()),
                            scalar(rng, m.bit_length())])
            if v == "dig":
                e = abs(e) & ((1 << w) - 1)
            out.append("nt_mxp %s %s %s %s" % (v, hx(a), hx(e), hx(m)))
        elif k < 29:
            m = odd_modulus(rng, w, max(1, min(md, 4)))
            out.append("nt_mxp_sim %x %x %x %x %x" % (rng.bits(m.bit_length()), rng.bits(m.bit_length()), rng.bits(m.bit_length()),
                                                     rng.bits(m.bit_length()), m))
        elif k < 35:
            m = magnitude(rng, w, md) + 2
            a = rng.choice([1, m - 1, rng.below(m), rng.bits(m.bit_length() + 10), -rng.below(m) - 1, 0])
            out.append("nt_inv %s %x" % (hx(a), m))
        elif k < 50:
            v = rng.choice(["basic", "binar", "lehme", "gcd", "dig", "lcm"])
            a, b = signed(rng, w, md), signed(rng, w, md)
            j = rng.below(6)
            if j == 0:      # common factor
                g = magnitude(rng, w, max(1, md // 2)) + 1
                a, b = g * signed(rng, w, max(1, md // 2)), g * signed(rng, w, max(1, md // 2))
            elif j == 1:    # consecutive Fibonacci-like (worst case for Euclid, quotients all 1)
                x, y = 1, 1
                for _ in range(rng.below(md * w)):
                    x, y = y, x + y
                a, b = y, x
            elif j == 2:    # equal top digits (Lehmer's single-digit approximation degenerates)
                top = rng.bits(w) | (1 << (w - 1))
                ln = max(2, rng.below(md) + 1)
                a = (top << ((ln - 1) * w)) | rng.bits((ln - 1) * w)
                b = (top << ((ln - 1) * w)) | rng.bits((ln - 1) * w)
            elif j == 3:
                b = 0 if rng.chance(1, 2) else a
            if v == "lcm":
                a, b = a % (1 << (w * (cap // 2 - 1))), b % (1 << (w * (cap // 2 - 1)))
            out.append("nt_gcd %s %s %s" % (v, hx(a), hx(b)))
            v2 = rng.choice(["basic", "binar", "lehme", "ext", "dig"])
            out.append("nt_gcd_ext %s %s %s" % (v2, hx(a), hx(b)))
        elif k < 58:
            v = rng.choice(["leg", "jac"])
            if v == "leg":
                b = rng.choice(PRIMES64[1:] + (PARAM_PRIMES if not small else []))
            else:
                b = odd_modulus(rng, w, md)
            a = rng.choice([0, 1, 2, 4, b - 1, b + 1, rng.below(b), rng.bits(b.bit_length() + 8), -rng.below(b) - 1, 3 * b])
            out.append("nt_smb %s %s %x" % (v, hx(a), b))
        elif k < 62:
            a = magnitude(rng, w, md)
            if rng.chance(1, 2):
                r = magnitude(rng, w, max(1, md // 2))
                a = r * r + rng.choice([-1, 0, 1, 2 * r])
            out.append("nt_srt %x" % max(a, 0))
        elif k < 74:
            v = rng.choice(["basic", "rabin", "solov", "prime"])
            j = rng.below(8)
            if j == 0:
                out.append("nt_prime %s %x" % (v, rng.choice(CARMICHAEL)))
            elif j == 1:
                n_ = rng.choice(SPSP)
                fac = {3317044064679887385961981: 1287836182261, 318665857834031151167461: 399165290221}.get(n_)
                out.append("nt_prime %s %x%s" % (v, n_, " C %x" % fac if fac else ""))
            elif j == 2:
                out.append("nt_prime %s %x" % (v, rng.choice(PRIMES64[1:] if v == "solov" else PRIMES64)))
            elif j == 3 and not small:
                out.append("nt_prime %s %x P" % (v, rng.choice(PARAM_PRIMES)))
            elif j == 4:    # prime squares, products of two close primes
                p = rng.choice(PRIMES64[5:] + PARAM_PRIMES)
                q = rng.choice([p, rng.choice(PRIMES64[5:])])
                if (p * q).bit_length() < cap * w // 2:
                    out.append("nt_prime %s %x C %x" % (v, p * q, p))
            elif j == 5:
                small_vals = [3, 4, 9, 15, 25, 49, 1 << 16, (1 << 16) + 1, rng.bits(40) | 1]
                if v != "solov":        # bn_is_prime_solov is documented for a > 2 (it loops forever on 1 and 2)
                    small_vals += [0, 1, 2]
                out.append("nt_prime %s %x" % (v, rng.choice(small_vals)))
            else:
                out.append("nt_prime %s %x" % (v, rng.bits(rng.choice([20, 48, 64, 79])) | 1))
        elif k < 76:
            bits = rng.choice([16, 24, 32, 48, 64])
            out.append("nt_gen_prime %s %s %d" % (rng.choice(["basic", "basic", "safep"] if bits <= 32 else ["basic"]), rng.bytes(6).hex(), bits))
        elif k < 96:
            kind = rng.choice(["win", "slw", "naf", "naf", "reg", "jsf"])
            bits = rng.choice([1, 2, 7, 8, 9, 63, 64, 65, 160, 255, 256, 257]) if not small else rng.choice([1, 2, 7, 8, 9, 15, 16, 17, 60, 100])
            kk = scalar(rng, bits)
            wd = 2 + rng.below(7)
            if kind in ("win", "slw"):
                wd = 1 + rng.below(8)
            if kind == "reg":
                kk |= 1
                nb = rng.choice([bits, bits + 1, kk.bit_length(), kk.bit_length() + 3])
                nb = max(nb, kk.bit_length())
                out.append("nt_rec reg %d %x %x" % (wd, kk, nb))
            elif kind == "jsf":
                ll = scalar(rng, rng.choice([bits, max(1, bits - 3), bits]))
                ll &= (1 << kk.bit_length()) - 1 if kk else 0    # contract of the length check: l no longer than k
                out.append("nt_rec jsf 0 %x %x" % (kk, ll))
            else:
                if kind == "win" and kk == 0:
                    kk = 1
                out.append("nt_rec %s %d %x" % (kind, wd, kk))
        elif k < 98:
            b = rng.choice(PRIMES64[4:])
            out.append("nt_evl %x %x %s" % (rng.below(b), b, " ".join("%x" % rng.below(b) for _ in range(rng.below(7)))))
        else:
            b = rng.choice(PRIMES64[6:])
            pts = sorted(set(rng.below(b) for _ in range(rng.below(6))))
            out.append("nt_lag %x %s" % (b, " ".join("%x" % p for p in pts)))
    return out


# lines of the known finding C09-ext-mxp-1 (negative exponents of bn_mxp_sim) and the replay lines of the repaired C09-ext-mod-1 (060ee71:
# negative operands of every reduction — |a| < m, negative multiples of m — must give the residue in [0, m))
FINDING_LINES = ["nt_mxp_sim 2 -3 5 2 7", "nt_mxp_sim 2 3 5 -2 7", "nt_mxp_sim 3 -1 3 -1 7"]
NEG_REDUCTION_LINES = ["nt_mod %s %s %s" % (v, a, m) for v in ("barrt", "pmers", "basic", "mod")
                       for a, m in (("-5", "5"), ("-a", "5"), ("-3", "5"), ("-7", "7"), ("-e", "7"), ("-1", "7"), ("-1", "ffffffffffffffffff"),
                                    ("-ffffffffffffffffff", "ffffffffffffffffff"), ("-1fffffffffffffffffe", "ffffffffffffffffff"), ("-100", "100"), ("-ff", "100"))]

# every strong pseudoprime of the table and a Carmichael sample, to every primality test that decides by itself (a test that shortens its base
# list for small candidates accepts the psi values of the dropped bases: seeded change C09-rabin-nine-bases-64bit)
_SPSP_FAC = {3317044064679887385961981: 1287836182261, 318665857834031151167461: 399165290221}
PSEUDOPRIME_LINES = ["nt_prime %s %x%s" % (v, n_, (" C %x" % _SPSP_FAC[n_]) if n_ in _SPSP_FAC else "")
                     for v in ("rabin", "prime", "solov") for n_ in SPSP + CARMICHAEL[:12]]

CORPUS = FINDING_LINES + NEG_REDUCTION_LINES + PSEUDOPRIME_LINES + ["nt_rec win 4 1", "nt_rec win 2 0", "nt_inv -1 5", "nt_smb jac 4 5", "nt_smb jac 2 f", "nt_gcd_ext basic -c 12", "nt_gcd_ext lehme -c 12", "nt_gcd_ext binar c -12", "nt_gcd basic 0 0",
          "nt_gcd_ext basic 0 5", "nt_inv 3 7", "nt_mxp basic 2 -1 7", "nt_mxp slide 0 0 7", "nt_rec naf 2 0", "nt_rec win 4 1", "nt_srt 0"]


# one oracle for every user of the nt_* ops (C08 links the same one for its sanitizer streams and boundary sweeps)
ORACLE_DEFS = ("ORACLE_NT", "ORACLE_EXTRA2=ops_nt_mxp")
ORACLE_SOURCES = ("oracle.c", "ops_bn.c", "ops_nt.c", "ops_nt_mxp.c")


def _exe(ctx, cfg):
    return ctx.oracle(cfg, defs=ORACLE_DEFS, sources=ORACLE_SOURCES, tag="_nt")


def streams(ctx, scale=1):
    n = (2500 if ctx.tier == "quick" else 60000) * scale
    res = []
    for cfg in ("base", "w8"):
        exe = _exe(ctx, cfg)
        hdr, kv = _cfg(exe)
        lines = ["cfg"] + CORPUS + gen_lines(ctx.rng, kv["w"], kv["size"], kv["digs"], n)
        for fam in FAMILIES:
            lines += list(fam.CORPUS) + fam.gen(ctx.rng, kv["w"], kv["size"], kv["digs"], (300 if ctx.tier == "quick" else 8000) * scale)
        res.append({"name": "nt-" + cfg, "cfg": cfg, "exe": exe, "lines": lines})
    return res


def search_streams(ctx, mfail):
    return streams(ctx, scale=4)


def replay_streams(ctx, rp):
    cfg = rp.get("config", "base")
    return [{"name": "replay", "cfg": cfg, "exe": _exe(ctx, cfg), "lines": ["cfg"] + rp.get("op_lines", [])}]


for _fam in FAMILIES:
    TRUSTED = TRUSTED + list(_fam.TRUSTED)


def nontrivial(r):
    return not r["got"].startswith("err")


def _int(t):
    return -int(t[1:], 16) if t.startswith("-") else int(t, 16)


def _nf(v, w):
    n = max(1, (abs(v).bit_length() + w - 1) // w)
    return ("-" if v < 0 else "") + "%x:u%d" % (abs(v), n)


def matches_finding(f, r):
    """a finding is one specific wrong value: the line is matched only if the library returned exactly that value"""
    t = r["line"].split()
    w = 8 if "w8" in r.get("cfg", "") else 64
    got = r.get("got", "")
    try:
        if f.get("pred") == "mxp_sim_neg_exponent_sign_ignored" and t[0] == "nt_mxp_sim":
            a, b, d, e, m = (_int(x) for x in t[1:6])
            if not (m > 1 and m % 2 == 1 and (b < 0 or e < 0)):
                return False
            return got == _nf(pow(a, abs(b), m) * pow(d, abs(e), m) % m, w)
    except (ValueError, IndexError):
        return False
    return False
