"""C10 — extension-field towers compute in the quotient rings they denote."""
import os, re, subprocess
from props.bngen import hx

TRUSTED = [
    "class A (formula in Model/Fpx.lean proved equal to the product / square / inverse of the quotient ring over an abstract commutative "
    "ring, Lemmas/Fpx.lean): fp2 mul/sqr (basic and integ shapes, the qnr loops), fp2_inv, fp2_mul_art, fp2_mul_nor (every branch of the "
    "switch), fp3 mul/sqr/inv/mul_art, the quadratic levels fp4/fp8/fp12/fp16/fp18/fp48 (Karatsuba mul, complex sqr, inv, mul_art), the cubic "
    "levels fp6/fp9/fp24/fp54 (Karatsuba mul, Chung-Hasan sqr, inv, mul_art), fp6/fp9_mul_dxs, fp12_mul_dxs (both twist types), fp12_sqr_cyc "
    "(Granger-Scott), fp12_sqr_pck (Karabina), fp12_back_cyc (regular branch, exceptional branch g2 = 0 and the identity: total on the "
    "cyclotomic subgroup), fpN_inv_cyc, fp8/fp16_sqr_cyc, the square-and-multiply loop of fpN_exp, the signed-digit loop of fpN_exp_cyc, "
    "Montgomery's simultaneous inversion; the fp12 model as stacked by the driver evaluates to ring operations (end-to-end theorem)",
    "tools/translate_fpx.py regenerates 45 straight-line functions of src/fpx (mul_basic / sqr_basic / inv / mul_art of every level above "
    "fp3, fp6/fp9_mul_dxs, fp8/fp16_sqr_cyc, fp12_sqr_cyc_basic, fp12_sqr_pck_basic, fp12_back_cyc) into Lean on every run; "
    "Lemmas/FpxGen.lean proves each generated definition equal to the model definition the theorems are about (rfl). The accepted C "
    "fragment is listed in the translator; anything else is a translation failure and breaks the build of the proofs; a value-preserving "
    "rewrite that changes the data flow of a translated function breaks its rfl tie and is reported as a broken obligation. Hand-transcribed "
    "(tied by the correspondence run, column M, only): the fp2 and fp3 functions (low-level calls and loops over qnr / cnr), "
    "fp12_mul_dxs_basic (preprocessor and twist-type branches), fp2_mul_nor, and the loops",
    "the lazy-reduction / unreduced / integrated variants (*_lazyr, *_unr, *_integ, fpN_*_low on double-precision accumulators) are modelled by "
    "the same value-level formula as the basic variant; their carry handling (fp_addc_low/fp_subc_low corrections, fp_hlvd_low, the "
    "operand ranges of fp2_norh_low) is compared with the specification on the presented lines only (the repaired defect C10-F7 lived there)",
    "class C (compared with the generic quotient-ring specification on the presented lines only, not modelled): fpN_frb (the precomputed "
    "constant tables; the specification is the p-power map), the table construction / recoding glue and the compressed-squaring, sparse, GLS "
    "and simultaneous paths of fpN_exp_cyc*, fpN_exp_dig, fpN_conv_cyc, fpN_test_cyc, fpN_srt / fpN_is_sqr (judged by r*r = a and Euler's "
    "criterion), fp12_pck/upk/pck_max/upk_max, fp2_pck/upk, fp2_mul_frb, fp8_mul_dxs, read_bin/write_bin/size_bin, *_dig helpers, the "
    "cyclotomic / compressed forms of fp18/fp24/fp48/fp54 (thorough tier, specification only)",
    "not exercised (listed, not silently dropped): fp3/fp4/fp8_mul_frb (internal helpers, covered through fpN_frb), the sparse multiplications "
    "and exp_cyc_sim / exp_cyc_sps / exp_cyc_gls / pck / upk / back_cyc_sim above degree 12 (line-function shapes and subgroup orders of other "
    "curve families), packed write_bin / read_bin beyond the pck/upk functions, fp2_pck/upk for qnr != -1 (the library restricts "
    "compression to p = 3 mod 4), *_rand, *_print, *_copy, *_zero",
    "tower constants (p, qnr, cnr, fp2_field_get_qnr, xi = fp2_mul_nor(1), xi3 = fp3_mul_nor(1), twist type, group order) are read from the "
    "running library in the fpx_param line; the driver checks their defining properties (qnr / cnr non-residues, xi consistent with the modelled "
    "switch, each level a field where inversion / Frobenius / square roots are exercised)",
    "the specification evaluates the p-power map through X^p of each level's generator (computed from the definition by repeated multiplication) "
    "and the ring-homomorphism property (theorem spec_frobenius_expand); it is cross-checked against a^p computed directly on a sample of the "
    "lines; membership in the cyclotomic subgroup is decided through that map and cross-checked against the algebraic relations IsCyc12 of "
    "the theorems on every cyclotomic fp12 line (tag rel-ok)",
    "operands of the cyclotomic subgroup, of order r, and with g2 = 0 are constructed by the generator (tools/props/c10.py: tower arithmetic, "
    "root finding over fp2) and re-checked by the driver in the specification before any precondition is assumed",
]
ASSUMPTIONS = [
    "ALLOC = AUTO: fpN_t are contiguous fp_t vectors (the harness passes flat buffers)",
    "FP_RDC = MONTY, WSIZE = 64, EP_ADD = PROJC (the sparse shapes of fp12_mul_dxs are those of projective line functions)",
]
RULE = ("per selectable prime / curve and tower level: zero, one, elements with zero coefficients in every position, base-field and subfield "
        "elements, coefficients p-1 / (p±1)/2 / Montgomery-structured, dense uniform elements, elements of the cyclotomic subgroup and of order r; "
        "every public function variant by name; all alias patterns; Frobenius powers 0..degree; exponents 0, ±1, small, sparse, full-size, "
        "negative, multiples of the group order; non-trivial = distinct line with a non-error result whose precondition holds")
GENERATED = ["fpx"]
EXTRA_THEOREM_MODULES = ["RelicVerif.Lemmas.FpxGen"]   # generated formula = model definition, one `rfl` per C function

HERE = os.path.dirname(os.path.abspath(__file__))
VERIF = os.path.dirname(os.path.dirname(HERE))

# (kind, id, twist): pairing curves BN_P256 (23), SM9_P256 (24) with both twist settings; plain 256-bit primes by fp id
CONTEXTS = {
    "base": [("e", 23, 1), ("e", 24, 2), ("e", 23, 2), ("e", 24, 1), ("f", 14, 0), ("f", 15, 0), ("f", 16, 0), ("f", 17, 0)],
    "p381": [("e", None, 1), ("e", None, 2)],   # id resolved at run time (B12_P381)
    # the other pairing field sizes: the curve of embedding degree 16 / 18 / 24 / 48 / 54 and the tower chain it uses
    "p330": [("e", None, 0)], "p354": [("e", None, 0)], "p315": [("e", None, 0)], "p575": [("e", None, 0)], "p569": [("e", None, 0)],
}
HIGH_LEVELS = {"p330": [2, 4, 8, 16], "p354": [2, 3, 9, 18], "p315": [2, 4, 8, 24], "p575": [2, 4, 8, 24, 48], "p569": [2, 3, 9, 18, 54]}
LEVELS = [2, 3, 4, 6, 8, 9, 12, 16, 18, 24, 48, 54]
CYC_LEVELS = {2: 1, 8: 4, 16: 8, 12: 2, 18: 3, 24: 4, 48: 8, 54: 9}


# ------------------------------------------------------------------------------------------------
# tower arithmetic for input generation (the driver re-derives every property it relies on)
class Tower:
    """levels top first: (degree, non-residue as flat element of the level below)"""

    def __init__(self, p, levels):
        self.p, self.levels = p, levels
        self.below = Tower(p, levels[1:]) if levels else None
        self.dim = 1 if not levels else levels[0][0] * self.below.dim
        self._frob = None

    def zero(self):
        return [0] * self.dim

    def one(self):
        return [1] + [0] * (self.dim - 1)

    def of_int(self, v):
        return [v % self.p] + [0] * (self.dim - 1)

    def add(self, a, b):
        p = self.p
        return [(x + y) % p for x, y in zip(a, b)]

    def sub(self, a, b):
        p = self.p
        return [(x - y) % p for x, y in zip(a, b)]

    def neg(self, a):
        return [(-x) % self.p for x in a]

    def mul(self, a, b):
        if not self.levels:
            return [a[0] * b[0] % self.p]
        k, c = self.levels[0]
        B = self.below
        d = B.dim
        ac = [a[i * d:(i + 1) * d] for i in range(k)]
        bc = [b[i * d:(i + 1) * d] for i in range(k)]
        prod = [B.zero() for _ in range(2 * k - 1)]
        for i in range(k):
            if not any(ac[i]):
                continue
            for j in range(k):
                if any(bc[j]):
                    prod[i + j] = B.add(prod[i + j], B.mul(ac[i], bc[j]))
        for t in range(2 * k - 2, k - 1, -1):
            if any(prod[t]):
                prod[t - k] = B.add(prod[t - k], B.mul(c, prod[t]))
        return [x for ch in prod[:k] for x in ch]

    def sqr(self, a):
        return self.mul(a, a)

    def pow(self, a, e):
        if e < 0:
            return self.pow(self.inv(a), -e)
        r = self.one()
        for bit in bin(e)[2:]:
            r = self.mul(r, r)
            if bit == "1":
                r = self.mul(r, a)
        return r

    def gen(self):
        g = self.zero()
        g[self.below.dim] = 1
        return g

    def conj(self, a):
        d = self.below.dim
        return a[:d] + self.below.neg(a[d:])

    def inv(self, a):
        """Gauss-Jordan on the multiplication matrix; None if not invertible"""
        n, p = self.dim, self.p
        cols = []
        for i in range(n):
            e = self.zero()
            e[i] = 1
            cols.append(self.mul(a, e))
        m = [[cols[c][r] for c in range(n)] + [1 if r == 0 else 0] for r in range(n)]
        for col in range(n):
            pr = next((r for r in range(col, n) if m[r][col] % p), None)
            if pr is None:
                return None
            m[col], m[pr] = m[pr], m[col]
            iv = pow(m[col][col], -1, p)
            m[col] = [x * iv % p for x in m[col]]
            for r in range(n):
                if r != col and m[r][col]:
                    f = m[r][col]
                    m[r] = [(x - f * y) % p for x, y in zip(m[r], m[col])]
        return [m[r][n] for r in range(n)]

    def frob_gen(self):
        if self._frob is None:
            self._frob = self.pow(self.gen(), self.p)
        return self._frob

    def frob(self, a, i=1):
        for _ in range(i):
            a = self._frob1(a)
        return a

    def _frob1(self, a):
        if not self.levels:
            return list(a)
        k = self.levels[0][0]
        B = self.below
        d = B.dim
        gp = self.frob_gen()
        acc = self.zero()
        for j in range(k - 1, -1, -1):
            cj = B._frob1(a[j * d:(j + 1) * d])
            acc = self.add(self.mul(acc, gp), cj + [0] * (self.dim - d))
        return acc

    def is_field(self):
        if not self.levels:
            return True
        if not self.below.is_field():
            return False
        k, c = self.levels[0]
        q = self.p ** self.below.dim
        if (q - 1) % k or not any(c):
            return False
        return self.below.pow(c, (q - 1) // k) != self.below.one()



# ------------------------------------------------------------------------------------------------
# cyclotomic elements of fp12 whose coefficient g2 = a[1][0] vanishes (the exceptional branch of the decompression):
# with g2 = 0 the Granger-Scott relations reduce to  g3 = (3 g4^2 + xi g5^2)/2,  g1 = 2 g4 g5/g3,
# g0 = (g4^2 + xi g5^2)/g3 - 1  and one equation  xi (3 g4^2 + xi g5^2)^3 = 8 g4 (g4^2 + 3 xi g5^2);  fix g5, find a root
# g4 in fp2 (Cantor-Zassenhaus), and CHECK membership with the p-power map (the driver re-checks in the specification).
class _PolyFp2:
    def __init__(self, T2, rng):
        self.T, self.rng = T2, rng
        self.Z, self.ONE = [0, 0], [1, 0]

    def trim(self, a):
        while a and a[-1] == self.Z:
            a = a[:-1]
        return a

    def sub(self, a, b):
        n = max(len(a), len(b))
        return self.trim([self.T.sub(a[i] if i < len(a) else self.Z, b[i] if i < len(b) else self.Z) for i in range(n)])

    def mul(self, a, b):
        if not a or not b:
            return []
        r = [self.Z] * (len(a) + len(b) - 1)
        for i, x in enumerate(a):
            if x == self.Z:
                continue
            for j, y in enumerate(b):
                r[i + j] = self.T.add(r[i + j], self.T.mul(x, y))
        return self.trim(r)

    def divmod(self, a, m):
        a = self.trim(list(a))
        q = [self.Z] * max(0, len(a) - len(m) + 1)
        inv = self.T.inv(m[-1])
        while len(a) >= len(m):
            c = self.T.mul(a[-1], inv)
            s = len(a) - len(m)
            q[s] = c
            for i, y in enumerate(m):
                a[s + i] = self.T.sub(a[s + i], self.T.mul(c, y))
            a = self.trim(a)
        return self.trim(q), a

    def gcd(self, a, b):
        a, b = self.trim(list(a)), self.trim(list(b))
        while b:
            a, b = b, self.divmod(a, b)[1]
        if a:
            inv = self.T.inv(a[-1])
            a = [self.T.mul(x, inv) for x in a]
        return a

    def powmod(self, a, e, m):
        r = [self.ONE]
        for bit in bin(e)[2:]:
            r = self.divmod(self.mul(r, r), m)[1]
            if bit == "1":
                r = self.divmod(self.mul(r, a), m)[1]
        return r

    def roots(self, P):
        q = self.T.p ** 2
        X = [self.Z, self.ONE]
        g = self.gcd(self.sub(self.powmod(X, q, P), X), P)
        out, todo = [], [g]
        while todo:
            g = todo.pop()
            if len(g) <= 1:
                continue
            if len(g) == 2:
                out.append(self.T.neg(self.T.mul(g[0], self.T.inv(g[1]))))
                continue
            for _ in range(64):
                r = [[self.rng.below(self.T.p), self.rng.below(self.T.p)], self.ONE]
                d = self.gcd(self.sub(self.powmod(r, (q - 1) // 2, g), [self.ONE]), g)
                if 1 < len(d) < len(g):
                    todo += [d, self.divmod(g, d)[0]]
                    break
        return out


def g2zero_elements(T, xi, rng, want=2):
    T2, T12 = T[2], T[12]
    p = T2.p
    P2 = _PolyFp2(T2, rng)
    c = lambda v: [v % p, 0]
    found = []
    for _ in range(12):
        if len(found) >= want:
            break
        g5 = [rng.below(p), rng.below(p)]
        k = T2.mul(xi, T2.mul(g5, g5))
        A = [k, [0, 0], c(3)]
        lhs = [T2.mul(xi, z) for z in P2.mul(A, P2.mul(A, A))]
        rhs = P2.mul([[0, 0], c(8)], [T2.mul(c(3), k), [0, 0], [1, 0]])
        for g4 in P2.roots(P2.sub(lhs, rhs)):
            g3 = T2.mul(T2.add(T2.mul(c(3), T2.mul(g4, g4)), k), T2.inv(c(2)))
            if not any(g3):
                continue
            g3i = T2.inv(g3)
            g1 = T2.mul(T2.mul(c(2), T2.mul(g4, g5)), g3i)
            g0 = T2.sub(T2.mul(T2.add(T2.mul(g4, g4), k), g3i), [1, 0])
            a = g0 + g4 + g3 + [0, 0] + g1 + g5
            if T12.mul(T12.frob(a, 4), a) == T12.frob(a, 2):
                found.append(a)
    return found


def towers(kv):
    p = int(kv["p"], 16)
    qnr, cnr = int(kv["qnr"]) % p, int(kv["cnr"]) % p
    xi = [int(x, 16) for x in kv["xi"].split(",")]
    xi3 = [int(x, 16) for x in kv.get("xi3", "0,1,0").split(",")]

    def gen(levels):
        return Tower(p, levels).gen()
    l2 = [(2, [qnr])]
    l3 = [(3, [cnr])]
    l4 = [(2, xi)] + l2
    l6 = [(3, xi)] + l2
    l8 = [(2, gen(l4))] + l4
    l12 = [(2, gen(l6))] + l6
    l16 = [(2, gen(l8))] + l8
    l24 = [(3, gen(l8))] + l8
    l48 = [(2, gen(l24))] + l24
    l9 = [(3, xi3)] + l3
    l18 = [(2, gen(l9))] + l9
    l54 = [(3, gen(l18))] + l18
    return {n: Tower(p, ls) for n, ls in [(2, l2), (3, l3), (4, l4), (6, l6), (8, l8), (9, l9), (12, l12), (16, l16), (18, l18),
                                          (24, l24), (48, l48), (54, l54)]}


# ------------------------------------------------------------------------------------------------
def table():
    """function names by level and kind, from the harness table"""
    txt = open(os.path.join(VERIF, "harness", "ops_fpx_tab.inc")).read()
    return [(int(n), name, kind) for name, n, kind in re.findall(r'\{"fp\d+_(\w+)", (\d+), (K_\w+),', txt)]


def fmt(a):
    return ",".join("%x" % x for x in a)


class Gen:
    def __init__(self, rng, kv, tier):
        self.rng, self.kv, self.tier = rng, kv, tier
        self.p = int(kv["p"], 16)
        self.T = towers(kv)
        self.n = int(kv["n"], 16) if "n" in kv else 0
        self.twist = int(kv.get("twist", "0"))
        self.qnr = int(kv["qnr"])
        self.cnr = int(kv["cnr"])
        self.R = 1 << (64 * ((int(kv["bytes"]) + 7) // 8))
        self.field = {}
        self.cyc_pool = {}
        self.ordr_pool = []
        self.g2zero = None      # cyclotomic elements of fp12 with a[1][0] = 0, and square roots of them
        self.g2zero_roots = []
        self.want_g2zero = False
        self.force = None
        self.high_full = False      # context of one of the other field sizes: the tower above degree 12 is exercised in full

    def is_field(self, n):
        if n not in self.field:
            self.field[n] = self.T[n].is_field()
        return self.field[n]

    # ---- coefficients and elements -----------------------------------------------------------------
    def coeff(self):
        rng, p = self.rng, self.p
        k = rng.below(12)
        if k == 0:
            return 0
        if k == 1:
            return rng.choice([1, 2, 3])
        if k == 2:
            return p - rng.choice([1, 2, 3])
        if k == 3:
            return (p + rng.choice([-1, 1])) // 2
        if k == 4:
            # Montgomery form with structured digits
            pat = 0
            for i in range(self.R.bit_length() // 64):
                pat |= rng.choice([0, (1 << 64) - 1, 1, 1 << 63, rng.bits(64)]) << (64 * i)
            return pat % p * pow(self.R, -1, p) % p
        if k == 5:
            return rng.bits(rng.choice([8, 64, 65, 128]))
        return rng.bits(p.bit_length() + 8) % p

    def dense(self, n):
        return [self.rng.bits(self.p.bit_length() + 8) % self.p for _ in range(self.T[n].dim)]

    def element(self, n):
        rng, T = self.rng, self.T[n]
        k = rng.below(16)
        d = T.dim
        if self.force is not None:
            # boundary operands presented to every function by name, not left to chance
            k, self.force = self.force, None
        if k == 0:
            return T.zero()
        if k == 1:
            return T.one() if rng.chance(2, 3) else rng.choice([T.neg(T.one()), T.of_int(2)])
        if k == 2:   # base-field element
            return T.of_int(self.coeff())
        if k == 3 and T.levels:   # element of the level below
            b = T.below
            return [self.coeff() for _ in range(b.dim)] + [0] * (d - b.dim)
        if k == 4 and T.levels and T.below.levels:   # element two levels down
            b = T.below.below
            return [self.coeff() for _ in range(b.dim)] + [0] * (d - b.dim)
        if k in (5, 6):   # zero coefficients in chosen positions
            mask = rng.bits(d)
            return [0 if (mask >> i) & 1 else self.coeff() for i in range(d)]
        if k == 7:   # a single non-zero coefficient
            a = T.zero()
            a[rng.below(d)] = self.coeff() or 1
            return a
        if k == 8:   # all coefficients maximal
            return [self.p - 1 - rng.below(2) for _ in range(d)]
        if k in (9, 10):
            return [self.coeff() for _ in range(d)]
        if k == 11 and n in CYC_LEVELS and (n <= 12 or self.high_full) and self.is_field(n):
            return self.cyc(n)
        return self.dense(n)

    def cyc(self, n):
        """element of the subgroup the library calls cyclotomic at level n (tower must be a field)"""
        rng, T = self.rng, self.T[n]
        pool = self.cyc_pool.setdefault(n, [])
        if len(pool) < (3 if n <= 16 else 1) or (len(pool) < 12 and rng.chance(1, 6)):
            while True:
                a = self.dense(n)
                ai = T.inv(a)
                if ai is not None:
                    break
            t = T.mul(T.frob(a, n // 2), ai)           # a^(p^(n/2) - 1)
            k = CYC_LEVELS[n]
            if n in (12, 18, 24, 48, 54):
                t = T.mul(T.frob(t, k), t)             # ... ^(p^k + 1)
            pool.append(t)
            return t
        k = rng.below(6)
        a = rng.choice(pool)
        if k == 0:
            return a
        if k == 1:
            return T.mul(a, rng.choice(pool))
        if k == 2:
            return T.conj(a) if n not in (24, 54) else T.mul(a, a)
        if k == 3:
            return T.frob(a, 1 + rng.below(3))
        if k == 4:
            r = T.pow(a, 2 + rng.below(1 << 16))
            if len(pool) < 40:
                pool.append(r)
            return r
        return T.mul(a, a)

    def g2z(self, root=False):
        """a cyclotomic element b of fp12 with g2 = 0, or (root) an element a with a^2 = b"""
        if self.g2zero is None:
            self.g2zero = g2zero_elements(self.T, [int(x, 16) for x in self.kv["xi"].split(",")], self.rng) if self.want_g2zero else []
            phi = self.p ** 4 - self.p ** 2 + 1
            self.g2zero_roots = [self.T[12].pow(b, (phi + 1) // 2) for b in self.g2zero[:1]]
        pool = self.g2zero_roots if root else self.g2zero
        return self.rng.choice(pool) if pool else None

    def ordr(self):
        """element of fp12 of order dividing the group order n"""
        T = self.T[12]
        p = self.p
        if len(self.ordr_pool) < 2:
            c = self.cyc(12)
            h = (p ** 4 - p ** 2 + 1) // self.n
            g = T.pow(c, h)
            self.ordr_pool.append(g)
            return g
        a = self.rng.choice(self.ordr_pool)
        k = self.rng.below(4)
        if k == 0:
            return a
        if k == 1:
            return T.mul(a, self.rng.choice(self.ordr_pool))
        r = T.pow(a, 2 + self.rng.below(1 << 20))
        if len(self.ordr_pool) < 20:
            self.ordr_pool.append(r)
        return r

    def exponent(self, cyc=False):
        rng, p = self.rng, self.p
        n = self.n or p
        k = rng.below(16)
        if k == 0:
            return 0
        if k == 1:
            return rng.choice([1, -1, 2, -2, 3, -3, 7, 15])
        if k == 2:
            return rng.choice([p, p - 1, p + 1, -(p - 1), n, n - 1, n + 1, -n, 2 * n])
        if k == 3:   # sparse
            e = 0
            for _ in range(1 + rng.below(4)):
                e |= 1 << rng.below(250)
            return e if rng.chance(2, 3) else -e
        if k == 4:   # one digit
            return rng.choice([rng.bits(64), (1 << 64) - 1, 1 << 63, -rng.bits(63), rng.bits(10)])
        if k == 5:   # just above one digit
            return rng.choice([1 << 64, (1 << 64) + 1, (1 << 65) - 1, -(1 << 64)])
        if k == 6:   # dense runs of ones (long NAF)
            return (1 << rng.choice([8, 64, 65, 200, 255])) - 1
        if k == 7 and not cyc:
            return rng.bits(300) * rng.choice([1, -1])
        if k == 8:
            return rng.bits(256) % n * rng.choice([1, 1, -1])
        return rng.bits(rng.choice([16, 64, 128, 200, 254])) * rng.choice([1, 1, 1, -1])

    # ---- operand for a function ------------------------------------------------------------------------
    def sparse12(self, a):
        """the shape fp12_mul_dxs expects for its second operand (units of fp2)"""
        a = list(a)
        zero_units = (1, 2, 5) if self.twist == 1 else (2, 3, 5)
        for u in zero_units:
            a[2 * u] = a[2 * u + 1] = 0
        return a

    def compressed_input(self, n, c):
        """fpN_back_cyc reads four of the six coefficient blocks; the other two (g0, g1) are arbitrary"""
        a = list(c)
        k = self.rng.below(4)
        us = n // 6
        for u in ((0, 4) if n in (12, 18, 48) else (0, 1)):
            for j in range(us):
                if k == 0:
                    a[us * u + j] = 0
                elif k == 1:
                    a[us * u + j] = self.coeff()
        return a

    def lines_for(self, n, name, kind, count):
        rng, T = self.rng, self.T[n]
        out = []
        f = "fp%d_%s" % (n, name)
        field = self.is_field(n)
        cyc_ok = field and n in CYC_LEVELS
        for it in range(count + 2):
            # the two extra lines start from the operands one and zero (later choices may specialise them)
            self.force = 1 if it == 0 else (0 if it == 1 else None)
            al = rng.below(5) if kind == "K_BIN" else rng.below(2)
            if kind in ("K_UNR1", "K_UNR2", "K_SETDIG", "K_TEST", "K_CMP", "K_CMPD", "K_RDBIN", "K_WRBIN", "K_SZBIN"):
                al = 3 * rng.below(2) if kind in ("K_UNR2", "K_CMP") else 0
            if kind in ("K_BIN", "K_UNR2"):
                a, b = self.element(n), self.element(n)
                if name.startswith("mul_dxs"):
                    if n == 12:
                        b = self.sparse12(b)
                        if al in (3, 4):
                            a = self.sparse12(a)
                    elif n in (6, 9):
                        d = T.below.dim
                        b = b[:2 * d] + [0] * d
                        if al in (3, 4):
                            a = a[:2 * d] + [0] * d
                    elif n == 8:
                        b = b[:4] + [0, 0] + b[6:]
                        if al in (3, 4):
                            a = a[:4] + [0, 0] + a[6:]
                    else:
                        continue
                    if rng.chance(1, 10):
                        b = self.element(n)     # precondition violated: unspecified, must still terminate
                if rng.chance(1, 8):
                    b = rng.choice([a, T.neg(a)])
                out.append("fpx %s %d %s %s" % (f, al, fmt(a), fmt(b)))
            elif kind in ("K_UN", "K_UNR1"):
                a = self.element(n)
                if name in ("inv", "conv_cyc") and not field and rng.chance(3, 4):
                    continue
                if name.startswith("sqr_cyc") or name.startswith("sqr_pck") or name == "inv_cyc":
                    if not cyc_ok:
                        continue
                    if n not in (2, 4, 8, 12, 16) and name != "inv_cyc" and not self.high_full:
                        continue
                    if name.startswith("sqr_pck") and n != 12 and not self.high_full:
                        continue
                    if not rng.chance(1, 10):
                        a = self.cyc(n) if n in CYC_LEVELS else a
                    if rng.chance(1, 12) or it == 0:
                        a = T.one()
                if name == "back_cyc":
                    if (n != 12 and not self.high_full) or not cyc_ok:
                        continue
                    if it == 0:
                        out.append("fpx %s %d %s" % (f, al, fmt(T.one())))
                        continue
                    c = rng.choice([self.cyc(n), self.cyc(n), self.cyc(n), T.one(), self.ordr() if (self.n and n == 12) else self.cyc(n)])
                    if rng.chance(1, 4) and self.g2z() is not None:
                        c = self.g2z()
                    a = self.compressed_input(n, c)
                    if rng.chance(1, 12):
                        a = self.element(n)
                if name in ("pck", "pck_max"):
                    if n not in (2, 12) or not cyc_ok or (name == "pck_max" and n != 12):
                        continue
                    if n == 2 and self.qnr != -1:
                        continue
                    if rng.chance(3, 4):
                        a = self.cyc(n)
                if name in ("conv_cyc",) and not cyc_ok:
                    continue
                if name == "inv_cyc" and n == 4:
                    continue
                if name.startswith("mul_nor") and n not in (2, 3):
                    continue
                out.append("fpx %s %d %s" % (f, al, fmt(a)))
            elif kind == "K_INT":     # frb
                if not field:
                    continue
                a = self.element(n)
                i = rng.choice(list(range(0, n + 1)) + [1, 2, 3])
                if it == 0:
                    i = n // 2 + 1          # a power in the upper half on a dense element, by name for every level
                    a = self.dense(n)
                elif it == 1:
                    i = n
                out.append("fpx %s %d %s %d" % (f, al, fmt(a), i))
            elif kind == "K_BN":
                a = self.element(n)
                if name == "exp":
                    e = self.exponent()
                    if n >= 16 and abs(e).bit_length() > 70 and not rng.chance(1, 6):
                        e = rng.bits(40)
                    if e < 0 and not field:
                        continue
                    if cyc_ok and (n in (8, 12) or self.high_full) and rng.chance(1, 4):
                        a = self.cyc(n)
                        e = self.exponent(cyc=True)
                        if n >= 16 and abs(e).bit_length() > 70 and not rng.chance(1, 4):
                            e = rng.bits(40)
                elif name.startswith("exp_cyc"):
                    if not cyc_ok or (n not in (2, 8, 12, 16) and not self.high_full):
                        continue
                    a = self.cyc(n) if rng.chance(7, 8) else a
                    if n == 12 and self.n and rng.chance(1, 4):
                        a = self.ordr()
                    e = self.exponent(cyc=True)
                    if n >= 16 and abs(e).bit_length() > 70 and not rng.chance(1, 4):
                        e = rng.bits(40) * rng.choice([1, 1, -1])
                    if n == 12 and name == "exp_cyc" and rng.chance(1, 8) and self.g2z(root=True) is not None:
                        # a^2 has g2 = 0: the compressed-squaring path decompresses it
                        a = self.g2z(root=True)
                        e = rng.choice([3, 6, 7, -3, 2, (1 << 40) + 2])
                else:
                    continue
                out.append("fpx %s %d %s %s" % (f, al, fmt(a), hx(e)))
            elif kind == "K_DIG":
                a = self.element(n)
                g = rng.choice([0, 1, 2, 3, 5, 7, 15, 255, (1 << 64) - 1, 1 << 63, rng.bits(64), rng.bits(8), rng.bits(20)])
                if name == "exp_dig":
                    if n >= 16 and g.bit_length() > 24:
                        g = rng.bits(20)
                    if cyc_ok and n in (8, 12, 16, 18, 24, 48, 54) and rng.chance(1, 2):
                        a = self.cyc(n)
                out.append("fpx %s %d %s %x" % (f, al, fmt(a), g))
            elif kind == "K_SETDIG":
                out.append("fpx %s 0 %x" % (f, rng.choice([0, 1, 2, (1 << 64) - 1, rng.bits(64)])))
            elif kind == "K_TEST":
                a = self.element(n)
                if name == "test_cyc":
                    if not cyc_ok:
                        continue
                    if rng.chance(1, 2):
                        a = self.cyc(n)
                    if rng.chance(1, 8):
                        a = T.neg(self.cyc(n))
                elif name == "is_sqr":
                    if not field:
                        continue
                    if rng.chance(1, 3):
                        a = T.sqr(a)
                else:
                    continue
                out.append("fpx %s 0 %s" % (f, fmt(a)))
            elif kind == "K_SRT":
                a = self.element(n)
                if name == "srt":
                    if not field:
                        continue
                    if rng.chance(1, 2):
                        a = T.sqr(a)
                elif name in ("upk", "upk_max"):
                    if n not in (2, 12) or not cyc_ok or (name == "upk_max" and n != 12):
                        continue
                    if n == 2:
                        if self.qnr != -1:
                            continue
                        c = self.cyc(2)
                        bit = (c[1] * self.R % self.p) & 1
                        a = [c[0], bit * pow(self.R, -1, self.p) % self.p]
                        if rng.chance(1, 6):
                            a = [self.coeff(), rng.below(2) * pow(self.R, -1, self.p) % self.p]
                        if rng.chance(1, 8):
                            a = self.element(2)
                    elif name == "upk":
                        c = rng.choice([self.cyc(12), self.cyc(12), T.one()])
                        if rng.chance(1, 5) and self.g2z() is not None:
                            c = self.g2z()
                        a = list(c)
                        if rng.chance(4, 5):
                            a[0] = a[1] = a[8] = a[9] = 0
                        if rng.chance(1, 8):
                            a = self.element(12)
                            a[0] = a[1] = a[8] = a[9] = 0
                    else:
                        c = self.cyc(12)
                        T6 = T.below
                        i1 = T6.inv(c[6:])
                        if i1 is None:
                            a = T.zero()
                        else:
                            a = T6.mul(T6.add(c[:6], T6.one()), i1) + T6.zero()
                        if rng.chance(1, 6):
                            a = self.element(12)[:6] + T6.zero()
                        if rng.chance(1, 8):
                            a = self.element(12)
                else:
                    continue
                out.append("fpx %s %d %s" % (f, al, fmt(a)))
            elif kind == "K_CMP":
                a, b = self.element(n), self.element(n)
                if rng.chance(1, 3):
                    b = list(a)
                    if rng.chance(1, 2):
                        i = rng.below(T.dim)
                        b[i] = (b[i] + 1) % self.p
                out.append("fpx %s %d %s %s" % (f, al, fmt(a), fmt(b)))
            elif kind == "K_CMPD":
                g = rng.choice([0, 1, 2, rng.bits(64)])
                a = rng.choice([self.element(n), T.of_int(g), T.of_int(g)])
                if rng.chance(1, 4):
                    a = T.of_int(g)
                    a[rng.below(T.dim)] ^= 1
                out.append("fpx %s 0 %s %x" % (f, fmt(a), g))
            elif kind == "K_SIM":
                if name == "inv_sim":
                    if not field:
                        continue
                    k = rng.choice([1, 1, 2, 3, 4, 8])
                    els = [self.element(n) for _ in range(k)]
                    if not rng.chance(1, 8):
                        els = [e if any(e) else T.one() for e in els]
                    out.append("fpx %s %d %d %s" % (f, rng.below(2), k, " ".join(fmt(e) for e in els)))
                elif name == "back_cyc_sim" and n == 12 and cyc_ok:
                    if it == 0:
                        out.append("fpx %s %d 2 %s %s" % (f, rng.below(2), fmt(T.one()), fmt(self.cyc(12))))
                        continue
                    k = rng.choice([1, 2, 3, 5])
                    els = [self.compressed_input(12, rng.choice([self.cyc(12), self.cyc(12), self.cyc(12), T.one()])) for _ in range(k)]
                    out.append("fpx %s %d %d %s" % (f, rng.below(2), k, " ".join(fmt(e) for e in els)))
            elif kind == "K_EXPSIM":
                if not cyc_ok or n not in (2, 8, 12):
                    continue
                if n == 12:
                    if not self.n:
                        continue
                    a, b = self.ordr(), self.ordr()
                else:
                    a, b = self.cyc(n), self.cyc(n)
                e1, e2 = self.exponent(cyc=True), self.exponent(cyc=True)
                out.append("fpx %s %d %s %s %s %s" % (f, rng.choice([0, 0, 1, 2, 3]), fmt(a), hx(e1), fmt(b), hx(e2)))
            elif kind == "K_SPS":
                if not cyc_ok or n != 12:
                    continue
                a = self.cyc(n) if rng.chance(7, 8) else self.element(n)
                k = rng.choice([0, 1, 1, 2, 3, 4, 6])
                pos = sorted(set(rng.below(70) for _ in range(k)))
                if pos and rng.chance(1, 2):
                    pos[0] = 0
                    pos = sorted(set(pos))
                bs = [(-b if (b and rng.chance(1, 3)) else b) for b in pos]
                if rng.chance(1, 6):
                    bs = [int(x) for x in self.kv.get("sps", "0").split(",")] if self.kv.get("sps", ".") != "." else bs
                out.append("fpx %s %d %s %d %s" % (f, al, fmt(a), rng.choice([1, 1, -1]), ",".join(str(b) for b in bs) if bs else "."))
            elif kind == "K_FRB2":
                if n != 2:
                    continue
                a = self.element(n)
                i = rng.choice([1, 2])
                j = 1 + rng.below(5 if i == 1 else 4)
                out.append("fpx %s %d %s %d %d" % (f, al, fmt(a), i, j))
            elif kind == "K_WRBIN":
                a = self.element(n)
                nb = n * int(self.kv["bytes"])
                pack = 0 if name == "write_bin" and n in (2, 8, 12, 16, 18, 24, 48, 54) else -1
                ln = rng.choice([nb, nb, nb, nb - 1, nb + 1, 0])
                out.append("fpx %s 0 %s %d %d" % (f, fmt(a), ln, pack))
            elif kind == "K_RDBIN":
                fb = int(self.kv["bytes"])
                a = self.element(n)
                if rng.chance(1, 6):
                    a[rng.below(T.dim)] = rng.choice([self.p, self.p + 1, (1 << (8 * fb)) - 1])
                h = "".join("%0*x" % (2 * fb, x) for x in a)
                k = rng.below(8)
                if k == 0:
                    h = h[2:]
                elif k == 1:
                    h = h + "00"
                elif k == 2:
                    h = "."
                out.append("fpx %s 0 %s" % (f, h))
            elif kind == "K_SZBIN":
                a = self.element(n)
                pack = -1 if n in (3, 4, 6, 9) else rng.below(2)
                if pack == 1 and cyc_ok and rng.chance(1, 2):
                    a = self.cyc(n)
                if pack == 1 and not cyc_ok:
                    pack = 0
                out.append("fpx %s 0 %s %d" % (f, fmt(a), pack))
        return out


# functions the generators do not exercise, with the reason (kept out of the streams, not silently)
NOT_EXERCISED = {
    "mul_frb(3,4,8)": "internal helpers of the Frobenius maps (multiplication by table entries); covered through fpN_frb",
}


# above degree 12 the Frobenius constants (and everything built on them: cyclotomic forms, square roots) are tied to the
# curve families of the other field sizes; on the 256-bit primes only the prime-independent ring arithmetic is exercised
HIGH_RING = ("add", "sub", "neg", "dbl", "mul_basic", "mul_lazyr", "mul_unr", "mul_art", "sqr_basic", "sqr_lazyr", "sqr_unr", "inv",
             "inv_sim", "cmp", "cmp_dig", "set_dig", "exp", "read_bin", "write_bin")


# functions of the towers above degree 12 that stay out of the streams even with their own curve family
HIGH_SKIP = ("mul_dxs", "mul_dxs_basic", "mul_dxs_lazyr", "exp_cyc_sim", "exp_cyc_sps", "exp_cyc_gls", "pck", "upk", "pck_max", "upk_max",
             "back_cyc_sim", "size_bin")


def gen_context(rng, kv, tier, scale, levels, high_full=False, g2zero=False):
    g = Gen(rng, kv, tier)
    g.high_full = high_full
    g.want_g2zero = g2zero and 12 in levels
    if not high_full:
        for n in CYC_LEVELS:
            if n > 12:
                g.field.setdefault(n, g.T[n].is_field())
    tab = table()
    lines = []
    base = max(1, int({"quick": 3, "thorough": 60}[tier] * scale))
    for n, name, kind in tab:
        if n not in levels:
            continue
        if kind == "K_FRB2" and n != 2:
            continue
        if n > 12 and not high_full and name not in HIGH_RING and not (n == 16 and name == "frb" and int(kv["mod8"]) == 5):
            continue
        if n > 12 and high_full and name in HIGH_SKIP:
            continue
        w = base
        if n >= 16:
            w = max(1, base // 3)
        if n >= 48:
            w = max(1, base // 6)
        if kind == "K_BN" or name in ("exp_dig", "srt", "is_sqr", "conv_cyc"):
            w = max(1, w // 2) if tier == "quick" else w // 2
        if kind in ("K_EXPSIM", "K_SPS") and n <= 12:
            w *= 2
        if name.startswith(("mul", "sqr", "inv", "frb")) and n <= 12:
            w *= 2
        lines += g.lines_for(n, name, kind, w)
    return lines


TOWERS = {}      # (cfg, context line) -> towers, for the finding predicates


def _exe(ctx, cfg="base"):
    return ctx.oracle(cfg, defs=("ORACLE_FP", "ORACLE_EXTRA1=ops_fpx"), sources=("oracle.c", "ops_bn.c", "ops_fp.c", "ops_fpx.c"), tag="_fpx")


def _param(exe, line):
    out = subprocess.run([exe], input=line + "\n", stdout=subprocess.PIPE, stderr=subprocess.DEVNULL, text=True, timeout=120).stdout
    return dict(t.split("=", 1) for t in out.split()[1:] if "=" in t)


def _contexts(ctx, cfg, exe):
    res = []
    for kind, cid, tw in CONTEXTS[cfg]:
        if cid is None:
            # the pairing-friendly curve of this field size: scan the curve ids for the one with an embedding degree
            for cand in range(1, 80):
                kv = _param(exe, "fpx_param e %d %d" % (cand, tw))
                if kv.get("embed", "0") not in ("0", "1", "2") and "p" in kv:
                    cid = cand
                    break
            if cid is None:
                continue
        line = "fpx_param %s %d %d" % (kind, cid, tw)
        kv = _param(exe, line)
        if "p" in kv:
            res.append((line, kv))
    return res


def _translate():
    """regenerate lean/RelicVerif/Gen/Fpx.lean from the C text (also done by translate.generate_all)"""
    import translate_fpx
    return translate_fpx.generate()


def extra_evidence(ctx, recs):
    r = _translate()
    fh = {}
    for x in recs:
        t = x["line"].split(" ")
        if t[0] == "fpx" and len(t) > 1 and x["verdict"].startswith("ok"):
            fh[t[1]] = fh.get(t[1], 0) + 1
    return {"generated_fpx": r["obligations"], "generated_fpx_failures": r["failures"], "functions_exercised": len(fh),
            "function_histogram": dict(sorted(fh.items()))}


def streams(ctx, scale=1):
    _translate()
    res = []
    # thorough: also the quick-sized stream on the sanitizer build of the base configuration (a report aborts the oracle: crash)
    cfgs = ["base"] if ctx.tier == "quick" else ["base", "p381"] + sorted(HIGH_LEVELS) + ["base-san"]
    only = os.environ.get("C10_CFGS")
    if only:
        cfgs = only.split(",")
    for cfg in cfgs:
        exe = _exe(ctx, cfg)
        lines = ["cfg"]
        san = cfg == "base-san"
        for i, (pl, kv) in enumerate(_contexts(ctx, "base" if san else cfg, exe)):
            if san and i >= 4:
                break
            pairing = kv.get("embed", "0") == "12"
            if cfg in HIGH_LEVELS:
                lines.append(pl)
                lines += gen_context(ctx.rng, kv, ctx.tier, 0.15 * scale if ctx.tier == "thorough" else scale, HIGH_LEVELS[cfg], high_full=True)
                TOWERS[(cfg, pl)] = None
                continue
            if pairing:
                levels = [2, 3, 4, 6, 8, 9, 12] + ([16, 18, 24] if (ctx.tier == "thorough" or i < 2) else [])
                if ctx.tier == "thorough" and i < 2:
                    levels += [48, 54]
            else:
                # plain (not pairing-friendly) primes: the quadratic and cubic extensions only
                levels = [2, 3]
            if int(kv["cnr"]) == 0:
                levels = [n for n in levels if n not in (3, 9, 18, 54)]
            sc = scale if pairing and i < 2 else max(1, scale // 2)
            if san:
                sc = 0.05 * scale
            lines.append(pl)
            lines += gen_context(ctx.rng, kv, ctx.tier, sc, levels, g2zero=pairing and (i < 2 or ctx.tier == "thorough") and not san)
            TOWERS[(cfg, pl)] = towers(kv)
        st = {"name": "fpx-" + cfg, "cfg": cfg, "exe": exe, "lines": lines}
        if san:
            st["env"] = dict(os.environ, ASAN_OPTIONS="detect_leaks=0", UBSAN_OPTIONS="print_stacktrace=1")
        res.append(st)
    return res


def search_streams(ctx, mfail):
    return streams(ctx, scale=3)


def replay_streams(ctx, rp):
    cfg = rp.get("config", "base")
    return [{"name": "replay", "cfg": cfg, "exe": _exe(ctx, cfg), "lines": ["cfg"] + rp.get("context_lines", []) + rp.get("op_lines", [])}]


def nontrivial(r):
    return not r["got"].startswith("err") and "pre-false" not in r["verdict"]


def matches_finding(f, r):
    t = r["line"].split()
    if len(t) < 3 or t[0] != "fpx":
        return False
    pred = f.get("pred")
    m = re.match(r"fp(\d+)_(\w+)$", t[1])
    if not m:
        return False
    name = m.group(2)
    if pred == "exp_cyc_long" and name in ("exp", "exp_cyc", "exp_cyc_sim"):
        es = [x for x in t[4:] if re.match(r"^-?[0-9a-f]+$", x)]
        return r["got"] == "err" and any(int(e, 16).bit_length() > 256 for e in es)
    return False
