"""C13 — hashing to groups: valid subgroup points, deterministic, equal to the documented construction."""
import subprocess

TRUSTED = [
    "specification (prime curves): lean/RelicVerif/Spec/HashToCurve.lean (RFC 9380 hash_to_field / sgn0 / simplified SWU with the exceptional case / "
    "Shallue-van de Woestijne with c1..c4 defined from Z / iso_map / clear_cofactor / hash_to_curve = map(u0) + map(u1); SwiftEC in its X/Y "
    "form; try-and-increment), executed by the compiled Lean driver with expand_message_xmd of Spec/Mac.lean (C14) over SHA-256",
    "model (prime curves): lean/RelicVerif/Model/EpMap.lean mirrors TMPL_MAP_SSWU, TMPL_MAP_SVDW, EP_MAP_APPLY_MAP, TMPL_MAP_HORNER/ISOGENY_MAP, the "
    "a = 0 branch of ep_map_swift_impl and fp_srt's choice of root; proved equal to the specification for every field element (Props/C13.lean) "
    "under the conditions on the constants that the driver evaluates on every context line (Z non-square, g(B/(ZA)) square, c-constants "
    "satisfy their defining equations, ...); the constants themselves are READ from the running library (ep_map_param)",
    "binary curves (eb_map, NIST_B283 / NIST_K283) and Edwards (ed_map, ed_map_dst, ed_map_ell2_5mod8 on CURVE_ED25519): specification only "
    "(Spec/HashToCurveBin.lean: private GF(2)[z]/f arithmetic, trace, half-trace, affine binary group law; Spec/HashToCurveEd.lean: RFC 9380 "
    "Elligator 2, Montgomery->Edwards map, affine twisted Edwards law); the C code of these maps is class C (compared with the specification "
    "on the presented lines only, no model); irreducibility of the reduction polynomial and the Edwards/binary group laws of the library are "
    "C16 / C17 / C18",
    "curves over Fp2 (ep2_map / ep2_map_sswum / ep2_map_basic on the twists of BN_P256, SM9_P256, B12_P381): specification only "
    "(Spec/HashToCurveExt.lean: private Fp2 = Fp[u]/(u^2 - q) with is_square by the norm, sqrt, sgn0 for m = 2; the generic sswu / svdw / iso_map of "
    "the prime-curve specification instantiated with it; affine group law over Fp2; the twist endomorphism psi with the constants READ from "
    "the library and validated by psi(G) = [p]G; the documented cofactor clearings of ep2_mul_cof_bn / ep2_mul_cof_b12); the C code is class C "
    "(no model); only hashed inputs are presentable (ep2_map_from_field is static), so the exceptional field elements of the Fp2 maps are "
    "covered by the theorems (any field) but not by the correspondence",
    "NOT COVERED: ep2_map_swift, ep3 / ep4 / ep8_map (no specification of those towers in this slice); the b = 0 branch of "
    "ep_map_swift_impl (no curve with b = 0 is selectable in the configurations used); binary and Edwards parameter sets other than those of "
    "the base / p255 builds",
    "class C (compared with the specification on the presented lines only): the byte-level plumbing of the entry points (which bytes of the "
    "uniform string become which field element, DST of each entry point: \"RELIC\" for ep_map_basic / ed_map, \"RELIC\\0\" (sizeof) for "
    "ep_map_sswum and ep_map_swift), the group law / ep_norm / ep_mul_cof used after the maps (C03), fp_smb / fp_srt / fp_inv (C02), md_xmd (C14), "
    "'the isogeny maps points of the isogenous curve to points of the curve' (evaluated on every presented point)",
    "membership in the prime-order subgroup is evaluated per line (n*P = O with the affine reference arithmetic); as a theorem it is "
    "r*(h*P) = O in any group of exponent h*r, i.e. modulo the group-order fact of C18",
    "determinism: specification and model are pure functions of the bytes; on the implementation side every operation is executed twice per "
    "line (different result-object contents, scribbled stack, advanced DRBG) and selected lines are repeated later in the stream and after a "
    "change of curve",
    "known findings C13-1 (SSWU Z on SM2_P256 / CURVE_25519) and C13-2 (SwiftEC exceptional parameters) are matched by predicate and reported as "
    "KNOWN-FINDING; the specification is not weakened for them",
]
ASSUMPTIONS = [
    "the curve's group has order h*n with n prime (C18); n*G = O and the generator being on the curve are evaluated on every context line",
]
RULE = ("messages of length 0, 1, 31, 32, 33, 55, 56, 63, 64, 65, 127, 128, 129, 300 (random / all-zero / all-0xff content) through every entry point "
        "by name (ep_map, ep_map_basic, ep_map_sswum, ep_map_swift); uniform strings for ep_map_rnd in the three builds EP_MAP = SSWUM / BASIC / SWIFT "
        "that reduce to u = 0, +-1, p-1, the roots of Z^2u^4+Zu^2 (SSWU) resp. of (1-u^2 g(Z))(1+u^2 g(Z)) (SvdW), SwiftEC parameters with u = 0, t = 0, "
        "u^3+b+t^2 = 0, representatives >= p before reduction, u0 = u1 and u0 = -u1, too short / too long strings; each curve of the configuration; "
        "eb_map on both binary curves, ed_map / ed_map_dst (DST lengths 0, 1, 5, 16, 254, 255, 256, 300) / ed_map_ell2_5mod8 (u = 0, +-1, values sent to "
        "the exceptional points of the Montgomery->Edwards map, representatives >= p) with the same message lengths; ep2_map / ep2_map_sswum / "
        "ep2_map_basic on the Fp2 twists of BN_P256, SM9_P256, B12_P381; "
        "non-trivial = distinct line whose result is a point other than the identity")

USES_GENERATED = False
EXTRA_THEOREM_MODULES = []

# NIST_P256, BSI_P256, SECG_K256, SM2_P256, BN_P256, SM9_P256
# p255: CURVE_25519 (Weierstrass form of Curve25519, cofactor 8, a*b != 0), TWEEDLEDUM (a = 0); p381: B12_P381 (11-isogeny, h_eff = 1 - x)
CURVES = {"base": [12, 13, 14, 15, 23, 24], "map-basic": [12, 13, 14, 15, 23, 24], "map-swift": [14, 23, 24, 12],
          "p255": [10, 11], "p381": [30]}
# binary curves of the base configuration (FB_POLYN = 283): NIST_B283 (h = 2), NIST_K283 (h = 4)
EB_CURVES = {"base": [8, 9]}
MSG_LENS = [0, 1, 31, 32, 33, 55, 56, 63, 64, 65, 127, 128, 129, 300]
SOURCES = ("oracle.c", "ops_bn.c", "ops_map.c")
DEFS = ("ORACLE_EXTRA1=ops_map",)


def is_sq(x, p):
    x %= p
    return x == 0 or pow(x, (p - 1) // 2, p) == 1


def sqrt_mod(a, p):
    """a square root of a modulo the odd prime p, or None"""
    a %= p
    if a == 0:
        return 0
    if pow(a, (p - 1) // 2, p) != 1:
        return None
    if p % 4 == 3:
        return pow(a, (p + 1) // 4, p)
    q, s = p - 1, 0
    while q % 2 == 0:
        q //= 2
        s += 1
    z = 2
    while is_sq(z, p):
        z += 1
    m, c, t, r = s, pow(z, q, p), pow(a, q, p), pow(a, (q + 1) // 2, p)
    while t != 1:
        i, t2 = 0, t
        while t2 != 1:
            t2 = t2 * t2 % p
            i += 1
        b = pow(c, 1 << (m - i - 1), p)
        m, c, t, r = i, b * b % p, t * b * b % p, r * b % p
    return r


class Cv:
    def __init__(self, kv):
        self.kv = kv
        h = lambda k: int(kv[k], 16)
        self.id = int(kv["id"])
        self.p, self.a, self.b, self.n, self.h = h("p"), h("a"), h("b"), h("n"), h("h")
        self.level = int(kv["level"])
        self.alg = kv["mapalg"]
        self.rndsize = int(kv["rndsize"])
        self.ctmap = kv["ctmap"] == "1"
        self.Z = h("mapu")
        self.L = (self.p.bit_length() + self.level + 7) // 8
        self.sswu = self.ctmap or (self.a != 0 and self.b != 0)
        self.ma, self.mb = (h("isoa"), h("isob")) if self.ctmap else (self.a, self.b)

    def g(self, x):
        return (x * x * x + self.ma * x + self.mb) % self.p

    def crit4(self):
        """RFC 9380 §6.6.2 condition 4 on Z: g(B/(Z*A)) is a square"""
        p = self.p
        return is_sq(self.g(self.mb * pow(self.Z * self.ma, -1, p) % p), p)

    def exceptional(self):
        """the field elements the map treats specially"""
        p, out = self.p, [0]
        if self.sswu:
            r = sqrt_mod(-pow(self.Z, -1, p), p)        # Z u^2 = -1
            if r is not None:
                out += [r, p - r]
        else:
            gz = self.g(self.Z)
            for s in (1, -1):                            # u^2 g(Z) = +-1
                r = sqrt_mod(s * pow(gz, -1, p), p)
                if r is not None:
                    out += [r, p - r]
        return out


def hexb(b):
    return b.hex() if b else "."


def enc(v, L):
    return v.to_bytes(L, "big")


def lift(rng, u, p, L):
    """a representative of u modulo p among the integers below 256^L: u itself, u + p, or a random one (>= p before reduction)"""
    top = (256 ** L - 1 - u) // p
    k = rng.choice([0, 0, 1, top, rng.bits(8 * L) % (top + 1)])
    return u + k * p


def field_values(rng, cv):
    p = cv.p
    vals = cv.exceptional() + [1, p - 1, 2, p - 2, (p - 1) // 2, (p + 1) // 2]
    return vals


def msg_lines(rng, cv, variants, reps=1):
    out = []
    for v in variants:
        for ln in MSG_LENS:
            for _ in range(reps):
                k = rng.below(4)
                m = bytes(ln) if k == 0 else (b"\xff" * ln if k == 1 else rng.bytes(ln))
                out.append("ep_map %s %s" % (v, hexb(m)))
    return out


def rnd_sswum(rng, cv, count):
    p, L = cv.p, cv.L
    sp = field_values(rng, cv)
    out = []
    pairs = []
    for u in sp:                                     # every special value in either position, and in both
        pairs += [(u, rng.bits(300) % p), (rng.bits(300) % p, u), (u, u)]
    ex = cv.exceptional()
    for u in ex:                                     # two different exceptional values
        for w in ex:
            pairs.append((u, w))
    for _ in range(count):
        u = rng.bits(300) % p
        k = rng.below(6)
        if k == 0:
            pairs.append((u, u))                     # doubling in the final addition
        elif k == 1:
            pairs.append((u, (p - u) % p))           # opposite points: the identity
        else:
            pairs.append((u, rng.bits(300) % p))
    for (u0, u1) in pairs:
        b = enc(lift(rng, u0, p, L), L) + enc(lift(rng, u1, p, L), L)
        if rng.chance(1, 6):
            b += rng.bytes(rng.choice([1, 16, 100]))   # longer than required: the surplus is ignored
        out.append("ep_map_rnd " + hexb(b))
    # extreme representatives and wrong lengths
    out.append("ep_map_rnd " + hexb(b"\xff" * (2 * L)))
    out.append("ep_map_rnd " + hexb(bytes(2 * L)))
    for ln in (0, 1, L, 2 * L - 1):
        out.append("ep_map_rnd " + hexb(rng.bytes(ln)))
    return out


def rnd_basic(rng, cv, count):
    p, L = cv.p, cv.L
    out = []
    xs = [0, 1, p - 1, p - 2, p - 3] + [rng.bits(300) % p for _ in range(count)]
    # abscissae with g(x) = 0 (a point of order two would be needed) or g(x) a non-square: the loop has to move on
    for x in xs:
        out.append("ep_map_rnd " + hexb(enc(lift(rng, x, p, L), L)))
    for ln in (0, 1, L - 1, L + 1, 2 * L, 100, 200, 263, 264, 265, 272, 300):
        out.append("ep_map_rnd " + hexb(rng.bytes(ln)))
    out.append("ep_map_rnd " + hexb(b"\xff" * L))
    out.append("ep_map_rnd " + hexb(b"\xff" * 264))
    return out


def rnd_swift(rng, cv, count):
    p, L, b = cv.p, cv.L, cv.b
    out = []
    trip = []
    r = lambda: rng.bits(300) % p
    for s in (0, 1):
        trip += [(0, r(), s), (r(), 0, s), (0, 0, s), (1, 1, s), (p - 1, p - 1, s), (1, p - 1, s)]
        # u^3 + b + t^2 = 0
        for _ in range(40):
            u = r()
            t = sqrt_mod(-(u * u * u + b), p)
            if t:
                trip += [(u, t, s), (u, p - t, s)]
                break
        # u^3 + b - t^2 = 0 (X = 0)
        for _ in range(40):
            u = r()
            t = sqrt_mod(u * u * u + b, p)
            if t:
                trip.append((u, t, s))
                break
    for _ in range(count):
        trip.append((r(), r(), rng.below(2)))
    for (u, t, s) in trip:
        last = (rng.below(128) << 1) | s
        out.append("ep_map_rnd " + hexb(enc(lift(rng, u, p, L), L) + enc(lift(rng, t, p, L), L) + bytes([last])))
    for ln in (0, 1, 2 * L, 2 * L + 2, 2 * L + 3, 200, 528, 529, 530, 531, 600):
        out.append("ep_map_rnd " + hexb(rng.bytes(ln)))
    return out


CVS = {}      # (cfg, id) -> Cv
EXES = {}     # cfg -> oracle path


def _exe(ctx, cfg):
    if cfg not in EXES:
        EXES[cfg] = ctx.oracle(cfg, defs=DEFS, sources=SOURCES, tag="_map")
    return EXES[cfg]


def curve_info(cfg, cid):
    if (cfg, cid) not in CVS:
        out = subprocess.run([EXES[cfg]], input="ep_map_param %d\n" % cid, stdout=subprocess.PIPE, stderr=subprocess.DEVNULL, text=True,
                             timeout=60).stdout
        kv = dict(t.split("=", 1) for t in out.split()[1:] if "=" in t)
        CVS[(cfg, cid)] = Cv(kv) if "p" in kv else None
    return CVS[(cfg, cid)]


def streams(ctx, scale=1):
    quick = ctx.tier == "quick"
    n = (12 if quick else 400) * scale
    res = []
    for cfg, ids in CURVES.items():
        exe = _exe(ctx, cfg)
        lines = ["cfg"]
        again = []
        for cid in ids:
            cv = curve_info(cfg, cid)
            if cv is None:
                continue
            block = []
            if cfg in ("base", "p255", "p381"):
                block += msg_lines(ctx.rng, cv, ["map", "basic", "sswum", "swift"], 1 if quick else 4)
                block += rnd_sswum(ctx.rng, cv, n)
            elif cfg == "map-basic":
                block += msg_lines(ctx.rng, cv, ["map"], 1)[:: (3 if quick else 1)]
                block += rnd_basic(ctx.rng, cv, n)
            else:
                block += msg_lines(ctx.rng, cv, ["map"], 1)[:: (3 if quick else 1)]
                block += rnd_swift(ctx.rng, cv, n)
            # determinism: the same line again at the end of the block, and once more after the other curves
            rep = [ctx.rng.choice(block) for _ in range(4)]
            lines += ["ep_map_param %d" % cid] + block + rep
            again += ["ep_map_param %d" % cid] + rep
        res.append({"name": "map-" + cfg, "cfg": cfg, "exe": exe, "lines": lines + again})
    return res + eb_streams(ctx, scale) + ed_streams(ctx, scale) + ep2_streams(ctx, scale)


def group_msgs(rng, op, reps):
    out = []
    for ln in MSG_LENS:
        for _ in range(reps):
            k = rng.below(4)
            m = bytes(ln) if k == 0 else (b"\xff" * ln if k == 1 else rng.bytes(ln))
            out.append("%s %s" % (op, hexb(m)))
    return out


def eb_streams(ctx, scale=1):
    reps = (1 if ctx.tier == "quick" else 12) * scale
    res = []
    for cfg, ids in EB_CURVES.items():
        exe = _exe(ctx, cfg)
        lines, again = ["cfg"], []
        for cid in ids:
            block = group_msgs(ctx.rng, "eb_map", reps)
            rep = [ctx.rng.choice(block) for _ in range(2)]
            lines += ["eb_map_param %d" % cid] + block + rep
            again += ["eb_map_param %d" % cid] + rep
        res.append({"name": "eb-" + cfg, "cfg": cfg, "exe": exe, "lines": lines + again})
    return res


# curves over Fp2: (id, twist type); the type is the one for which the driver's check psi(G) = [p]G of the context line holds
EP2_CURVES = {"base": [(23, "D"), (24, "M")], "p381": [(30, "M")]}     # BN_P256, SM9_P256, B12_P381
ED_CURVES = {"p255": [1]}     # CURVE_ED25519 (the only Edwards parameter set; FP_PRIME = 255)


def ed_streams(ctx, scale=1):
    rng = ctx.rng
    reps = (1 if ctx.tier == "quick" else 12) * scale
    res = []
    for cfg, ids in ED_CURVES.items():
        exe = _exe(ctx, cfg)
        lines = ["cfg"]
        for cid in ids:
            out = subprocess.run([exe], input="ed_map_param %d\n" % cid, stdout=subprocess.PIPE, stderr=subprocess.DEVNULL, text=True,
                                 timeout=60).stdout
            kv = dict(t.split("=", 1) for t in out.split()[1:] if "=" in t)
            if "p" not in kv:
                continue
            p, J = int(kv["p"], 16), int(kv["c3"], 16)
            block = group_msgs(rng, "ed_map", reps)
            # explicit domain separation tags: empty, one byte, the library's own, the longest admissible, too long
            for dl in (0, 1, 5, 16, 254, 255, 256, 300):
                for ln in (0, 3, 64, 129):
                    dst = b"RELIC" if dl == 5 else rng.bytes(dl)
                    block.append("ed_map_dst %s %s" % (hexb(rng.bytes(ln)), hexb(dst)))
            # the map from a field element: 0, +-1, values sent to the exceptional points of the Montgomery -> Edwards map
            # (s = -1: 1 + 2u^2 = J; t = 0: g(x) = 0), representatives >= p
            us = [0, 1, p - 1, 2, p - 2, (p - 1) // 2, (p + 1) // 2]
            r = sqrt_mod((J - 1) * pow(2, -1, p), p)
            if r is not None:
                us += [r, p - r]
            r = sqrt_mod((-J - 1) * pow(2, -1, p) % p, p)     # x2 = -x1 - J = -1
            if r is not None:
                us += [r, p - r]
            us += [rng.bits(300) % p for _ in range(20 * reps)]
            for u in us:
                block.append("ed_ell2 %x" % (u + rng.choice([0, 0, p, 3 * p])))
            # u = 0 is sent to (s, t) = (0, 0) when -J is a non-square: the exceptional point of the rational map; every representative
            for k in (0, 1, 2, 5, 1 << 64):
                block.append("ed_ell2 %x" % (k * p))
            rep = [rng.choice(block) for _ in range(4)]
            lines += ["ed_map_param %d" % cid] + block + rep
        res.append({"name": "ed-" + cfg, "cfg": cfg, "exe": exe, "lines": lines})
    return res


def ep2_streams(ctx, scale=1):
    rng = ctx.rng
    quick = ctx.tier == "quick"
    res = []
    for cfg, ids in EP2_CURVES.items():
        exe = _exe(ctx, cfg)
        lines, again = ["cfg"], []
        for (cid, tw) in ids:
            block = []
            for v in ("map", "sswum", "basic"):
                b = group_msgs(rng, "ep2_map " + v, (1 if quick else 6) * scale)
                block += b if v != "sswum" or not quick else b[::3]
            rep = [rng.choice(block) for _ in range(3)]
            lines += ["ep2_map_param %d %s" % (cid, tw)] + block + rep
            again += ["ep2_map_param %d %s" % (cid, tw)] + rep
        res.append({"name": "ep2-" + cfg, "cfg": cfg, "exe": exe, "lines": lines + again})
    return res


def search_streams(ctx, mfail):
    return streams(ctx, scale=4)


def replay_streams(ctx, rp):
    cfg = rp.get("config", "base")
    return [{"name": "replay", "cfg": cfg, "exe": _exe(ctx, cfg), "lines": ["cfg"] + rp.get("context_lines", []) + rp.get("op_lines", [])}]


def nontrivial(r):
    return not r["line"].split(" ")[0].endswith("_param") and not r["got"].startswith("err") and not r["got"].startswith("inf")


def matches_finding(f, r):
    pred = f.get("pred")
    t = r["line"].split()
    v = r.get("verdict", "")
    if pred == "sswu_z_exceptional":
        # ep_curve_set_map accepts a Z with g(B/(Z*A)) non-square: the context line reports it, and the inputs with Z^2u^4+Zu^2 = 0 leave the curve
        if t[0] == "ep_map_param":
            return "g(B/(Z*A)) is not a square" in v
        if t[0] == "ep_map_rnd" and "sswu-exceptional" in v and r.get("context") and r.get("cfg") in EXES:
            cv = curve_info(r["cfg"], int(r["context"].split()[1]))
            return cv is not None and cv.sswu and not cv.crit4()
        return False
    if pred == "swift_exceptional":
        return t[0] == "ep_map_rnd" and "swift-exceptional" in v
    return False
