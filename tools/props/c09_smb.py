"""C09 extension (Smb family): generators for the modelled functions (bn_smb_jac, bn_is_prime_rabin)."""
from props.bngen import hx, magnitude, signed

TRUSTED = [
    "class A (Model/NtSmb.lean, executed on every `nt_smb jac` line): bn_smb_jac - the error test, t0 = a mod b, the outer loop with the "
    "one-digit approximations (lzcnt normalisation, the `z > w/2` branch as coded, half-digit masks), the w/2-2 matrix steps with "
    "two's-complement wrap of the cofactors, the combination / truncating shift / sign repairs, and the exact single-digit loop. "
    "PROVED for all inputs: the single-digit loop computes Mathlib's jacobiSym for every n and every odd d (smb_jac_single_exact), hence "
    "the whole function for every odd positive b < 2^w (smb_jac_exact_partial). NOT proved: model = jacobiSym when b has several digits "
    "(the multi-digit reduction is compared with the textbook Jacobi symbol on the presented lines only), and termination of the outer loop "
    "(fuel 2(bits a mod b + bits b) + 64; the driver prints model-fuel-exhausted if it ever ran out: never observed)",
    "class A (Model/NtSmbPrime.lean, executed on every `nt_prime rabin` line): bn_is_prime_rabin decision logic - early exits, number of "
    "bases from the bit length, n-1 = 2^s r, bases = first entries of primes[], early acceptance when a base reaches n-1, squaring loop with "
    "its exit conditions; bn_mxp modelled as the mathematical power (powMod proved = b^e mod n). PROVED: every prime is accepted "
    "(prime_rabin_complete). Rejection of composites is NOT a theorem (false for a fixed set of bases: a strong pseudoprime to all the bases "
    "used is accepted); it is decided on the presented corpus only (class C), ground truth as before (deterministic Miller-Rabin below 2^80, "
    "supplied factor for larger composites, well-known primes - NIST/SEC field primes and Mersenne primes - marked P)",
    "bn_smb_jac, additionally PROVED: the cofactor matrix of the approximation loop never wraps (entries within +-2^(w/2-2)) and has "
    "determinant +-2^(w/2-2) (smb_jac_inner_matrix); the approximation words carry the exact low half digit (smb_jac_approx_low); for one outer "
    "iteration on a true pair with odd t1 both combinations ai*t0+bi*t1, ci*t0+di*t1 are EXACTLY divisible by 2^s and the quotients agree with the "
    "final approximation words modulo 4, the next t1 is odd (smb_jac_combination_exact, general step form smb_jac_inner_true: agreement modulo "
    "2^(w/2-j) after j steps, i.e. at least 3 exact low bits whenever a t update is made); the sign repair identity (smb_jac_sign_repair). "
    "STILL OPEN for multi-digit b: that the true pair is never negative in BOTH components at a swap (the reciprocity update with signed residues "
    "is right exactly then), the assembly of the per-iteration Jacobi invariant, and termination",
    "class A (Model/NtSmbPrime2.lean + the 512-entry table Model/NtSmbPrimeTab.lean transcribed from the C text; executed on every "
    "`nt_prime basic` / `nt_prime prime` line): bn_is_prime_basic (a = 1 rejected, trial division by the whole table of the build: 512 entries "
    "for w = 64, 48 for w = 8, `t == 0 && a != p`; negative and zero inputs as coded) and bn_is_prime (basic, then rabin). PROVED: every prime "
    "is accepted by both (prime_basic_complete, prime_isprime_complete); a rejection by bn_is_prime_basic exhibits a proper divisor "
    "(prime_basic_reject_sound). Acceptance of composites by trial division is within its documented contract (spec column admits 0 and 1)",
    "bn_is_prime_solov: the 100 bases come from the random generator (not modelled here); the model takes the base list and the symbol function "
    "as PARAMETERS; PROVED: every prime n > 2 is accepted for every list of bases in (0, n) provided the symbol function returns the Jacobi symbol "
    "(prime_solov_complete; unconditional with the bn_smb_jac model for n < 2^w: prime_solov_complete_one_digit; for longer n the hypothesis is "
    "the open smb_jac_exact). Driver: model column = 1 for prime inputs (by the theorem), for odd composites the model column is the implementation's "
    "answer and only the specification judges (class C); a <= 2 and even a stay with the old case",
    "the P token marks well-known primes (NIST/SEC field primes, Mersenne primes) and three Proth primes k*2^n+1 whose witnesses "
    "a^((N-1)/2) = -1 mod N were recomputed when the generator was written",
    "bn_smb_leg, prime generation: unchanged by this family",
]

# the whole base table of the WSIZE=8 build (first 48 primes); at most 27 are ever used as bases
TABLE = [2, 3, 5, 7, 11, 13, 17, 19, 23, 29, 31, 37, 41, 43, 47, 53, 59, 61, 67, 71, 73, 79, 83, 89, 97, 101, 103, 107, 109, 113, 127, 131,
         137, 139, 149, 151, 157, 163, 167, 173, 179, 181, 191, 193, 197, 199, 211, 223]
ABOVE = [227, 229, 233, 239, 241, 251, 257, 263, 269, 271]

# well-known primes with their bit lengths spread over the rows of the test-count table
KNOWN_PRIMES = [
    (1 << 89) - 1, (1 << 107) - 1, (1 << 127) - 1,
    (1 << 160) - (1 << 31) - 1,                                    # secp160r1 p   (160 bits: 18 bases)
    (1 << 192) - (1 << 64) - 1,                                    # P-192         (192: 18)
    (1 << 224) - (1 << 96) + 1,                                    # P-224         (224: 15)
    (1 << 255) - 19,                                               # Curve25519    (255: 12)
    (1 << 256) - (1 << 224) + (1 << 192) + (1 << 96) - 1,          # P-256         (256: 12)
    (1 << 384) - (1 << 128) - (1 << 96) + (1 << 32) - 1,           # P-384         (384: 8)
    (1 << 448) - (1 << 224) - 1,                                   # Ed448         (448: 7)
    (1 << 521) - 1,                                                # P-521         (521: 6)
    (1 << 607) - 1,                                                # M607          (607: 5)
    (1 << 1279) - 1,                                               # M1279         (1279: 3)
    # Proth primes k*2^n + 1 (k < 2^n) proved prime by Proth's theorem: a^((N-1)/2) = -1 mod N for the witness a given
    223 * (1 << 892) + 1,                                          # 900 bits (a = 3): 3 bases; n - 1 = 2^892 * 223: the longest squaring loop
    501 * (1 << 992) + 1,                                          # 1001 bits (a = 5): 3 bases
    87 * (1 << 1302) + 1,                                          # 1309 bits (a = 11): 2 bases (only if the precision allows)
]

CORPUS = (["nt_smb jac %s %s" % (hx(a), hx(b)) for (a, b) in
           [(0, 1), (1, 1), (5, 1), (-3, 1), (0, 3), (1, 3), (2, 3), (3, 3), (-1, 3), (2, 5), (2, 7), (2, 9), (2, 15), (2, 17), (-1, 5), (-1, 7),
            (6, 9), (4, 9), (3, 9), (5, 0), (5, 2), (5, -3), (5, -4), (0, 0), (1001, 9907), (19, 45), (8, 21), (5, 21)]] +
          ["nt_prime rabin %s" % hx(v) for v in [-7, -2, 0, 1, 2, 3, 4, 5, 6, 7, 8, 9]])


def _fit(v, w, digs):
    """keep |v| within digs digits"""
    lim = digs * w
    if abs(v).bit_length() > lim:
        v = (abs(v) >> (abs(v).bit_length() - lim)) * (1 if v > 0 else -1)
    return v


def _odd_b(rng, w, digs):
    """odd positive modulus, shapes: one / two / many digits; top digit 1 (lzcnt = w-1: the z > w/2 branch), small top digit, top bit set,
    all ones, 2^w +- 1, prescribed residue mod 8"""
    B = 1 << w
    k = rng.below(14)
    if k == 0:
        b = rng.choice([1, 3, 5, 7, 9, 15, B - 1, B + 1, B * B - 1, B * B + 1, B // 2 + 1, B // 2 - 1, B + 3, 2 * B - 1, 2 * B + 1])
    elif k == 1:
        b = rng.bits(w)
    elif k == 2:
        b = rng.bits(2 * w)
    elif k == 3:        # top digit exactly 1
        n = 1 + rng.below(max(1, digs - 1))
        b = (1 << (n * w)) | rng.bits(n * w)
    elif k == 4:        # small top digit: more leading zeros than half a digit
        n = 1 + rng.below(max(1, digs - 1))
        b = ((1 + rng.bits(1 + rng.below(w // 2 - 1))) << (n * w)) | rng.bits(n * w)
    elif k == 5:        # top bit set (z = 0)
        n = 1 + rng.below(digs)
        b = (1 << (n * w - 1)) | rng.bits(n * w - 1)
    elif k == 6:        # all ones / sparse
        n = 1 + rng.below(digs)
        b = rng.choice([(1 << (n * w)) - 1, (1 << (n * w - 1)) + 1, (1 << (n * w)) - (1 << (n * w // 2)) - 1])
    elif k == 7:        # second digit zero under a small top digit (the OR-in of dp[i-2] >> z contributes nothing / something)
        n = 2 + rng.below(max(1, digs - 2))
        b = (rng.choice([1, 2, 3]) << (n * w)) | (rng.choice([0, B - 1, rng.bits(w)]) << ((n - 1) * w)) | rng.bits((n - 1) * w)
    else:
        b = magnitude(rng, w, digs)
    b = abs(_fit(b, w, digs)) | 1
    if rng.chance(1, 4):
        b = (b & ~7) | rng.choice([1, 3, 5, 7])
    return b


def gen_jac(rng, w, digs):
    B = 1 << w
    b = _odd_b(rng, w, digs)
    nb = max(1, (b.bit_length() + w - 1) // w)
    k = rng.below(22)
    if k == 0:
        a = rng.choice([0, 1, 2, 4, -1, -2, b - 1, b, b + 1, 2 * b, 3 * b, -b, b * b if 2 * nb <= digs else b, b - 2, (b - 1) // 2, (b + 1) // 2])
    elif k == 1:
        a = rng.below(b)
    elif k == 2:        # a > b, up to the capacity
        a = magnitude(rng, w, digs)
    elif k == 3:        # negative
        a = -magnitude(rng, w, digs) - rng.below(2)
    elif k == 4:        # multiple of b
        a = b * (rng.bits(rng.choice([1, 8, w])) + 1) * rng.choice([1, -1])
    elif k in (5, 6):   # common factor: small / large / equal to b  (result 0)
        g = rng.choice([3, 5, 7, 9, 15, 255, B - 1, B + 1, rng.bits(w) | 1, rng.bits(2 * w) | 1, magnitude(rng, w, max(1, digs // 2)) | 1])
        bb = _odd_b(rng, w, max(1, digs // 2))
        if (g * bb).bit_length() <= digs * w:
            b = g * bb
        else:
            b = g
        a = g * rng.bits(rng.choice([1, 4, w, max(1, b.bit_length() - g.bit_length())]))
        if rng.chance(1, 5):
            a = g
    elif k in (7, 8):   # squares: the symbol is 1 when coprime to b
        x = rng.choice([rng.below(b) + 1, rng.bits(w) + 1, 2, 3])
        a = x * x % b if rng.chance(2, 3) else x * x
    elif k == 9:        # twice / -1 times / power-of-two times a square: isolates (2/b) and (-1/b)
        x = rng.below(b) + 1
        a = rng.choice([2, -1, -2, 1 << rng.below(w + 3)]) * x * x % b
    elif k == 10:       # equal top digits
        a = b - rng.choice([2, 4, rng.bits(max(1, w - 3)) * 2, rng.bits(max(1, (nb - 1) * w)) & ~1])
        if a <= 0:
            a = b - 2 if b > 2 else 0
    elif k == 11:       # a one digit shorter / a tiny against a long b / powers of two
        a = rng.choice([rng.bits(max(1, (nb - 1) * w)), rng.bits(w // 2), 1 << rng.below(max(1, b.bit_length())), (1 << rng.below(max(1, b.bit_length()))) - 1])
    elif k == 12:       # consecutive Fibonacci-like pair (many outer iterations)
        x, y = 1, 1
        for _ in range(rng.below(max(1, digs * w - 2))):
            x, y = y, x + y
        if y % 2 == 0:
            x, y = y, x + y
        if y.bit_length() <= digs * w:
            b = y
        a = x
    elif k == 13:       # half digits extreme: low halves zero / all ones
        m = rng.choice([(1 << (w // 2)) - 1, ((1 << (w // 2)) - 1) << (w // 2)])
        a = 0
        for i in range(nb):
            a |= (rng.bits(w) & m if rng.chance(1, 2) else rng.bits(w) | m) << (i * w)
    else:
        a = rng.bits(rng.choice([b.bit_length(), b.bit_length() + 1, max(1, b.bit_length() - 1), nb * w]))
    a = _fit(a, w, digs)
    if rng.chance(1, 25):
        # invalid second operand: even / negative / zero (error)
        b = rng.choice([b + 1, -b, 0, 2, -b - 1])
    return "nt_smb jac %s %s" % (hx(a), hx(b))


def gen_rabin(rng, w, digs):
    line = _gen_prime_line(rng, w, digs)
    v = rng.choice(["rabin", "rabin", "rabin", "basic", "prime", "prime", "solov"])
    if v == "solov":
        # documented for a > 2 (1 and 2 loop forever; 0 and negative values are outside the contract)
        val = line.split(" ")[2]
        if val.startswith("-") or int(val, 16) <= 2:
            v = "prime"
    return line.replace("nt_prime rabin", "nt_prime " + v, 1)


def _gen_prime_line(rng, w, digs):
    lim = digs * w
    k = rng.below(13)
    if k == 12:
        # long composites with a small factor supplied (>= 850 bits when the precision allows: the rows with 3 bases)
        bits = rng.choice([b for b in (160, 210, 260, 310, 360, 410, 460, 560, 660, 860, 900, 1000, 1020) if b + 8 <= lim])
        f = rng.choice([3, 7, 211, 223, 227, 3671, 3673, 65537])
        v = f * (rng.bits(bits) | (1 << (bits - 1)) | 1)
        return "nt_prime rabin %x C %x" % (v, f)
    if k == 0:
        v = rng.choice(TABLE)
    elif k == 1:
        v = rng.choice(ABOVE + [rng.choice(TABLE) * rng.choice(TABLE), rng.choice(TABLE) ** 2, rng.choice(TABLE) + 1, rng.choice(TABLE) - 1])
    elif k == 2:
        v = rng.bits(rng.choice([3, 5, 8, 9, 12, 16])) | 1
    elif k == 3:
        v = rng.bits(rng.choice([20, 32, 48, 64, 79])) | 1
    elif k == 4:
        v = rng.choice([0, 1, 2, 4, 6, -3, -1, 1 << 16, (1 << 61) - 1, (1 << 31) - 1, (1 << 32) + 1, 1 << 70, rng.bits(64) * 2])
    elif k in (5, 6, 7):
        ps = [p for p in KNOWN_PRIMES if p.bit_length() <= lim]
        p = rng.choice(ps)
        return "nt_prime rabin %x P" % p
    elif k in (8, 9):     # product of two known primes: bit lengths in the other rows of the table; squares
        ps = [p for p in KNOWN_PRIMES + [65537, 4294967311, (1 << 61) - 1]]
        p, q = rng.choice(ps), rng.choice(ps)
        if (p * q).bit_length() > lim:
            p, q = 65537, (1 << 61) - 1
        return "nt_prime rabin %x C %x" % (p * q, p)
    elif k == 10:         # p (2p - 1): strong pseudoprime shapes for few bases; still composite with known factor
        p = rng.choice([7, 31, 37, 271, 331, 661, 1171, 2731, 65537])
        return "nt_prime rabin %x" % (p * (2 * p - 1))
    else:
        # n with n - 1 = 2^s r for a large s (long squaring loop) and for s = 1
        s = rng.choice([1, 2, 5, 16, 30, 60])
        v = ((rng.bits(rng.choice([4, 10, 18])) | 1) << s) + 1
        if v.bit_length() >= 80:
            v = (3 << 60) + 1
    return "nt_prime rabin %s" % hx(v)


def gen(rng, w, cap, digs, n):
    """structured lines for this family (n = budget of random lines; boundary lines come on top)"""
    B = 1 << w
    out = []
    # --- bn_smb_jac: boundary moduli x boundary numerators
    for b in [1, 3, B - 1, B + 1, (1 << (2 * w)) + 1, (1 << w) + 7, (B << w) - 1, 9, 21, 3 * (B + 1)]:
        for a in [0, 1, 2, -1, b - 1, b, b + 1, 3 * b, -b, 4, 3, b // 3 * 3]:
            out.append("nt_smb jac %s %s" % (hx(a), hx(b)))
    for r8 in (1, 3, 5, 7):         # (2/b) and (-1/b) for every residue of b mod 8, one / two / three digits
        for nd in (1, 2, 3):
            b = ((rng.bits(nd * w) | (1 << (nd * w - 1))) & ~7) | r8
            for a in (2, -1, b - 2, 8, -2):
                out.append("nt_smb jac %s %x" % (hx(a), b))
    # --- bn_is_prime_rabin: every prime of the base table, the primes just above, all small odd numbers
    for p in TABLE + ABOVE:
        out.append("nt_prime rabin %x" % p)
        out.append("nt_prime basic %x" % p)
        out.append("nt_prime prime %x" % p)
    for v in range(9, 130, 2):
        out.append("nt_prime rabin %x" % v)
        out.append("nt_prime %s %x" % (rng.choice(["basic", "prime", "solov"]), v))
    # trial division: the last entries of either table, their squares and products, numbers just beyond the table
    for v in [211, 223, 227, 229, 3659, 3671, 3673, 3677, 223 * 223, 223 * 227, 227 * 227, 3671 * 3671, 3671 * 3673, 3673 * 3673, 3673 * 3677,
              211 * 3673, 2 * 3673, 0, 1, 2, -1, -2, -7, -3673]:
        out.append("nt_prime basic %s" % hx(v))
        out.append("nt_prime prime %s" % hx(v))
    for p in KNOWN_PRIMES:
        if p.bit_length() <= digs * w:
            out.append("nt_prime rabin %x P" % p)
            out.append("nt_prime %s %x P" % (rng.choice(["basic", "prime", "solov"]), p))
    nj = n * 7 // 10
    for _ in range(nj):
        out.append(gen_jac(rng, w, digs))
    for _ in range(n - nj):
        out.append(gen_rabin(rng, w, digs))
    return out
