"""C07 — decoding validates untrusted bytes; encoding is canonical and round-trips."""
from props.bngen import hx, magnitude, signed
from props.c01 import _cfg

TRUSTED = [
    "modelled, not verified: util_conv_char's table (the 64-character alphabet is part of the model)",
    "ep2 codec (Model/Ep2Conv.lean): proved — a successful decoding is on the curve, uncompressed decode(encode(P)) = P, the compression bit "
    "separates y from -y; NOT proved — the compressed round trip (needs the field structure of Fp2 and the square-root contract): decided "
    "per presented line, the driver verifies the library's root, decides solvability with the norm and demands that the library's own "
    "re-encoding reproduces the input; every decode runs into three different destination contents (identity, generator, junk)",
]
ASSUMPTIONS = [
    "malformed numerals (a character that is not a digit of the radix) are read up to the first bad character: that is the library's "
    "documented-by-code behaviour and is compared model-vs-implementation only",
]
RULE = ("integers of every length 0..capacity and sign, every radix 2..64 (plus invalid 0,1,65), output buffer lengths size-1, size, size+1, "
        "size+17 and 0, byte strings of every length 0..capacity+9 bytes incl. leading zeros; prime-curve and twist (Fp2) points in both formats "
        "with every kind of damage (tags 0..7/0x80/0xff, coefficients >= p, flipped bits, wrong lengths, tag/length mismatch, other sign), "
        "twist points with y in Fp; non-trivial = distinct line with a non-error result")

ALPHA = "0123456789ABCDEFGHIJKLMNOPQRSTUVWXYZabcdefghijklmnopqrstuvwxyz+/"


def to_str(v, radix):
    n = abs(v)
    if n == 0:
        return "0"
    s = ""
    while n:
        s = ALPHA[n % radix] + s
        n //= radix
    return ("-" if v < 0 else "") + s


def gen_lines(rng, w, cap, digs, n):
    out = []
    for _ in range(n):
        k = rng.below(100)
        md = digs if rng.chance(3, 4) else cap
        if k < 25:
            a = magnitude(rng, w, md)
            size = (a.bit_length() + 7) // 8
            ln = rng.choice([size, size, size + 1, size + 17, max(0, size - 1), 0, size + rng.below(40)])
            out.append("bn_write_bin %d %x" % (ln, a))
        elif k < 50:
            ln = rng.choice([0, 1, w // 8 - 1, w // 8, w // 8 + 1, rng.below(digs * w // 8 + 2), rng.below(cap * w // 8 + 10)])
            b = bytearray(rng.bytes(ln))
            if ln and rng.chance(1, 3):
                for i in range(rng.below(ln) + 1):
                    b[i] = 0           # leading zeros
            if ln and rng.chance(1, 8):
                b = bytearray([0xFF] * ln)
            out.append("bn_read_bin %s" % (b.hex() or "."))
        elif k < 75:
            a = signed(rng, w, md)
            radix = rng.choice([2, 3, 7, 8, 10, 16, 32, 35, 36, 37, 62, 63, 64, 2 + rng.below(63)])
            if rng.chance(1, 30):
                radix = rng.choice([0, 1, 65, 100])
            size = len(to_str(a, radix if 2 <= radix <= 64 else 10)) + 1
            ln = rng.choice([size, size, size + 1, size + 17, max(0, size - 1), 0, 1, 2])
            out.append("bn_write_str %d %s %d" % (ln, hx(a), radix))
        else:
            a = signed(rng, w, md)
            radix = rng.choice([2, 3, 7, 8, 10, 16, 32, 35, 36, 37, 62, 63, 64, 2 + rng.below(63)])
            s = to_str(a, radix)
            if radix < 36 and rng.chance(1, 3):
                s = s.lower()
            if rng.chance(1, 8):
                s = ("-" if a < 0 else "") + "000" + s.lstrip("-")      # leading zeros are legal positional notation
            if rng.chance(1, 12):
                s = "-0"
            if rng.chance(1, 15):    # malformed tail
                s = s + rng.choice(["!", "z", "~", "-", "G"])
            out.append("bn_read_str %d %s" % (radix, s))
    return out


CORPUS = ["bn_write_bin 0 0", "bn_read_bin .", "bn_write_str 2 0 10", "bn_write_str 1 0 10", "bn_read_str 10 -0", "bn_read_str 16 ff",
          "bn_read_str 36 zz", "bn_read_str 36 ZZ", "bn_write_str 4 -ff 16", "bn_write_str 3 -ff 16"]


def enc_lines(rng, cv, n):
    """field / point encodings: a valid stream and a malformed stream (all lengths, every tag byte, coordinates p-1, p, p+1, 2^256-1,
    off-curve (x, y+1), compressed x with non-residue right-hand side)"""
    from props.c03 import ptok, point
    out = []
    nb = (cv.p.bit_length() + 7) // 8
    pool = [cv.mul(cv.g, rng.bits(256) % cv.n) for _ in range(4)]
    for _ in range(n):
        k = rng.below(100)
        P = point(rng, cv, pool)
        if k < 20:
            pack = rng.below(2)
            size = 1 if P is None else (nb + 1 if pack else 2 * nb + 1)
            ln = rng.choice([size, size, size, size + 1, size + 17, max(0, size - 1), 0, 1])
            out.append("ep_write_bin %d %d %s" % (ln, pack, ptok(rng, cv, P, "P")))
        elif k < 45:     # honest encodings read back
            if P is None:
                out.append("ep_read_bin 00")
            elif rng.chance(1, 2):
                out.append("ep_read_bin 04%0*x%0*x" % (2 * nb, P[0], 2 * nb, P[1]))
            else:
                out.append("ep_read_bin %02x%0*x" % (rng.choice([2, 3]), 2 * nb, P[0]))
        elif k < 60:     # every tag byte at each valid length
            tag = rng.below(256)
            x, y = P if P is not None else cv.g
            ln = rng.choice([1, nb + 1, 2 * nb + 1])
            body = "" if ln == 1 else ("%0*x" % (2 * nb, x) if ln == nb + 1 else "%0*x%0*x" % (2 * nb, x, 2 * nb, y))
            out.append("ep_read_bin %02x%s" % (tag, body))
        elif k < 75:     # out-of-range / off-curve coordinates
            x, y = P if P is not None else cv.g
            j = rng.below(6)
            if j == 0:
                x = rng.choice([cv.p, cv.p + 1, (1 << (8 * nb)) - 1, x + cv.p if x + cv.p < (1 << (8 * nb)) else cv.p])
            elif j == 1:
                y = rng.choice([cv.p, cv.p + 1, (1 << (8 * nb)) - 1, y + cv.p if y + cv.p < (1 << (8 * nb)) else cv.p])
            elif j == 2:
                y = (y + 1) % cv.p
            elif j == 3:
                x = rng.bits(8 * nb) % cv.p
            elif j == 4:
                y = (-y) % cv.p
            if rng.chance(2, 3):
                out.append("ep_read_bin 04%0*x%0*x" % (2 * nb, x, 2 * nb, y))
            else:
                out.append("ep_read_bin %02x%0*x" % (rng.choice([2, 3]), 2 * nb, x))
        elif k < 85:     # wrong lengths
            ln = rng.choice([0, 2, nb, nb + 2, 2 * nb, 2 * nb + 2, 2 * nb + 3, rng.below(2 * nb + 4)])
            b = bytearray(rng.bytes(ln))
            if ln:
                b[0] = rng.choice([0, 2, 3, 4])
            out.append("ep_read_bin %s" % (bytes(b).hex() or "."))
        elif k < 93:
            v = rng.choice([0, 1, cv.p - 1, cv.p, cv.p + 1, (1 << (8 * nb)) - 1, rng.bits(8 * nb)])
            ln = rng.choice([nb, nb, nb, nb - 1, nb + 1, 0])
            h = ("%0*x" % (2 * ln, v % (1 << (8 * ln)))) if ln else "."
            out.append("fp_read_bin %s" % h)
        else:
            out.append("fp_write_bin %d %x" % (rng.choice([nb, nb, nb - 1, nb + 1, 0]), rng.bits(8 * nb) % cv.p))
    return out


def cbrt_f2(f, c, rnd):
    """cube root in Fp2 = Fp[u]/(u^2 - qnr), None if c is not a cube"""
    p = f.p
    q = p * p

    def fpow(a, e):
        r = (1, 0)
        while e:
            if e & 1:
                r = f.mul(r, a)
            a = f.mul(a, a)
            e >>= 1
        return r
    if c == (0, 0):
        return c
    if (q - 1) % 3 != 0:
        return fpow(c, pow(3, -1, q - 1))
    if fpow(c, (q - 1) // 3) != (1, 0):
        return None
    s, m = 0, q - 1
    while m % 3 == 0:
        s += 1
        m //= 3
    r0 = fpow(c, pow(3, -1, m))
    z = f.mul(f.mul(f.mul(r0, r0), r0), f.inv(c))      # r0^3 / c lies in the 3-Sylow subgroup
    while True:
        g = (rnd.below(p), rnd.below(p))
        if g != (0, 0) and fpow(g, (q - 1) // 3) != (1, 0):
            break
    h = fpow(g, m)
    w = (1, 0)
    for _ in range(3 ** s):
        if f.mul(f.mul(w, w), w) == z:
            return f.mul(r0, f.inv(w))
        w = f.mul(w, h)
    return None


def y_in_fp_points(rng, cv, n):
    """points of the twist whose y-coordinate lies in Fp (second coefficient zero): the sign of such a y is the sign of its first
    coefficient; needs a = 0 (x^3 = y^2 - b solved by a cube root in Fp2)"""
    pts = []
    if cv.a != (0, 0):
        return pts
    tries = 0
    while len(pts) < n and tries < 40 * n:
        tries += 1
        y0 = 1 + rng.below(cv.p - 1)
        x = cbrt_f2(cv.f, cv.f.sub((y0 * y0 % cv.p, 0), cv.b), rng)
        if x is not None:
            pts.append((x, (y0, 0)))
            pts.append((x, (cv.p - y0, 0)))
    return pts


def enc2_lines(rng, cv, exe, cid, n):
    import props.c11 as c11
    p = cv.p
    nb = (p.bit_length() + 7) // 8
    half = (p - 1) // 2
    pool = [cv.g, cv.mul(cv.g, 2), cv.mul(cv.g, cv.n - 1)] + [cv.mul(cv.g, 1 + rng.below(cv.n - 1)) for _ in range(6)]
    pool += c11.outside_points(exe, cid, cv, rng, 4)
    special = y_in_fp_points(rng, cv, 3)
    pool += special

    def sign(y):
        return int(y[0] > half) if y[1] == 0 else int(y[1] > half)

    def enc(P, pack):
        if P is None:
            return "00"
        (x, y) = P
        if pack:
            return "%02x%0*x%0*x" % (2 + sign(y), 2 * nb, x[0], 2 * nb, x[1])
        return "04%0*x%0*x%0*x%0*x" % (2 * nb, x[0], 2 * nb, x[1], 2 * nb, y[0], 2 * nb, y[1])

    out = []
    for P in special:                         # always presented, in both formats
        out.append("e2wb %d 1 %s" % (2 * nb + 1, c11.ptok(rng, cv, P, None)))
        out.append("e2rb " + enc(P, True))
        out.append("e2rb " + enc(P, False))
    # elements of Fp2: round trip in the packed (unitary elements, FB+1 bytes) and the plain format; arbitrary strings
    for _ in range(max(n // 4, 12)):
        a0, a1 = rng.bits(8 * nb) % p, rng.bits(8 * nb) % p
        if rng.chance(1, 8):
            a0, a1 = rng.choice([(1, 0), (p - 1, 0), (0, 1), (0, 0), (a0, 0), (0, a1)])
        out.append("f2rt %x %x %d" % (a0, a1, rng.below(3) > 0))
        k = rng.below(6)
        if k == 0:
            out.append("f2rb %0*x%0*x" % (2 * nb, rng.choice([a0, p, p - 1, (1 << (8 * nb)) - 1]), 2 * nb, rng.choice([a1, p, p + 1, 0])))
        elif k < 4:      # packed form with every kind of parity byte; a0 decodable for about half
            out.append("f2rb %0*x%02x" % (2 * nb, rng.choice([a0, a0, a0, 1, p - 1, p, 0]), rng.choice([0, 1, 0, 1, 2, 3, 0x80, 0xff])))
        else:
            ln = rng.choice([0, 1, nb - 1, nb, nb + 2, 2 * nb - 1, 2 * nb + 1, 3 * nb])
            out.append("f2rb " + (rng.bytes(ln).hex() or "."))
    for _ in range(n):
        k = rng.below(100)
        P = rng.choice(pool + [None])
        if k < 30:
            pack = rng.below(2)
            need = 1 if P is None else (2 * nb + 1 if pack else 4 * nb + 1)
            ln = rng.choice([need, need, need, need - 1, need + 1, 0, 1, 2 * nb + 1, 4 * nb + 1, 4 * nb + 9])
            out.append("e2wb %d %d %s" % (max(ln, 0), pack, c11.ptok(rng, cv, P, rng.choice([None, None, "P", "J"]))))
        elif k < 55:
            out.append("e2rb " + enc(P, rng.below(2)))
        else:
            # malformed: every kind of damage the property names
            pack = rng.below(2)
            if P is None:
                P = cv.g
            h = bytearray.fromhex(enc(P, pack))
            kind = rng.below(9)
            if kind == 0:
                h[0] = rng.choice([0, 1, 2, 3, 4, 5, 6, 7, 0x80, 0xff])
            elif kind == 1:                    # a coordinate coefficient >= p
                j = rng.below(2 if pack else 4)
                v = rng.choice([p, p + 1, (1 << (8 * nb)) - 1])
                h[1 + j * nb:1 + (j + 1) * nb] = v.to_bytes(nb, "big")
            elif kind == 2:                    # off the curve / another x (non-square right-hand side for half of them)
                j = 1 + rng.below(len(h) - 1)
                h[j] ^= 1 << rng.below(8)
            elif kind == 3:                    # wrong length
                ln = rng.choice([0, 1, 2, nb, 2 * nb, 2 * nb + 2, 3 * nb + 1, 4 * nb, 4 * nb + 2, 6 * nb + 1])
                h = (h + bytearray(rng.bytes(6 * nb + 1)))[:ln]
            elif kind == 4:                    # compressed tag on an uncompressed-length string and vice versa
                full = bytearray.fromhex(enc(P, 0))
                h = full if rng.below(2) else bytearray.fromhex(enc(P, 1))
                h[0] = rng.choice([2, 3]) if len(h) == 4 * nb + 1 else 4
            elif kind == 5:                    # random x: decodable for about half
                h = bytearray([rng.choice([2, 3])]) + bytearray((rng.bits(8 * nb) % p).to_bytes(nb, "big")) + \
                    bytearray((rng.bits(8 * nb) % p).to_bytes(nb, "big"))
            elif kind == 6:                    # the other sign bit: valid, another point
                if pack:
                    h[0] ^= 1
            elif kind == 7:                    # lone non-zero byte / lone zero byte
                h = bytearray([rng.choice([0, 0, 1, 2, 4, 0xff])])
            else:                              # negated y in the uncompressed form: valid
                if not pack:
                    y0 = int.from_bytes(h[1 + 2 * nb:1 + 3 * nb], "big")
                    y1 = int.from_bytes(h[1 + 3 * nb:1 + 4 * nb], "big")
                    h[1 + 2 * nb:1 + 3 * nb] = ((p - y0) % p).to_bytes(nb, "big")
                    h[1 + 3 * nb:1 + 4 * nb] = ((p - y1) % p).to_bytes(nb, "big")
            out.append("e2rb " + (bytes(h).hex() or "."))
    return out



def fb_str_lines(rng, m, n):
    """text and byte forms of binary-field elements (src/fb/relic_fb_util.c): every radix the interface admits (2, 4, …, 64) and the ones it
    must refuse, zero / one / top-bit / maximal elements, buffer lengths around the advertised size, numerals that are too long, carry a
    sign, contain a digit >= radix, or are empty; byte strings with coefficients at or above z^m"""
    out = []
    nb = (m + 7) // 8
    alpha = "0123456789ABCDEFGHIJKLMNOPQRSTUVWXYZabcdefghijklmnopqrstuvwxyz+/"
    def txt(v, radix):
        if v == 0:
            return "0"
        s = ""
        while v:
            s = alpha[v % radix] + s
            v //= radix
        return s
    vals = [0, 1, 2, 0x3f, 0x40, (1 << m) - 1, 1 << (m - 1), (1 << (m - 1)) | 1, 1 << 64, (1 << 64) - 1]
    for radix in (2, 4, 8, 16, 32, 64):
        for v in vals + [rng.bits(m) for _ in range(2)]:
            t = txt(v, radix)
            for ln in (len(t) + 1, len(t), len(t) + 9, 0, 1, 2):
                out.append("fb_wstr %d %x %d" % (ln, v, radix))
            out.append("fb_rstr %d %s" % (radix, t))
        out.append("fb_rstr %d %s" % (radix, txt(1 << m, radix)))                  # one bit too long
        out.append("fb_rstr %d %s" % (radix, txt((1 << (m + 70)) | 5, radix)))     # far too long
        out.append("fb_rstr %d -%s" % (radix, txt(5, radix)))                        # a sign is not part of the notation
        out.append("fb_rstr %d %s" % (radix, alpha[radix] if radix < 64 else "*")) # digit = radix
        out.append("fb_rstr %d %s" % (radix, "1" + (alpha[radix] if radix < 64 else "*") + "1"))
        out.append('fb_rstr %d ""' % radix)
    for radix in (0, 1, 3, 10, 36, 62, 65, 128, 256):
        out.append("fb_wstr 400 %x %d" % (rng.bits(m), radix))
        out.append("fb_wstr 400 0 %d" % radix)
        out.append("fb_rstr %d 101" % radix)
    for _ in range(n):
        radix = rng.choice([2, 4, 8, 16, 32, 64])
        v = rng.bits(rng.choice([1, 8, 63, 64, 65, m - 1, m]))
        t = txt(v, radix)
        out.append("fb_wstr %d %x %d" % (rng.choice([len(t) + 1, len(t) + 1, len(t), len(t) + 2, rng.below(len(t) + 3)]), v, radix))
        out.append("fb_rstr %d %s" % (radix, t if rng.chance(3, 4) else t.lower()))
    for v in (0, 1, (1 << m) - 1, 1 << m, (1 << (8 * nb)) - 1, (1 << (8 * nb - 1)), rng.bits(m), rng.bits(8 * nb) | (1 << m)):
        for ln in (nb, nb - 1, nb + 1, 0):
            out.append("fb_rbin %s" % (("%0*x" % (2 * ln, v % (1 << (8 * ln)))) if ln else "."))
        out.append("fb_wbin %d %x" % (nb, v % (1 << m)))
    return out


def streams(ctx, scale=1):
    n = (2500 if ctx.tier == "quick" else 80000) * scale
    res = []
    # field and point encodings on every curve of the base configuration
    import props.c03 as c03
    exe = c03._exe(ctx, "base")
    lines = ["cfg"]
    for cid in c03.CURVES["base"]:
        kv = c03.curve_info(exe, cid)
        if "p" not in kv:
            continue
        lines.append("ep_param %d" % cid)
        lines += enc_lines(ctx.rng, c03.Cv(kv), (250 if ctx.tier == "quick" else 8000) * scale)
    res.append({"name": "enc-base", "cfg": "base", "exe": exe, "lines": lines})
    # point encodings of the twist over Fp2 on both pairing curves (ep2_write_bin / ep2_read_bin, ep2_pck / ep2_upk)
    import props.c11 as c11
    exe2 = c11._exe(ctx, "base")
    lines = ["cfg"]
    for cid in c11.CURVES.get("base") or c11.pairing_ids(exe2):
        kv = c11.info(exe2, cid)
        if "p" not in kv:
            continue
        cv = c11.Cv2(kv)
        lines.append("ep2_param %d" % cid)
        lines += enc2_lines(ctx.rng, cv, exe2, cid, (120 if ctx.tier == "quick" else 4000) * scale)
    res.append({"name": "enc-ep2-base", "cfg": "base", "exe": exe2, "lines": lines})
    # binary-field elements: text form in every radix and byte form (src/fb/relic_fb_util.c is one of the anchored files)
    import props.c16 as c16
    exe_fb = c16._exe(ctx, "base")
    lines = ["cfg"]
    for fid in c16.FIELDS["base"]:
        kv = c16._info(exe_fb, "fb_param %d" % fid)
        lines.append("fb_param %d" % fid)
        if "m" in kv:
            lines += fb_str_lines(ctx.rng, int(kv["m"]), (40 if ctx.tier == "quick" else 2000) * scale)
    res.append({"name": "enc-fb-base", "cfg": "base", "exe": exe_fb, "lines": lines})
    for cfg in ("base", "w8"):
        exe = ctx.oracle(cfg)
        hdr, kv = _cfg(exe)
        lines = ["cfg"] + CORPUS + gen_lines(ctx.rng, kv["w"], kv["size"], kv["digs"], n)
        res.append({"name": "conv-" + cfg, "cfg": cfg, "exe": exe, "lines": lines})
    return res


def search_streams(ctx, mfail):
    return streams(ctx, scale=4)


def replay_streams(ctx, rp):
    cfg = rp.get("config", "base")
    if rp.get("context_lines") and rp["context_lines"][-1].startswith("fb_param"):
        import props.c16 as c16
        return [{"name": "replay", "cfg": cfg, "exe": c16._exe(ctx, cfg), "lines": ["cfg"] + rp["context_lines"] + rp.get("op_lines", [])}]
    if rp.get("context_lines"):
        import props.c03 as c03
        return [{"name": "replay", "cfg": cfg, "exe": c03._exe(ctx, cfg), "lines": ["cfg"] + rp["context_lines"] + rp.get("op_lines", [])}]
    return [{"name": "replay", "cfg": cfg, "exe": ctx.oracle(cfg), "lines": ["cfg"] + rp.get("op_lines", [])}]


def nontrivial(r):
    return not r["got"].startswith("err")


def matches_finding(f, r):
    return False
