"""C07 — decoding validates untrusted bytes; encoding is canonical and round-trips."""
from props.bngen import hx, magnitude, signed
from props.c01 import _cfg

TRUSTED = [
    "modelled, not verified: util_conv_char's table (the 64-character alphabet is part of the model)",
]
ASSUMPTIONS = [
    "malformed numerals (a character that is not a digit of the radix) are read up to the first bad character: that is the library's "
    "documented-by-code behaviour and is compared model-vs-implementation only",
]
RULE = ("integers of every length 0..capacity and sign, every radix 2..64 (plus invalid 0,1,65), output buffer lengths size-1, size, size+1, "
        "size+17 and 0, byte strings of every length 0..capacity+9 bytes incl. leading zeros; non-trivial = distinct line with a non-error result")

ALPHA = "0123456789ABCDEFGHIJKLMNOPQRSTUVWXYZabcdefghijklmnopqrstuvwxyz+/"


def to_str(v, radix):
    n = abs(v)
    if n == 0:
        return "0"
    s = ""
    while n:
        s = ALPHA[n % radix] + s
        n //= radix
    return ("-" if v < 0 else "") + s


def gen_lines(rng, w, cap, digs, n):
    out = []
    for _ in range(n):
        k = rng.below(100)
        md = digs if rng.chance(3, 4) else cap
        if k < 25:
            a = magnitude(rng, w, md)
            size = (a.bit_length() + 7) // 8
            ln = rng.choice([size, size, size + 1, size + 17, max(0, size - 1), 0, size + rng.below(40)])
            out.append("bn_write_bin %d %x" % (ln, a))
        elif k < 50:
            ln = rng.choice([0, 1, w // 8 - 1, w // 8, w // 8 + 1, rng.below(digs * w // 8 + 2), rng.below(cap * w // 8 + 10)])
            b = bytearray(rng.bytes(ln))
            if ln and rng.chance(1, 3):
                for i in range(rng.below(ln) + 1):
                    b[i] = 0           # leading zeros
            if ln and rng.chance(1, 8):
                b = bytearray([0xFF] * ln)
            out.append("bn_read_bin %s" % (b.hex() or "."))
        elif k < 75:
            a = signed(rng, w, md)
            radix = rng.choice([2, 3, 7, 8, 10, 16, 32, 35, 36, 37, 62, 63, 64, 2 + rng.below(63)])
            if rng.chance(1, 30):
                radix = rng.choice([0, 1, 65, 100])
            size = len(to_str(a, radix if 2 <= radix <= 64 else 10)) + 1
            ln = rng.choice([size, size, size + 1, size + 17, max(0, size - 1), 0, 1, 2])
            out.append("bn_write_str %d %s %d" % (ln, hx(a), radix))
        else:
            a = signed(rng, w, md)
            radix = rng.choice([2, 3, 7, 8, 10, 16, 32, 35, 36, 37, 62, 63, 64, 2 + rng.below(63)])
            s = to_str(a, radix)
            if radix < 36 and rng.chance(1, 3):
                s = s.lower()
            if rng.chance(1, 8):
                s = ("-" if a < 0 else "") + "000" + s.lstrip("-")      # leading zeros are legal positional notation
            if rng.chance(1, 12):
                s = "-0"
            if rng.chance(1, 15):    # malformed tail
                s = s + rng.choice(["!", "z", "~", "-", "G"])
            out.append("bn_read_str %d %s" % (radix, s))
    return out


CORPUS = ["bn_write_bin 0 0", "bn_read_bin .", "bn_write_str 2 0 10", "bn_write_str 1 0 10", "bn_read_str 10 -0", "bn_read_str 16 ff",
          "bn_read_str 36 zz", "bn_read_str 36 ZZ", "bn_write_str 4 -ff 16", "bn_write_str 3 -ff 16"]


def enc_lines(rng, cv, n):
    """field / point encodings: a valid stream and a malformed stream (all lengths, every tag byte, coordinates p-1, p, p+1, 2^256-1,
    off-curve (x, y+1), compressed x with non-residue right-hand side)"""
    from props.c03 import ptok, point
    out = []
    nb = (cv.p.bit_length() + 7) // 8
    pool = [cv.mul(cv.g, rng.bits(256) % cv.n) for _ in range(4)]
    for _ in range(n):
        k = rng.below(100)
        P = point(rng, cv, pool)
        if k < 20:
            pack = rng.below(2)
            size = 1 if P is None else (nb + 1 if pack else 2 * nb + 1)
            ln = rng.choice([size, size, size, size + 1, size + 17, max(0, size - 1), 0, 1])
            out.append("ep_write_bin %d %d %s" % (ln, pack, ptok(rng, cv, P, "P")))
        elif k < 45:     # honest encodings read back
            if P is None:
                out.append("ep_read_bin 00")
            elif rng.chance(1, 2):
                out.append("ep_read_bin 04%0*x%0*x" % (2 * nb, P[0], 2 * nb, P[1]))
            else:
                out.append("ep_read_bin %02x%0*x" % (rng.choice([2, 3]), 2 * nb, P[0]))
        elif k < 60:     # every tag byte at each valid length
            tag = rng.below(256)
            x, y = P if P is not None else cv.g
            ln = rng.choice([1, nb + 1, 2 * nb + 1])
            body = "" if ln == 1 else ("%0*x" % (2 * nb, x) if ln == nb + 1 else "%0*x%0*x" % (2 * nb, x, 2 * nb, y))
            out.append("ep_read_bin %02x%s" % (tag, body))
        elif k < 75:     # out-of-range / off-curve coordinates
            x, y = P if P is not None else cv.g
            j = rng.below(6)
            if j == 0:
                x = rng.choice([cv.p, cv.p + 1, (1 << (8 * nb)) - 1, x + cv.p if x + cv.p < (1 << (8 * nb)) else cv.p])
            elif j == 1:
                y = rng.choice([cv.p, cv.p + 1, (1 << (8 * nb)) - 1, y + cv.p if y + cv.p < (1 << (8 * nb)) else cv.p])
            elif j == 2:
                y = (y + 1) % cv.p
            elif j == 3:
                x = rng.bits(8 * nb) % cv.p
            elif j == 4:
                y = (-y) % cv.p
            if rng.chance(2, 3):
                out.append("ep_read_bin 04%0*x%0*x" % (2 * nb, x, 2 * nb, y))
            else:
                out.append("ep_read_bin %02x%0*x" % (rng.choice([2, 3]), 2 * nb, x))
        elif k < 85:     # wrong lengths
            ln = rng.choice([0, 2, nb, nb + 2, 2 * nb, 2 * nb + 2, 2 * nb + 3, rng.below(2 * nb + 4)])
            b = bytearray(rng.bytes(ln))
            if ln:
                b[0] = rng.choice([0, 2, 3, 4])
            out.append("ep_read_bin %s" % (bytes(b).hex() or "."))
        elif k < 93:
            v = rng.choice([0, 1, cv.p - 1, cv.p, cv.p + 1, (1 << (8 * nb)) - 1, rng.bits(8 * nb)])
            ln = rng.choice([nb, nb, nb, nb - 1, nb + 1, 0])
            h = ("%0*x" % (2 * ln, v % (1 << (8 * ln)))) if ln else "."
            out.append("fp_read_bin %s" % h)
        else:
            out.append("fp_write_bin %d %x" % (rng.choice([nb, nb, nb - 1, nb + 1, 0]), rng.bits(8 * nb) % cv.p))
    return out


def streams(ctx, scale=1):
    n = (2500 if ctx.tier == "quick" else 80000) * scale
    res = []
    # field and point encodings on every curve of the base configuration
    import props.c03 as c03
    exe = c03._exe(ctx, "base")
    lines = ["cfg"]
    for cid in c03.CURVES["base"]:
        kv = c03.curve_info(exe, cid)
        if "p" not in kv:
            continue
        lines.append("ep_param %d" % cid)
        lines += enc_lines(ctx.rng, c03.Cv(kv), (250 if ctx.tier == "quick" else 8000) * scale)
    res.append({"name": "enc-base", "cfg": "base", "exe": exe, "lines": lines})
    for cfg in ("base", "w8"):
        exe = ctx.oracle(cfg)
        hdr, kv = _cfg(exe)
        lines = ["cfg"] + CORPUS + gen_lines(ctx.rng, kv["w"], kv["size"], kv["digs"], n)
        res.append({"name": "conv-" + cfg, "cfg": cfg, "exe": exe, "lines": lines})
    return res


def search_streams(ctx, mfail):
    return streams(ctx, scale=4)


def replay_streams(ctx, rp):
    cfg = rp.get("config", "base")
    if rp.get("context_lines"):
        import props.c03 as c03
        return [{"name": "replay", "cfg": cfg, "exe": c03._exe(ctx, cfg), "lines": ["cfg"] + rp["context_lines"] + rp.get("op_lines", [])}]
    return [{"name": "replay", "cfg": cfg, "exe": ctx.oracle(cfg), "lines": ["cfg"] + rp.get("op_lines", [])}]


def nontrivial(r):
    return not r["got"].startswith("err")


def matches_finding(f, r):
    return False
