"""C06 — encryption, key agreement and sharing invert correctly; bad input is rejected."""
import hashlib, itertools, subprocess
from props.c03 import Cv, curve_info

TRUSTED = [
    "specification: Spec/Cp.lean (RSAEP/RSADP, EME-PKCS1-v1_5 and EME-OAEP of RFC 8017, the library's basic layout, Rabin with the "
    "library's redundancy, Benaloh, Paillier with lambda = lcm, Damgard-Jurik with a digit-by-digit discrete logarithm, Paillier's "
    "subgroup scheme, cofactor ECDH + X9.63 KDF with fixed-length field elements, ECMQV, ECIES as the library composes it, Lagrange "
    "interpolation over Z_q, Beaver triples), executed by the compiled Lean driver with the key material the library printed",
    "proved (Lemmas/*C06.lean, abstract algebra over Mathlib): see Props/C06.lean; the theorems are about the mathematical schemes and "
    "the byte-level padding codecs of Spec/Cp.lean / Model/Cp.lean, not about the C text",
    "class C (compared with the specification on the presented lines only): every cp_*/mpc_* function as a whole; the code-shaped models "
    "of Model/Cp.lean (cp_rsa_enc with the modelled DRBG, cp_rsa_dec incl. CRT and the three padding removers - each proved equal to the "
    "byte-level decoder of the standard -, cp_rabin_dec root selection, cp_phpe_dec CRT/plain, mpc_sss_key) are tied to the C functions by "
    "the model column of the correspondence only; Benaloh, "
    "Damgard-Jurik, subgroup Paillier, ECIES/ECDH/ECMQV/Pedersen, triples and RSA-PSI have no separate model (model column = implementation)",
    "'decryption rejects bad input' is decided by the specification's decision procedure on each presented (crafted or mutated) "
    "ciphertext plus the 'unpad accepts only the documented layout' theorems; it is not a theorem about the C code",
    "primality of generated key factors is checked by a strong-probable-prime test to 12 fixed bases in the driver (prime generation is C09)",
    "AES, HMAC, KDF2/MGF1 and SHA-256 are the Lean definitions of C14; the DRBG model of C15 supplies the OAEP seed / PKCS#1 padding string for "
    "the exact-ciphertext model column",
    "pairing-based schemes (cp_ibe, cp_bgn, cp_sokaka, cp_pbpsi, cp_pd*/cp_lv* delegated pairing, g1/g2/gt/pc triples of mpc_pc) and cp_shipsi have no "
    "pairing specification on the Lean side: the oracle evaluates each protocol's own invariant on the implementation's outputs (decrypt(encrypt(m)) = m, "
    "malleability/truncation behaviour of the IBE stream, both SOK parties' keys equal, recombined triple result = the library's direct computation, "
    "delegated result = the library's own pc_map or rejection when one helper message is altered, PSI output = the multiset intersection); "
    "'equal to the value defined by the protocol' is therefore only as strong as the pairing property C04 (class C)",
    "not covered: BGN / delegated-pairing / PSI message mutations beyond one altered helper message, dynamic-allocation builds, curves other than the six "
    "256-bit prime curves of the base configuration (binary and Edwards curves are not selectable for ec_* there), RSA signatures (another property)",
]
ASSUMPTIONS = [
    "the share modulus of Shamir sharing / triples is a prime larger than the number of shares (field assumption of the interpolation theorem)",
    "RSA keys: n = p*q with distinct primes and e*d = 1 mod lcm(p-1, q-1) (checked on every generated key by the driver)",
    "EC points presented to the protocols lie on the curve, in the prime-order group (cofactor 1 on the curves of the base configuration)",
]
RULE = ("per padding scheme (OAEP+CRT, PKCS#1 v1.5 without CRT, basic+CRT) several generated keys with different byte alignments; every "
        "plaintext length 0..max+2 with random / leading-zero / all-00 / all-FF content; every byte position of one honest ciphertext "
        "mutated; crafted encoded messages for every rejection branch; buffer capacities around the required size; wrong-length "
        "ciphertexts; homomorphic pairs below/at/above the wrap; every subset of shares for small (k, n); six curves for the EC protocols "
        "incl. shared x-coordinates with leading zero octets; non-trivial = distinct line with a non-error result")
USES_GENERATED = False

CURVES = [12, 13, 14, 15, 23, 24]   # NIST_P256, BSI_P256, SECG_K256, SM2_P256, BN_P256, SM9_P256
SRC = ("oracle.c", "ops_bn.c", "ops_fp.c", "ops_ep.c", "ops_cp.c", "ops_cp_pc.c")
DEFS = ("ORACLE_FP", "ORACLE_EP", "ORACLE_EXTRA1=ops_cp", "ORACLE_EXTRA2=ops_cp_pc")


def _exe(ctx, cfg="base"):
    return ctx.oracle(cfg, defs=DEFS, sources=SRC, tag="_cp")


def hexs(b):
    return bytes(b).hex() or "."


def ask(exe, lines):
    """runs context lines on the oracle at generation time (the generator needs the key the library draws)"""
    out = subprocess.run([exe], input="\n".join(lines) + "\n", stdout=subprocess.PIPE, stderr=subprocess.DEVNULL, text=True, timeout=120).stdout
    return out.split("\n")


def kvs(s):
    return dict(t.split("=", 1) for t in s.split() if "=" in t)


def seed(rng):
    return "%016x" % rng.bits(64)


def content(rng, n, cls):
    if n == 0:
        return b""
    if cls == 0:
        return rng.bytes(n)
    if cls == 1:
        z = min(n, 1 + rng.below(3))
        return b"\x00" * z + rng.bytes(n - z)
    if cls == 2:
        return b"\xff" * n
    if cls == 3:
        return b"\x00" * n
    return bytes([0x80]) + rng.bytes(n - 1)


def mgf1(seed_, n):
    out = b""
    i = 0
    while len(out) < n:
        out += hashlib.sha256(seed_ + i.to_bytes(4, "big")).digest()
        i += 1
    return out[:n]


def xor(a, b):
    return bytes(x ^ y for x, y in zip(a, b))


LHASH = hashlib.sha256(b"").digest()


# ------------------------------------------------------------------------------------------------------------------
# RSA
class Rsa:
    def __init__(self, kv):
        self.n, self.e, self.d, self.p, self.q = (int(kv[x], 16) for x in ("n", "e", "d", "p", "q"))
        self.pad = int(kv["pad"])
        self.k = (self.n.bit_length() + 7) // 8
        self.ovh = {1: 2, 2: 11, 3: 66}[self.pad]

    def enc_em(self, em):
        return pow(int.from_bytes(em, "big"), self.e, self.n).to_bytes(self.k, "big")


def nz(rng, n):
    return bytes(1 + rng.below(255) for _ in range(n))


def oaep_em(rng, k, msg, seed_=None, lhash=LHASH, y=0, sep=1, ps=None, top_zero=False):
    ps = b"\x00" * (k - len(msg) - 66) if ps is None else ps
    db = lhash + ps + (bytes([sep]) if sep is not None else b"") + msg
    db = db[:k - 33].ljust(k - 33, b"\x00")
    for _ in range(100000):
        s = seed_ if seed_ is not None else rng.bytes(32)
        mdb = xor(db, mgf1(s, k - 33))
        if not top_zero or mdb[0] == 0:
            break
        seed_ = None
    ms = xor(s, mgf1(mdb, 32))
    return bytes([y]) + ms + mdb


def rsa_section(ctx, exe, bits, q):
    rng = ctx.rng
    pl = "rsa_param %d %s" % (bits, seed(rng))
    got = ask(exe, ["cfg", pl])[1]
    lines = [pl]
    if not got.startswith("rsa_param"):
        return lines
    K = Rsa(kvs(got))
    k, ovh = K.k, K.ovh
    mx = k - ovh
    # every plaintext length 0 .. max+2 (beyond the maximum must be refused), content classes rotating
    lens = list(range(0, max(mx, 0) + 3))
    if q and len(lens) > 40:
        lens = sorted(set(lens[:6] + lens[-8:] + lens[6:-8:5]))
    for i, n in enumerate(lens):
        for cls in ([i % 5] if q else [0, 1, 2, 3]):
            lines.append("rsa_enc %s %d %d %s" % (seed(rng), k + rng.choice([0, 0, 7]), k, hexs(content(rng, n, cls))))
    if mx >= 1:
        n0 = max(1, min(mx, 5))
        # capacities around the required sizes
        lines.append("rsa_enc %s %d %d %s" % (seed(rng), k - 1, k, hexs(rng.bytes(n0))))
        lines.append("rsa_enc %s %d %d %s" % (seed(rng), 0, k, hexs(rng.bytes(n0))))
        lines.append("rsa_enc %s %d %d %s" % (seed(rng), k, n0 - 1, hexs(rng.bytes(n0))))
        lines.append("rsa_enc %s %d %d %s" % (seed(rng), k, n0, hexs(rng.bytes(n0))))
        lines.append("rsa_enc %s %d %d %s" % (seed(rng), k, mx, hexs(rng.bytes(mx))))
        # every byte position of one honest ciphertext mutated once
        s, m = seed(rng), hexs(rng.bytes(n0))
        pos = range(k) if not q or k <= 70 else sorted(set([0, 1, k - 1, k - 2] + [rng.below(k) for _ in range(40)]))
        for p in pos:
            lines.append("rsa_enc %s %d %d %s %d %02x" % (s, k, k, m, p, rng.choice([1, 0x80, 1 + rng.below(255)])))
    # wrong-length ciphertexts
    for cl in (0, 1, k - 1, k + 1, 2 * k):
        lines.append("rsa_dec %d %s" % (k, hexs(rng.bytes(cl))))
    lines.append("rsa_dec %d %s" % (k, hexs((K.n).to_bytes(k, "big"))))                       # representative = n
    lines.append("rsa_dec %d %s" % (k, hexs(b"\x00" * k)))
    lines.append("rsa_dec %d %s" % (k, hexs(b"\xff" * k)))
    for _ in range(3 if q else 20):
        lines.append("rsa_dec %d %s" % (k, hexs((rng.bits(8 * k) % K.n).to_bytes(k, "big"))))
    # crafted encoded messages: one line per branch of the padding remover
    if mx >= 1:
        crafted = []
        msg = rng.bytes(max(1, min(mx, 7)))
        if K.pad == 2:
            def em(first=0, typ=2, ps=None, sep=b"\x00", m=msg):
                ps = nz(rng, k - 3 - len(m)) if ps is None else ps
                return (bytes([first, typ]) + ps + sep + m).ljust(k, b"\x01")[:k]
            crafted += [em(), em(first=1), em(typ=0), em(typ=1), em(typ=3), em(sep=b"\x01"), em(m=b"")]
            for psl in range(0, 10):           # PS shorter than 8 octets must be refused; 8 and 9 are fine
                m2 = rng.bytes(k - 3 - psl)
                crafted.append(bytes([0, 2]) + nz(rng, psl) + b"\x00" + m2)
            crafted.append(bytes([0, 2]) + nz(rng, k - 2))                                    # no separator at all
            crafted.append(bytes([0, 2]) + nz(rng, 8) + b"\x00" + b"\x00" * (k - 11))         # message of zero octets
            crafted.append(bytes([0, 2]) + nz(rng, k - 3) + b"\x00")                          # empty message
        elif K.pad == 3:
            crafted += [oaep_em(rng, k, msg), oaep_em(rng, k, msg, y=1), oaep_em(rng, k, msg, lhash=bytes([LHASH[0] ^ 1]) + LHASH[1:]),
                        oaep_em(rng, k, msg, lhash=LHASH[:-1] + bytes([LHASH[-1] ^ 0x80])), oaep_em(rng, k, msg, sep=2),
                        oaep_em(rng, k, b"", sep=None, ps=b"\x00" * (k - 65)),                # no 01 separator
                        oaep_em(rng, k, b"", ps=b"\x00" * (k - 66)),                          # empty message
                        oaep_em(rng, k, rng.bytes(mx), ps=b"")]
            if k - 66 - len(msg) >= 2:
                crafted.append(oaep_em(rng, k, msg, ps=b"\x00" + b"\x02" + b"\x00" * (k - 68 - len(msg))))   # non-zero octet in PS
            # maskedDB with a zero leading octet (probability 1/256 per encryption); the top digit of the library's integer is then shorter
            for _ in range(2):
                crafted.append(oaep_em(rng, k, rng.bytes(max(1, min(mx, 9))), top_zero=True))
        else:
            def bem(lead, marker, m):
                return (b"\x00" * lead + bytes([marker]) + m).rjust(k, b"\x00")[-k:]
            crafted += [bem(1, 0xFF, rng.bytes(k - 2)), bem(3, 0xFF, rng.bytes(k - 4)), bem(1, 0xFE, rng.bytes(k - 2)),
                        bem(1, 0x01, rng.bytes(k - 2)), bytes([1, 0xFF]) + rng.bytes(k - 2), bem(k - 1, 0xFF, b""), b"\x00" * k,
                        bem(2, 0xFF, b"\x00" * (k - 3))]
        for e in crafted:
            if len(e) == k and int.from_bytes(e, "big") < K.n:
                lines.append("rsa_dec %d %s" % (k, hexs(K.enc_em(e))))
                lines.append("rsa_dec %d %s" % (max(0, len(msg) - 1), hexs(K.enc_em(e))))
    if K.pad == 1 and mx >= 4:
        # gcd(m, n) != 1: a message whose encoded form 00 FF D is a multiple of p
        ln = mx
        d0 = (-0xFF * 256 ** ln) % K.p
        for j in range(2 if q else 8):
            d = d0 + j * K.p
            if d < 256 ** ln:
                lines.append("rsa_enc %s %d %d %s" % (seed(rng), k, k, hexs(d.to_bytes(ln, "big"))))
    return lines


# ------------------------------------------------------------------------------------------------------------------
def rabin_section(ctx, exe, bits, q):
    rng = ctx.rng
    pl = "rabin_param %d %s" % (bits, seed(rng))
    got = ask(exe, ["cfg", pl])[1]
    lines = [pl]
    if not got.startswith("rabin_param"):
        return lines
    kv = kvs(got)
    n, p, qq = int(kv["n"], 16), int(kv["p"], 16), int(kv["q"], 16)
    k = (n.bit_length() + 7) // 8
    mx = k - 10
    lens = list(range(0, max(mx, 0) + 3))
    if q and len(lens) > 30:
        lens = sorted(set(lens[:10] + lens[-6:] + lens[10:-6:4]))
    for i, ln in enumerate(lens):
        lines.append("rabin_enc %d %d %s" % (k + rng.choice([0, 3]), k, hexs(content(rng, ln, i % 5))))
    if mx >= 1:
        n0 = min(mx, 9)
        m = hexs(rng.bytes(n0))
        lines += ["rabin_enc %d %d %s" % (k - 1, k, m), "rabin_enc %d %d %s" % (k, n0 - 1, m), "rabin_enc %d %d %s" % (k, n0, m)]
        for pos in (range(k) if not q or k <= 40 else sorted(set([0, k - 1] + [rng.below(k) for _ in range(24)]))):
            lines.append("rabin_enc %d %d %s %d %02x" % (k, k, m, pos, rng.choice([1, 0x80, 1 + rng.below(255)])))

        def blk(x):
            return (x << 64) + (x & ((1 << 64) - 1))

        def ct(b):
            return hexs((b * b % n).to_bytes(k, "big"))
        x = int.from_bytes(b"\xff" + rng.bytes(n0), "big")
        lines.append("rabin_dec %d %s" % (k, ct(blk(x))))                                     # honest, presented directly
        lines.append("rabin_dec %d %s" % (k, ct(blk(int.from_bytes(b"\xfe" + rng.bytes(n0), "big")))))   # redundancy fine, marker wrong
        lines.append("rabin_dec %d %s" % (k, ct(blk(int.from_bytes(b"\x01" + rng.bytes(n0), "big")))))
        lines.append("rabin_dec %d %s" % (k, ct((x << 64) + ((x + 1) & ((1 << 64) - 1)))))    # redundancy broken
        lines.append("rabin_dec %d %s" % (k, ct(blk(0xFF))))                                  # empty message
        lines.append("rabin_dec %d %s" % (k, ct(blk(int.from_bytes(b"\xff" + rng.bytes(mx), "big")))))   # maximal length
        lines.append("rabin_dec %d %s" % (k + 1, "00" + ct(blk(x))))                          # one octet longer
        lines.append("rabin_dec %d %s" % (k, ct(blk(x))[2:]))                                 # one octet shorter
        lines.append("rabin_dec %d %s" % (k, hexs((1).to_bytes(k, "big"))))
        lines.append("rabin_dec %d %s" % (k, hexs(p.to_bytes(k, "big"))))
        lines.append("rabin_dec %d %s" % (k, hexs(rng.bytes(7))))
        # ciphertexts congruent to 0: the root 0 passes the redundancy test and must fail the marker test
        lines.append("rabin_dec %d %s" % (k, hexs(b"\x00" * k)))
        lines.append("rabin_dec %d %s" % (k, hexs(n.to_bytes(k, "big"))))
        for _ in range(3 if q else 30):
            lines.append("rabin_dec %d %s" % (k, hexs((rng.bits(8 * k) % n).to_bytes(k, "big"))))
    return lines


def bdpe_section(ctx, exe, t, bits, q):
    rng = ctx.rng
    pl = "bdpe_param %x %d %s" % (t, bits, seed(rng))
    got = ask(exe, ["cfg", pl])[1]
    lines = [pl]
    if not got.startswith("bdpe_param"):
        return lines
    kv = kvs(got)
    n = int(kv["n"], 16)
    k = (n.bit_length() + 7) // 8
    ms = list(range(0, t + 3)) if t <= 50 or not q else sorted(set([0, 1, 2, t - 2, t - 1, t, t + 1, t + 2] + [rng.below(t) for _ in range(12)]))
    for m in ms:
        lines.append("bdpe_enc %s %d %x" % (seed(rng), k, m))
    lines.append("bdpe_enc %s %d %x" % (seed(rng), k - 1, 1))
    lines.append("bdpe_enc %s %d %x" % (seed(rng), k, (1 << 64) - 1))
    s = seed(rng)
    for pos in sorted(set([0, k - 1] + [rng.below(k) for _ in range(6 if q else 30)])):
        lines.append("bdpe_enc %s %d %x %d %02x" % (s, k, t // 2, pos, 1 + rng.below(255)))
    for a, b in [(0, 0), (t - 1, 1), (t - 1, t - 1), (1, 1), (t // 2, t // 2 + 1)] + [(rng.below(t), rng.below(t)) for _ in range(6 if q else 40)]:
        lines.append("bdpe_add %s %x %s %x" % (seed(rng), a, seed(rng), b))
    for cl in (0, k - 1, k + 1):
        lines.append("bdpe_dec %s" % hexs(rng.bytes(cl)))
    for _ in range(3):
        lines.append("bdpe_dec %s" % hexs((rng.bits(8 * k) % n).to_bytes(k, "big")))
    return lines


def mvals(rng, n, q):
    v = [0, 1, 2, n - 1, n - 2, n // 2, n, n + 1, (1 << n.bit_length()) - 1, 1 << n.bit_length(), 255, 256]
    v += [rng.bits(n.bit_length()) % n for _ in range(4 if q else 40)] + [rng.bits(rng.choice([8, 64, 65])) for _ in range(3)]
    return v


def pairs(rng, n, q):
    pr = [(n - 1, 1), (n - 1, n - 1), (n - 1, 0), (0, 0), (1, 1), (n // 2, n // 2), (n // 2, n // 2 + 1), (n // 2 + 1, n // 2 + 1)]
    for _ in range(5 if q else 60):
        a = rng.bits(n.bit_length()) % n
        pr.append((a, rng.bits(n.bit_length()) % n))
        pr.append((a, n - a))                                   # sum exactly n: wraps to 0
        pr.append((a, (n - a - 1) % n))                         # sum n - 1: the largest value without wrap
    return pr


def phpe_section(ctx, exe, bits, q):
    rng = ctx.rng
    pl = "phpe_param %d %s" % (bits, seed(rng))
    got = ask(exe, ["cfg", pl])[1]
    lines = [pl]
    if not got.startswith("phpe_param"):
        return lines
    kv = kvs(got)
    n, p = int(kv["n"], 16), int(kv["p"], 16)
    for m in mvals(rng, n, q):
        lines.append("phpe_enc %s %x" % (seed(rng), m))
    for a, b in pairs(rng, n, q):
        lines.append("phpe_add %s %x %s %x" % (seed(rng), a, seed(rng), b))
    n2 = n * n
    for c in [1, n + 1, n2 - 1, n2, n2 + n + 1, 1 << (2 * n.bit_length()), (1 << (2 * n.bit_length())) - 1, p, 0] + \
            [rng.bits(2 * n.bit_length()) % n2 for _ in range(4 if q else 40)]:
        lines.append("phpe_dec %x" % c)
    # ciphertexts built by the definition with chosen randomness (r = 1, n - 1, random)
    for r in [1, n - 1, rng.bits(n.bit_length()) % n or 1]:
        m = rng.bits(n.bit_length()) % n
        lines.append("phpe_dec %x" % (pow(1 + n, m, n2) * pow(r, n, n2) % n2))
    return lines


def ghpe_section(ctx, exe, bits, smax, q):
    rng = ctx.rng
    pl = "ghpe_param %d %s" % (bits, seed(rng))
    got = ask(exe, ["cfg", pl])[1]
    lines = [pl]
    if not got.startswith("ghpe_param"):
        return lines
    n = int(kvs(got)["n"], 16)
    for s in range(1, smax + 1):
        ns = n ** s
        for m in [0, 1, n - 1, n, n + 1, ns - 1, ns, ns + 1, ns // 2] + [rng.bits(ns.bit_length()) % ns for _ in range(3 if q else 30)] + [rng.bits(64)]:
            lines.append("ghpe_enc %s %d %x" % (seed(rng), s, m))
        for a, b in [(ns - 1, 1), (ns - 1, ns - 1), (0, 0), (ns // 2, ns // 2 + 1)] + [(rng.bits(ns.bit_length()) % ns, rng.bits(ns.bit_length()) % ns) for _ in range(3 if q else 30)]:
            lines.append("ghpe_add %d %s %x %s %x" % (s, seed(rng), a, seed(rng), b))
        n1 = ns * n
        for c in [1, n + 1, n1 - 1, 1 << ((s + 1) * n.bit_length()), rng.bits(n1.bit_length()) % n1]:
            lines.append("ghpe_dec %d %x" % (s, c))
        m = rng.bits(ns.bit_length()) % ns
        lines.append("ghpe_dec %d %x" % (s, pow(1 + n, m, n1) * pow(rng.bits(64) | 1, ns, n1) % n1))
    return lines


def shpe_section(ctx, exe, sbits, nbits, q):
    rng = ctx.rng
    pl = "shpe_param %d %d %s" % (sbits, nbits, seed(rng))
    got = ask(exe, ["cfg", pl])[1]
    lines = [pl]
    if not got.startswith("shpe_param"):
        return lines
    n = int(kvs(got)["n"], 16)
    for m in mvals(rng, n, q):
        lines.append("shpe_enc %s %s %x" % (rng.choice(["pub", "prv"]), seed(rng), m))
    for a, b in pairs(rng, n, q)[:(12 if q else 100)]:
        lines.append("shpe_add %s %x %s %x" % (seed(rng), a, seed(rng), b))
    lines.append("shpe_dec %x" % (1 << (2 * n.bit_length())))
    lines.append("shpe_dec %x" % (rng.bits(2 * n.bit_length()) % (n * n)))
    return lines


# ------------------------------------------------------------------------------------------------------------------
P256N = 0xffffffff00000000ffffffffffffffffbce6faada7179e84f3b9cac2fc632551
ORDERS = [7, 251, 65537, (1 << 61) - 1, P256N, (1 << 127) - 1]


def mpc_lines(ctx, q):
    rng = ctx.rng
    lines = []
    # every subset (as an ordered selection) of the shares for small (k, n)
    for (k, n) in [(2, 2), (2, 3), (3, 3), (2, 4), (3, 4), (4, 4), (3, 5), (5, 5), (4, 6)]:
        for order in ([251, P256N] if q else ORDERS[1:]):
            secret = rng.choice([0, 1, order - 1, order, order + 5, rng.bits(order.bit_length()) % order])
            subs = []
            for r in range(1, n + 1):
                for comb in itertools.combinations(range(1, n + 1), r):
                    comb = list(comb)
                    if rng.chance(1, 2):
                        comb.reverse()
                    subs.append(".".join(map(str, comb)))
            for i in range(0, len(subs), 28):
                lines.append("sss %s %x %x %d %d %s" % (seed(rng), order, secret, k, n, " ".join(subs[i:i + 28])))
    # thresholds the interface refuses, larger parameters with sampled subsets
    for (k, n) in [(1, 1), (1, 5), (0, 3), (3, 2), (5, 4)]:
        lines.append("sss %s %x %x %d %d 1" % (seed(rng), 251, 42, k, n))
    for (k, n) in [(2, 24), (8, 12), (12, 12), (7, 20), (24, 24), (6, 6)] + ([] if q else [(10, 20), (16, 24), (23, 24)]):
        for order in [251, (1 << 61) - 1, P256N]:
            subs = []
            for sz in sorted(set([max(1, k - 1), k, min(n, k + 1), n])):
                for _ in range(2):
                    idx = list(range(1, n + 1))
                    for i in range(n - 1, 0, -1):
                        j = rng.below(i + 1)
                        idx[i], idx[j] = idx[j], idx[i]
                    subs.append(".".join(map(str, idx[:sz])))
            lines.append("sss %s %x %x %d %d %s" % (seed(rng), order, rng.bits(order.bit_length() + 3), k, n, " ".join(subs)))
    lines.append("sss %s 7 3 3 6 1.2.3 4.5.6 1.3.5.6 1.2" % seed(rng))
    # reconstruction from presented points: abscissae that are not 1..n, in any order
    for order in ORDERS:
        for cnt in [2, 3, 5] + ([] if q else [8, 16, 24]):
            if cnt >= order:
                continue
            xs = set()
            while len(xs) < cnt:
                xs.add(1 + rng.below(order - 1))
            coeffs = [rng.bits(order.bit_length()) % order for _ in range(cnt)]
            pts = ["%x:%x" % (x, sum(c * pow(x, i, order) for i, c in enumerate(coeffs)) % order) for x in xs]
            lines.append("sss_key %x %s" % (order, " ".join(pts)))
            lines.append("sss_key %x %s" % (order, " ".join(pts[:-1])) if cnt > 2 else "sss_key %x %s" % (order, pts[0]))
    lines.append("sss_key fb")
    for order in ORDERS:
        for _ in range(4 if q else 40):
            v = [rng.choice([0, 1, order - 1, rng.bits(order.bit_length()) % order]) for _ in range(4)]
            lines.append("mt %s %x %x %x %x %x" % (seed(rng), order, v[0], v[1], v[2], v[3]))
    # RSA-based private set intersection
    for bits in ([256] if q else [256, 512]):
        cases = [([1, 2, 3], [2, 3, 4, 5]), ([], [2, 3]), ([1, 2], []), ([7, 7], [7, 3]), ([5], [5]), ([1, 2, 3], [4, 5, 6]),
                 ([9, 8, 7, 6], [6, 7, 8, 9]), ([0, 1], [1, 0, 0])]
        for _ in range(2 if q else 20):
            pool = [rng.bits(rng.choice([8, 64, 200])) for _ in range(8)]
            cases.append(([rng.choice(pool) for _ in range(rng.below(6))], [rng.choice(pool) for _ in range(rng.below(6))]))
        for xs, ys in cases:
            lines.append("rsapsi %s %d %d %s %d %s" % (seed(rng), bits, len(xs), ",".join("%x" % x for x in xs) or "-",
                                                       len(ys), ",".join("%x" % y for y in ys) or "-"))
    return lines


# ------------------------------------------------------------------------------------------------------------------
def sqrt_mod(a, p):
    """Tonelli-Shanks"""
    a %= p
    if a == 0:
        return 0
    if pow(a, (p - 1) // 2, p) != 1:
        return None
    if p % 4 == 3:
        return pow(a, (p + 1) // 4, p)
    qq, s = p - 1, 0
    while qq % 2 == 0:
        qq //= 2
        s += 1
    z = 2
    while pow(z, (p - 1) // 2, p) != p - 1:
        z += 1
    m, c, t, r = s, pow(z, qq, p), pow(a, qq, p), pow(a, (qq + 1) // 2, p)
    while t != 1:
        i, t2 = 0, t
        while t2 != 1:
            t2 = t2 * t2 % p
            i += 1
        b = pow(c, 1 << (m - i - 1), p)
        m, c, t, r = i, b * b % p, t * b * b % p, r * b % p
    return r


def small_x_point(rng, cv, zero_bytes):
    """a curve point whose x-coordinate has `zero_bytes` leading zero octets"""
    nb = (cv.p.bit_length() + 7) // 8
    while True:
        x = rng.bits(8 * (nb - zero_bytes) - rng.below(3))
        y = sqrt_mod(x * x * x + cv.a * x + cv.b, cv.p)
        if y is not None and x > 0:
            return (x, y if rng.chance(1, 2) else (-y) % cv.p)


def ptok(P):
    return "inf" if P is None else "%x,%x" % P


def ec_lines(ctx, cv, q):
    rng = ctx.rng
    n = cv.n
    out = []
    sc = [1, 2, 3, n - 1, n - 2, n // 2, rng.bits(256) % n, rng.bits(256) % n, rng.bits(128), n + 5, 2 * n - 1]
    for i in range(8 if q else 60):
        out.append("ecdh %x %x %d" % (rng.choice(sc), rng.choice(sc), rng.choice([0, 1, 16, 31, 32, 33, 64, 100])))
    out += ["ecdh 0 5 16", "ecdh %x 7 32" % n, "ecdh 1 1 32", "ecdh %x %x 32" % (n - 1, n - 1)]
    for op in ("ecdh_gen", "ecmqv_gen", "ecies_gen"):
        for _ in range(2 if q else 10):
            out.append("%s %s" % (op, seed(rng)))
    # shared secrets whose x-coordinate has leading zero octets: Q = d^-1 * P for a chosen P
    for zb in ([1, 2] if q else [1, 1, 2, 3, 8, 31]):
        P = small_x_point(rng, cv, zb)
        d = rng.bits(256) % n or 1
        Q = cv.mul(P, pow(d, -1, n))
        out.append("ecdh_key %x %s %d" % (d, ptok(Q), rng.choice([16, 32])))
    out.append("ecdh_key %x inf 16" % (rng.bits(200)))
    out.append("ecdh_key %x %s 16" % (n, ptok(cv.g)))
    for i in range(5 if q else 40):
        out.append("ecmqv %x %x %x %x %d" % tuple([rng.choice(sc[:9]) for _ in range(4)] + [rng.choice([1, 16, 32, 48])]))
    # ECIES: all plaintext lengths around the block boundaries, content classes, capacities, every octet mutated, truncations
    d = rng.bits(256) % n or 1
    lens = [0, 1, 15, 16, 17, 31, 32, 33, 47, 48] if q else list(range(0, 66))
    for i, ln in enumerate(lens):
        need = 16 * (ln // 16 + 1) + 32
        out.append("ecies %s %x %d %d %s" % (seed(rng), rng.choice([d, 1, n - 1]), need + rng.choice([0, 0, 9]), need, hexs(content(rng, ln, i % 5))))
    ln = 20
    need = 16 * (ln // 16 + 1) + 32
    m = hexs(rng.bytes(ln))
    for cap, dcap in [(need - 1, need), (need - 32, need), (31, need), (0, need), (need, 19), (need, 20), (need, 31), (need, 32)]:
        out.append("ecies %s %x %d %d %s" % (seed(rng), d, cap, dcap, m))
    s = seed(rng)
    for pos in (range(need) if not q else sorted(set([0, 15, 16, 31, 32, need - 1] + [rng.below(need) for _ in range(10)]))):
        out.append("ecies %s %x %d %d %s %d %02x" % (s, d, need, need, m, pos, rng.choice([1, 0x80, 1 + rng.below(255)])))
    for tl in ([need - 1, need - 16, 48, 33, 32] if q else list(range(32, need))):
        out.append("ecies %s %x %d %d %s t %d" % (s, d, need, need, m, tl))
    # shorter than the tag: cannot be a ciphertext
    for tl in ([0, 1, 31] if q else range(0, 32)):
        out.append("ecies %s %x %d %d %s t %d" % (s, d, need, need, m, tl))
    # decryption of presented values: wrong recipient key, wrong R
    R = cv.mul(cv.g, rng.bits(256) % n or 1)
    out.append("ecies_dec %x %s 64 %s" % (d, ptok(R), hexs(rng.bytes(64))))
    out.append("ecies_dec %x %s 64 %s" % (d, ptok(R), hexs(rng.bytes(32))))
    # Pedersen commitments
    for x, r, hk in [(1, 0, 1), (n - 1, n - 1, 2), (0, 5, 7), (n, 5, 7), (n + 1, 5, 7), (5, 6, 0), (5, 0, 7), (rng.bits(256) % n or 1, rng.bits(256) % n, rng.bits(256) % n or 1)]:
        out.append("ped %x %x %x" % (x, r, hk))
    for _ in range(2 if q else 20):
        out.append("ped %x %x %x" % (rng.bits(256) % n or 1, rng.bits(256) % n, rng.bits(256) % n or 1))
    return out


# ------------------------------------------------------------------------------------------------------------------
CVS = {}


def pc_lines(ctx, q):
    """pairing-based protocols and the size-hiding PSI (invariants checked on the implementation's outputs)"""
    rng = ctx.rng
    out = []

    def ident(n):
        return bytes(1 + rng.below(255) for _ in range(n)).hex()
    # Boneh-Franklin IBE: every plaintext length 0..34, content classes, capacities, every octet mutated, truncations, wrong identity
    for i, ln in enumerate(range(0, 35) if not q else [0, 1, 2, 15, 16, 31, 32, 33, 34]):
        out.append("ibe %s %s %d %d %s" % (seed(rng), ident(1 + rng.below(12)), 200, 200, hexs(content(rng, ln, i % 5))))
    idh, m, s = ident(5), rng.bytes(20), seed(rng)
    for cap, dcap in [(84, 200), (85, 200), (64, 200), (0, 200), (200, 19), (200, 20)]:
        out.append("ibe %s %s %d %d %s" % (s, idh, cap, dcap, hexs(m)))
    for pos in (range(85) if not q else sorted(set([0, 1, 32, 33, 64, 65, 84] + [rng.below(85) for _ in range(8)]))):
        out.append("ibe %s %s 200 200 %s %d %02x" % (s, idh, hexs(m), pos, rng.choice([1, 0x80, 1 + rng.below(255)])))
    for tl in ([0, 1, 64, 65, 66, 84] if q else range(0, 85)):
        out.append("ibe %s %s 200 200 %s t %d" % (s, idh, hexs(m), tl))
    out.append("ibe %s %s 200 200 %s w %s" % (s, idh, hexs(m), ident(5)))
    out.append("ibe %s %s 200 200 %s w %s" % (s, idh, hexs(m), idh + "01"))
    # BGN: level-1 decryptions, products and sums of products of small values (decryption is a bounded search)
    for a, b, c, d in [(0, 0, 0, 0), (1, 1, 0, 5), (0, 9, 3, 0), (7, 11, 13, 2), (40, 40, 1, 1)] + [tuple(rng.below(30) for _ in range(4)) for _ in range(2 if q else 20)]:
        out.append("bgn %s %x %x %x %x" % (seed(rng), a, b, c, d))
    # SOK: identity pairs incl. equal, prefix, same-length, order swapped
    a, b = ident(5), ident(5)
    for ia, ib in [(a, b), (b, a), (a, a), (a, a + "41"), (a + "41", a), (a[:2], a), ("41", "42"), ("42", "41"), (ident(1), ident(40)), (ident(64), ident(63))]:
        out.append("sok %s %s %s %d" % (seed(rng), ia, ib, rng.choice([16, 32, 1, 64, 0])))
    # set intersection: pairing-based (sets of scalars) and size-hiding factoring-based
    cases = [([1, 2, 3], [2, 3, 4, 5]), ([], [2, 3]), ([1, 2], []), ([7, 7], [7, 3]), ([5], [5]), ([5], [6]), ([1, 2, 3], [4, 5, 6]),
             ([9, 8, 7, 6], [6, 7, 8, 9]), ([0, 1], [1, 0, 0]), ([1, 2], [2])]
    for _ in range(2 if q else 20):
        pool = [rng.bits(rng.choice([8, 64, 200])) for _ in range(6)]
        cases.append(([rng.choice(pool) for _ in range(rng.below(6))], [rng.choice(pool) for _ in range(rng.below(6))]))
    for xs, ys in cases:
        args = (len(xs), ",".join("%x" % x for x in xs) or "-", len(ys), ",".join("%x" % y for y in ys) or "-")
        out.append("pbpsi %s %d %s %d %s" % ((seed(rng),) + args))
        out.append("shipsi %s %d %d %s %d %s" % ((seed(rng), rng.choice([256, 512])) + args))
    # delegated pairing: honest helper, then each helper message altered in turn
    for v, n in (("pdpub", 3), ("lvpub", 2), ("pdprv", 4), ("lvprv", 3)):
        for _ in range(2 if q else 10):
            out.append("pcdel %s %s -1" % (v, seed(rng)))
        for t in range(n):
            out.append("pcdel %s %s %d" % (v, seed(rng), t))
    # triples in G1 / G2 / GT and pairing triples: scalar shares incl. 0, wrap of the sum
    n = 0xffffffffffffffffffffffffffffffffffffffffffffffffffffffffffffffff
    for v in ("g1", "g2", "gt", "pc"):
        for k0, k1 in [(0, 0), (1, 0), (5, 7), (rng.bits(250), rng.bits(250)), (rng.bits(256), rng.bits(256))][:(3 if q else 5)]:
            out.append("mpcpc %s %s %x %x" % (v, seed(rng), k0, k1))
    return out


def int_stream(ctx, cfg, q, scale):
    exe = _exe(ctx, cfg)
    lines = ["cfg"]
    if cfg == "cp-basic":
        # regression: a seed for which cp_rsa_gen draws p = 1 mod 65537 (e not invertible modulo phi)
        lines.append("rsa_param 44 1125d9")
    rsa_bits = {"base": [1024, 784, 536, 520], "cp-pkcs1": [1024, 512, 96, 80], "cp-basic": [1024, 256, 64, 24], "cp-2048": [2048, 1040]}[cfg]
    if not q:
        rsa_bits = rsa_bits + {"base": [768, 976, 600], "cp-pkcs1": [768, 264, 160], "cp-basic": [512, 40], "cp-2048": [1536]}[cfg]
    for _ in range(scale):
        for bits in rsa_bits:
            lines += rsa_section(ctx, exe, bits, q)
        big = cfg == "cp-2048"
        for bits in ([1024, 2048] if big else [512, 256] + ([] if q else [384, 168])):
            lines += rabin_section(ctx, exe, bits, q)
        for t, bits in ([(0x2f, 1024)] if big else [(3, 256), (0x2f, 512), (0xfb, 512)] + ([] if q else [(5, 128), (0x3fd, 512)])):
            lines += bdpe_section(ctx, exe, t, bits, q)
        # n^(s+1) has to fit the configured precision (BN_PRECI bits): 2*bits <= BN_PRECI for Paillier, (s+1)*bits for Damgard-Jurik
        for bits in ([1024, 768] if big else [512, 256] + ([] if q else [128, 384])):
            lines += phpe_section(ctx, exe, bits, q)
        if cfg in ("base", "cp-2048"):
            for bits, smax in ([(512, 3), (1024, 1)] if big else [(256, 3), (128, 5)]):
                lines += ghpe_section(ctx, exe, bits, smax, q)
        for sb, nb in ([(256, 1024)] if big else [(128, 512), (64, 256)]):
            lines += shpe_section(ctx, exe, sb, nb, q)
    return {"name": "cp-int-" + cfg, "cfg": cfg, "exe": exe, "lines": lines}


def streams(ctx, scale=1):
    q = ctx.tier == "quick"
    res = []
    for cfg in (["base", "cp-pkcs1", "cp-basic"] + ([] if q else ["cp-2048"])):
        res.append(int_stream(ctx, cfg, q, scale))
    exe = _exe(ctx, "base")
    lines = ["cfg"]
    for _ in range(scale):
        lines += mpc_lines(ctx, q)
    res.append({"name": "cp-mpc", "cfg": "base", "exe": exe, "lines": lines})
    lines = ["cfg"]
    for _ in range(scale):
        lines += pc_lines(ctx, q)
    res.append({"name": "cp-pc", "cfg": "base", "exe": exe, "lines": lines})
    lines = ["cfg"]
    for cid in CURVES:
        kv = curve_info(exe, cid)
        if "p" not in kv:
            continue
        CVS[cid] = Cv(kv)
        lines.append("ep_param %d" % cid)
        for _ in range(scale):
            lines += ec_lines(ctx, CVS[cid], q)
    res.append({"name": "cp-ec", "cfg": "base", "exe": exe, "lines": lines})
    return res


def search_streams(ctx, mfail):
    return streams(ctx, scale=2)


def replay_streams(ctx, rp):
    cfg = rp.get("config", "base")
    return [{"name": "replay", "cfg": cfg, "exe": _exe(ctx, cfg), "lines": ["cfg"] + rp.get("context_lines", []) + rp.get("op_lines", [])}]


def nontrivial(r):
    g = r["got"]
    return not g.startswith("err") and not g.endswith("m=err") and not g.startswith("CRASH")


def matches_finding(f, r):
    pred = f.get("pred")
    v, g, op = r["verdict"], r["got"], r["line"].split(" ")[0]
    tags = v.rsplit("] ", 1)[-1].split(",") if v.startswith("FAIL") else []
    if pred == "ecdh_x_leading_zero":
        return op in ("ecdh", "ecdh_key", "ecmqv") and ("ecdh.x-leading-zero" in tags or "ecmqv.x-leading-zero" in tags) and "err" not in g
    return False
