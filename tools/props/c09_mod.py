"""C09 extension (Mod family): generators for the modelled functions (bn_srt, bn_mod_barrt, bn_mod_monty_*, bn_mod_pmers)."""
from props.bngen import hx, magnitude, signed

TRUSTED = [
    "class A (Model/NtMod.lean, value level over the C01 digit layer, executed by the driver on every nt_srt / nt_mod line with the model's "
    "prediction in the model column; proved in Lemmas/NtMod*.lean, theorems in Props/C09Mod.lean): bn_srt (binary search as coded; srt_exact: "
    "= Nat.sqrt for every a >= 0 within the supplied fuel; error for a < 0); bn_mod_pre_barrt + bn_mod_barrt (early exit, long-operand "
    "fallback, truncated difference with wrap-around, correction loop, negative operands as repaired by 060ee71; mod_barrt_exact: = a mod m in [0, m) for EVERY integer a, m > 0, w >= 2; "
    "mod_barrt_corrections_le: at most 2 corrections); bn_mod_pre_monty (Newton iteration with the compiled number of steps; "
    "pre_monty_exact for 4 <= w <= 64), bn_mod_monty_basic / _comba / bn_mod_monty / _back as REDC (mod_monty_exact, monty_back_exact: "
    "canonical r with r*R = a mod m for 0 <= a < m*R), bn_mod_monty_conv (monty_conv_exact); bn_mod_pre_pmers + bn_mod_pmers "
    "(mod_pmers_exact: = a mod m in [0, m) for EVERY integer a and EVERY m > 0; mod_pmers_fold_terminates; mod_pmers_neg spells out the negative case)",
    "Mod family, value-level abstraction: bn_muld_low / bn_modn_low / bn_mula_low are not modelled digit by digit (the code's `mu` lower limit "
    "is always 0, the upper limit is a truncation mod B^(k+1)); Montgomery reduction outside its contract (a < 0, a >= m*R, more than 2k "
    "digits) is mirrored by the model but not judged by the spec column; negative operands of bn_mod_barrt / bn_mod_pmers (|a| < m, negative "
    "multiples of m and their neighbours) are presented in every run since the repair 060ee71 of findings/C09-ext-mod-1",
]
CORPUS = ["nt_srt 0", "nt_srt 1", "nt_srt 2", "nt_srt 3", "nt_srt 4", "nt_srt -1", "nt_srt -4"]


def _clip(v, w, digs):
    return v % (1 << (w * digs))


def gen_srt(rng, w, cap, digs, n):
    out = []
    B = 1 << w
    fixed = [0, 1, 2, 3, 4, 5, 8, 9, 15, 16, 17, B - 1, B, B + 1, B * B - 1, B * B, B * B + 1, (1 << (w * digs)) - 1, 1 << (w * digs - 1),
             1 << (w * digs - 2), (B - 1) ** 2, (B - 1) ** 2 - 1, (B - 1) ** 2 + 2 * (B - 1)]
    for k in range(0, 2 * w + 3):                       # powers of two (odd and even exponents) and 2^k - 1 around the digit boundaries
        fixed += [1 << k, (1 << k) - 1, (1 << k) + 1]
    out += ["nt_srt %x" % v for v in fixed]
    for _ in range(n):
        j = rng.below(8)
        md = max(1, digs // 2)
        if j == 0:
            k = rng.below(w * digs)
            a = (1 << k) + rng.choice([-1, 0, 0, 1])
        elif j in (1, 2, 3):                             # r^2, r^2 +- 1, (r+1)^2 - 1
            r = rng.choice([magnitude(rng, w, md), rng.bits(rng.below(w * md) + 1), (1 << (rng.below(w * md) + 1)) - 1,
                            1 << rng.below(w * md)])
            a = r * r + rng.choice([-1, 0, 1, 2 * r, 2 * r - 1, 2 * r + 1])
        elif j == 4:                                     # digit boundary values
            k = 1 + rng.below(digs)
            a = (1 << (w * k)) + rng.choice([-2, -1, 0, 1]) if k < digs else (1 << (w * k)) - 1 - rng.below(2)
        elif j == 5:
            a = rng.below(1 << (1 + rng.below(2 * w)))   # one / two digits, uniform
        else:
            a = magnitude(rng, w, digs)
        a = _clip(max(a, 0), w, digs)
        out.append("nt_srt %x" % a)
    out += ["nt_srt -%x" % (1 + magnitude(rng, w, digs)) for _ in range(3)]
    return out


def _used(v, w):
    return max(1, (abs(v).bit_length() + w - 1) // w)


def barrt_path(a, m, w):
    """mirror of Model.NtMod.modBarrt for a >= m > 0 (used to steer the generator towards every branch): (wrap, corrections) or None"""
    k = _used(m, w)
    if a < m or _used(a, w) > 2 * k:
        return None
    u = (1 << (2 * k * w)) // m
    q3 = ((a >> ((k - 1) * w)) * u) >> ((k + 1) * w)
    X = 1 << ((k + 1) * w)
    t = a % X - (q3 * m) % X
    wrap = t < 0
    if wrap:
        t += X
    return wrap, t // m


def barrt_modulus(rng, w, k):
    B = 1 << w
    P = B ** (k - 1)
    j = rng.below(9)
    if j == 0:
        return P if k > 1 else rng.choice([1, 2, 3])
    if j == 1:
        return P + 1 + rng.below(3)
    if j == 2:
        return B ** k - 1 - rng.below(3)
    if j == 3:          # just above B^(k-1): the reciprocal u is just below B^(k+1), the estimate q3 is at its worst
        return P + rng.bits(max(1, (k - 1) * w // 2)) + 1
    if j == 4:
        return (B ** k) // 2 + rng.choice([-1, 0, 1])
    if j == 5 and k > 1:
        return P + (rng.bits(w) << ((k - 2) * w)) + rng.below(4)
    return max(1, P + rng.below(B ** k - P))


def gen_barrt(rng, w, cap, digs, n):
    out = []
    B = 1 << w
    seen = {}

    def emit(a, m):
        if _used(a, w) > digs or _used(m, w) > digs:
            return
        out.append("nt_mod barrt %s %x" % (hx(a), m))
        p = barrt_path(abs(a), m, w)
        if p is not None:
            seen[p] = seen.get(p, 0) + 1

    for m in (1, 2, 3, 5, B - 1, B, B + 1, B * B - 1, B * B, B ** 3, B ** 3 + 1):
        out.append("nt_mod pre_barrt 0 %x" % m)
        for a in (0, 1, m - 1, m, m + 1, 2 * m, 2 * m - 1, 3 * m - 1, B ** (2 * _used(m, w)) - 1, B ** (2 * _used(m, w)), -m - 1, -2 * m + 1, -2 * m - 1,
                  -1, -(m - 1), -(m // 2), -m, -2 * m, -3 * m, -(B ** (2 * _used(m, w)) - 1) // m * m):      # negative: |a| < m, negative multiples (canonical since fix 060ee71)
            emit(a, m)
    out += ["nt_mod pre_barrt 0 0", "nt_mod pre_barrt 0 -5", "nt_mod barrt 5 0", "nt_mod barrt 5 -3", "nt_mod barrt -5 -3", "nt_mod barrt 0 0"]
    for _ in range(n):
        k = rng.choice([1, 1, 2, 2, 3, 1 + rng.below(max(1, digs // 2)), max(1, digs // 2)])
        m = barrt_modulus(rng, w, k)
        k = _used(m, w)
        N = B ** (2 * k)
        j = rng.below(10)
        if j == 0:
            out.append("nt_mod pre_barrt 0 %x" % m)
            continue
        if j == 1:      # quotient next to the B^k boundary, remainder 0 / 1 / m - 1
            q = rng.choice([B ** k - 1, B ** k, B ** k + 1, B ** (k - 1), B ** k - 2, N // m, N // m - 1])
            a = q * m + rng.choice([0, 1, m - 1, rng.below(m)])
        elif j == 2:    # 2k digits, all ones / top of the range
            a = N - 1 - rng.choice([0, 0, 1, rng.below(m), rng.bits(w)])
        elif j == 3:    # low k+1 digits (almost) zero: r1 - r2 wraps below zero
            hi = rng.choice([1, rng.bits(w * max(1, k - 1)) + 1, (1 << (w * max(1, k - 1))) - 1])
            a = (hi << (w * (k + 1))) + rng.choice([0, 0, 1, 7, rng.bits(w)])
        elif j == 4:    # early exit and its boundary
            a = rng.choice([0, 1, m - 1, m, m + 1, rng.below(m)])
        elif j == 5:    # longer than 2k digits: falls back to bn_mod_basic
            a = N + rng.choice([0, 1, rng.bits(w * 2 * k), N * rng.bits(w)])
        elif j == 6:    # steer towards two corrections: top of the range, modulus just above a power of the base
            m = B ** (k - 1) + 1 + rng.below(B) if k > 1 else m
            a = N - 1 - rng.below(B * B)
        else:
            a = rng.bits(rng.choice([2 * k * w, 2 * k * w - 1, (2 * k - 1) * w, k * w + 1 + rng.below(k * w)]))
        a %= 1 << (w * min(digs, cap // 2 - 1))
        if rng.chance(1, 6):
            a = -a
        emit(a, m)
    # make sure the rare branch combinations are present: search a little for every (wrap, corrections) not yet seen
    for want in [(False, 0), (False, 1), (False, 2), (True, 0), (True, 1), (True, 2)]:
        tries = 0
        while seen.get(want, 0) < 3 and tries < 4000:
            tries += 1
            k = 1 + rng.below(3)
            m = barrt_modulus(rng, w, k)
            k = _used(m, w)
            a = rng.choice([B ** (2 * k) - 1 - rng.below(B * B), rng.bits(2 * k * w), (rng.bits(w * (k - 1) + 1) << (w * (k + 1))) + rng.below(4),
                            ((B ** (2 * k)) // m - rng.below(3)) * m + m - 1 - rng.below(3)])
            if a >= 0 and barrt_path(a, m, w) == want:
                emit(a, m)
    return out


def odd_modulus(rng, w, k):
    B = 1 << w
    j = rng.below(8)
    if j == 0:
        m = B ** k - 1 - 2 * rng.below(3)
    elif j == 1:
        m = B ** (k - 1) + 1 + 2 * rng.below(3) if k > 1 else rng.choice([1, 3, 5])
    elif j == 2:
        m = (B ** k) // 2 + 1
    elif j == 3:        # low digit patterns for the Newton iteration of bn_mod_pre_monty
        m = (rng.bits((k - 1) * w) << w) | rng.choice([1, 3, 5, 7, 9, 11, 13, 15, B - 1, B - 3, B // 2 + 1, B // 2 - 1, int("55" * (w // 8), 16), int("aa" * (w // 8), 16) | 1])
        m |= (1 << ((k - 1) * w)) if k > 1 else 0
    else:
        m = rng.bits(k * w) | 1 | (1 << (k * w - 1 - rng.below(w)))
    return max(m, 1)


def gen_monty(rng, w, cap, digs, n):
    out = []
    B = 1 << w
    variants = ["monty", "monty_basic", "monty_comba", "monty_back", "monty_conv", "pre_monty"]
    for v in variants:      # error cases exactly as coded: even, zero, negative modulus
        for m in (0, 2, 4, B, -1, -3, -7, 2 * B + 2):
            out.append("nt_mod %s 5 %s" % (v, hx(m)))
    for m0 in (1, 3, 5, 7, 9, 11, 13, 15, B - 1, B - 3, B // 2 + 1, B // 2 - 1):
        out.append("nt_mod pre_monty 0 %x" % m0)
        out.append("nt_mod pre_monty 0 %x" % (m0 + B * 5))
    # the carry branch INSIDE the contract (T >= B^k needs m next to B^k and a next to m*R) and the final subtraction at equality,
    # for every REDC variant (seeded change: carry subtraction dropped in bn_mod_monty_basic / bn_modn_low)
    for k in (1, 2, 3, max(1, digs // 2)):
        R = B ** k
        for m in (R - 1, R - 3, R - 1 - 2 * rng.below(B // 4)):
            for v in ("monty", "monty_basic", "monty_comba", "monty_back"):
                for a in (m * R - 1, m * R - 2, m * R - m, m * R - 1 - rng.below(m), (m - 1) * R + rng.below(R), m * (R - 1), m):
                    if 0 <= a and _used(a, w) <= min(digs, cap // 2 - 1):
                        out.append("nt_mod %s %x %x" % (v, a, m))
    for _ in range(n):
        k = rng.choice([1, 1, 2, 2, 3, 1 + rng.below(max(1, digs // 2)), digs if rng.chance(1, 2) else max(1, digs // 2)])
        m = odd_modulus(rng, w, k)
        k = _used(m, w)
        R = B ** k
        v = rng.choice(variants)
        if v == "pre_monty":
            out.append("nt_mod pre_monty 0 %x" % m)
            continue
        if v == "monty_conv":
            a = rng.choice([0, 1, m - 1, m, m + 1, rng.below(m), rng.bits(2 * k * w), -rng.below(m) - 1, -m, -rng.bits(2 * k * w)])
            if _used(a, w) <= digs:
                out.append("nt_mod monty_conv %s %x" % (hx(a), m))
            continue
        j = rng.below(12)
        if j == 0:
            a = rng.choice([0, 1, m - 1, m, m + 1, R - 1, R, R + 1])
        elif j == 1:        # top of the contract range and just outside
            a = m * R - 1 - rng.choice([0, 0, 1, rng.below(m)])
        elif j == 2:
            a = m * R + rng.choice([0, 1, rng.below(max(1, R * R - m * R))])
        elif j == 3:        # multiples of m: REDC lands on 0 or exactly m (final subtraction at equality)
            a = m * rng.choice([1, 2, R - 1, R - 2, rng.below(R), R // 2])
        elif j == 4:        # 2k digits all ones (outside the contract unless m = R - 1): carry branch
            a = R * R - 1 - rng.choice([0, 1, rng.bits(w)])
        elif j == 5:        # longer than 2k digits: only the low 2k digits are read
            a = R * R * (1 + rng.bits(w)) + rng.bits(2 * k * w)
        elif j == 6:        # negative operand (outside the contract): comba reads the magnitude, basic keeps the sign
            a = -rng.below(m * R)
        elif j == 7:        # low half zero: every r_i = 0
            a = rng.below(m) * R
        else:
            a = rng.below(m * R)
        if v == "monty_back" and rng.chance(2, 3):
            a = abs(a) % m
        if _used(a, w) <= min(digs, cap // 2 - 1):
            out.append("nt_mod %s %s %x" % (v, hx(a), m))
    return out


def pmers_modulus(rng, w, digs):
    B = 1 << w
    maxbits = w * max(1, digs // 2)
    k = rng.choice([2, 3, 5, 7, w - 1, w, w + 1, 2 * w - 1, 2 * w, 2 * w + 1, 3 * w + 5, 1 + rng.below(maxbits), maxbits])
    k = max(2, min(k, maxbits))
    j = rng.below(8)
    if j == 0:
        c = 1                                   # Mersenne form
    elif j == 1:
        c = rng.choice([3, 5, 19, 17, 189])     # small c (one-digit u)
    elif j == 2:
        c = (1 << (k - 1))                      # m = 2^(k-1): u = 2^(bits-1)... (then bits = k, u = m): slowest folding
    elif j == 3:
        c = (1 << (k // 2)) + 1                 # sparse, u of several digits when k/2 >= w
    elif j == 4:
        c = rng.bits(max(1, k // 2)) | 1
    elif j == 5:
        c = (1 << (k - 1)) - 1 - rng.below(3)   # u just below 2^(bits-1)
    else:
        c = rng.below(1 << (k - 1)) + 1         # general modulus: any m is "2^bits - u" with u <= 2^(bits-1)
    m = (1 << k) - c
    return m if m > 0 else 1


def gen_pmers(rng, w, cap, digs, n):
    """every modulus m > 0 is admissible: u = 2^bits(m) - m <= 2^(bits-1), so the folding loop at least halves q in every round
    (Props.C09.mod_pmers_fold_terminates) — no hang guard is needed beyond the operand length"""
    out = ["nt_mod pmers 5 0", "nt_mod pmers 5 -7", "nt_mod pmers -5 -7", "nt_mod pmers 0 0", "nt_mod pmers 0 1", "nt_mod pmers 5 1", "nt_mod pmers 7 1",
           "nt_mod pmers 64 7", "nt_mod pmers -5 7", "nt_mod pmers -7 7", "nt_mod pmers -e 7", "nt_mod pmers -1 7", "nt_mod pmers -6 7", "nt_mod pmers -8 8", "nt_mod pmers -ff ff", "nt_mod pmers 8 8", "nt_mod pmers 7 8", "nt_mod pmers ff 10", "nt_mod pmers 100 ff"]
    maxd = min(digs, cap // 2 - 1)
    for _ in range(n):
        m = pmers_modulus(rng, w, digs)
        bits = m.bit_length()
        j = rng.below(10)
        if j == 0:
            a = rng.choice([0, 1, m - 1, m, m + 1, 2 * m, 2 * m - 1])
        elif j == 1:
            a = (1 << bits) + rng.choice([-1, 0, 1])
        elif j == 2:        # multiples and neighbours
            q = rng.bits(rng.choice([1, bits, bits + w]))
            a = q * m + rng.choice([0, 1, m - 1])
        elif j == 3:        # all ones, long
            a = (1 << (w * (1 + rng.below(maxd)))) - 1
        elif j == 4:
            a = rng.bits(2 * bits)
        elif j == 5:
            a = magnitude(rng, w, maxd)
        else:
            a = rng.bits(rng.choice([bits - 1, bits, bits + 1, 2 * bits - 1, 3 * bits]))
        a %= 1 << (w * maxd)
        if rng.chance(1, 5):
            a = -a
        out.append("nt_mod pmers %s %x" % (hx(a), m))
        if rng.chance(1, 4):     # negative operands: |a| < m, negative multiples of m (canonical since fix 060ee71), and their neighbours
            q = 1 + rng.bits(rng.choice([1, 3, bits]))
            for na in (-rng.below(m) if m > 1 else 0, -(m - 1), -m, -q * m, -q * m - 1, -q * m + 1):
                if abs(na).bit_length() <= w * maxd:
                    out.append("nt_mod pmers %s %x" % (hx(na), m))
    return out


def gen(rng, w, cap, digs, n):
    """structured lines for this family (n = budget of random lines; boundary lines come on top)"""
    out = []
    out += gen_srt(rng, w, cap, digs, n // 5)
    out += gen_barrt(rng, w, cap, digs, n // 3)
    out += gen_monty(rng, w, cap, digs, n // 3)
    out += gen_pmers(rng, w, cap, digs, n // 4)
    return out
